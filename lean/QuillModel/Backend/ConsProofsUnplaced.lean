import QuillModel.Backend.ConsProofsPop
/-!
C08 "never both": the id of a discarded log call is *unplaced* (below `nextId`, carried by no statement in any accepted
history or parked call), an unplaced id stays unplaced through every schedule (`Unplaced.run`), and an unplaced id
has no ordinary `write` event anywhere in the history.
-/
namespace Backend.PA
open Backend Spsc

theorem cntL_single_self (st : Stmt) (hk : isLogKind st.kind = true) : cntL st.id [st] = 1 := by
  simp [cntL, hk]

/-- **a refused log call leaves its id unplaced** (dropping queue, the calls that do not retry: `cont = 0` the dynamic
    call that reports its return value, `cont = 5` the macro call): whatever the way the call came here — directly,
    with a freshly allocated id, or resumed after a stall — if the reservation fails the id is carried by no statement
    afterwards -/
theorem enqFlow_dropped_unplaced {s : BSt} {a : Nat} {st : Stmt} (r : Room (fun _ => 0) s a st) (hd : s.cfg.dropping = true)
    (hk : isLogKind st.kind = true) (cont : Nat) (hc : cont = 0 ∨ cont = 5) (first initial : Bool)
    (hf : (tryEnq (ensureCtx s a).1 (ensureCtx s a).2 st).2 = false) :
    Unplaced (enqFlow s a st cont first initial).1 st.id := by
  have key : (enqFlow s a st cont first initial).1.nextId = s.nextId ∧
      tot (enqFlow s a st cont first initial).1 st.id ≤ cntA s st.id + cntBo s a st.id := by
    unfold Backend.enqFlow
    have h1 := Mid.ensureCtx a r.ua
    generalize Backend.ensureCtx s a = e at h1 hf ⊢
    obtain ⟨s1, ci⟩ := e
    dsimp only at h1 hf ⊢
    obtain ⟨h2, _⟩ := h1.tryEnq ci st
    generalize Backend.tryEnq s1 ci st = e2 at h2 hf ⊢
    obtain ⟨s2, ok⟩ := e2
    dsimp only at h2 hf ⊢
    subst hf
    simp only [Bool.false_eq_true, if_false]
    have h2' : Mid s a s2 (fun _ => 0) := h2.mono (fun id => by simp)
    rw [if_pos hd, if_pos hc, if_pos hk]
    have hmid : ∀ f : Th → Th, (∀ t, (f t).accepted = t.accepted) →
        ((s2.setTh ci f).setActor a (fun x => { x with pend := .none })).nextId = s.nextId ∧
        tot ((s2.setTh ci f).setActor a (fun x => { x with pend := .none })) st.id ≤ cntA s st.id + cntBo s a st.id := by
      intro f hf
      have hb : Mid s a (s2.setTh ci f) (fun _ => 0) := h2'.setTh_same ci f (hf _)
      have hm := hb.setActor (fun x => { x with pend := .none }) (keepsId_pend _)
      have hba := cntBa_setPend_le hb.ua a _ (keepsId_pend .none) .none (fun _ => rfl) st.id
      have hz : cntL st.id (pendL Pend.none) = 0 := rfl
      refine ⟨hm.nextId, ?_⟩
      rw [tot_eq _ a st.id, hm.bo st.id]
      have := hm.ca st.id
      omega
    exact hmid _ (fun _ => rfl)
  have hle := r.le st.id
  rw [cntL_single_self st hk] at hle
  refine ⟨?_, by have := key.2; omega⟩
  rw [key.1]
  by_cases hlt : st.id < s.nextId
  · exact hlt
  · have := r.lt st.id (by omega)
    rw [cntL_single_self st hk] at this; omega

theorem Unplaced.noteCall {r : BSt × String} {id : Nat} (u : Unplaced r.1 id) (a g : Nat) :
    Unplaced (Backend.noteCall r a g).1 id := by
  have key : ∀ f : Actor → Actor, (∀ x, (f x).pend = x.pend) → Unplaced (r.1.setActor a f) id := by
    intro f hp
    refine ⟨u.lt, ?_⟩
    have := u.none
    unfold tot at this ⊢
    rw [cntB_setActor_same r.1 a f hp]
    exact this
  unfold Backend.noteCall
  exact key _ (fun _ => rfl)

theorem withLogger_eq (s : BSt) (a g lgi : Nat) (k : Nat → BSt × String) (h1 : loggerOf s g = some lgi)
    (h2 : idleActor s a = true) : withLogger s a g k = Backend.noteCall (k lgi) a g := by
  unfold withLogger; rw [h1, h2]

theorem frontCall_eq_enqFlow (s : BSt) (a lgi : Nat) (kind : Kind) (lvl len cont : Nat) (dyn : Bool) (id : Nat) (named : Bool)
    (hns : ((s.actor a).map (·.stallArmed)).getD false = false) :
    frontCall s a lgi kind lvl len cont dyn id named =
      enqFlow s a { id := id, kind := kind, lg := lgi, lvl := lvl, ts := s.now,
                    size := stmtSize s.cfg kind id len dyn (s.lgOf lgi).gid, actor := a, named := named } cont true := by
  unfold frontCall
  dsimp only
  rw [hns]
  simp

/-- an id that no statement carries has no ordinary write in the history -/
theorem Inv.unplaced_unwritten {s : BSt} (h : Inv s) (id : Nat) (hz : tot s id = 0) (sid : Nat) :
    wcount s.log sid id = 0 := by
  have hb := h.w.bound sid id
  unfold popBound at hb
  have hlen : (s.popLog.filter (fun x => isOrd x && x.id == id)).length = 0 := by
    rw [← List.countP_eq_length_filter]
    have h1 := h.p (fun x => isOrd x && x.id == id)
    have h2 := cntP_le_cA h.a (fun x => isOrd x && x.id == id)
    have h3 := cA_mono s (fun x => isOrd x && x.id == id) (logq id) (fun x hx => by
      simp only [isOrd, Bool.and_eq_true, beq_iff_eq] at hx
      simp [logq, hx.1.1, hx.2])
    have h4 : cA s (logq id) = cntA s id := (cntA_eq_cA s id).symm
    unfold tot at hz
    omega
  rw [List.length_eq_zero_iff.mp hlen] at hb
  simpa using hb

/-- **never both**: once an id is unplaced, no schedule ever produces an ordinary write carrying it -/
theorem Inv.unplaced_never_written {s : BSt} (h : Inv s) (id : Nat) (u : Unplaced s id) (ops : List Op) (sid : Nat) :
    wcount (runOps s ops).log sid id = 0 :=
  (h.run ops).unplaced_unwritten id (Unplaced.run h.b u ops).none sid

end Backend.PA
