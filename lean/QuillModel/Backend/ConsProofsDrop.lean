import QuillModel.Backend.ConsProofsPop
/-!
Accounting of refused log calls (C08): per context `fail` (the failure counter), `discarded` / `blockedCalls`
(ghost: refused calls on a dropping / blocking queue), globally `reported` (ghost: what the notifier was told).
`InvD`: Σ (discarded + blockedCalls) = reported + Σ fail over all contexts ever created, in every reachable state;
on a dropping queue no call ever blocks, on a blocking queue none is discarded.
-/
namespace Backend.PA
open Backend Spsc

/-- the three counters of every context ever created: (fail, discarded, blockedCalls) -/
def ctrs (s : BSt) : List (Nat × Nat × Nat) := s.ths.map (fun t => (t.fail, t.discarded, t.blockedCalls))

structure InvD (s : BSt) : Prop where
  sum : ((ctrs s).map (fun c => c.2.1 + c.2.2)).sum = s.reported + ((ctrs s).map (·.1)).sum
  excl : ∀ c ∈ ctrs s, if s.cfg.dropping = true then c.2.2 = 0 else c.2.1 = 0

theorem InvD.of_eq {s s' : BSt} (h : InvD s) (h1 : s'.cfg = s.cfg) (h2 : s'.reported = s.reported)
    (h3 : ctrs s' = ctrs s) : InvD s' :=
  ⟨by rw [h3, h2]; exact h.sum, by rw [h3, h1]; exact h.excl⟩

theorem map_updAt_comm {α β} (l : List α) (i : Nat) (f : α → α) (p : α → β) (f' : β → β)
    (hc : ∀ x, p (f x) = f' (p x)) : (updAt l i f).map p = updAt (l.map p) i f' := by
  apply List.ext_getElem?
  intro j
  simp only [updAt, List.getElem?_map, List.getElem?_mapIdx]
  cases l[j]? with
  | none => rfl
  | some t => simp only [Option.map_some]; split <;> simp [hc]

theorem updAt_id {α} (l : List α) (i : Nat) : updAt l i (fun x => x) = l := by
  apply List.ext_getElem?
  intro j
  simp only [updAt, List.getElem?_mapIdx]
  cases l[j]? <;> simp

theorem ctrs_setTh_same (s : BSt) (i : Nat) (f : Th → Th)
    (hf : ∀ t, (f t).fail = t.fail ∧ (f t).discarded = t.discarded ∧ (f t).blockedCalls = t.blockedCalls) :
    ctrs (s.setTh i f) = ctrs s := by
  simp only [ctrs, BSt.setTh]
  rw [map_updAt_comm s.ths i f _ (fun x => x) (fun t => by simp [(hf t).1, (hf t).2.1, (hf t).2.2]), updAt_id]

theorem ctrs_setTh (s : BSt) (i : Nat) (f : Th → Th) (f' : Nat × Nat × Nat → Nat × Nat × Nat)
    (hf : ∀ t, ((f t).fail, (f t).discarded, (f t).blockedCalls) = f' (t.fail, t.discarded, t.blockedCalls)) :
    ctrs (s.setTh i f) = updAt (ctrs s) i f' := by
  simp only [ctrs, BSt.setTh]
  exact map_updAt_comm s.ths i f _ f' hf

theorem InvD.setTh_same {s : BSt} (h : InvD s) (i : Nat) (f : Th → Th)
    (hf : ∀ t, (f t).fail = t.fail ∧ (f t).discarded = t.discarded ∧ (f t).blockedCalls = t.blockedCalls) :
    InvD (s.setTh i f) := h.of_eq rfl rfl (ctrs_setTh_same s i f hf)

theorem mem_updAt {α} {l : List α} {i : Nat} {f : α → α} {y : α} (h : y ∈ updAt l i f) : y ∈ l ∨ ∃ x ∈ l, y = f x := by
  obtain ⟨j, hj, e⟩ := List.mem_iff_getElem.mp h
  simp only [updAt, List.getElem_mapIdx] at e
  have hj' : j < l.length := by simpa [updAt] using hj
  split at e
  · exact Or.inr ⟨l[j], List.getElem_mem hj', e.symm⟩
  · exact Or.inl (e ▸ List.getElem_mem hj')

/-- a refused ordinary log call: the failure counter and exactly one of the two ghost counters go up by one -/
theorem InvD.bump {s : BSt} (h : InvD s) (ci : Nat) (hci : ci < s.ths.length) (f : Th → Th) (d1 d2 : Nat)
    (hf : ∀ t, (f t).fail = t.fail + 1 ∧ (f t).discarded = t.discarded + d1 ∧ (f t).blockedCalls = t.blockedCalls + d2)
    (hd : d1 + d2 = 1) (hx : if s.cfg.dropping = true then d2 = 0 else d1 = 0) : InvD (s.setTh ci f) := by
  have hc := ctrs_setTh s ci f (fun c => (c.1 + 1, c.2.1 + d1, c.2.2 + d2))
    (fun t => by rw [(hf t).1, (hf t).2.1, (hf t).2.2])
  have hl : ci < (ctrs s).length := by simpa [ctrs] using hci
  refine ⟨?_, ?_⟩
  · rw [hc]
    have e1 := sum_map_updAt (ctrs s) ci (fun c => (c.1 + 1, c.2.1 + d1, c.2.2 + d2)) (fun c : Nat × Nat × Nat => c.2.1 + c.2.2) hl
    have e2 := sum_map_updAt (ctrs s) ci (fun c => (c.1 + 1, c.2.1 + d1, c.2.2 + d2)) (fun c : Nat × Nat × Nat => c.1) hl
    have := h.sum
    show ((updAt (ctrs s) ci _).map (fun c => c.2.1 + c.2.2)).sum = s.reported + ((updAt (ctrs s) ci _).map (·.1)).sum
    dsimp only at e1 e2
    omega
  · rw [hc]
    intro c hcm
    show if s.cfg.dropping = true then c.2.2 = 0 else c.2.1 = 0
    rcases mem_updAt hcm with hm | ⟨x, hx', rfl⟩
    · exact h.excl c hm
    · have := h.excl x hx'
      dsimp only
      split <;> simp_all

theorem InvD.failReset {s : BSt} (h : InvD s) (i : Nat) (hf : 0 < (s.th i).fail) : InvD (failReset s i) := by
  have hi : i < s.ths.length := by
    by_cases hi : i < s.ths.length
    · exact hi
    · rw [th_default_of_ge s i (by omega)] at hf; cases hf
  have hc := ctrs_setTh s i (fun t => { t with fail := 0 }) (fun c => (0, c.2.1, c.2.2)) (fun _ => rfl)
  have hl : i < (ctrs s).length := by simpa [ctrs] using hi
  have hget : (ctrs s)[i] = ((s.th i).fail, (s.th i).discarded, (s.th i).blockedCalls) := by
    simp [ctrs, th_eq_getElem s i hi]
  unfold PA.failReset
  refine ⟨?_, ?_⟩
  · show ((ctrs (s.setTh i _)).map (fun c => c.2.1 + c.2.2)).sum = (s.reported + (s.th i).fail) + ((ctrs (s.setTh i _)).map (·.1)).sum
    rw [hc]
    have e1 := sum_map_updAt (ctrs s) i (fun c => (0, c.2.1, c.2.2)) (fun c : Nat × Nat × Nat => c.2.1 + c.2.2) hl
    have e2 := sum_map_updAt (ctrs s) i (fun c => (0, c.2.1, c.2.2)) (fun c : Nat × Nat × Nat => c.1) hl
    have := h.sum
    rw [hget] at e1 e2
    dsimp only at e1 e2
    omega
  · show ∀ c ∈ ctrs (s.setTh i _), if s.cfg.dropping = true then c.2.2 = 0 else c.2.1 = 0
    rw [hc]
    intro c hcm
    rcases mem_updAt hcm with hm | ⟨x, hx, rfl⟩
    · exact h.excl c hm
    · exact h.excl x hx

theorem ctrs_of_ths {s s' : BSt} (h : s'.ths = s.ths) : ctrs s' = ctrs s := by simp only [ctrs, h]

theorem InvD.of_core {s s' : BSt} (h : InvD s) (c : Core s s') : InvD s' := h.of_eq c.cfg c.reported (ctrs_of_ths c.ths)

end Backend.PA

namespace Backend.PA
open Backend Spsc

theorem InvD.ensureCtx {s : BSt} (h : InvD s) (a : Nat) :
    InvD (ensureCtx s a).1 ∧ (ensureCtx s a).1.cfg = s.cfg := by
  unfold Backend.ensureCtx
  split
  · exact ⟨h, rfl⟩
  · refine ⟨⟨?_, ?_⟩, rfl⟩
    · have : ctrs ({ s with ths := s.ths ++ [mkTh s.cfg a], registry := s.registry ++ [s.ths.length], newFlag := true } : BSt) =
          ctrs s ++ [(0, 0, 0)] := by simp [ctrs, mkTh]
      show ((ctrs ({ s with ths := s.ths ++ [mkTh s.cfg a], registry := s.registry ++ [s.ths.length], newFlag := true } : BSt)).map _).sum =
        s.reported + ((ctrs ({ s with ths := s.ths ++ [mkTh s.cfg a], registry := s.registry ++ [s.ths.length], newFlag := true } : BSt)).map _).sum
      rw [this]; simp; exact h.sum
    · intro c hc
      have : ctrs ({ s with ths := s.ths ++ [mkTh s.cfg a], registry := s.registry ++ [s.ths.length], newFlag := true } : BSt) =
          ctrs s ++ [(0, 0, 0)] := by simp [ctrs, mkTh]
      have hc' : c ∈ ctrs s ++ [(0, 0, 0)] := this ▸ hc
      show if s.cfg.dropping = true then c.2.2 = 0 else c.2.1 = 0
      rcases List.mem_append.mp hc' with hm | hm
      · exact h.excl c hm
      · simp at hm; subst hm; split <;> rfl

theorem tryEnq_ctrs (s : BSt) (ci : Nat) (st : Stmt) :
    ctrs (tryEnq s ci st).1 = ctrs s ∧ (tryEnq s ci st).1.cfg = s.cfg ∧ (tryEnq s ci st).1.reported = s.reported := by
  unfold Backend.tryEnq
  dsimp only
  split
  · exact ⟨ctrs_setTh_same s ci _ (fun _ => ⟨rfl, rfl, rfl⟩), rfl, rfl⟩
  · exact ⟨ctrs_setTh_same s ci _ (fun _ => ⟨rfl, rfl, rfl⟩), rfl, rfl⟩

theorem afterEnq_ctrs (s : BSt) (a : Nat) (st : Stmt) (cont : Nat) :
    ctrs (afterEnq s a st cont).1 = ctrs s ∧ (afterEnq s a st cont).1.cfg = s.cfg ∧
    (afterEnq s a st cont).1.reported = s.reported := by
  unfold Backend.afterEnq
  split <;> exact ⟨rfl, rfl, rfl⟩

theorem InvD.enqFlow {s : BSt} (h : InvD s) (a : Nat) (st : Stmt) (cont : Nat) (first initial : Bool) :
    InvD (enqFlow s a st cont first initial).1 := by
  unfold Backend.enqFlow
  obtain ⟨h1, hcfg1⟩ := h.ensureCtx a
  generalize Backend.ensureCtx s a = e at h1 hcfg1 ⊢
  obtain ⟨s1, ci⟩ := e
  dsimp only at h1 hcfg1 ⊢
  obtain ⟨t1, t2, t3⟩ := tryEnq_ctrs s1 ci st
  have h2 : InvD (tryEnq s1 ci st).1 := h1.of_eq t2 t3 t1
  have hcfg2 : (tryEnq s1 ci st).1.cfg = s.cfg := t2.trans hcfg1
  generalize Backend.tryEnq s1 ci st = e2 at h2 hcfg2 ⊢
  obtain ⟨s2, ok⟩ := e2
  dsimp only at h2 hcfg2 ⊢
  have hset : ∀ (s3 : BSt) (f : Actor → Actor), InvD s3 → InvD (s3.setActor a f) :=
    fun s3 f h3 => h3.of_eq rfl rfl rfl
  have hbump : InvD (if isLogKind st.kind = true then
      s2.setTh ci (fun t => { t with fail := t.fail + 1, discarded := t.discarded + (if s.cfg.dropping = true then 1 else 0), blockedCalls := t.blockedCalls + (if s.cfg.dropping = true then 0 else 1) })
      else s2) := by
    split
    · by_cases hci : ci < s2.ths.length
      · refine h2.bump ci hci _ (if s.cfg.dropping = true then 1 else 0) (if s.cfg.dropping = true then 0 else 1)
          (fun _ => ⟨rfl, rfl, rfl⟩) (by split <;> rfl) ?_
        rw [hcfg2]; split <;> simp_all
      · rw [setTh_of_ge s2 ci _ (by omega)]; exact h2
    · exact h2
  split
  · obtain ⟨a1, a2, a3⟩ := afterEnq_ctrs (s2.setActor a (fun x => { x with pend := .none })) a st cont
    exact (hset s2 _ h2).of_eq a2 a3 a1
  · by_cases hd : s.cfg.dropping = true
    · rw [if_pos hd]
      rw [if_pos hd] at hbump
      simp only [hd, if_true] at hbump ⊢
      split
      · exact hset _ _ hbump
      · exact hset _ _ hbump
    · rw [if_neg hd]
      simp only [hd, if_false] at hbump ⊢
      apply hset
      split
      · exact hbump
      · exact h2

theorem InvD.frontCall {s : BSt} (h : InvD s) (a lgi : Nat) (kind : Kind) (lvl len cont : Nat) (dyn : Bool) (id : Nat)
    (named : Bool) : InvD (frontCall s a lgi kind lvl len cont dyn id named).1 := by
  unfold Backend.frontCall
  dsimp only
  split
  · exact h.of_eq rfl rfl rfl
  · exact h.enqFlow ..

theorem InvD.resume {s : BSt} (h : InvD s) (a : Nat) : InvD (resume s a).1 := by
  unfold Backend.resume
  split
  · exact h.enqFlow ..
  · split <;> exact h.enqFlow ..
  · split
    · exact h.of_eq rfl rfl rfl
    · exact h
  · exact h

theorem InvD.withLogger {s : BSt} (h : InvD s) (a gid : Nat) (k : Nat → BSt × String)
    (hk : ∀ lgi, InvD (k lgi).1) : InvD (withLogger s a gid k).1 := by
  unfold Backend.withLogger
  split
  · exact (hk _).of_eq rfl rfl rfl
  · exact h

theorem InvD.front {s : BSt} (h : InvD s) (f : FOp) : InvD (applyFront s f).1 := by
  cases f with
  | tick dt => exact h.of_eq rfl rfl rfl
  | tstart a => simp only [applyFront]; split <;> first | exact h | exact h.of_eq rfl rfl rfl
  | texit a =>
    simp only [applyFront]
    split
    · exact h
    · split
      · next i _ =>
        have h1 : InvD (s.setActor a (fun x => { x with alive := false })) := h.of_eq rfl rfl rfl
        exact InvD.of_eq (h1.setTh_same i (fun t => { t with valid := false }) (fun _ => ⟨rfl, rfl, rfl⟩)) rfl rfl rfl
      · exact h.of_eq rfl rfl rfl
  | resume a =>
    simp only [applyFront]
    have h1 := h.resume a
    split
    · exact h1
    · split
      · exact h1
      · exact h1.of_eq rfl rfl rfl
  | armStall a => simp only [applyFront]; split <;> first | exact h | exact h.of_eq rfl rfl rfl
  | log a g lvl len dyn =>
    simp only [applyFront]
    apply h.withLogger
    intro lgi
    have h1 : InvD ({ s with nextId := s.nextId + 1 } : BSt) := h.of_eq rfl rfl rfl
    split
    · exact h1.frontCall ..
    · exact h1
  | logNamed a g len =>
    simp only [applyFront]
    apply h.withLogger
    intro lgi
    have h1 : InvD ({ s with nextId := s.nextId + 1 } : BSt) := h.of_eq rfl rfl rfl
    split
    · exact h1.frontCall ..
    · exact h1
  | logBt a g len =>
    simp only [applyFront]
    apply h.withLogger
    intro lgi
    have h1 : InvD ({ s with nextId := s.nextId + 1 } : BSt) := h.of_eq rfl rfl rfl
    split
    · exact h1.frontCall ..
    · exact h1
  | initBt a g cap fl => simp only [applyFront]; exact h.withLogger _ _ _ (fun lgi => h.frontCall ..)
  | flushBt a g => simp only [applyFront]; exact h.withLogger _ _ _ (fun lgi => h.frontCall ..)
  | flush a g =>
    simp only [applyFront]
    apply h.withLogger
    intro lgi
    have h1 : InvD ({ s with nextFlag := s.nextFlag + 1 } : BSt) := h.of_eq rfl rfl rfl
    exact h1.frontCall ..
  | removeBlocking a g =>
    simp only [applyFront]
    split
    · exact h
    · apply h.withLogger
      intro lgi
      have h1 : InvD (dropName { s with nextFlag := s.nextFlag + 1 } g) := h.of_eq rfl rfl rfl
      exact h1.frontCall ..
  | remove a g =>
    simp only [applyFront]
    split
    · exact h
    · split
      · exact h.of_eq rfl rfl rfl
      · exact h
  | create a g sl =>
    simp only [applyFront]
    split
    · exact h
    · split
      · split
        · exact h
        · exact h.of_eq rfl rfl rfl
      · exact h.of_eq rfl rfl rfl
  | setLevel g lvl => simp only [applyFront]; split <;> first | exact h | exact h.of_eq rfl rfl rfl
  | setSinkLevel sid lvl => simp only [applyFront]; split <;> first | exact h | exact h.of_eq rfl rfl rfl
  | dropSink sid =>
    simp only [applyFront]
    exact (InvD.of_eq (s' := s.setSink sid (fun k => { k with userRef := false })) h rfl rfl rfl).of_core
      (reapSinks_frame _ _).core
  | query => exact h

theorem InvD.closed : Closed InvD where
  frame := fun _ _ h f => h.of_core f.core
  refresh := fun s h => by
    unfold refreshCache; split
    · exact h.of_eq rfl rfl rfl
    · exact h
  ctxEmpty := fun _ _ h => h.setTh_same _ _ (fun _ => ⟨rfl, rfl, rfl⟩)
  dropCtx := fun s i h _ _ _ => by
    refine h.of_eq rfl rfl ?_
    unfold PA.dropCtx
    rw [ctrs_setTh_same]
    · show ctrs (ctxEmpty s i).1 = ctrs s
      rw [ctxEmpty_fst, ctrs_setTh_same]; intro _; exact ⟨rfl, rfl, rfl⟩
    · intro _; exact ⟨rfl, rfl, rfl⟩
  prepRead := fun _ _ h => h.setTh_same _ _ (fun _ => ⟨rfl, rfl, rfl⟩)
  commitRead := fun _ _ h => h.setTh_same _ _ (fun _ => ⟨rfl, rfl, rfl⟩)
  readOne := fun s i st rest h _ _ => by
    refine h.of_eq ?_ ?_ ?_
    · unfold PA.readOne; dsimp only; split <;> rfl
    · unfold PA.readOne; dsimp only; split <;> rfl
    · unfold PA.readOne
      dsimp only
      rw [ctrs_setTh_same]
      · split
        · show ctrs (s.setTh i _) = ctrs s
          rw [ctrs_setTh_same]; intro _; exact ⟨rfl, rfl, rfl⟩
        · rw [ctrs_setTh_same]; intro _; exact ⟨rfl, rfl, rfl⟩
      · intro _; exact ⟨rfl, rfl, rfl⟩
  pop := fun s i st rest h _ => by
    have c := processEvent_core s st
    refine h.of_eq ?_ ?_ ?_
    · unfold popStep; dsimp only; split <;> exact c.cfg
    · unfold popStep; dsimp only; split <;> exact c.reported
    · unfold popStep
      dsimp only
      show ctrs (BSt.setTh _ i _) = ctrs s
      rw [ctrs_setTh_same]
      · split
        · exact ctrs_of_ths c.ths
        · exact ctrs_of_ths c.ths
      · intro _; exact ⟨rfl, rfl, rfl⟩
  failReset := fun _ i h hf => h.failReset i hf
  front := fun _ f h => h.front f

end Backend.PA
