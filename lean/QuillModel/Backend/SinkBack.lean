import QuillModel.Backend.SinkProofs
/-!
`LS` through sink destruction, logger erasure and creation, the frontend operations and the backend's pieces;
the full C17 invariant `FInv = LInv ∧ LS` holds along every schedule (`FInv_runOps`). Helper lemmas for C17.
-/
namespace Backend.PC
open Backend Spsc

theorem sinkRefs_zero {s : BSt} {sid : Nat} (h : sinkRefs s sid = 0) :
    (s.sinkOf sid).userRef = false ∧ ∀ i, i < s.lgs.length → (s.lgOf i).erased = false → sid ∉ (s.lgOf i).sinks := by
  unfold sinkRefs at h
  have h1 : (if (s.sinkOf sid).userRef = true then 1 else 0) = 0 := by omega
  have h2 : (s.lgs.filter (fun l => !l.erased && l.sinks.contains sid)).length = 0 := by omega
  refine ⟨?_, fun i hi he hm => ?_⟩
  · cases hu : (s.sinkOf sid).userRef
    · rfl
    · rw [hu] at h1; simp at h1
  · have hnil := List.length_eq_zero_iff.mp h2
    have hlg : s.lgOf i = s.lgs[i] := by
      simp only [BSt.lgOf, List.getD_eq_getElem?_getD, List.getElem?_eq_getElem hi, Option.getD_some]
    have : s.lgs[i] ∈ s.lgs.filter (fun l => !l.erased && l.sinks.contains sid) := by
      rw [List.mem_filter]
      refine ⟨List.getElem_mem hi, ?_⟩
      rw [← hlg, he]
      simp only [Bool.not_false, Bool.true_and, List.contains_iff_mem]
      exact hm
    rw [hnil] at this; cases this

theorem LS_reapStep {s : BSt} (h : LS s) (sid : Nat) (ha : (s.sinkOf sid).alive = true) (hr : sinkRefs s sid = 0) :
    LS ((s.setSink sid (fun k => { k with alive := false })).emit (.sinkDtor sid)) := by
  obtain ⟨r1, r2⟩ := sinkRefs_zero hr
  have hex : ∃ x ∈ s.sinks, x.sid = sid := by
    apply Classical.byContradiction
    intro hne
    rw [sinkOf_default_of_not_mem s sid hne] at r1
    cases r1
  have hsame : ((s.setSink sid (fun k => { k with alive := false })).sinkOf sid) = { s.sinkOf sid with alive := false } :=
    sinkOf_setSink_same s sid _ (fun _ => rfl) hex
  have hne : ∀ sid', sid' ≠ sid → (s.setSink sid (fun k => { k with alive := false })).sinkOf sid' = s.sinkOf sid' :=
    fun sid' hs => sinkOf_setSink_ne s sid sid' _ (fun _ => rfl) hs
  refine ⟨?_, ?_, h.ring, ?_, ?_⟩
  · have := setSink_sids s sid (fun k => { k with alive := false }) (fun x _ hx => hx)
    show ((s.setSink sid (fun k => { k with alive := false })).sinks.map (·.sid)).Nodup
    rw [this]; exact h.nodup
  · intro sid' hd
    have hd' : ((s.setSink sid (fun k => { k with alive := false })).sinkOf sid').alive = false := hd
    show ((s.setSink sid _).sinkOf sid').userRef = false ∧ _
    by_cases hs : sid' = sid
    · subst hs
      rw [hsame]; exact ⟨r1, r2⟩
    · rw [hne sid' hs] at hd' ⊢
      exact h.dead sid' hd'
  · intro sid' hal d hd
    have hal' : ((s.setSink sid (fun k => { k with alive := false })).sinkOf sid').alive = true := hal
    have hs : sid' ≠ sid := by
      intro e; subst e; rw [hsame] at hal'; cases hal'
    rw [hne sid' hs] at hal'
    have hd' : d ∈ Ev.sinkDtor sid :: s.log := hd
    rcases List.mem_cons.mp hd' with rfl | hd'
    · simp only [isDtor, beq_eq_false_iff_ne, ne_eq]; exact fun e => hs e.symm
    · exact h.nodtor sid' hal' d hd'
  · exact ⟨h.nouad, fun k hk => by cases hk⟩

theorem LS_reapSinks (sids : List Nat) : ∀ (s : BSt), LS s → LS (reapSinks s sids) := by
  unfold reapSinks
  induction sids with
  | nil => intro s h; exact h
  | cons x xs ih =>
    intro s h
    simp only [List.foldl_cons]
    apply ih
    split
    · rename_i hc
      simp only [Bool.and_eq_true, decide_eq_true_eq] at hc
      exact LS_reapStep h x hc.1 hc.2
    · exact h

/-- erasing a logger object only removes references -/
theorem LS_erase {s : BSt} (h : LS s) (i : Nat) : LS (s.setLg i (fun l => { l with erased := true })) := by
  refine ⟨h.nodup, ?_, ?_, h.nodtor, h.nouad⟩
  · intro sid ha
    obtain ⟨h1, h2⟩ := h.dead sid ha
    refine ⟨h1, fun j hj he => ?_⟩
    rw [lgs_length_setLg] at hj
    rw [lgOf_setLg] at he ⊢
    split at he
    · cases he
    · rename_i hn; simp only [hn, if_false]; exact h2 j hj he
  · apply ring_setLg i _ h.ring
    intro r' hr' x hx
    right; exact ⟨r', hr', hx⟩

theorem find_of_mem_nodup : ∀ (l : List Sink), (l.map (·.sid)).Nodup → ∀ k ∈ l,
    l.find? (·.sid = k.sid) = some k
  | [], _, _, hk => by cases hk
  | y :: ys, hn, k, hk => by
    rw [List.map_cons, List.nodup_cons] at hn
    rw [List.find?_cons]
    rcases List.mem_cons.mp hk with rfl | hk'
    · simp
    · have : ¬ y.sid = k.sid := by
        intro e
        apply hn.1
        rw [e]; exact List.mem_map.mpr ⟨k, hk', rfl⟩
      simp only [this, decide_false]
      exact find_of_mem_nodup ys hn.2 k hk'

theorem sinkOf_of_mem_nodup {s : BSt} (hn : (s.sinks.map (·.sid)).Nodup) {k : Sink} (hk : k ∈ s.sinks) :
    s.sinkOf k.sid = k := by
  simp only [BSt.sinkOf, find_of_mem_nodup s.sinks hn k hk, Option.getD_some]

/-- creating a logger object whose sinks are all alive -/
theorem LS_newLogger {s : BSt} (h : LS s) (g : Nat) (sl : List Nat) (nm : List (Nat × Nat))
    (hsl : ∀ sid ∈ sl, ∃ k ∈ s.sinks, k.sid = sid ∧ k.alive = true) :
    LS { s with lgs := s.lgs ++ [{ gid := g, sinks := sl }], names := nm } := by
  have hlt : ∀ j, j < s.lgs.length →
      BSt.lgOf { s with lgs := s.lgs ++ [{ gid := g, sinks := sl }], names := nm } j = s.lgOf j := by
    intro j hj
    simp only [BSt.lgOf, List.getD_eq_getElem?_getD, List.getElem?_append_left hj]
  have hnew : BSt.lgOf { s with lgs := s.lgs ++ [{ gid := g, sinks := sl }], names := nm } s.lgs.length =
      { gid := g, sinks := sl } := by
    simp only [BSt.lgOf, List.getD_eq_getElem?_getD]; simp
  refine ⟨h.nodup, ?_, ?_, h.nodtor, h.nouad⟩
  · intro sid ha
    obtain ⟨h1, h2⟩ := h.dead sid ha
    refine ⟨h1, fun j hj he => ?_⟩
    have hj' : j < s.lgs.length + 1 := by
      have : j < (s.lgs ++ [({ gid := g, sinks := sl } : Lg)]).length := hj
      simpa using this
    by_cases hjn : j = s.lgs.length
    · subst hjn
      rw [hnew]
      intro hm
      obtain ⟨k, hk, hks, hka⟩ := hsl sid hm
      have := sinkOf_of_mem_nodup h.nodup hk
      rw [hks] at this
      have ha' : (s.sinkOf sid).alive = false := ha
      rw [this, hka] at ha'; cases ha'
    · have hlt' : j < s.lgs.length := by omega
      rw [hlt j hlt'] at he ⊢
      exact h2 j hlt' he
  · intro j hj r hbt
    have hj' : j < s.lgs.length + 1 := by
      have : j < (s.lgs ++ [({ gid := g, sinks := sl } : Lg)]).length := hj
      simpa using this
    by_cases hjn : j = s.lgs.length
    · subst hjn; rw [hnew] at hbt; cases hbt
    · have hlt' : j < s.lgs.length := by omega
      rw [hlt j hlt'] at hbt
      exact h.ring j hlt' r hbt


/-! ### the frontend leaves sinks, ring storage and the log alone (except create / sink operations) -/

theorem ensureCtx_sview (s : BSt) (a : Nat) : sview (ensureCtx s a).1 = sview s := by
  unfold ensureCtx; split <;> rfl

theorem tryEnq_sview (s : BSt) (ci : Nat) (st : Stmt) : sview (tryEnq s ci st).1 = sview s := by
  unfold tryEnq; simp only []; split <;> rfl

theorem afterEnq_sview (s : BSt) (a : Nat) (st : Stmt) (cont : Nat) : sview (afterEnq s a st cont).1 = sview s := by
  unfold afterEnq
  split
  · rfl
  · exact sview_setLg s _ _ (fun _ => ⟨rfl, rfl, rfl⟩)
  · rfl
  · have := sview_setLg s st.lg (fun l => { l with valid := false }) (fun _ => ⟨rfl, rfl, rfl⟩)
    exact this
  · rfl

theorem enqFlow_sview (s : BSt) (a : Nat) (st : Stmt) (cont : Nat) (first initial : Bool) :
    sview (enqFlow s a st cont first initial).1 = sview s := by
  have h0 : sview (tryEnq (ensureCtx s a).1 (ensureCtx s a).2 st).1 = sview s := by
    rw [tryEnq_sview, ensureCtx_sview]
  unfold enqFlow
  simp only []
  split
  · rw [afterEnq_sview]; exact h0
  · repeat' split
    all_goals exact h0

theorem frontCall_sview (s : BSt) (a lgi : Nat) (kind : Kind) (lvl len cont : Nat) (dyn : Bool) (id : Nat) (named : Bool) :
    sview (frontCall s a lgi kind lvl len cont dyn id named).1 = sview s := by
  unfold frontCall; simp only []; split
  · rfl
  · exact enqFlow_sview ..

theorem resume_sview (s : BSt) (a : Nat) : sview (resume s a).1 = sview s := by
  unfold resume; split
  · exact enqFlow_sview ..
  · split <;> exact enqFlow_sview ..
  · split <;> rfl
  · rfl

theorem withLogger_sview (s : BSt) (a g : Nat) (k : Nat → BSt × String)
    (hk : ∀ lgi, sview (k lgi).1 = sview s) : sview (withLogger s a g k).1 = sview s := by
  unfold withLogger; split
  · exact hk _
  · rfl

theorem LS_front (s : BSt) (f : FOp) (h : LS s) : LS (applyFront s f).1 := by
  cases f <;> simp only [applyFront]
  case tick => exact LS_of_sview h rfl
  case tstart => split <;> exact LS_of_sview h rfl
  case texit => split; exact h; split <;> exact LS_of_sview h rfl
  case resume a =>
    split
    · exact LS_of_sview h (resume_sview s a)
    · split
      · exact LS_of_sview h (resume_sview s a)
      · exact LS_of_sview h (resume_sview s a)
  case armStall => split <;> exact LS_of_sview h rfl
  case log a g lvl len dyn =>
    refine LS_of_sview h (withLogger_sview _ _ _ _ (fun lgi => ?_)); split
    · exact frontCall_sview ..
    · rfl
  case logNamed a g len =>
    refine LS_of_sview h (withLogger_sview _ _ _ _ (fun lgi => ?_)); split
    · exact frontCall_sview ..
    · rfl
  case logBt a g len =>
    refine LS_of_sview h (withLogger_sview _ _ _ _ (fun lgi => ?_)); split
    · exact frontCall_sview ..
    · rfl
  case initBt => exact LS_of_sview h (withLogger_sview _ _ _ _ (fun lgi => frontCall_sview ..))
  case flushBt => exact LS_of_sview h (withLogger_sview _ _ _ _ (fun lgi => frontCall_sview ..))
  case flush => exact LS_of_sview h (withLogger_sview _ _ _ _ (fun lgi => frontCall_sview ..))
  case removeBlocking a g =>
    split
    · exact h
    · exact LS_of_sview h (withLogger_sview _ _ _ _ (fun lgi => frontCall_sview ..))
  case remove a g =>
    split
    · exact h
    · split
      · rename_i lgi _ _
        refine LS_of_sview h ?_
        exact sview_setLg (dropName s g) lgi (fun l => { l with valid := false }) (fun _ => ⟨rfl, rfl, rfl⟩)
      · exact h
  case create a g sl =>
    split
    · exact h
    · rename_i hcond
      split
      · split
        · exact h
        · exact LS_of_sview h rfl
      · apply LS_newLogger h
        intro sid hsid
        have hany : ¬ (sl.any (fun sid => !(s.sinks.any (fun k => k.sid = sid ∧ k.alive)))) = true :=
          fun hh => hcond (Or.inr (Or.inr hh))
        simp only [List.any_eq_true, not_exists, not_and, Bool.not_eq_true', Bool.not_eq_false] at hany
        have := hany sid hsid
        obtain ⟨k, hk, hkp⟩ := this
        simp only [decide_eq_true_eq] at hkp
        exact ⟨k, hk, hkp.1, hkp.2⟩
  case setLevel g lvl =>
    split
    · exact LS_of_sview h (sview_setLg s _ _ (fun _ => ⟨rfl, rfl, rfl⟩))
    · exact h
  case setSinkLevel sid lvl =>
    split
    · exact LS_setSink h sid _ (fun _ => rfl) (fun _ => rfl) (fun _ hu => hu)
    · exact h
  case dropSink sid =>
    apply LS_reapSinks
    exact LS_setSink h sid _ (fun _ => rfl) (fun _ => rfl) (fun _ hu => by cases hu)
  case query => exact h


/-! ### backend leaves -/

theorem cleanupContexts_pres (P : BSt → Prop) (h1 : ∀ x i, P x → P (ctxEmpty x i).1)
    (h2 : ∀ x i, P x → P (removeSt x i)) (s : BSt) (hs : P s) : P (cleanupContexts s) := by
  have hff : ∀ (l : List Nat) (x : BSt), P x → P (cleanupContexts.go.findFirst x l).1 := by
    intro l
    induction l with
    | nil => intro x hx; exact hx
    | cons j rest ih =>
      intro x hx
      rw [findFirst_cons]
      split
      · exact ih x hx
      · split
        · exact h1 x j hx
        · exact ih _ (h1 x j hx)
  have hgo : ∀ (fuel : Nat) (x : BSt), P x → P (cleanupContexts.go fuel x) := by
    intro fuel
    induction fuel with
    | zero => intro x hx; exact hx
    | succ n ih =>
      intro x hx
      rw [go_succ]
      have := hff x.cache x hx
      split
      · rename_i s1 heq; rw [heq] at this; exact this
      · rename_i s1 i heq; rw [heq] at this; exact ih _ (h2 s1 i this)
  rw [cleanupContexts_eq]; split
  · exact hs
  · exact hgo _ _ hs

theorem ctxEmpty_sview (s : BSt) (i : Nat) : sview (ctxEmpty s i).1 = sview s := rfl

theorem allEmpty_sview (s : BSt) : sview (allEmpty s).1 = sview s := by
  unfold allEmpty
  simp only []
  apply foldl_pres_pair (fun x => sview x = sview s)
    (fun (acc : BSt × Bool) i => ((ctxEmpty acc.1 i).1, acc.2 && (ctxEmpty acc.1 i).2))
  · intro acc i h; exact h
  · show sview (refreshCache s) = sview s
    unfold refreshCache; split <;> rfl

theorem hasPending_sview (s : BSt) : sview (hasPending s).1 = sview s := by
  unfold hasPending
  simp only []
  apply foldl_pres_pair (fun x => sview x = sview s)
  · intro acc i h
    split
    · exact h
    · split
      · exact h
      · exact h
  · show sview (refreshCache s) = sview s
    unfold refreshCache; split <;> rfl

/-- the full invariant behind C17 -/
def FInv (s : BSt) : Prop := LInv s ∧ LS s

theorem buf_head_lt {s : BSt} {i : Nat} {st : Stmt} {rest : List Stmt} (hb : (s.th i).buf = st :: rest) :
    i < s.ths.length := by
  by_cases hi : i < s.ths.length
  · exact hi
  · simp only [BSt.th, List.getD_eq_getElem?_getD, List.getElem?_eq_none (by omega : s.ths.length ≤ i)] at hb
    cases hb

theorem LS_popSt {s : BSt} (hL : LA s) (h : LS s) (i : Nat) (st : Stmt) (rest : List Stmt)
    (hb : (s.th i).buf = st :: rest) : LS (popSt s i st rest) := by
  have he : (s.lgOf st.lg).erased = false :=
    hL.1.live i (buf_head_lt hb) st (Or.inr (by rw [hb]; exact List.mem_cons_self))
  have hp := LS_processEvent h st he
  unfold popSt
  simp only []
  split
  · exact LS_of_sview (LS_emit_plain hp _ (fun _ => rfl) (fun _ => rfl)) rfl
  · exact LS_of_sview hp rfl

theorem FInv_closed : Closed FInv where
  front := fun s f h => ⟨LInv_closed.front s f h.1, LS_front s f h.2⟩
  siteCnt := fun s x h => ⟨LInv_closed.siteCnt s x h.1, LS_of_sview h.2 rfl⟩
  emitInj := fun s a b c d h => ⟨LInv_closed.emitInj s a b c d h.1, LS_emit_plain h.2 _ (fun _ => rfl) (fun _ => rfl)⟩
  note := fun s h => ⟨LInv_closed.note s h.1, LS_emit_plain h.2 _ (fun _ => rfl) (fun _ => rfl)⟩
  clock := fun s n h => ⟨LInv_closed.clock s n h.1, LS_of_sview h.2 rfl⟩
  lastFlush := fun s n h => ⟨LInv_closed.lastFlush s n h.1, LS_of_sview h.2 rfl⟩
  gone := fun s h => ⟨LInv_closed.gone s h.1, LS_of_sview h.2 rfl⟩
  refresh := fun s h => ⟨LInv_closed.refresh s h.1, LS_of_sview h.2 (by unfold refreshCache; split <;> rfl)⟩
  allEmpty := fun s h => ⟨LInv_closed.allEmpty s h.1, LS_of_sview h.2 (allEmpty_sview s)⟩
  hasPending := fun s h => ⟨LInv_closed.hasPending s h.1, LS_of_sview h.2 (hasPending_sview s)⟩
  cleanupContexts := fun s h => ⟨LInv_closed.cleanupContexts s h.1,
    cleanupContexts_pres LS (fun x i hx => LS_of_sview hx rfl) (fun x i hx => LS_of_sview hx rfl) s h.2⟩
  invFlag := fun s b h => ⟨LInv_closed.invFlag s b h.1, LS_of_sview h.2 rfl⟩
  erase := fun s i h hv he => ⟨LInv_closed.erase s i h.1 hv he, LS_erase (LS_of_sview h.2 (allEmpty_sview s)) i⟩
  reap := fun s sid h ha hr => ⟨LInv_closed.reap s sid h.1 ha hr, LS_reapStep h.2 sid ha hr⟩
  flagRemoval := fun s0 s f g h0 h he hf => ⟨LInv_closed.flagRemoval s0 s f g h0.1 h.1 he hf, LS_of_sview h.2 rfl⟩
  flushSinks := fun s h => ⟨LInv_closed.flushSinks s h.1, LS_flushSinks h.2⟩
  readPrep := fun s i h => ⟨LInv_closed.readPrep s i h.1, LS_of_sview h.2 rfl⟩
  commit := fun s i h => ⟨LInv_closed.commit s i h.1, LS_of_sview h.2 rfl⟩
  readOne := fun s i st rest h hr hq => ⟨LInv_closed.readOne s i st rest h.1 hr hq, LS_of_sview h.2 (by
    unfold readOneSt moveSt decodeSt readPrepSt
    split <;> rfl)⟩
  report := fun s i h hf => ⟨LInv_closed.report s i h.1 hf, by
    have h1 : LS (s.setTh i (fun t => { t with fail := 0 })) := LS_of_sview h.2 rfl
    exact LS_of_sview (LS_emit_plain h1 _ (fun _ => rfl) (fun _ => rfl)) rfl⟩
  pop := fun s i st rest h hl hb => ⟨LInv_closed.pop s i st rest h.1 hl hb, LS_popSt h.1.2 h.2 i st rest hb⟩
  raise := fun s f h hg => ⟨LInv_closed.raise s f h.1 hg, LS_of_sview h.2 rfl⟩

theorem FInv_runOps (s0 : BSt) (h0 : FInv s0) (ops : List Op) : FInv (runOps s0 ops) :=
  runOps_closed FInv_closed ops s0 h0

end Backend.PC
