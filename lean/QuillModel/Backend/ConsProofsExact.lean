import QuillModel.Backend.ConsProofsUnplaced
import QuillModel.Backend.ConsProofsFault
/-!
C03, exactly once over the whole history, without a ghost record of the dispatch-time decision:
* before its pop an accepted ordinary statement has no ordinary `write` anywhere (`unpopped_unwritten`);
* the pop appends exactly one `write` per occurrence of each accepting sink (cut at a write fault) (`popStep_wcount`);
* after its pop the number of its writes at every sink never changes again, whatever the schedule (`Frozen`).
-/
namespace Backend.PA
open Backend Spsc

/-- an ordinary statement carrying this id -/
def pq (id : Nat) : Stmt → Bool := fun x => isOrd x && x.id == id

theorem pq_logq (id : Nat) (x : Stmt) (h : pq id x = true) : logq id x = true := by
  simp only [pq, isOrd, Bool.and_eq_true, beq_iff_eq] at h
  simp [logq, h.1.1, h.2]

theorem Inv.closed : Closed Inv :=
  ((InvA.closed.and InvB.closed).and (InvW.closed.and InvP.closed)).congr
    (fun _ => ⟨fun h => ⟨h.1.1, h.1.2, h.2.1, h.2.2⟩, fun h => ⟨⟨h.a, h.b⟩, ⟨h.w, h.p⟩⟩⟩)

theorem sum_map_succ_le {α} (l : List α) (f g : α → Nat) (h : ∀ x ∈ l, f x ≤ g x) (i : Nat) (hi : i < l.length)
    (hs : f l[i] + 1 ≤ g l[i]) : (l.map f).sum + 1 ≤ (l.map g).sum := by
  induction l generalizing i with
  | nil => cases hi
  | cons x xs ih =>
    simp only [List.map_cons, List.sum_cons]
    cases i with
    | zero =>
      have := sum_map_le xs f g (fun y hy => h y (by simp [hy]))
      simp only [List.getElem_cons_zero] at hs
      omega
    | succ j =>
      have := h x (by simp)
      have := ih (fun y hy => h y (by simp [hy])) j (by simpa using hi) (by simpa using hs)
      omega

/-- a statement still in a transit buffer or a queue is an occurrence in `accepted` that is not in `popped` -/
theorem cA_gt_cntP {s : BSt} (h : InvA s) {i : Nat} {st : Stmt} (hm : st ∈ (s.th i).buf ++ (s.th i).qStmts)
    (p : Stmt → Bool) (hp : p st = true) : cntP s p + 1 ≤ cA s p := by
  have hi : i < s.ths.length := by
    by_cases hi : i < s.ths.length
    · exact hi
    · rw [th_default_of_ge s i (by omega)] at hm; simp [Inhabited.default] at hm
  apply sum_map_succ_le s.ths _ _ _ i hi
  · rw [← th_eq_getElem s i hi, (h.th i).cons, List.append_assoc, List.countP_append]
    have : 1 ≤ ((s.th i).buf ++ (s.th i).qStmts).countP p := List.countP_pos_iff.mpr ⟨st, hm, hp⟩
    omega
  · intro t ht
    obtain ⟨j, rfl⟩ := mem_ths_th ht
    rw [(h.th j).cons, List.countP_append, List.countP_append]; omega

/-- nothing popped with this id ⇒ nothing written with this id -/
theorem Inv.unwritten_of_unpopped {s : BSt} (h : Inv s) (id : Nat) (hz : s.popLog.countP (pq id) = 0) (sid : Nat) :
    wcount s.log sid id = 0 := by
  have hb := h.w.bound sid id
  unfold popBound at hb
  have hlen : (s.popLog.filter (fun x => isOrd x && x.id == id)).length = 0 := by
    rw [← List.countP_eq_length_filter]; exact hz
  rw [List.length_eq_zero_iff.mp hlen] at hb
  simpa using hb

/-- an ordinary statement that is accepted but not yet popped: no statement with its id was popped -/
theorem Inv.unpopped {s : BSt} (h : Inv s) {i : Nat} {st : Stmt} (hm : st ∈ (s.th i).buf ++ (s.th i).qStmts)
    (ho : isOrd st = true) : s.popLog.countP (pq st.id) = 0 := by
  have hp : pq st.id st = true := by simp [pq, ho]
  have h1 := cA_gt_cntP h.a hm (pq st.id) hp
  have h2 := cA_mono s (pq st.id) (logq st.id) (pq_logq st.id)
  have h3 : cA s (logq st.id) ≤ 1 := by rw [← cntA_eq_cA]; have := h.b.uniq st.id; unfold tot at this; omega
  have h4 := h.p (pq st.id)
  omega

/-- **before its pop, nothing of it is written** -/
theorem Inv.unpopped_unwritten {s : BSt} (h : Inv s) {i : Nat} {st : Stmt} (hm : st ∈ (s.th i).buf ++ (s.th i).qStmts)
    (ho : isOrd st = true) (sid : Nat) : wcount s.log sid st.id = 0 :=
  h.unwritten_of_unpopped st.id (h.unpopped hm ho) sid

/-! ### the pop itself -/

theorem wcount_writes (st : Stmt) (ho : st.lvl ≠ 9) (sid : Nat) (l : List Nat) :
    wcount ((l.map (W st)).reverse) sid st.id = l.count sid := by
  unfold wcount
  rw [List.countP_reverse]
  induction l with
  | nil => rfl
  | cons x xs ih =>
    simp only [List.map_cons, List.countP_cons, ih, List.count_cons]
    congr 1
    by_cases hx : x = sid <;> simp [W, ordWrite, hx, ho]

/-- the number of ordinary writes of `st` the pop of `st` appends, per sink: one per occurrence of the sink among the
    accepting sinks of its logger — all of them when no write fault hits, those before the faulting sink otherwise -/
theorem popStep_wcount {s : BSt} (h : Inv s) (i : Nat) (st : Stmt) (rest : List Stmt) (hb : (s.th i).buf = st :: rest)
    (ho : isOrd st = true) (sid : Nat) :
    ((dispatch s st).2 = false ∧
      wcount (popStep s i st rest).log sid st.id = ((s.lgOf st.lg).sinks.filter (acc s st)).count sid) ∨
    (∃ pre f post, (s.lgOf st.lg).sinks = pre ++ f :: post ∧ (dispatch s st).2 = true ∧ acc s st f = true ∧
      wcount (popStep s i st rest).log sid st.id = (pre.filter (acc s st)).count sid) := by
  have hl9 : st.lvl ≠ 9 := by
    simp only [isOrd, Bool.and_eq_true, bne_iff_ne, ne_eq] at ho; exact ho.2
  have h0 : wcount s.log sid st.id = 0 := h.unpopped_unwritten (i := i) (by rw [hb]; simp) ho sid
  obtain ⟨evs, he, hz⟩ := popStep_ord_log h.w.ring i st rest ho
  rcases writeToSinks_spec st (s.lgOf st.lg).sinks s with ⟨d1, d2⟩ | ⟨pre, f, post, d1, d2, d3, d4⟩
  · left
    refine ⟨d1, ?_⟩
    rw [he, wcount_append, hz, dispatch, d2, wcount_append, h0, wcount_writes st hl9]; omega
  · right
    refine ⟨pre, f, post, d1, d2, d3, ?_⟩
    rw [he, wcount_append, hz, dispatch, d4]
    have : wcount (Ev.wthrow f st.id :: ((pre.filter (acc s st)).map (W st)).reverse ++ s.log) sid st.id =
        wcount (((pre.filter (acc s st)).map (W st)).reverse ++ s.log) sid st.id := by
      show wcount ([Ev.wthrow f st.id] ++ _) sid st.id = _
      rw [wcount_append]; simp [wcount, ordWrite]
    rw [this, wcount_append, h0, wcount_writes st hl9]; omega

/-! ### after the pop: frozen -/

/-- the ordinary statement with this id has been popped and has `n` ordinary writes at sink `sid` -/
structure Frozen (sid id n : Nat) (s : BSt) : Prop where
  inv : Inv s
  popped : 1 ≤ s.popLog.countP (pq id)
  cnt : wcount s.log sid id = n

/-- a step that pops nothing and writes nothing -/
structure Quiet (s s' : BSt) : Prop where
  popLog : s'.popLog = s.popLog
  log : ∃ evs, s'.log = evs ++ s.log ∧ ∀ e ∈ evs, isWriteEv e = false

theorem Frozen.quiet {sid id n : Nat} {s s' : BSt} (h : Frozen sid id n s) (hi : Inv s') (q : Quiet s s') :
    Frozen sid id n s' := by
  obtain ⟨evs, he, hn⟩ := q.log
  exact ⟨hi, by rw [q.popLog]; exact h.popped, by rw [he, wcount_nowrite hn]; exact h.cnt⟩

theorem Quiet.of_eq {s s' : BSt} (h1 : s'.popLog = s.popLog) (h2 : s'.log = s.log) : Quiet s s' :=
  ⟨h1, ⟨[], by simpa using h2, by simp⟩⟩

theorem Frozen.closed (sid id n : Nat) : Closed (Frozen sid id n) where
  frame := fun s s' h f => h.quiet (Inv.closed.frame s s' h.inv f) ⟨f.popLog, f.log⟩
  refresh := fun s h => h.quiet (Inv.closed.refresh s h.inv) (by unfold refreshCache; split <;> exact Quiet.of_eq rfl rfl)
  ctxEmpty := fun s i h => h.quiet (Inv.closed.ctxEmpty s i h.inv) (Quiet.of_eq rfl rfl)
  dropCtx := fun s i h hv he hz => h.quiet (Inv.closed.dropCtx s i h.inv hv he hz) (Quiet.of_eq rfl rfl)
  prepRead := fun s i h => h.quiet (Inv.closed.prepRead s i h.inv) (Quiet.of_eq rfl rfl)
  commitRead := fun s i h => h.quiet (Inv.closed.commitRead s i h.inv) (Quiet.of_eq rfl rfl)
  readOne := fun s i st rest h hq hr => h.quiet (Inv.closed.readOne s i st rest h.inv hq hr) (by
    unfold PA.readOne; dsimp only; split <;> exact Quiet.of_eq rfl rfl)
  pop := fun s i st rest h hb => by
    have hI := Inv.closed.pop s i st rest h.inv hb
    have hpops := popStep_pops s i st rest hb
    -- the popped event is not the frozen statement: that one was popped already and ids are unique
    have hne : ¬ (isOrd st = true ∧ st.id = id) := by
      intro hc
      have hp : pq id st = true := by simp [pq, hc.1, hc.2]
      have h1 := cA_gt_cntP h.inv.a (i := i) (st := st) (by rw [hb]; simp) (pq id) hp
      have h2 := cA_mono s (pq id) (logq id) (pq_logq id)
      have h3 : cA s (logq id) ≤ 1 := by rw [← cntA_eq_cA]; have := h.inv.b.uniq id; unfold tot at this; omega
      have h4 := h.inv.p (pq id)
      have := h.popped
      omega
    refine ⟨hI, ?_, ?_⟩
    · rw [hpops.2.2.1, List.countP_cons]; have := h.popped; omega
    · have hw := (processEvent_w h.inv.w.ring st sid id).1
      rw [if_neg hne] at hw
      obtain ⟨e1, he1⟩ := (processEvent_core s st).log
      have hge : wcount s.log sid id ≤ wcount (processEvent s st).1.log sid id := by
        rw [he1, wcount_append]; omega
      have hlog : wcount (popStep s i st rest).log sid id = wcount (processEvent s st).1.log sid id := by
        unfold popStep
        dsimp only
        split
        · show wcount ((processEvent s st).1.emit _).log sid id = _
          rw [wcount_emit_nowrite _ _ rfl]
        · rfl
      rw [hlog]; have := h.cnt; omega
  failReset := fun s i h hf => h.quiet (Inv.closed.failReset s i h.inv hf) (by
    unfold PA.failReset
    exact ⟨rfl, ⟨[_], rfl, by simp [isWriteEv]⟩⟩)
  front := fun s f h => h.quiet (Inv.closed.front s f h.inv) ⟨(applyFront_ffr s f).popLog, (applyFront_ffr s f).log⟩

theorem Frozen.run {sid id n : Nat} {s : BSt} (h : Frozen sid id n s) (ops : List Op) : Frozen sid id n (runOps s ops) :=
  runOps_closed (Frozen.closed sid id n) ops s h

/-- a statement in a `popped` history has been counted in the global pop history -/
theorem Inv.popped_counted {s : BSt} (h : Inv s) {i : Nat} {st : Stmt} (hm : st ∈ (s.th i).popped) (ho : isOrd st = true) :
    1 ≤ s.popLog.countP (pq st.id) := by
  rw [h.p (pq st.id)]
  have hi : i < s.ths.length := by
    by_cases hi : i < s.ths.length
    · exact hi
    · rw [th_default_of_ge s i (by omega)] at hm; cases hm
  have h1 : 1 ≤ (s.th i).popped.countP (pq st.id) := List.countP_pos_iff.mpr ⟨st, hm, by simp [pq, ho]⟩
  have h2 := le_sum_of_getElem (s.ths.map (fun t => t.popped.countP (pq st.id))) i (by simpa using hi)
  simp only [List.getElem_map] at h2
  rw [← th_eq_getElem s i hi] at h2
  unfold cntP; omega

/-- the state right after the pop of an ordinary statement is frozen for it, with the count of `popStep_wcount` -/
theorem Frozen.of_pop {s : BSt} (h : Inv s) (i : Nat) (st : Stmt) (rest : List Stmt) (hb : (s.th i).buf = st :: rest)
    (ho : isOrd st = true) (sid : Nat) :
    Frozen sid st.id (wcount (popStep s i st rest).log sid st.id) (popStep s i st rest) := by
  refine ⟨Inv.closed.pop s i st rest h hb, ?_, rfl⟩
  rw [(popStep_pops s i st rest hb).2.2.1, List.countP_cons]
  have : pq st.id st = true := by simp [pq, ho]
  simp [this]

end Backend.PA
