import QuillModel.Backend.LiftBal
import QuillModel.Backend.LiftObsDefs
import QuillModel.Backend.LiftObsWalk
/-!
The part of the state the trace-level drop accounting reads (`vw`): the result texts of the injected operations in the
history, per context the ghost counter `discarded` and the number of ordinary statements ever accepted, the actors and
the queue type. No backend primitive changes it; hence every predicate of `vw` is `ClosedC`. Helper lemmas only.
-/
namespace Backend.PC
open Backend Spsc

/-- per context: refused ordinary statements, accepted ordinary statements -/
def dk (s : BSt) : List (Nat × Nat) :=
  s.ths.map (fun t => (t.discarded, (t.accepted.filter (fun x => isLogKind x.kind)).length))

def vw (s : BSt) : List String × List (Nat × Nat) × List Actor × Bool :=
  (injT s.log, dk s, s.actors, s.cfg.dropping)

theorem vw_setTh (s : BSt) (i : Nat) (f : Th → Th)
    (h : ∀ t, (f t).discarded = t.discarded ∧ (f t).accepted = t.accepted) : vw (s.setTh i f) = vw s := by
  have : dk (s.setTh i f) = dk s := by
    simp only [dk, BSt.setTh]
    exact map_updAt s.ths i f _ (fun t => by rw [(h t).1, (h t).2])
  simp only [vw, this]; rfl

/-- peel one `setTh` that keeps `discarded` and `accepted` -/
macro "vwth" : tactic =>
  `(tactic| (refine Eq.trans (vw_setTh _ _ _ ?_) ?_ <;> first | (intro t; exact ⟨rfl, rfl⟩) | skip))

theorem vw_of_eq {s s' : BSt} (h1 : s'.log = s.log) (h2 : s'.ths = s.ths) (h3 : s'.actors = s.actors)
    (h4 : s'.cfg = s.cfg) : vw s' = vw s := by
  simp only [vw, dk, h1, h2, h3, h4]

theorem vw_refresh (s : BSt) : vw (refreshCache s) = vw s := by
  unfold refreshCache; split <;> rfl

theorem vw_ctxEmpty (s : BSt) (i : Nat) : vw (ctxEmpty s i).1 = vw s := by
  show vw (s.setTh i _) = vw s
  vwth; rfl

theorem vw_allEmpty (s : BSt) : vw (allEmpty s).1 = vw s := by
  unfold allEmpty
  simp only []
  apply foldl_pres_pair (fun x => vw x = vw s)
    (fun (acc : BSt × Bool) i => ((ctxEmpty acc.1 i).1, acc.2 && (ctxEmpty acc.1 i).2))
  · intro acc i h; exact (vw_ctxEmpty acc.1 i).trans h
  · exact vw_refresh s

theorem vw_hasPending (s : BSt) : vw (hasPending s).1 = vw s := by
  unfold hasPending
  simp only []
  apply foldl_pres_pair (fun x => vw x = vw s)
  · intro acc i h
    split
    · exact h
    · split
      · show vw (acc.1.setTh i _) = vw s
        vwth; exact h
      · exact h
  · exact vw_refresh s

theorem vw_removeSt (s : BSt) (i : Nat) : vw (removeSt s i) = vw s := by
  unfold removeSt
  vwth; rfl

theorem vw_cleanupContexts (s : BSt) : vw (cleanupContexts s) = vw s :=
  cleanupContexts_pres (fun x => vw x = vw s) (fun x i hx => (vw_ctxEmpty x i).trans hx)
    (fun x i hx => (vw_removeSt x i).trans hx) s rfl

theorem vw_flushSinks (s : BSt) : vw (flushSinks s) = vw s := by
  unfold flushSinks
  refine foldl_pres (fun x => vw x = vw s) _ ?_ _ s rfl
  intro a sid ha
  dsimp only
  split
  · exact ha
  · exact ha

theorem vw_writeToSinks (st : Stmt) : ∀ (sids : List Nat) (s : BSt), vw (writeToSinks s st sids).1 = vw s
  | [], _ => rfl
  | x :: rest, s => by
    unfold writeToSinks
    dsimp only
    split
    · split
      · rfl
      · exact (vw_writeToSinks st rest _).trans rfl
    · exact vw_writeToSinks st rest s

theorem vw_dispatch (s : BSt) (st : Stmt) : vw (dispatch s st).1 = vw s := vw_writeToSinks st _ s

theorem vw_replayGo : ∀ (l : List Stmt) (s : BSt), vw (replayRing.go s l).1 = vw s
  | [], _ => rfl
  | x :: xs, s => by
    unfold replayRing.go
    dsimp only
    split
    · split
      · exact (vw_replayGo xs _).trans (vw_dispatch s x)
      · exact vw_dispatch s x
    · exact (vw_replayGo xs _).trans (vw_dispatch s x)

theorem vw_replayRing (s : BSt) (lgi : Nat) : vw (replayRing s lgi).1 = vw s := by
  unfold replayRing
  split
  · rfl
  · dsimp only
    split
    · exact vw_replayGo _ s
    · exact vw_replayGo _ s

theorem vw_processEvent (s : BSt) (st : Stmt) : vw (processEvent s st).1 = vw s := by
  unfold processEvent
  split
  · split
    · dsimp only
      split
      · exact vw_dispatch s st
      · split
        · exact (vw_replayRing _ _).trans (vw_dispatch s st)
        · exact vw_dispatch s st
    · split
      · rfl
      · rfl
  · rfl
  · exact vw_replayRing s _
  · exact vw_flushSinks s
  · rfl

theorem vw_popSt (s : BSt) (i : Nat) (st : Stmt) (rest : List Stmt) : vw (popSt s i st rest) = vw s := by
  have h := vw_processEvent s st
  unfold popSt
  dsimp only
  cases hm : (processEvent s st).2.1 with
  | none =>
    dsimp only
    refine Eq.trans (vw_of_eq (s := (processEvent s st).1.setTh i (fun t => { t with buf := rest, popped := t.popped ++ [st] }))
      rfl rfl rfl rfl) ?_
    vwth; exact h
  | some m =>
    dsimp only
    refine Eq.trans (vw_of_eq (s := ((processEvent s st).1.emit (.notify m)).setTh i
        (fun t => { t with buf := rest, popped := t.popped ++ [st] }))
      rfl rfl rfl rfl) ?_
    vwth; exact h

theorem vw_reportSt (s : BSt) (i : Nat) : vw (reportSt s i) = vw s := by
  unfold reportSt
  refine Eq.trans (vw_of_eq (s := (s.setTh i (fun t => { t with fail := 0 })).emit
      (.notify (if s.cfg.dropping then s!"n:dropped:{(s.th i).fail}:a{(s.th i).actor}" else s!"n:blocked:{(s.th i).fail}:a{(s.th i).actor}")))
    rfl rfl rfl rfl) ?_
  show vw (s.setTh i _) = vw s
  vwth; rfl

theorem vw_readOneSt (s : BSt) (i : Nat) (st : Stmt) (rest : List Stmt) : vw (readOneSt s i st rest) = vw s := by
  unfold readOneSt moveSt
  vwth
  have h1 : vw (readPrepSt s i) = vw s := by unfold readPrepSt; vwth; rfl
  unfold decodeSt
  split
  · exact h1
  · exact h1

theorem vw_reapSinks (sids : List Nat) (s : BSt) : vw (reapSinks s sids) = vw s := by
  unfold reapSinks
  refine foldl_pres (fun x => vw x = vw s) _ ?_ _ s rfl
  intro a sid ha
  split
  · exact ha
  · exact ha

/-- every predicate of the view survives the backend's own steps -/
theorem closedC_of_vw (Q : List String × List (Nat × Nat) × List Actor × Bool → Prop) :
    ClosedC (fun s => Q (vw s)) where
  note := fun _ h => h
  clock := fun _ _ h => h
  gone := fun _ h => h
  lastFlush := fun _ _ h => h
  refresh := fun s h => by rw [vw_refresh]; exact h
  allEmpty := fun s h => by rw [vw_allEmpty]; exact h
  hasPending := fun s h => by rw [vw_hasPending]; exact h
  cleanupContexts := fun s h => by rw [vw_cleanupContexts]; exact h
  invFlag := fun _ _ h => h
  erase := fun s i h _ _ => by
    have : vw ((Backend.allEmpty s).1.setLg i (fun l => { l with erased := true })) = vw s := vw_allEmpty s
    rw [this]; exact h
  reap := fun _ _ h _ _ => h
  flagRemoval := fun _ _ _ _ _ h _ _ => h
  flushSinks := fun s h => by rw [vw_flushSinks]; exact h
  readPrep := fun s i h => by
    have : vw (readPrepSt s i) = vw s := by unfold readPrepSt; vwth; rfl
    rw [this]; exact h
  commit := fun s i h => by
    have : vw (commitSt s i) = vw s := by unfold commitSt; vwth; rfl
    rw [this]; exact h
  readOne := fun s i st rest h _ _ => by rw [vw_readOneSt]; exact h
  report := fun s i h _ => by rw [vw_reportSt]; exact h
  pop := fun s i st rest h _ _ => by rw [vw_popSt]; exact h
  raise := fun _ _ h _ => h

end Backend.PC
