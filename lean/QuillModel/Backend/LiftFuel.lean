import QuillModel.Backend.ConsProofsSkel
/-!
Loop fuel of `readQueue` (`_read_and_decode_frontend_queue`), part 1: the exit observer `readExits` (true when the
read loop leaves through one of the exits the C++ has, false when the model's fuel ran out first), independence of
the result from the fuel once a real exit is reached, and sufficiency of the fuel from a decreasing measure.
-/
namespace Backend.PA
open Backend Spsc

/-- mirrors the recursion of `readQueue`: does the loop reach a real exit (`prepare_read` offers nothing, the next
    record is newer than `ts_now`, byte or transit limit reached) within `fuel` iterations? -/
def readExits (inj : BSt → Nat → BSt) (tsNow : Option Nat) (i : Nat) : Nat → Nat → BSt → Bool
  | 0, _, _ => false
  | fuel + 1, total, s =>
    if !(qPrepareRead s.cfg (s.th i).q).2 then true else
    match (s.th i).qStmts with
    | [] => true
    | st :: rest =>
      if future tsNow st then true else
      let s4 := inj (readOneF s i st rest) 3
      if total + st.size < s4.cfg.qcap ∧ (s4.th i).buf.length < s4.cfg.hard then
        readExits inj tsNow i fuel (total + st.size) s4
      else true

theorem readExits_zero (inj : BSt → Nat → BSt) (tsNow : Option Nat) (i total : Nat) (s : BSt) :
    readExits inj tsNow i 0 total s = false := rfl

theorem readExits_succ (inj : BSt → Nat → BSt) (tsNow : Option Nat) (i fuel total : Nat) (s : BSt) :
    readExits inj tsNow i (fuel + 1) total s =
      (if !(qPrepareRead s.cfg (s.th i).q).2 then true else
       match (s.th i).qStmts with
       | [] => true
       | st :: rest =>
         if future tsNow st then true else
         let s4 := inj (readOneF s i st rest) 3
         if total + st.size < s4.cfg.qcap ∧ (s4.th i).buf.length < s4.cfg.hard then
           readExits inj tsNow i fuel (total + st.size) s4
         else true) := by
  rw [readExits]

/-- B1: once the loop leaves through a real exit with fuel `f`, every larger fuel gives the same state and also exits -/
theorem readQueue_fuel_mono (inj : BSt → Nat → BSt) (tsNow : Option Nat) (i : Nat) :
    ∀ (f total : Nat) (s : BSt), readExits inj tsNow i f total s = true → ∀ f', f ≤ f' →
      readQueue inj tsNow i f' total s = readQueue inj tsNow i f total s ∧ readExits inj tsNow i f' total s = true
  | 0, total, s, h => by simp [readExits] at h
  | f + 1, total, s, h => by
    intro f' hf'
    obtain ⟨g, rfl⟩ : ∃ g, f' = g + 1 := ⟨f' - 1, by omega⟩
    rw [readExits_succ] at h ⊢
    rw [readQueue_succ, readQueue_succ]
    dsimp only at h ⊢
    by_cases hr : (qPrepareRead s.cfg (s.th i).q).2 = true
    · simp only [hr, Bool.not_true, Bool.false_eq_true, if_false] at h ⊢
      cases hq : (s.th i).qStmts with
      | nil => simp only []; (constructor <;> first | rfl | trivial)
      | cons st rest =>
        simp only [hq] at h ⊢
        by_cases hfu : future tsNow st = true
        · simp only [hfu, if_true]; (constructor <;> first | rfl | trivial)
        · simp only [hfu, Bool.false_eq_true, if_false] at h ⊢
          split
          · next hc =>
            rw [if_pos hc] at h
            exact readQueue_fuel_mono inj tsNow i f _ _ h g (by omega)
          · (constructor <;> first | rfl | trivial)
    · simp only [hr, Bool.not_false, if_true] at h ⊢
      (constructor <;> first | rfl | trivial)

/-- sufficiency from a measure: if every iteration (read one record, run the injections of site 3) decreases `μ`,
    then any fuel above `μ s` reaches a real exit -/
theorem readExits_of_measure (inj : BSt → Nat → BSt) (tsNow : Option Nat) (i : Nat) (μ : BSt → Nat)
    (hstep : ∀ s st rest, (s.th i).qStmts = st :: rest → μ (inj (readOneF s i st rest) 3) < μ s) :
    ∀ (f total : Nat) (s : BSt), μ s < f → readExits inj tsNow i f total s = true
  | 0, _, _, h => by omega
  | f + 1, total, s, h => by
    rw [readExits_succ]
    split
    · rfl
    · split
      · rfl
      · next st rest hq =>
        dsimp only
        split
        · rfl
        · split
          · exact readExits_of_measure inj tsNow i μ hstep f _ _ (by have := hstep s st rest hq; omega)
          · rfl

/-- the context a non-empty queue belongs to exists -/
theorem lt_of_qStmts_cons {s : BSt} {i : Nat} {st : Stmt} {rest : List Stmt} (h : (s.th i).qStmts = st :: rest) :
    i < s.ths.length := by
  apply Classical.byContradiction
  intro hn
  rw [th_default_of_ge s i (by omega)] at h
  cases h

theorem readOneF_eq (s : BSt) (i : Nat) (st : Stmt) (rest : List Stmt) :
    (readOneF s i st rest).siteCnt = (readOne s i st rest).siteCnt ∧ (readOneF s i st rest).ths = (readOne s i st rest).ths ∧
    (readOneF s i st rest).cfg = (readOne s i st rest).cfg := by
  unfold readOneF fmtNote
  split <;> exact ⟨rfl, rfl, rfl⟩

theorem readOne_siteCnt (s : BSt) (i : Nat) (st : Stmt) (rest : List Stmt) :
    (readOne s i st rest).siteCnt = s.siteCnt := by
  unfold readOne
  cases st.kind <;> rfl

theorem readOne_qStmts (s : BSt) (i : Nat) (st : Stmt) (rest : List Stmt) (hi : i < s.ths.length) :
    ((readOne s i st rest).th i).qStmts = rest := by
  unfold readOne
  dsimp only
  rw [th_setTh_self]
  cases st.kind <;> simpa using hi

end Backend.PA
