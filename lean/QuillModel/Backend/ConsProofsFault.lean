import QuillModel.Backend.ConsProofsStep
/-!
Fault lemmas for C10: what `_flush_and_run_active_sinks` emits whatever throws, the pop on the exception path,
the flag of a Flush event, and the constancy of the sinks' fault schedules / filters through every schedule.
-/
namespace Backend.PA
open Backend Spsc

/-- the sink a flush event speaks about -/
def flushVisit : Ev → Option Nat
  | .flushed sid => some sid
  | .fthrow sid => some sid
  | _ => none

/-- events `flushSinks` may emit -/
def isFlushEv : Ev → Bool
  | .flushed _ => true
  | .fthrow _ => true
  | .notify m => m == "n:ffail"
  | _ => false

theorem flushFold_spec : ∀ (l : List Nat) (s : BSt),
    ∃ evs, (l.foldl (fun s sid =>
        let k := s.sinkOf sid
        let k' := { k with fcalls := k.fcalls + 1 }
        let s1 := s.setSink sid (fun _ => k')
        if throwsAt k.fthrow k'.fcalls then (s1.emit (.fthrow sid)).emit (.notify "n:ffail")
        else s1.emit (.flushed sid)) s).log = evs ++ s.log ∧
      evs.reverse.filterMap flushVisit = l ∧ ∀ e ∈ evs, isFlushEv e = true
  | [], s => ⟨[], rfl, rfl, by simp⟩
  | x :: xs, s => by
    rw [List.foldl_cons]
    dsimp only
    split
    · obtain ⟨evs, h1, h2, h3⟩ := flushFold_spec xs
        (((s.setSink x (fun _ => { s.sinkOf x with fcalls := (s.sinkOf x).fcalls + 1 })).emit (.fthrow x)).emit (.notify "n:ffail"))
      refine ⟨evs ++ [.notify "n:ffail", .fthrow x], ?_, ?_, ?_⟩
      · rw [h1]; simp
      · rw [List.reverse_append]
        show List.filterMap flushVisit (Ev.fthrow x :: Ev.notify "n:ffail" :: evs.reverse) = x :: xs
        have e1 : flushVisit (Ev.fthrow x) = some x := rfl
        have e2 : flushVisit (Ev.notify "n:ffail") = none := rfl
        rw [List.filterMap_cons_some e1, List.filterMap_cons_none e2, h2]
      · intro e he
        rcases List.mem_append.mp he with he | he
        · exact h3 e he
        · simp at he; rcases he with rfl | rfl <;> rfl
    · obtain ⟨evs, h1, h2, h3⟩ := flushFold_spec xs
        ((s.setSink x (fun _ => { s.sinkOf x with fcalls := (s.sinkOf x).fcalls + 1 })).emit (.flushed x))
      refine ⟨evs ++ [.flushed x], ?_, ?_, ?_⟩
      · rw [h1]; simp
      · rw [List.reverse_append]
        show List.filterMap flushVisit (Ev.flushed x :: evs.reverse) = x :: xs
        have e1 : flushVisit (Ev.flushed x) = some x := rfl
        rw [List.filterMap_cons_some e1, h2]
      · intro e he
        rcases List.mem_append.mp he with he | he
        · exact h3 e he
        · simp at he; rw [he]; rfl

/-- **`_flush_and_run_active_sinks`, whatever throws**: the history grows by flush events only, and read in
    order they visit exactly the active sinks, each once, in `LoggerManager` order — a sink whose `flush_sink`
    throws leaves `fthrow` (+ the notification) instead of `flushed`, and the sinks after it are still visited. -/
theorem flushSinks_spec (s : BSt) :
    ∃ evs, (flushSinks s).log = evs ++ s.log ∧ evs.reverse.filterMap flushVisit = activeSinks s ∧
      ∀ e ∈ evs, isFlushEv e = true := by
  unfold flushSinks
  exact flushFold_spec (activeSinks s) s

/-- the event is popped whatever `processEvent` did (exception or not) -/
theorem popStep_pops (s : BSt) (i : Nat) (st : Stmt) (rest : List Stmt) (hb : (s.th i).buf = st :: rest) :
    ((popStep s i st rest).th i).buf = rest ∧ ((popStep s i st rest).th i).popped = (s.th i).popped ++ [st] ∧
    (popStep s i st rest).popLog = st :: s.popLog ∧
    ∀ j, j ≠ i → (popStep s i st rest).th j = s.th j := by
  have c := processEvent_core s st
  have hi : i < s.ths.length := by
    by_cases hi : i < s.ths.length
    · exact hi
    · rw [th_default_of_ge s i (by omega)] at hb; cases hb
  have key : ∀ s2 : BSt, s2.ths = s.ths → s2.popLog = s.popLog →
      let s3 : BSt := { s2.setTh i (fun t => { t with buf := rest, popped := t.popped ++ [st] }) with popLog := st :: s2.popLog }
      (s3.th i).buf = rest ∧ (s3.th i).popped = (s.th i).popped ++ [st] ∧ s3.popLog = st :: s.popLog ∧
      ∀ j, j ≠ i → s3.th j = s.th j := by
    intro s2 h1 h2
    have e : ∀ j, s2.th j = s.th j := fun j => th_of_ths_eq h1 j
    refine ⟨?_, ?_, by show st :: s2.popLog = _; rw [h2], ?_⟩
    · show ((s2.setTh i _).th i).buf = rest
      rw [th_setTh_self _ _ _ (h1 ▸ hi)]
    · show ((s2.setTh i _).th i).popped = _
      rw [th_setTh_self _ _ _ (h1 ▸ hi), e]
    · intro j hj
      show (s2.setTh i _).th j = _
      rw [th_setTh_ne _ _ _ _ hj, e]
  unfold popStep
  dsimp only
  split
  · exact key _ c.ths c.popLog
  · exact key _ c.ths c.popLog

/-- a Flush event always raises its flag, whatever the sinks throw -/
theorem processLowest_flush_flag (inj : BSt → Nat → BSt) (s : BSt) (i : Nat) (st : Stmt) (rest : List Stmt) (f : Nat)
    (hl : lowest s = some i) (hb : (s.th i).buf = st :: rest) (hk : st.kind = .flush f) :
    f ∈ (processLowest inj s).1.flags ∧ (processLowest inj s).2 = true := by
  rw [processLowest_eq, hl]
  dsimp only
  rw [hb]
  dsimp only
  have : (processEvent s st).2.2 = some f := by unfold processEvent; rw [hk]
  rw [this]
  exact ⟨List.mem_cons_self, rfl⟩

/-- the sinks' fault schedules, filters and ids never change -/
def SinkCfgSame (s0 s : BSt) : Prop :=
  ∀ sid, (s.sinkOf sid).sid = (s0.sinkOf sid).sid ∧ (s.sinkOf sid).filtM = (s0.sinkOf sid).filtM ∧
    (s.sinkOf sid).filtR = (s0.sinkOf sid).filtR ∧ (s.sinkOf sid).wthrow = (s0.sinkOf sid).wthrow ∧
    (s.sinkOf sid).fthrow = (s0.sinkOf sid).fthrow

theorem SinkCfgSame.of_same {s0 s s' : BSt} (h : SinkCfgSame s0 s) (hs : ∀ sid, SinkSame (s.sinkOf sid) (s'.sinkOf sid)) :
    SinkCfgSame s0 s' := fun sid => by
  obtain ⟨a, b, c, d, e⟩ := h sid
  have k := hs sid
  exact ⟨k.sid.trans a, k.filtM.trans b, k.filtR.trans c, k.wthrow.trans d, k.fthrow.trans e⟩

theorem SinkCfgSame.of_sinks {s0 s s' : BSt} (h : SinkCfgSame s0 s) (hs : s'.sinks = s.sinks) : SinkCfgSame s0 s' :=
  h.of_same (fun sid => by simp only [BSt.sinkOf, hs]; exact SinkSame.refl _)

theorem SinkCfgSame.closed (s0 : BSt) : Closed (SinkCfgSame s0) where
  frame := fun _ _ h f => h.of_same f.sinks
  refresh := fun s h => by
    unfold refreshCache; split
    · exact h.of_sinks rfl
    · exact h
  ctxEmpty := fun _ _ h => h.of_sinks rfl
  dropCtx := fun _ _ h _ _ _ => h.of_sinks rfl
  prepRead := fun _ _ h => h.of_sinks rfl
  commitRead := fun _ _ h => h.of_sinks rfl
  readOne := fun s i st rest h _ _ => by
    unfold PA.readOne; dsimp only
    split <;> exact h.of_sinks rfl
  pop := fun s i st rest h _ => by
    have c := processEvent_core s st
    unfold popStep; dsimp only
    split
    · exact fun sid => (h.of_same c.sinks) sid
    · exact fun sid => (h.of_same c.sinks) sid
  failReset := fun _ _ h _ => h.of_sinks rfl
  front := fun s f h sid => by
    obtain ⟨a, b, c, d, e⟩ := h sid
    obtain ⟨a', b', c', d', e'⟩ := (applyFront_ffr s f).sinks sid
    exact ⟨a'.trans a, b'.trans b, c'.trans c, d'.trans d, e'.trans e⟩

end Backend.PA

namespace Backend.PA
open Backend Spsc

def isFthrow : Ev → Bool
  | .fthrow _ => true
  | _ => false

def isFfail : Ev → Bool
  | .notify m => m == "n:ffail"
  | _ => false

/-- every `flush_sink` fault is reported: as many `n:ffail` notifications as `fthrow` events, each right after its fault -/
theorem flushFold_reported : ∀ (l : List Nat) (s : BSt),
    ∃ evs, (l.foldl (fun s sid =>
        let k := s.sinkOf sid
        let k' := { k with fcalls := k.fcalls + 1 }
        let s1 := s.setSink sid (fun _ => k')
        if throwsAt k.fthrow k'.fcalls then (s1.emit (.fthrow sid)).emit (.notify "n:ffail")
        else s1.emit (.flushed sid)) s).log = evs ++ s.log ∧
      evs.countP isFthrow = evs.countP isFfail ∧
      ∀ a b e, evs = a ++ e :: b → isFthrow e = true → ∃ a', a = a' ++ [Ev.notify "n:ffail"]
  | [], s => ⟨[], rfl, rfl, fun a b e h => by simp at h⟩
  | x :: xs, s => by
    rw [List.foldl_cons]
    dsimp only
    split
    · obtain ⟨evs, h1, h2, h3⟩ := flushFold_reported xs
        (((s.setSink x (fun _ => { s.sinkOf x with fcalls := (s.sinkOf x).fcalls + 1 })).emit (.fthrow x)).emit (.notify "n:ffail"))
      refine ⟨evs ++ [.notify "n:ffail", .fthrow x], ?_, ?_, ?_⟩
      · rw [h1]; simp
      · rw [List.countP_append, List.countP_append, h2]; rfl
      · intro a b e he hf
        rcases List.append_eq_append_iff.mp he with ⟨c, hc1, hc2⟩ | ⟨c, hc1, hc2⟩
        · -- a = evs ++ c, [notify, fthrow] = c ++ e :: b
          cases c with
          | nil => simp at hc2; (first | rw [← hc2.1] at hf | rw [hc2.1] at hf); cases hf
          | cons c0 cs =>
            simp at hc2
            obtain ⟨rfl, hcs⟩ := hc2
            cases cs with
            | nil => exact ⟨evs, by rw [hc1]⟩
            | cons c1 cs' => simp at hcs
        · -- evs = a ++ c, c ++ [notify, fthrow] = e :: b
          cases c with
          | nil => simp at hc2; (first | rw [← hc2.1] at hf | rw [hc2.1] at hf); cases hf
          | cons c0 cs =>
            simp at hc2
            exact h3 a cs e (by rw [hc1, hc2.1]) hf
    · obtain ⟨evs, h1, h2, h3⟩ := flushFold_reported xs
        ((s.setSink x (fun _ => { s.sinkOf x with fcalls := (s.sinkOf x).fcalls + 1 })).emit (.flushed x))
      refine ⟨evs ++ [.flushed x], ?_, ?_, ?_⟩
      · rw [h1]; simp
      · rw [List.countP_append, List.countP_append, h2]; rfl
      · intro a b e he hf
        rcases List.append_eq_append_iff.mp he with ⟨c, hc1, hc2⟩ | ⟨c, hc1, hc2⟩
        · cases c with
          | nil => simp at hc2; (first | rw [← hc2.1] at hf | rw [hc2.1] at hf); cases hf
          | cons c0 cs => simp at hc2
        · cases c with
          | nil => simp at hc2; (first | rw [← hc2.1] at hf | rw [hc2.1] at hf); cases hf
          | cons c0 cs =>
            simp at hc2
            exact h3 a cs e (by rw [hc1, hc2.1]) hf

theorem flushSinks_reported (s : BSt) :
    ∃ evs, (flushSinks s).log = evs ++ s.log ∧ evs.countP isFthrow = evs.countP isFfail ∧
      ∀ a b e, evs = a ++ e :: b → isFthrow e = true → ∃ a', a = a' ++ [Ev.notify "n:ffail"] := by
  unfold flushSinks
  exact flushFold_reported (activeSinks s) s

/-- a write fault on an ordinary statement is reported in the same processing step: the pop appends the events of the
    dispatch (ending with the `wthrow`) and then exactly the notification `n:wfail` -/
theorem popStep_wfault_reported (s : BSt) (i : Nat) (st : Stmt) (rest : List Stmt) (ho : isOrd st = true)
    (hx : (dispatch s st).2 = true) :
    (popStep s i st rest).log = Ev.notify "n:wfail" :: (dispatch s st).1.log := by
  simp only [isOrd, Bool.and_eq_true, bne_iff_ne, ne_eq] at ho
  have hk : st.kind = .log := by
    cases hkk : st.kind <;> simp [hkk, isLogKind] at ho
    rfl
  have hpe : processEvent s st = ((dispatch s st).1, some "n:wfail", none) := by
    unfold processEvent
    rw [hk]
    dsimp only
    rw [if_pos ho.2, if_pos hx]
  unfold popStep
  rw [hpe]
  rfl

end Backend.PA
