import QuillModel.Backend.ConsProofsQueue
/-!
The generic preservation skeleton: the control flow of the backend (`poll`, `exitLoop`, all loops with fuel,
all folds over the context cache, the hook-site injections) is walked **once**, for an arbitrary state
predicate `P` that is closed under a small set of primitive state changes (`Closed P`). Every invariant
used for C03 / C08 / C10 is then established by proving `Closed` for it.
-/
namespace Backend.PA
open Backend Spsc

def isWriteEv : Ev → Bool
  | .write .. => true
  | _ => false

structure SinkSame (k k' : Sink) : Prop where
  sid : k'.sid = k.sid
  lvl : k'.lvl = k.lvl
  filtM : k'.filtM = k.filtM
  filtR : k'.filtR = k.filtR
  wthrow : k'.wthrow = k.wthrow
  fthrow : k'.fthrow = k.fthrow

theorem SinkSame.refl (k : Sink) : SinkSame k k := ⟨rfl, rfl, rfl, rfl, rfl, rfl⟩
theorem SinkSame.trans {a b c : Sink} (h1 : SinkSame a b) (h2 : SinkSame b c) : SinkSame a c :=
  ⟨h2.sid.trans h1.sid, h2.lvl.trans h1.lvl, h2.filtM.trans h1.filtM, h2.filtR.trans h1.filtR,
   h2.wthrow.trans h1.wthrow, h2.fthrow.trans h1.fthrow⟩

/-- a state change that touches no context, no actor, no id, not the pop history, keeps the loggers'
    sink lists / backtrace rings and the sinks' configuration, and emits no `write` event -/
structure Frame (s s' : BSt) : Prop where
  cfg : s'.cfg = s.cfg
  ths : s'.ths = s.ths
  actors : s'.actors = s.actors
  registry : s'.registry = s.registry
  cache : s'.cache = s.cache
  newFlag : s'.newFlag = s.newFlag
  nextId : s'.nextId = s.nextId
  popLog : s'.popLog = s.popLog
  reported : s'.reported = s.reported
  names : s'.names = s.names
  lgsLen : s'.lgs.length = s.lgs.length
  lgs : ∀ i, (s'.lgOf i).gid = (s.lgOf i).gid ∧ (s'.lgOf i).sinks = (s.lgOf i).sinks ∧ (s'.lgOf i).bt = (s.lgOf i).bt
  sinks : ∀ sid, SinkSame (s.sinkOf sid) (s'.sinkOf sid)
  log : ∃ evs, s'.log = evs ++ s.log ∧ ∀ e ∈ evs, isWriteEv e = false
  flags : ∀ f ∈ s.flags, f ∈ s'.flags

theorem Frame.refl (s : BSt) : Frame s s :=
  ⟨rfl, rfl, rfl, rfl, rfl, rfl, rfl, rfl, rfl, rfl, rfl, fun _ => ⟨rfl, rfl, rfl⟩, fun _ => SinkSame.refl _,
   ⟨[], rfl, by simp⟩, fun _ h => h⟩

theorem Frame.trans {a b c : BSt} (h1 : Frame a b) (h2 : Frame b c) : Frame a c := by
  obtain ⟨e1, he1, hn1⟩ := h1.log
  obtain ⟨e2, he2, hn2⟩ := h2.log
  exact ⟨h2.cfg.trans h1.cfg, h2.ths.trans h1.ths, h2.actors.trans h1.actors, h2.registry.trans h1.registry,
    h2.cache.trans h1.cache, h2.newFlag.trans h1.newFlag, h2.nextId.trans h1.nextId, h2.popLog.trans h1.popLog,
    h2.reported.trans h1.reported, h2.names.trans h1.names, h2.lgsLen.trans h1.lgsLen,
    fun i => ⟨(h2.lgs i).1.trans (h1.lgs i).1, (h2.lgs i).2.1.trans (h1.lgs i).2.1, (h2.lgs i).2.2.trans (h1.lgs i).2.2⟩,
    fun sid => (h1.sinks sid).trans (h2.sinks sid),
    ⟨e2 ++ e1, by rw [he2, he1, List.append_assoc], by
      intro e he; rcases List.mem_append.mp he with h | h
      · exact hn2 e h
      · exact hn1 e h⟩,
    fun f hf => h2.flags f (h1.flags f hf)⟩

/-- a change of fields none of which `Frame` mentions, stated through equalities -/
theorem Frame.of_eq {s s' : BSt} (h1 : s'.cfg = s.cfg) (h2 : s'.ths = s.ths) (h3 : s'.actors = s.actors)
    (h4 : s'.registry = s.registry) (h5 : s'.cache = s.cache) (h6 : s'.newFlag = s.newFlag)
    (h7 : s'.nextId = s.nextId) (h8 : s'.popLog = s.popLog) (h9 : s'.reported = s.reported)
    (h10 : s'.names = s.names) (h11 : s'.lgs = s.lgs) (h12 : s'.sinks = s.sinks) (h13 : s'.log = s.log)
    (h14 : ∀ f ∈ s.flags, f ∈ s'.flags) : Frame s s' :=
  ⟨h1, h2, h3, h4, h5, h6, h7, h8, h9, h10, by rw [h11], fun i => by simp [BSt.lgOf, h11],
   fun sid => by simp only [BSt.sinkOf, h12]; exact SinkSame.refl _, ⟨[], by simpa using h13, by simp⟩, h14⟩

theorem Frame.emit (s : BSt) (e : Ev) (he : isWriteEv e = false) : Frame s (s.emit e) :=
  ⟨rfl, rfl, rfl, rfl, rfl, rfl, rfl, rfl, rfl, rfl, rfl, fun _ => ⟨rfl, rfl, rfl⟩, fun _ => SinkSame.refl _,
   ⟨[e], rfl, by simpa using he⟩, fun _ h => h⟩

theorem Frame.setSink (s : BSt) (sid : Nat) (f : Sink → Sink) (hf : ∀ k, SinkSame k (f k)) :
    Frame s (s.setSink sid f) :=
  ⟨rfl, rfl, rfl, rfl, rfl, rfl, rfl, rfl, rfl, rfl, rfl, fun _ => ⟨rfl, rfl, rfl⟩,
   fun j => by
     rw [sinkOf_setSink s sid j f (fun k hk => (hf k).sid.trans hk)]
     split
     · exact hf _
     · exact SinkSame.refl _,
   ⟨[], rfl, by simp⟩, fun _ h => h⟩

theorem Frame.setLg (s : BSt) (i : Nat) (f : Lg → Lg)
    (hf : ∀ l, (f l).gid = l.gid ∧ (f l).sinks = l.sinks ∧ (f l).bt = l.bt) : Frame s (s.setLg i f) :=
  ⟨rfl, rfl, rfl, rfl, rfl, rfl, rfl, rfl, rfl, rfl, by simp,
   fun j => by
     rw [lgOf_setLg]
     split
     · exact hf _
     · exact ⟨rfl, rfl, rfl⟩,
   fun _ => SinkSame.refl _, ⟨[], rfl, by simp⟩, fun _ h => h⟩

theorem foldl_inv {σ α} (Q : σ → Prop) (g : σ → α → σ) (hg : ∀ a x, Q a → Q (g a x)) :
    ∀ (l : List α) (a : σ), Q a → Q (l.foldl g a)
  | [], _, h => h
  | x :: xs, a, h => foldl_inv Q g hg xs (g a x) (hg a x h)

theorem Frame.foldl {α} (g : BSt → α → BSt) (hg : ∀ s x, Frame s (g s x)) (l : List α) (s : BSt) :
    Frame s (l.foldl g s) :=
  foldl_inv (fun a => Frame s a) g (fun a x h => h.trans (hg a x)) l s (Frame.refl s)

/-- replacing the sinks named `sid` by an updated copy of the first of them -/
theorem Frame.setSinkCopy (s : BSt) (sid : Nat) (k' : Sink) (hk : SinkSame (s.sinkOf sid) k') :
    Frame s (s.setSink sid (fun _ => k')) := by
  cases hfd : s.sinks.find? (·.sid = sid) with
  | none => rw [setSink_absent s sid _ hfd]; exact Frame.refl s
  | some k0 =>
    have hsid : k'.sid = sid := hk.sid.trans (sinkOf_sid s sid (by simp [hfd]))
    refine ⟨rfl, rfl, rfl, rfl, rfl, rfl, rfl, rfl, rfl, rfl, rfl, fun _ => ⟨rfl, rfl, rfl⟩, ?_, ⟨[], rfl, by simp⟩, fun _ h => h⟩
    intro j
    rw [sinkOf_setSink s sid j _ (fun _ _ => hsid)]
    split
    · next hc => rw [hc.1]; exact hk
    · exact SinkSame.refl _

/-! ### frames of the backend's sink / logger housekeeping -/

theorem flushSinks_frame (s : BSt) : Frame s (flushSinks s) := by
  unfold flushSinks
  apply Frame.foldl
  intro s sid
  dsimp only
  have h1 := Frame.setSinkCopy s sid { s.sinkOf sid with fcalls := (s.sinkOf sid).fcalls + 1 } ⟨rfl, rfl, rfl, rfl, rfl, rfl⟩
  split
  · exact (h1.trans (Frame.emit _ _ rfl)).trans (Frame.emit _ _ rfl)
  · exact h1.trans (Frame.emit _ _ rfl)

theorem reapSinks_frame (s : BSt) (sids : List Nat) : Frame s (reapSinks s sids) := by
  unfold reapSinks
  apply Frame.foldl
  intro s sid
  split
  · exact (Frame.setSink s sid (fun k => { k with alive := false }) (fun k => ⟨rfl, rfl, rfl, rfl, rfl, rfl⟩)).trans
      (Frame.emit _ _ rfl)
  · exact Frame.refl s

/-! ### the primitive state changes of the backend that touch contexts -/

/-- `_cleanup_invalidated_thread_contexts`: context `i` leaves the registry and the cache -/
def dropCtx (s1 : BSt) (i : Nat) : BSt :=
  ({ s1 with registry := s1.registry.filter (· ≠ i), cache := s1.cache.filter (· ≠ i),
             invalidCnt := counterMod s1.cfg (s1.invalidCnt + 2 ^ s1.cfg.invalidBits - 1) }).setTh i
    (fun t => { t with removed := true })

/-- `_read_and_decode_frontend_queue`, one record: `prepare_read` offered it, it is decoded into the
    transit buffer and `finish_read` is called with its size -/
def readOne (s : BSt) (i : Nat) (st : Stmt) (rest : List Stmt) : BSt :=
  let r := qPrepareRead s.cfg (s.th i).q
  let s1 := s.setTh i (fun t => { t with q := r.1 })
  let s2 := match st.kind with
    | .removal f => { s1 with removalFlags := s1.removalFlags ++ [((s1.lgOf st.lg).gid, f)] }
    | _ => s1
  s2.setTh i (fun t => { t with q := qFinishRead s2.cfg t.q st.size, qStmts := rest, buf := t.buf ++ [st] })

/-- `_process_lowest_timestamp_transit_event` up to and including the pop: process the front event of
    context `i`, report an escaped exception, pop the event -/
def popStep (s : BSt) (i : Nat) (st : Stmt) (rest : List Stmt) : BSt :=
  let r := processEvent s st
  let s2 := match r.2.1 with | some m => r.1.emit (.notify m) | none => r.1
  { s2.setTh i (fun t => { t with buf := rest, popped := t.popped ++ [st] }) with popLog := st :: s2.popLog }

/-- `_check_failure_counter` for one context: get-and-reset, then the report -/
def failReset (s : BSt) (i : Nat) : BSt :=
  { (s.setTh i (fun t => { t with fail := 0 })).emit
      (.notify (if s.cfg.dropping then s!"n:dropped:{(s.th i).fail}:a{(s.th i).actor}"
                else s!"n:blocked:{(s.th i).fail}:a{(s.th i).actor}"))
    with reported := s.reported + (s.th i).fail }

/-- closure under the backend's housekeeping (emptiness checks, cache refresh, context and logger clean-up) -/
structure ClosedH (P : BSt → Prop) : Prop where
  frame : ∀ s s', P s → Frame s s' → P s'
  refresh : ∀ s, P s → P (refreshCache s)
  ctxEmpty : ∀ s i, P s → P (ctxEmpty s i).1
  dropCtx : ∀ s i, P s → (s.th i).valid = false → (Backend.ctxEmpty s i).2 = true →
    (s.cfg.cleanupKeepsUnreported = true → (s.th i).fail = 0) → P (dropCtx (Backend.ctxEmpty s i).1 i)

/-- closure under the steps of the read pass (`_read_and_decode_frontend_queue`) -/
structure ClosedQ (P : BSt → Prop) : Prop where
  prepRead : ∀ s i, P s → P (s.setTh i (fun t => { t with q := (qPrepareRead s.cfg (s.th i).q).1 }))
  commitRead : ∀ s i, P s → P (s.setTh i (fun t => { t with q := qCommitRead s.cfg t.q }))
  readOne : ∀ s i st rest, P s → (s.th i).qStmts = st :: rest → (qPrepareRead s.cfg (s.th i).q).2 = true →
    P (readOne s i st rest)

/-- what a state predicate must be closed under for the skeleton to carry it through every schedule -/
structure Closed (P : BSt → Prop) : Prop extends ClosedH P, ClosedQ P where
  pop : ∀ s i st rest, P s → (s.th i).buf = st :: rest → P (popStep s i st rest)
  failReset : ∀ s i, P s → 0 < (s.th i).fail → P (failReset s i)
  front : ∀ s f, P s → P (applyFront s f).1

variable {P : BSt → Prop}

theorem allEmpty_closed (hc : ClosedH P) (s : BSt) (h : P s) : P (allEmpty s).1 := by
  unfold allEmpty
  dsimp only
  refine foldl_inv (fun a : BSt × Bool => P a.1) _ ?_ _ _ (hc.refresh s h)
  intro a i ha
  exact hc.ctxEmpty a.1 i ha

theorem hasPending_closed (hc : ClosedH P) (s : BSt) (h : P s) : P (hasPending s).1 := by
  unfold hasPending
  dsimp only
  refine foldl_inv (fun a : BSt × Bool => P a.1) _ ?_ _ _ (hc.refresh s h)
  intro a i ha
  split
  · exact ha
  · split
    · exact hc.ctxEmpty a.1 i ha
    · exact ha

theorem findFirst_closed (hc : ClosedH P) : ∀ (l : List Nat) (s : BSt), P s →
    P (cleanupContexts.go.findFirst s l).1 ∧
    ∀ i, (cleanupContexts.go.findFirst s l).2 = some i →
      ∃ s', P s' ∧ (s'.th i).valid = false ∧ (Backend.ctxEmpty s' i).2 = true ∧
        (s'.cfg.cleanupKeepsUnreported = true → (s'.th i).fail = 0) ∧
        (cleanupContexts.go.findFirst s l).1 = (Backend.ctxEmpty s' i).1
  | [], s, h => ⟨h, fun i hi => by simp [cleanupContexts.go.findFirst] at hi⟩
  | j :: rest, s, h => by
    unfold cleanupContexts.go.findFirst
    split
    · exact findFirst_closed hc rest s h
    · next hv =>
      dsimp only
      split
      · next he =>
        refine ⟨hc.ctxEmpty s j h, fun i hi => ?_⟩
        simp only [Option.some.injEq] at hi
        subst hi
        simp only [Bool.and_eq_true] at he
        refine ⟨s, h, by simpa using hv, he.1, fun hk => ?_, rfl⟩
        have := he.2
        simpa [hk] using this
      · exact findFirst_closed hc rest _ (hc.ctxEmpty s j h)

theorem cleanupGo_closed (hc : ClosedH P) : ∀ (fuel : Nat) (s : BSt), P s → P (cleanupContexts.go fuel s)
  | 0, s, h => by unfold cleanupContexts.go; exact h
  | fuel + 1, s, h => by
    unfold cleanupContexts.go
    have hf := findFirst_closed hc s.cache s h
    split
    · next s1 heq => rw [heq] at hf; exact hf.1
    · next s1 i heq =>
      rw [heq] at hf
      obtain ⟨s', hp, hv, he, hz, hs1⟩ := hf.2 i rfl
      dsimp only at hs1
      subst hs1
      exact cleanupGo_closed hc fuel _ (hc.dropCtx s' i hp hv he hz)

theorem cleanupContexts_closed (hc : ClosedH P) (s : BSt) (h : P s) : P (cleanupContexts s) := by
  unfold cleanupContexts
  split
  · exact h
  · exact cleanupGo_closed hc _ s h

/-- the sinks a logger erase releases: per destroyed sink the kill, the destructor event, then site 9 -/
theorem reapSinksInj_closed (hc : ClosedH P) (inj : BSt → Nat → BSt) (hinj : ∀ s site, P s → P (inj s site))
    (s : BSt) (sids : List Nat) (h : P s) : P (reapSinksInj inj s sids) := by
  unfold reapSinksInj
  refine foldl_inv P _ ?_ _ _ h
  intro a sid ha
  split
  · exact hinj _ 9 (hc.frame _ _ ha
      ((Frame.setSink a sid (fun k => { k with alive := false }) (fun k => ⟨rfl, rfl, rfl, rfl, rfl, rfl⟩)).trans
        (Frame.emit _ _ rfl)))
  · exact ha

theorem cleanupLoggers_closed (hc : ClosedH P) (inj : BSt → Nat → BSt) (hinj : ∀ s site, P s → P (inj s site))
    (s : BSt) (h : P s) : P (cleanupLoggers inj s) := by
  unfold cleanupLoggers
  split
  · exact h
  · dsimp only
    have h0 : P { s with hasInvalidLoggers := false } :=
      hc.frame s _ h (Frame.of_eq rfl rfl rfl rfl rfl rfl rfl rfl rfl rfl rfl rfl rfl (fun _ h => h))
    generalize ({ s with hasInvalidLoggers := false } : BSt) = s0 at h0 ⊢
    generalize (insSorted _ _ : List Nat) = order
    -- the erase pass
    have h1 : ∀ (l : List Nat) (acc : BSt × List Nat), P acc.1 →
        P (l.foldl (fun (acc : BSt × List Nat) (i : Nat) =>
            if (acc.1.lgOf i).valid then acc else
            if (allEmpty acc.1).2 then
              (reapSinksInj inj ((allEmpty acc.1).1.setLg i (fun l => { l with erased := true })) (acc.1.lgOf i).sinks,
               acc.2 ++ [(acc.1.lgOf i).gid])
            else ({ (allEmpty acc.1).1 with hasInvalidLoggers := true }, acc.2)) acc).1 := by
      intro l
      refine foldl_inv (fun a : BSt × List Nat => P a.1) _ ?_ l
      intro a i ha
      split
      · exact ha
      · have hA := allEmpty_closed hc a.1 ha
        split
        · exact reapSinksInj_closed hc inj hinj _ _
            (hc.frame _ _ hA (Frame.setLg _ i (fun l => { l with erased := true }) (fun l => ⟨rfl, rfl, rfl⟩)))
        · exact hc.frame _ _ hA (Frame.of_eq rfl rfl rfl rfl rfl rfl rfl rfl rfl rfl rfl rfl rfl (fun _ h => h))
    have h2 := h1 order (s0, []) h0
    -- raising the removal flags
    refine foldl_inv P _ ?_ _ _ h2
    intro a gid ha
    split
    · exact hc.frame _ _ ha (Frame.of_eq rfl rfl rfl rfl rfl rfl rfl rfl rfl rfl rfl rfl rfl
        (fun f hf => List.mem_cons_of_mem _ hf))
    · exact ha

theorem checkFailures_closed (hc : Closed P) (inj : BSt → Nat → BSt) (hinj : ∀ s site, P s → P (inj s site))
    (s : BSt) (h : P s) : P (checkFailures inj s) := by
  unfold checkFailures
  refine foldl_inv P _ ?_ _ _ h
  intro a i ha
  dsimp only
  split
  · next hf => exact hinj _ 8 (hc.failReset a i ha hf)
  · exact ha

/-- the record at the front of the queue is newer than the sampled `ts_now` -/
def future (tsNow : Option Nat) (st : Stmt) : Bool :=
  match tsNow with | some t => decide (t < st.ts) | none => false

/-- one record decoded and formatted: `readOne`, then the notification of a caught formatter exception -/
def readOneF (s : BSt) (i : Nat) (st : Stmt) (rest : List Stmt) : BSt := fmtNote (readOne s i st rest) st

theorem fmtNote_frame (s : BSt) (st : Stmt) : Frame s (fmtNote s st) := by
  unfold fmtNote
  split
  · exact Frame.emit _ _ rfl
  · exact Frame.refl s

theorem ClosedH.fmtNote (hc : ClosedH P) (s : BSt) (st : Stmt) (h : P s) : P (fmtNote s st) :=
  hc.frame _ _ h (fmtNote_frame s st)

theorem readQueue_succ (inj : BSt → Nat → BSt) (tsNow : Option Nat) (i fuel total : Nat) (s : BSt) :
    readQueue inj tsNow i (fuel + 1) total s =
      (let s1 := s.setTh i (fun t => { t with q := (qPrepareRead s.cfg (s.th i).q).1 })
       let fin := fun (s : BSt) => if total ≠ 0 then s.setTh i (fun t => { t with q := qCommitRead s.cfg t.q }) else s
       if !(qPrepareRead s.cfg (s.th i).q).2 then fin s1 else
       match (s.th i).qStmts with
       | [] => fin s1
       | st :: rest =>
         if future tsNow st then fin s1 else
         let s4 := inj (readOneF s i st rest) 3
         if total + st.size < s4.cfg.qcap ∧ (s4.th i).buf.length < s4.cfg.hard then
           readQueue inj tsNow i fuel (total + st.size) s4
         else s4.setTh i (fun t => { t with q := qCommitRead s4.cfg t.q })) := by
  rw [readQueue]
  rfl

theorem readQueue_closed (hf : ∀ s s', P s → Frame s s' → P s') (hc : ClosedQ P) (inj : BSt → Nat → BSt)
    (hinj : ∀ s site, P s → P (inj s site))
    (tsNow : Option Nat) (i : Nat) : ∀ (fuel total : Nat) (s : BSt), P s → P (readQueue inj tsNow i fuel total s)
  | 0, total, s, h => by
    unfold readQueue
    split
    · exact hc.commitRead s i h
    · exact h
  | fuel + 1, total, s, h => by
    rw [readQueue_succ]
    dsimp only
    have h1 := hc.prepRead s i h
    have hfin : ∀ s', P s' → P (if total ≠ 0 then s'.setTh i (fun t => { t with q := qCommitRead s'.cfg t.q }) else s') := by
      intro s' hs'
      split
      · exact hc.commitRead s' i hs'
      · exact hs'
    by_cases hr : (qPrepareRead s.cfg (s.th i).q).2 = true
    · rw [if_neg (by simp [hr])]
      split
      · exact hfin _ h1
      · next st rest hq =>
        by_cases hfu : future tsNow st = true
        · rw [if_pos hfu]; exact hfin _ h1
        · rw [if_neg hfu]
          have h4 := hinj _ 3 (hf _ _ (hc.readOne s i st rest h hq hr) (fmtNote_frame _ st))
          split
          · exact readQueue_closed hf hc inj hinj tsNow i fuel _ _ h4
          · exact hc.commitRead _ i h4
    · rw [if_pos (by simpa using hr)]; exact hfin _ h1

theorem populate_closed' (hf : ∀ s s', P s → Frame s s' → P s') (hr : ∀ s, P s → P (refreshCache s)) (hc : ClosedQ P) (inj : BSt → Nat → BSt)
    (hinj : ∀ s site, P s → P (inj s site))
    (s : BSt) (h : P s) : P (populate inj s).1 := by
  unfold populate
  dsimp only
  have ha : P (if s.cfg.refreshAfterSample = true then s else refreshCache s) := by
    split
    · exact h
    · exact hr s h
  generalize (if s.cfg.refreshAfterSample = true then s else refreshCache s) = sa at ha ⊢
  have hb : P (if sa.cfg.grace = 0 then sa else inj sa 7) := by
    split
    · exact ha
    · exact hinj _ 7 ha
  generalize (if sa.cfg.grace = 0 then sa else inj sa 7) = sb at hb ⊢
  have h1 := hinj sb 1 hb
  have h2 : P (if sb.cfg.refreshAfterSample = true then refreshCache (inj sb 1) else inj sb 1) := by
    split
    · exact hr _ h1
    · exact h1
  generalize (if sb.cfg.refreshAfterSample = true then refreshCache (inj sb 1) else inj sb 1) = s2 at h2 ⊢
  refine foldl_inv (fun a : BSt × Nat => P a.1) _ ?_ _ _ h2
  intro a i hA
  exact readQueue_closed hf hc inj hinj _ i _ _ _ (hinj _ 2 hA)

theorem populate_closed (hc : Closed P) (inj : BSt → Nat → BSt) (hinj : ∀ s site, P s → P (inj s site))
    (s : BSt) (h : P s) : P (populate inj s).1 := populate_closed' hc.frame hc.refresh hc.toClosedQ inj hinj s h

theorem processLowest_eq (inj : BSt → Nat → BSt) (s : BSt) :
    processLowest inj s =
      match lowest s with
      | none => (s, false)
      | some i =>
        match (s.th i).buf with
        | [] => (s, false)
        | st :: rest =>
          let s3 := popStep s i st rest
          match (processEvent s st).2.2 with
          | some f =>
            let s3' := if s3.cfg.reportBeforeFlushCleanup then checkFailures inj s3 else s3
            let s4 := cleanupContexts s3'
            ({ s4 with flags := f :: s4.flags, flagLog := (f, s4.log.length) :: s4.flagLog }, true)
          | none => (s3, true) := by
  unfold processLowest
  cases lowest s with
  | none => rfl
  | some i =>
    dsimp only
    cases (s.th i).buf with
    | nil => rfl
    | cons st rest => rfl

theorem processLowest_closed (hc : Closed P) (inj : BSt → Nat → BSt) (hinj : ∀ s site, P s → P (inj s site))
    (s : BSt) (h : P s) : P (processLowest inj s).1 := by
  rw [processLowest_eq]
  split
  · exact h
  · next i _ =>
    split
    · exact h
    · next st rest hb =>
      have h3 := hc.pop s i st rest h hb
      dsimp only
      split
      · have h3' : P (if (popStep s i st rest).cfg.reportBeforeFlushCleanup = true then
            checkFailures inj (popStep s i st rest) else popStep s i st rest) := by
          split
          · exact checkFailures_closed hc inj hinj _ h3
          · exact h3
        exact hc.frame _ _ (cleanupContexts_closed hc.toClosedH _ h3')
          (Frame.of_eq rfl rfl rfl rfl rfl rfl rfl rfl rfl rfl rfl rfl rfl (fun _ hf => List.mem_cons_of_mem _ hf))
      · exact h3

/-- the part of `_process_lowest_timestamp_transit_event` after the pop (counter check and context clean-up of a Flush
    event, the flag) -/
theorem processLowest_tail_closed (hc : Closed P) (inj : BSt → Nat → BSt) (hinj : ∀ s site, P s → P (inj s site))
    (s : BSt) (i : Nat) (st : Stmt) (rest : List Stmt) (hl : lowest s = some i) (hb : (s.th i).buf = st :: rest)
    (h3 : P (popStep s i st rest)) : P (processLowest inj s).1 := by
  rw [processLowest_eq, hl]
  dsimp only
  rw [hb]
  dsimp only
  split
  · have h3' : P (if (popStep s i st rest).cfg.reportBeforeFlushCleanup = true then
        checkFailures inj (popStep s i st rest) else popStep s i st rest) := by
      split
      · exact checkFailures_closed hc inj hinj _ h3
      · exact h3
    exact hc.frame _ _ (cleanupContexts_closed hc.toClosedH _ h3')
      (Frame.of_eq rfl rfl rfl rfl rfl rfl rfl rfl rfl rfl rfl rfl rfl (fun _ hf => List.mem_cons_of_mem _ hf))
  · exact h3

theorem batchLoop_closed (hc : Closed P) (inj : BSt → Nat → BSt) (hinj : ∀ s site, P s → P (inj s site)) :
    ∀ (fuel : Nat) (s : BSt), P s → P (batchLoop inj fuel s)
  | 0, s, h => by unfold batchLoop; exact h
  | fuel + 1, s, h => by
    unfold batchLoop
    dsimp only
    have h1 := hasPending_closed hc.toClosedH s h
    split
    · exact h1
    · have h2 := processLowest_closed hc inj hinj _ h1
      split
      · exact h2
      · exact batchLoop_closed hc inj hinj fuel _ (hinj _ 4 h2)

theorem flushGate_closed (hc : ClosedH P) (inj : BSt → Nat → BSt) (hinj : ∀ s site, P s → P (inj s site))
    (s : BSt) (n : Nat) (h : P s) : P (flushGate inj s n) := by
  unfold flushGate
  split
  · exact hc.frame _ _ h (flushSinks_frame _)
  · dsimp only
    split
    · have h1 : P { inj s 7 with lastFlush := (inj s 7).now } := hc.frame _ _ (hinj _ 7 h)
        (Frame.of_eq rfl rfl rfl rfl rfl rfl rfl rfl rfl rfl rfl rfl rfl (fun _ hf => hf))
      exact hc.frame _ _ h1 (flushSinks_frame _)
    · exact hinj _ 7 h

theorem preEraseFlush_closed (hc : ClosedH P) (s : BSt) (h : P s) : P (preEraseFlush s) := by
  unfold preEraseFlush
  split
  · exact hc.frame _ _ h (flushSinks_frame _)
  · exact h

theorem poll_closed (hc : Closed P) (inj : BSt → Nat → BSt) (hinj : ∀ s site, P s → P (inj s site))
    (s : BSt) (h : P s) : P (poll inj s) := by
  unfold poll
  have h1 := populate_closed hc inj hinj s h
  generalize populate inj s = pr at h1 ⊢
  obtain ⟨s1, count⟩ := pr
  dsimp only at h1 ⊢
  split
  · split
    · exact processLowest_closed hc inj hinj _ h1
    · exact batchLoop_closed hc inj hinj _ _ h1
  · have h3 := checkFailures_closed hc inj hinj _ (flushGate_closed hc.toClosedH inj hinj _ (inj s1 5).cfg.flushInterval (hinj _ 5 h1))
    have h4 := allEmpty_closed hc.toClosedH _ h3
    split
    · exact cleanupLoggers_closed hc.toClosedH inj hinj _ (preEraseFlush_closed hc.toClosedH _
        (cleanupContexts_closed hc.toClosedH _ h4))
    · exact h4

theorem exitLoop_closed (hc : Closed P) (inj : BSt → Nat → BSt) (hinj : ∀ s site, P s → P (inj s site))
    (tick : Nat) : ∀ (fuel : Nat) (s : BSt), P s → P (exitLoop inj tick fuel s)
  | 0, s, h => by unfold exitLoop; exact h
  | fuel + 1, s, h => by
    unfold exitLoop
    dsimp only
    have h1 := allEmpty_closed hc.toClosedH s h
    split
    · exact cleanupLoggers_closed hc.toClosedH inj hinj _ (preEraseFlush_closed hc.toClosedH _
        (cleanupContexts_closed hc.toClosedH _
          (hc.frame _ _ (checkFailures_closed hc inj hinj _ h1) (flushSinks_frame _))))
    · have h0 : P { (allEmpty s).1 with now := (allEmpty s).1.now + tick } :=
        hc.frame _ _ h1 (Frame.of_eq rfl rfl rfl rfl rfl rfl rfl rfl rfl rfl rfl rfl rfl (fun _ h => h))
      have h2 := populate_closed hc inj hinj _ h0
      generalize populate inj _ = pr at h2 ⊢
      obtain ⟨s1, count⟩ := pr
      dsimp only at h2 ⊢
      apply exitLoop_closed hc inj hinj tick fuel
      split
      · exact batchLoop_closed hc inj hinj _ _ h2
      · exact h2

theorem runInj_closed (hc : Closed P) (table : List (Nat × Nat × List FOp)) (s : BSt) (site : Nat) (h : P s) :
    P (runInj table s site) := by
  unfold runInj
  dsimp only
  have h1 : ∀ sc, P { s with siteCnt := sc } := fun sc =>
    hc.frame s _ h (Frame.of_eq rfl rfl rfl rfl rfl rfl rfl rfl rfl rfl rfl rfl rfl (fun _ h => h))
  split
  · exact h1 _
  · refine foldl_inv P _ ?_ _ _ (h1 _)
    intro a f ha
    split
    · exact hc.frame _ _ ha (Frame.emit _ _ rfl)
    · exact hc.frame _ _ (hc.front a f ha) (Frame.emit _ _ rfl)

theorem Closed.siteCnt (hc : Closed P) (s : BSt) (sc : List (Nat × Nat)) (h : P s) : P { s with siteCnt := sc } :=
  hc.frame s _ h (Frame.of_eq rfl rfl rfl rfl rfl rfl rfl rfl rfl rfl rfl rfl rfl (fun _ h => h))

theorem Closed.gone (hc : Closed P) (s : BSt) (b : Bool) (h : P s) : P { s with backendGone := b } :=
  hc.frame s _ h (Frame.of_eq rfl rfl rfl rfl rfl rfl rfl rfl rfl rfl rfl rfl rfl (fun _ h => h))

theorem applyOp_closed (hc : Closed P) (s : BSt) (op : Op) (h : P s) : P (applyOp s op).1 := by
  cases op with
  | front f => exact hc.front s f h
  | poll table =>
    simp only [applyOp]
    split
    · exact h
    · exact poll_closed hc _ (fun s site hs => runInj_closed hc table s site hs) _ (hc.siteCnt s [] h)
  | exit =>
    simp only [applyOp]
    split
    · exact h
    · exact hc.gone _ true (exitLoop_closed hc _ (fun s site hs => runInj_closed hc [] s site hs) 1000 _ _
        (hc.siteCnt s [] h))

theorem Closed.congr {Q : BSt → Prop} (hc : Closed P) (e : ∀ s, P s ↔ Q s) : Closed Q where
  frame := fun s s' h f => (e _).mp (hc.frame s s' ((e _).mpr h) f)
  refresh := fun s h => (e _).mp (hc.refresh s ((e _).mpr h))
  ctxEmpty := fun s i h => (e _).mp (hc.ctxEmpty s i ((e _).mpr h))
  dropCtx := fun s i h hv he hz => (e _).mp (hc.dropCtx s i ((e _).mpr h) hv he hz)
  prepRead := fun s i h => (e _).mp (hc.prepRead s i ((e _).mpr h))
  commitRead := fun s i h => (e _).mp (hc.commitRead s i ((e _).mpr h))
  readOne := fun s i st rest h hq hr => (e _).mp (hc.readOne s i st rest ((e _).mpr h) hq hr)
  pop := fun s i st rest h hb => (e _).mp (hc.pop s i st rest ((e _).mpr h) hb)
  failReset := fun s i h hf => (e _).mp (hc.failReset s i ((e _).mpr h) hf)
  front := fun s f h => (e _).mp (hc.front s f ((e _).mpr h))

/-- **the skeleton**: a closed predicate is an invariant of every schedule -/
theorem runOps_closed (hc : Closed P) : ∀ (ops : List Op) (s : BSt), P s → P (runOps s ops) := by
  intro ops
  unfold runOps
  exact foldl_inv P _ (fun a o ha => applyOp_closed hc a o ha) ops

end Backend.PA
