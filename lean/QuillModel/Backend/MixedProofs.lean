import QuillModel.Backend.Mixed
import QuillModel.Backend.ConsProofsDrop
/-!
The proof skeleton of `ConsProofsSkel.lean` for the machine with two frontends (`Backend/Mixed.lean`): a predicate closed
under the primitive state changes is an invariant of every schedule of `runOpsM`, for every set of unbounded-frontend
threads and both values of the seeded `early` flag. What differs from the single-frontend skeleton: the counter check
resets bounded contexts only (`failResetB`), and the clean-up may reclaim an unbounded context whatever its counter
(`dropAny`). Every other step is literally shared, so the shared closure lemmas are reused.
-/
namespace Backend.PA
open Backend Spsc

/-- what a predicate must be closed under to be carried through every schedule of the two-frontend machine -/
structure ClosedM (m : Mix) (P : BSt → Prop) : Prop where
  h : ClosedH P
  q : ClosedQ P
  pop : ∀ s i st rest, P s → (s.th i).buf = st :: rest → P (popStep s i st rest)
  failResetB : ∀ s i, P s → 0 < (s.th i).fail → isU m (s.th i) = false → P (failReset s i)
  dropAny : ∀ s i, P s → (s.th i).valid = false → (Backend.ctxEmpty s i).2 = true → P (dropCtx (Backend.ctxEmpty s i).1 i)
  front : ∀ s f, P s → P (applyFront s f).1

/-- a predicate of the single-frontend skeleton that does not care about the counter of a reclaimed context -/
theorem Closed.toM {P : BSt → Prop} (m : Mix) (hc : Closed P)
    (hd : ∀ s i, P s → (s.th i).valid = false → (Backend.ctxEmpty s i).2 = true → P (dropCtx (Backend.ctxEmpty s i).1 i)) :
    ClosedM m P :=
  { h := hc.toClosedH, q := hc.toClosedQ, pop := hc.pop, failResetB := fun s i h hf _ => hc.failReset s i h hf,
    dropAny := hd, front := hc.front }

variable {P : BSt → Prop} {m : Mix}

theorem checkFailuresM_closed (hc : ClosedM m P) (inj : BSt → Nat → BSt) (hinj : ∀ s site, P s → P (inj s site))
    (s : BSt) (h : P s) : P (checkFailuresM m inj s) := by
  unfold checkFailuresM
  split
  · exact h
  · refine foldl_inv P _ ?_ _ _ h
    intro a i ha
    dsimp only
    split
    · next hf =>
      simp only [Bool.and_eq_true, Bool.not_eq_true', decide_eq_true_eq] at hf
      exact hinj _ 8 (hc.failResetB a i ha hf.2 hf.1)
    · exact ha

theorem findFirstM_closed (hc : ClosedM m P) : ∀ (l : List Nat) (s : BSt), P s →
    P (cleanupContextsM.go.findFirst m s l).1 ∧
    ∀ i, (cleanupContextsM.go.findFirst m s l).2 = some i →
      ∃ s', P s' ∧ (s'.th i).valid = false ∧ (Backend.ctxEmpty s' i).2 = true ∧
        (cleanupContextsM.go.findFirst m s l).1 = (Backend.ctxEmpty s' i).1
  | [], s, h => ⟨h, fun i hi => by simp [cleanupContextsM.go.findFirst] at hi⟩
  | j :: rest, s, h => by
    unfold cleanupContextsM.go.findFirst
    split
    · exact findFirstM_closed hc rest s h
    · next hv =>
      dsimp only
      split
      · next he =>
        refine ⟨hc.h.ctxEmpty s j h, fun i hi => ?_⟩
        simp only [Option.some.injEq] at hi
        subst hi
        simp only [Bool.and_eq_true] at he
        exact ⟨s, h, by simpa using hv, he.1, rfl⟩
      · exact findFirstM_closed hc rest _ (hc.h.ctxEmpty s j h)

theorem cleanupGoM_closed (hc : ClosedM m P) : ∀ (fuel : Nat) (s : BSt), P s → P (cleanupContextsM.go m fuel s)
  | 0, s, h => by unfold cleanupContextsM.go; exact h
  | fuel + 1, s, h => by
    unfold cleanupContextsM.go
    have hf := findFirstM_closed hc s.cache s h
    split
    · next s1 heq => rw [heq] at hf; exact hf.1
    · next s1 i heq =>
      rw [heq] at hf
      obtain ⟨s', hp, hv, he, hs1⟩ := hf.2 i rfl
      dsimp only at hs1
      subst hs1
      exact cleanupGoM_closed hc fuel _ (hc.dropAny s' i hp hv he)

theorem cleanupContextsM_closed (hc : ClosedM m P) (s : BSt) (h : P s) : P (cleanupContextsM m s) := by
  unfold cleanupContextsM
  split
  · exact h
  · exact cleanupGoM_closed hc _ s h

theorem processLowestM_eq (m : Mix) (inj : BSt → Nat → BSt) (s : BSt) :
    processLowestM m inj s =
      match lowest s with
      | none => (s, false)
      | some i =>
        match (s.th i).buf with
        | [] => (s, false)
        | st :: rest =>
          let s3 := popStep s i st rest
          match (processEvent s st).2.2 with
          | some f =>
            let s3' := if s3.cfg.reportBeforeFlushCleanup then checkFailuresM m inj s3 else s3
            let s4 := cleanupContextsM m s3'
            ({ s4 with flags := f :: s4.flags, flagLog := (f, s4.log.length) :: s4.flagLog }, true)
          | none => (s3, true) := by
  unfold processLowestM
  cases lowest s with
  | none => rfl
  | some i =>
    dsimp only
    cases (s.th i).buf with
    | nil => rfl
    | cons st rest => rfl

theorem processLowestM_closed (hc : ClosedM m P) (inj : BSt → Nat → BSt) (hinj : ∀ s site, P s → P (inj s site))
    (s : BSt) (h : P s) : P (processLowestM m inj s).1 := by
  rw [processLowestM_eq]
  split
  · exact h
  · next i _ =>
    split
    · exact h
    · next st rest hb =>
      have h3 := hc.pop s i st rest h hb
      dsimp only
      split
      · have h3' : P (if (popStep s i st rest).cfg.reportBeforeFlushCleanup = true then
            checkFailuresM m inj (popStep s i st rest) else popStep s i st rest) := by
          split
          · exact checkFailuresM_closed hc inj hinj _ h3
          · exact h3
        exact hc.h.frame _ _ (cleanupContextsM_closed hc _ h3')
          (Frame.of_eq rfl rfl rfl rfl rfl rfl rfl rfl rfl rfl rfl rfl rfl (fun _ hf => List.mem_cons_of_mem _ hf))
      · exact h3

theorem batchLoopM_closed (hc : ClosedM m P) (inj : BSt → Nat → BSt) (hinj : ∀ s site, P s → P (inj s site)) :
    ∀ (fuel : Nat) (s : BSt), P s → P (batchLoopM m inj fuel s)
  | 0, s, h => by unfold batchLoopM; exact h
  | fuel + 1, s, h => by
    unfold batchLoopM
    dsimp only
    have h1 := hasPending_closed hc.h s h
    split
    · exact h1
    · have h2 := processLowestM_closed hc inj hinj _ h1
      split
      · exact h2
      · exact batchLoopM_closed hc inj hinj fuel _ (hinj _ 4 h2)

theorem pollM_closed (hc : ClosedM m P) (inj : BSt → Nat → BSt) (hinj : ∀ s site, P s → P (inj s site))
    (s : BSt) (h : P s) : P (pollM m inj s) := by
  unfold pollM
  have h1 := populate_closed' hc.h.frame hc.h.refresh hc.q inj hinj s h
  generalize populate inj s = pr at h1 ⊢
  obtain ⟨s1, count⟩ := pr
  dsimp only at h1 ⊢
  split
  · split
    · exact processLowestM_closed hc inj hinj _ h1
    · exact batchLoopM_closed hc inj hinj _ _ h1
  · have h3 := checkFailuresM_closed hc inj hinj _ (flushGate_closed hc.h inj hinj _ (inj s1 5).cfg.flushInterval (hinj _ 5 h1))
    have h4 := allEmpty_closed hc.h _ h3
    split
    · exact cleanupLoggers_closed hc.h inj hinj _ (preEraseFlush_closed hc.h _ (cleanupContextsM_closed hc _ h4))
    · exact h4

theorem exitLoopM_closed (hc : ClosedM m P) (inj : BSt → Nat → BSt) (hinj : ∀ s site, P s → P (inj s site))
    (tick : Nat) : ∀ (fuel : Nat) (s : BSt), P s → P (exitLoopM m inj tick fuel s)
  | 0, s, h => by unfold exitLoopM; exact h
  | fuel + 1, s, h => by
    unfold exitLoopM
    dsimp only
    have h1 := allEmpty_closed hc.h s h
    split
    · exact cleanupLoggers_closed hc.h inj hinj _ (preEraseFlush_closed hc.h _ (cleanupContextsM_closed hc _
        (hc.h.frame _ _ (checkFailuresM_closed hc inj hinj _ h1) (flushSinks_frame _))))
    · have h0 : P { (allEmpty s).1 with now := (allEmpty s).1.now + tick } :=
        hc.h.frame _ _ h1 (Frame.of_eq rfl rfl rfl rfl rfl rfl rfl rfl rfl rfl rfl rfl rfl (fun _ h => h))
      have h2 := populate_closed' hc.h.frame hc.h.refresh hc.q inj hinj _ h0
      generalize populate inj _ = pr at h2 ⊢
      obtain ⟨s1, count⟩ := pr
      dsimp only at h2 ⊢
      apply exitLoopM_closed hc inj hinj tick fuel
      split
      · exact batchLoopM_closed hc inj hinj _ _ h2
      · exact h2

theorem runInjM_closed (hc : ClosedM m P) (table : List (Nat × Nat × List FOp)) (s : BSt) (site : Nat) (h : P s) :
    P (runInj table s site) := by
  unfold runInj
  dsimp only
  have h1 : ∀ sc, P { s with siteCnt := sc } := fun sc =>
    hc.h.frame s _ h (Frame.of_eq rfl rfl rfl rfl rfl rfl rfl rfl rfl rfl rfl rfl rfl (fun _ h => h))
  split
  · exact h1 _
  · refine foldl_inv P _ ?_ _ _ (h1 _)
    intro a f ha
    split
    · exact hc.h.frame _ _ ha (Frame.emit _ _ rfl)
    · exact hc.h.frame _ _ (hc.front a f ha) (Frame.emit _ _ rfl)

theorem applyOpM_closed (hc : ClosedM m P) (s : BSt) (op : Op) (h : P s) : P (applyOpM m s op).1 := by
  have hsc : ∀ (s : BSt) sc, P s → P { s with siteCnt := sc } := fun s sc h =>
    hc.h.frame s _ h (Frame.of_eq rfl rfl rfl rfl rfl rfl rfl rfl rfl rfl rfl rfl rfl (fun _ h => h))
  cases op with
  | front f => exact hc.front s f h
  | poll table =>
    simp only [applyOpM]
    split
    · exact h
    · exact pollM_closed hc _ (fun s site hs => runInjM_closed hc table s site hs) _ (hsc s [] h)
  | exit =>
    simp only [applyOpM]
    split
    · exact h
    · exact hc.h.frame _ _ (exitLoopM_closed hc _ (fun s site hs => runInjM_closed hc [] s site hs) 1000 _ _ (hsc s [] h))
        (Frame.of_eq rfl rfl rfl rfl rfl rfl rfl rfl rfl rfl rfl rfl rfl (fun _ h => h))

/-- **the skeleton for two frontends**: a closed predicate is an invariant of every schedule -/
theorem runOpsM_closed (hc : ClosedM m P) : ∀ (ops : List Op) (s : BSt), P s → P (runOpsM m s ops) := by
  intro ops
  unfold runOpsM
  exact foldl_inv P _ (fun a o ha => applyOpM_closed hc a o ha) ops

/-- the accounting invariant of `ConsProofsDrop.lean` does not look at the counter of a reclaimed context -/
theorem InvD.closedM (m : Mix) : ClosedM m InvD :=
  InvD.closed.toM m (fun s i h _ _ => by
    refine h.of_eq rfl rfl ?_
    unfold PA.dropCtx
    rw [ctrs_setTh_same]
    · show ctrs (ctxEmpty s i).1 = ctrs s
      rw [ctxEmpty_fst, ctrs_setTh_same]; intro _; exact ⟨rfl, rfl, rfl⟩
    · intro _; exact ⟨rfl, rfl, rfl⟩)

/-- with the seeded early return, a check whose first cached context has an unbounded queue does nothing at all -/
theorem checkFailuresM_early_noop (m : Mix) (he : m.early = true) (inj : BSt → Nat → BSt) (s : BSt) (i : Nat) (rest : List Nat)
    (hc : s.cache = i :: rest) (hu : isU m (s.th i) = true) : checkFailuresM m inj s = s := by
  unfold checkFailuresM firstCachedUnbounded
  rw [hc]
  simp [he, hu]

/-- without interference the per-kind check clears the counter of every cached *bounded* context and leaves the
    unbounded ones alone -/
theorem checkFailuresM_quiet_spec (m : Mix) (hne : m.early = false) (s : BSt) :
    checkFailuresM m (fun x _ => x) s =
      s.cache.foldl (fun s i =>
        if !isU m (s.th i) && (s.th i).fail > 0 then failReset s i else s) s := by
  unfold checkFailuresM
  simp only [hne, Bool.false_and, Bool.false_eq_true, if_false]
  rfl

end Backend.PA
