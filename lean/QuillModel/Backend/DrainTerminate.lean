import QuillModel.Backend.FlushProgress
import QuillModel.Backend.DrainProgress
import QuillModel.Backend.OrdTop
/-!
Termination of the exit loop with the frontend stopped, built on prover bundle B's progress machinery
(`PB.populate_quiet`, `PB.batchLoop_quiet_lt`, the queue coupling `PB.QC` with `QC.empty_true`): an iteration keeps the
ordering invariant `PIo`, adds nothing, advances the clock by `tick`, and pops at least one event once every pending
record is past its grace period; with nothing pending the emptiness check answers yes. Helper lemmas for C07 (drain).
-/
namespace Backend.PC
open Backend Spsc

/-- with nothing pending anywhere the emptiness check answers yes -/
theorem allEmpty_fold_true (l : List Nat) : ∀ (acc : BSt × Bool), (∀ i, PB.QC (acc.1.th i)) → acc.2 = true →
    (∀ i, PB.chain (acc.1.th i) = []) →
    (l.foldl (fun (acc : BSt × Bool) i => ((ctxEmpty acc.1 i).1, acc.2 && (ctxEmpty acc.1 i).2)) acc).2 = true := by
  induction l with
  | nil => intro acc _ h _; exact h
  | cons x xs ih =>
    intro acc hqc hacc hno
    rw [List.foldl_cons]
    have hs := PB.same_ctxEmpty acc.1 x
    apply ih
    · intro i; exact (hs.th i).qc (hqc i)
    · have hc := hno x
      unfold PB.chain at hc
      obtain ⟨hb, hq⟩ := List.append_eq_nil_iff.mp hc
      have h1 := (hqc x).empty_true acc.1.cfg hq
      show (acc.2 && (ctxEmpty acc.1 x).2) = true
      unfold ctxEmpty
      simp only [hacc, h1, hb, List.isEmpty_nil, Bool.and_self]
    · intro i; rw [(hs.th i).chain]; exact hno i

theorem allEmpty_of_nothing_pending {c : Cfg} {fl : Nat} {s : BSt} (h : PB.PIo c fl s)
    (hno : ∀ i, PB.chain (s.th i) = []) : (allEmpty s).2 = true := by
  unfold allEmpty
  simp only []
  have hr := h.refresh
  apply allEmpty_fold_true _ _ hr.qc rfl
  intro i
  rw [((PB.fr_refresh s).th i).chain]; exact hno i


/-- reading the queues under a quiet runner pops nothing and adds nothing (whether or not the records are ripe) -/
theorem fr_populate {inj : BSt → Nat → BSt} (hq : PB.Quiet inj) (s : BSt) : PB.Fr s (populate inj s).1 := by
  rw [PB.populate_eq]
  have fa : PB.Fr s (PB.popA s) := by
    unfold PB.popA; split
    · exact PB.Fr.refl _
    · exact PB.fr_refresh s
  have fb : PB.Fr (PB.popA s) (PB.popB inj s) := by
    unfold PB.popB; split
    · exact PB.Fr.refl _
    · exact PB.Fr.quiet hq _ 7
  have fc : PB.Fr (PB.popB inj s) (PB.popC inj s) := by
    unfold PB.popC; split
    · exact (PB.Fr.quiet hq _ 1).trans (PB.fr_refresh _)
    · exact PB.Fr.quiet hq _ 1
  refine ((fa.trans fb).trans fc).trans ?_
  refine PB.fr_fold_pair (PB.popStep inj (tsNowOf (PB.popB inj s))) _ (PB.popC inj s, 0) ?_
  intro acc i
  unfold PB.popStep
  exact (PB.Fr.quiet hq acc.1 2).trans (PB.fr_readQueue hq _ i _ 0 _)


/-- the state an iteration of the exit loop reads the queues in: after the emptiness check, the clock advanced -/
def exitTicked (tick : Nat) (s : BSt) : BSt := { (allEmpty s).1 with now := (allEmpty s).1.now + tick }

theorem exitBody_eq (inj : BSt → Nat → BSt) (tick : Nat) (s : BSt) :
    exitBody inj tick s =
      if (populate inj (exitTicked tick s)).2 > 0
      then batchLoop inj (totalBuffered (populate inj (exitTicked tick s)).1 + 64) (populate inj (exitTicked tick s)).1
      else (populate inj (exitTicked tick s)).1 := rfl

/-- **one iteration of the exit loop, frontend stopped**: the ordering invariant is kept, nothing is added, the clock
    advances by `tick`, and if every pending record is past its grace period at the advanced clock and something is
    pending, at least one event is popped -/
theorem exitBody_quiet {inj : BSt → Nat → BSt} (hq : PB.Quiet inj) (tick : Nat) {c : Cfg} {fl : Nat} {s : BSt}
    (h : PB.PIo c fl s) :
    (∃ fl', PB.PIo c fl' (exitBody inj tick s)) ∧ PB.Sub s (exitBody inj tick s) ∧
    s.now + tick ≤ (exitBody inj tick s).now ∧
    (PB.Ripe (exitTicked tick s) → (∃ i, PB.chain (s.th i) ≠ []) →
      PB.pendingCount (exitBody inj tick s) < PB.pendingCount s) := by
  have hi := hq.injOK
  have fa : PB.Fr s (allEmpty s).1 := PB.fr_allEmpty s
  have ha : PB.PIo c fl (allEmpty s).1 := h.allEmpty
  have ht : PB.PIo c fl (exitTicked tick s) := ha.tick tick
  have st : PB.Sub (allEmpty s).1 (exitTicked tick s) :=
    ⟨rfl, Nat.le_add_right _ _, rfl, rfl, fun _ hf => hf, fun _ => PB.ThSub.refl _⟩
  have s0 : PB.Sub s (exitTicked tick s) := fa.sub.trans st
  have hnow : s.now + tick = (exitTicked tick s).now := by
    show s.now + tick = (allEmpty s).1.now + tick
    rw [fa.now]
  have fp : PB.Fr (exitTicked tick s) (populate inj (exitTicked tick s)).1 := fr_populate hq _
  obtain ⟨fl1, C1, hp⟩ := PB.PIo.populate hi ht
  have hp' : PB.PIo c fl1 (populate inj (exitTicked tick s)).1 := hp.toPIo
  rw [exitBody_eq]
  refine ⟨?_, ?_, ?_, ?_⟩
  · split
    · exact ⟨fl1, PB.PIo.batchLoop hi _ _ hp'⟩
    · exact ⟨fl1, hp'⟩
  · split
    · exact (s0.trans fp.sub).trans (PB.batchLoop_sub hq _ _)
    · exact s0.trans fp.sub
  · rw [hnow]
    split
    · exact (fp.sub.trans (PB.batchLoop_sub hq _ _)).now
    · exact fp.sub.now
  · intro hr hx
    obtain ⟨g1, _, g3, g4⟩ := PB.populate_quiet hq ht hr
    have hle0 := s0.pending_le
    have hle1 := g1.sub.pending_le
    have hex : ∃ i ∈ (populate inj (exitTicked tick s)).1.registry,
        PB.chain ((populate inj (exitTicked tick s)).1.th i) ≠ [] := by
      obtain ⟨i, hne⟩ := hx
      have hne0 : PB.chain ((exitTicked tick s).th i) ≠ [] := by
        have e1 : PB.chain ((exitTicked tick s).th i) = PB.chain ((allEmpty s).1.th i) := rfl
        rw [e1, (fa.th i).chain]; exact hne
      exact ⟨i, by rw [g1.reg]; exact ht.reg i hne0, by rw [(g1.th i).chain]; exact hne0⟩
    have hc := g4 hex
    have hpos : (populate inj (exitTicked tick s)).2 > 0 := Nat.pos_of_ne_zero hc
    rw [if_pos hpos]
    have hlt : PB.pendingCount (batchLoop inj ((totalBuffered (populate inj (exitTicked tick s)).1 + 63) + 1)
        (populate inj (exitTicked tick s)).1) < PB.pendingCount (populate inj (exitTicked tick s)).1 :=
      PB.batchLoop_quiet_lt hq _ hp' g3 hex
    have e : totalBuffered (populate inj (exitTicked tick s)).1 + 64 =
        (totalBuffered (populate inj (exitTicked tick s)).1 + 63) + 1 := rfl
    rw [e]; omega


theorem pendingCount_eq_total (s : BSt) : PB.pendingCount s = pendingTotal s := by
  unfold PB.pendingCount pendingTotal bq
  congr 1
  rw [List.map_map]
  apply List.ext_getElem
  · simp
  · intro j h1 h2
    simp only [List.length_map, List.length_range] at h1
    simp only [List.getElem_map, List.getElem_range, Function.comp, PB.chain, List.length_append, BSt.th,
      List.getD_eq_getElem?_getD, List.getElem?_eq_getElem h1, Option.getD_some]

/-- **termination of the exit loop, frontend stopped.** If every pending timestamp is at most `N0` and the clock
    reaches `N0 + grace` after `k + 1` more ticks, the loop finds everything empty within
    `pendingCount s + k + 1` iterations. -/
theorem exit_terminates {inj : BSt → Nat → BSt} (hq : PB.Quiet inj) (tick N0 : Nat) (c : Cfg) :
    ∀ (fuel k fl : Nat) (s : BSt), PB.PIo c fl s → (∀ j, ∀ r ∈ PB.chain (s.th j), r.ts ≤ N0) →
      N0 + c.grace ≤ s.now + (k + 1) * tick → PB.pendingCount s + k < fuel → exitEnds inj tick fuel s
  | 0, _, _, _, _, _, _, hf => by omega
  | fuel + 1, k, fl, s, h, hb, hk, hf => by
    cases he : (allEmpty s).2
    · right
      refine ⟨he, ?_⟩
      have hx : ∃ i, PB.chain (s.th i) ≠ [] := by
        apply Classical.byContradiction
        intro hno
        have hall : ∀ i, PB.chain (s.th i) = [] := by
          intro i
          apply Classical.byContradiction
          intro hne; exact hno ⟨i, hne⟩
        have := allEmpty_of_nothing_pending h hall
        rw [he] at this; cases this
      obtain ⟨⟨fl', h'⟩, hsub, hnow, hprog⟩ := exitBody_quiet hq tick h
      have hb' : ∀ j, ∀ r ∈ PB.chain ((exitBody inj tick s).th j), r.ts ≤ N0 :=
        fun j r hr => hb j r ((hsub.th j).chain.subset hr)
      have hle := hsub.pending_le
      cases k with
      | zero =>
        have hripe : PB.Ripe (exitTicked tick s) := by
          intro j r hr
          have e1 : PB.chain ((exitTicked tick s).th j) = PB.chain ((allEmpty s).1.th j) := rfl
          rw [e1, ((PB.fr_allEmpty s).th j).chain] at hr
          have hcfg : (exitTicked tick s).cfg = c := by
            show (allEmpty s).1.cfg = c
            rw [(PB.fr_allEmpty s).cfg]; exact h.cfgEq
          have hn : (exitTicked tick s).now = s.now + tick := by
            show (allEmpty s).1.now + tick = _
            rw [(PB.fr_allEmpty s).now]
          rw [hcfg, hn]
          have := hb j r hr
          omega
        have hlt := hprog hripe hx
        apply exit_terminates hq tick N0 c fuel 0 fl' _ h' hb'
        · have : s.now + (0 + 1) * tick ≤ (exitBody inj tick s).now + (0 + 1) * tick := by omega
          omega
        · omega
      | succ k' =>
        apply exit_terminates hq tick N0 c fuel k' fl' _ h' hb'
        · have e : (k' + 1 + 1) * tick = (k' + 1) * tick + tick := by rw [Nat.add_mul, Nat.one_mul]
          rw [e] at hk
          omega
        · omega
    · exact Or.inl he

end Backend.PC
