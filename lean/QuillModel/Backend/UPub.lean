import QuillModel.Backend.UGen
/-!
The publication invariant of the U machine (C09): between two operations, a context whose chain holds nothing and
consists of one buffer has that buffer's reader position published (`rHist.headD 0 = rpos`: what a producer reload
returns), and every buffer the consumer has not reached yet has never been read. Inside the read of context `i` the
second half is suspended for `i` (`ex = some i`) until the `commit_read` that ends the read re-establishes it
(drain rule).
-/
namespace Backend.US
open Backend Spsc Backend.PA Backend.UQ

/-- reader position published -/
def K (q : St) : Prop := q.rHist.headD 0 = q.rpos
/-- the reader-side publication fields are untouched -/
def RP (q q' : St) : Prop := q'.rHist = q.rHist ∧ q'.rpos = q.rpos

theorem RP.k {q q' : St} (h : RP q q') (hk : K q) : K q' := by unfold K at *; rw [h.1, h.2]; exact hk
theorem RP.trans {a b c : St} (h1 : RP a b) (h2 : RP b c) : RP a c := ⟨h2.1.trans h1.1, h2.2.trans h1.2⟩

theorem rp_prepareWrite (c : Cfg) (q : St) (n : Nat) : RP q (qPrepareWrite c q n).1 := by
  simp only [qPrepareWrite, absApi, apiOps]; split <;> exact ⟨rfl, rfl⟩
theorem rp_finishCommit (c : Cfg) (q : St) (n : Nat) : RP q (qFinishCommit c q n) := by
  simp [RP, qFinishCommit, absApi, apiOps, run, step]
theorem rp_commitWrite (c : Cfg) (q : St) : RP q (absApi c.qp q .commitWrite).1 := by
  simp [RP, absApi, apiOps, run, step]
theorem rp_prepareRead (c : Cfg) (q : St) : RP q (qPrepareRead c q).1 := by
  simp only [qPrepareRead, absApi, apiOps]; split <;> exact ⟨rfl, rfl⟩
theorem rp_empty (c : Cfg) (q : St) : RP q (qEmpty c q).1 := by rw [qEmpty_eq]; exact rp_prepareRead c q
theorem k_init (cap batch : Nat) : K (Spsc.init cap batch) := rfl

theorem updLast_rp {f : St → St} (hf : ∀ p, RP p (f p)) : ∀ (more : List St) (q : St),
    RP q (updLast f q more).1 ∧ (∀ n ∈ (updLast f q more).2, ∃ m ∈ more, RP m n) ∧
    ((updLast f q more).2 = [] ↔ more = [])
  | [], q => ⟨hf q, fun n hn => absurd hn List.not_mem_nil, Iff.rfl⟩
  | p :: rest, q => by
    obtain ⟨h1, h2, _⟩ := updLast_rp hf rest p
    refine ⟨⟨rfl, rfl⟩, ?_, by simp [updLast]⟩
    intro n hn
    simp only [updLast, List.mem_cons] at hn
    rcases hn with hn | hn
    · exact ⟨p, by simp, hn ▸ h1⟩
    · obtain ⟨m, hm, hr⟩ := h2 n hn
      exact ⟨m, by simp [hm], hr⟩

def F (t : Th) : Prop := ∀ n ∈ t.more, K n
def Pub (t : Th) : Prop := t.qStmts = [] → t.more = [] → K t.q
/-- per-context predicate; `ex` = the context whose read is in progress -/
def Tx (ex : Option Nat) (j : Nat) (t : Th) : Prop := F t ∧ (some j ≠ ex → Pub t)

theorem setProd_F {t : Th} {f : St → St} (hf : ∀ p, RP p (f p)) (h : F t) : F (t.setProd f) := by
  intro n hn
  obtain ⟨m, hm, hr⟩ := (updLast_rp hf t.more t.q).2.1 n hn
  exact hr.k (h m hm)

theorem setProd_Pub {t : Th} {f : St → St} (hf : ∀ p, RP p (f p)) (h : Pub t) : Pub (t.setProd f) := by
  intro hq hm
  have hm' : t.more = [] := (updLast_rp hf t.more t.q).2.2.mp hm
  exact (updLast_rp hf t.more t.q).1.k (h hq hm')

theorem snoc_F {t : Th} (n : St) (hn : K n) (h : F t) : F { t with more := t.more ++ [n] } := by
  intro m hm
  rcases List.mem_append.mp hm with hm | hm
  · exact h m hm
  · simp at hm; rw [hm]; exact hn

theorem prepW_FP (c : Cfg) (qmax : Nat) (t : Th) (n : Nat) (hF : F t) :
    F (uPrepareWrite c qmax t n).1 ∧ (Pub t → Pub (uPrepareWrite c qmax t n).1) := by
  have h0F : F (t.setProd (fun p => (qPrepareWrite c p n).1)) := setProd_F (fun p => rp_prepareWrite c p n) hF
  have h0P : Pub t → Pub (t.setProd (fun p => (qPrepareWrite c p n).1)) := setProd_Pub (fun p => rp_prepareWrite c p n)
  unfold uPrepareWrite
  dsimp only
  split
  · exact ⟨h0F, h0P⟩
  · split
    · exact ⟨h0F, h0P⟩
    · exact ⟨h0F, h0P⟩
    · refine ⟨snoc_F _ (k_init _ _) (setProd_F (fun p => rp_commitWrite c p) h0F), fun _ _ hm => ?_⟩
      exact absurd hm (by simp)

theorem tx_closed (u : UP) (ex : Option Nat) : TClosed u (Tx ex) where
  dflt := fun _ => ⟨fun n hn => absurd hn List.not_mem_nil, fun _ _ _ => rfl⟩
  fresh := fun _ _ _ => ⟨fun n hn => absurd hn List.not_mem_nil, fun _ _ _ => rfl⟩
  prepW := fun _ c t n _ h => ⟨(prepW_FP c u.qmax t n h.1).1, fun hne => (prepW_FP c u.qmax t n h.1).2 (h.2 hne)⟩
  enq := fun _ c t st _ _ h =>
    ⟨setProd_F (t := (uPrepareWrite c u.qmax t st.size).1) (fun p => rp_finishCommit c p st.size) (prepW_FP c u.qmax t st.size h.1).1,
     fun _ hq _ => absurd hq (by simp)⟩
  shrink := fun _ c t w _ h => by
    unfold uShrink
    split
    · exact ⟨snoc_F _ (k_init _ _) h.1, fun _ _ hm => absurd hm (by simp)⟩
    · exact h
  bump := fun _ _ _ _ _ h => h
  inval := fun _ _ h => h

/-! ### the consumer side -/

theorem uPrepareRead_FP (c : Cfg) (t : Th) (hF : F t) :
    F (uPrepareRead c t).1 ∧ (Pub t → Pub (uPrepareRead c t).1) := by
  unfold uPrepareRead
  dsimp only
  have hp1 : ∀ q', RP t.q q' → Pub t → Pub { t with q := q' } := fun q' hr hp hq hm => hr.k (hp hq hm)
  split
  · exact ⟨hF, hp1 _ (rp_prepareRead c t.q)⟩
  · split
    · exact ⟨hF, hp1 _ (rp_prepareRead c t.q)⟩
    · next nx rest hm =>
      split
      · exact ⟨hF, hp1 _ ((rp_prepareRead c t.q).trans (rp_prepareRead c _))⟩
      · refine ⟨fun n hn => hF n (by rw [hm]; simp [hn]), fun _ _ _ => ?_⟩
        exact (rp_prepareRead c nx).k (hF nx (by rw [hm]; simp))

theorem uRead_FP (c : Cfg) (follow : Bool) : ∀ (fuel : Nat) (t : Th), F t →
    F (uRead c follow fuel t).1 ∧ (Pub t → Pub (uRead c follow fuel t).1)
  | 0, t, hF => ⟨hF, id⟩
  | fuel + 1, t, hF => by
    have h1 := uPrepareRead_FP c t hF
    unfold uRead
    dsimp only
    split
    · have h2 := uRead_FP c follow fuel _ h1.1
      exact ⟨h2.1, fun hp => h2.2 (h1.2 hp)⟩
    · exact h1

/-- the `commit_read` that ends a read publishes when the chain is drained (drain rule) -/
theorem commit_Pub (c : Cfg) (hdp : c.qp.drainPublish = true) (t : Th) (h : TI t) : Pub (uCommitRead c t) := by
  intro hq hm
  have hq : t.qStmts = [] := hq
  have hm : t.more = [] := hm
  have hc := h.coh
  rw [hm, hq] at hc
  have hni : NI t.q [] := hc
  obtain ⟨pre, suf, e, hw⟩ := hni.wc
  have hp : pre = [] := (List.append_eq_nil_iff.mp e.symm).1
  rw [hp] at hw
  have hw' : t.q.wcache = t.q.rpos := by simpa using hw
  show (qCommitRead c t.q).rHist.headD 0 = (qCommitRead c t.q).rpos
  simp [qCommitRead, absApi, apiOps, run, step, publishes, hdp, hw']

theorem ccoh_pos : ∀ (more : List St) (q : St) (l : List Stmt), CCoh q more l → ∀ st ∈ l, 0 < st.size
  | [], q, l, h => h.coh.pos
  | p :: rest, q, l, h => by
    obtain ⟨a, b, e, hq, hr⟩ := h
    intro st hst
    rw [e] at hst
    rcases List.mem_append.mp hst with hs | hs
    · exact hq.coh.pos st hs
    · exact ccoh_pos rest p b hr st hs

end Backend.US
