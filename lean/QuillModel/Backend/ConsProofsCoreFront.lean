import QuillModel.Backend.ConsProofsCore
/-!
`InvA` is preserved by every frontend operation (`applyFront`), hence `Closed InvA` and the invariant over all
schedules.
-/
namespace Backend.PA
open Backend Spsc

theorem actor_some {s : BSt} {a : Nat} {x : Actor} (h : s.actor a = some x) :
    x ∈ s.actors ∧ x.id = a ∧ x.alive = true := by
  unfold BSt.actor at h
  have h1 := List.mem_of_find?_eq_some h
  have h2 := List.find?_some h
  simp only [decide_eq_true_eq] at h2
  exact ⟨h1, h2.1, h2.2⟩

theorem mem_setActor {s : BSt} {a : Nat} {f : Actor → Actor} {y : Actor} (h : y ∈ (s.setActor a f).actors) :
    ∃ x ∈ s.actors, y = if x.id = a ∧ x.alive then f x else x := by
  simp only [BSt.setActor, List.mem_map] at h
  obtain ⟨x, hx, he⟩ := h
  exact ⟨x, hx, he.symm⟩

theorem InvA.setActor {s : BSt} (h : InvA s) (a : Nat) (f : Actor → Actor)
    (hid : ∀ x, (f x).id = x.id) (hal : ∀ x, (f x).alive = true → x.alive = true)
    (hctx : ∀ x, (f x).ctx = x.ctx)
    (hp : ∀ x ∈ s.actors, ∀ st, pendStmt (f x).pend = some st → 0 < st.size) : InvA (s.setActor a f) := by
  refine ⟨h.hdr, h.th, ?_, ?_, h.reg⟩
  · intro y hy hya i hi
    obtain ⟨x, hx, rfl⟩ := mem_setActor hy
    split at hya
    · rw [if_pos ‹_›] at hi ⊢
      rw [hid]
      exact h.act x hx (hal x hya) i (hctx x ▸ hi)
    · rw [if_neg ‹_›] at hi ⊢
      exact h.act x hx hya i hi
  · intro y hy st hst
    obtain ⟨x, hx, rfl⟩ := mem_setActor hy
    split at hst
    · exact hp x hx st hst
    · exact h.pend x hx st hst

/-- changing only the pending call of an actor -/
theorem InvA.setPend {s : BSt} (h : InvA s) (a : Nat) (p : Pend) (hp : ∀ st, pendStmt p = some st → 0 < st.size) :
    InvA (s.setActor a (fun x => { x with pend := p })) :=
  h.setActor a _ (fun _ => rfl) (fun _ h => h) (fun _ => rfl) (fun _ _ st hst => hp st hst)

theorem th_append (s : BSt) (t : Th) (j : Nat) (rg : List Nat) (nf : Bool) :
    ({ s with ths := s.ths ++ [t], registry := rg, newFlag := nf } : BSt).th j =
      if j = s.ths.length then t else s.th j := by
  simp only [BSt.th, List.getD_eq_getElem?_getD]
  by_cases hj : j < s.ths.length
  · rw [List.getElem?_append_left hj, if_neg (by omega)]
  · rw [List.getElem?_append_right (by omega)]
    by_cases hj2 : j = s.ths.length
    · simp [hj2]
    · have : j - s.ths.length = (j - s.ths.length - 1) + 1 := by omega
      rw [if_neg hj2, this]
      have : s.ths[j]? = none := by simp; omega
      simp [this]

theorem InvA.ensureCtx {s : BSt} (h : InvA s) (a : Nat) :
    InvA (ensureCtx s a).1 ∧ ((ensureCtx s a).1.th (ensureCtx s a).2).valid = true := by
  unfold Backend.ensureCtx
  split
  · next i hi =>
    refine ⟨h, ?_⟩
    cases hx : s.actor a with
    | none => simp [hx] at hi
    | some x =>
      simp only [hx, Option.bind_some] at hi
      obtain ⟨hm, _, hal⟩ := actor_some hx
      exact (h.act x hm hal i hi).2.1
  · dsimp only
    refine ⟨?_, ?_⟩
    · refine ⟨h.hdr, ?_, ?_, ?_, ?_⟩
      · intro j
        rw [setActor_th, th_append]
        split
        · exact ⟨rfl, QCoh.init _ _, fun hr => by simp [mkTh] at hr⟩
        · exact h.th j
      · intro y hy hya i hi
        obtain ⟨x, hx, rfl⟩ := mem_setActor hy
        rw [setActor_th, th_append]
        simp only [setActor_ths, List.length_append, List.length_cons, List.length_nil]
        split at hya
        · next hc =>
          rw [if_pos hc] at hi ⊢
          simp only [Option.some.injEq] at hi
          subst hi
          simp [mkTh, hc.1]
        · next hc =>
          rw [if_neg hc] at hi ⊢
          obtain ⟨a1, a2, a3⟩ := h.act x hx hya i hi
          rw [if_neg (by omega)]
          exact ⟨by omega, a2, a3⟩
      · intro y hy st hst
        obtain ⟨x, hx, rfl⟩ := mem_setActor hy
        split at hst
        · exact h.pend x hx st hst
        · exact h.pend x hx st hst
      · intro j hj
        rw [setActor_th, th_append]
        simp only [setActor_ths, List.length_append, List.length_cons, List.length_nil] at hj
        by_cases hjl : j = s.ths.length
        · left; simp [BSt.setActor, hjl]
        · rw [if_neg hjl]
          rcases h.reg j (by omega) with hr | hr
          · left; simp [BSt.setActor, hr]
          · exact Or.inr hr
    · rw [setActor_th, th_append]; simp [mkTh]

theorem InvA.tryEnq {s : BSt} (h : InvA s) (ci : Nat) (st : Stmt) (hsz : 0 < st.size)
    (hv : (s.th ci).valid = true) : InvA (tryEnq s ci st).1 := by
  unfold Backend.tryEnq
  dsimp only
  have hT := h.th ci
  have hsame := qPrepareWrite_same s.cfg (s.th ci).q st.size
  split
  · refine h.setTh ci _ ⟨?_, ?_, ?_⟩ rfl rfl rfl
    · show (s.th ci).accepted ++ [_] = (s.th ci).popped ++ (s.th ci).buf ++ ((s.th ci).qStmts ++ [_])
      rw [hT.cons]; simp
    · exact QCoh.enq (hT.coh.of_same hsame) { st with enqAt := s.now } hsz
    · intro hr
      have := (hT.rem hr).1
      rw [hv] at this; cases this
  · exact h.setQ ci (fun _ => (qPrepareWrite s.cfg (s.th ci).q st.size).1) hsame

theorem tryEnq_valid (s : BSt) (ci : Nat) (st : Stmt) (j : Nat) :
    ((tryEnq s ci st).1.th j).valid = (s.th j).valid := by
  unfold Backend.tryEnq
  dsimp only
  split <;> (rw [th_setTh]; split <;> simp_all)

theorem InvA.afterEnq {s : BSt} (h : InvA s) (a : Nat) (st : Stmt) (cont : Nat) : InvA (afterEnq s a st cont).1 := by
  unfold Backend.afterEnq
  split
  · exact h.setPend a _ (fun st h => by simp [pendStmt] at h)
  · exact h.of_eq rfl rfl rfl (fun _ h => h)
  · exact h
  · exact InvA.setPend (s := { (s.setLg st.lg (fun l => { l with valid := false })) with hasInvalidLoggers := true })
      (h.of_eq rfl rfl rfl (fun _ h => h)) a _ (fun st h => by simp [pendStmt] at h)
  · exact h

theorem InvA.bump {s : BSt} (h : InvA s) (ci : Nat) (d1 d2 : Nat) :
    InvA (s.setTh ci (fun t => { t with fail := t.fail + 1, discarded := t.discarded + d1,
                                        blockedCalls := t.blockedCalls + d2 })) :=
  h.setTh ci _ ⟨(h.th ci).cons, (h.th ci).coh, (h.th ci).rem⟩ rfl rfl rfl

theorem InvA.enqFlow {s : BSt} (h : InvA s) (a : Nat) (st : Stmt) (cont : Nat) (first initial : Bool)
    (hsz : 0 < st.size) : InvA (enqFlow s a st cont first initial).1 := by
  unfold Backend.enqFlow
  obtain ⟨h1, hv⟩ := h.ensureCtx a
  generalize Backend.ensureCtx s a = e at h1 hv ⊢
  obtain ⟨s1, ci⟩ := e
  dsimp only at h1 hv ⊢
  have h2 := h1.tryEnq ci st hsz hv
  generalize Backend.tryEnq s1 ci st = e2 at h2 ⊢
  obtain ⟨s2, ok⟩ := e2
  dsimp only at h2 ⊢
  have hnone : InvA (s2.setActor a (fun x => { x with pend := .none })) :=
    h2.setPend a _ (fun st h => by simp [pendStmt] at h)
  have hretry : ∀ s3, InvA s3 → InvA (s3.setActor a (fun x => { x with pend := .retry st cont })) :=
    fun s3 h3 => h3.setPend a _ (fun st' h' => by simp only [pendStmt, Option.some.injEq] at h'; exact h' ▸ hsz)
  have hbump : ∀ d1 d2 : Nat, InvA (if isLogKind st.kind = true then
      s2.setTh ci (fun t => { t with fail := t.fail + 1, discarded := t.discarded + d1,
                                     blockedCalls := t.blockedCalls + d2 })
      else s2) := by
    intro d1 d2
    split
    · exact h2.bump ci d1 d2
    · exact h2
  split
  · exact hnone.afterEnq a st cont
  · split
    · split
      · exact InvA.setPend (hbump _ _) a .none (fun st h => by simp [pendStmt] at h)
      · exact hretry _ (hbump _ _)
    · apply hretry
      split
      · exact hbump _ _
      · exact h2

theorem stmtSize_pos (c : Cfg) (k : Kind) (id len : Nat) (dyn : Bool) (gid : Nat) (h : 0 < c.hdr) :
    0 < stmtSize c k id len dyn gid := by
  unfold stmtSize; split <;> omega

theorem InvA.frontCall {s : BSt} (h : InvA s) (a lgi : Nat) (kind : Kind) (lvl len cont : Nat) (dyn : Bool)
    (id : Nat) (named : Bool) : InvA (frontCall s a lgi kind lvl len cont dyn id named).1 := by
  unfold Backend.frontCall
  dsimp only
  have hsz := stmtSize_pos s.cfg kind id len dyn (s.lgOf lgi).gid h.hdr
  split
  · exact h.setActor a _ (fun _ => rfl) (fun _ h => h) (fun _ => rfl)
      (fun _ _ st' h' => by simp only [pendStmt, Option.some.injEq] at h'; rw [← h']; exact hsz)
  · exact h.enqFlow a _ cont true true hsz

theorem InvA.resume {s : BSt} (h : InvA s) (a : Nat) : InvA (resume s a).1 := by
  unfold Backend.resume
  split
  · next st cont hp =>
    have hsz : 0 < st.size := by
      cases hx : s.actor a with
      | none => simp [hx] at hp
      | some x =>
        simp only [hx, Option.map_some, Option.some.injEq] at hp
        exact h.pend x (actor_some hx).1 st (by simp [hp, pendStmt])
    exact h.enqFlow a st cont true false hsz
  · next st cont hp =>
    have hsz : 0 < st.size := by
      cases hx : s.actor a with
      | none => simp [hx] at hp
      | some x =>
        simp only [hx, Option.map_some, Option.some.injEq] at hp
        exact h.pend x (actor_some hx).1 st (by simp [hp, pendStmt])
    split
    · exact h.enqFlow a { st with ts := s.now } cont true false hsz
    · exact h.enqFlow a st cont false false hsz
  · split
    · exact h.setPend a _ (fun st h => by simp [pendStmt] at h)
    · exact h
  · exact h

/-- fields of an actor that `InvA` does not read -/
theorem InvA.setActorMisc {s : BSt} (h : InvA s) (a : Nat) (f : Actor → Actor)
    (hid : ∀ x, (f x).id = x.id) (hal : ∀ x, (f x).alive = x.alive) (hctx : ∀ x, (f x).ctx = x.ctx)
    (hp : ∀ x, (f x).pend = x.pend) : InvA (s.setActor a f) :=
  h.setActor a f hid (fun x hx => hal x ▸ hx) hctx (fun x hx st hst => h.pend x hx st (hp x ▸ hst))

theorem InvA.noteCall {r : BSt × String} (h : InvA r.1) (a gid : Nat) : InvA (noteCall r a gid).1 := by
  unfold Backend.noteCall
  exact h.setActorMisc a _ (fun _ => rfl) (fun _ => rfl) (fun _ => rfl) (fun _ => rfl)

theorem InvA.withLogger {s : BSt} (h : InvA s) (a gid : Nat) (k : Nat → BSt × String)
    (hk : ∀ lgi, InvA (k lgi).1) : InvA (withLogger s a gid k).1 := by
  unfold Backend.withLogger
  split
  · exact InvA.noteCall (hk _) a gid
  · exact h

theorem InvA.front {s : BSt} (h : InvA s) (f : FOp) : InvA (applyFront s f).1 := by
  have hmisc : ∀ s' : BSt, s'.cfg = s.cfg → s'.ths = s.ths → s'.actors = s.actors → s'.registry = s.registry →
      InvA s' := fun s' h1 h2 h3 h4 => h.of_eq h1 h2 h3 (fun _ hi => h4 ▸ hi)
  cases f with
  | tick dt => exact hmisc _ rfl rfl rfl rfl
  | tstart a =>
    simp only [applyFront]
    split
    · exact h
    · refine ⟨h.hdr, h.th, ?_, ?_, h.reg⟩
      · intro x hx hal i hi
        rcases List.mem_append.mp hx with hx | hx
        · exact h.act x hx hal i hi
        · simp at hx; subst hx; simp at hi
      · intro x hx st hst
        rcases List.mem_append.mp hx with hx | hx
        · exact h.pend x hx st hst
        · simp at hx; subst hx; simp [pendStmt] at hst
  | texit a =>
    simp only [applyFront]
    split
    · exact h
    · have h1 : InvA (s.setActor a (fun x => { x with alive := false })) :=
        h.setActor a _ (fun _ => rfl) (fun x hx => by simp at hx) (fun _ => rfl) (fun x hx st hst => h.pend x hx st hst)
      split
      · next i hi =>
        -- the context of the exiting actor becomes invalid; no other live actor owns it
        cases hx : s.actor a with
        | none => simp [hx] at hi
        | some x0 =>
          simp only [hx, Option.bind_some] at hi
          obtain ⟨hm0, hid0, hal0⟩ := actor_some hx
          obtain ⟨b1, b2, b3⟩ := h.act x0 hm0 hal0 i hi
          refine InvA.of_eq (s := (s.setActor a (fun x => { x with alive := false })).setTh i (fun t => { t with valid := false }))
            ?_ rfl rfl rfl (fun _ h => h)
          refine ⟨h.hdr, ?_, ?_, h1.pend, ?_⟩
          · apply forall_th_setTh _ _ _ h1.th
            intro hT
            exact ⟨hT.cons, hT.coh, fun hr => ⟨rfl, (hT.rem hr).2⟩⟩
          · intro y hy hya j hj
            obtain ⟨x, hxm, rfl⟩ := mem_setActor hy
            by_cases hc : x.id = a ∧ x.alive
            · rw [if_pos hc] at hya; simp at hya
            · rw [if_neg hc] at hya hj ⊢
              obtain ⟨a1, a2, a3⟩ := h.act x hxm hya j hj
              have hji : j ≠ i := by
                intro e; subst e
                apply hc
                exact ⟨by rw [← a3, b3, hid0], hya⟩
              rw [th_setTh_ne _ _ _ _ hji]
              exact ⟨by simpa using a1, a2, a3⟩
          · intro j hj
            rw [th_setTh]
            rcases h.reg j (by simpa using hj) with hr | hr
            · exact Or.inl hr
            · right; split
              · next hc => rw [hc.1] at hr ⊢; exact hr
              · exact hr
      · exact h1
  | resume a =>
    simp only [applyFront]
    have h1 := h.resume a
    split
    · exact h1
    · split
      · exact h1
      · exact h1.setActorMisc a _ (fun _ => rfl) (fun _ => rfl) (fun _ => rfl) (fun _ => rfl)
  | armStall a =>
    simp only [applyFront]
    split
    · exact h.setActorMisc a _ (fun _ => rfl) (fun _ => rfl) (fun _ => rfl) (fun _ => rfl)
    · exact h
  | log a g lvl len dyn =>
    simp only [applyFront]
    apply h.withLogger
    intro lgi
    have h1 : InvA { s with nextId := s.nextId + 1 } := hmisc _ rfl rfl rfl rfl
    split
    · exact h1.frontCall ..
    · exact h1
  | logNamed a g len =>
    simp only [applyFront]
    apply h.withLogger
    intro lgi
    have h1 : InvA { s with nextId := s.nextId + 1 } := hmisc _ rfl rfl rfl rfl
    split
    · exact h1.frontCall ..
    · exact h1
  | logBt a g len =>
    simp only [applyFront]
    apply h.withLogger
    intro lgi
    have h1 : InvA { s with nextId := s.nextId + 1 } := hmisc _ rfl rfl rfl rfl
    split
    · exact h1.frontCall ..
    · exact h1
  | initBt a g cap fl =>
    simp only [applyFront]
    exact h.withLogger _ _ _ (fun lgi => h.frontCall ..)
  | flushBt a g =>
    simp only [applyFront]
    exact h.withLogger _ _ _ (fun lgi => h.frontCall ..)
  | flush a g =>
    simp only [applyFront]
    apply h.withLogger
    intro lgi
    have h1 : InvA { s with nextFlag := s.nextFlag + 1 } := hmisc _ rfl rfl rfl rfl
    exact h1.frontCall ..
  | removeBlocking a g =>
    simp only [applyFront]
    split
    · exact h
    · apply h.withLogger
      intro lgi
      have h1 : InvA (dropName { s with nextFlag := s.nextFlag + 1 } g) := hmisc _ rfl rfl rfl rfl
      exact h1.frontCall ..
  | remove a g =>
    simp only [applyFront]
    split
    · exact h
    · split
      · exact hmisc _ rfl rfl rfl rfl
      · exact h
  | create a g sl =>
    simp only [applyFront]
    split
    · exact h
    · split
      · split
        · exact h
        · exact hmisc _ rfl rfl rfl rfl
      · exact hmisc _ rfl rfl rfl rfl
  | setLevel g lvl =>
    simp only [applyFront]
    split
    · exact hmisc _ rfl rfl rfl rfl
    · exact h
  | setSinkLevel sid lvl =>
    simp only [applyFront]
    split
    · exact hmisc _ rfl rfl rfl rfl
    · exact h
  | dropSink sid =>
    simp only [applyFront]
    exact (hmisc (s.setSink sid (fun k => { k with userRef := false })) rfl rfl rfl rfl).of_core (reapSinks_frame _ _).core
  | query => exact h

theorem InvA.closed : Closed InvA where
  frame := fun _ _ h f => h.frame f
  refresh := fun _ h => h.refresh
  ctxEmpty := fun _ i h => h.ctxEmpty i
  dropCtx := fun _ i h hv he _ => h.dropCtx i hv he
  prepRead := fun s i h => h.setQ i (fun _ => (qPrepareRead s.cfg (s.th i).q).1) (qPrepareRead_same _ _)
  commitRead := fun s i h => h.setQ i (fun t => qCommitRead s.cfg t.q) (qCommitRead_same _ _)
  readOne := fun _ i st rest h hq _ => h.readOne i st rest hq
  pop := fun _ i st rest h hb => h.pop i st rest hb
  failReset := fun _ i h _ => h.failReset i
  front := fun _ f h => h.front f

end Backend.PA
