import QuillModel.Backend.UInvClosed
/-!
A second walk of the frontend of the U machine, generic in a per-context predicate `T j t` (indexed by the context id, so
that one context can be exempted): `GI T c s` = `UI s` and `T j (s.th j)` for every `j`. If `T` is closed under the
context transformers the frontend uses (`TClosed`), `GI T` is closed under every frontend operation (`GI.frontU`) and
under the hook-site injection runner. Used for the publication invariant of C09 and for "the failure counter of an
unbounded context is never reset".
-/
namespace Backend.US
open Backend Spsc Backend.PA Backend.UQ

structure TClosed (u : UP) (T : Nat → Th → Prop) : Prop where
  dflt : ∀ j, T j default
  fresh : ∀ j c a, T j (mkTh c a)
  prepW : ∀ j c t n, TI t → T j t → T j (uPrepareWrite c u.qmax t n).1
  enq : ∀ j c t (st : Stmt), TI t → 0 < st.size → T j t →
    T j { uFinishCommit c (uPrepareWrite c u.qmax t st.size).1 st.size with
            qStmts := t.qStmts ++ [st], accepted := t.accepted ++ [st] }
  shrink : ∀ j c t w, TI t → T j t → T j (uShrink c t w)
  bump : ∀ j t d1 d2, d1 + d2 = 1 → T j t →
    T j { t with fail := t.fail + 1, discarded := t.discarded + d1, blockedCalls := t.blockedCalls + d2 }
  inval : ∀ j t, T j t → T j { t with valid := false }

structure GI (T : Nat → Th → Prop) (c : Cfg) (s : BSt) : Prop where
  ui : UI s
  t : ∀ j, T j (s.th j)
  cfg : s.cfg = c

variable {u : UP} {T : Nat → Th → Prop} {c : Cfg}

theorem GI.aux {s s' : BSt} (h : GI T c s) (h1 : s'.cfg = s.cfg) (h2 : s'.ths = s.ths) (h3 : s'.actors = s.actors) : GI T c s' :=
  ⟨h.ui.aux h1 h2 h3, fun j => by rw [th_of_ths_eq h2]; exact h.t j, h1.trans h.cfg⟩

/-- same contexts, invariant `UI` known -/
theorem GI.ofUI {s s' : BSt} (h : GI T c s) (hui : UI s') (h2 : s'.ths = s.ths) (h1 : s'.cfg = s.cfg := by rfl) : GI T c s' :=
  ⟨hui, fun j => by rw [th_of_ths_eq h2]; exact h.t j, h1.trans h.cfg⟩

theorem GI.setTh {s : BSt} (h : GI T c s) (i : Nat) (f : Th → Th) (hui : TI (s.th i) → TI (f (s.th i)))
    (hT : TI (s.th i) → T i (s.th i) → T i (f (s.th i))) : GI T c (s.setTh i f) := by
  refine ⟨h.ui.setTh i f hui, fun j => ?_, h.cfg⟩
  rw [th_setTh]
  split
  · next hc => rw [hc.1]; exact hT (h.ui.th i) (h.t i)
  · exact h.t j

theorem GI.ensureCtx (hc : TClosed u T) {s : BSt} (h : GI T c s) (a : Nat) : GI T c (ensureCtx s a).1 := by
  refine ⟨h.ui.ensureCtx a, ?_, by unfold Backend.ensureCtx; split <;> exact h.cfg⟩
  unfold Backend.ensureCtx
  split
  · exact h.t
  · dsimp only
    intro j
    rw [setActor_th, th_append]
    split
    · exact hc.fresh j _ _
    · exact h.t j

theorem GI.tryEnqU (hc : TClosed u T) {s : BSt} (h : GI T c s) (ci : Nat) (st : Stmt) (hsz : 0 < st.size) :
    GI T c (tryEnqU u s ci st).1 := by
  unfold Backend.tryEnqU
  dsimp only
  split
  · exact h.setTh ci _ (fun ht => TI.enq ht s.cfg u.qmax { st with enqAt := s.now } hsz)
      (fun ht hT => hc.enq ci s.cfg _ { st with enqAt := s.now } ht hsz hT)
  · exact h.setTh ci _ (fun ht => ht.prepareWrite s.cfg u.qmax st.size) (fun ht hT => hc.prepW ci s.cfg _ st.size ht hT)

theorem GI.afterEnq {s : BSt} (h : GI T c s) (a : Nat) (st : Stmt) (cont : Nat) : GI T c (afterEnq s a st cont).1 := by
  refine h.ofUI (h.ui.afterEnq a st cont) ?_ ?_
  · unfold Backend.afterEnq
    split <;> rfl
  · unfold Backend.afterEnq
    split <;> rfl

theorem GI.enqFlowU (hc : TClosed u T) {s : BSt} (h : GI T c s) (a : Nat) (st : Stmt) (cont : Nat) (first initial : Bool)
    (hsz : 0 < st.size) : GI T c (enqFlowU u s a st cont first initial).1 := by
  unfold Backend.enqFlowU
  have h1 := h.ensureCtx hc a
  generalize Backend.ensureCtx s a = r1 at h1
  obtain ⟨s1, ci⟩ := r1
  dsimp only at h1 ⊢
  have h2 := h1.tryEnqU hc ci st hsz
  generalize Backend.tryEnqU u s1 ci st = r2 at h2
  obtain ⟨s2, g⟩ := r2
  dsimp only at h2 ⊢
  have hnone : ∀ x : BSt, GI T c x → GI T c (x.setActor a (fun y => { y with pend := .none })) :=
    fun x hx => hx.ofUI (hx.ui.setPend a _ (fun st hst => by simp [pendStmt] at hst)) rfl
  have hretry : ∀ x : BSt, GI T c x → GI T c (x.setActor a (fun y => { y with pend := .retry st cont })) :=
    fun x hx => hx.ofUI (hx.ui.setPend a _ (fun st' hst => by
      simp only [pendStmt, Option.some.injEq] at hst; rw [← hst]; exact hsz)) rfl
  have hb : ∀ (d1 d2 : Nat), d1 + d2 = 1 → ∀ (x : BSt), GI T c x → GI T c (if isLogKind st.kind then
      x.setTh ci (fun t => { t with fail := t.fail + 1, discarded := t.discarded + d1,
                                    blockedCalls := t.blockedCalls + d2 }) else x) := by
    intro d1 d2 hd x hx
    split
    · exact hx.setTh ci _ (fun ht => ht.same rfl rfl rfl rfl rfl rfl) (fun _ hT => hc.bump ci _ d1 d2 hd hT)
    · exact hx
  cases g with
  | grant => exact (hnone _ h2).afterEnq a st cont
  | throw => exact hnone _ h2
  | null =>
    dsimp only
    split
    · split
      · exact hnone _ (hb _ _ (by first | rfl | (split <;> rfl)) _ h2)
      · exact hretry _ (hb _ _ (by first | rfl | (split <;> rfl)) _ h2)
    · apply hretry
      split
      · exact hb _ _ (by first | rfl | (split <;> rfl)) _ h2
      · exact h2

theorem GI.frontCallU (hc : TClosed u T) {s : BSt} (h : GI T c s) (a lgi : Nat) (kind : Kind) (lvl len cont : Nat) (dyn : Bool)
    (id : Nat) (named : Bool) : GI T c (frontCallU u s a lgi kind lvl len cont dyn id named).1 := by
  have hui := h.ui.frontCallU u a lgi kind lvl len cont dyn id named
  unfold Backend.frontCallU at hui ⊢
  dsimp only at hui ⊢
  have hsz := stmtSize_pos s.cfg kind id len dyn (s.lgOf lgi).gid h.ui.hdr
  split
  · next hst => rw [if_pos hst] at hui; exact h.ofUI hui rfl
  · exact h.enqFlowU hc a _ cont true true hsz

theorem GI.resumeU (hc : TClosed u T) {s : BSt} (h : GI T c s) (a : Nat) : GI T c (resumeU u s a).1 := by
  unfold Backend.resumeU
  split
  · next st cont hp =>
    have hx : ∃ x, s.actor a = some x ∧ x.pend = .stall st cont := by
      cases hs : s.actor a with
      | none => rw [hs] at hp; cases hp
      | some x => rw [hs] at hp; exact ⟨x, rfl, by simpa using hp⟩
    obtain ⟨x, hxa, hxp⟩ := hx
    exact h.enqFlowU hc a st cont true false (h.ui.pend x (actor_some hxa).1 st (by rw [hxp]; rfl))
  · next st cont hp =>
    have hx : ∃ x, s.actor a = some x ∧ x.pend = .retry st cont := by
      cases hs : s.actor a with
      | none => rw [hs] at hp; cases hp
      | some x => rw [hs] at hp; exact ⟨x, rfl, by simpa using hp⟩
    obtain ⟨x, hxa, hxp⟩ := hx
    have hsz := h.ui.pend x (actor_some hxa).1 st (by rw [hxp]; rfl)
    split
    · exact h.enqFlowU hc a { st with ts := s.now } cont true false hsz
    · exact h.enqFlowU hc a st cont false false hsz
  · split
    · exact h.ofUI (h.ui.setPend a _ (fun st hst => by simp [pendStmt] at hst)) rfl
    · exact h
  · exact h

theorem GI.noteCall {r : BSt × String} (h : GI T c r.1) (a gid : Nat) : GI T c (noteCall r a gid).1 :=
  h.ofUI (UI.noteCall h.ui a gid) rfl

theorem GI.withLogger {s : BSt} (h : GI T c s) (a gid : Nat) (k : Nat → BSt × String) (hk : ∀ lgi, GI T c (k lgi).1) :
    GI T c (withLogger s a gid k).1 := by
  unfold Backend.withLogger
  split
  · exact GI.noteCall (hk _) a gid
  · exact h

theorem GI.frontU (hc : TClosed u T) {s : BSt} (h : GI T c s) (f : UFOp) : GI T c (applyFrontU u s f).1 := by
  have hmisc : ∀ s' : BSt, s'.cfg = s.cfg → s'.ths = s.ths → s'.actors = s.actors → GI T c s' :=
    fun s' h1 h2 h3 => h.aux h1 h2 h3
  cases f with
  | shrink a want =>
    simp only [applyFrontU]
    split
    · exact h
    · split
      · exact h
      · exact h.setTh _ _ (fun ht => ht.shrink s.cfg want) (fun ht hT => hc.shrink _ s.cfg _ want ht hT)
  | capq a =>
    simp only [applyFrontU]
    split
    · exact h
    · split <;> exact h
  | base f =>
    cases f with
    | tick dt => exact hmisc _ rfl rfl rfl
    | tstart a =>
      have hui := h.ui.frontU u (.base (.tstart a))
      simp only [applyFrontU, applyFront] at hui ⊢
      split
      · exact h
      · next hn => rw [if_neg hn] at hui; exact h.ofUI hui rfl
    | texit a =>
      simp only [applyFrontU, applyFront]
      split
      · exact h
      · have h1 : GI T c (s.setActor a (fun x => { x with alive := false })) :=
          h.ofUI (h.ui.setActorMisc a _ (fun _ => rfl)) rfl
        split
        · exact (h1.setTh _ (fun t => { t with valid := false }) (fun ht => ht.same rfl rfl rfl rfl rfl rfl)
            (fun _ hT => hc.inval _ _ hT)).aux rfl rfl rfl
        · exact h1
    | resume a =>
      simp only [applyFrontU]
      have h1 := h.resumeU hc a
      split
      · exact h1
      · split
        · exact h1
        · exact h1.ofUI (h1.ui.setActorMisc a _ (fun _ => rfl)) rfl
    | armStall a =>
      simp only [applyFrontU, applyFront]
      split
      · exact h.ofUI (h.ui.setActorMisc a _ (fun _ => rfl)) rfl
      · exact h
    | log a g lvl len dyn =>
      simp only [applyFrontU]
      apply h.withLogger
      intro lgi
      have h1 : GI T c { s with nextId := s.nextId + 1 } := hmisc _ rfl rfl rfl
      split
      · exact h1.frontCallU hc ..
      · exact h1
    | logNamed a g len =>
      simp only [applyFrontU]
      apply h.withLogger
      intro lgi
      have h1 : GI T c { s with nextId := s.nextId + 1 } := hmisc _ rfl rfl rfl
      split
      · exact h1.frontCallU hc ..
      · exact h1
    | logBt a g len =>
      simp only [applyFrontU]
      apply h.withLogger
      intro lgi
      have h1 : GI T c { s with nextId := s.nextId + 1 } := hmisc _ rfl rfl rfl
      split
      · exact h1.frontCallU hc ..
      · exact h1
    | initBt a g cap fl =>
      simp only [applyFrontU]
      exact h.withLogger _ _ _ (fun lgi => h.frontCallU hc ..)
    | flushBt a g =>
      simp only [applyFrontU]
      exact h.withLogger _ _ _ (fun lgi => h.frontCallU hc ..)
    | flush a g =>
      simp only [applyFrontU]
      apply h.withLogger
      intro lgi
      have h1 : GI T c { s with nextFlag := s.nextFlag + 1 } := hmisc _ rfl rfl rfl
      exact h1.frontCallU hc ..
    | removeBlocking a g =>
      simp only [applyFrontU]
      split
      · exact h
      · apply h.withLogger
        intro lgi
        have h1 : GI T c (dropName { s with nextFlag := s.nextFlag + 1 } g) := hmisc _ rfl rfl rfl
        exact h1.frontCallU hc ..
    | remove a g =>
      simp only [applyFrontU, applyFront]
      split
      · exact h
      · split
        · exact hmisc _ rfl rfl rfl
        · exact h
    | create a g sl =>
      simp only [applyFrontU, applyFront]
      split
      · exact h
      · split
        · split
          · exact h
          · exact hmisc _ rfl rfl rfl
        · exact hmisc _ rfl rfl rfl
    | setLevel g lvl =>
      simp only [applyFrontU, applyFront]
      split
      · exact hmisc _ rfl rfl rfl
      · exact h
    | setSinkLevel sid lvl =>
      simp only [applyFrontU, applyFront]
      split
      · exact hmisc _ rfl rfl rfl
      · exact h
    | dropSink sid =>
      simp only [applyFrontU, applyFront]
      have hf := reapSinks_frame (s.setSink sid (fun k => { k with userRef := false })) [sid]
      exact (hmisc (s.setSink sid (fun k => { k with userRef := false })) rfl rfl rfl).aux hf.cfg hf.ths hf.actors
    | query => exact h

/-- the hook-site injection runner keeps `GI T` -/
theorem GI.runInjU (hc : TClosed u T) (table : List (Nat × Nat × List UFOp)) (s : BSt) (site : Nat) (h : GI T c s) :
    GI T c (runInjU u table s site) :=
  runInjU_closed' (P := GI T c) (u := u) (fun _ _ h h1 h2 h3 => h.aux h1 h2 h3) (fun _ f h => h.frontU hc f) table s site h

end Backend.US
