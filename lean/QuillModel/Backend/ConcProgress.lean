import QuillModel.Backend.ConcGrow
import QuillModel.Backend.PcSkeleton
/-!
# Progress of one poll while the frontend keeps running (helper lemmas for C06 / C09 progress under concurrency)

* `popLog_mono_*`: no operation of any kind ever shortens the pop history (through the `PC.Closed` skeleton).
* `processLowest_pops`: `_process_lowest_timestamp_transit_event` with a non-empty buffer in the cache pops exactly one
  event, whatever is injected at its hook sites.
* `poll_pops_or_blocked`: a poll — **any injection table** — in a state where some context's oldest pending record is
  past its grace period pops at least one event, **unless** the pass found at least `soft` events and the batch guard
  `has_pending_events_for_caching_when_transit_event_buffer_empty` answered true (some context has an empty transit buffer
  and an unread queue): then the batch loop is left before anything is processed.
* `productive`: the number of operations of a schedule that pop at least one event; `productive_le`.
-/
namespace Backend.PB
open Backend

/-- at least `n` events have been popped so far -/
def PopN (n : Nat) (s : BSt) : Prop := n ≤ s.popLog.length

theorem refreshCache_popLog (s : BSt) : (refreshCache s).popLog = s.popLog := by
  unfold refreshCache; split <;> rfl

theorem allEmpty_popLog (s : BSt) : (Backend.allEmpty s).1.popLog = s.popLog := by
  unfold Backend.allEmpty
  simp only []
  have : ∀ (l : List Nat) (acc : BSt × Bool),
      (l.foldl (fun (acc : BSt × Bool) i => ((ctxEmpty acc.1 i).1, acc.2 && (ctxEmpty acc.1 i).2)) acc).1.popLog = acc.1.popLog := by
    intro l
    induction l with
    | nil => intro acc; rfl
    | cons i rest ih => intro acc; simp only [List.foldl_cons]; rw [ih]; rfl
  rw [this]; exact refreshCache_popLog s

theorem hpStep_popLog (acc : BSt × Bool) (i : Nat) : (hpStep acc i).1.popLog = acc.1.popLog := by
  unfold hpStep
  split
  · rfl
  · split <;> rfl

theorem hasPending_popLog (s : BSt) : (Backend.hasPending s).1.popLog = s.popLog := by
  rw [hasPending_eq]
  have : ∀ (l : List Nat) (acc : BSt × Bool), (l.foldl hpStep acc).1.popLog = acc.1.popLog := by
    intro l
    induction l with
    | nil => intro acc; rfl
    | cons i rest ih => intro acc; rw [List.foldl_cons, ih, hpStep_popLog]
  rw [this]; exact refreshCache_popLog s

theorem flushSinks_popLog (s : BSt) : (flushSinks s).popLog = s.popLog :=
  congrArg Core2.popLog (slol_flushSinks s).core2

theorem processEvent_popLog (s : BSt) (st : Stmt) : (processEvent s st).1.popLog = s.popLog :=
  congrArg Core2.popLog (slol_processEvent s st).core2

theorem popN_closed (n : Nat) : PC.Closed (PopN n) where
  lastFlush := fun _ _ h => h
  siteCnt := fun _ _ h => h
  emitInj := fun _ _ _ _ _ h => h
  note := fun _ h => h
  clock := fun _ _ h => h
  gone := fun _ h => h
  refresh := fun s h => by unfold PopN; rw [refreshCache_popLog]; exact h
  allEmpty := fun s h => by unfold PopN; rw [allEmpty_popLog]; exact h
  hasPending := fun s h => by unfold PopN; rw [hasPending_popLog]; exact h
  cleanupContexts := fun s h => by unfold PopN; rw [PC.cleanupContexts_popLog]; exact h
  invFlag := fun _ _ h => h
  erase := fun s i h _ _ => by
    show n ≤ (Backend.allEmpty s).1.popLog.length
    rw [allEmpty_popLog]; exact h
  reap := fun _ _ h _ _ => h
  flagRemoval := fun _ _ _ _ _ h _ _ => h
  flushSinks := fun s h => by unfold PopN; rw [flushSinks_popLog]; exact h
  readPrep := fun _ _ h => h
  commit := fun _ _ h => h
  readOne := fun s i st rest h _ _ => by
    show n ≤ (PC.decodeSt (PC.readPrepSt s i) st).popLog.length
    unfold PC.decodeSt; split <;> exact h
  report := fun _ _ h _ => h
  pop := fun s i st rest h _ _ => by
    have e : (processEvent s st).1.popLog = s.popLog := processEvent_popLog s st
    have e2 : (PC.popSt s i st rest).popLog = st :: (processEvent s st).1.popLog := by
      unfold PC.popSt; simp only []; split <;> rfl
    unfold PopN at h ⊢
    rw [e2, e, List.length_cons]; omega
  raise := fun _ _ h _ => h
  front := fun s f h => by unfold PopN; rw [PC.applyFront_popLog]; exact h

/-- no operation shortens the pop history -/
theorem popLog_mono_op (s : BSt) (o : Op) : s.popLog.length ≤ (applyOp s o).1.popLog.length :=
  PC.applyOp_closed (popN_closed _) s o (Nat.le_refl _)

theorem popLog_mono_run (s : BSt) (ops : List Op) : s.popLog.length ≤ (runOps s ops).popLog.length :=
  PC.runOps_closed (popN_closed _) ops s (Nat.le_refl _)

/-- does the operation pop at least one event in this state? -/
def popsOf (s : BSt) (o : Op) : Bool := decide (s.popLog.length < (applyOp s o).1.popLog.length)

/-- number of operations of the schedule (run from `s`) that pop at least one event: the *productive* polls -/
def productive : BSt → List Op → Nat
  | _, [] => 0
  | s, o :: os => (if popsOf s o then 1 else 0) + productive (applyOp s o).1 os

theorem productive_le : ∀ (ops : List Op) (s : BSt), s.popLog.length + productive s ops ≤ (runOps s ops).popLog.length
  | [], s => by simp [productive, runOps]
  | o :: os, s => by
    have ih := productive_le os (applyOp s o).1
    have e : runOps s (o :: os) = runOps (applyOp s o).1 os := by simp [runOps]
    rw [e]
    have hm := popLog_mono_op s o
    unfold productive
    split
    · rename_i hp
      have : s.popLog.length < (applyOp s o).1.popLog.length := by simpa [popsOf] using hp
      omega
    · omega

/-! ### one poll, arbitrary injection table -/

variable {c : Cfg} {fl : Nat} {s : BSt}

/-- `_process_lowest_timestamp_transit_event` pops exactly one event when some cached context has a buffered event -/
theorem processLowest_pops (table : List (Nat × Nat × List FOp)) (s : BSt) (hne : ∃ i ∈ s.cache, (s.th i).buf ≠ []) :
    (Backend.processLowest (runInj table) s).1.popLog.length = s.popLog.length + 1 := by
  have hinj := PC.runInj_ok (popN_closed 0) table
  rw [processLowest_eq]
  cases hl : lowest s with
  | none =>
    exfalso
    obtain ⟨i, hi, hb⟩ := hne
    exact hb (lowest_none hl i hi)
  | some j =>
    obtain ⟨st, rest, hb, _⟩ := lowest_spec hl
    simp only [hb]
    have hsl : SLOL s (plNote (processEvent s st)) := by
      unfold plNote; split
      · exact (slol_processEvent s st).trans (SLOL.emit _ _)
      · exact slol_processEvent s st
    have e2 : (plNote (processEvent s st)).popLog = s.popLog := congrArg Core2.popLog hsl.core2
    have e3 : (plPop (plNote (processEvent s st)) j st rest).popLog.length = s.popLog.length + 1 := by
      show (st :: (plNote (processEvent s st)).popLog).length = _
      rw [e2]; rfl
    split
    · rename_i f _
      show (plPre (runInj table) (plPop (plNote (processEvent s st)) j st rest)).popLog.length = _
      unfold plPre
      rw [PC.cleanupContexts_popLog]
      split
      · rw [PC.checkFailures_popLog (popN_closed 0).toClosedB hinj _ (Nat.zero_le _)]; exact e3
      · exact e3
    · exact e3

/-- **One poll while the frontend keeps running.** Any injection table. If some context `i0` has a pending record and
    the oldest one, `h0`, is past its grace period when the poll starts, then the poll pops at least one event — or the
    pass counted at least `soft` events and the batch guard answered "pending": the batch loop was left before anything
    was processed. -/
theorem poll_pops_or_blocked (table : List (Nat × Nat × List FOp)) (h : PIo c fl s) (i0 : Nat) (h0 : Stmt)
    (hd : (chain (s.th i0)).head? = some h0) (hripe : h0.ts + c.grace ≤ s.now) :
    s.popLog.length < (Backend.poll (runInj table) s).popLog.length ∨
    (s.cfg.soft ≤ (populate (runInj table) s).2 ∧ (Backend.hasPending (populate (runInj table) s).1).2 = true) := by
  have hi : InjOK (runInj table) := fun _ _ _ _ _ site hh => hh.runInj table site
  have hg := injGrow_runInj table
  obtain ⟨g, hb, hc, hcnt⟩ := populate_conc hi hg h i0 h0 hd hripe
  obtain ⟨flp, Cp, hpp⟩ := PIo.populate hi h
  have hinjN := fun n => PC.runInj_ok (popN_closed n) table
  have hm1 : s.popLog.length ≤ (populate (runInj table) s).1.popLog.length :=
    PC.populate_ok (popN_closed _).toClosedB (hinjN _) s (Nat.le_refl _)
  have hreg : i0 ∈ (populate (runInj table) s).1.registry :=
    g.reg i0 (h.reg i0 (by intro he; rw [he] at hd; cases hd))
  unfold Backend.poll
  rcases hpop : Backend.populate (runInj table) s with ⟨s1, count⟩
  rw [hpop] at g hb hc hcnt hpp hm1 hreg
  simp only at g hb hc hcnt hpp hm1 hreg ⊢
  rw [if_pos hcnt]
  split
  · left
    have := processLowest_pops table s1 ⟨i0, hc, hb⟩
    omega
  · rename_i hsoft
    have e : totalBuffered s1 + 64 = (totalBuffered s1 + 63) + 1 := rfl
    rw [e]
    unfold Backend.batchLoop
    simp only
    cases hhp : (Backend.hasPending s1).2 with
    | true =>
      right
      exact ⟨by rw [← g.cfg]; omega, rfl⟩
    | false =>
      left
      simp only [Bool.false_eq_true, if_false]
      have f1 := fr_hasPending s1
      have h1 := hpp.toPIo.hasPending.1
      have hb1 : ((Backend.hasPending s1).1.th i0).buf ≠ [] := f1.buf_ne hb
      have hc1 : i0 ∈ (Backend.hasPending s1).1.cache := h1.bufCache i0 (by rw [f1.reg]; exact hreg) hb1
      have hp1 := processLowest_pops table _ ⟨i0, hc1, hb1⟩
      rw [hasPending_popLog] at hp1
      split
      · omega
      · have : PopN (s1.popLog.length + 1) (Backend.batchLoop (runInj table) (totalBuffered s1 + 63)
            (runInj table (Backend.processLowest (runInj table) (Backend.hasPending s1).1).1 4)) := by
          apply PC.batchLoop_ok (popN_closed _).toClosedB (hinjN _)
          apply ((hinjN _) _ 4 _).1
          show s1.popLog.length + 1 ≤ _
          omega
        unfold PopN at this
        omega

end Backend.PB
