import QuillModel.Backend.ParkedInv
/-!
# Every call parked on a flag has its request record in the accepted history — as a state invariant (helper lemmas for C17)

`LK s`: for every live actor parked on `Pend.flag f` a record carrying the flag `f`, issued by that actor, is in the accepted
history of a context; the statement of every parked retry / stall is the actor's own; every live actor's context exists.
`LK` is closed under every step of the machine (`LK.closed`, through the `PC.Closed` skeleton), hence holds after every schedule.
-/
namespace Backend.PB
open Backend

/-- a step of the backend proper: actors, accepted histories and the number of contexts are unchanged -/
structure BackSame (s s' : BSt) : Prop where
  actors : s'.actors = s.actors
  acc : ∀ i, (s'.th i).accepted = (s.th i).accepted
  len : s'.ths.length = s.ths.length

theorem BackSame.refl (s : BSt) : BackSame s s := ⟨rfl, fun _ => rfl, rfl⟩
theorem BackSame.trans {a b c : BSt} (h1 : BackSame a b) (h2 : BackSame b c) : BackSame a c :=
  ⟨h2.actors.trans h1.actors, fun i => (h2.acc i).trans (h1.acc i), h2.len.trans h1.len⟩
theorem BackSame.ofThs {s s' : BSt} (h1 : s'.ths = s.ths) (h2 : s'.actors = s.actors) : BackSame s s' :=
  ⟨h2, fun i => acc_of_ths h1 i, by rw [h1]⟩
theorem BackSame.setTh (s : BSt) (k : Nat) (f : Th → Th) (hf : ∀ t, (f t).accepted = t.accepted) : BackSame s (s.setTh k f) :=
  ⟨rfl, fun i => acc_setTh s k f hf i, length_setTh s k f⟩
theorem SLOL.backSame {s s' : BSt} (h : SLOL s s') : BackSame s s' :=
  BackSame.ofThs (congrArg Core2.ths h.core2) (congrArg Core2.actors h.core2)

theorem backSame_fold_pair {α β} (F : BSt × β → α → BSt × β) (l : List α) (acc : BSt × β)
    (hF : ∀ acc x, BackSame acc.1 (F acc x).1) : BackSame acc.1 (l.foldl F acc).1 := by
  induction l generalizing acc with
  | nil => exact BackSame.refl _
  | cons x xs ih => rw [List.foldl_cons]; exact (hF acc x).trans (ih _)

theorem backSame_refresh (s : BSt) : BackSame s (refreshCache s) := by
  unfold refreshCache; split <;> exact BackSame.ofThs rfl rfl

theorem backSame_ctxEmpty (s : BSt) (i : Nat) : BackSame s (ctxEmpty s i).1 := by
  unfold ctxEmpty
  refine BackSame.setTh s i _ ?_
  intro _; rfl

theorem backSame_allEmpty (s : BSt) : BackSame s (Backend.allEmpty s).1 := by
  unfold Backend.allEmpty
  exact (backSame_refresh s).trans (backSame_fold_pair _ _ (refreshCache s, true) (fun acc x => backSame_ctxEmpty acc.1 x))

theorem backSame_hpStep (acc : BSt × Bool) (i : Nat) : BackSame acc.1 (hpStep acc i).1 := by
  unfold hpStep
  split
  · exact BackSame.refl _
  · split
    · refine BackSame.setTh _ _ _ ?_
      intro _; rfl
    · exact BackSame.refl _

theorem backSame_hasPending (s : BSt) : BackSame s (Backend.hasPending s).1 := by
  rw [hasPending_eq]
  exact (backSame_refresh s).trans (backSame_fold_pair _ _ (refreshCache s, false) backSame_hpStep)

theorem backSame_findFirst : ∀ (l : List Nat) (s : BSt), BackSame s (cleanupContexts.go.findFirst s l).1
  | [], s => BackSame.refl s
  | i :: rest, s => by
    rw [PC.findFirst_cons]
    split
    · exact backSame_findFirst rest s
    · split
      · exact backSame_ctxEmpty s i
      · exact (backSame_ctxEmpty s i).trans (backSame_findFirst rest _)

theorem backSame_go : ∀ (fuel : Nat) (s : BSt), BackSame s (cleanupContexts.go fuel s)
  | 0, s => BackSame.refl s
  | n + 1, s => by
    rw [PC.go_succ]
    have h1 := backSame_findFirst s.cache s
    split
    · rename_i s1 heq; rw [heq] at h1; exact h1
    · rename_i s1 i heq; rw [heq] at h1
      refine (h1.trans ?_).trans (backSame_go n _)
      unfold PC.removeSt
      refine ⟨rfl, fun j => ?_, length_setTh _ _ _⟩
      exact acc_setTh _ i _ (by intro _; rfl) j

theorem backSame_cleanupContexts (s : BSt) : BackSame s (Backend.cleanupContexts s) := by
  rw [PC.cleanupContexts_eq]; split
  · exact BackSame.refl _
  · exact backSame_go _ _

/-! ### the invariant -/

/-- what a parked call `p` of actor `a` must satisfy in state `s` -/
def PendOK (s : BSt) (a : Nat) (p : Pend) : Prop :=
  (∀ f, p = .flag f → ∃ i, ∃ st ∈ (s.th i).accepted, flagOf st = some f ∧ st.actor = a) ∧
  (∀ st, isPendOf p st → st.actor = a)

structure LK (s : BSt) : Prop where
  pend : ∀ a x, s.actor a = some x → PendOK s a x.pend
  ctxLt : ∀ a x i, s.actor a = some x → x.ctx = some i → i < s.ths.length

theorem PendOK.mono {s s' : BSt} {a : Nat} {p : Pend} (h : PendOK s a p)
    (hm : ∀ i r, r ∈ (s.th i).accepted → r ∈ (s'.th i).accepted) : PendOK s' a p :=
  ⟨fun f hf => by obtain ⟨i, st, h1, h2⟩ := h.1 f hf; exact ⟨i, st, hm i st h1, h2⟩, h.2⟩

theorem pendOK_none (s : BSt) (a : Nat) : PendOK s a .none :=
  ⟨fun f hf => (by cases hf), fun st hst => absurd hst (not_pend_none st)⟩

theorem actor_of_actors {s s' : BSt} (h : s'.actors = s.actors) (a : Nat) : s'.actor a = s.actor a := by
  simp only [BSt.actor, h]

/-- a step that leaves the actors alone and only extends accepted histories and the context table -/
theorem LK.ofActors {s s' : BSt} (h : LK s) (ha : s'.actors = s.actors)
    (hm : ∀ i r, r ∈ (s.th i).accepted → r ∈ (s'.th i).accepted) (hl : s.ths.length ≤ s'.ths.length) : LK s' :=
  ⟨fun a x hx => (h.pend a x (by rw [← actor_of_actors ha a]; exact hx)).mono hm,
   fun a x i hx hc => Nat.lt_of_lt_of_le (h.ctxLt a x i (by rw [← actor_of_actors ha a]; exact hx) hc) hl⟩

theorem LK.back {s s' : BSt} (h : LK s) (b : BackSame s s') : LK s' :=
  h.ofActors b.actors (fun i r hr => by rw [b.acc i]; exact hr) (Nat.le_of_eq b.len.symm)

theorem LK.ofGrowActors {s s' : BSt} (h : LK s) (g : Grow s s') (ha : s'.actors = s.actors)
    (hl : s.ths.length ≤ s'.ths.length) : LK s' :=
  h.ofActors ha (fun i r hr => (g.acc i).subset hr) hl

/-- the actor `a` is rewritten by `g`: identity and life kept, context kept or set to an existing one, the new parked call fine -/
theorem LK.setActor {s : BSt} (h : LK s) (a : Nat) (g : Actor → Actor) (hid : ∀ x, (g x).id = x.id)
    (hal : ∀ x, (g x).alive = x.alive)
    (hctx : ∀ x, s.actor a = some x → ∀ i, (g x).ctx = some i → i < s.ths.length)
    (hp : ∀ x, s.actor a = some x → PendOK s a (g x).pend) : LK (s.setActor a g) := by
  have hth : ∀ i, (s.setActor a g).th i = s.th i := fun _ => rfl
  refine ⟨fun b y hy => ?_, fun b y i hy hc => ?_⟩
  · by_cases hb : b = a
    · subst hb
      rw [actor_setActor_same s b g hid hal] at hy
      cases hx : s.actor b with
      | none => rw [hx] at hy; cases hy
      | some x =>
        rw [hx] at hy
        simp only [Option.map_some, Option.some.injEq] at hy
        subst hy
        exact (hp x hx).mono (fun _ _ hr => hr)
    · rw [actor_setActor_ne s g hid hb] at hy
      exact (h.pend b y hy).mono (fun _ _ hr => hr)
  · show i < s.ths.length
    by_cases hb : b = a
    · subst hb
      rw [actor_setActor_same s b g hid hal] at hy
      cases hx : s.actor b with
      | none => rw [hx] at hy; cases hy
      | some x =>
        rw [hx] at hy
        simp only [Option.map_some, Option.some.injEq] at hy
        subst hy
        exact hctx x hx i hc
    · rw [actor_setActor_ne s g hid hb] at hy
      exact h.ctxLt b y i hy hc

/-- the parked call of `a` is replaced (context untouched) -/
theorem LK.setPend {s : BSt} (h : LK s) (a : Nat) (g : Actor → Actor) (hid : ∀ x, (g x).id = x.id)
    (hal : ∀ x, (g x).alive = x.alive) (hc : ∀ x, (g x).ctx = x.ctx) (p' : Pend) (hpe : ∀ x, (g x).pend = p')
    (hp : PendOK s a p') : LK (s.setActor a g) :=
  h.setActor a g hid hal (fun x hx i hi => h.ctxLt a x i hx (by rw [← hc x]; exact hi)) (fun x _ => by rw [hpe]; exact hp)

/-- fields other than the parked call and the context -/
theorem LK.setKeep {s : BSt} (h : LK s) (a : Nat) (g : Actor → Actor) (hid : ∀ x, (g x).id = x.id)
    (hal : ∀ x, (g x).alive = x.alive) (hc : ∀ x, (g x).ctx = x.ctx) (hpe : ∀ x, (g x).pend = x.pend) : LK (s.setActor a g) :=
  h.setActor a g hid hal (fun x hx i hi => h.ctxLt a x i hx (by rw [← hc x]; exact hi))
    (fun x hx => by rw [hpe]; exact h.pend a x hx)

theorem LK.ensureCtx {s : BSt} (h : LK s) (a : Nat) : LK (Backend.ensureCtx s a).1 := by
  unfold Backend.ensureCtx
  split
  · exact h
  · simp only
    have h1 : LK ({ s with ths := s.ths ++ [mkTh s.cfg a], registry := s.registry ++ [s.ths.length], newFlag := true } : BSt) := by
      refine h.ofActors rfl (fun i r hr => ?_) (by show s.ths.length ≤ (s.ths ++ [mkTh s.cfg a]).length; simp)
      have e : (({ s with ths := s.ths ++ [mkTh s.cfg a], registry := s.registry ++ [s.ths.length], newFlag := true } : BSt).th i) =
          if i = s.ths.length then mkTh s.cfg a else s.th i := by
        have := th_append s (mkTh s.cfg a) i
        simpa [BSt.th] using this
      rw [e]; split
      · rename_i hi; rw [hi, th_lt_or_default s _ (Nat.le_refl _)] at hr; cases hr
      · exact hr
    refine h1.setActor a _ (fun _ => rfl) (fun _ => rfl) (fun x _ i hi => ?_) (fun x hx => h1.pend a x hx)
    simp only [Option.some.injEq] at hi
    subst hi
    show s.ths.length < (s.ths ++ [mkTh s.cfg a]).length
    simp

theorem tryEnq_actors (s : BSt) (ci : Nat) (st : Stmt) : (Backend.tryEnq s ci st).1.actors = s.actors := by
  unfold Backend.tryEnq; simp only; split <;> rfl

theorem tryEnq_len (s : BSt) (ci : Nat) (st : Stmt) : (Backend.tryEnq s ci st).1.ths.length = s.ths.length := by
  unfold Backend.tryEnq; simp only; split <;> exact length_setTh _ _ _

theorem LK.tryEnq {s : BSt} (h : LK s) (ci : Nat) (st : Stmt) : LK (Backend.tryEnq s ci st).1 :=
  h.ofGrowActors (grow_tryEnq s ci st) (tryEnq_actors s ci st) (Nat.le_of_eq (tryEnq_len s ci st).symm)

theorem flagOf_enqAt (st : Stmt) (n : Nat) : flagOf { st with enqAt := n } = flagOf st := rfl

theorem LK.afterEnq {s : BSt} (h : LK s) (a : Nat) (st : Stmt) (cont : Nat) (hact : st.actor = a)
    (hrec : ∃ i, ∃ r ∈ (s.th i).accepted, flagOf r = flagOf st ∧ r.actor = st.actor) :
    LK (Backend.afterEnq s a st cont).1 := by
  obtain ⟨i, r, hr, hf, ha⟩ := hrec
  unfold Backend.afterEnq
  split
  · rename_i f hk
    refine h.setPend a _ (fun _ => rfl) (fun _ => rfl) (fun _ => rfl) (.flag f) (fun _ => rfl) ⟨fun f' hf' => ?_, fun st' hst' => absurd hst' (not_pend_flag _ st')⟩
    simp only [Pend.flag.injEq] at hf'
    subst hf'
    exact ⟨i, r, hr, by rw [hf]; simp [flagOf, flagOfK, hk], by rw [ha, hact]⟩
  · exact h.ofActors rfl (fun _ _ hr' => hr') (Nat.le_refl _)
  · exact h
  · rename_i f hk
    have h1 : LK ({ s.setLg st.lg (fun l => { l with valid := false }) with hasInvalidLoggers := true } : BSt) :=
      h.ofActors rfl (fun _ _ hr' => hr') (Nat.le_refl _)
    refine h1.setPend a _ (fun _ => rfl) (fun _ => rfl) (fun _ => rfl) (.flag f) (fun _ => rfl) ⟨fun f' hf' => ?_, fun st' hst' => absurd hst' (not_pend_flag _ st')⟩
    simp only [Pend.flag.injEq] at hf'
    subst hf'
    exact ⟨i, r, hr, by rw [hf]; simp [flagOf, flagOfK, hk], by rw [ha, hact]⟩
  · exact h

theorem LK.enqFlow {s : BSt} (h : LK s) (a : Nat) (st : Stmt) (cont : Nat) (first initial : Bool) (hact : st.actor = a) :
    LK (Backend.enqFlow s a st cont first initial).1 := by
  have hlt := ensureCtx_lt s a (fun x j hx hc => h.ctxLt a x j hx hc)
  have h1 := h.ensureCtx a
  rcases he : Backend.ensureCtx s a with ⟨s1, ci⟩
  rw [he] at hlt h1
  simp only at hlt h1
  have h2 := h1.tryEnq ci st
  have hmem := tryEnq_ok_mem s1 ci st hlt
  rcases ht : Backend.tryEnq s1 ci st with ⟨s2, ok⟩
  rw [ht] at h2 hmem
  simp only at h2 hmem
  unfold Backend.enqFlow
  simp only [he, ht]
  have hnone : ∀ y, LK y → LK (y.setActor a (fun x => { x with pend := .none })) := fun y hy =>
    hy.setPend a _ (fun _ => rfl) (fun _ => rfl) (fun _ => rfl) .none (fun _ => rfl) (pendOK_none y a)
  have hretry : ∀ y, LK y → LK (y.setActor a (fun x => { x with pend := .retry st cont })) := fun y hy =>
    hy.setPend a _ (fun _ => rfl) (fun _ => rfl) (fun _ => rfl) (.retry st cont) (fun _ => rfl)
      ⟨fun f hf => (by cases hf), fun st' hst' => by
        obtain ⟨c, hc | hc⟩ := hst'
        · cases hc
        · simp only [Pend.retry.injEq] at hc; rw [← hc.1]; exact hact⟩
  have hb : ∀ (y : BSt) (g : Th → Th), LK y → (∀ t, (g t).accepted = t.accepted) →
      LK (if isLogKind st.kind = true then y.setTh ci g else y) := by
    intro y g hy hg; split
    · exact hy.back (BackSame.setTh y ci g hg)
    · exact hy
  cases ok with
  | true =>
    simp only [if_true]
    apply LK.afterEnq (hnone s2 h2) a st cont hact
    exact ⟨ci, { st with enqAt := s1.now }, hmem rfl, rfl, rfl⟩
  | false =>
    simp only [Bool.false_eq_true, if_false]
    split
    · split
      · exact hnone _ (hb s2 _ h2 (fun _ => rfl))
      · exact hretry _ (hb s2 _ h2 (fun _ => rfl))
    · apply hretry
      split
      · exact hb s2 _ h2 (fun _ => rfl)
      · exact h2

theorem LK.frontCall {s : BSt} (h : LK s) (a lgi : Nat) (kind : Kind) (lvl len cont : Nat) (dyn : Bool) (id : Nat)
    (named : Bool) : LK (Backend.frontCall s a lgi kind lvl len cont dyn id named).1 := by
  unfold Backend.frontCall
  simp only
  split
  · refine h.setPend a _ (fun _ => rfl) (fun _ => rfl) (fun _ => rfl) (.stall _ cont) (fun _ => rfl)
      ⟨fun f hf => (by cases hf), fun st' hst' => ?_⟩
    obtain ⟨c, hc | hc⟩ := hst'
    · simp only [Pend.stall.injEq] at hc; rw [← hc.1]
    · cases hc
  · exact h.enqFlow a _ cont true true rfl

theorem LK.resume {s : BSt} (h : LK s) (a : Nat) : LK (Backend.resume s a).1 := by
  unfold Backend.resume
  cases hx : s.actor a with
  | none => exact h
  | some x =>
    have hp := h.pend a x hx
    simp only [Option.map_some]
    cases hpd : x.pend with
    | none => exact h
    | stall st cont =>
      rw [hpd] at hp
      exact h.enqFlow a st cont true false (hp.2 st ⟨cont, Or.inl rfl⟩)
    | retry st cont =>
      rw [hpd] at hp
      have hact := hp.2 st ⟨cont, Or.inr rfl⟩
      simp only
      split
      · exact h.enqFlow a { st with ts := s.now } cont true false hact
      · exact h.enqFlow a st cont false false hact
    | flag f =>
      simp only
      split
      · exact h.setPend a _ (fun _ => rfl) (fun _ => rfl) (fun _ => rfl) .none (fun _ => rfl) (pendOK_none s a)
      · exact h

theorem LK.withLogger {s : BSt} (h : LK s) (a g : Nat) (k : Nat → BSt × String) (hk : ∀ lgi, LK (k lgi).1) :
    LK (Backend.withLogger s a g k).1 := by
  unfold Backend.withLogger
  split
  · unfold noteCall
    exact (hk _).setKeep a _ (fun _ => rfl) (fun _ => rfl) (fun _ => rfl) (fun _ => rfl)
  · exact h

theorem LK.frame {s s' : BSt} (h : LK s) (h1 : s'.ths = s.ths) (h2 : s'.actors = s.actors) : LK s' :=
  h.back (BackSame.ofThs h1 h2)

theorem LK.applyFront {s : BSt} (h : LK s) (f : FOp) : LK (Backend.applyFront s f).1 := by
  cases f with
  | tick dt => exact h.frame rfl rfl
  | tstart a =>
    simp only [Backend.applyFront]
    split
    · exact h
    · rename_i hn
      have ha : s.actor a = none := by
        cases hx : s.actor a with
        | none => rfl
        | some x => rw [hx] at hn; simp at hn
      have hth : ∀ i, ({ s with actors := s.actors ++ [{ id := a }] } : BSt).th i = s.th i := fun _ => rfl
      refine ⟨fun b y hy => ?_, fun b y i hy hc => ?_⟩
      · rw [actor_append s a b ha] at hy
        split at hy
        · simp only [Option.some.injEq] at hy; subst hy; rename_i hb; subst hb; exact pendOK_none _ _
        · exact (h.pend b y hy).mono (fun _ _ hr => hr)
      · rw [actor_append s a b ha] at hy
        split at hy
        · simp only [Option.some.injEq] at hy; subst hy; cases hc
        · exact h.ctxLt b y i hy hc
  | texit a =>
    simp only [Backend.applyFront]
    split
    · exact h
    · have hk : LK (s.setActor a (fun x => { x with alive := false })) := by
        have hth : ∀ i, (s.setActor a (fun x => { x with alive := false })).th i = s.th i := fun _ => rfl
        refine ⟨fun b y hy => ?_, fun b y i hy hc => ?_⟩
        · by_cases hb : b = a
          · subst hb; rw [actor_setActor_kill s b (fun x => { x with alive := false }) (fun _ => rfl)] at hy; cases hy
          · rw [actor_setActor_ne s (fun x => { x with alive := false }) (fun _ => rfl) hb] at hy
            exact (h.pend b y hy).mono (fun _ _ hr => hr)
        · by_cases hb : b = a
          · subst hb; rw [actor_setActor_kill s b (fun x => { x with alive := false }) (fun _ => rfl)] at hy; cases hy
          · rw [actor_setActor_ne s (fun x => { x with alive := false }) (fun _ => rfl) hb] at hy
            exact h.ctxLt b y i hy hc
      split
      · rename_i i _
        refine (hk.back (BackSame.setTh _ i (fun t => { t with valid := false }) ?_)).frame rfl rfl
        intro _; rfl
      · exact hk
  | resume a =>
    simp only [Backend.applyFront]
    have hr := h.resume a
    split
    · exact hr
    · split
      · exact hr
      · exact hr.setKeep a _ (fun _ => rfl) (fun _ => rfl) (fun _ => rfl) (fun _ => rfl)
  | armStall a =>
    simp only [Backend.applyFront]
    split
    · exact h.setKeep a _ (fun _ => rfl) (fun _ => rfl) (fun _ => rfl) (fun _ => rfl)
    · exact h
  | log a g lvl len dyn =>
    simp only [Backend.applyFront]
    refine h.withLogger a g _ (fun lgi => ?_)
    split
    · apply LK.frontCall
      exact h.frame rfl rfl
    · exact h.frame rfl rfl
  | logNamed a g len =>
    simp only [Backend.applyFront]
    refine h.withLogger a g _ (fun lgi => ?_)
    split
    · apply LK.frontCall
      exact h.frame rfl rfl
    · exact h.frame rfl rfl
  | logBt a g len =>
    simp only [Backend.applyFront]
    refine h.withLogger a g _ (fun lgi => ?_)
    split
    · apply LK.frontCall
      exact h.frame rfl rfl
    · exact h.frame rfl rfl
  | initBt a g cap fl' =>
    simp only [Backend.applyFront]
    exact h.withLogger a g _ (fun lgi => h.frontCall a _ _ _ _ _ _ _ _)
  | flushBt a g =>
    simp only [Backend.applyFront]
    exact h.withLogger a g _ (fun lgi => h.frontCall a _ _ _ _ _ _ _ _)
  | flush a g =>
    simp only [Backend.applyFront]
    refine h.withLogger a g _ (fun lgi => ?_)
    apply LK.frontCall
    exact h.frame rfl rfl
  | removeBlocking a g =>
    simp only [Backend.applyFront]
    split
    · exact h
    · refine h.withLogger a g _ (fun lgi => ?_)
      apply LK.frontCall
      exact h.frame rfl rfl
  | remove a g =>
    simp only [Backend.applyFront]
    split
    · exact h
    · split
      · exact h.frame rfl rfl
      · exact h
  | create a g sl =>
    simp only [Backend.applyFront]
    split
    · exact h
    · split
      · split
        · exact h
        · exact h.frame rfl rfl
      · exact h.frame rfl rfl
  | setLevel g lvl =>
    simp only [Backend.applyFront]
    split
    · exact h.frame rfl rfl
    · exact h
  | setSinkLevel sid lvl =>
    simp only [Backend.applyFront]
    split
    · exact h.frame rfl rfl
    · exact h
  | dropSink sid =>
    simp only [Backend.applyFront]
    exact h.back ((SLOL.setSink _ _ _).trans (slol_reapSinks _ _)).backSame
  | query => exact h

theorem LK.closed : PC.Closed LK where
  lastFlush := fun _ _ h => h.frame rfl rfl
  siteCnt := fun _ _ h => h.frame rfl rfl
  emitInj := fun _ _ _ _ _ h => h.frame rfl rfl
  note := fun _ h => h.frame rfl rfl
  clock := fun _ _ h => h.frame rfl rfl
  gone := fun _ h => h.frame rfl rfl
  refresh := fun s h => h.back (backSame_refresh s)
  allEmpty := fun s h => h.back (backSame_allEmpty s)
  hasPending := fun s h => h.back (backSame_hasPending s)
  cleanupContexts := fun s h => h.back (backSame_cleanupContexts s)
  invFlag := fun _ _ h => h.frame rfl rfl
  erase := fun s k h _ _ => (h.back (backSame_allEmpty s)).frame rfl rfl
  reap := fun _ _ h _ _ => h.frame rfl rfl
  flagRemoval := fun _ _ _ _ _ h _ _ => h.frame rfl rfl
  flushSinks := fun s h => h.back (slol_flushSinks s).backSame
  readPrep := fun s k h => by
    unfold PC.readPrepSt
    refine h.back (BackSame.setTh s k _ ?_)
    intro _; rfl
  commit := fun s k h => by
    unfold PC.commitSt
    refine h.back (BackSame.setTh s k _ ?_)
    intro _; rfl
  readOne := fun s k st rest h _ _ => by
    unfold PC.readOneSt PC.moveSt
    have h1 : LK (PC.readPrepSt s k) := by
      unfold PC.readPrepSt
      refine h.back (BackSame.setTh s k _ ?_)
      intro _; rfl
    have h2 : LK (PC.decodeSt (PC.readPrepSt s k) st) := by
      unfold PC.decodeSt; split
      · exact h1.frame rfl rfl
      · exact h1
    refine h2.back (BackSame.setTh _ k _ ?_)
    intro _; rfl
  report := fun s k h _ => by
    have h1 : LK (s.setTh k (fun t => { t with fail := 0 })) := by
      refine h.back (BackSame.setTh s k _ ?_)
      intro _; rfl
    exact h1.frame rfl rfl
  pop := fun s k st rest h _ _ => by
    have hX : ∀ (X : BSt), LK X →
        LK ({ X.setTh k (fun t => { t with buf := rest, popped := t.popped ++ [st] }) with popLog := st :: X.popLog } : BSt) := by
      intro X hXl
      have h1 : LK (X.setTh k (fun t => { t with buf := rest, popped := t.popped ++ [st] })) := by
        refine hXl.back (BackSame.setTh X k _ ?_)
        intro _; rfl
      exact h1.frame rfl rfl
    have hpe : LK (processEvent s st).1 := h.back (slol_processEvent s st).backSame
    unfold PC.popSt
    simp only []
    split
    · exact hX _ (hpe.frame rfl rfl)
    · exact hX _ hpe
  raise := fun _ _ h _ => h.frame rfl rfl
  front := fun s f h => h.applyFront f

theorem LK.start {s : BSt} (h : s.actors = []) : LK s :=
  ⟨fun a x hx => by simp [BSt.actor, h] at hx, fun a x i hx _ => by simp [BSt.actor, h] at hx⟩

theorem LK.run {s : BSt} (h : LK s) (ops : List Op) : LK (runOps s ops) := PC.runOps_closed LK.closed ops s h

end Backend.PB
