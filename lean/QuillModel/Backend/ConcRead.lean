import QuillModel.Backend.ConcGrow
import QuillModel.Backend.ResumeProgress
/-!
# Every pass reads every ripe queue, whatever the frontend does meanwhile (helper lemmas for C09 under concurrency)

`populate_reads`: arbitrary injections; a context whose queue is non-empty when the pass starts, with the front record past its
grace period, has **at least one more record in its transit buffer** after the pass — the do-while of
`_read_and_decode_frontend_queue` reads one record before it looks at the hard limit or the byte budget.
-/
namespace Backend.PB
open Backend

variable {inj : BSt → Nat → BSt}

theorem prefix_length_le {α} {l l' : List α} (h : l <+: l') : l.length ≤ l'.length := h.length_le

/-- one read of a queue whose front record is eligible moves at least that record to the buffer -/
theorem readQueue_reads_one (hg : InjGrow inj) (tsNow : Option Nat) (i fuel total : Nat) (s : BSt)
    (hqc : QC (s.th i)) (r : Stmt) (rest : List Stmt) (hq : (s.th i).qStmts = r :: rest) (hel : rqLate tsNow r = false) :
    (s.th i).buf.length + 1 ≤ ((Backend.readQueue inj tsNow i (fuel + 1) total s).th i).buf.length := by
  have hlt : i < s.ths.length := by
    apply Classical.byContradiction; intro hn
    rw [th_lt_or_default s i (by omega)] at hq; cases hq
  rw [readQueue_succ]
  have hrd : (qPrepareRead s.cfg (s.th i).q).2 = true := by
    cases hr : (qPrepareRead s.cfg (s.th i).q).2 with
    | true => rfl
    | false =>
      exfalso
      have e1 := qPrepareRead_false _ _ hr
      have e2 := hqc.sum
      rw [e1] at e2
      have := hqc.pos r (by rw [hq]; exact List.mem_cons_self ..)
      rw [hq] at e2; simp at e2; omega
  rw [if_neg (by simp [hrd])]
  simp only [hq]
  rw [if_neg (by simp [hel])]
  have hm : ((rqMove s i r rest).th i).buf.length = (s.th i).buf.length + 1 := by
    rw [rqMove_th s i r rest hlt]; simp
  have h4 : (s.th i).buf.length + 1 ≤ ((inj (rqMove s i r rest) 3).th i).buf.length := by
    have := ((hg (rqMove s i r rest) 3).buf i).length_le
    omega
  split
  · have := ((grow_readQueue hg tsNow i fuel (total + r.size) (inj (rqMove s i r rest) 3)).buf i).length_le
    omega
  · have := ((fr_rqCommit (inj (rqMove s i r rest) 3) i).grow.buf i).length_le
    omega

variable {c : Cfg} {fl : Nat} {T : Nat → Prop} {C : List Nat} {s : BSt}

theorem pop_fold_reads (hi : InjOK inj) (hg : InjGrow inj) (tsNow : Option Nat)
    (htn : c.grace ≠ 0 → c.refreshAfterSample = true → tsNow = some fl) (i0 : Nat) (r : Stmt) (n : Nat)
    (hel : rqLate tsNow r = false) (l : List Nat) :
    ∀ (acc : BSt × Nat) (T : Nat → Prop), (∀ i ∈ l, i ∈ C) → PI c none fl T C acc.1 →
      -- either a record was read already, or the buffer is as it was and `r` is still the front of the queue
      (n + 1 ≤ (acc.1.th i0).buf.length ∨ ((acc.1.th i0).buf.length = n ∧ (acc.1.th i0).qStmts.head? = some r)) →
      Grow acc.1 (l.foldl (popStep inj tsNow) acc).1 ∧
      (i0 ∈ l → n + 1 ≤ ((l.foldl (popStep inj tsNow) acc).1.th i0).buf.length) := by
  induction l with
  | nil =>
    intro acc T _ _ _
    exact ⟨Grow.refl _, fun h => by cases h⟩
  | cons x xs ih =>
    intro acc T hl h hd
    rw [List.foldl_cons]
    have h1 := hi _ _ _ _ _ 2 h
    have gA : Grow acc.1 (inj acc.1 2) := hg _ 2
    -- the alternative survives a `Grow` stretch
    have keep : ∀ (a b : BSt), Grow a b →
        (n + 1 ≤ (a.th i0).buf.length ∨ ((a.th i0).buf.length = n ∧ (a.th i0).qStmts.head? = some r)) →
        (n + 1 ≤ (b.th i0).buf.length ∨ ((b.th i0).buf.length = n ∧ (b.th i0).qStmts.head? = some r)) := by
      intro a b g hab
      have hbl := (g.buf i0).length_le
      rcases hab with h' | ⟨h1', h2'⟩
      · left; omega
      · by_cases hlen : (b.th i0).buf.length = n
        · right
          refine ⟨hlen, ?_⟩
          -- equal length prefixes are equal, so the queue of `a` is a prefix of the queue of `b`
          have hbeq : (b.th i0).buf = (a.th i0).buf := by
            obtain ⟨t, e⟩ := g.buf i0
            have : t = [] := by
              have := congrArg List.length e
              simp at this
              exact List.eq_nil_of_length_eq_zero (by omega)
            rw [this, List.append_nil] at e; exact e.symm
          have hc := g.chain i0
          unfold PB.chain at hc
          rw [hbeq] at hc
          have hq : (a.th i0).qStmts <+: (b.th i0).qStmts := (List.prefix_append_right_inj _).mp hc
          exact head_of_prefix hq h2'
        · left; omega
    have hstep : popStep inj tsNow acc x =
        (Backend.readQueue inj tsNow x ((((inj acc.1 2).th x).qStmts.length + 63) + 1) 0 (inj acc.1 2),
         acc.2 + ((Backend.readQueue inj tsNow x ((((inj acc.1 2).th x).qStmts.length + 63) + 1) 0 (inj acc.1 2)).th x).buf.length) := rfl
    rw [hstep]
    have hdA := keep _ _ gA hd
    have hread : x = i0 → n + 1 ≤ ((Backend.readQueue inj tsNow x ((((inj acc.1 2).th x).qStmts.length + 63) + 1) 0 (inj acc.1 2)).th i0).buf.length := by
      intro hx; subst hx
      rcases hdA with h' | ⟨h1', h2'⟩
      · have := ((grow_readQueue hg tsNow x ((((inj acc.1 2).th x).qStmts.length + 63) + 1) 0 (inj acc.1 2)).buf x).length_le
        omega
      · cases hqq : ((inj acc.1 2).th x).qStmts with
        | nil => rw [hqq] at h2'; cases h2'
        | cons r' rest =>
          rw [hqq] at h2'
          have hr : r' = r := by simpa using h2'
          subst hr
          have := readQueue_reads_one hg tsNow x (((inj acc.1 2).th x).qStmts.length + 63) 0 (inj acc.1 2) (h1.qc x) r' rest hqq hel
          rw [hqq] at this
          omega
    generalize hsB : Backend.readQueue inj tsNow x ((((inj acc.1 2).th x).qStmts.length + 63) + 1) 0 (inj acc.1 2) = sB at hread
    have h2 : PI c none fl (fun j => T j ∧ j ≠ x) C sB := by
      rw [← hsB]; exact h1.readQueue_first hi tsNow htn x (hl x (List.mem_cons_self ..)) _ _ _
    have gB : Grow (inj acc.1 2) sB := by rw [← hsB]; exact grow_readQueue hg tsNow x _ _ _
    have gAB := gA.trans gB
    obtain ⟨i1, i2⟩ := ih (sB, acc.2 + (sB.th x).buf.length) _ (fun i hi' => hl i (List.mem_cons_of_mem _ hi')) h2
      (keep _ _ gB hdA)
    simp only at i1 i2
    refine ⟨gAB.trans i1, fun hmem => ?_⟩
    by_cases hx : x = i0
    · have := hread hx
      have := (i1.buf i0).length_le
      omega
    · rcases List.mem_cons.mp hmem with e | hmem'
      · exact absurd e.symm hx
      · exact i2 hmem'

/-- **Every pass reads every ripe queue.** Arbitrary injections. A context `i0` whose queue is non-empty when the pass
    starts, with its front record `r` past the grace period, has at least one more record in its transit buffer after the
    pass. -/
theorem populate_reads (hi : InjOK inj) (hg : InjGrow inj) (h : PIo c fl s) (i0 : Nat) (r : Stmt) (rest : List Stmt)
    (hq : (s.th i0).qStmts = r :: rest) (hripe : r.ts + c.grace ≤ s.now) :
    (s.th i0).buf.length + 1 ≤ ((populate inj s).1.th i0).buf.length := by
  have hne0 : chain (s.th i0) ≠ [] := by unfold chain; rw [hq]; simp
  have hreg0 : i0 ∈ s.registry := h.reg i0 hne0
  rw [populate_eq]
  unfold popC
  have ga : Grow s (popA s) := by
    unfold popA; split
    · exact Grow.refl _
    · exact (fr_refresh s).grow
  have ha : PIo c fl (popA s) := by
    unfold popA; split
    · exact h
    · exact h.refresh
  have hca : s.cfg.refreshAfterSample = false → i0 ∈ (popA s).cache := by
    intro hras
    unfold popA; rw [if_neg (by simp [hras])]
    exact refresh_fresh h i0 (by rw [(fr_refresh s).reg]; exact hreg0)
  have gb : Grow (popA s) (popB inj s) := by
    unfold popB; split
    · exact Grow.refl _
    · exact hg _ 7
  have hb : PIo c fl (popB inj s) := by
    unfold popB; split
    · exact ha
    · exact hi.pio ha 7
  have hcb : s.cfg.refreshAfterSample = false → i0 ∈ (popB inj s).cache := by
    intro hras
    have e : (popB inj s).cache = (popA s).cache := by
      unfold popB; split
      · rfl
      · exact (hi _ _ _ _ _ 7 ha).cacheEq
    rw [e]; exact hca hras
  have gab := ga.trans gb
  have hcfgb : (popB inj s).cfg = s.cfg := gab.cfg
  have hnowb := gab.now
  generalize popB inj s = sb at hb gab hcb hcfgb hnowb ⊢
  have hcfg : sb.cfg = c := hb.cfgEq
  let fl' := sb.now - sb.cfg.grace
  have hb' : PI c none fl' (fun _ => True) sb.cache sb := hb.newFloor fl' hb.floorNow (Nat.le_refl _)
  have htn : c.grace ≠ 0 → c.refreshAfterSample = true → tsNowOf sb = some fl' := by
    intro hg0 _
    unfold tsNowOf
    rw [if_neg (by rw [hcfg]; exact hg0)]
  have hel : rqLate (tsNowOf sb) r = false := rqLate_of_ripe sb r (by rw [hcfg]; omega)
  have h1 := hi _ _ _ _ _ 1 hb'
  have g1 : Grow sb (inj sb 1) := hg _ 1
  have h2 : PI c none fl' (fun i => i ∈ (if sb.cfg.refreshAfterSample = true then refreshCache (inj sb 1) else inj sb 1).cache)
      (if sb.cfg.refreshAfterSample = true then refreshCache (inj sb 1) else inj sb 1).cache
      (if sb.cfg.refreshAfterSample = true then refreshCache (inj sb 1) else inj sb 1) := by
    by_cases good : c.grace ≠ 0 ∧ c.refreshAfterSample = true
    · rw [if_pos (by rw [hcfg]; exact good.2)]
      exact h1.refresh.weakenT (fun i hi' => hi'.2)
    · split
      · exact h1.refresh.anyT good
      · exact h1.toPIo.anyT good
  have g2 : Grow sb (if sb.cfg.refreshAfterSample = true then refreshCache (inj sb 1) else inj sb 1) := by
    split
    · exact g1.trans (fr_refresh _).grow
    · exact g1
  have hc2 : i0 ∈ (if sb.cfg.refreshAfterSample = true then refreshCache (inj sb 1) else inj sb 1).cache := by
    split
    · refine refresh_fresh h1 i0 ?_
      rw [(fr_refresh _).reg]
      exact g1.reg i0 (gab.reg i0 hreg0)
    · rename_i hras
      rw [h1.cacheEq]
      exact hcb (by rw [← hcfgb]; simpa using hras)
  have g02 := gab.trans g2
  generalize (if sb.cfg.refreshAfterSample = true then refreshCache (inj sb 1) else inj sb 1) = s2 at h2 g2 hc2 g02 ⊢
  -- the alternative at `s2`
  have hd2 : (s.th i0).buf.length + 1 ≤ (s2.th i0).buf.length ∨
      ((s2.th i0).buf.length = (s.th i0).buf.length ∧ (s2.th i0).qStmts.head? = some r) := by
    have hbl := (g02.buf i0).length_le
    by_cases hlen : (s2.th i0).buf.length = (s.th i0).buf.length
    · right
      refine ⟨hlen, ?_⟩
      have hbeq : (s2.th i0).buf = (s.th i0).buf := by
        obtain ⟨t, e⟩ := g02.buf i0
        have : t = [] := by
          have := congrArg List.length e
          simp at this
          exact List.eq_nil_of_length_eq_zero (by omega)
        rw [this, List.append_nil] at e; exact e.symm
      have hc := g02.chain i0
      unfold PB.chain at hc
      rw [hbeq] at hc
      have hqp : (s.th i0).qStmts <+: (s2.th i0).qStmts := (List.prefix_append_right_inj _).mp hc
      exact head_of_prefix hqp (by rw [hq]; rfl)
    · left; omega
  obtain ⟨_, k2⟩ := pop_fold_reads hi hg (tsNowOf sb) htn i0 r (s.th i0).buf.length hel s2.cache (s2, 0) _
    (fun i hi' => hi') h2 hd2
  exact k2 hc2

end Backend.PB
