import QuillModel.Backend.OrdFront
/-!
Backend helper functions and the ordering invariant: cache refresh, emptiness checks, the pending guard of the
batch loop, context / logger clean-up, sink dispatch (all invisible or harmless to `PI`).
-/
namespace Backend.PB
open Backend

variable {c : Cfg} {fl : Nat} {T : Nat → Prop} {C : List Nat} {s : BSt}

/-- `s'` differs from `s` only in fields the invariant cannot see -/
structure Same (s s' : BSt) : Prop where
  cfg : s'.cfg = s.cfg
  now : s'.now = s.now
  th : ∀ i, ThEq (s.th i) (s'.th i)
  len : s'.ths.length = s.ths.length
  reg : s'.registry = s.registry
  cache : s'.cache = s.cache
  nf : s'.newFlag = s.newFlag
  act : ∀ a, s'.actor a = s.actor a
  pop : s'.popLog = s.popLog

theorem ThEq.trans {a b c : Th} (h1 : ThEq a b) (h2 : ThEq b c) : ThEq a c :=
  ⟨h2.buf.trans h1.buf, h2.q.trans h1.q, h2.acc.trans h1.acc, h2.wpos.trans h1.wpos, h2.wh.trans h1.wh,
   h2.rpos.trans h1.rpos, h2.valid.trans h1.valid, by
    rcases h2.wc with e | e
    · rcases h1.wc with e1 | e1
      · exact .inl (e.trans e1)
      · exact .inr (by rw [e, e1, h2.wh])
    · exact .inr e, h2.cap.trans h1.cap⟩

theorem Same.refl (s : BSt) : Same s s := ⟨rfl, rfl, fun _ => ThEq.refl _, rfl, rfl, rfl, rfl, fun _ => rfl, rfl⟩

theorem Same.trans {a b c : BSt} (h1 : Same a b) (h2 : Same b c) : Same a c :=
  ⟨h2.cfg.trans h1.cfg, h2.now.trans h1.now, fun i => (h1.th i).trans (h2.th i), h2.len.trans h1.len,
   h2.reg.trans h1.reg, h2.cache.trans h1.cache, h2.nf.trans h1.nf, fun a => (h2.act a).trans (h1.act a), h2.pop.trans h1.pop⟩

theorem Same.ofCore {s s' : BSt} (hc : core s' = core s) : Same s s' := by
  have h3 : s'.ths = s.ths := congrArg Core.ths hc
  have h7 : s'.actors = s.actors := congrArg Core.actors hc
  refine ⟨congrArg Core.cfg hc, congrArg Core.now hc, fun i => ?_, by rw [h3], congrArg Core.registry hc,
    congrArg Core.cache hc, congrArg Core.newFlag hc, fun a => ?_, congrArg Core.popLog hc⟩
  · have : s'.th i = s.th i := by simp only [BSt.th, h3]
    rw [this]; exact ThEq.refl _
  · simp only [BSt.actor, h7]

theorem Same.setTh (s : BSt) (i : Nat) (f : Th → Th) (hf : ThEq (s.th i) (f (s.th i))) : Same s (s.setTh i f) := by
  refine ⟨rfl, rfl, fun j => ?_, length_setTh s i f, rfl, rfl, rfl, fun _ => rfl, rfl⟩
  rcases th_setTh_cases s i j f with h1 | ⟨rfl, _, h1⟩
  · rw [h1]; exact ThEq.refl _
  · rw [h1]; exact hf

theorem PI.same {ex} {s s' : BSt} (h : PI c ex fl T C s) (hs : Same s s') : PI c ex fl T C s' :=
  h.congr hs.cfg hs.now hs.th hs.len hs.reg hs.cache hs.nf hs.act hs.pop

/-- the invariant outside a pass: nothing is claimed about unread queues, the cache is whatever it is -/
abbrev PIo (c : Cfg) (fl : Nat) (s : BSt) : Prop := PI c none fl (fun _ => True) s.cache s

theorem PI.toPIo (h : PI c none fl T C s) : PIo c fl s := by
  have := h.weakenT (T' := fun _ => True) (fun _ _ => trivial)
  rw [← h.cacheEq] at this; exact this

theorem PIo.same {s s' : BSt} (h : PIo c fl s) (hs : Same s s') : PIo c fl s' := by
  have := PI.same h hs
  unfold PIo; rw [hs.cache]; exact this

/-! ### sinks and loggers: invisible -/

theorem core_writeToSinks (s : BSt) (st : Stmt) (l : List Nat) : core (writeToSinks s st l).1 = core s := by
  induction l generalizing s with
  | nil => rfl
  | cons sid rest ih =>
    unfold writeToSinks
    simp only
    split
    · split
      · rfl
      · rw [ih]; rfl
    · exact ih s

theorem core_dispatch (s : BSt) (st : Stmt) : core (dispatch s st).1 = core s := core_writeToSinks _ _ _

theorem core_replayGo (s : BSt) (l : List Stmt) : core (replayRing.go s l).1 = core s := by
  induction l generalizing s with
  | nil => rfl
  | cons x xs ih =>
    unfold replayRing.go
    simp only
    split
    · split
      · rw [ih, core_emit]; exact core_dispatch s x
      · exact core_dispatch s x
    · rw [ih]; exact core_dispatch s x

theorem core_replayRing (s : BSt) (i : Nat) : core (replayRing s i).1 = core s := by
  unfold replayRing
  split
  · rfl
  · simp only
    split
    · exact core_replayGo _ _
    · show core (replayRing.go s _).1 = core s; exact core_replayGo _ _

theorem core_flushSinks (s : BSt) : core (flushSinks s) = core s := by
  unfold flushSinks
  generalize activeSinks s = l
  induction l generalizing s with
  | nil => rfl
  | cons x xs ih =>
    rw [List.foldl_cons, ih]
    simp only
    split <;> rfl

theorem core_processEvent (s : BSt) (st : Stmt) : core (processEvent s st).1 = core s := by
  unfold processEvent
  split
  · split
    · simp only
      split
      · exact core_dispatch _ _
      · split
        · rw [core_replayRing]; exact core_dispatch _ _
        · exact core_dispatch _ _
    · split <;> rfl
  · rfl
  · exact core_replayRing _ _
  · exact core_flushSinks _
  · rfl

/-! ### refreshing the cache -/

theorem refresh_fresh (h : PI c none fl T C s) : ∀ i ∈ (refreshCache s).registry, i ∈ (refreshCache s).cache := by
  unfold refreshCache
  split
  · intro i hi; exact hi
  · rename_i hn; exact h.fresh (by simpa using hn)

/-- after a refresh every registered context is cached; only cached contexts remain to be read -/
theorem PI.refresh (h : PI c none fl T C s) :
    PI c none fl (fun i => T i ∧ i ∈ (refreshCache s).cache) (refreshCache s).cache (refreshCache s) := by
  have hfr := refresh_fresh h
  revert hfr
  unfold refreshCache
  split
  · intro hfr
    exact { h with
      cacheEq := rfl
      bufCache := fun i hi _ => hi
      cacheReg := fun i hi => hi
      fresh := fun _ i hi => hi
      ord := fun hg0 hr0 hp => by
        have o := h.ord hg0 hr0 hp
        exact { popSorted := o.popSorted, above := o.above, popFloor := o.popFloor, bufFloor := o.bufFloor,
                late := fun i hi hT => o.late i hi (fun ht => hT ⟨ht, hi⟩) } }
  · intro hfr
    exact { h with
      cacheEq := rfl
      ord := fun hg0 hr0 hp => by
        have o := h.ord hg0 hr0 hp
        exact { popSorted := o.popSorted, above := o.above, popFloor := o.popFloor, bufFloor := o.bufFloor,
                late := fun i hi hT => o.late i hi (fun ht => hT ⟨ht, hfr i hi⟩) } }

theorem PIo.refresh (h : PIo c fl s) : PIo c fl (refreshCache s) := (PI.refresh h).toPIo

/-! ### emptiness checks -/

theorem same_ctxEmpty (s : BSt) (i : Nat) : Same s (ctxEmpty s i).1 := by
  unfold ctxEmpty
  exact Same.setTh s i _ (ThEq.ofQ _ _ (qEmpty_fields _ _))

theorem ctxEmpty_true (h : QC (s.th i)) (he : (ctxEmpty s i).2 = true) : (s.th i).buf = [] ∧ (s.th i).qStmts = [] := by
  unfold ctxEmpty at he
  simp only [Bool.and_eq_true, List.isEmpty_iff] at he
  refine ⟨he.2, ?_⟩
  have h1 := qEmpty_true _ _ he.1
  have h2 := h.sum
  rw [h1] at h2
  cases hq : (s.th i).qStmts with
  | nil => rfl
  | cons x xs =>
    have := h.pos x (by rw [hq]; exact List.mem_cons_self ..)
    rw [hq] at h2; simp at h2; omega

theorem same_allEmpty_fold (l : List Nat) (acc : BSt × Bool) :
    Same acc.1 (l.foldl (fun (acc : BSt × Bool) i => let r := ctxEmpty acc.1 i; (r.1, acc.2 && r.2)) acc).1 := by
  induction l generalizing acc with
  | nil => exact Same.refl _
  | cons x xs ih =>
    rw [List.foldl_cons]
    exact (same_ctxEmpty acc.1 x).trans (ih ((ctxEmpty acc.1 x).1, acc.2 && (ctxEmpty acc.1 x).2))

theorem PIo.allEmpty (h : PIo c fl s) : PIo c fl (allEmpty s).1 := by
  unfold Backend.allEmpty
  exact h.refresh.same (same_allEmpty_fold (refreshCache s).cache (refreshCache s, true))

/-! ### the pending guard of the batch loop -/

def hpStep (acc : BSt × Bool) (i : Nat) : BSt × Bool :=
  if acc.2 then acc else
  if (acc.1.th i).buf.isEmpty then
    let r := qEmpty acc.1.cfg (acc.1.th i).q
    (acc.1.setTh i (fun t => { t with q := r.1 }), !r.2)
  else acc

theorem hp_fold (l : List Nat) (acc : BSt × Bool) (hq : ∀ i, QC (acc.1.th i)) :
    Same acc.1 (l.foldl hpStep acc).1 ∧
    ((l.foldl hpStep acc).2 = false → acc.2 = false ∧ ∀ i ∈ l, (acc.1.th i).buf = [] → (acc.1.th i).qStmts = []) := by
  induction l generalizing acc with
  | nil => exact ⟨Same.refl _, fun h => ⟨h, fun _ hi => by cases hi⟩⟩
  | cons x xs ih =>
    rw [List.foldl_cons]
    have hstep : Same acc.1 (hpStep acc x).1 ∧ ((hpStep acc x).2 = false → acc.2 = false ∧
        ((acc.1.th x).buf = [] → (acc.1.th x).qStmts = [])) := by
      unfold hpStep
      split
      · rename_i h1; exact ⟨Same.refl _, fun h => by rw [h1] at h; cases h⟩
      · rename_i h1
        split
        · rename_i h2
          refine ⟨Same.setTh _ _ _ (ThEq.ofQ _ _ (qEmpty_fields _ _)), fun h => ⟨by simpa using h1, fun _ => ?_⟩⟩
          simp only [Bool.not_eq_false'] at h
          have e1 := qEmpty_true _ _ h
          have q0 := hq x
          have e2 := q0.sum
          rw [e1] at e2
          cases hqq : (acc.1.th x).qStmts with
          | nil => rfl
          | cons y ys =>
            have := q0.pos y (by rw [hqq]; exact List.mem_cons_self ..)
            rw [hqq] at e2; simp at e2; omega
        · rename_i h2
          exact ⟨Same.refl _, fun _ => ⟨by simpa using h1, fun hb => by rw [hb] at h2; simp at h2⟩⟩
    have hq' : ∀ i, QC ((hpStep acc x).1.th i) := fun i => (hstep.1.th i).qc (hq i)
    obtain ⟨i1, i2⟩ := ih (hpStep acc x) hq'
    refine ⟨hstep.1.trans i1, fun h => ?_⟩
    obtain ⟨j1, j2⟩ := i2 h
    obtain ⟨k1, k2⟩ := hstep.2 j1
    refine ⟨k1, fun i hi hb => ?_⟩
    rcases List.mem_cons.mp hi with rfl | hi
    · exact k2 hb
    · have e := hstep.1.th i
      have := j2 i hi (by rw [e.buf]; exact hb)
      rw [e.q] at this; exact this

theorem hasPending_eq (s : BSt) : hasPending s = (refreshCache s).cache.foldl hpStep (refreshCache s, false) := rfl

/-- the guard: when it reports nothing pending, every registered context with an empty buffer has an empty queue -/
theorem PIo.hasPending (h : PIo c fl s) :
    PIo c fl (hasPending s).1 ∧ ((hasPending s).2 = false →
      ∀ i ∈ (hasPending s).1.registry, ((hasPending s).1.th i).buf = [] → ((hasPending s).1.th i).qStmts = []) := by
  rw [hasPending_eq]
  have hr := h.refresh
  obtain ⟨h1, h2⟩ := hp_fold (refreshCache s).cache (refreshCache s, false) hr.qc
  refine ⟨hr.same h1, fun hf i hi hb => ?_⟩
  obtain ⟨_, h3⟩ := h2 hf
  have e := h1.th i
  rw [h1.reg] at hi
  have hc := refresh_fresh h i hi
  rw [e.buf] at hb
  rw [e.q]; exact h3 i hc hb

/-! ### clean-up -/

theorem foldl_inv {α β} (P : β → Prop) (f : β → α → β) (l : List α) (b : β) (h0 : P b)
    (hs : ∀ b a, P b → P (f b a)) : P (l.foldl f b) := by
  induction l generalizing b with
  | nil => exact h0
  | cons x xs ih => exact ih _ (hs _ _ h0)

/-! ### failure counters (site 8 inside) -/

/-- what the proofs assume of the injection runner: it preserves the invariant (for every cut-off, every set
    of unread contexts, every cache) — true of any sequence of frontend operations (`PI.runInj`) -/
def InjOK (inj : BSt → Nat → BSt) : Prop :=
  ∀ c fl T C s site, PI c none fl T C s → PI c none fl T C (inj s site)

theorem InjOK.pio {inj : BSt → Nat → BSt} (hi : InjOK inj) {s : BSt} (h : PIo c fl s) (site : Nat) : PIo c fl (inj s site) :=
  (hi _ _ _ _ _ site h).toPIo

theorem PIo.checkFailures {inj : BSt → Nat → BSt} (hi : InjOK inj) (h : PIo c fl s) : PIo c fl (checkFailures inj s) := by
  unfold Backend.checkFailures
  apply foldl_inv (fun x : BSt => PIo c fl x) _ _ _ h
  intro b i hb
  simp only
  split
  · apply hi.pio
    exact (hb.same (Same.setTh _ i _ ⟨rfl, rfl, rfl, rfl, rfl, rfl, rfl, .inl rfl, rfl⟩)).frame rfl
  · exact hb

theorem findFirst_spec (s : BSt) (l : List Nat) (hq : ∀ i, QC (s.th i)) :
    Same s (cleanupContexts.go.findFirst s l).1 ∧
    ∀ i, (cleanupContexts.go.findFirst s l).2 = some i →
      ((cleanupContexts.go.findFirst s l).1.th i).valid = false ∧ chain ((cleanupContexts.go.findFirst s l).1.th i) = [] := by
  induction l generalizing s with
  | nil => exact ⟨Same.refl _, fun i h => by cases h⟩
  | cons x xs ih =>
    unfold cleanupContexts.go.findFirst
    split
    · exact ih s hq
    · rename_i hv
      simp only
      split
      · rename_i h2
        refine ⟨same_ctxEmpty s x, fun i hi => ?_⟩
        cases hi
        have e := (same_ctxEmpty s x).th x
        simp only [Bool.and_eq_true] at h2
        obtain ⟨b1, b2⟩ := ctxEmpty_true (hq x) h2.1
        refine ⟨by rw [e.valid]; simpa using hv, ?_⟩
        rw [e.chain]; simp [chain, b1, b2]
      · have hs := same_ctxEmpty s x
        obtain ⟨i1, i2⟩ := ih (ctxEmpty s x).1 (fun i => (hs.th i).qc (hq i))
        exact ⟨hs.trans i1, i2⟩

/-- an invalidated, drained context leaves the registry and the cache -/
theorem PIo.remove (h : PIo c fl s) (i : Nat) (hv : (s.th i).valid = false) (hc : chain (s.th i) = []) (n : Nat) :
    PIo c fl { s with registry := s.registry.filter (· ≠ i), cache := s.cache.filter (· ≠ i), invalidCnt := n } := by
  unfold PIo at *
  exact { h with
    cacheEq := rfl
    reg := fun j hj => by
      refine List.mem_filter.mpr ⟨h.reg j hj, ?_⟩
      simp only [ne_eq, decide_not, Bool.not_eq_eq_eq_not, Bool.not_true, decide_eq_false_iff_not]
      intro hji; rw [hji] at hj; exact hj hc
    ctxReg := fun a x j hx hj => by
      obtain ⟨r1, r2⟩ := h.ctxReg a x j hx hj
      refine ⟨List.mem_filter.mpr ⟨r1, ?_⟩, r2⟩
      simp only [ne_eq, decide_not, Bool.not_eq_eq_eq_not, Bool.not_true, decide_eq_false_iff_not]
      intro hji; rw [hji, hv] at r2; cases r2
    bufCache := fun j hjr hj => by
      obtain ⟨h1, h2⟩ := List.mem_filter.mp hjr
      exact List.mem_filter.mpr ⟨h.bufCache j h1 hj, h2⟩
    cacheReg := fun j hj => by
      obtain ⟨h1, h2⟩ := List.mem_filter.mp hj
      exact List.mem_filter.mpr ⟨h.cacheReg j h1, h2⟩
    fresh := fun hf j hj => by
      obtain ⟨h1, h2⟩ := List.mem_filter.mp hj
      exact List.mem_filter.mpr ⟨h.fresh hf j h1, h2⟩
    ord := fun hg0 hr0 hp => by
      have o := h.ord hg0 hr0 hp
      exact { popSorted := o.popSorted
              above := fun p hpp j hj => o.above p hpp j (List.mem_filter.mp hj).1
              popFloor := o.popFloor, bufFloor := o.bufFloor
              late := fun j hj => o.late j (List.mem_filter.mp hj).1 } }

theorem PIo.cleanupGo (fuel : Nat) (s : BSt) (h : PIo c fl s) : PIo c fl (cleanupContexts.go fuel s) := by
  induction fuel generalizing s with
  | zero => exact h
  | succ n ih =>
    unfold cleanupContexts.go
    obtain ⟨f1, f2⟩ := findFirst_spec s s.cache h.qc
    split
    · rename_i s1 heq
      rw [heq] at f1; exact h.same f1
    · rename_i s1 i heq
      rw [heq] at f1 f2
      apply ih
      have h1 : PIo c fl s1 := h.same f1
      have h2 := h1.remove i (f2 i rfl).1 (f2 i rfl).2 (counterMod s1.cfg (s1.invalidCnt + 2 ^ s1.cfg.invalidBits - 1))
      exact h2.same (Same.setTh _ i _ ⟨rfl, rfl, rfl, rfl, rfl, rfl, rfl, .inl rfl, rfl⟩)

theorem PIo.cleanupContexts (h : PIo c fl s) : PIo c fl (cleanupContexts s) := by
  unfold Backend.cleanupContexts
  split
  · exact h
  · exact PIo.cleanupGo _ _ h

theorem PIo.frame {s s' : BSt} (h : PIo c fl s) (hc : core s' = core s) : PIo c fl s' := h.same (Same.ofCore hc)

theorem PIo.reapSinksInj {inj : BSt → Nat → BSt} (hi : InjOK inj) (l : List Nat) (s : BSt) (h : PIo c fl s) :
    PIo c fl (reapSinksInj inj s l) := by
  unfold Backend.reapSinksInj
  apply foldl_inv (fun x : BSt => PIo c fl x) _ _ _ h
  intro b sid hb
  split
  · apply hi.pio
    exact hb.frame rfl
  · exact hb

theorem PIo.cleanupLoggers {inj : BSt → Nat → BSt} (hi : InjOK inj) (h : PIo c fl s) : PIo c fl (cleanupLoggers inj s) := by
  unfold Backend.cleanupLoggers
  split
  · exact h
  · simp only
    apply foldl_inv (fun x : BSt => PIo c fl x)
    · refine foldl_inv (fun acc : BSt × List Nat => PIo c fl acc.1) _ _ _ (h.frame rfl) ?_
      intro acc i hacc
      split
      · exact hacc
      · split
        · exact PIo.reapSinksInj hi _ _ (hacc.allEmpty.frame rfl)
        · exact PIo.frame hacc.allEmpty rfl
    · intro b a hb
      split
      · exact hb.frame rfl
      · exact hb

end Backend.PB
