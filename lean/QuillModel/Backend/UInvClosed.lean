import QuillModel.Backend.UInv
/-!
`UI` (conservation + chain coherence of every context) is closed under every frontend operation of the U machine and
under every step of the backend: `UI.closed : ClosedU u UI`, hence `UI` holds along every operation list.
-/
namespace Backend.US
open Backend Spsc Backend.PA Backend.UQ

theorem UI.frontU {s : BSt} (h : UI s) (u : UP) (f : UFOp) : UI (applyFrontU u s f).1 := by
  have hmisc : ∀ s' : BSt, s'.cfg = s.cfg → s'.ths = s.ths → s'.actors = s.actors → UI s' :=
    fun s' h1 h2 h3 => h.aux h1 h2 h3
  cases f with
  | shrink a want =>
    simp only [applyFrontU]
    split
    · exact h
    · split
      · exact h
      · exact h.setTh _ _ (fun ht => ht.shrink s.cfg want)
  | capq a =>
    simp only [applyFrontU]
    split
    · exact h
    · split <;> exact h
  | base f =>
    cases f with
    | tick dt => exact hmisc _ rfl rfl rfl
    | tstart a =>
      simp only [applyFrontU, applyFront]
      split
      · exact h
      · refine ⟨h.hdr, h.th, ?_⟩
        intro x hx st hst
        rcases List.mem_append.mp hx with hx | hx
        · exact h.pend x hx st hst
        · simp at hx; subst hx; simp [pendStmt] at hst
    | texit a =>
      simp only [applyFrontU, applyFront]
      split
      · exact h
      · have h1 : UI (s.setActor a (fun x => { x with alive := false })) := h.setActorMisc a _ (fun _ => rfl)
        split
        · exact (h1.setTh _ (fun t => { t with valid := false }) (fun ht => ht.same rfl rfl rfl rfl rfl rfl)).aux rfl rfl rfl
        · exact h1
    | resume a =>
      simp only [applyFrontU]
      have h1 := h.resumeU u a
      split
      · exact h1
      · split
        · exact h1
        · exact h1.setActorMisc a _ (fun _ => rfl)
    | armStall a =>
      simp only [applyFrontU, applyFront]
      split
      · exact h.setActorMisc a _ (fun _ => rfl)
      · exact h
    | log a g lvl len dyn =>
      simp only [applyFrontU]
      apply h.withLogger
      intro lgi
      have h1 : UI { s with nextId := s.nextId + 1 } := hmisc _ rfl rfl rfl
      split
      · exact h1.frontCallU ..
      · exact h1
    | logNamed a g len =>
      simp only [applyFrontU]
      apply h.withLogger
      intro lgi
      have h1 : UI { s with nextId := s.nextId + 1 } := hmisc _ rfl rfl rfl
      split
      · exact h1.frontCallU ..
      · exact h1
    | logBt a g len =>
      simp only [applyFrontU]
      apply h.withLogger
      intro lgi
      have h1 : UI { s with nextId := s.nextId + 1 } := hmisc _ rfl rfl rfl
      split
      · exact h1.frontCallU ..
      · exact h1
    | initBt a g cap fl =>
      simp only [applyFrontU]
      exact h.withLogger _ _ _ (fun lgi => h.frontCallU ..)
    | flushBt a g =>
      simp only [applyFrontU]
      exact h.withLogger _ _ _ (fun lgi => h.frontCallU ..)
    | flush a g =>
      simp only [applyFrontU]
      apply h.withLogger
      intro lgi
      have h1 : UI { s with nextFlag := s.nextFlag + 1 } := hmisc _ rfl rfl rfl
      exact h1.frontCallU ..
    | removeBlocking a g =>
      simp only [applyFrontU]
      split
      · exact h
      · apply h.withLogger
        intro lgi
        have h1 : UI (dropName { s with nextFlag := s.nextFlag + 1 } g) := hmisc _ rfl rfl rfl
        exact h1.frontCallU ..
    | remove a g =>
      simp only [applyFrontU, applyFront]
      split
      · exact h
      · split
        · exact hmisc _ rfl rfl rfl
        · exact h
    | create a g sl =>
      simp only [applyFrontU, applyFront]
      split
      · exact h
      · split
        · split
          · exact h
          · exact hmisc _ rfl rfl rfl
        · exact hmisc _ rfl rfl rfl
    | setLevel g lvl =>
      simp only [applyFrontU, applyFront]
      split
      · exact hmisc _ rfl rfl rfl
      · exact h
    | setSinkLevel sid lvl =>
      simp only [applyFrontU, applyFront]
      split
      · exact hmisc _ rfl rfl rfl
      · exact h
    | dropSink sid =>
      simp only [applyFrontU, applyFront]
      have hf := reapSinks_frame (s.setSink sid (fun k => { k with userRef := false })) [sid]
      exact (hmisc (s.setSink sid (fun k => { k with userRef := false })) rfl rfl rfl).aux hf.cfg hf.ths hf.actors
    | query => exact h

theorem UI.readStep {s : BSt} (h : UI s) (u : UP) (i : Nat) (st : Stmt) (rest : List Stmt)
    (hq : (s.th i).qStmts = st :: rest)
    (ho : (uRead s.cfg u.follow ((s.th i).more.length + 1) (s.th i)).2.1 = true) :
    UI (readOneU (s.setTh i (fun t => (uRead s.cfg u.follow (t.more.length + 1) t).1)) i st rest) := by
  have hi : i < s.ths.length := by
    by_cases hi : i < s.ths.length
    · exact hi
    · rw [th_default_of_ge s i (by omega)] at hq; cases hq
  have hsR : UI (s.setTh i (fun t => (uRead s.cfg u.follow (t.more.length + 1) t).1)) :=
    h.setTh i _ (fun ht => (uRead_spec s.cfg u.follow _ _ ht (by omega)).ti ht)
  have hr := uRead_spec s.cfg u.follow ((s.th i).more.length + 1) (s.th i) (h.th i) (by omega)
  rw [ho] at hr
  unfold readOneU
  dsimp only
  have key : ∀ s2 : BSt, s2.cfg = s.cfg → s2.ths = (s.setTh i (fun t => (uRead s.cfg u.follow (t.more.length + 1) t).1)).ths →
      s2.actors = s.actors →
      UI (s2.setTh i (fun t => { uFinishRead s2.cfg t st.size with qStmts := rest, buf := t.buf ++ [st] })) := by
    intro s2 e1 e2 e3
    have h2 : UI s2 := hsR.aux e1 e2 e3
    refine h2.setTh i _ (fun _ => ?_)
    have e : s2.th i = (uRead s.cfg u.follow ((s.th i).more.length + 1) (s.th i)).1 := by
      rw [th_of_ths_eq e2, th_setTh_self _ _ _ hi]
    rw [e, e1]
    exact (h.th i).readOne s.cfg hr st rest hq
  split
  · exact key _ rfl rfl rfl
  · exact key _ rfl rfl rfl

theorem UI.closedR (u : UP) : ClosedR u UI where
  aux := fun _ _ h h1 h2 h3 => h.aux h1 h2 h3
  readT := fun s i h => h.setTh i _ (fun ht => (uRead_spec s.cfg u.follow _ _ ht (by omega)).ti ht)
  commitT := fun s i h => h.setTh i _ (fun ht => ht.commitRead s.cfg)
  readStep := fun _ i st rest h hq ho => h.readStep u i st rest hq ho

theorem UI.closed (u : UP) : ClosedU u UI where
  aux := fun _ _ h h1 h2 h3 => h.aux h1 h2 h3
  emptyT := fun s i h => h.setTh i _ (fun ht => ht.emptyTest s.cfg)
  dropT := fun _ i h => h.setTh i _ (fun ht => ht.same rfl rfl rfl rfl rfl rfl)
  popT := fun s i st rest h hb => h.setTh i _ (fun ht => ht.pop st rest hb)
  front := fun _ f h => h.frontU u f
  readQ := fun table tsNow i qcap0 fuel s h =>
    readQ_of_steps (UI.closedR u) (runInjU u table)
      (fun s k hs => runInjU_closed' (P := UI) (u := u) (fun _ _ h h1 h2 h3 => h.aux h1 h2 h3)
        (fun _ f h => h.frontU u f) table s k hs)
      tsNow i qcap0 fuel 0 s h

end Backend.US
