import QuillModel.Backend.ConsProofsOnce
/-!
Lift of the pop order to the observable event log (bundle A skeleton): in every reachable state the sequence of
ordinary (`lvl ≠ 9`) `Ev.write` events of the whole history `log` is an *expansion* of the pop history `popLog` —
each popped statement is replaced by zero or more `write` events that carry its id and its timestamp, in pop order
(`Blow`). Helper lemmas only; the property theorems are in `Props/C05Write.lean`.
-/
namespace Backend.PA
open Backend Spsc

/-- `(sink, id, ts)` of an ordinary `write` event (a replayed backtrace statement, level 9, is not ordinary) -/
def ordKey : Ev → Option (Nat × Nat × Nat)
  | .write sid id l ts _ => if l = 9 then none else some (sid, id, ts)
  | _ => none

/-- the ordinary writes of a history, in the order of the history (newest first) -/
def wkeys (log : List Ev) : List (Nat × Nat × Nat) := log.filterMap ordKey

theorem wkeys_append (a b : List Ev) : wkeys (a ++ b) = wkeys a ++ wkeys b := by simp [wkeys, List.filterMap_append]

theorem ordKey_of_not_write {e : Ev} (h : isWriteEv e = false) : ordKey e = none := by
  cases e <;> simp_all [isWriteEv, ordKey]

theorem wkeys_nowrite {evs : List Ev} (h : ∀ e ∈ evs, isWriteEv e = false) : wkeys evs = [] := by
  unfold wkeys
  rw [List.filterMap_eq_nil_iff]
  intro e he
  exact ordKey_of_not_write (h e he)

/-- the write `k` is a write of the statement `st` -/
def keyOf (k : Nat × Nat × Nat) (st : Stmt) : Prop := k.2.1 = st.id ∧ k.2.2 = st.ts ∧ st.lvl ≠ 9

/-- `l` (write keys, newest first) arises from `p` (popped statements, newest first) by replacing every statement by
    zero or more writes of that statement -/
inductive Blow : List (Nat × Nat × Nat) → List Stmt → Prop
  | nil : Blow [] []
  | skip {l p} (x : Stmt) : Blow l p → Blow l (x :: p)
  | copy {l p} {x : Stmt} (k : Nat × Nat × Nat) : keyOf k x → Blow l (x :: p) → Blow (k :: l) (x :: p)

theorem Blow.mem {l p} (h : Blow l p) : ∀ k ∈ l, ∃ x ∈ p, keyOf k x := by
  induction h with
  | nil => intro k hk; cases hk
  | skip x _ ih => intro k hk; obtain ⟨y, hy, hky⟩ := ih k hk; exact ⟨y, List.mem_cons_of_mem _ hy, hky⟩
  | copy k hk _ ih =>
    intro k' hk'
    rcases List.mem_cons.mp hk' with e | e
    · subst e; exact ⟨_, List.mem_cons_self, hk⟩
    · exact ih k' e

/-- the expansion of a list sorted by timestamp is sorted by timestamp -/
theorem Blow.sorted {l p} (h : Blow l p) (hp : p.Pairwise (fun a b => b.ts ≤ a.ts)) :
    l.Pairwise (fun a b => b.2.2 ≤ a.2.2) := by
  induction h with
  | nil => exact List.Pairwise.nil
  | skip x _ ih => exact ih (List.Pairwise.of_cons hp)
  | @copy l p x k hk hb ih =>
    refine List.Pairwise.cons ?_ (ih hp)
    intro k' hk'
    obtain ⟨y, hy, hky⟩ := hb.mem k' hk'
    rw [hk.2.1, hky.2.1]
    rcases List.mem_cons.mp hy with e | e
    · subst e; exact Nat.le_refl _
    · exact (List.pairwise_cons.mp hp).1 y e

/-- a pop: the new writes (all of the popped statement) go in front -/
theorem Blow.pop {l p} (h : Blow l p) (x : Stmt) : ∀ (new : List (Nat × Nat × Nat)), (∀ k ∈ new, keyOf k x) →
    Blow (new ++ l) (x :: p)
  | [], _ => Blow.skip x h
  | k :: rest, hn =>
    Blow.copy k (hn k List.mem_cons_self) (Blow.pop h x rest (fun k' hk' => hn k' (List.mem_cons_of_mem _ hk')))

/-! ### what the processing of one event appends -/

/-- `s'` has the history of `s` plus events whose ordinary writes all belong to `st` -/
def WExt (st : Stmt) (s s' : BSt) : Prop := ∃ evs, s'.log = evs ++ s.log ∧ ∀ k ∈ wkeys evs, keyOf k st

/-- `s'` has the history of `s` plus events none of which is an ordinary write -/
def NExt (s s' : BSt) : Prop := ∃ evs, s'.log = evs ++ s.log ∧ wkeys evs = []

theorem NExt.refl (s : BSt) : NExt s s := ⟨[], rfl, rfl⟩
theorem NExt.trans {a b c : BSt} (h1 : NExt a b) (h2 : NExt b c) : NExt a c := by
  obtain ⟨e1, he1, hn1⟩ := h1
  obtain ⟨e2, he2, hn2⟩ := h2
  exact ⟨e2 ++ e1, by rw [he2, he1, List.append_assoc], by rw [wkeys_append, hn1, hn2]; rfl⟩
theorem NExt.wext {s s' : BSt} (h : NExt s s') (st : Stmt) : WExt st s s' := by
  obtain ⟨e, he, hn⟩ := h
  exact ⟨e, he, by rw [hn]; intro k hk; cases hk⟩
theorem WExt.trans {st : Stmt} {a b c : BSt} (h1 : WExt st a b) (h2 : WExt st b c) : WExt st a c := by
  obtain ⟨e1, he1, hn1⟩ := h1
  obtain ⟨e2, he2, hn2⟩ := h2
  refine ⟨e2 ++ e1, by rw [he2, he1, List.append_assoc], ?_⟩
  intro k hk
  rw [wkeys_append] at hk
  rcases List.mem_append.mp hk with h | h
  · exact hn2 k h
  · exact hn1 k h
theorem NExt.emit (s : BSt) (e : Ev) (h : isWriteEv e = false) : NExt s (s.emit e) :=
  ⟨[e], rfl, wkeys_nowrite (by simpa using h)⟩
theorem NExt.of_frame {s s' : BSt} (f : Frame s s') : NExt s s' := by
  obtain ⟨evs, he, hn⟩ := f.log
  exact ⟨evs, he, wkeys_nowrite hn⟩

theorem writeToSinks_wext (st : Stmt) : ∀ (sids : List Nat) (s : BSt),
    ∃ evs, (writeToSinks s st sids).1.log = evs ++ s.log ∧ ∀ k ∈ wkeys evs, keyOf k st
  | [], s => ⟨[], rfl, by intro k hk; cases hk⟩
  | x :: rest, s => by
    unfold writeToSinks
    dsimp only
    split
    · split
      · exact ⟨[.wthrow x st.id], rfl, by intro k hk; simp [wkeys, ordKey] at hk⟩
      · obtain ⟨evs, he, hn⟩ := writeToSinks_wext st rest
          ((s.setSink x (fun _ => { s.sinkOf x with wcalls := (s.sinkOf x).wcalls + 1 })).emit
            (.write x st.id st.lvl st.ts st.named))
        refine ⟨evs ++ [.write x st.id st.lvl st.ts st.named], ?_, ?_⟩
        · rw [he]; simp [BSt.emit, BSt.setSink]
        · intro k hk
          rw [wkeys_append] at hk
          rcases List.mem_append.mp hk with h | h
          · exact hn k h
          · by_cases hl : st.lvl = 9
            · simp [wkeys, ordKey, hl] at h
            · simp only [wkeys, List.filterMap_cons, ordKey, if_neg hl, List.filterMap_nil, List.mem_singleton] at h
              subst h
              exact ⟨rfl, rfl, hl⟩
    · exact writeToSinks_wext st rest s

theorem dispatch_wext (s : BSt) (st : Stmt) : WExt st s (dispatch s st).1 := writeToSinks_wext st _ s

/-- a dispatch of a backtrace-level statement appends no ordinary write -/
theorem dispatch_next9 (s : BSt) (x : Stmt) (h : x.lvl = 9) : NExt s (dispatch s x).1 := by
  obtain ⟨evs, he, hn⟩ := dispatch_wext s x
  refine ⟨evs, he, ?_⟩
  cases hw : wkeys evs with
  | nil => rfl
  | cons k _ => exact absurd h (hn k (by rw [hw]; exact List.mem_cons_self)).2.2

theorem replayGo_next : ∀ (l : List Stmt) (s : BSt), (∀ x ∈ l, x.lvl = 9) → NExt s (replayRing.go s l).1
  | [], s, _ => NExt.refl s
  | x :: xs, s, h => by
    unfold replayRing.go
    dsimp only
    have h1 := dispatch_next9 s x (h x List.mem_cons_self)
    have hxs : ∀ y ∈ xs, y.lvl = 9 := fun y hy => h y (List.mem_cons_of_mem _ hy)
    split
    · split
      · exact (h1.trans (NExt.emit _ _ rfl)).trans (replayGo_next xs _ hxs)
      · exact h1
    · exact h1.trans (replayGo_next xs _ hxs)

theorem replayRing_next {s : BSt} (h : RingOK s) (lgi : Nat) : NExt s (replayRing s lgi).1 := by
  unfold replayRing
  split
  · exact NExt.refl s
  · next r hr =>
    dsimp only
    have h1 := replayGo_next r.replay s (ring_replay_lvl (h lgi r hr))
    split
    · exact h1
    · obtain ⟨evs, he, hn⟩ := h1
      exact ⟨evs, he, hn⟩

/-- **one processed event**: every ordinary write it appends to the history is a write of that event, and only an
    ordinary statement (`Event::Log` below the backtrace level) gets any -/
theorem processEvent_wext {s : BSt} (h : RingOK s) (st : Stmt) : WExt st s (processEvent s st).1 := by
  unfold processEvent
  split
  · split
    · dsimp only
      have hd := dispatch_wext s st
      have hR : RingOK (dispatch s st).1 :=
        h.of_bt (fun i => by rw [dispatch, lgOf_of_lgs (writeToSinks_lgs st _ s)])
      split
      · exact hd
      · split
        · exact hd.trans ((replayRing_next hR st.lg).wext st)
        · exact hd
    · split
      · exact (NExt.refl s).wext st
      · exact (NExt.refl s).wext st
  · exact (NExt.refl s).wext st
  · exact (replayRing_next h st.lg).wext st
  · exact (NExt.of_frame (flushSinks_frame s)).wext st
  · exact (NExt.refl s).wext st

/-! ### the invariant -/

structure InvO (s : BSt) : Prop where
  ring : RingOK s
  blow : Blow (wkeys s.log) s.popLog

theorem InvO.mono {s s' : BSt} (h : InvO s) (hr : RingOK s') (hlog : NExt s s') (hpop : s'.popLog = s.popLog) :
    InvO s' := by
  obtain ⟨evs, he, hn⟩ := hlog
  refine ⟨hr, ?_⟩
  rw [he, wkeys_append, hn, hpop]
  exact h.blow

theorem InvO.of_eq {s s' : BSt} (h : InvO s) (h1 : s'.log = s.log) (h2 : s'.popLog = s.popLog) (h3 : s'.lgs = s.lgs) :
    InvO s' :=
  h.mono (h.ring.of_bt (fun i => by simp [BSt.lgOf, h3])) ⟨[], by simpa using h1, rfl⟩ h2

theorem InvO.pop {s : BSt} (h : InvO s) (i : Nat) (st : Stmt) (rest : List Stmt) : InvO (popStep s i st rest) := by
  unfold popStep
  dsimp only
  have hc := processEvent_core s st
  have hR := (processEvent_w h.ring st 0 0).2
  obtain ⟨evs, he, hn⟩ := processEvent_wext h.ring st
  have key : ∀ s2 : BSt, RingOK s2 → (∃ evs, s2.log = evs ++ s.log ∧ ∀ k ∈ wkeys evs, keyOf k st) →
      s2.popLog = s.popLog →
      InvO { s2.setTh i (fun t => { t with buf := rest, popped := t.popped ++ [st] }) with popLog := st :: s2.popLog } := by
    intro s2 hR2 ⟨ev2, he2, hn2⟩ hp
    refine ⟨fun j r hr => hR2 j r hr, ?_⟩
    show Blow (wkeys s2.log) (st :: s2.popLog)
    rw [he2, wkeys_append, hp]
    exact h.blow.pop st _ hn2
  split
  · refine key _ (fun j r hr => hR j r hr) ⟨_ :: evs, by show _ :: (processEvent s st).1.log = _; rw [he]; rfl, ?_⟩ hc.popLog
    intro k hk
    exact hn k (by simpa [wkeys, ordKey] using hk)
  · exact key _ hR ⟨evs, he, hn⟩ hc.popLog

theorem InvO.closed : Closed InvO where
  frame := fun _ _ h f => h.mono (h.ring.of_bt (fun i => (f.lgs i).2.2)) (NExt.of_frame f) f.popLog
  refresh := fun s h => by
    unfold refreshCache; split
    · exact h.of_eq rfl rfl rfl
    · exact h
  ctxEmpty := fun _ _ h => h.of_eq rfl rfl rfl
  dropCtx := fun _ _ h _ _ _ => h.of_eq rfl rfl rfl
  prepRead := fun _ _ h => h.of_eq rfl rfl rfl
  commitRead := fun _ _ h => h.of_eq rfl rfl rfl
  readOne := fun s i st rest h _ _ => by
    unfold PA.readOne
    dsimp only
    split <;> exact h.of_eq rfl rfl rfl
  pop := fun _ i st rest h _ => h.pop i st rest
  failReset := fun s i h _ => by
    unfold PA.failReset
    exact h.mono (h.ring.of_bt (fun _ => rfl)) ⟨[_], rfl, wkeys_nowrite (by simp [isWriteEv])⟩ rfl
  front := fun s f h => by
    have ff := applyFront_ffr s f
    refine h.mono ?_ ?_ ff.popLog
    · intro i r hr
      by_cases hi : i < s.lgs.length
      · exact h.ring i r ((ff.lgsOld i hi).2.2 ▸ hr)
      · rw [ff.lgsNew i (by omega)] at hr; cases hr
    · obtain ⟨evs, he, hn⟩ := ff.log
      exact ⟨evs, he, wkeys_nowrite hn⟩

/-- a state with an empty history and an empty pop history whose backtrace rings hold only backtrace statements -/
theorem InvO.start {s : BSt} (hr : RingOK s) (hl : s.log = []) (hp : s.popLog = []) : InvO s :=
  ⟨hr, by rw [hl, hp]; exact Blow.nil⟩

theorem InvO.run {s : BSt} (h : InvO s) (ops : List Op) : InvO (runOps s ops) := runOps_closed InvO.closed ops s h

end Backend.PA
