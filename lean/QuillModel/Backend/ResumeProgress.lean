import QuillModel.Backend.FlushGate
import QuillModel.Backend.FlushProgress
/-!
# A drained queue is published, and a published drained queue grants (C09 on the backend model)

`Pub t`: once the reader has consumed every record of the context, the reader position it *published* (the newest
value of `rHist`, which is what a producer reload returns) is its reader position. With the drain rule of
`commit_read` (`qp.drainPublish`, extracted) this is what every `commit_read` at the end of a read establishes; the
lemmas here carry it through a poll whose hook sites run no frontend operation, and derive the grant.
-/
namespace Backend.PB
open Backend

/-! ### the queue calls and the published reader position -/

theorem qPrepareRead_rh (c : Cfg) (q : Spsc.St) : (qPrepareRead c q).1.rHist = q.rHist := by
  simp only [qPrepareRead, Spsc.absApi, Spsc.apiOps]
  split <;> simp [Spsc.run, Spsc.step]

theorem qEmpty_rh (c : Cfg) (q : Spsc.St) : (qEmpty c q).1.rHist = q.rHist := by
  simp only [qEmpty, Spsc.absApi, Spsc.apiOps]
  split <;> simp [Spsc.run, Spsc.step]

theorem qFinishRead_rh (c : Cfg) (q : Spsc.St) (n : Nat) : (qFinishRead c q n).rHist = q.rHist := by
  simp [qFinishRead, Spsc.absApi, Spsc.apiOps, Spsc.run, Spsc.step]

/-- `commit_read()` with the drain rule: if the reader has caught up with the writer position it knows, it publishes -/
theorem qCommitRead_pub (c : Cfg) (q : Spsc.St) (hdp : c.qp.drainPublish = true) (hw : q.wcache = q.rpos) :
    (qCommitRead c q).rHist.headD 0 = q.rpos := by
  have hp : Spsc.publishes c.qp q = true := by simp [Spsc.publishes, hdp, hw]
  simp [qCommitRead, Spsc.absApi, Spsc.apiOps, Spsc.run, Spsc.step, hp]

/-- a producer whose reload returns the writer position (nothing unread, everything published) is granted every
    request that fits the capacity -/
theorem qPrepareWrite_grant (c : Cfg) (q : Spsc.St) (n : Nat) (h1 : q.rHist.headD 0 = q.wpos) (hn : n ≤ q.cap) :
    (qPrepareWrite c q n).2 = true := by
  simp only [qPrepareWrite, Spsc.absApi, Spsc.apiOps, Spsc.apiObs]
  by_cases hf : q.free < n
  · simp only [if_pos hf, Spsc.run, Spsc.step]
    rw [if_neg]
    simp only [Spsc.St.free, h1]
    omega
  · simp only [if_neg hf, Spsc.run]

/-! ### `Pub` -/

/-- nothing left to read ⇒ the published reader position is the reader position -/
def Pub (t : Th) : Prop := t.qStmts = [] → t.q.rHist.headD 0 = t.q.rpos

end Backend.PB
namespace Backend
/-- the reads of context `i` have been committed: if nothing is left to read, the reader position has been published
    (`rHist` is the history of published reader positions, newest first). Every read of a queue that consumed
    something ends with `commit_read`, so this holds in every state between two operations of a schedule
    (`PB.readsCommitted_runOps`, `Backend/PubInv.lean`). -/
def ReadsCommitted (s : BSt) (i : Nat) : Prop :=
  (s.th i).qStmts = [] → (s.th i).q.rHist.headD 0 = (s.th i).q.rpos
end Backend
namespace Backend.PB
open Backend

/-- the fields `Pub` reads -/
structure ThQ (t t' : Th) : Prop where
  rh : t'.q.rHist = t.q.rHist
  rpos : t'.q.rpos = t.q.rpos
  q : t'.qStmts = t.qStmts

theorem ThQ.refl (t : Th) : ThQ t t := ⟨rfl, rfl, rfl⟩
theorem ThQ.trans {a b c : Th} (h1 : ThQ a b) (h2 : ThQ b c) : ThQ a c :=
  ⟨h2.rh.trans h1.rh, h2.rpos.trans h1.rpos, h2.q.trans h1.q⟩
theorem ThQ.pub {t t' : Th} (h : ThQ t t') (hp : Pub t) : Pub t' := by
  intro he; rw [h.rh, h.rpos]; exact hp (by rw [← h.q]; exact he)

/-- `s'` is reached from `s` by steps that touch no reader position, published position, queue content or actor -/
structure QF (s s' : BSt) : Prop where
  act : s'.actors = s.actors
  th : ∀ j, ThQ (s.th j) (s'.th j)

theorem QF.refl (s : BSt) : QF s s := ⟨rfl, fun _ => ThQ.refl _⟩
theorem QF.trans {a b c : BSt} (h1 : QF a b) (h2 : QF b c) : QF a c :=
  ⟨h2.act.trans h1.act, fun j => (h1.th j).trans (h2.th j)⟩
theorem QF.ofThs {s s' : BSt} (h : s'.ths = s.ths) (ha : s'.actors = s.actors) : QF s s' := ⟨ha, fun j => by
  have : s'.th j = s.th j := by simp only [BSt.th, h]
  rw [this]; exact ThQ.refl _⟩
theorem QF.quiet {inj : BSt → Nat → BSt} (hq : Quiet inj) (s : BSt) (k : Nat) : QF s (inj s k) := by
  obtain ⟨x, hx⟩ := hq s k
  rw [hx]; exact QF.ofThs rfl rfl
theorem QF.setTh (s : BSt) (i : Nat) (f : Th → Th) (hf : ThQ (s.th i) (f (s.th i))) : QF s (s.setTh i f) := by
  refine ⟨rfl, fun j => ?_⟩
  rcases th_setTh_cases s i j f with h1 | ⟨rfl, _, h1⟩
  · rw [h1]; exact ThQ.refl _
  · rw [h1]; exact hf
theorem QF.setTh_of (s S : BSt) (h : S.ths = s.ths) (ha : S.actors = s.actors) (i : Nat) (g : Th → Th)
    (hg : ∀ t, ThQ t (g t)) : QF s (S.setTh i g) :=
  (QF.ofThs h ha).trans (QF.setTh S i g (hg _))
theorem SLOL.qf {s s' : BSt} (h : SLOL s s') : QF s s' :=
  QF.ofThs (congrArg Core2.ths h.core2) (congrArg Core2.actors h.core2)

theorem qf_flushGate {inj : BSt → Nat → BSt} (hq : Quiet inj) (s : BSt) (n : Nat) : QF s (Backend.flushGate inj s n) := by
  rcases flushGate_cases inj s n with ⟨_, e⟩ | ⟨_, e⟩ | ⟨_, e⟩ <;> rw [e]
  · exact (slol_flushSinks _).qf
  · exact QF.quiet hq s 7
  · have h1 : QF (inj s 7) { inj s 7 with lastFlush := (inj s 7).now } := QF.ofThs rfl rfl
    exact ((QF.quiet hq s 7).trans h1).trans (slol_flushSinks _).qf

theorem qf_preEraseFlush (s : BSt) : QF s (Backend.preEraseFlush s) := by
  unfold Backend.preEraseFlush
  split
  · exact (slol_flushSinks _).qf
  · exact QF.refl _

/-! ### reading a queue under a quiet runner -/

variable {inj : BSt → Nat → BSt}

theorem quiet_th (hq : Quiet inj) (s : BSt) (k j : Nat) : (inj s k).th j = s.th j := by
  obtain ⟨x, hx⟩ := hq s k; rw [hx]; rfl
theorem quiet_cfg (hq : Quiet inj) (s : BSt) (k : Nat) : (inj s k).cfg = s.cfg := by
  obtain ⟨x, hx⟩ := hq s k; rw [hx]
theorem quiet_len (hq : Quiet inj) (s : BSt) (k : Nat) : (inj s k).ths.length = s.ths.length := by
  obtain ⟨x, hx⟩ := hq s k; rw [hx]

theorem rqPrep_th (s : BSt) (i : Nat) (hlt : i < s.ths.length) :
    (rqPrep s i).th i = { s.th i with q := (qPrepareRead s.cfg (s.th i).q).1 } := by
  unfold rqPrep; rw [th_setTh_same s _ hlt]

theorem rqCommit_th (s : BSt) (i : Nat) (hlt : i < s.ths.length) :
    (rqCommit s i).th i = { s.th i with q := qCommitRead s.cfg (s.th i).q } := by
  unfold rqCommit; rw [th_setTh_same s _ hlt]

theorem rqMove_th (s : BSt) (i : Nat) (st : Stmt) (rest : List Stmt) (hlt : i < s.ths.length) :
    (rqMove s i st rest).th i = { s.th i with q := qFinishRead s.cfg (qPrepareRead s.cfg (s.th i).q).1 st.size,
                                              qStmts := rest, buf := (s.th i).buf ++ [st] } := by
  have e1 : (rqDecode (rqPrep s i) st).th i = (rqPrep s i).th i := by simp only [BSt.th, rqDecode_ths]
  have e2 : (rqDecode (rqPrep s i) st).cfg = s.cfg := by unfold rqDecode; split <;> rfl
  have hl : i < (rqDecode (rqPrep s i) st).ths.length := by
    rw [rqDecode_ths]; unfold rqPrep; rw [length_setTh]; exact hlt
  rw [rqMove_th_eq]
  unfold PB.rqMove0
  rw [th_setTh_same _ _ hl, e1, e2, rqPrep_th s i hlt]

theorem rqMove_cfg (s : BSt) (i : Nat) (st : Stmt) (rest : List Stmt) : (rqMove s i st rest).cfg = s.cfg := by
  rw [(rqMove_proj s i st rest).2.1]
  unfold PB.rqMove0 rqDecode; split <;> rfl

theorem rqMove_len (s : BSt) (i : Nat) (st : Stmt) (rest : List Stmt) : (rqMove s i st rest).ths.length = s.ths.length := by
  rw [(rqMove_proj s i st rest).1]
  unfold PB.rqMove0; rw [length_setTh, rqDecode_ths]; unfold rqPrep; rw [length_setTh]

/-- the coupling after one record was moved to the buffer -/
theorem qc_move (c : Cfg) (t : Th) (st : Stmt) (rest : List Stmt) (hqc : QC t) (hq : t.qStmts = st :: rest)
    (hrd : (qPrepareRead c t.q).2 = true) :
    QC { t with q := qFinishRead c (qPrepareRead c t.q).1 st.size, qStmts := rest, buf := t.buf ++ [st] } := by
  have p := qPrepareRead_fields c t.q
  have f := qFinishRead_fields c (qPrepareRead c t.q).1 st.size
  have hne := qPrepareRead_true c t.q hrd
  have hqc1 : QC { t with q := (qPrepareRead c t.q).1 } := (ThEq.ofQ t _ p).qc hqc
  refine ⟨?_, ?_, ?_, ?_⟩
  · show (qFinishRead c _ _).wpos = (qFinishRead c _ _).wHist.headD 0
    rw [f.1, f.2.1]; exact hqc1.wpos
  · show (qFinishRead c _ _).wHist.headD 0 = (qFinishRead c _ _).rpos + (rest.map (·.size)).sum
    rw [f.2.1, f.2.2.1]
    have := hqc1.sum
    simp only [hq, List.map_cons, List.sum_cons] at this
    rw [this]; omega
  · intro r hr; exact hqc.pos r (by rw [hq]; exact List.mem_cons_of_mem _ hr)
  · obtain ⟨k, hk, hw⟩ := hqc1.wc
    cases k with
    | zero => exfalso; apply hne; rw [hw]; simp
    | succ k =>
      simp only [hq] at hk hw
      refine ⟨k, by simpa using hk, ?_⟩
      show (qFinishRead c _ _).wcache = (qFinishRead c _ _).rpos + _
      rw [f.2.2.2.1, f.2.2.1, hw]; simp; omega

/-- a `commit_read` with nothing left to read publishes -/
theorem pub_commit (c : Cfg) (t : Th) (hqc : QC t) (hdp : c.qp.drainPublish = true) :
    Pub { t with q := qCommitRead c t.q } := by
  intro he
  have he' : t.qStmts = [] := he
  obtain ⟨k, _, hw⟩ := hqc.wc
  rw [he'] at hw
  simp only [List.take_nil, List.map_nil, List.sum_nil, Nat.add_zero] at hw
  show (qCommitRead c t.q).rHist.headD 0 = (qCommitRead c t.q).rpos
  rw [(qCommitRead_fields c t.q).2.2.1]
  exact qCommitRead_pub c t.q hdp hw

theorem pub_rqCommit (s : BSt) (i : Nat) (hlt : i < s.ths.length) (hqc : QC (s.th i))
    (hdp : s.cfg.qp.drainPublish = true) : Pub ((rqCommit s i).th i) := by
  rw [rqCommit_th s i hlt]; exact pub_commit _ _ hqc hdp

theorem pub_rqFin (s : BSt) (i total : Nat) (hlt : i < s.ths.length) (hqc : QC (s.th i))
    (hdp : s.cfg.qp.drainPublish = true) (hp : total = 0 → Pub (s.th i)) : Pub ((rqFin s i total).th i) := by
  unfold rqFin; split
  · exact pub_rqCommit s i hlt hqc hdp
  · rename_i h0; exact hp (by simpa using h0)

/-- the end of a read that moved nothing in this iteration -/
theorem pub_fin (s : BSt) (i total : Nat) (hlt : i < s.ths.length) (hqc : QC (s.th i))
    (hdp : s.cfg.qp.drainPublish = true) (hp : total = 0 → Pub (s.th i)) : Pub ((rqFin (rqPrep s i) i total).th i) := by
  have hs := same_rqPrep s i
  refine pub_rqFin _ i total (by rw [hs.len]; exact hlt) ((hs.th i).qc hqc) (by rw [hs.cfg]; exact hdp) (fun h0 => ?_)
  rw [rqPrep_th s i hlt]
  exact ThQ.pub ⟨qPrepareRead_rh _ _, (qPrepareRead_fields _ _).2.2.1, rfl⟩ (hp h0)

/-- the coupling survives a read (quiet runner) -/
theorem qc_readQueue (hq : Quiet inj) (tsNow : Option Nat) (i : Nat) (fuel : Nat) :
    ∀ (total : Nat) (s : BSt), i < s.ths.length → QC (s.th i) →
      QC ((Backend.readQueue inj tsNow i fuel total s).th i) := by
  induction fuel with
  | zero => intro total s _ h; rw [readQueue_zero]; exact ((same_rqFin s i total).th i).qc h
  | succ n ih =>
    intro total s hlt hqc
    rw [readQueue_succ]
    have hfin : ∀ tot, QC ((rqFin (rqPrep s i) i tot).th i) := fun tot =>
      (((same_rqPrep s i).trans (same_rqFin _ i tot)).th i).qc hqc
    split
    · exact hfin total
    · rename_i hrd
      have hrd' : (qPrepareRead s.cfg (s.th i).q).2 = true := by simpa using hrd
      split
      · exact hfin total
      · rename_i st rest hqs
        split
        · exact hfin total
        · have hm : QC ((inj (rqMove s i st rest) 3).th i) := by
            rw [quiet_th hq, rqMove_th s i st rest hlt]; exact qc_move _ _ st rest hqc hqs hrd'
          have hl3 : i < (inj (rqMove s i st rest) 3).ths.length := by rw [quiet_len hq, rqMove_len]; exact hlt
          split
          · exact ih _ _ hl3 hm
          · exact ((same_rqCommit _ i).th i).qc hm

/-- **reading a context under a quiet runner ends published**, if it started published (or moves a record) -/
theorem pub_readQueue (hq : Quiet inj) (tsNow : Option Nat) (i : Nat) (fuel : Nat) :
    ∀ (total : Nat) (s : BSt), i < s.ths.length → s.cfg.qp.drainPublish = true → QC (s.th i) →
      (s.th i).qStmts.length < fuel → (total = 0 → Pub (s.th i)) →
      Pub ((Backend.readQueue inj tsNow i fuel total s).th i) := by
  induction fuel with
  | zero => intro total s _ _ _ hf; exact absurd hf (Nat.not_lt_zero _)
  | succ n ih =>
    intro total s hlt hdp hqc hf hp
    rw [readQueue_succ]
    split
    · exact pub_fin s i total hlt hqc hdp hp
    · rename_i hrd
      have hrd' : (qPrepareRead s.cfg (s.th i).q).2 = true := by simpa using hrd
      split
      · exact pub_fin s i total hlt hqc hdp hp
      · rename_i st rest hqs
        split
        · exact pub_fin s i total hlt hqc hdp hp
        · have hm : QC ((inj (rqMove s i st rest) 3).th i) := by
            rw [quiet_th hq, rqMove_th s i st rest hlt]; exact qc_move _ _ st rest hqc hqs hrd'
          have hl3 : i < (inj (rqMove s i st rest) 3).ths.length := by rw [quiet_len hq, rqMove_len]; exact hlt
          have hd3 : (inj (rqMove s i st rest) 3).cfg.qp.drainPublish = true := by rw [quiet_cfg hq, rqMove_cfg]; exact hdp
          split
          · apply ih _ _ hl3 hd3 hm
            · rw [quiet_th hq, rqMove_th s i st rest hlt]
              show rest.length < n
              rw [hqs] at hf; simp at hf; omega
            · intro h0
              have := hqc.pos st (by rw [hqs]; exact List.mem_cons_self ..)
              omega
          · exact pub_rqCommit _ i hl3 hm hd3

/-- reading context `i` does not touch any other context (quiet runner) -/
theorem readQueue_other (hq : Quiet inj) (tsNow : Option Nat) (i j : Nat) (hj : j ≠ i) (fuel : Nat) :
    ∀ (total : Nat) (s : BSt), (Backend.readQueue inj tsNow i fuel total s).th j = s.th j := by
  have hprep : ∀ s : BSt, (rqPrep s i).th j = s.th j := fun s => by unfold rqPrep; exact th_setTh_ne s _ hj
  have hcom : ∀ s : BSt, (rqCommit s i).th j = s.th j := fun s => by unfold rqCommit; exact th_setTh_ne s _ hj
  have hfin : ∀ (s : BSt) total, (rqFin (rqPrep s i) i total).th j = s.th j := fun s total => by
    unfold rqFin; split
    · rw [hcom, hprep]
    · exact hprep s
  have hmove : ∀ (s : BSt) st rest, (rqMove s i st rest).th j = s.th j := fun s st rest => by
    rw [rqMove_th_eq]
    unfold PB.rqMove0
    rw [th_setTh_ne _ _ hj]
    have : (rqDecode (rqPrep s i) st).th j = (rqPrep s i).th j := by simp only [BSt.th, rqDecode_ths]
    rw [this, hprep]
  induction fuel with
  | zero =>
    intro total s; rw [readQueue_zero]; unfold rqFin; split
    · exact hcom s
    · rfl
  | succ n ih =>
    intro total s
    rw [readQueue_succ]
    split
    · exact hfin s total
    · split
      · exact hfin s total
      · rename_i st rest hqs
        split
        · exact hfin s total
        · split
          · rw [ih, quiet_th hq, hmove]
          · rw [hcom, quiet_th hq, hmove]

end Backend.PB

namespace Backend.PB
open Backend

variable {inj : BSt → Nat → BSt}

/-! ### the rest of a quiet poll keeps reader position, published position and queue content -/

theorem qf_refresh (s : BSt) : QF s (refreshCache s) := by
  unfold refreshCache; split
  · exact QF.ofThs rfl rfl
  · exact QF.refl _

theorem qf_fold {α} (F : BSt → α → BSt) (hF : ∀ s x, QF s (F s x)) (l : List α) (s : BSt) : QF s (l.foldl F s) := by
  induction l generalizing s with
  | nil => exact QF.refl _
  | cons x xs ih => rw [List.foldl_cons]; exact (hF s x).trans (ih _)

theorem qf_fold_pair {α β} (F : BSt × β → α → BSt × β) (l : List α) (acc : BSt × β)
    (hF : ∀ acc x, QF acc.1 (F acc x).1) : QF acc.1 (l.foldl F acc).1 := by
  induction l generalizing acc with
  | nil => exact QF.refl _
  | cons x xs ih => rw [List.foldl_cons]; exact (hF acc x).trans (ih _)

theorem qf_checkFailures (hq : Quiet inj) (s : BSt) : QF s (Backend.checkFailures inj s) := by
  unfold Backend.checkFailures
  apply qf_fold
  intro b i
  simp only
  split
  · refine QF.trans ?_ (QF.quiet hq _ 8)
    exact (QF.setTh b i _ ⟨rfl, rfl, rfl⟩).trans (QF.ofThs rfl rfl)
  · exact QF.refl _

theorem qf_ctxEmpty (s : BSt) (i : Nat) : QF s (ctxEmpty s i).1 := by
  unfold ctxEmpty
  exact QF.setTh s i _ ⟨qEmpty_rh _ _, (qEmpty_fields _ _).2.2.1, rfl⟩

theorem qf_allEmpty (s : BSt) : QF s (Backend.allEmpty s).1 := by
  unfold Backend.allEmpty
  exact (qf_refresh s).trans (qf_fold_pair _ _ (refreshCache s, true) (fun acc x => qf_ctxEmpty acc.1 x))

theorem qf_hpStep (acc : BSt × Bool) (i : Nat) : QF acc.1 (hpStep acc i).1 := by
  unfold hpStep
  split
  · exact QF.refl _
  · split
    · exact QF.setTh _ _ _ ⟨qEmpty_rh _ _, (qEmpty_fields _ _).2.2.1, rfl⟩
    · exact QF.refl _

theorem qf_hasPending (s : BSt) : QF s (Backend.hasPending s).1 := by
  rw [hasPending_eq]
  exact (qf_refresh s).trans (qf_fold_pair _ _ (refreshCache s, false) qf_hpStep)

theorem qf_findFirst (s : BSt) (l : List Nat) : QF s (cleanupContexts.go.findFirst s l).1 := by
  induction l generalizing s with
  | nil => exact QF.refl _
  | cons x xs ih =>
    unfold cleanupContexts.go.findFirst
    split
    · exact ih s
    · simp only
      split
      · exact qf_ctxEmpty s x
      · exact (qf_ctxEmpty s x).trans (ih _)

theorem qf_cleanupGo (fuel : Nat) (s : BSt) : QF s (cleanupContexts.go fuel s) := by
  induction fuel generalizing s with
  | zero => exact QF.refl _
  | succ n ih =>
    unfold cleanupContexts.go
    have f1 := qf_findFirst s s.cache
    split
    · rename_i s1 heq; rw [heq] at f1; exact f1
    · rename_i s1 i heq; rw [heq] at f1
      refine f1.trans (QF.trans ?_ (ih _))
      apply QF.setTh_of
      · rfl
      · rfl
      · intro t; exact ⟨rfl, rfl, rfl⟩

theorem qf_cleanupContexts (s : BSt) : QF s (Backend.cleanupContexts s) := by
  unfold Backend.cleanupContexts
  split
  · exact QF.refl _
  · exact qf_cleanupGo _ _

theorem qf_reapSinksInj (hq : Quiet inj) (l : List Nat) (s : BSt) : QF s (reapSinksInj inj s l) := by
  unfold Backend.reapSinksInj
  apply qf_fold
  intro b sid
  split
  · refine QF.trans ?_ (QF.quiet hq _ 9)
    exact QF.ofThs rfl rfl
  · exact QF.refl _

theorem qf_cleanupLoggers (hq : Quiet inj) (s : BSt) : QF s (Backend.cleanupLoggers inj s) := by
  unfold Backend.cleanupLoggers
  split
  · exact QF.refl _
  · simp only
    refine QF.trans ?_ (qf_fold _ ?_ _ _)
    · refine QF.trans (QF.ofThs (s' := { s with hasInvalidLoggers := false }) rfl rfl) ?_
      refine qf_fold_pair _ _ ({ s with hasInvalidLoggers := false }, []) ?_
      intro acc i
      split
      · exact QF.refl _
      · split
        · refine (qf_allEmpty _).trans (QF.trans ?_ (qf_reapSinksInj hq _ _))
          exact QF.ofThs rfl rfl
        · exact (qf_allEmpty _).trans (QF.ofThs rfl rfl)
    · intro b a
      split
      · exact QF.ofThs rfl rfl
      · exact QF.refl _

theorem qf_plPop (s : BSt) (j : Nat) (st : Stmt) (rest : List Stmt) : QF s (plPop s j st rest) := by
  unfold plPop
  exact (QF.setTh s j (fun t => { t with buf := rest, popped := t.popped ++ [st] }) ⟨rfl, rfl, rfl⟩).trans (QF.ofThs rfl rfl)

theorem qf_processLowest (hq : Quiet inj) (s : BSt) : QF s (Backend.processLowest inj s).1 := by
  rw [processLowest_eq]
  cases lowest s with
  | none => exact QF.refl _
  | some j =>
    simp only
    cases (s.th j).buf with
    | nil => exact QF.refl _
    | cons st rest =>
      simp only
      have hsl : SLOL s (plNote (processEvent s st)) := by
        unfold plNote; split
        · exact (slol_processEvent s st).trans (SLOL.emit _ _)
        · exact slol_processEvent s st
      have f2 : QF s (plNote (processEvent s st)) := hsl.qf
      generalize plNote (processEvent s st) = s2 at f2
      have p1 := qf_plPop s2 j st rest
      split
      · rename_i f _
        have hpre : QF (plPop s2 j st rest) (plPre inj (plPop s2 j st rest)) := by
          unfold plPre
          refine QF.trans ?_ (qf_cleanupContexts _)
          split
          · exact qf_checkFailures hq _
          · exact QF.refl _
        exact ((f2.trans p1).trans hpre).trans
          (QF.ofThs (s := plPre inj (plPop s2 j st rest)) (s' := plFlag inj (plPop s2 j st rest) f) rfl rfl)
      · exact f2.trans p1

theorem qf_batchLoop (hq : Quiet inj) (fuel : Nat) : ∀ s, QF s (Backend.batchLoop inj fuel s) := by
  induction fuel with
  | zero => intro s; exact QF.refl _
  | succ n ih =>
    intro s
    unfold Backend.batchLoop
    simp only
    have f1 := qf_hasPending s
    split
    · exact f1
    · have p := qf_processLowest hq (Backend.hasPending s).1
      split
      · exact f1.trans p
      · exact (f1.trans p).trans ((QF.quiet hq _ 4).trans (ih _))

end Backend.PB

namespace Backend.PB
open Backend

variable {inj : BSt → Nat → BSt}

/-! ### a whole quiet pass, a whole quiet poll -/

/-- what the publication argument carries through a pass, for the context `ci` -/
structure PQ (ci : Nat) (s : BSt) : Prop where
  lt : ci < s.ths.length
  dp : s.cfg.qp.drainPublish = true
  qc : QC (s.th ci)
  pub : Pub (s.th ci)

theorem PQ.ofThs {ci : Nat} {s s' : BSt} (h : PQ ci s) (h1 : s'.ths = s.ths) (h2 : s'.cfg = s.cfg) : PQ ci s' := by
  have e : s'.th ci = s.th ci := by simp only [BSt.th, h1]
  exact ⟨by rw [h1]; exact h.lt, by rw [h2]; exact h.dp, by rw [e]; exact h.qc, by rw [e]; exact h.pub⟩

theorem PQ.quiet {ci : Nat} {s : BSt} (hq : Quiet inj) (h : PQ ci s) (k : Nat) : PQ ci (inj s k) := by
  obtain ⟨x, hx⟩ := hq s k; rw [hx]; exact h.ofThs rfl rfl

theorem PQ.refresh {ci : Nat} {s : BSt} (h : PQ ci s) : PQ ci (refreshCache s) := by
  unfold refreshCache; split
  · exact h.ofThs rfl rfl
  · exact h

theorem PQ.popStep {ci : Nat} (hq : Quiet inj) (tsNow : Option Nat) (acc : BSt × Nat) (x : Nat) (h : PQ ci acc.1) :
    PQ ci (PB.popStep inj tsNow acc x).1 := by
  have h1 := h.quiet hq 2
  have hfr := fr_readQueue hq tsNow x (((inj acc.1 2).th x).qStmts.length + 64) 0 (inj acc.1 2)
  show PQ ci (Backend.readQueue inj tsNow x (((inj acc.1 2).th x).qStmts.length + 64) 0 (inj acc.1 2))
  by_cases hx : x = ci
  · subst hx
    exact ⟨by rw [hfr.len]; exact h1.lt, by rw [hfr.cfg]; exact h1.dp,
      qc_readQueue hq tsNow x _ 0 _ h1.lt h1.qc,
      pub_readQueue hq tsNow x _ 0 _ h1.lt h1.dp h1.qc (by omega) (fun _ => h1.pub)⟩
  · have e := readQueue_other hq tsNow x ci (fun e => hx e.symm) (((inj acc.1 2).th x).qStmts.length + 64) 0 (inj acc.1 2)
    exact ⟨by rw [hfr.len]; exact h1.lt, by rw [hfr.cfg]; exact h1.dp, by rw [e]; exact h1.qc, by rw [e]; exact h1.pub⟩

theorem PQ.populate {ci : Nat} {s : BSt} (hq : Quiet inj) (h : PQ ci s) : PQ ci (Backend.populate inj s).1 := by
  rw [populate_eq]
  have ha : PQ ci (popA s) := by
    unfold popA; split
    · exact h
    · exact h.refresh
  have hb : PQ ci (popB inj s) := by
    unfold popB; split
    · exact ha
    · exact ha.quiet hq 7
  have hc : PQ ci (popC inj s) := by
    unfold popC; split
    · exact (hb.quiet hq 1).refresh
    · exact hb.quiet hq 1
  generalize (popC inj s).cache = l
  generalize tsNowOf (popB inj s) = tsNow
  have : ∀ acc : BSt × Nat, PQ ci acc.1 → PQ ci (l.foldl (PB.popStep inj tsNow) acc).1 := by
    induction l with
    | nil => intro acc h; exact h
    | cons x xs ih => intro acc h; rw [List.foldl_cons]; exact ih _ (PQ.popStep hq tsNow acc x h)
  exact this (popC inj s, 0) hc

/-- **One quiet poll** keeps the context published (with the drain rule). -/
theorem poll_pub {ci : Nat} {s : BSt} (hq : Quiet inj) (h : PQ ci s) : Pub ((Backend.poll inj s).th ci) := by
  have h1 := (PQ.populate hq h).pub
  unfold Backend.poll
  rcases hpop : Backend.populate inj s with ⟨s1, count⟩
  rw [hpop] at h1
  simp only at h1 ⊢
  split
  · split
    · exact ((qf_processLowest hq s1).th ci).pub h1
    · exact ((qf_batchLoop hq _ s1).th ci).pub h1
  · have a1 : QF s1 (Backend.allEmpty (Backend.checkFailures inj (Backend.flushGate inj (inj s1 5) (inj s1 5).cfg.flushInterval))).1 :=
      (((QF.quiet hq s1 5).trans (qf_flushGate hq _ _)).trans (qf_checkFailures hq _)).trans (qf_allEmpty _)
    split
    · exact ((((a1.trans (qf_cleanupContexts _)).trans (qf_preEraseFlush _)).trans (qf_cleanupLoggers hq _)).th ci).pub h1
    · exact (a1.th ci).pub h1

end Backend.PB

namespace Backend.PB
open Backend

variable {inj : BSt → Nat → BSt}

/-! ### the backend never touches an actor -/

theorem quiet_actors (hq : Quiet inj) (s : BSt) (k : Nat) : (inj s k).actors = s.actors := by
  obtain ⟨x, hx⟩ := hq s k; rw [hx]

theorem rqMove_actors (s : BSt) (i : Nat) (st : Stmt) (rest : List Stmt) : (rqMove s i st rest).actors = s.actors := by
  rw [(rqMove_proj s i st rest).2.2]
  unfold PB.rqMove0 rqDecode; split <;> rfl

theorem readQueue_actors (hq : Quiet inj) (tsNow : Option Nat) (i : Nat) (fuel : Nat) :
    ∀ (total : Nat) (s : BSt), (Backend.readQueue inj tsNow i fuel total s).actors = s.actors := by
  have hfin : ∀ (s : BSt) total, (rqFin (rqPrep s i) i total).actors = s.actors := fun s total => by
    unfold rqFin; split <;> rfl
  induction fuel with
  | zero => intro total s; rw [readQueue_zero]; unfold rqFin; split <;> rfl
  | succ n ih =>
    intro total s
    rw [readQueue_succ]
    split
    · exact hfin s total
    · split
      · exact hfin s total
      · rename_i st rest hqs
        split
        · exact hfin s total
        · split
          · rw [ih, quiet_actors hq, rqMove_actors]
          · show (inj (rqMove s i st rest) 3).actors = _
            rw [quiet_actors hq, rqMove_actors]

theorem refresh_actors (s : BSt) : (refreshCache s).actors = s.actors := by
  unfold refreshCache; split <;> rfl

theorem populate_actors (hq : Quiet inj) (s : BSt) : (Backend.populate inj s).1.actors = s.actors := by
  rw [populate_eq]
  have ha : (popA s).actors = s.actors := by
    unfold popA; split
    · rfl
    · exact refresh_actors s
  have hb : (popB inj s).actors = s.actors := by
    unfold popB; split
    · exact ha
    · rw [quiet_actors hq]; exact ha
  have hc : (popC inj s).actors = s.actors := by
    unfold popC; split
    · rw [refresh_actors, quiet_actors hq]; exact hb
    · rw [quiet_actors hq]; exact hb
  generalize (popC inj s).cache = l
  generalize tsNowOf (popB inj s) = tsNow
  have : ∀ acc : BSt × Nat, (l.foldl (PB.popStep inj tsNow) acc).1.actors = acc.1.actors := by
    induction l with
    | nil => intro acc; rfl
    | cons x xs ih =>
      intro acc; rw [List.foldl_cons, ih]
      show (Backend.readQueue inj tsNow x _ 0 (inj acc.1 2)).actors = _
      rw [readQueue_actors hq, quiet_actors hq]
  rw [this]; exact hc

theorem poll_actors (hq : Quiet inj) (s : BSt) : (Backend.poll inj s).actors = s.actors := by
  have h1 := populate_actors hq s
  unfold Backend.poll
  rcases hpop : Backend.populate inj s with ⟨s1, count⟩
  rw [hpop] at h1
  simp only at h1 ⊢
  split
  · split
    · rw [(qf_processLowest hq s1).act]; exact h1
    · rw [(qf_batchLoop hq _ s1).act]; exact h1
  · have a1 : QF s1 (Backend.allEmpty (Backend.checkFailures inj (Backend.flushGate inj (inj s1 5) (inj s1 5).cfg.flushInterval))).1 :=
      (((QF.quiet hq s1 5).trans (qf_flushGate hq _ _)).trans (qf_checkFailures hq _)).trans (qf_allEmpty _)
    split
    · rw [(((a1.trans (qf_cleanupContexts _)).trans (qf_preEraseFlush _)).trans (qf_cleanupLoggers hq _)).act]; exact h1
    · rw [a1.act]; exact h1

/-! ### a quiet continuation of the schedule -/

theorem quiet_applyOp_actors {s : BSt} (h : PG s) (o : Op) (ho : quietOp o = true) : (applyOp s o).1.actors = s.actors := by
  cases o with
  | front f =>
    cases f with
    | tick dt => rfl
    | _ => cases ho
  | poll table =>
    cases table with
    | cons x xs => cases ho
    | nil =>
      have e : (applyOp s (.poll [])).1 = Backend.poll (runInj []) { s with siteCnt := [] } := by
        simp only [applyOp, h.run]; rfl
      rw [e]
      exact poll_actors quiet_runInj_nil _
  | exit => cases ho

theorem quiet_applyOp_pub {s : BSt} (h : PG s) (o : Op) (ho : quietOp o = true) (ci : Nat) (hlt : ci < s.ths.length)
    (hdp : s.cfg.qp.drainPublish = true) (hp : Pub (s.th ci)) : Pub ((applyOp s o).1.th ci) := by
  cases o with
  | front f =>
    cases f with
    | tick dt => exact hp
    | _ => cases ho
  | poll table =>
    cases table with
    | cons x xs => cases ho
    | nil =>
      obtain ⟨fl, hI⟩ := h.gi
      have e : (applyOp s (.poll [])).1 = Backend.poll (runInj []) { s with siteCnt := [] } := by
        simp only [applyOp, h.run]; rfl
      rw [e]
      exact poll_pub quiet_runInj_nil ⟨hlt, hdp, hI.qc ci, hp⟩
  | exit => cases ho

theorem quiet_run_actors (ops : List Op) : ∀ s, PG s → (∀ o ∈ ops, quietOp o = true) →
    (runOps s ops).actors = s.actors := by
  induction ops with
  | nil => intro s _ _; rfl
  | cons o os ih =>
    intro s h hq
    have ho := hq o (List.mem_cons_self ..)
    obtain ⟨a1, _, _⟩ := quiet_applyOp h o ho
    have e : runOps s (o :: os) = runOps (applyOp s o).1 os := by simp [runOps]
    rw [e, ih (applyOp s o).1 a1 (fun o' ho' => hq o' (List.mem_cons_of_mem _ ho'))]
    exact quiet_applyOp_actors h o ho

theorem quiet_run_pub (ops : List Op) : ∀ s, PG s → (∀ o ∈ ops, quietOp o = true) → ∀ ci, ci < s.ths.length →
    s.cfg.qp.drainPublish = true → Pub (s.th ci) → Pub ((runOps s ops).th ci) := by
  induction ops with
  | nil => intro s _ _ ci _ _ hp; exact hp
  | cons o os ih =>
    intro s h hq ci hlt hdp hp
    have ho := hq o (List.mem_cons_self ..)
    obtain ⟨a1, a2, _⟩ := quiet_applyOp h o ho
    have p1 := quiet_applyOp_pub h o ho ci hlt hdp hp
    have e : runOps s (o :: os) = runOps (applyOp s o).1 os := by simp [runOps]
    rw [e]
    exact ih (applyOp s o).1 a1 (fun o' ho' => hq o' (List.mem_cons_of_mem _ ho')) ci
      (by rw [a2.len]; exact hlt) (by rw [a2.cfg]; exact hdp) p1

/-! ### the grant -/

theorem tryEnq_ok (s : BSt) (ci : Nat) (st : Stmt) :
    (Backend.tryEnq s ci st).2 = (qPrepareWrite s.cfg (s.th ci).q st.size).2 := by
  unfold Backend.tryEnq
  simp only
  split
  · rename_i h; rw [h]
  · rename_i h; simpa using h

theorem tryEnq_accepted (s : BSt) (ci : Nat) (st : Stmt) (hlt : ci < s.ths.length) (hok : (Backend.tryEnq s ci st).2 = true) :
    ((Backend.tryEnq s ci st).1.th ci).accepted = (s.th ci).accepted ++ [{ st with enqAt := s.now }] ∧
    ((Backend.tryEnq s ci st).1.th ci).qStmts = (s.th ci).qStmts ++ [{ st with enqAt := s.now }] := by
  have h1 : (qPrepareWrite s.cfg (s.th ci).q st.size).2 = true := by rw [← tryEnq_ok]; exact hok
  unfold Backend.tryEnq
  simp only [h1, if_true]
  rw [th_setTh_same s _ hlt]
  exact ⟨rfl, rfl⟩

/-- **A drained and published context grants.** If the context of actor `a` (when it has one) holds no unread record
    and its reader position is published, a request that fits the capacity is granted: the reservation attempt of
    the next `log_statement` / retry succeeds. An actor without a context gets a fresh, empty queue. -/
theorem grant_of_drained {c : Cfg} {ex : Option Nat} {fl : Nat} {T : Nat → Prop} {C : List Nat} {s : BSt}
    (h : PI c ex fl T C s) (a : Nat) (x : Actor) (hx : s.actor a = some x) (st : Stmt) (hsz : st.size ≤ s.cfg.qcap)
    (hd : ∀ i, x.ctx = some i → (s.th i).qStmts = [] ∧ Pub (s.th i)) :
    (Backend.tryEnq (Backend.ensureCtx s a).1 (Backend.ensureCtx s a).2 st).2 = true := by
  rw [tryEnq_ok]
  unfold Backend.ensureCtx
  simp only [hx, Option.bind_some]
  cases hc : x.ctx with
  | some i =>
    simp only
    obtain ⟨h1, h2⟩ := hd i hc
    have hq := h.qc i
    apply qPrepareWrite_grant
    · rw [h2 h1, hq.wpos, hq.sum, h1]; simp
    · rw [h.capOK i (h.ctxLt a x i hx hc)]; exact hsz
  | none =>
    simp only
    have hth : ∀ j, (({ s with ths := s.ths ++ [mkTh s.cfg a], registry := s.registry ++ [s.ths.length], newFlag := true } : BSt).setActor a
        (fun x => { x with ctx := some s.ths.length })).th j = if j = s.ths.length then mkTh s.cfg a else s.th j :=
      fun j => th_append s _ j
    rw [hth, if_pos rfl]
    apply qPrepareWrite_grant
    · rfl
    · exact hsz

end Backend.PB

namespace Backend.PB
open Backend

/-! ### the call that follows the drain -/

theorem afterEnq_ths (s : BSt) (a : Nat) (st : Stmt) (cont : Nat) : (Backend.afterEnq s a st cont).1.ths = s.ths := by
  unfold Backend.afterEnq; split <;> rfl

/-- a granted reservation: the call writes and commits the record and goes on to its continuation -/
theorem enqFlow_ok (s : BSt) (a : Nat) (st : Stmt) (cont : Nat) (first initial : Bool)
    (hok : (Backend.tryEnq (Backend.ensureCtx s a).1 (Backend.ensureCtx s a).2 st).2 = true) :
    Backend.enqFlow s a st cont first initial =
      Backend.afterEnq ((Backend.tryEnq (Backend.ensureCtx s a).1 (Backend.ensureCtx s a).2 st).1.setActor a
        (fun x => { x with pend := .none })) a st cont := by
  unfold Backend.enqFlow
  rcases he : Backend.ensureCtx s a with ⟨s1, ci⟩
  rw [he] at hok
  rcases ht : Backend.tryEnq s1 ci st with ⟨s2, ok⟩
  rw [ht] at hok
  simp only at hok
  subst hok
  simp only [ht, if_true]

/-- the observation of a returned `log` call made through the dynamic-level macro (`cont = 0`): accepted -/
theorem afterEnq_log_obs (s : BSt) (a : Nat) (st : Stmt) (hk : st.kind = .log) (cont : Nat) (hc : cont = 0 ∨ cont = 5) :
    Backend.afterEnq s a st cont = (s, obsLog st cont (some true) st.size) := by
  unfold Backend.afterEnq
  rcases hc with rfl | rfl <;> simp [hk]

/-- **The call after the drain is accepted.** State `s` satisfies the ordering invariant, actor `a` exists, its
    context (if any) is drained and published, and the record fits the capacity: the reservation of
    `log_statement` (first attempt or retry) is granted and the record is appended to what the context accepted. -/
theorem enqFlow_after_drain {c : Cfg} {ex : Option Nat} {fl : Nat} {T : Nat → Prop} {C : List Nat} {s : BSt}
    (h : PI c ex fl T C s) (a : Nat) (x : Actor) (hx : s.actor a = some x) (st : Stmt) (hsz : st.size ≤ s.cfg.qcap)
    (hd : ∀ i, x.ctx = some i → (s.th i).qStmts = [] ∧ Pub (s.th i)) (cont : Nat) (first initial : Bool) :
    Backend.enqFlow s a st cont first initial =
      Backend.afterEnq ((Backend.tryEnq (Backend.ensureCtx s a).1 (Backend.ensureCtx s a).2 st).1.setActor a
        (fun x => { x with pend := .none })) a st cont ∧
    ((Backend.enqFlow s a st cont first initial).1.th (Backend.ensureCtx s a).2).accepted =
      ((Backend.ensureCtx s a).1.th (Backend.ensureCtx s a).2).accepted ++ [{ st with enqAt := s.now }] := by
  have hok := grant_of_drained h a x hx st hsz hd
  have e := enqFlow_ok s a st cont first initial hok
  refine ⟨e, ?_⟩
  obtain ⟨h1, hnow, _, x', hx', hc', _⟩ := h.ensureCtx a x hx
  have hlt := h1.ctxLt a x' _ hx' hc'
  have := (tryEnq_accepted _ _ st hlt hok).1
  rw [hnow] at this
  rw [e, ← this]
  simp only [BSt.th, afterEnq_ths]
  rfl

end Backend.PB

namespace Backend
namespace PB

/-- after enough quiet polls: nothing is pending in context `ci`, its reader position is published, no actor changed -/
theorem quiet_run_drained {s : BSt} (h : PG s) (ops : List Op) (hq : ∀ o ∈ ops, quietOp o = true)
    (hn : pendingCount s ≤ pollCount ops) (ci : Nat) (hlt : ci < s.ths.length)
    (hdp : s.cfg.qp.drainPublish = true) (hp : Pub (s.th ci)) :
    PG (runOps s ops) ∧ (runOps s ops).actors = s.actors ∧ (∀ j, chain ((runOps s ops).th j) = []) ∧
    Pub ((runOps s ops).th ci) := by
  obtain ⟨b1, _, b3⟩ := quiet_run ops s h hq
  have p1 := quiet_run_pub ops s h hq ci hlt hdp hp
  have p2 := quiet_run_actors ops s h hq
  refine ⟨b1, p2, fun j => ?_, p1⟩
  apply Classical.byContradiction; intro hne
  have h1 := b3 ⟨j, hne⟩
  have h0 : pendingCount (runOps s ops) = 0 := by omega
  exact hne (pending_zero h0 j)

end PB
end Backend

namespace Backend
namespace PB

theorem resume_retry_blocking (s : BSt) (a : Nat) (x : Actor) (st : Stmt) (k : Nat) (hx : s.actor a = some x)
    (hp : x.pend = .retry st k) (hb : s.cfg.dropping = false) : Backend.resume s a = Backend.enqFlow s a st k false := by
  unfold Backend.resume
  rw [hx]
  simp only [Option.map_some, hp, hb]
  rfl

theorem tryEnq_actor (s : BSt) (ci : Nat) (st : Stmt) (b : Nat) : (Backend.tryEnq s ci st).1.actor b = s.actor b := by
  unfold Backend.tryEnq; simp only; split <;> rfl

/-- **the drained state**: what a long enough quiet continuation (clock past the grace period first) leads to -/
theorem drained_state {s : BSt} (hgi : GI s) (hfi : FI none [] s) (hrun : s.backendGone = false) (dt : Nat)
    (hdt : s.cfg.grace ≤ dt) (ops : List Op) (hq : ∀ o ∈ ops, quietOp o = true) (hn : pendingCount s ≤ pollCount ops)
    (hdp : s.cfg.qp.drainPublish = true) (a : Nat) (x : Actor) (hx : s.actor a = some x)
    (hcom : ∀ i, x.ctx = some i → Pub (s.th i)) :
    PG (runOps s (.front (.tick dt) :: ops)) ∧ (runOps s (.front (.tick dt) :: ops)).actor a = some x ∧
    (runOps s (.front (.tick dt) :: ops)).cfg = s.cfg ∧
    (∀ j, chain ((runOps s (.front (.tick dt) :: ops)).th j) = []) ∧
    ∀ i, x.ctx = some i → Pub ((runOps s (.front (.tick dt) :: ops)).th i) := by
  have hpg : PG (applyOp s (.front (.tick dt))).1 := ⟨hgi.applyOp _, hfi.applyOp _, ripe_after_tick hgi dt hdt, hrun⟩
  have e : runOps s (.front (.tick dt) :: ops) = runOps (applyOp s (.front (.tick dt))).1 ops := by simp [runOps]
  rw [e]
  have hn' : pendingCount (applyOp s (.front (.tick dt))).1 ≤ pollCount ops := hn
  obtain ⟨b1, b2, b3⟩ := quiet_run ops _ hpg hq
  obtain ⟨fl, hI⟩ := hgi
  have hall : ∀ j, chain ((runOps (applyOp s (.front (.tick dt))).1 ops).th j) = [] := by
    intro j
    apply Classical.byContradiction; intro hne
    have h1 := b3 ⟨j, hne⟩
    have h0 : pendingCount (runOps (applyOp s (.front (.tick dt))).1 ops) = 0 := by omega
    exact hne (pending_zero h0 j)
  have hact : (runOps (applyOp s (.front (.tick dt))).1 ops).actors = s.actors := quiet_run_actors ops _ hpg hq
  refine ⟨b1, ?_, b2.cfg, hall, fun i hc => ?_⟩
  · simp only [BSt.actor, hact]; exact hx
  · exact quiet_run_pub ops _ hpg hq i (hI.ctxLt a x i hx hc) hdp (hcom i hc)

end PB
end Backend

namespace Backend
namespace PB

/-! ### the retried Flush request (C06 progress, caller parked on the retry) -/

theorem sum_range_ite (n ci : Nat) : ((List.range n).map (fun j => if j = ci then 1 else 0)).sum = if ci < n then 1 else 0 := by
  induction n with
  | zero => simp
  | succ n ih =>
    rw [List.range_succ, List.map_append, List.sum_append, ih]
    by_cases h1 : ci < n
    · have : ¬ n = ci := by omega
      simp [h1, this]; omega
    · by_cases h2 : n = ci
      · subst h2; simp
      · have : ¬ ci < n + 1 := by omega
        simp [h1, h2, this]

/-- at most one record pending: all contexts empty except one that holds a single record -/
theorem pending_le_one (s : BSt) (ci : Nat) (h : ∀ j, (chain (s.th j)).length ≤ if j = ci then 1 else 0) :
    pendingCount s ≤ 1 := by
  unfold pendingCount
  have := sum_range_le s.ths.length (fun j => (chain (s.th j)).length) (fun j => if j = ci then 1 else 0) (fun j _ => h j)
  rw [sum_range_ite] at this
  split at this <;> omega

/-- the `resume` of a caller parked on a retry performs the next attempt with the same request (on a dropping queue
    it is a fresh call: new timestamp, same kind and size) -/
theorem resume_retry (s : BSt) (a : Nat) (x : Actor) (st : Stmt) (k : Nat) (hx : s.actor a = some x)
    (hp : x.pend = .retry st k) :
    ∃ st' first, st'.kind = st.kind ∧ st'.size = st.size ∧ Backend.resume s a = Backend.enqFlow s a st' k first false := by
  unfold Backend.resume
  rw [hx]
  simp only [Option.map_some, hp]
  split
  · exact ⟨{ st with ts := s.now }, true, rfl, rfl, rfl⟩
  · exact ⟨st, false, rfl, rfl, rfl⟩

theorem applyFront_resume (s : BSt) (a : Nat) :
    (applyFront s (.resume a)).2 = (Backend.resume s a).2 ∧
    ((applyFront s (.resume a)).1 = (Backend.resume s a).1 ∨
     (applyFront s (.resume a)).1 = (Backend.resume s a).1.setActor a (fun x => { x with inCall := none })) := by
  simp only [applyFront]
  split
  · exact ⟨rfl, Or.inl rfl⟩
  · split
    · exact ⟨rfl, Or.inl rfl⟩
    · exact ⟨rfl, Or.inr rfl⟩

theorem ensureCtx_chain {s : BSt} (h : ∀ j, chain (s.th j) = []) (a : Nat) :
    (∀ j, chain ((Backend.ensureCtx s a).1.th j) = []) ∧ (Backend.ensureCtx s a).1.backendGone = s.backendGone ∧
    (Backend.ensureCtx s a).1.flags = s.flags := by
  unfold Backend.ensureCtx
  split
  · exact ⟨h, rfl, rfl⟩
  · simp only
    refine ⟨fun j => ?_, rfl, rfl⟩
    have hth : (({ s with ths := s.ths ++ [mkTh s.cfg a], registry := s.registry ++ [s.ths.length], newFlag := true } : BSt).setActor a
        (fun x => { x with ctx := some s.ths.length })).th j = if j = s.ths.length then mkTh s.cfg a else s.th j :=
      th_append s _ j
    rw [hth]; split
    · rfl
    · exact h j

/-- the state after a granted attempt: one record pending, the rest untouched -/
theorem enqFlow_granted_state (s : BSt) (a : Nat) (st : Stmt) (cont : Nat) (first initial : Bool)
    (hall : ∀ j, chain (s.th j) = []) (hlt : (Backend.ensureCtx s a).2 < (Backend.ensureCtx s a).1.ths.length)
    (hok : (Backend.tryEnq (Backend.ensureCtx s a).1 (Backend.ensureCtx s a).2 st).2 = true) :
    pendingCount (Backend.enqFlow s a st cont first initial).1 ≤ 1 ∧
    (Backend.enqFlow s a st cont first initial).1.backendGone = s.backendGone ∧
    (∃ i, { st with enqAt := s.now } ∈ ((Backend.enqFlow s a st cont first initial).1.th i).accepted) := by
  rw [enqFlow_ok s a st cont first initial hok]
  obtain ⟨c1, c2, _⟩ := ensureCtx_chain hall a
  have hnow : (Backend.ensureCtx s a).1.now = s.now := by
    unfold Backend.ensureCtx; split <;> rfl
  rcases he : Backend.ensureCtx s a with ⟨s1, ci⟩
  rw [he] at hok c1 c2 hnow hlt
  simp only at hok c1 c2 hnow hlt ⊢
  have h1 : (qPrepareWrite s1.cfg (s1.th ci).q st.size).2 = true := by rw [← tryEnq_ok]; exact hok
  have hte : (Backend.tryEnq s1 ci st).1 = s1.setTh ci (fun t => { t with
      q := qFinishCommit s1.cfg (qPrepareWrite s1.cfg (s1.th ci).q st.size).1 st.size,
      qStmts := t.qStmts ++ [{ st with enqAt := s1.now }], accepted := t.accepted ++ [{ st with enqAt := s1.now }] }) := by
    unfold Backend.tryEnq; simp only [h1, if_true]
  have hths : ∀ S : BSt, ∀ j, (Backend.afterEnq (S.setActor a (fun x => { x with pend := .none })) a st cont).1.th j = S.th j := by
    intro S j; simp only [BSt.th, afterEnq_ths]; rfl
  have hgone : ∀ S : BSt, (Backend.afterEnq (S.setActor a (fun x => { x with pend := .none })) a st cont).1.backendGone = S.backendGone := by
    intro S; unfold Backend.afterEnq; split <;> rfl
  refine ⟨?_, ?_, ?_⟩
  · apply pending_le_one _ ci
    intro j
    rw [hths, hte]
    rcases th_setTh_cases s1 ci j _ with e | ⟨rfl, _, e⟩
    · rw [e, c1 j]; simp
    · rw [e, if_pos rfl]
      have := c1 j
      unfold chain at this ⊢
      obtain ⟨hb, hq⟩ := List.append_eq_nil_iff.mp this
      simp [hb, hq]
  · rw [hgone, hte]; exact c2
  · refine ⟨ci, ?_⟩
    rw [hths, hte, th_setTh_same s1 _ hlt, hnow]
    exact List.mem_append_right _ (List.mem_singleton.mpr rfl)

end PB
end Backend

namespace Backend
namespace PB

theorem pendOf_some {s : BSt} {a : Nat} {p : Pend} (h : pendOf s a = some p) : ∃ x, s.actor a = some x ∧ x.pend = p := by
  unfold pendOf at h
  cases hx : s.actor a with
  | none => rw [hx] at h; cases h
  | some x => rw [hx] at h; simp only [Option.map_some, Option.some.injEq] at h; exact ⟨x, rfl, h⟩

/-- **`flush_log()` of a caller parked on the retry of its refused request returns.** State-level form: from `s`
    (reachable: `GI`, `FI`), backend running, drain rule; continuation = (clock past grace, quiet polls ≥ pending),
    `resume a`, (clock past grace, at least one quiet poll); then the flag is raised and the next `resume a` answers
    "done". -/
theorem flush_retry_returns {s : BSt} (hgi : GI s) (hfi : FI none [] s) (hrun : s.backendGone = false)
    (hdp : s.cfg.qp.drainPublish = true) (a : Nat) (x : Actor) (st : Stmt) (f : Nat) (hx : s.actor a = some x)
    (hp : x.pend = .retry st 1) (hk : st.kind = .flush f) (hsz : st.size ≤ s.cfg.qcap)
    (hcom : ∀ i, x.ctx = some i → Pub (s.th i))
    (dt1 : Nat) (hdt1 : s.cfg.grace ≤ dt1) (q1 : List Op) (hq1 : ∀ o ∈ q1, quietOp o = true)
    (hn1 : pendingCount s ≤ pollCount q1)
    (dt2 : Nat) (hdt2 : s.cfg.grace ≤ dt2) (q2 : List Op) (hq2 : ∀ o ∈ q2, quietOp o = true) (hn2 : 1 ≤ pollCount q2) :
    pendOf (applyOp (runOps s (.front (.tick dt1) :: q1)) (.front (.resume a))).1 a = some (.flag f) ∧
    f ∈ (runOps (applyOp (runOps s (.front (.tick dt1) :: q1)) (.front (.resume a))).1 (.front (.tick dt2) :: q2)).flags ∧
    (applyOp (runOps (applyOp (runOps s (.front (.tick dt1) :: q1)) (.front (.resume a))).1 (.front (.tick dt2) :: q2))
      (.front (.resume a))).2 = "done" := by
  obtain ⟨hpgA, hxA, hcfgA, hall, hpub⟩ := drained_state hgi hfi hrun dt1 hdt1 q1 hq1 hn1 hdp a x hx hcom
  generalize runOps s (.front (.tick dt1) :: q1) = sA at hpgA hxA hcfgA hall hpub ⊢
  obtain ⟨fl, hI⟩ := hpgA.gi
  obtain ⟨st', first, k1, k2, hres⟩ := resume_retry sA a x st 1 hxA hp
  have hd : ∀ i, x.ctx = some i → (sA.th i).qStmts = [] ∧ Pub (sA.th i) := fun i hi =>
    ⟨(List.append_eq_nil_iff.mp (hall i)).2, hpub i hi⟩
  have hok := grant_of_drained hI a x hxA st' (by rw [k2, hcfgA]; exact hsz) hd
  have hk' : st'.kind = .flush f := k1.trans hk
  have hout := (flush_enq_outcome sA a st' f first false x hxA hk').1 hok
  have hlt : (Backend.ensureCtx sA a).2 < (Backend.ensureCtx sA a).1.ths.length := by
    obtain ⟨h1, _, _, x', hx', hc', _⟩ := hI.ensureCtx a x hxA
    exact h1.ctxLt a x' _ hx' hc'
  obtain ⟨g1, g2, i, g3⟩ := enqFlow_granted_state sA a st' 1 first false hall hlt hok
  rw [← hres] at hout g1 g2 g3
  -- the state after the `resume` operation of the schedule
  have hgiB := hpgA.gi.applyOp (.front (.resume a))
  have hfiB := hpgA.fi.applyOp (.front (.resume a))
  have hcfgB : (applyOp sA (.front (.resume a))).1.cfg = sA.cfg := by
    have := hpgA.gi.cfg_runOps [.front (.resume a)]
    simpa [runOps] using this
  have hB : pendOf (applyOp sA (.front (.resume a))).1 a = some (.flag f) ∧
      pendingCount (applyOp sA (.front (.resume a))).1 ≤ 1 ∧
      (applyOp sA (.front (.resume a))).1.backendGone = false ∧
      { st' with enqAt := sA.now } ∈ ((applyOp sA (.front (.resume a))).1.th i).accepted := by
    show pendOf (applyFront sA (.resume a)).1 a = _ ∧ pendingCount (applyFront sA (.resume a)).1 ≤ 1 ∧
      (applyFront sA (.resume a)).1.backendGone = false ∧ _ ∈ ((applyFront sA (.resume a)).1.th i).accepted
    rcases (applyFront_resume sA a).2 with e | e
    · rw [e]; exact ⟨hout, g1, by rw [g2]; exact hpgA.run, g3⟩
    · rw [e]
      refine ⟨?_, g1, by show (Backend.resume sA a).1.backendGone = false; rw [g2]; exact hpgA.run, g3⟩
      exact (pendOf_setActor_keep (Backend.resume sA a).1 a (fun x => { x with inCall := none }) (fun _ => rfl) (fun _ => rfl)
        (fun _ => rfl) a).trans hout
  generalize (applyOp sA (.front (.resume a))).1 = sB at hgiB hfiB hcfgB hB ⊢
  obtain ⟨b1, b2, b3, b4⟩ := hB
  refine ⟨b1, ?_⟩
  have hpgB : PG (applyOp sB (.front (.tick dt2))).1 :=
    ⟨hgiB.applyOp _, hfiB.applyOp _, ripe_after_tick hgiB dt2 (by rw [hcfgB, hcfgA]; exact hdt2), b3⟩
  have e : runOps sB (.front (.tick dt2) :: q2) = runOps (applyOp sB (.front (.tick dt2))).1 q2 := by simp [runOps]
  rw [e]
  have hn : pendingCount (applyOp sB (.front (.tick dt2))).1 ≤ pollCount q2 := Nat.le_trans b2 hn2
  have hf := quiet_run_drains hpgB q2 hq2 hn i { st' with enqAt := sA.now } f b4 hk'
  refine ⟨hf, ?_⟩
  obtain ⟨xB, hxB, hpB⟩ := pendOf_some b1
  have hact : (runOps (applyOp sB (.front (.tick dt2))).1 q2).actors = sB.actors := quiet_run_actors q2 _ hpgB hq2
  have hxC : (runOps (applyOp sB (.front (.tick dt2))).1 q2).actor a = some xB := by
    simp only [BSt.actor, hact]; exact hxB
  show (applyFront _ (.resume a)).2 = "done"
  rw [(applyFront_resume _ a).1]
  exact ((resume_flag _ a xB f hxC hpB).1 hf).2

end PB
end Backend
