import QuillModel.Backend.ConsProofsPop
/-!
What popping one ordinary statement appends to the history: the events of its dispatch (`writeToSinks` on the
sinks of its logger), then possibly backtrace replays and a notification — none of which is an ordinary `write`.
-/
namespace Backend.PA
open Backend Spsc

theorem wcount_append (a b : List Ev) (sid id : Nat) : wcount (a ++ b) sid id = wcount a sid id + wcount b sid id := by
  simp [wcount, List.countP_append]

theorem replayRing_log {s : BSt} (h : RingOK s) (lgi : Nat) :
    ∃ evs, (replayRing s lgi).1.log = evs ++ s.log ∧ ∀ sid id, wcount evs sid id = 0 := by
  obtain ⟨evs, he⟩ := (replayRing_core s lgi).log
  refine ⟨evs, he, fun sid id => ?_⟩
  have := (replayRing_w h lgi sid id).1
  rw [he, wcount_append] at this
  omega

/-- **one pop of an ordinary statement** (`Event::Log` below the backtrace level): the history grows by the
    events of `dispatch` (characterised by `writeToSinks_spec`), followed by events none of which is an
    ordinary `write` (a backtrace flush it triggers, the notification of an escaped exception) -/
theorem popStep_ord_log {s : BSt} (h : RingOK s) (i : Nat) (st : Stmt) (rest : List Stmt) (hord : isOrd st = true) :
    ∃ evs, (popStep s i st rest).log = evs ++ (dispatch s st).1.log ∧ ∀ sid id, wcount evs sid id = 0 := by
  simp only [isOrd, Bool.and_eq_true, bne_iff_ne, ne_eq] at hord
  have hk : st.kind = .log := by
    cases hkk : st.kind <;> simp [hkk, isLogKind] at hord
    rfl
  have hR : RingOK (dispatch s st).1 :=
    h.of_bt (fun i => by rw [dispatch, lgOf_of_lgs (writeToSinks_lgs st _ s)])
  have key : ∀ (r : BSt × Option String × Option Nat), (∃ evs, r.1.log = evs ++ (dispatch s st).1.log ∧
        ∀ sid id, wcount evs sid id = 0) →
      ∃ evs, ({ (match r.2.1 with | some m => r.1.emit (.notify m) | none => r.1).setTh i
          (fun t => { t with buf := rest, popped := t.popped ++ [st] }) with popLog := st :: (match r.2.1 with | some m => r.1.emit (.notify m) | none => r.1).popLog } : BSt).log =
        evs ++ (dispatch s st).1.log ∧ ∀ sid id, wcount evs sid id = 0 := by
    intro r ⟨evs, he, hz⟩
    cases hm : r.2.1 with
    | none => exact ⟨evs, he, hz⟩
    | some m =>
      refine ⟨.notify m :: evs, ?_, fun sid id => ?_⟩
      · show Ev.notify m :: r.1.log = _
        rw [he]; rfl
      · have := hz sid id
        simpa [wcount, ordWrite] using this
  have hpe : ∃ evs, (processEvent s st).1.log = evs ++ (dispatch s st).1.log ∧ ∀ sid id, wcount evs sid id = 0 := by
    unfold processEvent
    rw [hk]
    dsimp only
    rw [if_pos hord.2]
    by_cases hd : (dispatch s st).2 = true
    · rw [if_pos hd]; exact ⟨[], rfl, fun _ _ => rfl⟩
    · rw [if_neg hd]
      split
      · exact replayRing_log hR st.lg
      · exact ⟨[], rfl, fun _ _ => rfl⟩
  exact key (processEvent s st) hpe

end Backend.PA
