import QuillModel.Backend.FlushTop
/-!
The event log only grows; the Flush step (`flush_step`): every active sink is flushed before the flag is raised.
-/
namespace Backend.PB
open Backend

/-! ### the event log only grows; frontend calls (other than dropping a sink reference) do not write to it -/

def LogGrows (s s' : BSt) : Prop := ∃ new, s'.log = new ++ s.log

theorem LogGrows.refl (s : BSt) : LogGrows s s := ⟨[], rfl⟩
theorem LogGrows.trans {a b c : BSt} (h1 : LogGrows a b) (h2 : LogGrows b c) : LogGrows a c := by
  obtain ⟨n1, e1⟩ := h1; obtain ⟨n2, e2⟩ := h2
  exact ⟨n2 ++ n1, by rw [e2, e1, List.append_assoc]⟩
theorem LogGrows.ofEq {s s' : BSt} (h : s'.log = s.log) : LogGrows s s' := ⟨[], by rw [h]; rfl⟩
theorem LogGrows.emit (s : BSt) (e : Ev) : LogGrows s (s.emit e) := ⟨[e], rfl⟩

theorem log_ensureCtx (s : BSt) (a : Nat) : (Backend.ensureCtx s a).1.log = s.log := by
  unfold Backend.ensureCtx; split <;> rfl

theorem log_tryEnq (s : BSt) (ci : Nat) (st : Stmt) : (Backend.tryEnq s ci st).1.log = s.log := by
  unfold Backend.tryEnq; simp only; split <;> rfl

theorem log_afterEnq (s : BSt) (a : Nat) (st : Stmt) (cont : Nat) : (Backend.afterEnq s a st cont).1.log = s.log := by
  unfold Backend.afterEnq; split <;> rfl

theorem log_enqFlow (s : BSt) (a : Nat) (st : Stmt) (cont : Nat) (first initial : Bool) :
    (Backend.enqFlow s a st cont first initial).1.log = s.log := by
  have h1 := log_ensureCtx s a
  rcases he : Backend.ensureCtx s a with ⟨s1, ci⟩
  rw [he] at h1
  have h2 := log_tryEnq s1 ci st
  rcases ht : Backend.tryEnq s1 ci st with ⟨s2, ok⟩
  rw [ht] at h2
  simp only at h1 h2
  unfold Backend.enqFlow
  simp only [he, ht]
  have hb : ∀ (y : BSt) (g : Th → Th), (if isLogKind st.kind = true then y.setTh ci g else y).log = y.log := by
    intro y g; split <;> rfl
  split
  · rw [log_afterEnq]; exact h2.trans h1
  · split
    · split
      · show (if isLogKind st.kind = true then _ else s2).log = _; rw [hb]; exact h2.trans h1
      · show (if isLogKind st.kind = true then _ else s2).log = _; rw [hb]; exact h2.trans h1
    · show (if first = true then (if isLogKind st.kind = true then _ else s2) else s2).log = _
      split
      · rw [hb]; exact h2.trans h1
      · exact h2.trans h1

theorem log_frontCall (s : BSt) (a lgi : Nat) (kind : Kind) (lvl len cont : Nat) (dyn : Bool) (id : Nat) (named : Bool) :
    (Backend.frontCall s a lgi kind lvl len cont dyn id named).1.log = s.log := by
  unfold Backend.frontCall
  simp only
  split
  · rfl
  · exact log_enqFlow _ _ _ _ _ _

theorem log_resume (s : BSt) (a : Nat) : (Backend.resume s a).1.log = s.log := by
  unfold Backend.resume
  split
  · exact log_enqFlow _ _ _ _ _ _
  · split <;> exact log_enqFlow _ _ _ _ _ _
  · split <;> rfl
  · rfl

theorem log_withLogger (s : BSt) (a g : Nat) (k : Nat → BSt × String) (hk : ∀ lgi, (k lgi).1.log = s.log) :
    (Backend.withLogger s a g k).1.log = s.log := by
  unfold Backend.withLogger
  split
  · unfold noteCall; exact hk _
  · rfl

theorem logGrows_reapSinks (s : BSt) (l : List Nat) : LogGrows s (reapSinks s l) := by
  unfold reapSinks
  induction l generalizing s with
  | nil => exact LogGrows.refl _
  | cons x xs ih =>
    rw [List.foldl_cons]
    refine LogGrows.trans ?_ (ih _)
    split
    · exact LogGrows.emit _ _
    · exact LogGrows.refl _

theorem logGrows_applyFront (s : BSt) (f : FOp) : LogGrows s (Backend.applyFront s f).1 := by
  cases f with
  | tick dt => exact LogGrows.refl _
  | tstart a => simp only [Backend.applyFront]; split <;> exact LogGrows.ofEq rfl
  | texit a =>
    simp only [Backend.applyFront]
    split
    · exact LogGrows.refl _
    · split <;> exact LogGrows.ofEq rfl
  | resume a =>
    simp only [Backend.applyFront]
    have := log_resume s a
    split
    · exact LogGrows.ofEq this
    · split
      · exact LogGrows.ofEq this
      · exact LogGrows.ofEq this
  | armStall a => simp only [Backend.applyFront]; split <;> exact LogGrows.ofEq rfl
  | log a g lvl len dyn =>
    simp only [Backend.applyFront]
    refine LogGrows.ofEq (log_withLogger s a g _ (fun lgi => ?_))
    split
    · exact log_frontCall _ _ _ _ _ _ _ _ _ _
    · rfl
  | logNamed a g len =>
    simp only [Backend.applyFront]
    refine LogGrows.ofEq (log_withLogger s a g _ (fun lgi => ?_))
    split
    · exact log_frontCall _ _ _ _ _ _ _ _ _ _
    · rfl
  | logBt a g len =>
    simp only [Backend.applyFront]
    refine LogGrows.ofEq (log_withLogger s a g _ (fun lgi => ?_))
    split
    · exact log_frontCall _ _ _ _ _ _ _ _ _ _
    · rfl
  | initBt a g cap fl' =>
    simp only [Backend.applyFront]
    exact LogGrows.ofEq (log_withLogger s a g _ (fun lgi => log_frontCall _ _ _ _ _ _ _ _ _ _))
  | flushBt a g =>
    simp only [Backend.applyFront]
    exact LogGrows.ofEq (log_withLogger s a g _ (fun lgi => log_frontCall _ _ _ _ _ _ _ _ _ _))
  | flush a g =>
    simp only [Backend.applyFront]
    exact LogGrows.ofEq (log_withLogger s a g _ (fun lgi => log_frontCall _ _ _ _ _ _ _ _ _ _))
  | removeBlocking a g =>
    simp only [Backend.applyFront]
    split
    · exact LogGrows.refl _
    · exact LogGrows.ofEq (log_withLogger s a g _ (fun lgi => log_frontCall _ _ _ _ _ _ _ _ _ _))
  | remove a g =>
    simp only [Backend.applyFront]
    split
    · exact LogGrows.refl _
    · split <;> exact LogGrows.ofEq rfl
  | create a g sl =>
    simp only [Backend.applyFront]
    split
    · exact LogGrows.refl _
    · split
      · split <;> exact LogGrows.ofEq rfl
      · exact LogGrows.ofEq rfl
  | setLevel g lvl => simp only [Backend.applyFront]; split <;> exact LogGrows.ofEq rfl
  | setSinkLevel sid lvl => simp only [Backend.applyFront]; split <;> exact LogGrows.ofEq rfl
  | dropSink sid =>
    simp only [Backend.applyFront]
    exact (LogGrows.ofEq rfl).trans (logGrows_reapSinks _ _)
  | query => exact LogGrows.refl _

theorem logGrows_foldFront (ops : List FOp) (skip : FOp → Bool) (e : BSt → FOp → Ev) (s1 : BSt) :
    LogGrows s1 (ops.foldl (fun s f => (if skip f then (s, "noop") else Backend.applyFront s f).1.emit (e s f)) s1) := by
  induction ops generalizing s1 with
  | nil => exact LogGrows.refl _
  | cons f fs ih =>
    rw [List.foldl_cons]
    refine LogGrows.trans ?_ (ih _)
    split
    · exact LogGrows.emit _ _
    · exact (logGrows_applyFront s1 f).trans (LogGrows.emit _ _)

theorem logGrows_runInj (table : List (Nat × Nat × List FOp)) (s : BSt) (site : Nat) :
    LogGrows s (Backend.runInj table s site) := by
  unfold Backend.runInj
  simp only
  split
  · exact LogGrows.ofEq rfl
  · exact LogGrows.trans (LogGrows.ofEq rfl)
      (logGrows_foldFront _ (fun f => decide (site = 9) && f.needsManagerLock)
        (fun s f => Ev.inj site _ f.show (if (decide (site = 9) && f.needsManagerLock) = true then (s, "noop")
          else Backend.applyFront s f).2) _)

/-! ### the Flush event: every active sink is flushed, then the flag is raised -/

/-- `_flush_and_run_active_sinks`: one `flushed` / `fthrow` event for every active sink, nothing else but the
    failure notifications -/
theorem flushSinks_log (s : BSt) : ∃ blk, (flushSinks s).log = blk ++ s.log ∧
    (∀ sid ∈ activeSinks s, Ev.flushed sid ∈ blk ∨ Ev.fthrow sid ∈ blk) ∧
    (∀ e ∈ blk, (∃ sid, e = Ev.flushed sid ∨ e = Ev.fthrow sid) ∨ e = Ev.notify "n:ffail") := by
  unfold flushSinks
  generalize activeSinks s = l
  induction l generalizing s with
  | nil => refine ⟨[], rfl, ?_, ?_⟩ <;> intro _ h <;> cases h
  | cons x xs ih =>
    rw [List.foldl_cons]
    simp only
    split
    · obtain ⟨blk, e1, e2, e3⟩ := ih ((((s.setSink x (fun _ => { s.sinkOf x with fcalls := (s.sinkOf x).fcalls + 1 })).emit (Ev.fthrow x)).emit (Ev.notify "n:ffail")))
      refine ⟨blk ++ [Ev.notify "n:ffail", Ev.fthrow x], by rw [e1]; simp [BSt.emit, BSt.setSink], ?_, ?_⟩
      · intro sid hs
        rcases List.mem_cons.mp hs with rfl | hs
        · right; simp
        · rcases e2 sid hs with h | h
          · left; exact List.mem_append_left _ h
          · right; exact List.mem_append_left _ h
      · intro e he
        rcases List.mem_append.mp he with h | h
        · exact e3 e h
        · simp at h; rcases h with rfl | rfl
          · right; rfl
          · left; exact ⟨x, Or.inr rfl⟩
    · obtain ⟨blk, e1, e2, e3⟩ := ih ((s.setSink x (fun _ => { s.sinkOf x with fcalls := (s.sinkOf x).fcalls + 1 })).emit (Ev.flushed x))
      refine ⟨blk ++ [Ev.flushed x], by rw [e1]; simp [BSt.emit, BSt.setSink], ?_, ?_⟩
      · intro sid hs
        rcases List.mem_cons.mp hs with rfl | hs
        · left; simp
        · rcases e2 sid hs with h | h
          · left; exact List.mem_append_left _ h
          · right; exact List.mem_append_left _ h
      · intro e he
        rcases List.mem_append.mp he with h | h
        · exact e3 e h
        · simp at h; subst h; left; exact ⟨x, Or.inl rfl⟩

theorem logGrows_checkFailures (inj : BSt → Nat → BSt) (hlog : ∀ s site, LogGrows s (inj s site)) (s : BSt) :
    LogGrows s (Backend.checkFailures inj s) := by
  unfold Backend.checkFailures
  apply foldl_inv (fun x : BSt => LogGrows s x) _ _ _ (LogGrows.refl s)
  intro b i hb
  simp only
  split
  · refine hb.trans (LogGrows.trans ?_ (hlog _ 8))
    exact ⟨[_], rfl⟩
  · exact hb

theorem log_findFirst (s : BSt) (l : List Nat) : (cleanupContexts.go.findFirst s l).1.log = s.log := by
  induction l generalizing s with
  | nil => rfl
  | cons x xs ih =>
    unfold cleanupContexts.go.findFirst
    split
    · exact ih s
    · simp only
      split
      · rfl
      · rw [ih]; rfl

theorem log_cleanupGo (fuel : Nat) (s : BSt) : (cleanupContexts.go fuel s).log = s.log := by
  induction fuel generalizing s with
  | zero => rfl
  | succ n ih =>
    unfold cleanupContexts.go
    have f1 := log_findFirst s s.cache
    split
    · rename_i s1 heq; rw [heq] at f1; exact f1
    · rename_i s1 i heq; rw [heq] at f1
      rw [ih]; exact f1

theorem log_cleanupContexts (s : BSt) : (Backend.cleanupContexts s).log = s.log := by
  unfold Backend.cleanupContexts
  split
  · rfl
  · exact log_cleanupGo _ _

/-- **The Flush step.** When the backend processes a Flush event (it is the minimum front), it flushes every
    active sink, pops the event, (reports failure counters, cleans up contexts) and only then raises the flag:
    the log at the moment of the raise ends with `mid ++ blk ++ (the log before)`, `blk` holding a
    `flushed`/`fthrow` event for every active sink. -/
theorem flush_step (inj : BSt → Nat → BSt) (hlog : ∀ s site, LogGrows s (inj s site)) (s : BSt) (j : Nat) (st : Stmt)
    (rest : List Stmt) (f : Nat) (hl : lowest s = some j) (hb : (s.th j).buf = st :: rest) (hk : st.kind = .flush f) :
    (Backend.processLowest inj s).2 = true ∧
    (Backend.processLowest inj s).1.flags.head? = some f ∧
    (Backend.processLowest inj s).1.flagLog.head? = some (f, (Backend.processLowest inj s).1.log.length) ∧
    ∃ mid blk, (Backend.processLowest inj s).1.log = mid ++ blk ++ s.log ∧
      (∀ sid ∈ activeSinks s, Ev.flushed sid ∈ blk ∨ Ev.fthrow sid ∈ blk) ∧
      (∀ e ∈ blk, (∃ sid, e = Ev.flushed sid ∨ e = Ev.fthrow sid) ∨ e = Ev.notify "n:ffail") := by
  have hpl : Backend.processLowest inj s = (plFlag inj (plPop (flushSinks s) j st rest) f, true) := by
    rw [processLowest_eq]
    simp only [hl, hb, processEvent_flush s st f hk]
    rfl
  rw [hpl]
  refine ⟨rfl, rfl, rfl, ?_⟩
  obtain ⟨blk, e1, e2, e3⟩ := flushSinks_log s
  have hpre : LogGrows (flushSinks s) (plPre inj (plPop (flushSinks s) j st rest)) := by
    unfold plPre
    refine LogGrows.trans ?_ (LogGrows.ofEq (log_cleanupContexts _))
    split
    · exact (LogGrows.ofEq (s := flushSinks s) rfl).trans (logGrows_checkFailures inj hlog _)
    · exact LogGrows.ofEq rfl
  obtain ⟨mid, em⟩ := hpre
  exact ⟨mid, blk, by show (plPre inj _).log = _; rw [em, e1, List.append_assoc], e2, e3⟩

/-- the failure / drop / block counters of a context -/
def Cnt (t : Th) : Nat × Nat × Nat := (t.fail, t.discarded, t.blockedCalls)

theorem cnt_ensureCtx (s : BSt) (a i : Nat) : Cnt ((Backend.ensureCtx s a).1.th i) = Cnt (s.th i) := by
  unfold Backend.ensureCtx
  split
  · rfl
  · simp only
    have : ((({ s with ths := s.ths ++ [mkTh s.cfg a], registry := s.registry ++ [s.ths.length], newFlag := true } : BSt).setActor a
          (fun x => { x with ctx := some s.ths.length })).th i) = if i = s.ths.length then mkTh s.cfg a else s.th i :=
        th_append s _ i
    rw [this]
    split
    · rename_i hj; rw [th_lt_or_default s i (by omega)]; rfl
    · rfl

theorem cnt_setTh (s : BSt) (i : Nat) (f : Th → Th) (j : Nat) (hf : ∀ t, Cnt (f t) = Cnt t) :
    Cnt ((s.setTh i f).th j) = Cnt (s.th j) := by
  rcases th_setTh_cases s i j f with h | ⟨rfl, _, h⟩
  · rw [h]
  · rw [h]; exact hf _

theorem cnt_tryEnq (s : BSt) (ci : Nat) (st : Stmt) (i : Nat) : Cnt ((Backend.tryEnq s ci st).1.th i) = Cnt (s.th i) := by
  unfold Backend.tryEnq
  simp only
  split
  · exact cnt_setTh _ _ _ _ (fun t => rfl)
  · exact cnt_setTh _ _ _ _ (fun t => rfl)

theorem ensureCtx_actor {s : BSt} {a : Nat} {x : Actor} (hx : s.actor a = some x) :
    ∃ x', (Backend.ensureCtx s a).1.actor a = some x' := by
  unfold Backend.ensureCtx
  split
  · exact ⟨x, hx⟩
  · simp only
    refine ⟨{ x with ctx := some s.ths.length }, ?_⟩
    have := actor_setActor_same ({ s with ths := s.ths ++ [mkTh s.cfg a], registry := s.registry ++ [s.ths.length], newFlag := true } : BSt)
      a (fun x => { x with ctx := some s.ths.length }) (fun _ => rfl) (fun _ => rfl)
    rw [this]
    show (s.actor a).map _ = _
    rw [hx]; rfl

theorem pendOf_set_const (y : BSt) (a : Nat) (g : Actor → Actor) (hid : ∀ x, (g x).id = x.id)
    (hal : ∀ x, (g x).alive = x.alive) (p' : Pend) (hp : ∀ x, (g x).pend = p') {x : Actor} (hx : y.actor a = some x) :
    pendOf (y.setActor a g) a = some p' := by
  unfold pendOf
  rw [actor_setActor_same y a g hid hal, hx]; simp [hp]

/-- **A flush request is never dropped and never counted.** For a `flush_log` call (`cont = 1`) of a live actor,
    on every queue type: if the reservation is granted the record is committed and the caller waits for its flag;
    if it is refused (full queue — dropping or blocking) the caller is parked to retry the *same* request; in both
    cases no failure / drop / blocked counter of any context changes. -/
theorem flush_enq_outcome (s : BSt) (a : Nat) (st : Stmt) (f : Nat) (first initial : Bool) (x : Actor)
    (hx : s.actor a = some x) (hk : st.kind = .flush f) :
    ((Backend.tryEnq (Backend.ensureCtx s a).1 (Backend.ensureCtx s a).2 st).2 = true →
        pendOf (Backend.enqFlow s a st 1 first initial).1 a = some (.flag f)) ∧
    ((Backend.tryEnq (Backend.ensureCtx s a).1 (Backend.ensureCtx s a).2 st).2 = false →
        pendOf (Backend.enqFlow s a st 1 first initial).1 a = some (.retry st 1)) ∧
    (∀ i, Cnt ((Backend.enqFlow s a st 1 first initial).1.th i) = Cnt (s.th i)) := by
  obtain ⟨x1, hx1⟩ := ensureCtx_actor hx
  have c1 := cnt_ensureCtx s a
  rcases he : Backend.ensureCtx s a with ⟨s1, ci⟩
  rw [he] at hx1 c1
  have c2 := cnt_tryEnq s1 ci st
  have hact2 : (Backend.tryEnq s1 ci st).1.actor a = s1.actor a := by
    unfold Backend.tryEnq; simp only; split <;> rfl
  rcases ht : Backend.tryEnq s1 ci st with ⟨s2, ok⟩
  rw [ht] at c2 hact2
  simp only at hx1 c1 c2 hact2
  have hx2 : s2.actor a = some x1 := by rw [hact2]; exact hx1
  have hlk : isLogKind st.kind = false := by rw [hk]; rfl
  unfold Backend.enqFlow
  simp only [he, ht, hlk]
  cases ok with
  | true =>
    refine ⟨?_, ?_, ?_⟩
    · intro _
      simp only [if_true, Backend.afterEnq, hk]
      have hx3 : (s2.setActor a (fun x => { x with pend := .none })).actor a = some { x1 with pend := .none } := by
        refine (actor_setActor_same s2 a (fun x => { x with pend := .none }) (fun _ => rfl) (fun _ => rfl)).trans ?_
        rw [hx2]; rfl
      refine pendOf_set_const _ a _ ?_ ?_ _ ?_ hx3 <;> intro _ <;> rfl
    · intro h; cases h
    · intro i
      simp only [if_true, Backend.afterEnq, hk]
      exact (c2 i).trans (c1 i)
  | false =>
    refine ⟨?_, ?_, ?_⟩
    · intro h; cases h
    · intro _
      simp only [Bool.false_eq_true, if_false]
      split
      · rw [if_neg (by omega)]
        (refine pendOf_set_const _ a _ ?_ ?_ _ ?_ hx2 <;> intro _ <;> rfl)
      · split <;> (refine pendOf_set_const _ a _ ?_ ?_ _ ?_ hx2 <;> intro _ <;> rfl)
    · intro i
      simp only [Bool.false_eq_true, if_false]
      split
      · rw [if_neg (by omega)]; exact (c2 i).trans (c1 i)
      · split <;> exact (c2 i).trans (c1 i)

/-- a caller parked on its flag is released by `resume` exactly when the flag has been raised -/
theorem resume_flag (s : BSt) (a : Nat) (x : Actor) (f : Nat) (hx : s.actor a = some x) (hp : x.pend = .flag f) :
    (f ∈ s.flags → pendOf (Backend.resume s a).1 a = some .none ∧ (Backend.resume s a).2 = "done") ∧
    (f ∉ s.flags → (Backend.resume s a).1 = s ∧ (Backend.resume s a).2 = "parked:sleep") := by
  unfold Backend.resume
  simp only [hx, Option.map_some, hp]
  constructor
  · intro hf
    have : s.flags.contains f = true := by simpa using hf
    rw [if_pos this]
    refine ⟨?_, rfl⟩
    refine pendOf_set_const _ a _ ?_ ?_ _ ?_ hx <;> intro _ <;> rfl
  · intro hf
    have : ¬ (s.flags.contains f = true) := by simpa using hf
    rw [if_neg this]
    exact ⟨rfl, rfl⟩

/-! ### other threads (needs the ordering invariant) -/

/-- under the C05 hypotheses: once a popped event `st` is in the pop log, every record with a strictly smaller
    timestamp accepted by any context has been popped (a context that still holds records is registered) -/
theorem earlier_popped {s : BSt} (hF : FI none [] s) (hG : GI s) (hg : s.cfg.grace ≠ 0)
    (hr : s.cfg.refreshAfterSample = true) (hp : GracePremise s) {i : Nat} {st : Stmt}
    (hst : st ∈ (s.th i).popped) {k : Nat} {r : Stmt} (hr' : r ∈ (s.th k).accepted)
    (hlt : r.ts < st.ts) : r ∈ (s.th k).popped := by
  obtain ⟨fl, hI, o⟩ := hG.ord hg hr hp
  have hpl := hF.plog i st hst
  rw [hF.cons k, List.append_assoc] at hr'
  rcases List.mem_append.mp hr' with h | h
  · exact h
  · exfalso
    have hk : k ∈ s.registry := hI.reg k (by
      intro he
      have hc : r ∈ chain (s.th k) := h
      rw [he] at hc; cases hc)
    have := o.above st hpl k hk r h
    omega

end Backend.PB
