import QuillModel.Backend.OrdBack3
/-!
The premise of C05 as a decidable predicate on a state, well-formed initial states, and the top-level consequence
of the ordering invariant.
-/
namespace Backend
open Backend.PB

/-- the premise of C05: every record ever accepted by a queue was committed no later than the grace period
    after its timestamp was taken (`enqAt` is the clock at the commit) -/
def GracePremise (s : BSt) : Prop := ∀ t ∈ s.ths, ∀ st ∈ t.accepted, st.enqAt ≤ st.ts + s.cfg.grace

instance (s : BSt) : Decidable (GracePremise s) := by unfold GracePremise; infer_instance

/-- a well-formed initial state: sinks and loggers may exist, but no thread has started, nothing is registered,
    cached or processed (the states the driver's `mkState` builds) -/
structure Start (s : BSt) : Prop where
  hdr : 0 < s.cfg.hdr
  ths : s.ths = []
  actors : s.actors = []
  registry : s.registry = []
  cache : s.cache = []
  popLog : s.popLog = []

namespace PB

theorem premI_of_premise {s : BSt} (h : GracePremise s) : PremI s := by
  intro i st hst
  by_cases hi : i < s.ths.length
  · exact h _ (th_mem s hi) st hst
  · rw [th_lt_or_default s i (by omega)] at hst; cases hst

theorem start_GI {s : BSt} (h : Start s) : GI s := by
  refine ⟨0, ?_⟩
  have hth : ∀ i, s.th i = default := fun i => th_lt_or_default s i (by rw [h.ths]; exact Nat.zero_le _)
  have hact : ∀ a, s.actor a = none := fun a => by simp [BSt.actor, h.actors]
  exact {
    cfgEq := rfl, hdr := h.hdr, floorNow := Nat.zero_le _, cacheEq := rfl
    sorted := fun i => by rw [hth]; exact List.Pairwise.nil
    leNow := fun i st hst => by rw [hth] at hst; cases hst
    qc := fun i => by rw [hth]; exact qc_default
    reg := fun i hc => by rw [hth] at hc; exact absurd rfl hc
    bufCache := fun i _ hb => by rw [hth] at hb; exact absurd rfl hb
    cacheReg := fun i hi => by rw [h.cache] at hi; cases hi
    fresh := fun _ i hi => by rw [h.registry] at hi; cases hi
    ctxLt := fun a x i hx => by rw [hact] at hx; cases hx
    ctxReg := fun a x i hx => by rw [hact] at hx; cases hx
    ctxInj := fun a b x y i hx => by rw [hact] at hx; cases hx
    pend := fun a x st hx => by rw [hact] at hx; cases hx
    capOK := fun i hi => by rw [h.ths] at hi; cases hi
    ord := fun _ _ _ => {
      popSorted := by rw [h.popLog]; exact List.Pairwise.nil
      above := fun p hp => by rw [h.popLog] at hp; cases hp
      popFloor := fun p hp => by rw [h.popLog] at hp; cases hp
      bufFloor := fun i st hst => by rw [hth] at hst; cases hst
      late := fun _ _ hT => absurd trivial hT } }

/-- the ordering clauses of the invariant, in the configuration of C05 and under its premise -/
theorem GI.ord {s : BSt} (h : GI s) (hg : s.cfg.grace ≠ 0) (hr : s.cfg.refreshAfterSample = true)
    (hp : GracePremise s) : ∃ fl, PIo s.cfg fl s ∧ Ord fl (fun _ => True) s := by
  obtain ⟨fl, h⟩ := h
  exact ⟨fl, h, h.ord hg hr (premI_of_premise hp)⟩

/-- under the premise, the global pop order (newest first) is sorted -/
theorem GI.popSorted {s : BSt} (h : GI s) (hg : s.cfg.grace ≠ 0) (hr : s.cfg.refreshAfterSample = true)
    (hp : GracePremise s) : s.popLog.Pairwise (fun a b => b.ts ≤ a.ts) := by
  obtain ⟨fl, _, o⟩ := h.ord hg hr hp
  exact o.popSorted

end PB
end Backend
