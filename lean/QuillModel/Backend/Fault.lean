import QuillModel.Backend.Ops
/-!
# The backend machine with the extended fault model (w2_faults)

`Backend/Sched.lean` knows one kind of sink fault (a `std::exception` with text thrown by `write_log` / `flush_sink`).
This file is the same machine with

* **fault kinds** (`Sink.wkind`, `Sink.fkind`): what the catch handlers of `_process_lowest_timestamp_transit_event`,
  `_replay_backtrace_event`, `_flush_and_run_active_sinks` hand to the notifier is `e.what()` for a `std::exception`
  — which may be the EMPTY string — and `"Caught unhandled exception."` otherwise;
* **override patterns that cannot be built** (`Sink.patFails`): `_write_log_statement` creates the sink's own
  `PatternFormatter` lazily INSIDE the per-sink loop, after `apply_all_filters` accepted the statement and before
  `write_log` (`FCfg.patInLoop`, extracted). The constructor throws, the member stays null, so every later statement that
  reaches that sink throws again;
* **exceptions that escape the read pass** (`BSt.udt`, `BSt.dthrow`): the argument decoder of a user-defined type throws in
  `_populate_transit_event_from_frontend_queue`, i.e. after `prepare_read` and the `ts > ts_now` test, before `finish_read`,
  `push_back` and — for the records read earlier in the same pass — before `commit_read`. Nothing catches it inside
  `_populate_transit_events_from_frontend_queues` (`FCfg.readAborts`, extracted), so `_poll` is over: the run loop and
  `ManualBackendWorker::poll_one` catch it around `_poll()` and report `e.what()`.

Every function below is the function of the same name in `Sched.lean` plus these faults; with no fault armed they compute
the same states (`Props/Faults.lean`). The driver replays the harness on THIS machine.
-/
namespace Backend
open Spsc

/-- structural facts of the code the fault machine is parametric in (extracted; the defaults are the current tree) -/
structure FCfg where
  /-- the override formatter is created inside the per-sink loop, after the level/filter test -/
  patInLoop : Bool := true
  /-- an exception raised while a queue is read escapes the read pass (no per-queue catch) -/
  readAborts : Bool := true
  /-- the handlers of `_process_lowest_timestamp_transit_event` call the notifier whatever the text is -/
  notifyAlways : Bool := true
  deriving Repr

def kindAt (l : List (Nat × Nat)) (k : Nat) : Nat := ((l.find? (·.1 = k)).map (·.2)).getD 0

/-- what the catch handlers hand to the notifier: `e.what()` (canonical `base`), the empty text, or the catch-all text -/
def faultNote (base : String) : Nat → String
  | 0 => base
  | 1 => "n:empty"
  | _ => "n:unhandled"

/-- `_write_log_statement`. Returns the state and the text of the exception that escaped, if any. -/
def writeToSinksF (s : BSt) (st : Stmt) : List Nat → BSt × Option String
  | [] => (s, none)
  | sid :: rest =>
    let k := s.sinkOf sid
    if sinkAccepts k st then
      -- `if (sink->_override_pattern_formatter_options) { if (!sink->_override_pattern_formatter) make_shared<PatternFormatter>(…)`
      if k.patFails then (s, some "n:patfail") else
      let k' := { k with wcalls := k.wcalls + 1 }
      let s1 := s.setSink sid (fun _ => k')
      if throwsAt k.wthrow k'.wcalls then
        (s1.emit (.wthrow sid st.id), some (faultNote "n:wfail" (kindAt k.wkind k'.wcalls)))
      else writeToSinksF (s1.emit (.write sid st.id st.lvl st.ts st.named)) st rest
    else writeToSinksF s st rest

/-- `_dispatch_transit_event_to_sinks`; with `patInLoop = false` (the hoisted variant) every override formatter of the
    logger's sinks is created before the loop -/
def dispatchF (fc : FCfg) (s : BSt) (st : Stmt) : BSt × Option String :=
  let sinks := (s.lgOf st.lg).sinks
  if !fc.patInLoop && sinks.any (fun sid => (s.sinkOf sid).patFails) then (s, some "n:patfail")
  else writeToSinksF s st sinks

def replayGoF (fc : FCfg) (s : BSt) : List Stmt → BSt × Option String
  | [] => (s, none)
  | x :: xs =>
    let r := dispatchF fc s x
    match r.2 with
    | some m => if r.1.cfg.replayCatchesPerEvent then replayGoF fc (r.1.emit (.notify m)) xs else r
    | none => replayGoF fc r.1 xs

def replayRingF (fc : FCfg) (s : BSt) (lgi : Nat) : BSt × Option String :=
  match (s.lgOf lgi).bt with
  | none => (s, none)
  | some r =>
    let res := replayGoF fc s r.replay
    if res.2.isSome then res else (res.1.setLg lgi (fun l => { l with bt := some r.cleared }), none)

/-- `_flush_and_run_active_sinks`: per-sink try/catch, the notifier gets the text of the kind thrown -/
def flushSinksF (s : BSt) : BSt :=
  (activeSinks s).foldl (fun s sid =>
    let k := s.sinkOf sid
    let k' := { k with fcalls := k.fcalls + 1 }
    let s1 := s.setSink sid (fun _ => k')
    if throwsAt k.fthrow k'.fcalls then
      (s1.emit (.fthrow sid)).emit (.notify (faultNote "n:ffail" (kindAt k.fkind k'.fcalls)))
    else s1.emit (.flushed sid)) s

/-- `_flush_and_run_active_sinks(_, interval)` (see `flushGate`): interval 0 = always; else the clock read (site 7) and the gate -/
def flushGateF (inj : BSt → Nat → BSt) (s : BSt) (interval : Nat) : BSt :=
  if interval = 0 then flushSinksF s
  else
    let s1 := inj s 7
    if interval < s1.now - s1.lastFlush then flushSinksF { s1 with lastFlush := s1.now } else s1

/-- F33 repair, head of `_cleanup_invalidated_loggers` (see `preEraseFlush`) -/
def preEraseFlushF (s : BSt) : BSt :=
  if s.cfg.flushBeforeLoggerErase && s.hasInvalidLoggers then flushSinksF s else s

def processEventF (fc : FCfg) (s : BSt) (st : Stmt) : BSt × Option String × Option Nat :=
  match st.kind with
  | .log =>
    if st.lvl ≠ 9 then
      let r := dispatchF fc s st
      if r.2.isSome then (r.1, r.2, none) else
      let lg := r.1.lgOf st.lg
      if lg.btFlush ≤ st.lvl ∧ lg.bt.isSome then
        let r2 := replayRingF fc r.1 st.lg
        (r2.1, r2.2, none)
      else (r.1, none, none)
    else
      match (s.lgOf st.lg).bt with
      | some ring => (s.setLg st.lg (fun l => { l with bt := some (ring.store st) }), none, none)
      | none => (s, some "n:nobt", none)
  | .initBt cap _ =>
    let ring := ((s.lgOf st.lg).bt.getD {}).setCapacity cap
    (s.setLg st.lg (fun l => { l with bt := some ring }), none, none)
  | .flushBt =>
    let r := replayRingF fc s st.lg
    (r.1, r.2, none)
  | .flush f => (flushSinksF s, none, some f)
  | .removal _ => (s, none, none)

/-- the handlers of `_process_lowest_timestamp_transit_event`: the notifier is called in the handler, with whatever text
    (`notifyAlways`); the variant that keeps the text and reports after the pop `if (!text.empty())` drops the empty one -/
def reportF (fc : FCfg) (s : BSt) : Option String → BSt
  | some m => if !fc.notifyAlways && m == "n:empty" then s else s.emit (.notify m)
  | none => s

/-- `_process_lowest_timestamp_transit_event` -/
def processLowestF (fc : FCfg) (inj : BSt → Nat → BSt) (s : BSt) : BSt × Bool :=
  match lowest s with
  | none => (s, false)
  | some i =>
    match (s.th i).buf with
    | [] => (s, false)
    | st :: rest =>
      let (s1, exc, flag) := processEventF fc s st
      let s2 := reportF fc s1 exc
      let s3 := { s2.setTh i (fun t => { t with buf := rest, popped := t.popped ++ [st] }) with popLog := st :: s2.popLog }
      match flag with
      | some f =>
        let s3' := if s3.cfg.reportBeforeFlushCleanup then checkFailures inj s3 else s3
        let s4 := cleanupContexts s3'
        ({ s4 with flags := f :: s4.flags, flagLog := (f, s4.log.length) :: s4.flagLog }, true)
      | none => (s3, true)

/-- `_read_and_decode_frontend_queue`; the Boolean says that an exception escaped (the decoder of a user-defined type
    threw): the record offered by `prepare_read` stays in the queue, nothing read before it in this pass is committed -/
def readQueueF (inj : BSt → Nat → BSt) (tsNow : Option Nat) (i : Nat) : Nat → Nat → BSt → BSt × Bool
  | 0, total, s => (if total ≠ 0 then s.setTh i (fun t => { t with q := qCommitRead s.cfg t.q }) else s, false)
  | fuel + 1, total, s =>
    let th := s.th i
    let r := qPrepareRead s.cfg th.q
    let s1 := s.setTh i (fun t => { t with q := r.1 })
    let fin (s : BSt) : BSt := if total ≠ 0 then s.setTh i (fun t => { t with q := qCommitRead s.cfg t.q }) else s
    if !r.2 then (fin s1, false) else
    match th.qStmts with
    | [] => (fin s1, false)
    | st :: rest =>
      if (match tsNow with | some t => decide (t < st.ts) | none => false) then (fin s1, false) else
      -- `format_args_decoder(read_pos, _format_args_store)`: user code for a user-defined type
      let isU := isLogKind st.kind && s1.udt.contains st.id   -- (control events carry the id 0)
      let s1 := if isU then { s1 with dcalls := s1.dcalls + 1 } else s1
      if isU && s1.dthrow.contains s1.dcalls then (s1.emit (.notify s!"dthrow:{s1.dcalls}"), true) else
      let s2 := match st.kind with
        | .removal f => { s1 with removalFlags := s1.removalFlags ++ [((s1.lgOf st.lg).gid, f)] }
        | _ => s1
      let s3 := s2.setTh i (fun t => { t with q := qFinishRead s2.cfg t.q st.size, qStmts := rest, buf := t.buf ++ [st] })
      let s4 := inj (fmtNote s3 st) 3
      let total' := total + st.size
      if total' < s4.cfg.qcap ∧ (s4.th i).buf.length < s4.cfg.hard then readQueueF inj tsNow i fuel total' s4
      else (s4.setTh i (fun t => { t with q := qCommitRead s4.cfg t.q }), false)

/-- one step of the pass over the cached contexts; `acc.2.2`: an exception is in flight (the rest of the pass is skipped) -/
def passStepF (fc : FCfg) (inj : BSt → Nat → BSt) (tsNow : Option Nat) (acc : BSt × Nat × Bool) (i : Nat) : BSt × Nat × Bool :=
  if acc.2.2 then acc else
  let sA := inj acc.1 2
  let r := readQueueF inj tsNow i ((sA.th i).qStmts.length + 64) 0 sA
  if r.2 then
    if fc.readAborts then (r.1, acc.2.1, true)
    -- the variant with a try/catch around the read of ONE queue: report, go on with the next queue
    else (r.1.emit (.notify "n:dfail"), acc.2.1 + (r.1.th i).buf.length, false)
  else (r.1, acc.2.1 + (r.1.th i).buf.length, false)

/-- `_populate_transit_events_from_frontend_queues` -/
def populateF (fc : FCfg) (inj : BSt → Nat → BSt) (s : BSt) : BSt × Nat × Bool :=
  let s := if s.cfg.refreshAfterSample then s else refreshCache s
  let s := if s.cfg.grace = 0 then s else inj s 7
  let tsNow := tsNowOf s
  let s1 := inj s 1
  let s2 := if s.cfg.refreshAfterSample then refreshCache s1 else s1
  s2.cache.foldl (passStepF fc inj tsNow) (s2, 0, false)

def batchLoopF (fc : FCfg) (inj : BSt → Nat → BSt) : Nat → BSt → BSt
  | 0, s => s
  | fuel + 1, s =>
    let r := hasPending s
    if r.2 then r.1 else
    let p := processLowestF fc inj r.1
    if !p.2 then p.1 else batchLoopF fc inj fuel (inj p.1 4)

/-- `_poll`; an exception that escaped the read pass ends the poll, the caller of `_poll()` reports it -/
def pollF (fc : FCfg) (inj : BSt → Nat → BSt) (s : BSt) : BSt :=
  let (s1, count, aborted) := populateF fc inj s
  if aborted then s1.emit (.notify "n:dfail") else
  if count ≠ 0 then
    if count < s1.cfg.soft then (processLowestF fc inj s1).1
    else batchLoopF fc inj (totalBuffered s1 + 64) s1
  else
    let s2 := inj s1 5
    let s3 := checkFailures inj (flushGateF inj s2 s2.cfg.flushInterval)
    let r := allEmpty s3
    if r.2 then cleanupLoggers inj (preEraseFlushF (cleanupContexts r.1)) else r.1

/-- `_exit` (read-pass faults are disarmed by the caller: an exception there ends the backend thread) -/
def exitLoopF (fc : FCfg) (inj : BSt → Nat → BSt) (tick : Nat) : Nat → BSt → BSt
  | 0, s => s
  | fuel + 1, s =>
    let r := allEmpty s
    if r.2 then
      let s1 := flushSinksF (checkFailures inj r.1)
      cleanupLoggers inj (preEraseFlushF (cleanupContexts s1))
    else
      let s0 := { r.1 with now := r.1.now + tick }
      let (s1, count, aborted) := populateF fc inj s0
      if aborted then s1 else
      let s2 := if count > 0 then batchLoopF fc inj (totalBuffered s1 + 64) s1 else s1
      exitLoopF fc inj tick fuel s2

/-- operations of the fault machine: those of `Ops.lean`, a log call whose argument is the user-defined type with the
    throwing decoder (`LOG_INFO`, same bytes as a string argument), and arming the k-th decode of such an argument -/
inductive OpF
  | base (o : Op)
  | logU (a g len : Nat)
  | armDecode (k : Nat)
  deriving Repr, Inhabited

def applyOpF (fc : FCfg) (s : BSt) : OpF → BSt × String
  | .base (.front f) => applyFront s f
  | .base (.poll table) =>
    if s.backendGone then (s, "noop") else (pollF fc (runInj table) { s with siteCnt := [] }, "ev")
  | .base .exit =>
    if s.backendGone then (s, "noop") else
    ({ exitLoopF fc (runInj []) 1000 100000 { s with siteCnt := [], dthrow := [] } with backendGone := true }, "ev")
  | .logU a g len =>
    let r := applyFront s (.log a g 4 len false)
    if r.1.nextId ≠ s.nextId then ({ r.1 with udt := s.nextId :: r.1.udt }, r.2) else r
  | .armDecode k => ({ s with dthrow := k :: s.dthrow }, "ok")

def runOpsF (fc : FCfg) (s : BSt) (ops : List OpF) : BSt := ops.foldl (fun s o => (applyOpF fc s o).1) s

end Backend
