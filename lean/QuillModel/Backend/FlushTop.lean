import QuillModel.Backend.FlushBack
import QuillModel.Backend.OrdTop
/-!
Consequences of the flush invariant `FI` (and of the ordering invariant) used by the C06 theorems.
-/
namespace Backend
open Backend.PB

/-- a well-formed initial state for C06: as for C05, and no flag raised, no removal request decoded yet -/
structure StartF (s : BSt) : Prop where
  start : Start s
  flags : s.flags = []
  removalFlags : s.removalFlags = []

namespace PB

theorem start_FI {s : BSt} (h : StartF s) : FI none [] s := by
  have hth : ∀ i, s.th i = default := fun i => th_lt_or_default s i (by rw [h.start.ths]; exact Nat.zero_le _)
  have hact : ∀ a, pendOf s a = none := fun a => by simp [pendOf, BSt.actor, h.start.actors]
  exact {
    cons := fun i => by rw [hth]; rfl
    plog := fun i p hp => by rw [hth] at hp; cases hp
    flg := fun f hff => by rw [h.flags] at hff; cases hff
    flgP := fun f hff => by cases hff
    popFlag := fun i st hst => by rw [hth] at hst; cases hst
    rem := fun gf hgf => by rw [h.removalFlags] at hgf; cases hgf
    accLt := fun i f hff => by rw [hth] at hff; cases hff
    accNodup := fun i => by rw [hth]; exact List.nodup_nil
    accDisj := fun i j _ f hff => by rw [hth] at hff; cases hff
    pendFresh := fun a p st f hp => by rw [hact] at hp; cases hp }

/-! ### list facts -/

theorem filterMap_nodup_inj {α β} (g : α → Option β) : ∀ (l : List α), (l.filterMap g).Nodup →
    ∀ a b f, a ∈ l → b ∈ l → g a = some f → g b = some f → a = b := by
  intro l
  induction l with
  | nil => intro _ a b f ha; cases ha
  | cons x xs ih =>
    intro hn a b f ha hb hga hgb
    cases hx : g x with
    | none =>
      rw [List.filterMap_cons_none hx] at hn
      have ha' : a ∈ xs := by
        rcases List.mem_cons.mp ha with rfl | h
        · rw [hx] at hga; cases hga
        · exact h
      have hb' : b ∈ xs := by
        rcases List.mem_cons.mp hb with rfl | h
        · rw [hx] at hgb; cases hgb
        · exact h
      exact ih hn a b f ha' hb' hga hgb
    | some y =>
      rw [List.filterMap_cons_some hx, List.nodup_cons] at hn
      have key : ∀ c, c ∈ xs → g c = some f → y ≠ f := by
        intro c hc hgc hy
        exact hn.1 (List.mem_filterMap.mpr ⟨c, hc, by rw [hgc, hy]⟩)
      rcases List.mem_cons.mp ha with rfl | ha' <;> rcases List.mem_cons.mp hb with rfl | hb'
      · rfl
      · rw [hx] at hga; cases hga; exact absurd rfl (key b hb' hgb)
      · rw [hx] at hgb; cases hgb; exact absurd rfl (key a ha' hga)
      · exact ih hn.2 a b f ha' hb' hga hgb

/-- in a list with unique flag numbers, a prefix that contains the flag of `st` contains everything up to `st` -/
theorem prefix_covers {p r pre post : List Stmt} {st : Stmt} {f : Nat} (he : p ++ r = pre ++ st :: post)
    (hn : (flagsIn (p ++ r)).Nodup) (hst : flagOf st = some f) (hf : f ∈ flagsIn p) : ∃ more, p = pre ++ st :: more := by
  have hfst : f ∈ flagsIn [st] := mem_flagsIn.mpr ⟨st, List.mem_singleton.mpr rfl, hst⟩
  rcases List.append_eq_append_iff.mp he with ⟨a', h1, h2⟩ | ⟨c', h1, h2⟩
  · -- `p` ends before `st`: the flag would occur twice
    exfalso
    rw [h2, flagsIn_append] at hn
    have hd := (List.nodup_append.mp hn).2.2
    refine hd f hf f ?_ rfl
    rw [flagsIn_append, show st :: post = [st] ++ post from rfl, flagsIn_append]
    exact List.mem_append_right _ (List.mem_append_left _ hfst)
  · cases c' with
    | nil =>
      exfalso
      simp only [List.append_nil, List.nil_append] at h1 h2
      rw [he, flagsIn_append] at hn
      have hd := (List.nodup_append.mp hn).2.2
      refine hd f (by rw [← h1]; exact hf) f ?_ rfl
      rw [show st :: post = [st] ++ post from rfl, flagsIn_append]
      exact List.mem_append_left _ hfst
    | cons c cs =>
      simp only [List.cons_append, List.cons.injEq] at h2
      exact ⟨cs, by rw [h1, h2.1]⟩

variable {s : BSt}

/-- flag numbers identify their statement: across all contexts, two accepted records with the same flag number are
    the same record of the same context -/
theorem FI.flag_unique (h : FI none [] s) {i j : Nat} {st st' : Stmt} {f : Nat}
    (h1 : st ∈ (s.th i).accepted) (h2 : st' ∈ (s.th j).accepted) (f1 : flagOf st = some f) (f2 : flagOf st' = some f) :
    i = j ∧ st = st' := by
  have hij : i = j := by
    apply Classical.byContradiction; intro hne
    exact h.accDisj i j hne f (mem_flagsIn.mpr ⟨st, h1, f1⟩) (mem_flagsIn.mpr ⟨st', h2, f2⟩)
  subst hij
  exact ⟨rfl, filterMap_nodup_inj flagOf _ (h.accNodup i) st st' f h1 h2 f1 f2⟩

/-- the flag of a Flush statement is raised only after the statement and everything its thread accepted before it
    have been popped -/
theorem FI.flush_flag_popped (h : FI none [] s) {i : Nat} {pre post : List Stmt} {st : Stmt} {f : Nat}
    (hacc : (s.th i).accepted = pre ++ st :: post) (hk : st.kind = .flush f) (hf : f ∈ s.flags) :
    ∃ more, (s.th i).popped = pre ++ st :: more := by
  have hfo : flagOf st = some f := by simp [flagOf, hk, flagOfK]
  have hsti : st ∈ (s.th i).accepted := by rw [hacc]; simp
  rcases h.flg f hf with ⟨j, st', hp, hk'⟩ | ⟨j, st', ha, hk'⟩
  · have hfo' : flagOf st' = some f := by simp [flagOf, hk', flagOfK]
    have hst'j : st' ∈ (s.th j).accepted := by
      rw [h.cons j]; exact List.mem_append_left _ (List.mem_append_left _ hp)
    obtain ⟨hij, _⟩ := h.flag_unique hsti hst'j hfo hfo'
    subst hij
    have hc := h.cons i
    rw [List.append_assoc] at hc
    refine prefix_covers (p := (s.th i).popped) (r := (s.th i).buf ++ (s.th i).qStmts) (post := post) ?_ ?_ hfo
      (mem_flagsIn.mpr ⟨st', hp, hfo'⟩)
    · rw [← hc, hacc]
    · rw [← hc]; exact h.accNodup i
  · exfalso
    have hfo' : flagOf st' = some f := by simp [flagOf, hk', flagOfK]
    obtain ⟨_, he⟩ := h.flag_unique hsti ha hfo hfo'
    rw [he, hk'] at hk; cases hk

end PB
end Backend
