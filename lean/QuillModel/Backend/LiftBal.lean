import QuillModel.Backend.SinkBack
/-!
Balance invariants over the OBSERVABLE event log (skeleton `Backend.PC.Closed`, which lists every primitive of the backend
separately — `flushSinks`, `report`, `pop`, `reap`, the injected-operation marker — so that an invariant that counts
events can be carried through every schedule).

For a weight `d : Ev → Int` on events and a weight `b` on the ghost counter `reported`,
`bal s = Σ_{e ∈ s.log} d e + b * s.reported` is constant along every schedule as soon as the weights cancel on the few
event groups the machine emits together (`WtOK`): a `wthrow` with its `n:wfail` notification, an `fthrow` with its
`n:ffail`, a `n:dropped:<k>:a<t>` / `n:blocked:<k>:a<t>` notification with the `k` added to `reported`.
Helper lemmas only; the property theorems are in `Props/C08Log.lean` and `Props/C10Faults.lean`.
-/
namespace Backend.PC
open Backend Spsc

structure Wt where
  d : Ev → Int
  b : Int

def Wt.sum (W : Wt) : List Ev → Int
  | [] => 0
  | e :: l => W.d e + W.sum l

theorem Wt.sum_append (W : Wt) (a b : List Ev) : W.sum (a ++ b) = W.sum a + W.sum b := by
  induction a with
  | nil => simp [Wt.sum]
  | cons e l ih => simp only [List.cons_append, Wt.sum, ih]; omega

def bal (W : Wt) (s : BSt) : Int := W.sum s.log + W.b * (s.reported : Int)

/-- the part of the state `bal` reads -/
def lr (s : BSt) : List Ev × Nat := (s.log, s.reported)

variable {W : Wt}

theorem bal_lr {s s' : BSt} (h : lr s' = lr s) : bal W s' = bal W s := by
  have h1 : s'.log = s.log := congrArg Prod.fst h
  have h2 : s'.reported = s.reported := congrArg Prod.snd h
  unfold bal; rw [h1, h2]

theorem bal_emit (s : BSt) (e : Ev) : bal W (s.emit e) = W.d e + bal W s := by
  show W.sum (e :: s.log) + W.b * (s.reported : Int) = _
  unfold bal; simp only [Wt.sum]; omega

theorem bal_setSink (s : BSt) (i : Nat) (f : Sink → Sink) : bal W (s.setSink i f) = bal W s := rfl
theorem bal_setLg (s : BSt) (i : Nat) (f : Lg → Lg) : bal W (s.setLg i f) = bal W s := rfl
theorem bal_setTh (s : BSt) (i : Nat) (f : Th → Th) : bal W (s.setTh i f) = bal W s := rfl

/-- the text of a failure-counter notification (`_check_failure_counter`) -/
def reportStr (dropping : Bool) (n a : Nat) : String :=
  if dropping then s!"n:dropped:{n}:a{a}" else s!"n:blocked:{n}:a{a}"

/-- the weights cancel on every group of events the machine emits together -/
structure WtOK (W : Wt) : Prop where
  inj : ∀ a b c d, W.d (.inj a b c d) = 0
  dtor : ∀ sid, W.d (.sinkDtor sid) = 0
  write : ∀ a b c d e, W.d (.write a b c d e) = 0
  flushed : ∀ sid, W.d (.flushed sid) = 0
  ffail : ∀ sid, W.d (.fthrow sid) + W.d (.notify "n:ffail") = 0
  wfail : ∀ sid id, W.d (.wthrow sid id) + W.d (.notify "n:wfail") = 0
  nobt : W.d (.notify "n:nobt") = 0
  fmterr : W.d (.notify "n:fmterr") = 0
  report : ∀ dr n a, 0 < n → W.d (.notify (reportStr dr n a)) + W.b * (n : Int) = 0

/-! ### the sink path -/

/-- what the report of an escaped `write_log` exception weighs -/
def bw (W : Wt) : Bool → Int
  | true => W.d (.notify "n:wfail")
  | false => 0

theorem writeToSinks_bal (hW : WtOK W) (st : Stmt) : ∀ (sids : List Nat) (s : BSt),
    bal W (writeToSinks s st sids).1 + bw W (writeToSinks s st sids).2 = bal W s
  | [], s => by simp [writeToSinks, bw]
  | x :: rest, s => by
    unfold writeToSinks
    dsimp only
    by_cases ha : sinkAccepts (s.sinkOf x) st = true
    · rw [if_pos ha]
      by_cases ht : throwsAt (s.sinkOf x).wthrow ((s.sinkOf x).wcalls + 1) = true
      · rw [if_pos ht]
        simp only [bw]
        rw [bal_emit, bal_setSink]
        have := hW.wfail x st.id
        omega
      · rw [if_neg ht]
        rw [writeToSinks_bal hW st rest, bal_emit, bal_setSink, hW.write]
        omega
    · rw [if_neg ha]
      exact writeToSinks_bal hW st rest s

theorem dispatch_bal (hW : WtOK W) (s : BSt) (st : Stmt) :
    bal W (dispatch s st).1 + bw W (dispatch s st).2 = bal W s :=
  writeToSinks_bal hW st _ s

theorem replayGo_bal (hW : WtOK W) : ∀ (l : List Stmt) (s : BSt),
    bal W (replayRing.go s l).1 + bw W (replayRing.go s l).2 = bal W s
  | [], s => by simp [replayRing.go, bw]
  | x :: xs, s => by
    have hd := dispatch_bal hW s x
    unfold replayRing.go
    dsimp only
    cases h2 : (dispatch s x).2 with
    | true =>
      rw [h2] at hd
      simp only [bw] at hd
      simp only [↓reduceIte]
      by_cases hc : (dispatch s x).1.cfg.replayCatchesPerEvent = true
      · rw [if_pos hc, replayGo_bal hW xs, bal_emit]
        omega
      · rw [if_neg hc, h2]
        simp only [bw]
        omega
    | false =>
      rw [h2] at hd
      simp only [bw] at hd
      simp only [Bool.false_eq_true, ↓reduceIte]
      rw [replayGo_bal hW xs]
      omega

theorem replayRing_bal (hW : WtOK W) (s : BSt) (lgi : Nat) :
    bal W (replayRing s lgi).1 + bw W (replayRing s lgi).2 = bal W s := by
  unfold replayRing
  split
  · simp [bw]
  · next r hr =>
    dsimp only
    have h := replayGo_bal hW r.replay s
    cases h2 : (replayRing.go s r.replay).2 with
    | true =>
      simp only [↓reduceIte]
      rw [h2]
      rw [h2] at h
      exact h
    | false =>
      simp only [Bool.false_eq_true, ↓reduceIte]
      rw [h2] at h
      simp only [bw] at h ⊢
      rw [bal_setLg]
      omega

theorem flushSinks_bal (hW : WtOK W) (s : BSt) : bal W (flushSinks s) = bal W s := by
  unfold flushSinks
  refine foldl_pres (fun x => bal W x = bal W s) _ ?_ _ s rfl
  intro a sid ha
  dsimp only
  split
  · rw [bal_emit, bal_emit, bal_setSink, ha]
    have := hW.ffail sid
    omega
  · rw [bal_emit, bal_setSink, ha, hW.flushed]
    omega

/-- what an escaped exception adds when it is reported -/
def excW (W : Wt) : Option String → Int
  | some m => W.d (.notify m)
  | none => 0

/-- **one processed event**, with the notification of its escaped exception: balanced -/
theorem processEvent_bal (hW : WtOK W) (s : BSt) (st : Stmt) :
    bal W (processEvent s st).1 + excW W (processEvent s st).2.1 = bal W s := by
  unfold processEvent
  split
  · split
    · dsimp only
      have hd := dispatch_bal hW s st
      cases h2 : (dispatch s st).2 with
      | true =>
        rw [h2] at hd
        simp only [bw] at hd
        simp only [↓reduceIte, excW]
        exact hd
      | false =>
        rw [h2] at hd
        simp only [bw] at hd
        simp only [Bool.false_eq_true, ↓reduceIte]
        split
        · have hr := replayRing_bal hW (dispatch s st).1 st.lg
          cases h3 : (replayRing (dispatch s st).1 st.lg).2 with
          | true =>
            rw [h3] at hr
            simp only [bw] at hr
            simp only [↓reduceIte, excW]
            omega
          | false =>
            rw [h3] at hr
            simp only [bw] at hr
            simp only [Bool.false_eq_true, ↓reduceIte, excW]
            omega
        · simp only [excW]; omega
    · split
      · simp only [excW]; rw [bal_setLg]; omega
      · simp only [excW, hW.nobt]; omega
  · simp only [excW]; rw [bal_setLg]; omega
  · have hr := replayRing_bal hW s st.lg
    cases h3 : (replayRing s st.lg).2 with
    | true =>
      rw [h3] at hr
      simp only [bw] at hr
      dsimp only
      rw [h3]
      simp only [↓reduceIte, excW]
      omega
    | false =>
      rw [h3] at hr
      simp only [bw] at hr
      dsimp only
      rw [h3]
      simp only [Bool.false_eq_true, ↓reduceIte, excW]
      omega
  · simp only [excW]; rw [flushSinks_bal hW]; omega
  · simp only [excW]; omega

theorem popSt_bal (hW : WtOK W) (s : BSt) (i : Nat) (st : Stmt) (rest : List Stmt) :
    bal W (popSt s i st rest) = bal W s := by
  have h := processEvent_bal hW s st
  have e : bal W (popSt s i st rest) = bal W (match (processEvent s st).2.1 with
      | some m => (processEvent s st).1.emit (.notify m) | none => (processEvent s st).1) := rfl
  rw [e]
  cases hm : (processEvent s st).2.1 with
  | none =>
    rw [hm] at h
    simp only [excW] at h
    dsimp only
    omega
  | some m =>
    rw [hm] at h
    simp only [excW] at h
    dsimp only
    rw [bal_emit]
    omega

theorem reportSt_bal (hW : WtOK W) (s : BSt) (i : Nat) (hf : (s.th i).fail > 0) : bal W (reportSt s i) = bal W s := by
  have h := hW.report s.cfg.dropping (s.th i).fail (s.th i).actor hf
  show W.sum (Ev.notify (reportStr s.cfg.dropping (s.th i).fail (s.th i).actor) :: s.log) +
    W.b * ((s.reported + (s.th i).fail : Nat) : Int) = _
  unfold bal
  simp only [Wt.sum]
  rw [Int.natCast_add, Int.mul_add]
  omega

/-! ### the frontend -/

theorem ensureCtx_lr (s : BSt) (a : Nat) : lr (ensureCtx s a).1 = lr s := by
  unfold ensureCtx; split <;> rfl

theorem tryEnq_lr (s : BSt) (ci : Nat) (st : Stmt) : lr (tryEnq s ci st).1 = lr s := by
  unfold tryEnq; simp only []; split <;> rfl

theorem afterEnq_lr (s : BSt) (a : Nat) (st : Stmt) (cont : Nat) : lr (afterEnq s a st cont).1 = lr s := by
  unfold afterEnq
  split <;> rfl

theorem enqFlow_lr (s : BSt) (a : Nat) (st : Stmt) (cont : Nat) (first initial : Bool) :
    lr (enqFlow s a st cont first initial).1 = lr s := by
  have h0 : lr (tryEnq (ensureCtx s a).1 (ensureCtx s a).2 st).1 = lr s := by
    rw [tryEnq_lr, ensureCtx_lr]
  unfold enqFlow
  simp only []
  split
  · rw [afterEnq_lr]; exact h0
  · repeat' split
    all_goals exact h0

theorem frontCall_lr (s : BSt) (a lgi : Nat) (kind : Kind) (lvl len cont : Nat) (dyn : Bool) (id : Nat) (named : Bool) :
    lr (frontCall s a lgi kind lvl len cont dyn id named).1 = lr s := by
  unfold frontCall; simp only []; split
  · rfl
  · exact enqFlow_lr ..

theorem resume_lr (s : BSt) (a : Nat) : lr (resume s a).1 = lr s := by
  unfold resume; split
  · exact enqFlow_lr ..
  · split <;> exact enqFlow_lr ..
  · split <;> rfl
  · rfl

theorem withLogger_lr (s : BSt) (a g : Nat) (k : Nat → BSt × String)
    (hk : ∀ lgi, lr (k lgi).1 = lr s) : lr (withLogger s a g k).1 = lr s := by
  unfold withLogger; split
  · exact hk _
  · rfl

theorem reapSinks_bal (hW : WtOK W) (sids : List Nat) (s : BSt) : bal W (reapSinks s sids) = bal W s := by
  unfold reapSinks
  refine foldl_pres (fun x => bal W x = bal W s) _ ?_ _ s rfl
  intro a sid ha
  split
  · rw [bal_emit, bal_setSink, ha, hW.dtor]; omega
  · exact ha

theorem applyFront_bal (hW : WtOK W) (s : BSt) (f : FOp) : bal W (applyFront s f).1 = bal W s := by
  cases f <;> simp only [applyFront]
  case tick => exact bal_lr rfl
  case tstart => split <;> exact bal_lr rfl
  case texit => split; rfl; split <;> exact bal_lr rfl
  case resume a =>
    split
    · exact bal_lr (resume_lr s a)
    · split
      · exact bal_lr (resume_lr s a)
      · exact bal_lr (resume_lr s a)
  case armStall => split <;> exact bal_lr rfl
  case log a g lvl len dyn =>
    refine bal_lr (withLogger_lr _ _ _ _ (fun lgi => ?_)); split
    · exact frontCall_lr ..
    · rfl
  case logNamed a g len =>
    refine bal_lr (withLogger_lr _ _ _ _ (fun lgi => ?_)); split
    · exact frontCall_lr ..
    · rfl
  case logBt a g len =>
    refine bal_lr (withLogger_lr _ _ _ _ (fun lgi => ?_)); split
    · exact frontCall_lr ..
    · rfl
  case initBt => exact bal_lr (withLogger_lr _ _ _ _ (fun lgi => frontCall_lr ..))
  case flushBt => exact bal_lr (withLogger_lr _ _ _ _ (fun lgi => frontCall_lr ..))
  case flush => exact bal_lr (withLogger_lr _ _ _ _ (fun lgi => frontCall_lr ..))
  case removeBlocking a g =>
    split
    · rfl
    · exact bal_lr (withLogger_lr _ _ _ _ (fun lgi => frontCall_lr ..))
  case remove a g =>
    split
    · rfl
    · split
      · exact bal_lr rfl
      · rfl
  case create a g sl =>
    split
    · rfl
    · split
      · split
        · rfl
        · exact bal_lr rfl
      · exact bal_lr rfl
  case setLevel g lvl =>
    split
    · exact bal_lr rfl
    · rfl
  case setSinkLevel sid lvl =>
    split
    · exact bal_lr rfl
    · rfl
  case dropSink sid =>
    rw [reapSinks_bal hW]; exact bal_lr rfl

/-! ### the invariant -/

/-- the balance has the value `c` -/
def BalInv (W : Wt) (c : Int) (s : BSt) : Prop := bal W s = c

theorem BalInv.lr {c : Int} {s s' : BSt} (h : BalInv W c s) (e : lr s' = lr s) : BalInv W c s' := by
  unfold BalInv; rw [bal_lr e]; exact h

theorem allEmpty_lr (s : BSt) : lr (allEmpty s).1 = lr s := by
  unfold allEmpty
  simp only []
  apply foldl_pres_pair (fun x => lr x = lr s)
    (fun (acc : BSt × Bool) i => ((ctxEmpty acc.1 i).1, acc.2 && (ctxEmpty acc.1 i).2))
  · intro acc i h; exact h
  · show lr (refreshCache s) = lr s
    unfold refreshCache; split <;> rfl

theorem hasPending_lr (s : BSt) : lr (hasPending s).1 = lr s := by
  unfold hasPending
  simp only []
  apply foldl_pres_pair (fun x => lr x = lr s)
  · intro acc i h
    split
    · exact h
    · split
      · exact h
      · exact h
  · show lr (refreshCache s) = lr s
    unfold refreshCache; split <;> rfl

theorem BalInv.closed (hW : WtOK W) (c : Int) : Closed (BalInv W c) where
  lastFlush := fun s n h => h.lr rfl
  front := fun s f h => by unfold BalInv; rw [applyFront_bal hW]; exact h
  siteCnt := fun s x h => h.lr rfl
  emitInj := fun s a b c d h => by unfold BalInv; rw [bal_emit, hW.inj]; unfold BalInv at h; omega
  note := fun s h => by unfold BalInv; rw [bal_emit, hW.fmterr]; unfold BalInv at h; omega
  clock := fun s n h => h.lr rfl
  gone := fun s h => h.lr rfl
  refresh := fun s h => h.lr (by unfold refreshCache; split <;> rfl)
  allEmpty := fun s h => h.lr (allEmpty_lr s)
  hasPending := fun s h => h.lr (hasPending_lr s)
  cleanupContexts := fun s h =>
    cleanupContexts_pres (BalInv W c) (fun x i hx => hx.lr rfl) (fun x i hx => hx.lr rfl) s h
  invFlag := fun s b h => h.lr rfl
  erase := fun s i h hv he => (h.lr (allEmpty_lr s)).lr rfl
  reap := fun s sid h ha hr => by unfold BalInv; rw [bal_emit, bal_setSink, hW.dtor]; unfold BalInv at h; omega
  flagRemoval := fun s0 s f g h0 h he hf => h.lr rfl
  flushSinks := fun s h => by unfold BalInv; rw [flushSinks_bal hW]; exact h
  readPrep := fun s i h => h.lr rfl
  commit := fun s i h => h.lr rfl
  readOne := fun s i st rest h hr hq => h.lr (by
    unfold readOneSt moveSt decodeSt readPrepSt
    split <;> rfl)
  report := fun s i h hf => by unfold BalInv; rw [reportSt_bal hW s i hf]; exact h
  pop := fun s i st rest h hl hb => by unfold BalInv; rw [popSt_bal hW]; exact h
  raise := fun s f h hg => h.lr rfl

/-- **the balance is constant along every schedule** -/
theorem bal_runOps (hW : WtOK W) (s0 : BSt) (ops : List Op) : bal W (runOps s0 ops) = bal W s0 :=
  runOps_closed (BalInv.closed hW (bal W s0)) ops s0 rfl

end Backend.PC
