import QuillModel.Backend.PcBasic
/-!
Helper lemmas for C16 (level / filter decisions): what a log call does once the level check has passed
(`enqFlow_granted`, `enqFlow_refused`), and what `_write_log_statement` (`writeToSinks`) hands to which sink.
-/
namespace Backend.PC
open Backend Spsc

/-- the record a log call builds -/
def mkStmt (s : BSt) (a lgi : Nat) (kind : Kind) (lvl len : Nat) (dyn : Bool) (id : Nat) (named : Bool) : Stmt :=
  { id := id, kind := kind, lg := lgi, lvl := lvl, ts := s.now,
    size := stmtSize s.cfg kind id len dyn (s.lgOf lgi).gid, actor := a, named := named }

theorem frontCall_eq (s : BSt) (a lgi : Nat) (kind : Kind) (lvl len cont : Nat) (dyn : Bool) (id : Nat) (named : Bool) :
    frontCall s a lgi kind lvl len cont dyn id named =
      if ((s.actor a).map (·.stallArmed)).getD false then
        (s.setActor a (fun x => { x with stallArmed := false, pend := .stall (mkStmt s a lgi kind lvl len dyn id named) cont }),
         if cont = 0 ∨ cont = 5 then s!"id={id} parked:stall" else "parked:stall")
      else enqFlow s a (mkStmt s a lgi kind lvl len dyn id named) cont true := rfl

/-- granted reservation of an ordinary log call: the record (stamped with the commit clock) is appended to the
    thread's queue and to its `accepted` history; nothing else about the thread changes but the queue positions -/
theorem enqFlow_granted (s : BSt) (a : Nat) (st : Stmt) (cont : Nat) (first initial : Bool)
    (hk : st.kind = .log) (hc : cont = 0 ∨ cont = 5)
    (hwf : ∀ x i, s.actor a = some x → x.ctx = some i → i < s.ths.length)
    (hg : (qPrepareWrite s.cfg (((ensureCtx s a).1.th (ensureCtx s a).2).q) st.size).2 = true) :
    let e := ensureCtx s a
    let r := enqFlow s a st cont first initial
    (r.1.th e.2).accepted = (e.1.th e.2).accepted ++ [{ st with enqAt := s.now }] ∧
    (r.1.th e.2).qStmts = (e.1.th e.2).qStmts ++ [{ st with enqAt := s.now }] ∧
    (r.1.th e.2).discarded = (e.1.th e.2).discarded ∧
    (∀ j, j ≠ e.2 → r.1.th j = e.1.th j) ∧
    r.2 = obsLog st cont (some true) st.size := by
  intro e r
  have hlt := ensureCtx_lt s a hwf
  have hcfg := ensureCtx_cfg s a
  have hnow := ensureCtx_now s a
  show ((enqFlow s a st cont first initial).1.th e.2).accepted = _ ∧ ((enqFlow s a st cont first initial).1.th e.2).qStmts = _ ∧
    ((enqFlow s a st cont first initial).1.th e.2).discarded = _ ∧ (∀ j, j ≠ e.2 → (enqFlow s a st cont first initial).1.th j = e.1.th j) ∧
    (enqFlow s a st cont first initial).2 = _
  unfold enqFlow
  simp only [tryEnq]
  rw [hcfg]
  simp only [hg, if_true]
  have haf : ∀ x : BSt, afterEnq x a st cont = (x, obsLog st cont (some true) st.size) := by
    intro x; rcases hc with rfl | rfl <;> simp [afterEnq, hk]
  simp only [haf, th_setActor]
  refine ⟨?_, ?_, ?_, ?_, trivial⟩
  · rw [th_setTh_same _ _ _ hlt, hnow]
  · rw [th_setTh_same _ _ _ hlt, hnow]
  · rw [th_setTh_same _ _ _ hlt]
  · intro j hj; rw [th_setTh_ne _ _ _ _ hj]


/-- refused reservation of an ordinary log call: nothing is appended anywhere; a dropping queue counts the
    statement as discarded and the call returns, a blocking queue parks the call with the very same record -/
theorem enqFlow_refused (s : BSt) (a : Nat) (st : Stmt) (cont : Nat) (first initial : Bool)
    (hk : st.kind = .log) (hc : cont = 0 ∨ cont = 5)
    (hwf : ∀ x i, s.actor a = some x → x.ctx = some i → i < s.ths.length)
    (hg : (qPrepareWrite s.cfg (((ensureCtx s a).1.th (ensureCtx s a).2).q) st.size).2 = false) :
    let e := ensureCtx s a
    let r := enqFlow s a st cont first initial
    (∀ j, (r.1.th j).accepted = (e.1.th j).accepted ∧ (r.1.th j).qStmts = (e.1.th j).qStmts ∧
          (r.1.th j).buf = (e.1.th j).buf) ∧
    (s.cfg.dropping = true →
        (r.1.th e.2).discarded = (e.1.th e.2).discarded + 1 ∧ (∀ x, r.1.actor a = some x → x.pend = .none)) ∧
    (s.cfg.dropping = false → (∀ x, r.1.actor a = some x → x.pend = .retry st cont)) := by
  intro e r
  have hlt := ensureCtx_lt s a hwf
  have hlt2 : ∀ f, (ensureCtx s a).2 < ((ensureCtx s a).1.setTh (ensureCtx s a).2 f).ths.length := by
    intro f; rw [ths_length_setTh]; exact hlt
  have hcfg := ensureCtx_cfg s a
  show (∀ j, ((enqFlow s a st cont first initial).1.th j).accepted = _ ∧ ((enqFlow s a st cont first initial).1.th j).qStmts = _ ∧
      ((enqFlow s a st cont first initial).1.th j).buf = _) ∧
    (_ → ((enqFlow s a st cont first initial).1.th e.2).discarded = _ ∧ (∀ x, (enqFlow s a st cont first initial).1.actor a = some x → _)) ∧
    (_ → (∀ x, (enqFlow s a st cont first initial).1.actor a = some x → _))
  cases hd : s.cfg.dropping <;> cases first <;> rcases hc with rfl | rfl <;>
    simp only [enqFlow, tryEnq, hcfg, hg, hd, hk, isLogKind, Bool.false_eq_true, if_false, if_true, true_or, or_true,
      th_setActor] <;>
    refine ⟨fun j => ⟨?_, ?_, ?_⟩, ?_, ?_⟩ <;>
    first
      | (intro h; cases h; done)
      | (intro _ x hx; exact pend_setActor _ _ _ x hx)
      | (intro _; refine ⟨?_, fun x hx => pend_setActor _ _ _ x hx⟩
         rw [th_setTh_same _ _ _ (hlt2 _), th_setTh_same _ _ _ hlt])
      | rfl
      | (simp only [accepted_setTh, qStmts_setTh, buf_setTh, implies_true]; done)
      | (simp only [accepted_setTh, qStmts_setTh, buf_setTh, implies_true]; rfl)

theorem find?_map_pres {α} (l : List α) (p : α → Bool) (g : α → α) (h : ∀ x ∈ l, p (g x) = p x) :
    (l.map g).find? p = (l.find? p).map g := by
  induction l with
  | nil => rfl
  | cons x xs ih =>
    have hx := h x (List.mem_cons_self)
    have ih' := ih (fun y hy => h y (List.mem_cons_of_mem _ hy))
    simp only [List.map_cons, List.find?_cons, hx]
    cases p x <;> simp [ih']

/-- all fields but the call counters agree -/
def SinkCfgEq (k k' : Sink) : Prop :=
  k'.sid = k.sid ∧ k'.lvl = k.lvl ∧ k'.filtM = k.filtM ∧ k'.filtR = k.filtR ∧ k'.wthrow = k.wthrow ∧
  k'.fthrow = k.fthrow ∧ k'.userRef = k.userRef ∧ k'.alive = k.alive

theorem SinkCfgEq.refl (k : Sink) : SinkCfgEq k k := ⟨rfl, rfl, rfl, rfl, rfl, rfl, rfl, rfl⟩
theorem SinkCfgEq.trans {a b c : Sink} (h1 : SinkCfgEq a b) (h2 : SinkCfgEq b c) : SinkCfgEq a c := by
  obtain ⟨a1, a2, a3, a4, a5, a6, a7, a8⟩ := h1
  obtain ⟨b1, b2, b3, b4, b5, b6, b7, b8⟩ := h2
  exact ⟨b1.trans a1, b2.trans a2, b3.trans a3, b4.trans a4, b5.trans a5, b6.trans a6, b7.trans a7, b8.trans a8⟩

theorem sinkAccepts_cfgEq {k k' : Sink} (h : SinkCfgEq k k') (st : Stmt) : sinkAccepts k' st = sinkAccepts k st := by
  obtain ⟨_, h2, h3, h4, _⟩ := h
  simp only [sinkAccepts, h2, h3, h4]

theorem sinkOf_mem (s : BSt) (sid : Nat) (x : Sink) (h : s.sinks.find? (·.sid = sid) = some x) :
    s.sinkOf sid = x ∧ x.sid = sid := by
  refine ⟨by simp only [BSt.sinkOf, h, Option.getD_some], ?_⟩
  have := List.find?_some h
  simpa using this

/-- replacing a sink by a copy of itself with other call counters leaves every sink's configuration alone -/
theorem sinkOf_setSink_counters (s : BSt) (sid : Nat) (k' : Sink) (hk : SinkCfgEq (s.sinkOf sid) k') (sid' : Nat) :
    SinkCfgEq (s.sinkOf sid') ((s.setSink sid (fun _ => k')).sinkOf sid') := by
  cases hf : s.sinks.find? (·.sid = sid) with
  | none =>
    have hall : ∀ x ∈ s.sinks, ¬ x.sid = sid := by
      intro x hx; have := List.find?_eq_none.mp hf x hx; simpa using this
    have : (s.setSink sid (fun _ => k')).sinks = s.sinks := by
      simp only [BSt.setSink]
      conv => rhs; rw [← List.map_id s.sinks]
      apply List.map_congr_left
      intro x hx; simp [hall x hx]
    simp only [BSt.sinkOf, this]; exact SinkCfgEq.refl _
  | some k =>
    obtain ⟨hk1, hk2⟩ := sinkOf_mem s sid k hf
    rw [hk1] at hk
    have hsid : k'.sid = sid := hk.1.trans hk2
    have hfind : (s.setSink sid (fun _ => k')).sinks.find? (·.sid = sid') =
        (s.sinks.find? (·.sid = sid')).map (fun x => if x.sid = sid then k' else x) := by
      simp only [BSt.setSink]
      apply find?_map_pres
      intro x _
      by_cases hx : x.sid = sid <;> simp [hx, hsid]
    simp only [BSt.sinkOf, hfind]
    cases hf' : s.sinks.find? (·.sid = sid') with
    | none => exact SinkCfgEq.refl _
    | some x =>
      simp only [Option.map_some, Option.getD_some]
      by_cases hx : x.sid = sid
      · simp only [hx, if_true]
        have hx2 := (sinkOf_mem s sid' x hf').2
        have : sid' = sid := hx2.symm.trans hx
        subst this
        rw [hf] at hf'; cases hf'; exact hk
      · simp only [hx, if_false]; exact SinkCfgEq.refl _

@[simp] theorem sinkOf_emit (s : BSt) (e : Ev) (sid : Nat) : (s.emit e).sinkOf sid = s.sinkOf sid := rfl
@[simp] theorem log_emit (s : BSt) (e : Ev) : (s.emit e).log = e :: s.log := rfl
@[simp] theorem log_setSink (s : BSt) (sid : Nat) (f : Sink → Sink) : (s.setSink sid f).log = s.log := rfl

theorem bump_cfgEq (k : Sink) : SinkCfgEq k { k with wcalls := k.wcalls + 1 } := ⟨rfl, rfl, rfl, rfl, rfl, rfl, rfl, rfl⟩

/-- `_write_log_statement` never changes a sink's level, filters, fault schedule or liveness -/
theorem writeToSinks_cfgEq (st : Stmt) : ∀ (sids : List Nat) (s : BSt) (sid' : Nat),
    SinkCfgEq (s.sinkOf sid') ((writeToSinks s st sids).1.sinkOf sid')
  | [], s, sid' => SinkCfgEq.refl _
  | sid :: rest, s, sid' => by
    have h1 := sinkOf_setSink_counters s sid _ (bump_cfgEq (s.sinkOf sid)) sid'
    simp only [writeToSinks]
    split
    · split
      · exact h1
      · exact h1.trans (writeToSinks_cfgEq st rest _ sid')
    · exact writeToSinks_cfgEq st rest s sid'

def writeEv (st : Stmt) (sid : Nat) : Ev := .write sid st.id st.lvl st.ts st.named

theorem writeToSinks_log_of_no_throw (st : Stmt) : ∀ (sids : List Nat) (s : BSt),
    (writeToSinks s st sids).2 = false →
    (writeToSinks s st sids).1.log =
      ((sids.filter (fun sid => sinkAccepts (s.sinkOf sid) st)).map (writeEv st)).reverse ++ s.log
  | [], s, _ => rfl
  | sid :: rest, s, h => by
    simp only [writeToSinks] at h ⊢
    by_cases ha : sinkAccepts (s.sinkOf sid) st = true
    · simp only [ha, if_true] at h ⊢
      split at h
      · cases h
      · rename_i hth
        simp only [hth, if_false, Bool.false_eq_true]
        rw [writeToSinks_log_of_no_throw st rest _ h]
        have hc : ∀ x, sinkAccepts ((((s.setSink sid fun _ => { s.sinkOf sid with wcalls := (s.sinkOf sid).wcalls + 1 }).emit
            (Ev.write sid st.id st.lvl st.ts st.named))).sinkOf x) st = sinkAccepts (s.sinkOf x) st := by
          intro x
          exact sinkAccepts_cfgEq (sinkOf_setSink_counters s sid _ (bump_cfgEq (s.sinkOf sid)) x) st
        simp only [hc, List.filter_cons, ha, if_true, List.map_cons, List.reverse_cons, List.append_assoc,
          log_emit, log_setSink, writeEv, List.singleton_append]
    · simp only [ha, if_false, Bool.false_eq_true] at h ⊢
      rw [writeToSinks_log_of_no_throw st rest _ h]
      simp only [List.filter_cons, ha, if_false, Bool.false_eq_true]

theorem writeToSinks_append (st : Stmt) : ∀ (l1 l2 : List Nat) (s : BSt),
    writeToSinks s st (l1 ++ l2) =
      if (writeToSinks s st l1).2 then writeToSinks s st l1 else writeToSinks (writeToSinks s st l1).1 st l2
  | [], l2, s => by simp [writeToSinks]
  | sid :: rest, l2, s => by
    simp only [List.cons_append, writeToSinks]
    split
    · split
      · simp
      · exact writeToSinks_append st rest l2 _
    · exact writeToSinks_append st rest l2 _

end Backend.PC
