import QuillModel.Backend.ConsProofsOnce
import QuillModel.Backend.ConsProofsIdsFront
/-!
`InvP`: the global pop history `popLog` is a merge of the per-context `popped` histories (same number of
occurrences of any kind of statement). With `InvA` (popped is a prefix of accepted), `InvB` (ids identify
statements) and `InvW` (writes are bounded by the pops) this gives "at most once per sink" by statement id.
-/
namespace Backend.PA
open Backend Spsc

def InvP (s : BSt) : Prop := ∀ p : Stmt → Bool, s.popLog.countP p = cntP s p

theorem InvP.of_eq {s s' : BSt} (h : InvP s) (h1 : s'.popLog = s.popLog) (h2 : ∀ p, cntP s' p = cntP s p) : InvP s' :=
  fun p => by rw [h1, h2]; exact h p

theorem cntP_setTh_append (s : BSt) (i : Nat) (f : Th → Th) (x : Stmt) (p : Stmt → Bool) (hi : i < s.ths.length)
    (hf : (f (s.th i)).popped = (s.th i).popped ++ [x]) : cntP (s.setTh i f) p = cntP s p + [x].countP p := by
  have := sum_map_updAt s.ths i f (fun t => t.popped.countP p) hi
  rw [← th_eq_getElem s i hi, hf, List.countP_append] at this
  simp only [cntP, BSt.setTh]
  omega

theorem InvP.closed : Closed InvP where
  frame := fun _ _ h f => h.of_eq f.popLog (cntP_of_ths f.ths)
  refresh := fun s h => by
    unfold refreshCache; split
    · exact h.of_eq rfl (fun _ => rfl)
    · exact h
  ctxEmpty := fun s i h => h.of_eq rfl (cntP_setTh s i _ (fun _ => rfl))
  dropCtx := fun s i h _ _ _ => by
    unfold PA.dropCtx
    refine h.of_eq rfl (fun p => ?_)
    rw [cntP_setTh]
    · show cntP (ctxEmpty s i).1 p = cntP s p
      rw [ctxEmpty_fst, cntP_setTh]; intro _; rfl
    · intro _; rfl
  prepRead := fun s i h => h.of_eq rfl (cntP_setTh s i _ (fun _ => rfl))
  commitRead := fun s i h => h.of_eq rfl (cntP_setTh s i _ (fun _ => rfl))
  readOne := fun s i st rest h _ _ => by
    unfold PA.readOne
    dsimp only
    refine h.of_eq ?_ (fun p => ?_)
    · split <;> rfl
    · rw [cntP_setTh]
      · split
        · show cntP (s.setTh i _) p = cntP s p
          rw [cntP_setTh]; intro _; rfl
        · rw [cntP_setTh]; intro _; rfl
      · intro _; rfl
  pop := fun s i st rest h hb => by
    have c := processEvent_core s st
    have hi : i < s.ths.length := by
      by_cases hi : i < s.ths.length
      · exact hi
      · rw [th_default_of_ge s i (by omega)] at hb; cases hb
    have key : ∀ s2 : BSt, s2.ths = s.ths → s2.popLog = s.popLog →
        InvP { s2.setTh i (fun t => { t with buf := rest, popped := t.popped ++ [st] }) with popLog := st :: s2.popLog } := by
      intro s2 h1 h2 p
      show (st :: s2.popLog).countP p = cntP (s2.setTh i _) p
      rw [cntP_setTh_append s2 i _ st p (h1 ▸ hi) rfl, cntP_of_ths h1, h2, List.countP_cons, h p]
      simp
    unfold popStep
    dsimp only
    split
    · exact key _ c.ths c.popLog
    · exact key _ c.ths c.popLog
  failReset := fun s i h _ => by
    unfold PA.failReset
    exact h.of_eq rfl (cntP_setTh s i _ (fun _ => rfl))
  front := fun s f h => h.of_eq (applyFront_ffr s f).popLog (applyFront_ffr s f).pops

/-! ### the four invariants together -/

structure Inv (s : BSt) : Prop where
  a : InvA s
  b : InvB s
  w : InvW s
  p : InvP s

theorem Closed.and {P Q : BSt → Prop} (hp : Closed P) (hq : Closed Q) : Closed (fun s => P s ∧ Q s) where
  frame := fun s s' h f => ⟨hp.frame s s' h.1 f, hq.frame s s' h.2 f⟩
  refresh := fun s h => ⟨hp.refresh s h.1, hq.refresh s h.2⟩
  ctxEmpty := fun s i h => ⟨hp.ctxEmpty s i h.1, hq.ctxEmpty s i h.2⟩
  dropCtx := fun s i h hv he hz => ⟨hp.dropCtx s i h.1 hv he hz, hq.dropCtx s i h.2 hv he hz⟩
  prepRead := fun s i h => ⟨hp.prepRead s i h.1, hq.prepRead s i h.2⟩
  commitRead := fun s i h => ⟨hp.commitRead s i h.1, hq.commitRead s i h.2⟩
  readOne := fun s i st rest h hq' hr => ⟨hp.readOne s i st rest h.1 hq' hr, hq.readOne s i st rest h.2 hq' hr⟩
  pop := fun s i st rest h hb => ⟨hp.pop s i st rest h.1 hb, hq.pop s i st rest h.2 hb⟩
  failReset := fun s i h hf => ⟨hp.failReset s i h.1 hf, hq.failReset s i h.2 hf⟩
  front := fun s f h => ⟨hp.front s f h.1, hq.front s f h.2⟩

/-- **every schedule preserves the invariants** -/
theorem Inv.run {s : BSt} (h : Inv s) (ops : List Op) : Inv (runOps s ops) :=
  ⟨runOps_closed InvA.closed ops s h.a, runOps_closed InvB.closed ops s h.b,
   runOps_closed InvW.closed ops s h.w, runOps_closed InvP.closed ops s h.p⟩

/-- a freshly started system: no context, no actor, nothing logged yet (the loggers, sinks, clock, every
    configuration parameter except a non-empty record header are arbitrary) -/
structure Fresh (s : BSt) : Prop where
  hdr : 0 < s.cfg.hdr
  ths : s.ths = []
  actors : s.actors = []
  log : s.log = []
  popLog : s.popLog = []
  rings : ∀ i, (s.lgOf i).bt = none

theorem Fresh.inv {s : BSt} (h : Fresh s) : Inv s := by
  have hth : ∀ i, s.th i = default := fun i => th_default_of_ge s i (by rw [h.ths]; exact Nat.zero_le _)
  refine ⟨⟨h.hdr, fun i => by rw [hth]; exact ThOK.default, ?_, ?_, ?_⟩, ⟨?_, ?_, ?_⟩, ⟨?_, ?_⟩, ?_⟩
  · intro x hx; rw [h.actors] at hx; cases hx
  · intro x hx; rw [h.actors] at hx; cases hx
  · intro i hi; rw [h.ths] at hi; cases hi
  · intro id; simp [tot, cntA, cntB, h.ths, h.actors]
  · intro id _; simp [tot, cntA, cntB, h.ths, h.actors]
  · intro a; simp [h.actors]
  · intro i r hr; rw [h.rings i] at hr; cases hr
  · intro sid id; simp [wcount, h.log]
  · intro p; simp [cntP, h.ths, h.popLog]

/-! ### at most once, by statement id -/

/-- occurrences of statements satisfying `p` in the accepted histories -/
def cA (s : BSt) (p : Stmt → Bool) : Nat := (s.ths.map (fun t => t.accepted.countP p)).sum

/-- an `Event::Log` statement carrying this id -/
def logq (id : Nat) : Stmt → Bool := fun st => isLogKind st.kind && st.id == id

theorem cntA_eq_cA (s : BSt) (id : Nat) : cntA s id = cA s (logq id) := rfl

theorem mem_ths_th {s : BSt} {t : Th} (h : t ∈ s.ths) : ∃ i, t = s.th i := by
  obtain ⟨i, hi, e⟩ := List.mem_iff_getElem.mp h
  exact ⟨i, by rw [th_eq_getElem s i hi, e]⟩

theorem cntP_le_cA {s : BSt} (h : InvA s) (p : Stmt → Bool) : cntP s p ≤ cA s p := by
  apply sum_map_le
  intro t ht
  obtain ⟨i, rfl⟩ := mem_ths_th ht
  rw [(h.th i).cons, List.countP_append, List.countP_append]; omega

theorem cA_mono (s : BSt) (p q : Stmt → Bool) (h : ∀ x, p x = true → q x = true) : cA s p ≤ cA s q := by
  apply sum_map_le
  intro t _
  exact List.countP_mono_left (fun x _ hx => h x hx)

theorem countP_split {α} (l : List α) (p r : α → Bool) :
    l.countP p = l.countP (fun x => p x && r x) + l.countP (fun x => p x && !r x) := by
  induction l with
  | nil => rfl
  | cons x xs ih =>
    simp only [List.countP_cons, ih]
    cases p x <;> cases r x <;> simp <;> omega

theorem sum_map_add {α} (l : List α) (f g : α → Nat) : (l.map (fun x => f x + g x)).sum = (l.map f).sum + (l.map g).sum := by
  induction l with
  | nil => rfl
  | cons x xs ih => simp only [List.map_cons, List.sum_cons, ih]; omega

theorem cA_split (s : BSt) (p r : Stmt → Bool) :
    cA s p = cA s (fun x => p x && r x) + cA s (fun x => p x && !r x) := by
  unfold cA
  rw [← sum_map_add]
  congr 1
  apply List.map_congr_left
  intro t _
  exact countP_split _ p r

theorem le_sum_of_getElem (l : List Nat) (i : Nat) (hi : i < l.length) : l[i] ≤ l.sum := by
  induction l generalizing i with
  | nil => cases hi
  | cons x xs ih =>
    cases i with
    | zero => simp
    | succ j => simp only [List.getElem_cons_succ, List.sum_cons]; have := ih j (by simpa using hi); omega

theorem cA_pos {s : BSt} {i : Nat} {st : Stmt} (hm : st ∈ (s.th i).accepted) (p : Stmt → Bool) (hp : p st = true) :
    1 ≤ cA s p := by
  have hi : i < s.ths.length := by
    by_cases hi : i < s.ths.length
    · exact hi
    · rw [th_default_of_ge s i (by omega)] at hm; cases hm
  have h1 : 1 ≤ (s.th i).accepted.countP p := List.countP_pos_iff.mpr ⟨st, hm, hp⟩
  have h2 := le_sum_of_getElem (s.ths.map (fun t => t.accepted.countP p)) i (by simpa using hi)
  simp only [List.getElem_map] at h2
  rw [← th_eq_getElem s i hi] at h2
  unfold cA; omega

theorem sum_map_const {α} (l : List α) (g : α → Nat) (c : Nat) (h : ∀ x ∈ l, g x = c) : (l.map g).sum = l.length * c := by
  induction l with
  | nil => simp
  | cons x xs ih =>
    simp only [List.map_cons, List.sum_cons, List.length_cons]
    rw [h x (by simp), ih (fun y hy => h y (by simp [hy])), Nat.succ_mul]; omega

/-- **at most once.** An ordinary statement accepted by some queue is written to sink `sid` at most as often
    as `sid` occurs in its logger's sink list — over the whole history, whatever the schedule. -/
theorem Inv.at_most_once {s : BSt} (h : Inv s) (i : Nat) (st : Stmt) (hm : st ∈ (s.th i).accepted)
    (hord : isOrd st = true) (sid : Nat) : wcount s.log sid st.id ≤ (s.lgOf st.lg).sinks.count sid := by
  refine Nat.le_trans (h.w.bound sid st.id) ?_
  unfold popBound
  have hlog : logq st.id st = true := by
    simp only [isOrd, Bool.and_eq_true] at hord
    simp [logq, hord.1]
  have huniq : cA s (logq st.id) ≤ 1 := by rw [← cntA_eq_cA]; have := h.b.uniq st.id; unfold tot at this; omega
  -- every popped statement carrying this id is logged through the same logger
  have hlg : ∀ x ∈ s.popLog.filter (fun x => isOrd x && x.id == st.id), x.lg = st.lg := by
    intro x hx
    obtain ⟨hxm, hxq⟩ := List.mem_filter.mp hx
    by_cases hne : x.lg = st.lg
    · exact hne
    exfalso
    have hq'x : (fun y : Stmt => logq st.id y && !(y.lg == st.lg)) x = true := by
      simp only [Bool.and_eq_true, beq_iff_eq] at hxq
      simp only [isOrd, Bool.and_eq_true] at hxq
      simp [logq, hxq.1.1, hxq.2, hne]
    have h1 : 1 ≤ s.popLog.countP (fun y : Stmt => logq st.id y && !(y.lg == st.lg)) :=
      List.countP_pos_iff.mpr ⟨x, hxm, hq'x⟩
    have h2 : 1 ≤ cA s (fun y : Stmt => logq st.id y && !(y.lg == st.lg)) := by
      have := h.p (fun y : Stmt => logq st.id y && !(y.lg == st.lg))
      have := cntP_le_cA h.a (fun y : Stmt => logq st.id y && !(y.lg == st.lg))
      omega
    have h3 : 1 ≤ cA s (fun y => logq st.id y && (y.lg == st.lg)) := cA_pos hm _ (by simp [hlog])
    have h4 := cA_split s (logq st.id) (fun y => y.lg == st.lg)
    omega
  rw [sum_map_const _ _ ((s.lgOf st.lg).sinks.count sid) (fun x hx => by rw [hlg x hx])]
  have hlen : (s.popLog.filter (fun x => isOrd x && x.id == st.id)).length ≤ 1 := by
    rw [← List.countP_eq_length_filter]
    have h1 := h.p (fun x => isOrd x && x.id == st.id)
    have h2 := cntP_le_cA h.a (fun x => isOrd x && x.id == st.id)
    have h3 := cA_mono s (fun x => isOrd x && x.id == st.id) (logq st.id) (fun x hx => by
      simp only [isOrd, Bool.and_eq_true, beq_iff_eq] at hx
      simp [logq, hx.1.1, hx.2])
    omega
  generalize (s.popLog.filter (fun x => isOrd x && x.id == st.id)).length = n at hlen
  match n, hlen with
  | 0, _ => simp
  | 1, _ => simp

end Backend.PA
