import QuillModel.Backend.RemovalFlag
import QuillModel.Backend.FlagProofs
/-!
What the second loop of `cleanupLoggers` does to the recorded removal requests (`removalFlags`, the model of
`_logger_removal_flags`): for every name erased in the pass the recorded flag is raised and that entry dropped; every
entry of another name is kept. Hook site 9 (frontend operations inside a sink destructor) leaves flags, recorded
requests and the names / erased bits of the logger objects alone. Helper lemmas for C17.
-/
namespace Backend.PC
open Backend Spsc

theorem flagStep_flags_mono (x : BSt) (g : Nat) : ∀ f ∈ x.flags, f ∈ (flagStep x g).flags := by
  intro f hf
  unfold flagStep
  split
  · exact List.mem_cons_of_mem _ hf
  · exact hf

theorem foldl_flagStep_flags_mono : ∀ (l : List Nat) (x : BSt), ∀ f ∈ x.flags, f ∈ (l.foldl flagStep x).flags
  | [], _, _, hf => hf
  | g :: gs, x, f, hf => foldl_flagStep_flags_mono gs _ f (flagStep_flags_mono x g f hf)

theorem find_filter_ne (l : List (Nat × Nat)) (g g0 : Nat) (h : g ≠ g0) :
    (l.filter (·.1 ≠ g0)).find? (·.1 = g) = l.find? (·.1 = g) := by
  induction l with
  | nil => rfl
  | cons p ps ih =>
    by_cases hp : p.1 = g0
    · have hne : ¬ p.1 = g := fun e => h (e.symm.trans hp)
      have h1 : decide (p.1 ≠ g0) = false := by simp [hp]
      have h2 : decide (p.1 = g) = false := by simp [hne]
      rw [List.filter_cons, h1]
      simp only [Bool.false_eq_true, if_false]
      rw [List.find?_cons, h2]
      exact ih
    · have h1 : decide (p.1 ≠ g0) = true := by simp [hp]
      rw [List.filter_cons, h1]
      simp only [if_true]
      rw [List.find?_cons, List.find?_cons]
      cases decide (p.1 = g)
      · exact ih
      · rfl

/-- **served**: the flag recorded for an erased name is raised -/
theorem foldl_flagStep_serves : ∀ (l : List Nat) (x : BSt) (g g' f : Nat), g ∈ l →
    x.removalFlags.find? (·.1 = g) = some (g', f) → f ∈ (l.foldl flagStep x).flags
  | [], _, _, _, _, hg, _ => by cases hg
  | g0 :: gs, x, g, g', f, hg, hfind => by
    simp only [List.foldl_cons]
    by_cases h0 : g0 = g
    · subst h0
      apply foldl_flagStep_flags_mono
      simp only [flagStep, hfind]
      exact List.mem_cons_self
    · have hg' : g ∈ gs := by
        rcases List.mem_cons.mp hg with h | h
        · exact absurd h.symm h0
        · exact h
      apply foldl_flagStep_serves gs _ g g' f hg'
      unfold flagStep
      split
      · show (x.removalFlags.filter (·.1 ≠ g0)).find? (·.1 = g) = _
        rw [find_filter_ne _ g g0 (Ne.symm h0)]; exact hfind
      · exact hfind

/-- **not forgotten**: a recorded request of a name that was not erased in this pass stays recorded -/
theorem foldl_flagStep_keeps : ∀ (l : List Nat) (x : BSt) (p : Nat × Nat), p ∈ x.removalFlags → p.1 ∉ l →
    p ∈ (l.foldl flagStep x).removalFlags
  | [], _, _, hp, _ => hp
  | g0 :: gs, x, p, hp, hn => by
    simp only [List.foldl_cons]
    apply foldl_flagStep_keeps gs _ p _ (fun h => hn (List.mem_cons_of_mem _ h))
    unfold flagStep
    split
    · show p ∈ x.removalFlags.filter (·.1 ≠ g0)
      rw [List.mem_filter]
      refine ⟨hp, ?_⟩
      have : p.1 ≠ g0 := fun e => hn (by rw [e]; exact List.mem_cons_self)
      simpa using this
    · exact hp

/-- **nothing else is raised**: a flag raised by the loop was recorded for one of the erased names; and the entries of the
    erased names are gone afterwards (a request is served once) -/
theorem foldl_flagStep_only : ∀ (l : List Nat) (x : BSt),
    (∀ f ∈ (l.foldl flagStep x).flags, f ∈ x.flags ∨ ∃ p ∈ x.removalFlags, p.2 = f ∧ p.1 ∈ l) ∧
    (∀ p ∈ (l.foldl flagStep x).removalFlags, p ∈ x.removalFlags ∧ p.1 ∉ l)
  | [], x => ⟨fun f hf => Or.inl hf, fun p hp => ⟨hp, fun h => by cases h⟩⟩
  | g0 :: gs, x => by
    simp only [List.foldl_cons]
    obtain ⟨i1, i2⟩ := foldl_flagStep_only gs (flagStep x g0)
    have hstep : (∀ f ∈ (flagStep x g0).flags, f ∈ x.flags ∨ ∃ p ∈ x.removalFlags, p.2 = f ∧ p.1 = g0) ∧
        (∀ p ∈ (flagStep x g0).removalFlags, p ∈ x.removalFlags) ∧
        ((∃ p ∈ x.removalFlags, p.1 = g0) → ∀ p ∈ (flagStep x g0).removalFlags, p.1 ≠ g0) := by
      unfold flagStep
      split
      · rename_i g' f hfind
        have hm := List.mem_of_find?_eq_some hfind
        have hk := List.find?_some hfind
        simp only [decide_eq_true_eq] at hk
        refine ⟨?_, ?_, ?_⟩
        · intro f' hf'
          have hf'' : f' ∈ f :: x.flags := hf'
          rcases List.mem_cons.mp hf'' with rfl | hf''
          · exact Or.inr ⟨(g', f'), hm, rfl, hk⟩
          · exact Or.inl hf''
        · intro p hp
          have hp' : p ∈ x.removalFlags.filter (·.1 ≠ g0) := hp
          exact (List.mem_filter.mp hp').1
        · intro _ p hp
          have hp' : p ∈ x.removalFlags.filter (·.1 ≠ g0) := hp
          simpa using (List.mem_filter.mp hp').2
      · rename_i hnone
        refine ⟨fun f hf => Or.inl hf, fun p hp => hp, ?_⟩
        rintro ⟨p, hp, hp1⟩
        have := List.find?_eq_none.mp hnone p hp
        simp [hp1] at this
    obtain ⟨s1, s2, s3⟩ := hstep
    refine ⟨?_, ?_⟩
    · intro f hf
      rcases i1 f hf with h | ⟨p, hp, hpf, hpl⟩
      · rcases s1 f h with h' | ⟨p, hp, hpf, hpg⟩
        · exact Or.inl h'
        · exact Or.inr ⟨p, hp, hpf, by rw [hpg]; exact List.mem_cons_self⟩
      · exact Or.inr ⟨p, s2 p hp, hpf, List.mem_cons_of_mem _ hpl⟩
    · intro p hp
      obtain ⟨h1, h2⟩ := i2 p hp
      refine ⟨s2 p h1, ?_⟩
      intro hm
      rcases List.mem_cons.mp hm with h | h
      · exact s3 ⟨p, s2 p h1, h⟩ p h1 h
      · exact h2 h

/-! ### the first loop: which names end up in the `removed` list -/

/-- flags, recorded requests, and the name / erased bit of every logger object -/
def ev (x : BSt) : List Nat × List (Nat × Nat) × List (Nat × Bool) := (x.flags, x.removalFlags, gev x)

theorem lgOf_of_gev {s s' : BSt} (h : gev s' = gev s) (j : Nat) :
    (s'.lgOf j).gid = (s.lgOf j).gid ∧ (s'.lgOf j).erased = (s.lgOf j).erased := by
  have := congrArg (fun l => l[j]?) h
  simp only [gev, List.getElem?_map] at this
  simp only [BSt.lgOf, List.getD_eq_getElem?_getD]
  cases h1 : s'.lgs[j]? <;> cases h2 : s.lgs[j]? <;> rw [h1, h2] at this <;> simp at this
  · exact ⟨rfl, rfl⟩
  · exact this

theorem gev_length {s s' : BSt} (h : gev s' = gev s) : s'.lgs.length = s.lgs.length := by
  have := congrArg List.length h
  simpa [gev] using this

theorem runInj9_ev (table : List (Nat × Nat × List FOp)) (x : BSt) : ev (runInj table x 9) = ev x := by
  rw [runInj_eq]
  split
  · rfl
  · refine foldl_pres (fun y => ev y = ev x) _ ?_ _ _ rfl
    intro y f hy
    rw [← hy]
    show ev (injRes 9 y f).1 = ev y
    unfold injRes
    cases hn : f.needsManagerLock
    · simp only [Bool.and_false, Bool.false_eq_true, if_false]
      have h1 := front_fv3 y f
      have h2 := front_gev y f hn
      simp only [fv3, Prod.mk.injEq] at h1
      simp only [ev, h1.1, h1.2.1, h2]
    · simp only [decide_true, Bool.and_self, if_true]

theorem reapSinksInj_ev (table : List (Nat × Nat × List FOp)) (sids : List Nat) :
    ∀ (x : BSt), ev (reapSinksInj (runInj table) x sids) = ev x := by
  unfold reapSinksInj
  induction sids with
  | nil => intro x; rfl
  | cons y ys ih =>
    intro x
    simp only [List.foldl_cons]
    rw [ih]
    split
    · rw [runInj9_ev]; rfl
    · rfl

theorem allEmpty_ev (x : BSt) : ev (allEmpty x).1 = ev x := by
  have h := allEmpty_fview2 x
  simp only [fview2, Prod.mk.injEq] at h
  simp only [ev, gev, h.1, h.2.1, h.2.2]

/-- what the erase loop knows, relative to the state `s` the clean-up started from -/
structure EAcc (s : BSt) (acc : BSt × List Nat) : Prop where
  fl : acc.1.flags = s.flags
  rf : acc.1.removalFlags = s.removalFlags
  len : acc.1.lgs.length = s.lgs.length
  gid : ∀ j, (acc.1.lgOf j).gid = (s.lgOf j).gid
  /-- an object erased since the start has its name in the list -/
  inl : ∀ j, (acc.1.lgOf j).erased = true → (s.lgOf j).erased = true ∨ (s.lgOf j).gid ∈ acc.2
  /-- and every name in the list belongs to an object erased since the start -/
  ofl : ∀ g ∈ acc.2, ∃ j, j < s.lgs.length ∧ (s.lgOf j).gid = g ∧ (s.lgOf j).erased = false ∧ (acc.1.lgOf j).erased = true

theorem EAcc.of_ev {s : BSt} {acc : BSt × List Nat} {y : BSt} (h : EAcc s acc) (hy : ev y = ev acc.1) : EAcc s (y, acc.2) := by
  simp only [ev, Prod.mk.injEq] at hy
  obtain ⟨h1, h2, h3⟩ := hy
  have hl := lgOf_of_gev h3
  refine ⟨h1.trans h.fl, h2.trans h.rf, (gev_length h3).trans h.len, fun j => (hl j).1.trans (h.gid j), ?_, ?_⟩
  · intro j hj
    show (s.lgOf j).erased = true ∨ (s.lgOf j).gid ∈ acc.2
    apply h.inl j
    rw [← (hl j).2]; exact hj
  · intro g hg
    obtain ⟨j, a, b, c, d⟩ := h.ofl g hg
    exact ⟨j, a, b, c, by show (y.lgOf j).erased = true; rw [(hl j).2]; exact d⟩

theorem lgStep_EAcc (table : List (Nat × Nat × List FOp)) (s : BSt) (acc : BSt × List Nat) (i : Nat)
    (hi : i < s.lgs.length ∧ (s.lgOf i).erased = false) (h : EAcc s acc) : EAcc s (lgStep (runInj table) acc i) := by
  unfold lgStep
  split
  · exact h
  · have hA : EAcc s ((allEmpty acc.1).1, acc.2) := h.of_ev (allEmpty_ev acc.1)
    split
    · -- erase `i`, then its sinks
      have hlg : (allEmpty acc.1).1.lgOf i = acc.1.lgOf i := by simp only [BSt.lgOf, allEmpty_lgs]
      have hE : EAcc s ((allEmpty acc.1).1.setLg i (fun l => { l with erased := true }), acc.2 ++ [(acc.1.lgOf i).gid]) := by
        have hilen : i < (allEmpty acc.1).1.lgs.length := by rw [hA.len]; exact hi.1
        refine ⟨hA.fl, hA.rf, by rw [lgs_length_setLg]; exact hA.len, ?_, ?_, ?_⟩
        · intro j
          show (((allEmpty acc.1).1.setLg i _).lgOf j).gid = _
          rw [lgOf_setLg]; split
          · exact hA.gid j
          · exact hA.gid j
        · intro j hj
          have hj' : (((allEmpty acc.1).1.setLg i (fun l => { l with erased := true })).lgOf j).erased = true := hj
          show _ ∨ (s.lgOf j).gid ∈ acc.2 ++ [(acc.1.lgOf i).gid]
          rw [lgOf_setLg] at hj'
          split at hj'
          · rename_i hc
            right
            rw [hc.1, ← h.gid i]
            exact List.mem_append_right _ List.mem_cons_self
          · rcases hA.inl j hj' with h1 | h1
            · exact Or.inl h1
            · exact Or.inr (List.mem_append_left _ h1)
        · intro g hg
          show ∃ j, j < s.lgs.length ∧ (s.lgOf j).gid = g ∧ (s.lgOf j).erased = false ∧
            (((allEmpty acc.1).1.setLg i (fun l => { l with erased := true })).lgOf j).erased = true
          rcases List.mem_append.mp hg with hg | hg
          · obtain ⟨j, a, b, c, d⟩ := hA.ofl g hg
            refine ⟨j, a, b, c, ?_⟩
            rw [lgOf_setLg]; split
            · rfl
            · exact d
          · simp only [List.mem_singleton] at hg
            refine ⟨i, hi.1, by rw [hg, h.gid i], hi.2, ?_⟩
            rw [lgOf_setLg]
            simp only [hilen, and_self, if_true]
      exact hE.of_ev (reapSinksInj_ev table _ _)
    · exact hA.of_ev rfl

end Backend.PC
