import QuillModel.Backend.FlushGate
import QuillModel.Backend.OrdBack2
/-!
A complete pass (`populate`), the batch loop, a poll, the exit loop preserve the ordering invariant; hence every
schedule does (`GI.runOps`).
-/
namespace Backend.PB
open Backend

variable {c : Cfg} {fl : Nat} {T : Nat → Prop} {C : List Nat} {s : BSt} {inj : BSt → Nat → BSt}

/-! ### a pass over the cached contexts -/

def popStep (inj : BSt → Nat → BSt) (tsNow : Option Nat) (acc : BSt × Nat) (i : Nat) : BSt × Nat :=
  let sA := inj acc.1 2
  let sB := readQueue inj tsNow i ((sA.th i).qStmts.length + 64) 0 sA
  (sB, acc.2 + (sB.th i).buf.length)

theorem populate_fold (hi : InjOK inj) (tsNow : Option Nat)
    (htn : c.grace ≠ 0 → c.refreshAfterSample = true → tsNow = some fl) (l : List Nat) :
    ∀ (acc : BSt × Nat) (T : Nat → Prop), (∀ i ∈ l, i ∈ C) →
    PI c none fl T C acc.1 → PI c none fl (fun j => T j ∧ j ∉ l) C (l.foldl (popStep inj tsNow) acc).1 := by
  induction l with
  | nil =>
    intro acc T _ h
    exact { h with ord := fun hg0 hr0 hp => { h.ord hg0 hr0 hp with
      late := fun j hj hT => (h.ord hg0 hr0 hp).late j hj (fun ht => hT ⟨ht, by simp⟩) } }
  | cons x xs ih =>
    intro acc T hl h
    rw [List.foldl_cons]
    have h1 := hi _ _ _ _ _ 2 h
    have h2 : PI c none fl (fun j => T j ∧ j ≠ x) C (popStep inj tsNow acc x).1 := by
      unfold popStep
      simp only
      rw [show ((inj acc.1 2).th x).qStmts.length + 64 = (((inj acc.1 2).th x).qStmts.length + 63) + 1 from rfl]
      exact h1.readQueue_first hi tsNow htn x (hl x (List.mem_cons_self ..)) _ _ _
    have h3 := ih _ _ (fun i hi' => hl i (List.mem_cons_of_mem _ hi')) h2
    exact { h3 with ord := fun hg0 hr0 hp => { h3.ord hg0 hr0 hp with
      late := fun j hj hT => (h3.ord hg0 hr0 hp).late j hj (fun ht => hT ⟨ht.1.1, by
        intro hm; rcases List.mem_cons.mp hm with e | e
        · exact ht.1.2 e
        · exact ht.2 e⟩) } }

/-- the stages of `populate` before the pass over the cache -/
def popA (s : BSt) : BSt := if s.cfg.refreshAfterSample then s else refreshCache s
def popB (inj : BSt → Nat → BSt) (s : BSt) : BSt := if (popA s).cfg.grace = 0 then popA s else inj (popA s) 7
def popC (inj : BSt → Nat → BSt) (s : BSt) : BSt :=
  if (popB inj s).cfg.refreshAfterSample then refreshCache (inj (popB inj s) 1) else inj (popB inj s) 1

theorem populate_eq (inj : BSt → Nat → BSt) (s : BSt) :
    populate inj s = (popC inj s).cache.foldl (popStep inj (tsNowOf (popB inj s))) (popC inj s, 0) := rfl

/-- outside the configuration C05 speaks about, nothing is claimed about unread queues -/
theorem PI.anyT {ex : Option Nat} {T' : Nat → Prop} (h : PI c ex fl T C s)
    (hb : ¬ (c.grace ≠ 0 ∧ c.refreshAfterSample = true)) : PI c ex fl T' C s :=
  { h with ord := fun hg0 hr0 _ => absurd ⟨hg0, hr0⟩ hb }

/-- after a complete pass every registered context with an empty buffer holds only records at or above the
    cut-off sampled at the start of the pass (in the configuration of C05; the structural part of the invariant is
    kept in every configuration) -/
theorem PIo.populate (hi : InjOK inj) (h : PIo c fl s) :
    ∃ fl' C', PI c none fl' (fun _ => False) C' (populate inj s).1 := by
  rw [populate_eq]
  unfold popC
  have ha : PIo c fl (popA s) := by
    unfold popA; split
    · exact h
    · exact h.refresh
  have hb : PIo c fl (popB inj s) := by
    unfold popB; split
    · exact ha
    · exact hi.pio ha 7
  generalize popB inj s = sb at hb ⊢
  have hcfg : sb.cfg = c := hb.cfgEq
  let fl' := sb.now - sb.cfg.grace
  have hb' : PI c none fl' (fun _ => True) sb.cache sb := hb.newFloor fl' hb.floorNow (Nat.le_refl _)
  have htn : c.grace ≠ 0 → c.refreshAfterSample = true → tsNowOf sb = some fl' := by
    intro hg0 _
    unfold tsNowOf
    rw [if_neg (by rw [hcfg]; exact hg0)]
  have h1 := hi _ _ _ _ _ 1 hb'
  have h2 : PI c none fl' (fun i => i ∈ (if sb.cfg.refreshAfterSample = true then refreshCache (inj sb 1) else inj sb 1).cache)
      (if sb.cfg.refreshAfterSample = true then refreshCache (inj sb 1) else inj sb 1).cache
      (if sb.cfg.refreshAfterSample = true then refreshCache (inj sb 1) else inj sb 1) := by
    by_cases good : c.grace ≠ 0 ∧ c.refreshAfterSample = true
    · rw [if_pos (by rw [hcfg]; exact good.2)]
      exact h1.refresh.weakenT (fun i hi' => hi'.2)
    · split
      · exact h1.refresh.anyT good
      · exact h1.toPIo.anyT good
  generalize (if sb.cfg.refreshAfterSample = true then refreshCache (inj sb 1) else inj sb 1) = s2 at h2 ⊢
  have h3 := populate_fold hi (tsNowOf sb) htn s2.cache (s2, 0) _ (fun i hi' => hi') h2
  exact ⟨fl', _, h3.weakenT (fun j hj => hj.2 hj.1)⟩

theorem PI.lateAll (h : PI c none fl (fun _ => False) C s) (hg0 : c.grace ≠ 0) (hr0 : c.refreshAfterSample = true) :
    PremI s → ∀ i ∈ s.registry, (s.th i).buf = [] → ∀ r ∈ (s.th i).qStmts, fl ≤ r.ts :=
  fun hp i hi => (h.ord hg0 hr0 hp).late i hi (fun hf => hf)

/-! ### the batch loop, a poll, the exit loop -/

theorem PIo.batchLoop (hi : InjOK inj) (fuel : Nat) : ∀ s, PIo c fl s → PIo c fl (batchLoop inj fuel s) := by
  induction fuel with
  | zero => intro s h; exact h
  | succ n ih =>
    intro s h
    unfold Backend.batchLoop
    simp only
    obtain ⟨h1, h2⟩ := h.hasPending
    split
    · exact h1
    · rename_i hnp
      have hg := h2 (by simpa using hnp)
      have h3 := h1.processLowest hi (fun _ _ _ i hir hb r hr => by rw [hg i hir hb] at hr; cases hr)
      split
      · exact h3
      · exact ih _ (hi.pio h3 4)

theorem PIo.flushGate (hi : InjOK inj) (h : PIo c fl s) (n : Nat) : PIo c fl (Backend.flushGate inj s n) := by
  rcases flushGate_cases inj s n with ⟨_, e⟩ | ⟨_, e⟩ | ⟨_, e⟩ <;> rw [e]
  · exact h.frame (core_flushSinks _)
  · exact hi.pio h 7
  · have h1 : PIo c fl { inj s 7 with lastFlush := (inj s 7).now } := (hi.pio h 7).frame rfl
    exact h1.frame (core_flushSinks _)

theorem PIo.preEraseFlush (h : PIo c fl s) : PIo c fl (Backend.preEraseFlush s) := by
  unfold Backend.preEraseFlush
  split
  · exact h.frame (core_flushSinks _)
  · exact h

theorem PIo.poll (hi : InjOK inj) (h : PIo c fl s) : ∃ fl', PIo c fl' (poll inj s) := by
  obtain ⟨fl', C', hp⟩ := h.populate hi
  refine ⟨fl', ?_⟩
  unfold Backend.poll
  rcases hpop : Backend.populate inj s with ⟨s1, count⟩
  rw [hpop] at hp
  simp only at hp ⊢
  split
  · split
    · exact hp.toPIo.processLowest hi (fun hg0 hr0 => hp.lateAll hg0 hr0)
    · exact hp.toPIo.batchLoop hi _ _
  · have h5 := hi.pio hp.toPIo 5
    have h6 := (h5.flushGate hi (inj s1 5).cfg.flushInterval).checkFailures hi
    have h7 := h6.allEmpty
    split
    · exact h7.cleanupContexts.preEraseFlush.cleanupLoggers hi
    · exact h7

theorem PIo.tick (h : PIo c fl s) (dt : Nat) : PIo c fl { s with now := s.now + dt } := PI.tick h dt

theorem PIo.exitLoop (hi : InjOK inj) (tick fuel : Nat) : ∀ fl s, PIo c fl s → ∃ fl', PIo c fl' (exitLoop inj tick fuel s) := by
  induction fuel with
  | zero => intro fl s h; exact ⟨fl, h⟩
  | succ n ih =>
    intro fl s h
    unfold Backend.exitLoop
    simp only
    have h1 := h.allEmpty
    split
    · exact ⟨fl, ((h1.checkFailures hi).frame (core_flushSinks _)).cleanupContexts.preEraseFlush.cleanupLoggers hi⟩
    · have h2 := h1.tick tick
      obtain ⟨fl', C', hp⟩ := h2.populate hi
      rcases hpop : Backend.populate inj { (Backend.allEmpty s).1 with now := (Backend.allEmpty s).1.now + tick } with ⟨s1, count⟩
      rw [hpop] at hp
      simp only at hp ⊢
      apply ih fl'
      split
      · exact hp.toPIo.batchLoop hi _ _
      · exact hp.toPIo

/-! ### every schedule -/

/-- the global invariant between operations (the configuration never changes) -/
def GI (s : BSt) : Prop := ∃ fl, PIo s.cfg fl s

theorem GI.of {s : BSt} (h : PIo c fl s) : GI s := ⟨fl, by rw [h.cfgEq]; exact h⟩

theorem injOK_runInj (table : List (Nat × Nat × List FOp)) : InjOK (runInj table) :=
  fun _ _ _ _ _ site h => h.runInj table site

theorem GI.applyOp {s : BSt} (h : GI s) (o : Op) : GI (applyOp s o).1 := by
  obtain ⟨fl, h⟩ := h
  cases o with
  | front f => exact GI.of (PI.applyFront h f).toPIo
  | poll table =>
    simp only [Backend.applyOp]
    split
    · exact ⟨fl, h⟩
    · obtain ⟨fl', h'⟩ := PIo.poll (injOK_runInj table) (h.frame (s' := { s with siteCnt := [] }) rfl)
      exact GI.of h'
  | exit =>
    simp only [Backend.applyOp]
    split
    · exact ⟨fl, h⟩
    · obtain ⟨fl', h'⟩ := PIo.exitLoop (injOK_runInj []) 1000 100000 fl _ (h.frame (s' := { s with siteCnt := [] }) rfl)
      refine GI.of (c := s.cfg) (fl := fl') ?_
      exact h'.frame rfl

theorem GI.runOps {s : BSt} (h : GI s) (ops : List Op) : GI (runOps s ops) := by
  unfold Backend.runOps
  induction ops generalizing s with
  | nil => exact h
  | cons o os ih => rw [List.foldl_cons]; exact ih (h.applyOp o)

/-- the configuration is the same after every schedule -/
theorem GI.cfg_runOps {s : BSt} (h : GI s) (ops : List Op) : (Backend.runOps s ops).cfg = s.cfg := by
  unfold Backend.runOps
  induction ops generalizing s with
  | nil => rfl
  | cons o os ih =>
    rw [List.foldl_cons, ih (h.applyOp o)]
    obtain ⟨fl, h⟩ := h
    cases o with
    | front f => exact (PI.applyFront h f).cfgEq
    | poll table =>
      simp only [Backend.applyOp]
      split
      · rfl
      · obtain ⟨fl', h'⟩ := PIo.poll (injOK_runInj table) (h.frame (s' := { s with siteCnt := [] }) rfl)
        exact h'.cfgEq
    | exit =>
      simp only [Backend.applyOp]
      split
      · rfl
      · obtain ⟨fl', h'⟩ := PIo.exitLoop (injOK_runInj []) 1000 100000 fl _ (h.frame (s' := { s with siteCnt := [] }) rfl)
        exact h'.cfgEq

end Backend.PB
