import QuillModel.Backend.OrdBack2
/-!
A complete pass (`populate`), the batch loop, a poll, the exit loop preserve the ordering invariant; hence every
schedule does (`GI.runOps`).
-/
namespace Backend.PB
open Backend

variable {fl : Nat} {T : Nat → Prop} {C : List Nat} {s : BSt} {inj : BSt → Nat → BSt}

/-! ### a pass over the cached contexts -/

def popStep (inj : BSt → Nat → BSt) (tsNow : Option Nat) (acc : BSt × Nat) (i : Nat) : BSt × Nat :=
  let sA := inj acc.1 2
  let sB := readQueue inj tsNow i ((sA.th i).qStmts.length + 64) 0 sA
  (sB, acc.2 + (sB.th i).buf.length)

theorem populate_fold (hi : InjOK inj) (l : List Nat) : ∀ (acc : BSt × Nat) (T : Nat → Prop), (∀ i ∈ l, i ∈ C) →
    PI none fl T C acc.1 → PI none fl (fun j => T j ∧ j ∉ l) C (l.foldl (popStep inj (some fl)) acc).1 := by
  induction l with
  | nil =>
    intro acc T _ h
    exact { h with ord := fun hp => { h.ord hp with
      late := fun j hj hT => (h.ord hp).late j hj (fun ht => hT ⟨ht, by simp⟩) } }
  | cons x xs ih =>
    intro acc T hl h
    rw [List.foldl_cons]
    have h1 := hi _ _ _ _ 2 h
    have h2 : PI none fl (fun j => T j ∧ j ≠ x) C (popStep inj (some fl) acc x).1 := by
      unfold popStep
      simp only
      rw [show ((inj acc.1 2).th x).qStmts.length + 64 = (((inj acc.1 2).th x).qStmts.length + 63) + 1 from rfl]
      exact h1.readQueue_first hi x (hl x (List.mem_cons_self ..)) _ _ _
    have h3 := ih _ _ (fun i hi' => hl i (List.mem_cons_of_mem _ hi')) h2
    exact { h3 with ord := fun hp => { h3.ord hp with
      late := fun j hj hT => (h3.ord hp).late j hj (fun ht => hT ⟨ht.1.1, by
        intro hm; rcases List.mem_cons.mp hm with e | e
        · exact ht.1.2 e
        · exact ht.2 e⟩) } }

theorem populate_eq (inj : BSt → Nat → BSt) (s : BSt) (hg : s.cfg.grace ≠ 0) (hr : s.cfg.refreshAfterSample = true)
    (hg7 : (inj s 7).cfg.grace ≠ 0) (hr7 : (inj s 7).cfg.refreshAfterSample = true) :
    populate inj s = (refreshCache (inj (inj s 7) 1)).cache.foldl
      (popStep inj (some ((inj s 7).now - (inj s 7).cfg.grace))) (refreshCache (inj (inj s 7) 1), 0) := by
  unfold Backend.populate tsNowOf
  simp only [hr, if_true, hg, if_false, hg7, hr7]
  rfl

/-- after a complete pass every registered context with an empty buffer holds only records at or above the
    cut-off sampled at the start of the pass -/
theorem PIo.populate (hi : InjOK inj) (h : PIo fl s) :
    ∃ fl' C', PI none fl' (fun _ => False) C' (populate inj s).1 := by
  have h7 := hi _ _ _ _ 7 h
  rw [populate_eq inj s h.grace h.ras h7.grace h7.ras]
  generalize inj s 7 = sa at h7
  let fl' := sa.now - sa.cfg.grace
  have h7' : PI none fl' (fun _ => True) s.cache sa := h7.newFloor fl' h7.floorNow (Nat.le_refl _)
  have h1 := hi _ _ _ _ 1 h7'
  generalize inj sa 1 = s1 at h1
  have h2 := h1.refresh
  have h3 := populate_fold hi (refreshCache s1).cache (refreshCache s1, 0) _ (fun i hi' => hi') h2
  exact ⟨fl', _, h3.weakenT (fun j hj => hj.2 hj.1.2)⟩

theorem PI.lateAll (h : PI none fl (fun _ => False) C s) :
    PremI s → ∀ i ∈ s.registry, (s.th i).buf = [] → ∀ r ∈ (s.th i).qStmts, fl ≤ r.ts :=
  fun hp i hi => (h.ord hp).late i hi (fun hf => hf)

/-! ### the batch loop, a poll, the exit loop -/

theorem PIo.batchLoop (hi : InjOK inj) (fuel : Nat) : ∀ s, PIo fl s → PIo fl (batchLoop inj fuel s) := by
  induction fuel with
  | zero => intro s h; exact h
  | succ n ih =>
    intro s h
    unfold Backend.batchLoop
    simp only
    obtain ⟨h1, h2⟩ := h.hasPending
    split
    · exact h1
    · rename_i hnp
      have hg := h2 (by simpa using hnp)
      have h3 := h1.processLowest hi (fun _ i hir hb r hr => by rw [hg i hir hb] at hr; cases hr)
      split
      · exact h3
      · exact ih _ (hi.pio h3 4)

theorem PIo.poll (hi : InjOK inj) (h : PIo fl s) : ∃ fl', PIo fl' (poll inj s) := by
  obtain ⟨fl', C', hp⟩ := h.populate hi
  refine ⟨fl', ?_⟩
  unfold Backend.poll
  rcases hpop : Backend.populate inj s with ⟨s1, count⟩
  rw [hpop] at hp
  simp only at hp ⊢
  split
  · split
    · exact hp.toPIo.processLowest hi hp.lateAll
    · exact hp.toPIo.batchLoop hi _ _
  · have h5 := hi.pio hp.toPIo 5
    have h6 := (h5.frame (core_flushSinks _)).checkFailures hi
    have h7 := h6.allEmpty
    split
    · exact h7.cleanupContexts.cleanupLoggers hi
    · exact h7

theorem PIo.tick (h : PIo fl s) (dt : Nat) : PIo fl { s with now := s.now + dt } := PI.tick h dt

theorem PIo.exitLoop (hi : InjOK inj) (tick fuel : Nat) : ∀ fl s, PIo fl s → ∃ fl', PIo fl' (exitLoop inj tick fuel s) := by
  induction fuel with
  | zero => intro fl s h; exact ⟨fl, h⟩
  | succ n ih =>
    intro fl s h
    unfold Backend.exitLoop
    simp only
    have h1 := h.allEmpty
    split
    · exact ⟨fl, ((h1.checkFailures hi).frame (core_flushSinks _)).cleanupContexts.cleanupLoggers hi⟩
    · have h2 := h1.tick tick
      obtain ⟨fl', C', hp⟩ := h2.populate hi
      rcases hpop : Backend.populate inj { (Backend.allEmpty s).1 with now := (Backend.allEmpty s).1.now + tick } with ⟨s1, count⟩
      rw [hpop] at hp
      simp only at hp ⊢
      apply ih fl'
      split
      · exact hp.toPIo.batchLoop hi _ _
      · exact hp.toPIo

/-! ### every schedule -/

/-- the global invariant between operations -/
def GI (s : BSt) : Prop := ∃ fl, PIo fl s

theorem injOK_runInj (table : List (Nat × Nat × List FOp)) : InjOK (runInj table) :=
  fun _ _ _ _ site h => h.runInj table site

theorem GI.applyOp {s : BSt} (h : GI s) (o : Op) : GI (applyOp s o).1 := by
  obtain ⟨fl, h⟩ := h
  cases o with
  | front f => exact ⟨fl, (PI.applyFront h f).toPIo⟩
  | poll table =>
    simp only [Backend.applyOp]
    split
    · exact ⟨fl, h⟩
    · exact PIo.poll (injOK_runInj table) (h.frame rfl)
  | exit =>
    simp only [Backend.applyOp]
    split
    · exact ⟨fl, h⟩
    · obtain ⟨fl', h'⟩ := PIo.exitLoop (injOK_runInj []) 1000 100000 fl _ (h.frame (s' := { s with siteCnt := [] }) rfl)
      exact ⟨fl', h'.frame rfl⟩

theorem GI.runOps {s : BSt} (h : GI s) (ops : List Op) : GI (runOps s ops) := by
  unfold Backend.runOps
  induction ops generalizing s with
  | nil => exact h
  | cons o os ih => rw [List.foldl_cons]; exact ih (h.applyOp o)

end Backend.PB
