import QuillModel.Backend.ConsProofsExact
/-!
C03 "in thread order", at every sink: if a context popped `x` before `y` (both ordinary), then in the whole history
every ordinary write of `x` at a sink is older than every ordinary write of `y` at that sink (`OrdPair`). Invariant
`OrdInv` over all pairs of all `popped` histories, closed under every step; with conservation (`popped` is a prefix of
`accepted`) and "nothing is written before the pop" this gives the order for any two accepted statements.
-/
namespace Backend.PA
open Backend Spsc

/-- in `log` (newest first) no ordinary write of `a` at `sid` is newer than an ordinary write of `b` at `sid` -/
def OrdPair (log : List Ev) (sid a b : Nat) : Prop :=
  ∀ pre suf, log = pre ++ suf → 0 < wcount suf sid b → wcount pre sid a = 0

/-- new events that contain no write of `a` keep the order, provided the old history had it or had no write of `b` -/
theorem OrdPair.extend {log : List Ev} {sid a b : Nat} (evs : List Ev) (h0 : wcount evs sid a = 0)
    (hold : OrdPair log sid a b ∨ wcount log sid b = 0) : OrdPair (evs ++ log) sid a b := by
  intro pre suf he hb
  rcases List.append_eq_append_iff.mp he with ⟨c, h1, h2⟩ | ⟨c, h1, h2⟩
  · -- pre = evs ++ c, log = c ++ suf
    rw [h1, wcount_append, h0]
    rcases hold with hold | hz
    · rw [hold c suf h2 hb]
    · rw [h2, wcount_append] at hz; omega
  · -- evs = pre ++ c
    rw [h1, wcount_append] at h0; omega

/-! ### the `popped` histories change only at a pop -/

structure PSame (s s' : BSt) : Prop where
  eq : ∀ i, (s'.th i).popped = (s.th i).popped

theorem PSame.refl (s : BSt) : PSame s s := ⟨fun _ => rfl⟩
theorem PSame.trans {a b c : BSt} (h1 : PSame a b) (h2 : PSame b c) : PSame a c := ⟨fun i => (h2.eq i).trans (h1.eq i)⟩
theorem PSame.of_ths {s s' : BSt} (h : s'.ths = s.ths) : PSame s s' := ⟨fun i => by rw [th_of_ths_eq h]⟩

theorem PSame.setTh (s : BSt) (i : Nat) (f : Th → Th) (hf : ∀ t, (f t).popped = t.popped) : PSame s (s.setTh i f) := by
  refine ⟨fun j => ?_⟩; rw [th_setTh]; split
  · exact hf _
  · rfl

theorem ensureCtx_ps (s : BSt) (a : Nat) : PSame s (ensureCtx s a).1 := by
  unfold ensureCtx
  split
  · exact PSame.refl s
  · refine ⟨fun j => ?_⟩
    rw [setActor_th, th_append]
    split
    · next h => rw [h, th_default_of_ge s _ (Nat.le_refl _)]; rfl
    · rfl

theorem tryEnq_ps (s : BSt) (ci : Nat) (st : Stmt) : PSame s (tryEnq s ci st).1 := by
  unfold tryEnq
  dsimp only
  split <;> exact PSame.setTh _ _ _ (fun _ => rfl)

theorem afterEnq_ps (s : BSt) (a : Nat) (st : Stmt) (cont : Nat) : PSame s (afterEnq s a st cont).1 := by
  unfold afterEnq
  split <;> exact PSame.of_ths rfl

theorem enqFlow_ps (s : BSt) (a : Nat) (st : Stmt) (cont : Nat) (first initial : Bool) :
    PSame s (enqFlow s a st cont first initial).1 := by
  unfold enqFlow
  have h1 := ensureCtx_ps s a
  generalize ensureCtx s a = e at h1 ⊢
  obtain ⟨s1, ci⟩ := e
  dsimp only at h1 ⊢
  have h2 := h1.trans (tryEnq_ps s1 ci st)
  generalize tryEnq s1 ci st = e2 at h2 ⊢
  obtain ⟨s2, ok⟩ := e2
  dsimp only at h2 ⊢
  have hset : ∀ (s3 : BSt) (f : Actor → Actor), PSame s s3 → PSame s (s3.setActor a f) :=
    fun s3 f h3 => h3.trans (PSame.of_ths rfl)
  have hbump : ∀ (f : Th → Th), (∀ t, (f t).popped = t.popped) →
      PSame s (if isLogKind st.kind = true then s2.setTh ci f else s2) := by
    intro f hf
    split
    · exact h2.trans (PSame.setTh _ _ _ hf)
    · exact h2
  split
  · exact (hset s2 _ h2).trans (afterEnq_ps _ a st cont)
  · split
    · split
      · exact hset _ _ (hbump _ (fun _ => rfl))
      · exact hset _ _ (hbump _ (fun _ => rfl))
    · apply hset
      split
      · exact hbump _ (fun _ => rfl)
      · exact h2

theorem frontCall_ps (s : BSt) (a lgi : Nat) (kind : Kind) (lvl len cont : Nat) (dyn : Bool) (id : Nat)
    (named : Bool) : PSame s (frontCall s a lgi kind lvl len cont dyn id named).1 := by
  unfold frontCall
  dsimp only
  split
  · exact PSame.of_ths rfl
  · exact enqFlow_ps ..

theorem resume_ps (s : BSt) (a : Nat) : PSame s (resume s a).1 := by
  unfold resume
  split
  · exact enqFlow_ps ..
  · split <;> exact enqFlow_ps ..
  · split
    · exact PSame.of_ths rfl
    · exact PSame.refl s
  · exact PSame.refl s

theorem withLogger_ps (s : BSt) (a gid : Nat) (k : Nat → BSt × String) (hk : ∀ lgi, PSame s (k lgi).1) :
    PSame s (withLogger s a gid k).1 := by
  unfold withLogger
  split
  · exact (hk _).trans (PSame.of_ths rfl)
  · exact PSame.refl s

theorem applyFront_ps (s : BSt) (f : FOp) : PSame s (applyFront s f).1 := by
  have hsame : ∀ s' : BSt, s'.ths = s.ths → PSame s s' := fun _ h => PSame.of_ths h
  cases f with
  | tick dt => exact hsame _ rfl
  | tstart a => simp only [applyFront]; split <;> exact hsame _ rfl
  | texit a =>
    simp only [applyFront]
    split
    · exact PSame.refl s
    · split
      · next i _ =>
        have e1 : PSame s (s.setActor a (fun x => { x with alive := false })) := hsame _ rfl
        have e2 := e1.trans (PSame.setTh _ i (fun t => { t with valid := false }) (fun _ => rfl))
        exact e2.trans (PSame.of_ths rfl)
      · exact hsame _ rfl
  | resume a =>
    simp only [applyFront]
    have h1 := resume_ps s a
    split
    · exact h1
    · split
      · exact h1
      · exact h1.trans (PSame.of_ths rfl)
  | armStall a => simp only [applyFront]; split <;> exact hsame _ rfl
  | log a g lvl len dyn =>
    simp only [applyFront]
    apply withLogger_ps
    intro lgi
    have h1 : PSame s ({ s with nextId := s.nextId + 1 } : BSt) := hsame _ rfl
    split
    · exact h1.trans (frontCall_ps ..)
    · exact h1
  | logNamed a g len =>
    simp only [applyFront]
    apply withLogger_ps
    intro lgi
    have h1 : PSame s ({ s with nextId := s.nextId + 1 } : BSt) := hsame _ rfl
    split
    · exact h1.trans (frontCall_ps ..)
    · exact h1
  | logBt a g len =>
    simp only [applyFront]
    apply withLogger_ps
    intro lgi
    have h1 : PSame s ({ s with nextId := s.nextId + 1 } : BSt) := hsame _ rfl
    split
    · exact h1.trans (frontCall_ps ..)
    · exact h1
  | initBt a g cap fl => simp only [applyFront]; exact withLogger_ps _ _ _ _ (fun lgi => frontCall_ps ..)
  | flushBt a g => simp only [applyFront]; exact withLogger_ps _ _ _ _ (fun lgi => frontCall_ps ..)
  | flush a g =>
    simp only [applyFront]
    apply withLogger_ps
    intro lgi
    have h1 : PSame s ({ s with nextFlag := s.nextFlag + 1 } : BSt) := hsame _ rfl
    exact h1.trans (frontCall_ps ..)
  | removeBlocking a g =>
    simp only [applyFront]
    split
    · exact PSame.refl s
    · apply withLogger_ps
      intro lgi
      have h1 : PSame s (dropName { s with nextFlag := s.nextFlag + 1 } g) := hsame _ rfl
      exact h1.trans (frontCall_ps ..)
  | remove a g =>
    simp only [applyFront]
    split
    · exact PSame.refl s
    · split
      · exact hsame _ rfl
      · exact PSame.refl s
  | create a g sl =>
    simp only [applyFront]
    split
    · exact PSame.refl s
    · split
      · split
        · exact PSame.refl s
        · exact hsame _ rfl
      · exact hsame _ rfl
  | setLevel g lvl => simp only [applyFront]; split <;> first | exact PSame.refl s | exact hsame _ rfl
  | setSinkLevel sid lvl => simp only [applyFront]; split <;> first | exact PSame.refl s | exact hsame _ rfl
  | dropSink sid =>
    simp only [applyFront]
    exact PSame.of_ths (reapSinks_frame (s.setSink sid (fun k => { k with userRef := false })) [sid]).ths
  | query => exact PSame.refl s

/-! ### the order invariant -/

theorem wcount_nowrite0 {evs : List Ev} (h : ∀ e ∈ evs, isWriteEv e = false) (sid id : Nat) : wcount evs sid id = 0 := by
  have := wcount_nowrite (l := []) h sid id
  simpa [wcount] using this

/-- a popped ordinary statement and a not yet popped one carry different ids -/
theorem Inv.popped_ne_unpopped {s : BSt} (h : Inv s) {i j : Nat} {x st : Stmt} (hx : x ∈ (s.th i).popped)
    (hox : isOrd x = true) (hst : st ∈ (s.th j).buf ++ (s.th j).qStmts) (hos : isOrd st = true) : st.id ≠ x.id := by
  intro e
  have h1 := h.popped_counted hx hox
  have h2 := h.unpopped hst hos
  rw [e] at h2; omega

/-- what the pop of `st` appends to the history: ordinary writes of `st` only -/
theorem popStep_log_ext {s : BSt} (h : Inv s) (i : Nat) (st : Stmt) (rest : List Stmt) (sid : Nat) :
    ∃ evs, (popStep s i st rest).log = evs ++ s.log ∧
      ∀ id, ¬ (isOrd st = true ∧ st.id = id) → wcount evs sid id = 0 := by
  obtain ⟨e1, he1⟩ := (processEvent_core s st).log
  have hpe : ∀ id, ¬ (isOrd st = true ∧ st.id = id) → wcount e1 sid id = 0 := by
    intro id hne
    have hw := (processEvent_w h.w.ring st sid id).1
    rw [if_neg hne, he1, wcount_append] at hw
    omega
  unfold popStep
  dsimp only
  split
  · next m _ =>
    refine ⟨Ev.notify m :: e1, ?_, fun id hne => ?_⟩
    · show Ev.notify m :: (processEvent s st).1.log = _
      rw [he1]; rfl
    · have := hpe id hne
      simpa [wcount, ordWrite] using this
  · exact ⟨e1, he1, hpe⟩

theorem dropCtx_ps (s1 : BSt) (i : Nat) : PSame s1 (dropCtx s1 i) := by
  refine ⟨fun j => ?_⟩
  unfold PA.dropCtx
  rw [th_setTh]
  split <;> rfl

theorem readOne_ps (s : BSt) (i : Nat) (st : Stmt) (rest : List Stmt) : PSame s (readOne s i st rest) := by
  refine ⟨fun j => ?_⟩
  have e1 : ∀ j, ((s.setTh i (fun t => { t with q := (qPrepareRead s.cfg (s.th i).q).1 })).th j).popped = (s.th j).popped := by
    intro j; rw [th_setTh]; split <;> rfl
  have key : ∀ s2 : BSt, (∀ j, (s2.th j).popped = (s.th j).popped) →
      ((s2.setTh i (fun t => { t with q := qFinishRead s2.cfg t.q st.size, qStmts := rest, buf := t.buf ++ [st] })).th j).popped =
        (s.th j).popped := by
    intro s2 h2
    rw [th_setTh]; split
    · exact h2 j
    · exact h2 j
  unfold PA.readOne
  dsimp only
  split
  · exact key _ (fun j => e1 j)
  · exact key _ e1

structure OrdInv (sid : Nat) (s : BSt) : Prop where
  inv : Inv s
  ord : ∀ (i p q : Nat) (x y : Stmt), p < q → (s.th i).popped[p]? = some x → (s.th i).popped[q]? = some y →
    isOrd x = true → isOrd y = true → OrdPair s.log sid x.id y.id

theorem OrdInv.quiet {sid : Nat} {s s' : BSt} (h : OrdInv sid s) (hi : Inv s') (hp : PSame s s')
    (hl : ∃ evs, s'.log = evs ++ s.log ∧ ∀ e ∈ evs, isWriteEv e = false) : OrdInv sid s' := by
  obtain ⟨evs, he, hn⟩ := hl
  refine ⟨hi, fun i p q x y hpq hx hy hox hoy => ?_⟩
  rw [hp.eq i] at hx hy
  rw [he]
  exact OrdPair.extend evs (wcount_nowrite0 hn sid x.id) (Or.inl (h.ord i p q x y hpq hx hy hox hoy))

theorem OrdInv.closed (sid : Nat) : Closed (OrdInv sid) where
  frame := fun s s' h f => h.quiet (Inv.closed.frame s s' h.inv f) (PSame.of_ths f.ths) f.log
  refresh := fun s h => h.quiet (Inv.closed.refresh s h.inv) (by unfold refreshCache; split <;> exact PSame.of_ths rfl)
    (by unfold refreshCache; split <;> exact ⟨[], rfl, by simp⟩)
  ctxEmpty := fun s i h => h.quiet (Inv.closed.ctxEmpty s i h.inv) (by rw [ctxEmpty_fst]; exact PSame.setTh _ _ _ (fun _ => rfl))
    ⟨[], rfl, by simp⟩
  dropCtx := fun s i h hv he hz => h.quiet (Inv.closed.dropCtx s i h.inv hv he hz)
    ((by rw [ctxEmpty_fst]; exact PSame.setTh _ _ _ (fun _ => rfl) : PSame s (ctxEmpty s i).1).trans (dropCtx_ps _ i))
    ⟨[], rfl, by simp⟩
  prepRead := fun s i h => h.quiet (Inv.closed.prepRead s i h.inv) (PSame.setTh _ _ _ (fun _ => rfl)) ⟨[], rfl, by simp⟩
  commitRead := fun s i h => h.quiet (Inv.closed.commitRead s i h.inv) (PSame.setTh _ _ _ (fun _ => rfl)) ⟨[], rfl, by simp⟩
  readOne := fun s i st rest h hq hr => h.quiet (Inv.closed.readOne s i st rest h.inv hq hr) (readOne_ps s i st rest)
    (by unfold PA.readOne; dsimp only; split <;> exact ⟨[], rfl, by simp⟩)
  pop := fun s j st rest h hb => by
    have hI := Inv.closed.pop s j st rest h.inv hb
    obtain ⟨hbuf, hpop, _, hoth⟩ := popStep_pops s j st rest hb
    obtain ⟨evs, he, hev⟩ := popStep_log_ext h.inv j st rest sid
    have hstm : st ∈ (s.th j).buf ++ (s.th j).qStmts := by rw [hb]; simp
    refine ⟨hI, fun i p q x y hpq hx hy hox hoy => ?_⟩
    rw [he]
    -- `x` was popped before this step, so the step writes nothing of it
    have hxold : (s.th i).popped[p]? = some x := by
      by_cases hij : i = j
      · subst hij
        rw [hpop] at hx hy
        have hq : q < ((s.th i).popped ++ [st]).length := by
          by_cases hq : q < ((s.th i).popped ++ [st]).length
          · exact hq
          · rw [List.getElem?_eq_none (by omega)] at hy; cases hy
        rw [List.getElem?_append_left (by simp at hq; omega)] at hx
        exact hx
      · rw [hoth i hij] at hx; exact hx
    have hxm : x ∈ (s.th i).popped := List.mem_of_getElem? hxold
    have h0 : wcount evs sid x.id = 0 := by
      apply hev
      intro hc
      exact h.inv.popped_ne_unpopped hxm hox hstm hc.1 hc.2
    by_cases hyold : (s.th i).popped[q]? = some y
    · exact OrdPair.extend evs h0 (Or.inl (h.ord i p q x y hpq hxold hyold hox hoy))
    · -- `y` is the statement popped now: it had no write before
      have hy_st : i = j ∧ y = st := by
        by_cases hij : i = j
        · subst hij
          rw [hpop] at hy
          by_cases hq : q < (s.th i).popped.length
          · rw [List.getElem?_append_left hq] at hy; exact absurd hy hyold
          · rw [List.getElem?_append_right (by omega)] at hy
            have : q - (s.th i).popped.length = 0 := by
              by_cases h0' : q - (s.th i).popped.length = 0
              · exact h0'
              · rw [List.getElem?_eq_none (by simp; omega)] at hy; cases hy
            rw [this] at hy
            simp at hy
            exact ⟨rfl, hy.symm⟩
        · rw [hoth i hij] at hy; exact absurd hy hyold
      rw [hy_st.2]
      exact OrdPair.extend evs h0 (Or.inr (h.inv.unpopped_unwritten hstm (hy_st.2 ▸ hoy) sid))
  failReset := fun s i h hf => h.quiet (Inv.closed.failReset s i h.inv hf) (by
      unfold PA.failReset
      exact (PSame.setTh s i (fun t => { t with fail := 0 }) (fun _ => rfl)).trans (PSame.of_ths rfl))
    (by unfold PA.failReset; exact ⟨[_], rfl, by simp [isWriteEv]⟩)
  front := fun s f h => h.quiet (Inv.closed.front s f h.inv) (applyFront_ps s f) (applyFront_ffr s f).log

/-- **thread order at every sink**: two ordinary statements accepted by the same context in this order are never
    written to a sink in the opposite order -/
theorem OrdInv.accepted_order {sid : Nat} {s : BSt} (h : OrdInv sid s) (i : Nat) (l1 l2 l3 : List Stmt) (x y : Stmt)
    (ha : (s.th i).accepted = l1 ++ x :: (l2 ++ y :: l3)) (hox : isOrd x = true) (hoy : isOrd y = true) :
    OrdPair s.log sid x.id y.id := by
  have hcons := (h.inv.a.th i).cons
  rw [List.append_assoc] at hcons
  have hxi : (s.th i).accepted[l1.length]? = some x := by rw [ha]; simp
  have hyi : (s.th i).accepted[l1.length + 1 + l2.length]? = some y := by
    rw [ha, List.getElem?_append_right (by omega)]
    have : l1.length + 1 + l2.length - l1.length = l2.length + 1 := by omega
    rw [this]; simp
  by_cases hq : l1.length + 1 + l2.length < (s.th i).popped.length
  · rw [hcons, List.getElem?_append_left hq] at hyi
    rw [hcons, List.getElem?_append_left (by omega)] at hxi
    exact h.ord i _ _ x y (by omega) hxi hyi hox hoy
  · rw [hcons, List.getElem?_append_right (by omega)] at hyi
    have hym : y ∈ (s.th i).buf ++ (s.th i).qStmts := List.mem_of_getElem? hyi
    have hz := h.inv.unpopped_unwritten hym hoy sid
    intro pre suf he hb
    rw [he, wcount_append] at hz; omega

theorem OrdInv.run {sid : Nat} {s : BSt} (h : OrdInv sid s) (ops : List Op) : OrdInv sid (runOps s ops) :=
  runOps_closed (OrdInv.closed sid) ops s h

theorem Fresh.ordInv {s : BSt} (h : Fresh s) (sid : Nat) : OrdInv sid s :=
  ⟨h.inv, fun i p q x y _ hx _ _ _ => by
    rw [th_default_of_ge s i (by rw [h.ths]; exact Nat.zero_le _)] at hx
    simp [Inhabited.default] at hx⟩

end Backend.PA
