import QuillModel.Backend.LoggerProofs
/-!
The logger-removal invariant `LA` through the backend's pieces, and `LInv = TCInv ∧ LA` along every schedule
(`LInv_runOps`): in particular a logger is erased only in a state where every queue and transit buffer is empty.
Helper lemmas for C17.
-/
namespace Backend.PC
open Backend Spsc

/-- a change of the state that keeps names, actors, contexts and, of every logger object, gid / valid / erased /
    sinks (only the backtrace storage, the sinks' counters and the event lists may differ) -/
def LgKeep (s s' : BSt) : Prop :=
  s'.names = s.names ∧ s'.actors = s.actors ∧ s'.ths = s.ths ∧ s'.lgs.length = s.lgs.length ∧
  ∀ j, (s'.lgOf j).gid = (s.lgOf j).gid ∧ (s'.lgOf j).valid = (s.lgOf j).valid ∧
       (s'.lgOf j).erased = (s.lgOf j).erased ∧ (s'.lgOf j).sinks = (s.lgOf j).sinks

theorem LgKeep.refl (s : BSt) : LgKeep s s := ⟨rfl, rfl, rfl, rfl, fun _ => ⟨rfl, rfl, rfl, rfl⟩⟩

theorem LgKeep.trans {a b c : BSt} (h1 : LgKeep a b) (h2 : LgKeep b c) : LgKeep a c :=
  ⟨h2.1.trans h1.1, h2.2.1.trans h1.2.1, h2.2.2.1.trans h1.2.2.1, h2.2.2.2.1.trans h1.2.2.2.1, fun j =>
    ⟨(h2.2.2.2.2 j).1.trans (h1.2.2.2.2 j).1, (h2.2.2.2.2 j).2.1.trans (h1.2.2.2.2 j).2.1,
     (h2.2.2.2.2 j).2.2.1.trans (h1.2.2.2.2 j).2.2.1, (h2.2.2.2.2 j).2.2.2.trans (h1.2.2.2.2 j).2.2.2⟩⟩

theorem LgKeep.of_lview {s s' : BSt} (h : lview s' = lview s) : LgKeep s s' := by
  simp only [lview, Prod.mk.injEq] at h
  obtain ⟨h1, h2, h3, h4⟩ := h
  have hlg : ∀ j, s'.lgOf j = s.lgOf j := fun j => by simp only [BSt.lgOf, h2]
  exact ⟨h1, h3, h4, by rw [h2], fun j => by rw [hlg]; exact ⟨rfl, rfl, rfl, rfl⟩⟩

theorem LgKeep.setLg (s : BSt) (i : Nat) (f : Lg → Lg)
    (hf : ∀ l, (f l).gid = l.gid ∧ (f l).erased = l.erased ∧ (f l).valid = l.valid ∧ (f l).sinks = l.sinks) :
    LgKeep s (s.setLg i f) :=
  ⟨rfl, rfl, rfl, lgs_length_setLg s i f, fun j => by
    obtain ⟨a, b, c, d⟩ := lgOf_setLg_keep s i j f hf
    exact ⟨a, c, b, d⟩⟩

theorem LA.lgKeep {s s' : BSt} (h : LA s) (hk : LgKeep s s') : LA s' :=
  h.lgs_change hk.1 hk.2.1 hk.2.2.1 hk.2.2.2.1 (fun j => (hk.2.2.2.2 j).1)
    (fun _ _ _ st _ => ⟨(hk.2.2.2.2 st.lg).2.1, (hk.2.2.2.2 st.lg).2.2.1⟩) (fun _ _ st _ => (hk.2.2.2.2 st.lg).2.2.1)

theorem writeToSinks_lview (st : Stmt) : ∀ (sids : List Nat) (s : BSt), lview (writeToSinks s st sids).1 = lview s
  | [], _ => rfl
  | sid :: rest, s => by
    simp only [writeToSinks]
    split
    · split
      · rfl
      · rw [writeToSinks_lview st rest]; rfl
    · exact writeToSinks_lview st rest s

theorem dispatch_lgKeep (s : BSt) (st : Stmt) : LgKeep s (dispatch s st).1 :=
  LgKeep.of_lview (writeToSinks_lview st _ s)

theorem replayGo_lgKeep : ∀ (l : List Stmt) (s : BSt), LgKeep s (replayRing.go s l).1
  | [], s => LgKeep.refl s
  | x :: xs, s => by
    unfold replayRing.go
    simp only []
    split
    · split
      · exact ((dispatch_lgKeep s x).trans (LgKeep.of_lview rfl)).trans (replayGo_lgKeep xs _)
      · exact dispatch_lgKeep s x
    · exact (dispatch_lgKeep s x).trans (replayGo_lgKeep xs _)

theorem replayRing_lgKeep (s : BSt) (lgi : Nat) : LgKeep s (replayRing s lgi).1 := by
  unfold replayRing
  split
  · exact LgKeep.refl s
  · simp only []
    split
    · exact replayGo_lgKeep _ s
    · exact (replayGo_lgKeep _ s).trans (LgKeep.setLg _ _ _ (fun _ => ⟨rfl, rfl, rfl, rfl⟩))

theorem flushSinks_lview (s : BSt) : lview (flushSinks s) = lview s := by
  unfold flushSinks
  generalize activeSinks s = l
  induction l generalizing s with
  | nil => rfl
  | cons x xs ih =>
    simp only [List.foldl_cons]
    rw [ih]
    split <;> rfl

theorem processEvent_lgKeep (s : BSt) (st : Stmt) : LgKeep s (processEvent s st).1 := by
  unfold processEvent
  split
  · split
    · simp only []
      split
      · exact dispatch_lgKeep s st
      · split
        · exact (dispatch_lgKeep s st).trans (replayRing_lgKeep _ _)
        · exact dispatch_lgKeep s st
    · split
      · exact LgKeep.setLg _ _ _ (fun _ => ⟨rfl, rfl, rfl, rfl⟩)
      · exact LgKeep.refl s
  · exact LgKeep.setLg _ _ _ (fun _ => ⟨rfl, rfl, rfl, rfl⟩)
  · exact replayRing_lgKeep s _
  · exact LgKeep.of_lview (flushSinks_lview s)
  · exact LgKeep.refl s

/-! ### backend leaves -/

theorem LA_ctxEmpty {s : BSt} (h : LA s) (i : Nat) : LA (ctxEmpty s i).1 := by
  unfold ctxEmpty; exact h.setTh_keep i _ (fun _ => rfl) (fun _ => rfl)

theorem LA_refresh {s : BSt} (h : LA s) : LA (refreshCache s) := by
  unfold refreshCache; split
  · exact LA_of_lview h rfl
  · exact h

theorem LA_allEmpty {s : BSt} (h : LA s) : LA (allEmpty s).1 := by
  unfold allEmpty
  simp only []
  exact foldl_pres_pair LA (fun (acc : BSt × Bool) i => ((ctxEmpty acc.1 i).1, acc.2 && (ctxEmpty acc.1 i).2))
    (fun acc i h => LA_ctxEmpty h i) _ (refreshCache s, true) (LA_refresh h)

theorem LA_hasPending {s : BSt} (h : LA s) : LA (hasPending s).1 := by
  unfold hasPending
  simp only []
  apply foldl_pres_pair LA _ _ _ _ (LA_refresh h)
  intro acc i h
  split
  · exact h
  · split
    · exact h.setTh_keep i _ (fun _ => rfl) (fun _ => rfl)
    · exact h

theorem LA_removeSt {s : BSt} (h : LA s) (i : Nat) : LA (removeSt s i) := by
  unfold removeSt
  refine LA.setTh_keep ?_ i _ (fun _ => rfl) (fun _ => rfl)
  exact LA_of_lview h rfl

theorem findFirst_LA : ∀ (l : List Nat) (s : BSt), LA s → LA (cleanupContexts.go.findFirst s l).1
  | [], _, h => h
  | j :: rest, s, h => by
    rw [findFirst_cons]
    split
    · exact findFirst_LA rest s h
    · split
      · exact LA_ctxEmpty h j
      · exact findFirst_LA rest _ (LA_ctxEmpty h j)

theorem go_LA : ∀ (fuel : Nat) (s : BSt), LA s → LA (cleanupContexts.go fuel s)
  | 0, _, h => h
  | n + 1, s, h => by
    rw [go_succ]
    have h1 := findFirst_LA s.cache s h
    split
    · rename_i s1 heq; rw [heq] at h1; exact h1
    · rename_i s1 i heq; rw [heq] at h1; exact go_LA n _ (LA_removeSt h1 i)

theorem LA_cleanupContexts {s : BSt} (h : LA s) : LA (cleanupContexts s) := by
  rw [cleanupContexts_eq]; split
  · exact h
  · exact go_LA _ _ h

theorem LA_readOneSt {s : BSt} (h : LA s) (i : Nat) (st : Stmt) (rest : List Stmt)
    (hq : (s.th i).qStmts = st :: rest) : LA (readOneSt s i st rest) := by
  have h1 : LA (readPrepSt s i) := by unfold readPrepSt; exact h.setTh_keep i _ (fun _ => rfl) (fun _ => rfl)
  have h2 : LA (decodeSt (readPrepSt s i) st) := by
    unfold decodeSt; split
    · exact LA_of_lview h1 rfl
    · exact h1
  have hth : (decodeSt (readPrepSt s i) st).th i = (readPrepSt s i).th i := by
    unfold decodeSt; split <;> rfl
  have hqs : ((decodeSt (readPrepSt s i) st).th i).qStmts = st :: rest := by
    rw [hth]; unfold readPrepSt; rw [th_setTh]; split <;> exact hq
  unfold readOneSt moveSt
  apply h2.setTh
  intro _ x hx
  left
  have hx' : x ∈ rest ∨ x ∈ ((decodeSt (readPrepSt s i) st).th i).buf ++ [st] := hx
  rcases hx' with hx' | hx'
  · left; rw [hqs]; exact List.mem_cons_of_mem _ hx'
  · rcases List.mem_append.mp hx' with hx' | hx'
    · right; exact hx'
    · left; rw [hqs]; simp only [List.mem_singleton] at hx'; rw [hx']; exact List.mem_cons_self

theorem LA_popSt {s : BSt} (h : LA s) (i : Nat) (st : Stmt) (rest : List Stmt)
    (hb : (s.th i).buf = st :: rest) : LA (popSt s i st rest) := by
  have hk := processEvent_lgKeep s st
  have h2 : ∀ X : BSt, LgKeep s X →
      LA ({ X.setTh i (fun t => { t with buf := rest, popped := t.popped ++ [st] }) with popLog := st :: X.popLog } : BSt) := by
    intro X hX
    have hXL : LA X := h.lgKeep hX
    have hXth : X.th i = s.th i := by simp only [BSt.th, hX.2.2.1]
    refine LA_of_lview (s := X.setTh i (fun t => { t with buf := rest, popped := t.popped ++ [st] })) ?_ rfl
    apply hXL.setTh
    intro _ x hx
    left
    rcases hx with hx | hx
    · left; exact hx
    · right
      have : x ∈ rest := hx
      rw [hXth, hb]; exact List.mem_cons_of_mem _ this
  unfold popSt
  simp only []
  split
  · exact h2 _ (hk.trans (LgKeep.of_lview rfl))
  · exact h2 _ hk


/-- the invariant C17 rests on -/
def LInv (s : BSt) : Prop := TCInv s ∧ LA s

theorem allEmpty_lgs (s : BSt) : (allEmpty s).1.lgs = s.lgs := by
  unfold allEmpty
  simp only []
  have : ∀ (l : List Nat) (acc : BSt × Bool),
      (l.foldl (fun (acc : BSt × Bool) i => ((ctxEmpty acc.1 i).1, acc.2 && (ctxEmpty acc.1 i).2)) acc).1.lgs = acc.1.lgs := by
    intro l
    induction l with
    | nil => intro acc; rfl
    | cons i rest ih => intro acc; simp only [List.foldl_cons]; rw [ih]; rfl
  rw [this]; unfold refreshCache; split <;> rfl

theorem LInv_of_views {x y : BSt} (hx : LInv x) (h1 : core y = core x) (h2 : tview y = tview x)
    (h3 : lview y = lview x) : LInv y :=
  ⟨⟨CInv_of_core h1 hx.1.1, TInv_of_tview hx.1.2 h2⟩, LA_of_lview hx.2 h3⟩

/-- **the erase step**: behind an emptiness check that answered yes on the *current* state, an invalid logger can be
    erased — nothing is waiting in any context, and nobody is parked in a call through an invalid logger -/
theorem LInv_erase {x : BSt} (hx : LInv x) (i : Nat) (hv : (x.lgOf i).valid = false) (he : (allEmpty x).2 = true) :
    LInv ((allEmpty x).1.setLg i (fun l => { l with erased := true })) := by
  have ha : TCInv (allEmpty x).1 := TCInv_closed.allEmpty x hx.1
  have hd := allEmpty_drained x hx.1 he
  refine ⟨⟨CInv_of_core rfl ha.1, TInv_of_tview ha.2 rfl⟩, ?_⟩
  apply (LA_allEmpty hx.2).erase i
  · simp only [BSt.lgOf, allEmpty_lgs]; exact hv
  · intro j hj st hst
    obtain ⟨d1, d2⟩ := hd j hj
    rw [d1, d2] at hst
    rcases hst with hst | hst <;> cases hst

theorem LInv_closed : Closed LInv where
  front := fun s f h => ⟨TCInv_closed.front s f h.1, LA_front s f h.1.1 h.2⟩
  siteCnt := fun s x h => ⟨TCInv_closed.siteCnt s x h.1, LA_of_lview h.2 rfl⟩
  emitInj := fun s a b c d h => ⟨TCInv_closed.emitInj s a b c d h.1, LA_of_lview h.2 rfl⟩
  note := fun s h => ⟨TCInv_closed.note s h.1, LA_of_lview h.2 rfl⟩
  clock := fun s n h => ⟨TCInv_closed.clock s n h.1, LA_of_lview h.2 rfl⟩
  lastFlush := fun s n h => ⟨TCInv_closed.lastFlush s n h.1, LA_of_lview h.2 rfl⟩
  gone := fun s h => ⟨TCInv_closed.gone s h.1, LA_of_lview h.2 rfl⟩
  refresh := fun s h => ⟨TCInv_closed.refresh s h.1, LA_refresh h.2⟩
  allEmpty := fun s h => ⟨TCInv_closed.allEmpty s h.1, LA_allEmpty h.2⟩
  hasPending := fun s h => ⟨TCInv_closed.hasPending s h.1, LA_hasPending h.2⟩
  cleanupContexts := fun s h => ⟨TCInv_closed.cleanupContexts s h.1, LA_cleanupContexts h.2⟩
  invFlag := fun s b h => LInv_of_views h rfl rfl rfl
  erase := fun s i h hv he => LInv_erase h i hv he
  reap := fun s sid h _ _ => LInv_of_views h rfl rfl rfl
  flagRemoval := fun _ s f g _ h _ _ => LInv_of_views h rfl rfl rfl
  flushSinks := fun s h => ⟨TCInv_closed.flushSinks s h.1, LA_of_lview h.2 (flushSinks_lview s)⟩
  readPrep := fun s i h => ⟨TCInv_closed.readPrep s i h.1, by
    unfold readPrepSt; exact h.2.setTh_keep i _ (fun _ => rfl) (fun _ => rfl)⟩
  commit := fun s i h => ⟨TCInv_closed.commit s i h.1, by
    unfold commitSt; exact h.2.setTh_keep i _ (fun _ => rfl) (fun _ => rfl)⟩
  readOne := fun s i st rest h hr hq => ⟨TCInv_closed.readOne s i st rest h.1 hr hq, LA_readOneSt h.2 i st rest hq⟩
  report := fun s i h hf => ⟨TCInv_closed.report s i h.1 hf, by
    have : LA (s.setTh i (fun t => { t with fail := 0 })) := h.2.setTh_keep i _ (fun _ => rfl) (fun _ => rfl)
    exact LA_of_lview this rfl⟩
  pop := fun s i st rest h hl hb => ⟨TCInv_closed.pop s i st rest h.1 hl hb, LA_popSt h.2 i st rest hb⟩
  raise := fun s f h hg => ⟨TCInv_closed.raise s f h.1 hg, LA_of_lview h.2 rfl⟩

theorem LInv_runOps (s0 : BSt) (h0 : LInv s0) (ops : List Op) : LInv (runOps s0 ops) :=
  runOps_closed LInv_closed ops s0 h0

end Backend.PC
