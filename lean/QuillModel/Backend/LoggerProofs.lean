import QuillModel.Backend.DrainProofs
/-!
The logger-removal invariant `LA` of the backend model and its preservation by every frontend operation
(`LA_front`): names point to objects of that gid; a parked call goes through a valid, un-erased logger and remembers
its name (`inCall`), so `loggerBusy` protects it; no record of an erased logger waits in any queue or transit buffer;
a parked removal request is the only user of its gid and its name is gone. Helper lemmas for C17.
-/
namespace Backend.PC
open Backend Spsc

/-- gid / erased / valid of every logger object after an update that keeps them -/
theorem lgOf_setLg_keep (s : BSt) (i j : Nat) (f : Lg → Lg)
    (h : ∀ l, (f l).gid = l.gid ∧ (f l).erased = l.erased ∧ (f l).valid = l.valid ∧ (f l).sinks = l.sinks) :
    ((s.setLg i f).lgOf j).gid = (s.lgOf j).gid ∧ ((s.setLg i f).lgOf j).erased = (s.lgOf j).erased ∧
    ((s.setLg i f).lgOf j).valid = (s.lgOf j).valid ∧ ((s.setLg i f).lgOf j).sinks = (s.lgOf j).sinks := by
  rw [lgOf_setLg]; split
  · exact h _
  · exact ⟨rfl, rfl, rfl, rfl⟩

def isRemoval (st : Stmt) : Prop := ∃ f, st.kind = .removal f

/-- the logger-side invariant (without the `inCall` bookkeeping) -/
structure LA0 (s : BSt) : Prop where
  names : ∀ p ∈ s.names, p.2 < s.lgs.length ∧ (s.lgOf p.2).gid = p.1
  pendOK : ∀ x ∈ s.actors, x.alive = true → ∀ st, pendStmt x.pend = some st →
    (s.lgOf st.lg).valid = true ∧ (s.lgOf st.lg).erased = false ∧ st.lg < s.lgs.length
  live : ∀ i, i < s.ths.length → ∀ st, (st ∈ (s.th i).qStmts ∨ st ∈ (s.th i).buf) → (s.lgOf st.lg).erased = false
  noname : ∀ x ∈ s.actors, x.alive = true → ∀ st, pendStmt x.pend = some st → isRemoval st →
    ∀ p ∈ s.names, p.1 ≠ (s.lgOf st.lg).gid
  excl : ∀ x ∈ s.actors, x.alive = true → ∀ st, pendStmt x.pend = some st → isRemoval st →
    ∀ y ∈ s.actors, y.alive = true → ∀ st', pendStmt y.pend = some st' →
      (s.lgOf st'.lg).gid = (s.lgOf st.lg).gid → y.id = x.id

/-- a parked call remembers the name of the logger it goes through -/
def InCallOK (s : BSt) : Prop :=
  ∀ x ∈ s.actors, x.alive = true → ∀ st, pendStmt x.pend = some st → x.inCall = some (s.lgOf st.lg).gid

def LA (s : BSt) : Prop := LA0 s ∧ InCallOK s

/-- what `LA` reads of a state -/
def lview (s : BSt) : List (Nat × Nat) × List Lg × List Actor × List Th := (s.names, s.lgs, s.actors, s.ths)

theorem LA_of_lview {s s' : BSt} (hs : LA s) (h : lview s' = lview s) : LA s' := by
  simp only [lview, Prod.mk.injEq] at h
  obtain ⟨h1, h2, h3, h4⟩ := h
  have hlg : ∀ i, s'.lgOf i = s.lgOf i := fun i => by simp only [BSt.lgOf, h2]
  have hth : ∀ i, s'.th i = s.th i := fun i => by simp only [BSt.th, h4]
  obtain ⟨⟨a1, a2, a3, a4, a5⟩, b⟩ := hs
  refine ⟨⟨?_, ?_, ?_, ?_, ?_⟩, ?_⟩
  · intro p hp; rw [h1] at hp; rw [h2, hlg]; exact a1 p hp
  · intro x hx; rw [h3] at hx; intro hal st hst; rw [hlg, h2]; exact a2 x hx hal st hst
  · intro i hi st hst; rw [h4] at hi; rw [hth] at hst; rw [hlg]; exact a3 i hi st hst
  · intro x hx; rw [h3] at hx; intro hal st hst hr p hp; rw [h1] at hp; rw [hlg]; exact a4 x hx hal st hst hr p hp
  · intro x hx; rw [h3] at hx; intro hal st hst hr y hy; rw [h3] at hy; intro hyal st' hst'
    rw [hlg, hlg]; exact a5 x hx hal st hst hr y hy hyal st' hst'
  · intro x hx; rw [h3] at hx; intro hal st hst; rw [hlg]; exact b x hx hal st hst

theorem loggerBusy_iff (s : BSt) (g : Nat) :
    loggerBusy s g = true ↔ ∃ x ∈ s.actors, x.alive = true ∧ x.inCall = some g ∧ isParked x = true := by
  simp only [loggerBusy, List.any_eq_true, Bool.and_eq_true, beq_iff_eq]
  constructor
  · rintro ⟨x, hx, ⟨h1, h2⟩, h3⟩; exact ⟨x, hx, h1, h2, h3⟩
  · rintro ⟨x, hx, h1, h2, h3⟩; exact ⟨x, hx, ⟨h1, h2⟩, h3⟩

theorem parked_of_pendStmt {x : Actor} {st : Stmt} (h : pendStmt x.pend = some st) : isParked x = true := by
  unfold isParked
  cases hp : x.pend <;> simp_all [pendStmt]

/-- with a free name, nobody is parked in a call through a logger of that name -/
theorem no_users_of_not_busy {s : BSt} (hs : LA s) {g : Nat} (hb : loggerBusy s g = false) :
    ∀ y ∈ s.actors, y.alive = true → ∀ st', pendStmt y.pend = some st' → (s.lgOf st'.lg).gid ≠ g := by
  intro y hy hal st' hst' hg
  have := hs.2 y hy hal st' hst'
  have hbusy : loggerBusy s g = true :=
    (loggerBusy_iff s g).mpr ⟨y, hy, hal, by rw [this, hg], parked_of_pendStmt hst'⟩
  rw [hb] at hbusy; cases hbusy

theorem loggerOf_some {s : BSt} {g i : Nat} (h : loggerOf s g = some i) :
    (g, i) ∈ s.names ∧ (s.lgOf i).valid = true ∧ (s.lgOf i).erased = false := by
  unfold loggerOf at h
  split at h
  · rename_i g' i' hf
    split at h
    · rename_i hv
      simp only [Option.some.injEq] at h
      subst h
      have hm := List.mem_of_find?_eq_some hf
      have hk := List.find?_some hf
      simp only [decide_eq_true_eq] at hk
      subst hk
      simp only [Bool.not_eq_true', decide_eq_true_eq] at hv
      exact ⟨hm, hv.1, by simpa using hv.2⟩
    · cases h
  · cases h


/-! ### primitive updates -/

theorem LA0.setTh {s : BSt} (h : LA0 s) (i : Nat) (f : Th → Th)
    (hf : i < s.ths.length → ∀ st, (st ∈ (f (s.th i)).qStmts ∨ st ∈ (f (s.th i)).buf) →
      (st ∈ (s.th i).qStmts ∨ st ∈ (s.th i).buf) ∨ (s.lgOf st.lg).erased = false) : LA0 (s.setTh i f) := by
  refine ⟨h.names, h.pendOK, ?_, h.noname, h.excl⟩
  intro j hj st hst
  rw [ths_length_setTh] at hj
  rw [th_setTh] at hst
  split at hst
  · rename_i hji
    obtain ⟨rfl, _⟩ := hji
    rcases hf hj st hst with h1 | h1
    · exact h.live j hj st h1
    · exact h1
  · exact h.live j hj st hst

theorem LA.setTh {s : BSt} (h : LA s) (i : Nat) (f : Th → Th)
    (hf : i < s.ths.length → ∀ st, (st ∈ (f (s.th i)).qStmts ∨ st ∈ (f (s.th i)).buf) →
      (st ∈ (s.th i).qStmts ∨ st ∈ (s.th i).buf) ∨ (s.lgOf st.lg).erased = false) : LA (s.setTh i f) :=
  ⟨h.1.setTh i f hf, h.2⟩

/-- an update of a context that keeps queue and buffer contents -/
theorem LA.setTh_keep {s : BSt} (h : LA s) (i : Nat) (f : Th → Th)
    (h1 : ∀ t, (f t).qStmts = t.qStmts) (h2 : ∀ t, (f t).buf = t.buf) : LA (s.setTh i f) :=
  h.setTh i f (fun _ st hst => Or.inl (by rw [h1, h2] at hst; exact hst))

/-- what a new parked record must satisfy -/
def NewOK (s : BSt) (a : Nat) (st : Stmt) : Prop :=
  (s.lgOf st.lg).valid = true ∧ (s.lgOf st.lg).erased = false ∧ st.lg < s.lgs.length ∧
  (isRemoval st → ∀ p ∈ s.names, p.1 ≠ (s.lgOf st.lg).gid) ∧
  (∀ y ∈ s.actors, y.alive = true → y.id ≠ a → ∀ st', pendStmt y.pend = some st' →
     (s.lgOf st'.lg).gid = (s.lgOf st.lg).gid → ¬ isRemoval st ∧ ¬ isRemoval st')

/-- updating actor `a` (all live entries with that id): every pending record afterwards is an old one of the same
    actor entry (same logger, removal only if it was one) or a new admissible one -/
theorem LA.setActor {s : BSt} (h : LA s) (a : Nat) (f : Actor → Actor)
    (hid : ∀ x, (f x).id = x.id)
    (hp : ∀ x ∈ s.actors, x.id = a → x.alive = true → ∀ st, pendStmt (f x).pend = some st →
      ((∃ st0, pendStmt x.pend = some st0 ∧ st0.lg = st.lg ∧ (isRemoval st → isRemoval st0)) ∨ NewOK s a st))
    (hic : ∀ x ∈ s.actors, x.id = a → x.alive = true → ∀ st, pendStmt (f x).pend = some st →
      (f x).inCall = some (s.lgOf st.lg).gid) : LA (s.setActor a f) := by
  obtain ⟨⟨a1, a2, a3, a4, a5⟩, b⟩ := h
  -- every actor after the update comes from one before
  have hmem : ∀ x' ∈ (s.setActor a f).actors, ∃ x ∈ s.actors,
      (x.id = a ∧ x.alive = true ∧ x' = f x) ∨ (¬ (x.id = a ∧ x.alive = true) ∧ x' = x) := by
    intro x' hx'
    simp only [BSt.setActor, List.mem_map] at hx'
    obtain ⟨x, hx, rfl⟩ := hx'
    by_cases hc : x.id = a ∧ x.alive = true
    · exact ⟨x, hx, Or.inl ⟨hc.1, hc.2, by simp [hc]⟩⟩
    · exact ⟨x, hx, Or.inr ⟨hc, by simp [hc]⟩⟩
  -- facts about a pending record of an updated or untouched actor
  have hfacts : ∀ x' ∈ (s.setActor a f).actors, x'.alive = true → ∀ st, pendStmt x'.pend = some st →
      (s.lgOf st.lg).valid = true ∧ (s.lgOf st.lg).erased = false ∧ st.lg < s.lgs.length ∧
      (isRemoval st → ∀ p ∈ s.names, p.1 ≠ (s.lgOf st.lg).gid) := by
    intro x' hx' hal' st hst
    obtain ⟨x, hx, hc | hc⟩ := hmem x' hx'
    · obtain ⟨h1, h2, rfl⟩ := hc
      rcases hp x hx h1 h2 st hst with ⟨st0, hs0, hlg, hrem⟩ | hn
      · have := a2 x hx h2 st0 hs0
        rw [hlg] at this
        refine ⟨this.1, this.2.1, this.2.2, fun hr => ?_⟩
        have := a4 x hx h2 st0 hs0 (hrem hr)
        rw [hlg] at this; exact this
      · exact ⟨hn.1, hn.2.1, hn.2.2.1, hn.2.2.2.1⟩
    · obtain ⟨_, rfl⟩ := hc
      have := a2 x' hx hal' st hst
      exact ⟨this.1, this.2.1, this.2.2, a4 x' hx hal' st hst⟩
  refine ⟨⟨a1, ?_, a3, ?_, ?_⟩, ?_⟩
  · intro x' hx' hal' st hst
    have := hfacts x' hx' hal' st hst
    exact ⟨this.1, this.2.1, this.2.2.1⟩
  · intro x' hx' hal' st hst hr
    exact (hfacts x' hx' hal' st hst).2.2.2 hr
  · intro x' hx' halx st hst hr y' hy' haly st' hst' hg
    obtain ⟨x, hx, hcx | hcx⟩ := hmem x' hx'
    · obtain ⟨hx1, hx2, rfl⟩ := hcx
      obtain ⟨y, hy, hcy | hcy⟩ := hmem y' hy'
      · obtain ⟨hy1, _, rfl⟩ := hcy
        rw [hid, hid, hx1, hy1]
      · obtain ⟨hny, rfl⟩ := hcy
        rw [hid, hx1]
        by_cases hya : y'.id = a
        · exact hya
        · rcases hp x hx hx1 hx2 st hst with ⟨st0, hs0, hlg, hrem⟩ | hn
          · have := a5 x hx hx2 st0 hs0 (hrem hr) y' hy haly st' hst' (by rw [hlg]; exact hg)
            rw [this, hx1]
          · exact absurd hr (hn.2.2.2.2 y' hy haly hya st' hst' hg).1
    · obtain ⟨hnx, rfl⟩ := hcx
      obtain ⟨y, hy, hcy | hcy⟩ := hmem y' hy'
      · obtain ⟨hy1, hy2, rfl⟩ := hcy
        rw [hid, hy1]
        by_cases hxa : x'.id = a
        · exact hxa.symm
        · rcases hp y hy hy1 hy2 st' hst' with ⟨st0, hs0, hlg, _⟩ | hn
          · have := a5 x' hx halx st hst hr y hy hy2 st0 hs0 (by rw [hlg]; exact hg)
            rw [← this, hy1]
          · exact absurd hr (hn.2.2.2.2 x' hx halx hxa st hst hg.symm).2
      · obtain ⟨_, rfl⟩ := hcy
        exact a5 x' hx halx st hst hr y' hy haly st' hst' hg
  · intro x' hx' hal' st hst
    obtain ⟨x, hx, hc | hc⟩ := hmem x' hx'
    · obtain ⟨h1, h2, rfl⟩ := hc
      exact hic x hx h1 h2 st hst
    · obtain ⟨_, rfl⟩ := hc
      exact b x' hx hal' st hst


/-- a change of the logger objects that keeps every gid, and keeps `valid` / `erased` of every object a parked
    call or a waiting record goes through -/
theorem LA.lgs_change {s s' : BSt} (h : LA s) (hn : s'.names = s.names) (ha : s'.actors = s.actors)
    (ht : s'.ths = s.ths) (hl : s'.lgs.length = s.lgs.length) (hg : ∀ j, (s'.lgOf j).gid = (s.lgOf j).gid)
    (hv : ∀ x ∈ s.actors, x.alive = true → ∀ st, pendStmt x.pend = some st →
      (s'.lgOf st.lg).valid = (s.lgOf st.lg).valid ∧ (s'.lgOf st.lg).erased = (s.lgOf st.lg).erased)
    (he : ∀ i, i < s.ths.length → ∀ st, (st ∈ (s.th i).qStmts ∨ st ∈ (s.th i).buf) →
      (s'.lgOf st.lg).erased = (s.lgOf st.lg).erased) : LA s' := by
  obtain ⟨⟨a1, a2, a3, a4, a5⟩, b⟩ := h
  have hth : ∀ i, s'.th i = s.th i := fun i => by simp only [BSt.th, ht]
  refine ⟨⟨?_, ?_, ?_, ?_, ?_⟩, ?_⟩
  · intro p hp; rw [hn] at hp; rw [hl, hg]; exact a1 p hp
  · intro x hx hal st hst; rw [ha] at hx
    have := a2 x hx hal st hst
    have hh := hv x hx hal st hst
    rw [hh.1, hh.2, hl]; exact this
  · intro i hi st hst; rw [ht] at hi; rw [hth] at hst
    rw [he i hi st hst]; exact a3 i hi st hst
  · intro x hx hal st hst hr p hp; rw [ha] at hx; rw [hn] at hp; rw [hg]; exact a4 x hx hal st hst hr p hp
  · intro x hx hal st hst hr y hy hyal st' hst' hgg; rw [ha] at hx hy; rw [hg, hg] at hgg
    exact a5 x hx hal st hst hr y hy hyal st' hst' hgg
  · intro x hx hal st hst; rw [ha] at hx; rw [hg]; exact b x hx hal st hst

theorem LA.setLg_keep {s : BSt} (h : LA s) (i : Nat) (f : Lg → Lg)
    (hf : ∀ l, (f l).gid = l.gid ∧ (f l).erased = l.erased ∧ (f l).valid = l.valid ∧ (f l).sinks = l.sinks) :
    LA (s.setLg i f) :=
  LA.lgs_change (s' := s.setLg i f) h rfl rfl rfl (lgs_length_setLg s i f) (fun j => (lgOf_setLg_keep s i j f hf).1)
    (fun _ _ _ st _ => ⟨(lgOf_setLg_keep s i st.lg f hf).2.2.1, (lgOf_setLg_keep s i st.lg f hf).2.1⟩)
    (fun _ _ st _ => (lgOf_setLg_keep s i st.lg f hf).2.1)

/-- marking a logger invalid: nobody may be parked in a call through it -/
theorem LA.invalidate {s : BSt} (h : LA s) (i : Nat)
    (hu : ∀ x ∈ s.actors, x.alive = true → ∀ st, pendStmt x.pend = some st → st.lg ≠ i) :
    LA (s.setLg i (fun l => { l with valid := false })) := by
  refine LA.lgs_change (s' := s.setLg i (fun l => { l with valid := false })) h rfl rfl rfl (lgs_length_setLg ..) ?_ ?_ ?_
  · intro j; rw [lgOf_setLg]; split <;> rfl
  · intro x hx hal st hst
    rw [lgOf_setLg]
    have := hu x hx hal st hst
    simp only [this, false_and, if_false, and_self]
  · intro j _ st _; rw [lgOf_setLg]; split <;> rfl

/-- erasing a logger: it is invalid (so nobody is parked in a call through it) and no record of it is waiting -/
theorem LA.erase {s : BSt} (h : LA s) (i : Nat) (hv : (s.lgOf i).valid = false)
    (hd : ∀ j, j < s.ths.length → ∀ st, (st ∈ (s.th j).qStmts ∨ st ∈ (s.th j).buf) → st.lg ≠ i) :
    LA (s.setLg i (fun l => { l with erased := true })) := by
  refine LA.lgs_change (s' := s.setLg i (fun l => { l with erased := true })) h rfl rfl rfl (lgs_length_setLg ..) ?_ ?_ ?_
  · intro j; rw [lgOf_setLg]; split <;> rfl
  · intro x hx hal st hst
    rw [lgOf_setLg]
    have hne : st.lg ≠ i := by
      intro e
      have := (h.1.pendOK x hx hal st hst).1
      rw [e, hv] at this; cases this
    simp only [hne, false_and, if_false, and_self]
  · intro j hj st hst
    rw [lgOf_setLg]
    simp only [hd j hj st hst, false_and, if_false]

theorem LA.drop_name {s : BSt} (h : LA s) (g : Nat) : LA (Backend.dropName s g) := by
  obtain ⟨⟨a1, a2, a3, a4, a5⟩, b⟩ := h
  have hsub : ∀ p ∈ (Backend.dropName s g).names, p ∈ s.names := by
    intro p hp
    simp only [Backend.dropName, List.mem_filter] at hp
    exact hp.1
  exact ⟨⟨fun p hp => a1 p (hsub p hp), a2, a3, fun x hx hal st hst hr p hp => a4 x hx hal st hst hr p (hsub p hp), a5⟩, b⟩

theorem dropName_no_key (s : BSt) (g : Nat) : ∀ p ∈ (dropName s g).names, p.1 ≠ g := by
  intro p hp
  simp only [Backend.dropName, List.mem_filter, decide_eq_true_eq] at hp
  exact hp.2

/-- giving the free name `g` to the object `i` of that gid -/
theorem LA.addName {s : BSt} (h : LA s) (g i : Nat) (hi : i < s.lgs.length) (hgid : (s.lgOf i).gid = g)
    (hb : loggerBusy s g = false) : LA { s with names := s.names ++ [(g, i)] } := by
  have hnu := no_users_of_not_busy h hb
  obtain ⟨⟨a1, a2, a3, a4, a5⟩, b⟩ := h
  refine ⟨⟨?_, a2, a3, ?_, a5⟩, b⟩
  · intro p hp
    have hp' : p ∈ s.names ++ [(g, i)] := hp
    rcases List.mem_append.mp hp' with hp' | hp'
    · exact a1 p hp'
    · simp only [List.mem_singleton] at hp'; subst hp'; exact ⟨hi, hgid⟩
  · intro x hx hal st hst hr p hp
    have hp' : p ∈ s.names ++ [(g, i)] := hp
    rcases List.mem_append.mp hp' with hp' | hp'
    · exact a4 x hx hal st hst hr p hp'
    · simp only [List.mem_singleton] at hp'; subst hp'
      exact (hnu x hx hal st hst).symm

/-- creating a new logger object under the free name `g` -/
theorem LA.newLogger {s : BSt} (h : LA s) (g : Nat) (sl : List Nat) (hb : loggerBusy s g = false) :
    LA { s with lgs := s.lgs ++ [{ gid := g, sinks := sl }], names := s.names ++ [(g, s.lgs.length)] } := by
  have hnu := no_users_of_not_busy h hb
  obtain ⟨⟨a1, a2, a3, a4, a5⟩, b⟩ := h
  have hlt : ∀ j, j < s.lgs.length →
      BSt.lgOf { s with lgs := s.lgs ++ [{ gid := g, sinks := sl }], names := s.names ++ [(g, s.lgs.length)] } j = s.lgOf j := by
    intro j hj
    simp only [BSt.lgOf, List.getD_eq_getElem?_getD, List.getElem?_append_left hj]
  have hnew : BSt.lgOf { s with lgs := s.lgs ++ [{ gid := g, sinks := sl }], names := s.names ++ [(g, s.lgs.length)] }
      s.lgs.length = { gid := g, sinks := sl } := by
    simp only [BSt.lgOf, List.getD_eq_getElem?_getD]; simp
  have her : ∀ j, (BSt.lgOf { s with lgs := s.lgs ++ [{ gid := g, sinks := sl }], names := s.names ++ [(g, s.lgs.length)] } j).erased
      = (s.lgOf j).erased := by
    intro j
    rcases Nat.lt_trichotomy j s.lgs.length with hj | hj | hj
    · rw [hlt j hj]
    · subst hj; rw [hnew]
      simp only [BSt.lgOf, List.getD_eq_getElem?_getD, List.getElem?_eq_none (Nat.le_refl _)]; rfl
    · simp only [BSt.lgOf, List.getD_eq_getElem?_getD]
      rw [List.getElem?_eq_none (by simp; omega), List.getElem?_eq_none (by omega)]
  refine ⟨⟨?_, ?_, ?_, ?_, ?_⟩, ?_⟩
  · intro p hp
    have hp' : p ∈ s.names ++ [(g, s.lgs.length)] := hp
    show p.2 < (s.lgs ++ [_]).length ∧ _
    rcases List.mem_append.mp hp' with hp' | hp'
    · have := a1 p hp'
      rw [hlt p.2 this.1]
      exact ⟨by simp; omega, this.2⟩
    · simp only [List.mem_singleton] at hp'; subst hp'
      rw [hnew]; exact ⟨by simp, rfl⟩
  · intro x hx hal st hst
    have := a2 x hx hal st hst
    rw [hlt st.lg this.2.2]
    exact ⟨this.1, this.2.1, by show st.lg < (s.lgs ++ [_]).length; simp; omega⟩
  · intro i hi st hst
    rw [her]; exact a3 i hi st hst
  · intro x hx hal st hst hr p hp
    have hlg := (a2 x hx hal st hst).2.2
    rw [hlt st.lg hlg]
    have hp' : p ∈ s.names ++ [(g, s.lgs.length)] := hp
    rcases List.mem_append.mp hp' with hp' | hp'
    · exact a4 x hx hal st hst hr p hp'
    · simp only [List.mem_singleton] at hp'; subst hp'
      exact (hnu x hx hal st hst).symm
  · intro x hx hal st hst hr y hy hyal st' hst' hgg
    rw [hlt st.lg (a2 x hx hal st hst).2.2, hlt st'.lg (a2 y hy hyal st' hst').2.2] at hgg
    exact a5 x hx hal st hst hr y hy hyal st' hst' hgg
  · intro x hx hal st hst
    rw [hlt st.lg (a2 x hx hal st hst).2.2]; exact b x hx hal st hst


/-! ### actor-list bookkeeping -/

theorem mem_setActor {s : BSt} {a : Nat} {f : Actor → Actor} {x' : Actor} (hx' : x' ∈ (s.setActor a f).actors) :
    ∃ x ∈ s.actors, (x.id = a ∧ x.alive = true ∧ x' = f x) ∨ (¬ (x.id = a ∧ x.alive = true) ∧ x' = x) := by
  simp only [BSt.setActor, List.mem_map] at hx'
  obtain ⟨x, hx, rfl⟩ := hx'
  by_cases hc : x.id = a ∧ x.alive = true
  · exact ⟨x, hx, Or.inl ⟨hc.1, hc.2, by simp [hc]⟩⟩
  · exact ⟨x, hx, Or.inr ⟨hc, by simp [hc]⟩⟩

theorem setActor_setActor (s : BSt) (a : Nat) (f1 f2 : Actor → Actor)
    (h1 : ∀ x, (f1 x).id = x.id ∧ (f1 x).alive = x.alive) :
    (s.setActor a f1).setActor a f2 = s.setActor a (f2 ∘ f1) := by
  simp only [BSt.setActor, List.map_map]
  congr 1
  apply List.map_congr_left
  intro x _
  simp only [Function.comp]
  by_cases hc : x.id = a ∧ x.alive = true
  · simp only [hc, and_self, if_true, (h1 x).1, (h1 x).2]
  · simp only [hc, if_false]

/-- `Y` is `s` after steps that touched only contexts and, of the actor entries, only those of actor `a` — keeping
    their pending call -/
structure Prefix (s Y : BSt) (a : Nat) : Prop where
  la : LA Y
  lgs : Y.lgs = s.lgs
  names : Y.names = s.names
  others : ∀ y ∈ Y.actors, y.id ≠ a → y ∈ s.actors
  own : ∀ x ∈ Y.actors, x.id = a → x.alive = true →
    ∃ x0 ∈ s.actors, x0.id = a ∧ x0.alive = true ∧ x.pend = x0.pend ∧ x.inCall = x0.inCall
  ex : (s.actor a).isSome = true → (Y.actor a).isSome = true

theorem Prefix.refl {s : BSt} (h : LA s) (a : Nat) : Prefix s s a :=
  ⟨h, rfl, rfl, fun _ hy _ => hy, fun x hx h1 h2 => ⟨x, hx, h1, h2, rfl, rfl⟩, id⟩

theorem Prefix.lgOf {s Y : BSt} {a : Nat} (h : Prefix s Y a) (j : Nat) : Y.lgOf j = s.lgOf j := by
  simp only [BSt.lgOf, h.lgs]

theorem Prefix.setTh {s Y : BSt} {a : Nat} (h : Prefix s Y a) (i : Nat) (f : Th → Th)
    (hf : i < Y.ths.length → ∀ st, (st ∈ (f (Y.th i)).qStmts ∨ st ∈ (f (Y.th i)).buf) →
      (st ∈ (Y.th i).qStmts ∨ st ∈ (Y.th i).buf) ∨ (Y.lgOf st.lg).erased = false) : Prefix s (Y.setTh i f) a :=
  ⟨h.la.setTh i f hf, h.lgs, h.names, h.others, h.own, h.ex⟩

theorem NewOK_transport {s Y : BSt} {a : Nat} {st : Stmt} (h : NewOK s a st) (hl : Y.lgs = s.lgs)
    (hn : ∀ p ∈ Y.names, p ∈ s.names) (ho : ∀ y ∈ Y.actors, y.id ≠ a → y ∈ s.actors) : NewOK Y a st := by
  have hlg : ∀ j, Y.lgOf j = s.lgOf j := fun j => by simp only [BSt.lgOf, hl]
  obtain ⟨h1, h2, h3, h4, h5⟩ := h
  refine ⟨by rw [hlg]; exact h1, by rw [hlg]; exact h2, by rw [hl]; exact h3, ?_, ?_⟩
  · intro hr p hp; rw [hlg]; exact h4 hr p (hn p hp)
  · intro y hy hal hne st' hst' hg
    rw [hlg, hlg] at hg
    exact h5 y (ho y hy hne) hal hne st' hst' hg


theorem LA_appendTh {s : BSt} (h : LA s) (t : Th) (ht : t.qStmts = [] ∧ t.buf = []) (X : BSt)
    (hX : lview X = (s.names, s.lgs, s.actors, s.ths ++ [t])) : LA X := by
  simp only [lview, Prod.mk.injEq] at hX
  obtain ⟨h1, h2, h3, h4⟩ := hX
  have hlg : ∀ i, X.lgOf i = s.lgOf i := fun i => by simp only [BSt.lgOf, h2]
  obtain ⟨⟨a1, a2, a3, a4, a5⟩, b⟩ := h
  refine ⟨⟨?_, ?_, ?_, ?_, ?_⟩, ?_⟩
  · intro p hp; rw [h1] at hp; rw [h2, hlg]; exact a1 p hp
  · intro x hx; rw [h3] at hx; intro hal st hst; rw [hlg, h2]; exact a2 x hx hal st hst
  · intro i hi st hst
    rw [h4] at hi
    simp only [List.length_append, List.length_singleton] at hi
    rw [hlg]
    by_cases hin : i = s.ths.length
    · subst hin
      have : X.th s.ths.length = t := by simp only [BSt.th, h4, List.getD_eq_getElem?_getD]; simp
      rw [this, ht.1, ht.2] at hst
      rcases hst with hst | hst <;> cases hst
    · have hlt : i < s.ths.length := by omega
      have : X.th i = s.th i := by
        simp only [BSt.th, h4, List.getD_eq_getElem?_getD, List.getElem?_append_left hlt]
      rw [this] at hst
      exact a3 i hlt st hst
  · intro x hx; rw [h3] at hx; intro hal st hst hr p hp; rw [h1] at hp; rw [hlg]; exact a4 x hx hal st hst hr p hp
  · intro x hx; rw [h3] at hx; intro hal st hst hr y hy; rw [h3] at hy; intro hyal st' hst'
    rw [hlg, hlg]; exact a5 x hx hal st hst hr y hy hyal st' hst'
  · intro x hx; rw [h3] at hx; intro hal st hst; rw [hlg]; exact b x hx hal st hst

theorem ensureCtx_prefix {s : BSt} (hs : LA s) (a : Nat) : Prefix s (ensureCtx s a).1 a := by
  unfold ensureCtx
  split
  · exact Prefix.refl hs a
  · simp only []
    have hW : LA ({ s with ths := s.ths ++ [mkTh s.cfg a], registry := s.registry ++ [s.ths.length], newFlag := true } : BSt) :=
      LA_appendTh hs (mkTh s.cfg a) ⟨rfl, rfl⟩ _ rfl
    refine ⟨?_, rfl, rfl, ?_, ?_, ?_⟩
    rotate_left 3
    · intro hex
      rw [actor_setActor _ a (fun x => { x with ctx := some s.ths.length }) (fun _ => ⟨rfl, rfl⟩)]
      have : BSt.actor { s with ths := s.ths ++ [mkTh s.cfg a], registry := s.registry ++ [s.ths.length], newFlag := true } a
          = s.actor a := rfl
      rw [this]
      cases hx : s.actor a with
      | none => rw [hx] at hex; cases hex
      | some _ => rfl
    · refine LA.setActor hW a _ (by intro _; rfl) ?_ ?_
      · intro x _ _ _ st hst; exact Or.inl ⟨st, hst, rfl, id⟩
      · intro x hx _ hal st hst; exact hW.2 x hx hal st hst
    · intro y hy hne
      obtain ⟨x, hx, hc | hc⟩ := mem_setActor hy
      · obtain ⟨h1, _, rfl⟩ := hc; exact absurd h1 hne
      · obtain ⟨_, rfl⟩ := hc; exact hx
    · intro x' hx' h1 h2
      obtain ⟨x, hx, hc | hc⟩ := mem_setActor hx'
      · obtain ⟨e1, e2, rfl⟩ := hc; exact ⟨x, hx, e1, e2, rfl, rfl⟩
      · obtain ⟨hn, rfl⟩ := hc; exact absurd ⟨h1, h2⟩ hn

theorem tryEnq_prefix {s Y : BSt} {a : Nat} (h : Prefix s Y a) (ci : Nat) (st : Stmt)
    (hst : (Y.lgOf st.lg).erased = false) : Prefix s (tryEnq Y ci st).1 a := by
  unfold tryEnq
  simp only []
  split
  · apply h.setTh
    intro _ x hx
    have hx' : x ∈ (Y.th ci).qStmts ++ [{ st with enqAt := Y.now }] ∨ x ∈ (Y.th ci).buf := hx
    rcases hx' with hx' | hx'
    · rcases List.mem_append.mp hx' with hx' | hx'
      · exact Or.inl (Or.inl hx')
      · simp only [List.mem_singleton] at hx'; right; rw [hx']; exact hst
    · exact Or.inl (Or.inr hx')
  · exact h.setTh _ _ (fun _ x hx => Or.inl hx)

/-! ### how a call ends -/

/-- the call of `a` ends without a pending record (done, dropped, or waiting for a flag) -/
theorem finish_clear {s Y : BSt} {a : Nat} (h : Prefix s Y a) (f : Actor → Actor) (hid : ∀ x, (f x).id = x.id)
    (hp : ∀ x, pendStmt (f x).pend = none) : LA (Y.setActor a f) := by
  apply h.la.setActor a f hid
  · intro x _ _ _ st hst; rw [hp] at hst; cases hst
  · intro x _ _ _ st hst; rw [hp] at hst; cases hst

theorem clear_no_users {Y : BSt} {a i : Nat} (f : Actor → Actor) (hp : ∀ x, pendStmt (f x).pend = none)
    (hno : ∀ y ∈ Y.actors, y.alive = true → y.id ≠ a → ∀ st', pendStmt y.pend = some st' → st'.lg ≠ i) :
    ∀ y ∈ (Y.setActor a f).actors, y.alive = true → ∀ st', pendStmt y.pend = some st' → st'.lg ≠ i := by
  intro y' hy' hal st' hst'
  obtain ⟨y, hy, hc | hc⟩ := mem_setActor hy'
  · obtain ⟨_, _, rfl⟩ := hc; rw [hp] at hst'; cases hst'
  · obtain ⟨hn, rfl⟩ := hc
    by_cases hya : y'.id = a
    · exact absurd ⟨hya, hal⟩ hn
    · exact hno y' hy hal hya st' hst'

/-- the removal request of `a` was enqueued: the logger is marked invalid, `a` waits for the flag -/
theorem finish_invalidate {s Y : BSt} {a : Nat} (h : Prefix s Y a) (i fl : Nat)
    (hno : ∀ y ∈ Y.actors, y.alive = true → y.id ≠ a → ∀ st', pendStmt y.pend = some st' → st'.lg ≠ i) :
    LA (({ (Y.setActor a (fun x => { x with pend := .none })).setLg i (fun l => { l with valid := false })
          with hasInvalidLoggers := true } : BSt).setActor a (fun x => { x with pend := .flag fl })) := by
  have h1 : LA (Y.setActor a (fun x => { x with pend := .none })) :=
    finish_clear h _ (fun _ => rfl) (fun _ => rfl)
  have h2 := h1.invalidate i (clear_no_users (fun x => { x with pend := .none }) (fun _ => rfl) hno)
  have h3 : LA ({ (Y.setActor a (fun x => { x with pend := .none })).setLg i (fun l => { l with valid := false })
      with hasInvalidLoggers := true } : BSt) := LA_of_lview h2 rfl
  refine LA.setActor h3 a _ (by intro _; rfl) ?_ ?_
  · intro x _ _ _ st hst; cases hst
  · intro x _ _ _ st hst; cases hst

/-- a call that parks with a record admissible in `Y`, remembering the logger's name -/
theorem finish_park {s Y : BSt} {a : Nat} (h : Prefix s Y a) (f : Actor → Actor) (hid : ∀ x, (f x).id = x.id)
    (st : Stmt) (g : Nat) (hpe : ∀ x, pendStmt (f x).pend = some st) (hic : ∀ x, (f x).inCall = some g)
    (hg : (Y.lgOf st.lg).gid = g) (hnew : NewOK Y a st) : LA (Y.setActor a f) := by
  apply h.la.setActor a f hid
  · intro x _ _ _ st' hst'
    rw [hpe] at hst'; simp only [Option.some.injEq] at hst'; subst hst'
    exact Or.inr hnew
  · intro x _ _ _ st' hst'
    rw [hpe] at hst'; simp only [Option.some.injEq] at hst'; subst hst'
    rw [hic, hg]

/-- a resumed call that parks again with (a copy of) the record it held -/
theorem finish_repark {s Y : BSt} {a : Nat} (h : Prefix s Y a) (f : Actor → Actor) (hid : ∀ x, (f x).id = x.id)
    (st st0 : Stmt) (hpe : ∀ x, pendStmt (f x).pend = some st) (hic : ∀ x, (f x).inCall = x.inCall)
    (hold : ∀ x ∈ Y.actors, x.id = a → x.alive = true → pendStmt x.pend = some st0)
    (hlg : st0.lg = st.lg) (hk : isRemoval st → isRemoval st0) : LA (Y.setActor a f) := by
  apply h.la.setActor a f hid
  · intro x hx h1 h2 st' hst'
    rw [hpe] at hst'; simp only [Option.some.injEq] at hst'; subst hst'
    exact Or.inl ⟨st0, hold x hx h1 h2, hlg, hk⟩
  · intro x hx h1 h2 st' hst'
    rw [hpe] at hst'; simp only [Option.some.injEq] at hst'; subst hst'
    rw [hic, ← hlg]
    exact h.la.2 x hx h2 st0 (hold x hx h1 h2)


/-- an actor update that keeps identity, liveness and the remembered logger name -/
def KeepsIdent (F : Actor → Actor) : Prop := ∀ x, (F x).id = x.id ∧ (F x).alive = x.alive ∧ (F x).inCall = x.inCall

/-- the ways `enqFlow` can end, relative to a prefix state `Y` in which actor `a` still holds its old pending call -/
inductive EndShape (s : BSt) (a : Nat) (st : Stmt) (cont : Nat) : BSt → Prop
  | clear (Y : BSt) (F : Actor → Actor) : Prefix s Y a → KeepsIdent F → (∀ x, pendStmt (F x).pend = none) →
      EndShape s a st cont (Y.setActor a F)
  | clearLg (Y : BSt) (F : Actor → Actor) (i fl : Nat) : Prefix s Y a → KeepsIdent F →
      (∀ x, pendStmt (F x).pend = none) →
      EndShape s a st cont ((Y.setActor a F).setLg i (fun l => { l with btFlush := fl }))
  | inval (Y : BSt) (fl : Nat) : Prefix s Y a → isRemoval st → cont = 4 →
      EndShape s a st cont
        (({ (Y.setActor a (fun x => { x with pend := .none })).setLg st.lg (fun l => { l with valid := false })
            with hasInvalidLoggers := true } : BSt).setActor a (fun x => { x with pend := .flag fl }))
  | park (Y : BSt) (F : Actor → Actor) : Prefix s Y a → KeepsIdent F → (∀ x, (F x).pend = .retry st cont) →
      EndShape s a st cont (Y.setActor a F)

theorem enqFlow_shape {s : BSt} (hs : LA s) (a : Nat) (st : Stmt) (cont : Nat) (first initial : Bool)
    (hst : (s.lgOf st.lg).erased = false) : EndShape s a st cont (enqFlow s a st cont first initial).1 := by
  have h0 := ensureCtx_prefix hs a
  have h1 := tryEnq_prefix h0 (ensureCtx s a).2 st (by rw [h0.lgOf]; exact hst)
  unfold enqFlow
  simp only []
  split
  · -- granted
    unfold afterEnq
    split
    · rename_i f _
      have e := setActor_setActor (tryEnq (ensureCtx s a).1 (ensureCtx s a).2 st).1 a
        (fun x => { x with pend := .none }) (fun x => { x with pend := .flag f }) (fun _ => ⟨rfl, rfl⟩)
      show EndShape s a st 1 ((BSt.setActor _ a _).setActor a _)
      rw [e]
      exact EndShape.clear _ _ h1 (fun _ => ⟨rfl, rfl, rfl⟩) (fun _ => rfl)
    · rename_i cap fl _
      exact EndShape.clearLg _ _ _ fl h1 (fun _ => ⟨rfl, rfl, rfl⟩) (fun _ => rfl)
    · exact EndShape.clear _ _ h1 (fun _ => ⟨rfl, rfl, rfl⟩) (fun _ => rfl)
    · rename_i f hk
      exact EndShape.inval _ f h1 ⟨f, hk⟩ rfl
    · exact EndShape.clear _ _ h1 (fun _ => ⟨rfl, rfl, rfl⟩) (fun _ => rfl)
  · -- refused
    have hb : ∀ (f : Th → Th), (∀ t, (f t).qStmts = t.qStmts ∧ (f t).buf = t.buf) →
        Prefix s ((tryEnq (ensureCtx s a).1 (ensureCtx s a).2 st).1.setTh (ensureCtx s a).2 f) a := by
      intro f hf
      exact h1.setTh _ _ (fun _ x hx => Or.inl (by rw [(hf _).1, (hf _).2] at hx; exact hx))
    repeat' split
    all_goals first
      | exact EndShape.clear _ _ h1 (fun _ => ⟨rfl, rfl, rfl⟩) (fun _ => rfl)
      | exact EndShape.park _ _ h1 (fun _ => ⟨rfl, rfl, rfl⟩) (fun _ => rfl)
      | exact EndShape.clear _ _ (hb _ (fun _ => ⟨rfl, rfl⟩)) (fun _ => ⟨rfl, rfl, rfl⟩) (fun _ => rfl)
      | exact EndShape.park _ _ (hb _ (fun _ => ⟨rfl, rfl⟩)) (fun _ => ⟨rfl, rfl, rfl⟩) (fun _ => rfl)


def parkedB (R : BSt) (a : Nat) : Bool := ((R.actor a).map isParked).getD false

theorem parkedB_setActor (Y : BSt) (a : Nat) (F : Actor → Actor) (hF : ∀ x, (F x).id = x.id ∧ (F x).alive = x.alive)
    (hp : ∀ x, isParked (F x) = true) (hex : (Y.actor a).isSome = true) : parkedB (Y.setActor a F) a = true := by
  unfold parkedB
  rw [actor_setActor Y a F hF]
  cases hx : Y.actor a with
  | none => rw [hx] at hex; cases hex
  | some x => simp [hp]

theorem isParked_retry (x : Actor) (st : Stmt) (c : Nat) (h : x.pend = .retry st c) : isParked x = true := by
  unfold isParked; rw [h]

theorem setLg_setActor (X : BSt) (i : Nat) (f : Lg → Lg) (a : Nat) (w : Actor → Actor) :
    (X.setLg i f).setActor a w = (X.setActor a w).setLg i f := rfl

theorem wrap_clear {s Y : BSt} {a : Nat} (hP : Prefix s Y a) (F w : Actor → Actor) (hK : KeepsIdent F)
    (hpn : ∀ x, pendStmt (F x).pend = none) (hw : ∀ x, (w x).id = x.id ∧ (w x).pend = x.pend) :
    LA ((Y.setActor a F).setActor a w) := by
  rw [setActor_setActor _ _ _ _ (fun x => ⟨(hK x).1, (hK x).2.1⟩)]
  exact finish_clear hP _ (fun x => by show (w (F x)).id = _; rw [(hw _).1, (hK x).1])
    (fun x => by show pendStmt (w (F x)).pend = _; rw [(hw _).2]; exact hpn x)

theorem wrap_clearLg {s Y : BSt} {a : Nat} (hP : Prefix s Y a) (F w : Actor → Actor) (i fl : Nat) (hK : KeepsIdent F)
    (hpn : ∀ x, pendStmt (F x).pend = none) (hw : ∀ x, (w x).id = x.id ∧ (w x).pend = x.pend) :
    LA (((Y.setActor a F).setLg i (fun l => { l with btFlush := fl })).setActor a w) := by
  rw [setLg_setActor]
  exact (wrap_clear hP F w hK hpn hw).setLg_keep _ _ (fun _ => ⟨rfl, rfl, rfl, rfl⟩)

theorem wrap_inval {s Y : BSt} {a : Nat} (hP : Prefix s Y a) (i fl : Nat) (w : Actor → Actor)
    (hw : ∀ x, (w x).id = x.id ∧ (w x).pend = x.pend)
    (hno : ∀ y ∈ Y.actors, y.alive = true → y.id ≠ a → ∀ st', pendStmt y.pend = some st' → st'.lg ≠ i) :
    LA ((({ (Y.setActor a (fun x => { x with pend := .none })).setLg i (fun l => { l with valid := false })
          with hasInvalidLoggers := true } : BSt).setActor a (fun x => { x with pend := .flag fl })).setActor a w) := by
  have hfin := finish_invalidate hP i fl hno
  refine LA.setActor hfin a w (fun x => (hw x).1) ?_ ?_
  · intro x _ _ _ st' hst'; rw [(hw x).2] at hst'; exact Or.inl ⟨st', hst', rfl, id⟩
  · intro x hx h1 h2 st' hst'
    rw [(hw x).2] at hst'
    obtain ⟨x0, _, hc' | hc'⟩ := mem_setActor hx
    · obtain ⟨_, _, rfl⟩ := hc'; cases hst'
    · obtain ⟨hn, rfl⟩ := hc'; exact absurd ⟨h1, h2⟩ hn

/-- **a fresh call** (actor `a` idle before) ends in a state satisfying the invariant, once `noteCall` has recorded
    the logger's name -/
theorem LA_end_new {s R : BSt} {a : Nat} {st : Stmt} {cont : Nat} (hE : EndShape s a st cont R)
    (hex : (s.actor a).isSome = true) (g : Nat) (hg : (s.lgOf st.lg).gid = g) (hnew : NewOK s a st)
    (hno : isRemoval st → ∀ y ∈ s.actors, y.alive = true → y.id ≠ a → ∀ st', pendStmt y.pend = some st' →
      st'.lg ≠ st.lg) (obs : String) : LA (noteCall (R, obs) a g).1 := by
  unfold noteCall
  simp only []
  cases hE with
  | clear Y F hP hK hpn => exact wrap_clear hP F _ hK hpn (by intro _; exact ⟨rfl, rfl⟩)
  | clearLg Y F i fl hP hK hpn => exact wrap_clearLg hP F _ i fl hK hpn (by intro _; exact ⟨rfl, rfl⟩)
  | inval Y fl hP hr hc =>
    have hnoY : ∀ y ∈ Y.actors, y.alive = true → y.id ≠ a → ∀ st', pendStmt y.pend = some st' → st'.lg ≠ st.lg :=
      fun y hy hal hne => hno hr y (hP.others y hy hne) hal hne
    exact wrap_inval hP st.lg fl _ (by intro _; exact ⟨rfl, rfl⟩) hnoY
  | park Y F hP hK hpr =>
    have hpk : parkedB (Y.setActor a F) a = true :=
      parkedB_setActor Y a F (fun x => ⟨(hK x).1, (hK x).2.1⟩) (fun x => isParked_retry _ st cont (hpr x)) (hP.ex hex)
    have hpk' : ((BSt.actor (Y.setActor a F) a).map isParked).getD false = true := hpk
    simp only [hpk', if_true]
    rw [setActor_setActor _ _ _ _ (fun x => ⟨(hK x).1, (hK x).2.1⟩)]
    refine finish_park hP _ (fun x => (hK x).1) st g (fun x => ?_) (fun _ => rfl) (by rw [hP.lgOf]; exact hg)
      (NewOK_transport hnew hP.lgs (fun p hp => by rw [hP.names] at hp; exact hp) hP.others)
    show pendStmt (F x).pend = some st
    rw [hpr]; rfl


/-- **a resumed call** (actor `a` held the record `st0`, retried as `st` through the same logger) ends in a state
    satisfying the invariant, whether it parks again or not -/
theorem LA_end_resume {s R : BSt} {a : Nat} {st : Stmt} {cont : Nat} (hE : EndShape s a st cont R) (hla : LA s)
    (hex : (s.actor a).isSome = true) (st0 : Stmt)
    (hold : ∀ x ∈ s.actors, x.id = a → x.alive = true → pendStmt x.pend = some st0)
    (hlg : st0.lg = st.lg) (hk : isRemoval st → isRemoval st0) :
    LA R ∧ LA (if parkedB R a = true then R else R.setActor a (fun x => { x with inCall := none })) := by
  have hw : ∀ x : Actor, ({ x with inCall := none } : Actor).id = x.id ∧ ({ x with inCall := none } : Actor).pend = x.pend :=
    fun _ => ⟨rfl, rfl⟩
  cases hE with
  | clear Y F hP hK hpn =>
    refine ⟨finish_clear hP F (fun x => (hK x).1) hpn, ?_⟩
    split
    · exact finish_clear hP F (fun x => (hK x).1) hpn
    · exact wrap_clear hP F _ hK hpn hw
  | clearLg Y F i fl hP hK hpn =>
    refine ⟨(finish_clear hP F (fun x => (hK x).1) hpn).setLg_keep _ _ (fun _ => ⟨rfl, rfl, rfl, rfl⟩), ?_⟩
    split
    · exact (finish_clear hP F (fun x => (hK x).1) hpn).setLg_keep _ _ (fun _ => ⟨rfl, rfl, rfl, rfl⟩)
    · exact wrap_clearLg hP F _ i fl hK hpn hw
  | inval Y fl hP hr hc =>
    obtain ⟨x, hx⟩ := Option.isSome_iff_exists.mp hex
    obtain ⟨hxm, hxid, hxal⟩ := actor_mem hx
    have hx0 := hold x hxm hxid hxal
    have hnoY : ∀ y ∈ Y.actors, y.alive = true → y.id ≠ a → ∀ st', pendStmt y.pend = some st' → st'.lg ≠ st.lg := by
      intro y hy hal hne st' hst' e
      have hys := hP.others y hy hne
      have := hla.1.excl x hxm hxal st0 hx0 (hk hr) y hys hal st' hst' (by rw [e, hlg])
      exact hne (this.trans hxid)
    refine ⟨finish_invalidate hP st.lg fl hnoY, ?_⟩
    split
    · exact finish_invalidate hP st.lg fl hnoY
    · exact wrap_inval hP st.lg fl _ hw hnoY
  | park Y F hP hK hpr =>
    have hpk : parkedB (Y.setActor a F) a = true :=
      parkedB_setActor Y a F (fun x => ⟨(hK x).1, (hK x).2.1⟩) (fun x => isParked_retry _ st cont (hpr x)) (hP.ex hex)
    simp only [hpk, if_true, and_self]
    refine finish_repark hP F (fun x => (hK x).1) st st0 (fun x => by rw [hpr]; rfl) (fun x => (hK x).2.2) ?_ hlg hk
    intro x hx h1 h2
    obtain ⟨x0, hx0, e1, e2, e3, _⟩ := hP.own x hx h1 h2
    rw [e3]; exact hold x0 hx0 e1 e2


/-! ### the frontend operations -/

theorem actors_pairwise {s : BSt} (hc : CInv s) :
    s.actors.Pairwise (fun x y => x.alive = true → y.alive = true → x.id ≠ y.id) := by
  have := hc.ids
  simp only [core, List.pairwise_map] at this
  exact this

theorem find_actor_unique : ∀ (l : List Actor),
    l.Pairwise (fun x y => x.alive = true → y.alive = true → x.id ≠ y.id) → ∀ x ∈ l, x.alive = true →
    l.find? (fun y => y.id = x.id ∧ y.alive) = some x
  | [], _, _, hx, _ => by cases hx
  | y :: ys, hids, x, hx, hal => by
    rw [List.pairwise_cons] at hids
    rw [List.find?_cons]
    rcases List.mem_cons.mp hx with rfl | hx'
    · simp [hal]
    · have hne : ¬ (y.id = x.id ∧ y.alive = true) := fun hy => hids.1 x hx' hy.2 hal hy.1
      simp only [hne, decide_false]
      exact find_actor_unique ys hids.2 x hx' hal

/-- with unique live ids, every live entry with id `a` is the one `actor a` finds -/
theorem actor_unique {s : BSt} (hc : CInv s) {a : Nat} {x : Actor} (hx : x ∈ s.actors) (hid : x.id = a)
    (hal : x.alive = true) : s.actor a = some x := by
  have := find_actor_unique s.actors (actors_pairwise hc) x hx hal
  rw [hid] at this
  exact this

theorem idle_all {s : BSt} (hc : CInv s) {a : Nat} (hi : idleActor s a = true) :
    ∀ x ∈ s.actors, x.id = a → x.alive = true → pendStmt x.pend = none := by
  intro x hx hid hal
  have := actor_unique hc hx hid hal
  unfold idleActor at hi
  rw [this] at hi
  simp only [Bool.not_eq_true'] at hi
  unfold isParked at hi
  cases hp : x.pend <;> rw [hp] at hi <;> simp_all [pendStmt]

def stallF (st : Stmt) (cont : Nat) (x : Actor) : Actor := { x with stallArmed := false, pend := .stall st cont }

theorem LA_call {s1 : BSt} (h1 : LA s1) (a g lgi : Nat)
    (hidle : ∀ x ∈ s1.actors, x.id = a → x.alive = true → pendStmt x.pend = none)
    (hex : (s1.actor a).isSome = true)
    (hv : (s1.lgOf lgi).valid = true ∧ (s1.lgOf lgi).erased = false ∧ lgi < s1.lgs.length ∧ (s1.lgOf lgi).gid = g)
    (kind : Kind)
    (hkind : (∃ f, kind = .removal f) → (∀ p ∈ s1.names, p.1 ≠ g) ∧
      ∀ y ∈ s1.actors, y.alive = true → ∀ st', pendStmt y.pend = some st' → (s1.lgOf st'.lg).gid ≠ g)
    (hname : (¬ ∃ f, kind = .removal f) → (g, lgi) ∈ s1.names)
    (lvl len cont : Nat) (dyn : Bool) (id : Nat) (named : Bool) :
    LA (noteCall (frontCall s1 a lgi kind lvl len cont dyn id named) a g).1 := by
  have hstlg : (mkStmt s1 a lgi kind lvl len dyn id named).lg = lgi := rfl
  have hstk : (mkStmt s1 a lgi kind lvl len dyn id named).kind = kind := rfl
  have hnew : NewOK s1 a (mkStmt s1 a lgi kind lvl len dyn id named) := by
    refine ⟨by rw [hstlg]; exact hv.1, by rw [hstlg]; exact hv.2.1, by rw [hstlg]; exact hv.2.2.1, ?_, ?_⟩
    · intro hr p hp
      rw [hstlg, hv.2.2.2]
      exact (hkind hr).1 p hp
    · intro y hy hal _ st' hst' hg
      rw [hstlg, hv.2.2.2] at hg
      by_cases hr : isRemoval (mkStmt s1 a lgi kind lvl len dyn id named)
      · exact absurd hg ((hkind hr).2 y hy hal st' hst')
      · refine ⟨hr, fun hr' => ?_⟩
        have := h1.1.noname y hy hal st' hst' hr' (g, lgi) (hname hr)
        exact this hg.symm
  have hno : isRemoval (mkStmt s1 a lgi kind lvl len dyn id named) → ∀ y ∈ s1.actors, y.alive = true → y.id ≠ a →
      ∀ st', pendStmt y.pend = some st' → st'.lg ≠ (mkStmt s1 a lgi kind lvl len dyn id named).lg := by
    intro hr y hy hal _ st' hst' e
    rw [hstlg] at e
    have := (hkind hr).2 y hy hal st' hst'
    rw [e] at this; exact this hv.2.2.2
  rw [frontCall_eq]
  split
  · -- parked after the clock read
    show LA (noteCall (s1.setActor a (stallF (mkStmt s1 a lgi kind lvl len dyn id named) cont), _) a g).1
    have hpk : parkedB (s1.setActor a (stallF (mkStmt s1 a lgi kind lvl len dyn id named) cont)) a = true :=
      parkedB_setActor s1 a _ (fun _ => ⟨rfl, rfl⟩) (fun _ => rfl) hex
    unfold noteCall
    simp only []
    have hpk' : ((BSt.actor (s1.setActor a (stallF (mkStmt s1 a lgi kind lvl len dyn id named) cont)) a).map
        isParked).getD false = true := hpk
    simp only [hpk', if_true]
    rw [setActor_setActor s1 a (stallF (mkStmt s1 a lgi kind lvl len dyn id named) cont) _ (fun _ => ⟨rfl, rfl⟩)]
    exact finish_park (Prefix.refl h1 a) _ (fun _ => rfl) (mkStmt s1 a lgi kind lvl len dyn id named) g
      (fun _ => rfl) (fun _ => rfl) (by rw [hstlg]; exact hv.2.2.2) hnew
  · have hE := enqFlow_shape h1 a (mkStmt s1 a lgi kind lvl len dyn id named) cont true true
      (by rw [hstlg]; exact hv.2.1)
    have := LA_end_new hE hex g (by rw [hstlg]; exact hv.2.2.2) hnew hno
      (enqFlow s1 a (mkStmt s1 a lgi kind lvl len dyn id named) cont true).2
    exact this


theorem reapSinks_lview (sids : List Nat) : ∀ (s : BSt), lview (reapSinks s sids) = lview s := by
  unfold reapSinks
  induction sids with
  | nil => intro s; rfl
  | cons x xs ih =>
    intro s
    simp only [List.foldl_cons]
    rw [ih]; split <;> rfl

theorem LA_appendActor {s : BSt} (h : LA s) (x0 : Actor) (hp : pendStmt x0.pend = none) :
    LA { s with actors := s.actors ++ [x0] } := by
  obtain ⟨⟨a1, a2, a3, a4, a5⟩, b⟩ := h
  have hm : ∀ x ∈ s.actors ++ [x0], ∀ st, pendStmt x.pend = some st → x ∈ s.actors := by
    intro x hx st hst
    rcases List.mem_append.mp hx with hx | hx
    · exact hx
    · simp only [List.mem_singleton] at hx; subst hx; rw [hp] at hst; cases hst
  refine ⟨⟨a1, ?_, a3, ?_, ?_⟩, ?_⟩
  · intro x hx hal st hst; exact a2 x (hm x hx st hst) hal st hst
  · intro x hx hal st hst; exact a4 x (hm x hx st hst) hal st hst
  · intro x hx hal st hst hr y hy hyal st' hst'
    exact a5 x (hm x hx st hst) hal st hst hr y (hm y hy st' hst') hyal st' hst'
  · intro x hx hal st hst; exact b x (hm x hx st hst) hal st hst

theorem loggerBusy_of_actors {s s' : BSt} (h : s'.actors = s.actors) (g : Nat) : loggerBusy s' g = loggerBusy s g := by
  unfold loggerBusy; rw [h]

theorem LA_withLogger {s : BSt} (hc : CInv s) (hs : LA s) (a g : Nat) (k : Nat → BSt × String)
    (hk : ∀ lgi, loggerOf s g = some lgi → idleActor s a = true → LA (noteCall (k lgi) a g).1) :
    LA (withLogger s a g k).1 := by
  unfold withLogger
  split
  · rename_i lgi hl hi; exact hk lgi hl hi
  · exact hs

/-- a call whose level check failed: nothing but the `inCall` reset -/
theorem LA_noteCall_idle {s1 : BSt} (h1 : LA s1) (a g : Nat) (obs : String)
    (hidle : ∀ x ∈ s1.actors, x.id = a → x.alive = true → pendStmt x.pend = none) :
    LA (noteCall (s1, obs) a g).1 := by
  unfold noteCall
  simp only []
  refine LA.setActor h1 a _ (by intro _; rfl) ?_ ?_
  · intro x hx h2 h3 st hst
    have : pendStmt x.pend = some st := hst
    rw [hidle x hx h2 h3] at this; cases this
  · intro x hx h2 h3 st hst
    have : pendStmt x.pend = some st := hst
    rw [hidle x hx h2 h3] at this; cases this

theorem loggerOf_facts {s : BSt} (hs : LA s) {g lgi : Nat} (hl : loggerOf s g = some lgi) :
    (s.lgOf lgi).valid = true ∧ (s.lgOf lgi).erased = false ∧ lgi < s.lgs.length ∧ (s.lgOf lgi).gid = g ∧
    (g, lgi) ∈ s.names := by
  obtain ⟨hm, hv, he⟩ := loggerOf_some hl
  obtain ⟨h1, h2⟩ := hs.1.names (g, lgi) hm
  exact ⟨hv, he, h1, h2, hm⟩

/-- an ordinary (non-removal) call through the logger named `g` -/
theorem LA_plain_call {s s1 : BSt} (hc : CInv s) (hs : LA s) (hv1 : lview s1 = lview s) (a g lgi : Nat)
    (hl : loggerOf s g = some lgi) (hi : idleActor s a = true) (kind : Kind) (hk : ¬ ∃ f, kind = .removal f)
    (lvl len cont : Nat) (dyn : Bool) (id : Nat) (named : Bool) :
    LA (noteCall (frontCall s1 a lgi kind lvl len cont dyn id named) a g).1 := by
  have h1 : LA s1 := LA_of_lview hs hv1
  simp only [lview, Prod.mk.injEq] at hv1
  obtain ⟨e1, e2, e3, e4⟩ := hv1
  have hlg : ∀ j, s1.lgOf j = s.lgOf j := fun j => by simp only [BSt.lgOf, e2]
  have hact : s1.actor a = s.actor a := by simp only [BSt.actor, e3]
  obtain ⟨f1, f2, f3, f4, f5⟩ := loggerOf_facts hs hl
  apply LA_call h1 a g lgi
  · intro x hx; rw [e3] at hx; exact idle_all hc hi x hx
  · rw [hact]; exact idle_isSome hi
  · rw [hlg, e2]; exact ⟨f1, f2, f3, f4⟩
  · intro hr; exact absurd hr hk
  · intro _; rw [e1]; exact f5

theorem LA_front (s : BSt) (f : FOp) (hc : CInv s) (hs : LA s) : LA (applyFront s f).1 := by
  cases f <;> simp only [applyFront]
  case tick => exact LA_of_lview hs rfl
  case tstart a =>
    split
    · exact hs
    · exact LA_appendActor hs { id := a } rfl
  case texit a =>
    split
    · exact hs
    · have h1 : LA (s.setActor a (fun x => { x with alive := false })) := by
        refine LA.setActor hs a _ (by intro _; rfl) ?_ ?_
        · intro x _ _ _ st hst; exact Or.inl ⟨st, hst, rfl, id⟩
        · intro x hx _ hal st hst; exact hs.2 x hx hal st hst
      split
      · rename_i i _
        exact LA_of_lview (h1.setTh_keep i (fun t => { t with valid := false }) (fun _ => rfl) (fun _ => rfl)) rfl
      · exact h1
  case resume a =>
    have hfin : ∀ (R : BSt) (obs : String), LA R →
        LA (if parkedB R a = true then R else R.setActor a (fun x => { x with inCall := none })) →
        LA (if (obs == "noop") = true then (R, obs)
            else if ((R.actor a).map isParked).getD false = true then (R, obs)
            else (R.setActor a (fun x => { x with inCall := none }), obs)).1 := by
      intro R obs h1 h2
      split
      · exact h1
      · have e : ((R.actor a).map isParked).getD false = parkedB R a := rfl
        rw [e]
        split
        · rename_i hp; simp only [hp, if_true] at h2; exact h2
        · rename_i hp; simp only [hp, if_false] at h2; exact h2
    have hold : ∀ (P : Pend) (st0 : Stmt), (s.actor a).map (·.pend) = some P → pendStmt P = some st0 →
        (s.actor a).isSome = true ∧ ∀ x ∈ s.actors, x.id = a → x.alive = true → pendStmt x.pend = some st0 := by
      intro P st0 hP hst0
      cases hx : s.actor a with
      | none => rw [hx] at hP; cases hP
      | some x0 =>
        refine ⟨rfl, fun x hxm hid hal => ?_⟩
        have := actor_unique hc hxm hid hal
        rw [hx] at this hP
        simp only [Option.some.injEq] at this
        simp only [Option.map_some, Option.some.injEq] at hP
        rw [← this, hP]; exact hst0
    have hpo : ∀ (P : Pend) (st0 : Stmt), (s.actor a).map (·.pend) = some P → pendStmt P = some st0 →
        (s.lgOf st0.lg).erased = false := by
      intro P st0 hP hst0
      cases hx : s.actor a with
      | none => rw [hx] at hP; cases hP
      | some x0 =>
        rw [hx] at hP
        simp only [Option.map_some, Option.some.injEq] at hP
        obtain ⟨hm, _, hal⟩ := actor_mem hx
        exact (hs.1.pendOK x0 hm hal st0 (by rw [hP]; exact hst0)).2.1
    unfold resume
    split
    · rename_i st cont hp
      obtain ⟨hex, ho⟩ := hold _ st hp rfl
      have hE := enqFlow_shape hs a st cont true false (hpo _ st hp rfl)
      obtain ⟨r1, r2⟩ := LA_end_resume hE hs hex st ho rfl id
      exact hfin _ _ r1 r2
    · rename_i st cont hp
      obtain ⟨hex, ho⟩ := hold _ st hp rfl
      split
      · have hE := enqFlow_shape hs a { st with ts := s.now } cont true false (hpo _ st hp rfl)
        obtain ⟨r1, r2⟩ := LA_end_resume hE hs hex st ho rfl id
        exact hfin _ _ r1 r2
      · have hE := enqFlow_shape hs a st cont false false (hpo _ st hp rfl)
        obtain ⟨r1, r2⟩ := LA_end_resume hE hs hex st ho rfl id
        exact hfin _ _ r1 r2
    · rename_i fl hp
      have hnone : ∀ x ∈ s.actors, x.id = a → x.alive = true → pendStmt x.pend = none := by
        intro x hxm hid hal
        have := actor_unique hc hxm hid hal
        rw [this] at hp
        simp only [Option.map_some, Option.some.injEq] at hp
        rw [hp]; rfl
      have hwrap : ∀ (w : Actor → Actor), (∀ x, (w x).id = x.id ∧ (w x).pend = x.pend) → LA (s.setActor a w) := by
        intro w hw
        refine LA.setActor hs a w (fun x => (hw x).1) ?_ ?_
        · intro x hx h1 h2 st hst; rw [(hw x).2, hnone x hx h1 h2] at hst; cases hst
        · intro x hx h1 h2 st hst; rw [(hw x).2, hnone x hx h1 h2] at hst; cases hst
      split
      · apply hfin
        · exact finish_clear (Prefix.refl hs a) _ (fun _ => rfl) (fun _ => rfl)
        · split
          · exact finish_clear (Prefix.refl hs a) _ (fun _ => rfl) (fun _ => rfl)
          · exact wrap_clear (Prefix.refl hs a) _ _ (fun _ => ⟨rfl, rfl, rfl⟩) (fun _ => rfl) (fun _ => ⟨rfl, rfl⟩)
      · apply hfin _ _ hs
        split
        · exact hs
        · exact hwrap _ (fun _ => ⟨rfl, rfl⟩)
    · exact hs
  case armStall a =>
    split
    · refine LA.setActor hs a _ (by intro _; rfl) ?_ ?_
      · intro x _ _ _ st hst; exact Or.inl ⟨st, hst, rfl, id⟩
      · intro x hx _ hal st hst; exact hs.2 x hx hal st hst
    · exact hs
  case log a g lvl len dyn =>
    apply LA_withLogger hc hs; intro lgi hl hi; split
    · exact LA_plain_call (s1 := { s with nextId := s.nextId + 1 }) hc hs rfl a g lgi hl hi .log
        (by rintro ⟨f, hf⟩; cases hf) ..
    · exact LA_noteCall_idle (s1 := { s with nextId := s.nextId + 1 }) (LA_of_lview hs rfl) a g _ (idle_all hc hi)
  case logNamed a g len =>
    apply LA_withLogger hc hs; intro lgi hl hi; split
    · exact LA_plain_call (s1 := { s with nextId := s.nextId + 1 }) hc hs rfl a g lgi hl hi .log
        (by rintro ⟨f, hf⟩; cases hf) ..
    · exact LA_noteCall_idle (s1 := { s with nextId := s.nextId + 1 }) (LA_of_lview hs rfl) a g _ (idle_all hc hi)
  case logBt a g len =>
    apply LA_withLogger hc hs; intro lgi hl hi; split
    · exact LA_plain_call (s1 := { s with nextId := s.nextId + 1 }) hc hs rfl a g lgi hl hi .log
        (by rintro ⟨f, hf⟩; cases hf) ..
    · exact LA_noteCall_idle (s1 := { s with nextId := s.nextId + 1 }) (LA_of_lview hs rfl) a g _ (idle_all hc hi)
  case initBt a g cap fl =>
    apply LA_withLogger hc hs; intro lgi hl hi
    exact LA_plain_call (s1 := s) hc hs rfl a g lgi hl hi (.initBt cap fl) (by rintro ⟨f, hf⟩; cases hf) ..
  case flushBt a g =>
    apply LA_withLogger hc hs; intro lgi hl hi
    exact LA_plain_call (s1 := s) hc hs rfl a g lgi hl hi .flushBt (by rintro ⟨f, hf⟩; cases hf) ..
  case flush a g =>
    apply LA_withLogger hc hs; intro lgi hl hi
    exact LA_plain_call (s1 := { s with nextFlag := s.nextFlag + 1 }) hc hs rfl a g lgi hl hi (.flush s.nextFlag)
      (by rintro ⟨f, hf⟩; cases hf) ..
  case removeBlocking a g =>
    split
    · exact hs
    · rename_i hb
      have hb' : loggerBusy s g = false := by simpa using hb
      apply LA_withLogger hc hs; intro lgi hl hi
      obtain ⟨f1, f2, f3, f4, _⟩ := loggerOf_facts hs hl
      have h1 : LA (dropName { s with nextFlag := s.nextFlag + 1 } g) :=
        (LA_of_lview (s' := { s with nextFlag := s.nextFlag + 1 }) hs rfl).drop_name g
      apply LA_call h1 a g lgi
      · exact idle_all hc hi
      · exact idle_isSome hi
      · exact ⟨f1, f2, f3, f4⟩
      · intro _
        refine ⟨dropName_no_key _ g, ?_⟩
        exact no_users_of_not_busy hs hb'
      · intro hk; exact absurd ⟨s.nextFlag, rfl⟩ hk
  case remove a g =>
    split
    · exact hs
    · rename_i hb
      have hb' : loggerBusy s g = false := by simpa using hb
      split
      · rename_i lgi hl hi
        obtain ⟨f1, f2, f3, f4, _⟩ := loggerOf_facts hs hl
        have h1 := (hs.drop_name g).invalidate lgi (by
          intro x hx hal st hst e
          have := no_users_of_not_busy hs hb' x hx hal st hst
          rw [e] at this; exact this f4)
        exact LA_of_lview h1 rfl
      · exact hs
  case create a g sl =>
    split
    · exact hs
    · rename_i hcond
      have hb' : loggerBusy s g = false := by
        cases hbb : loggerBusy s g
        · rfl
        · exact absurd (Or.inr (Or.inl hbb)) hcond
      have hbd : loggerBusy (dropName s g) g = false := by
        rw [loggerBusy_of_actors (s := s) (s' := dropName s g) rfl]; exact hb'
      split
      · rename_i i hfind
        split
        · exact hs
        · have hmem := List.mem_of_find?_eq_some hfind
          have hprop := List.find?_some hfind
          simp only [Bool.and_eq_true, decide_eq_true_eq] at hprop
          exact (hs.drop_name g).addName g i (List.mem_range.mp hmem) hprop.1 hbd
      · exact (hs.drop_name g).newLogger g sl hbd
  case setLevel g lvl =>
    split
    · exact hs.setLg_keep _ _ (fun _ => ⟨rfl, rfl, rfl, rfl⟩)
    · exact hs
  case setSinkLevel =>
    split
    · exact LA_of_lview hs rfl
    · exact hs
  case dropSink sid =>
    refine LA_of_lview hs ?_
    rw [reapSinks_lview]; rfl
  case query => exact hs

end Backend.PC
