import QuillModel.Backend.ConsProofsExact
import QuillModel.Backend.ConsProofsPop
/-!
# Exactly once as one statement about the whole trace (helper lemmas for C03)

`PW s` ("pop witnesses"): the invariants `Inv`, and for every ordinary statement id that occurs in the pop history there is a
**witness of its processing call**: a state `w` satisfying the invariants in which a statement `st` with this id was at the
front of the transit buffer of a context `j` — the state in which `_process_transit_event` was entered with it —, such that
`st` is in the pop history, the event history of `popStep w j st rest` (the processing call up to and including the pop) is a
*suffix* of the current event history (the call is a past moment of this very trace), and the number of ordinary writes of the
id at every sink in the **current** history is the number right after that call. `PW` is closed under every step of the
machine (`PW.closed`), so it holds after every schedule from a fresh state.
-/
namespace Backend.PA
open Backend Spsc

structure PWit (s : BSt) (id : Nat) (w : BSt) (j : Nat) (st : Stmt) (rest : List Stmt) : Prop where
  inv : Inv w
  front : (w.th j).buf = st :: rest
  isit : pq id st = true
  popped : st ∈ s.popLog
  past : ∃ evs, s.log = evs ++ (popStep w j st rest).log
  cnt : ∀ sid, wcount s.log sid id = wcount (popStep w j st rest).log sid id

structure PW (s : BSt) : Prop where
  inv : Inv s
  wit : ∀ id, 1 ≤ s.popLog.countP (pq id) → ∃ w j st rest, PWit s id w j st rest

theorem PW.quiet {s s' : BSt} (h : PW s) (hi : Inv s') (q : Quiet s s') : PW s' := by
  refine ⟨hi, fun id hid => ?_⟩
  rw [q.popLog] at hid
  obtain ⟨w, j, st, rest, hw⟩ := h.wit id hid
  obtain ⟨evs, he, hn⟩ := q.log
  obtain ⟨e0, hp⟩ := hw.past
  refine ⟨w, j, st, rest, hw.inv, hw.front, hw.isit, by rw [q.popLog]; exact hw.popped,
    ⟨evs ++ e0, by rw [he, hp, List.append_assoc]⟩, fun sid => ?_⟩
  exact ((Frozen.quiet (sid := sid) (id := id) ⟨h.inv, hid, hw.cnt sid⟩ hi q)).cnt

theorem popStep_log_ext2 (s : BSt) (i : Nat) (st : Stmt) (rest : List Stmt) : ∃ evs, (popStep s i st rest).log = evs ++ s.log := by
  obtain ⟨e1, he1⟩ := (processEvent_core s st).log
  unfold popStep
  dsimp only
  split
  · exact ⟨_ :: e1, by show _ :: (processEvent s st).1.log = _; rw [he1]; rfl⟩
  · exact ⟨e1, he1⟩

theorem PW.closed : Closed PW where
  frame := fun s s' h f => h.quiet (Inv.closed.frame s s' h.inv f) ⟨f.popLog, f.log⟩
  refresh := fun s h => h.quiet (Inv.closed.refresh s h.inv) (by unfold refreshCache; split <;> exact Quiet.of_eq rfl rfl)
  ctxEmpty := fun s i h => h.quiet (Inv.closed.ctxEmpty s i h.inv) (Quiet.of_eq rfl rfl)
  dropCtx := fun s i h hv he hz => h.quiet (Inv.closed.dropCtx s i h.inv hv he hz) (Quiet.of_eq rfl rfl)
  prepRead := fun s i h => h.quiet (Inv.closed.prepRead s i h.inv) (Quiet.of_eq rfl rfl)
  commitRead := fun s i h => h.quiet (Inv.closed.commitRead s i h.inv) (Quiet.of_eq rfl rfl)
  readOne := fun s i st rest h hq hr => h.quiet (Inv.closed.readOne s i st rest h.inv hq hr) (by
    unfold PA.readOne; dsimp only; split <;> exact Quiet.of_eq rfl rfl)
  pop := fun s i st0 rest0 h hb => by
    have hI := Inv.closed.pop s i st0 rest0 h.inv hb
    have hpops := popStep_pops s i st0 rest0 hb
    refine ⟨hI, fun id hid => ?_⟩
    by_cases hold : 1 ≤ s.popLog.countP (pq id)
    · obtain ⟨w, j, st, rest, hw⟩ := h.wit id hold
      obtain ⟨e0, hp⟩ := hw.past
      obtain ⟨e1, he1⟩ := popStep_log_ext2 s i st0 rest0
      refine ⟨w, j, st, rest, hw.inv, hw.front, hw.isit, by rw [hpops.2.2.1]; exact List.mem_cons_of_mem _ hw.popped,
        ⟨e1 ++ e0, by rw [he1, hp, List.append_assoc]⟩, fun sid => ?_⟩
      exact ((Frozen.closed sid id _).pop s i st0 rest0 ⟨h.inv, hold, hw.cnt sid⟩ hb).cnt
    · have h0 : s.popLog.countP (pq id) = 0 := by omega
      rw [hpops.2.2.1, List.countP_cons, h0] at hid
      have hp : pq id st0 = true := by
        cases hc : pq id st0 with
        | true => rfl
        | false => rw [hc] at hid; simp at hid
      exact ⟨s, i, st0, rest0, h.inv, hb, hp, by rw [hpops.2.2.1]; exact List.mem_cons_self .., ⟨[], rfl⟩, fun _ => rfl⟩
  failReset := fun s i h hf => h.quiet (Inv.closed.failReset s i h.inv hf) (by
    unfold PA.failReset
    exact ⟨rfl, ⟨[_], rfl, by simp [isWriteEv]⟩⟩)
  front := fun s f h => h.quiet (Inv.closed.front s f h.inv) ⟨(applyFront_ffr s f).popLog, (applyFront_ffr s f).log⟩

theorem PW.run {s : BSt} (h : PW s) (ops : List Op) : PW (runOps s ops) := runOps_closed PW.closed ops s h

theorem PW.start {s : BSt} (h : Inv s) (hp : s.popLog = []) : PW s :=
  ⟨h, fun id hid => by rw [hp] at hid; simp at hid⟩

/-- ordinary statement ids are unique in the pop history -/
theorem popLog_uniq {s : BSt} (h : Inv s) (id : Nat) : s.popLog.countP (pq id) ≤ 1 := by
  have h1 := h.p (pq id)
  have h2 := cntP_le_cA h.a (pq id)
  have h3 := cA_mono s (pq id) (logq id) (pq_logq id)
  have h4 : cA s (logq id) ≤ 1 := by
    rw [← cntA_eq_cA]; have := h.b.uniq id; unfold tot at this; omega
  omega

theorem eq_of_countP_le_one {α} (p : α → Bool) : ∀ (l : List α), l.countP p ≤ 1 → ∀ a b, a ∈ l → b ∈ l → p a = true → p b = true → a = b
  | [], _, _, _, ha, _, _, _ => by cases ha
  | x :: xs, h, a, b, ha, hb, pa, pb => by
    rw [List.countP_cons] at h
    rcases List.mem_cons.mp ha with rfl | ha' <;> rcases List.mem_cons.mp hb with rfl | hb'
    · rfl
    · have : 0 < xs.countP p := List.countP_pos_iff.mpr ⟨b, hb', pb⟩
      rw [if_pos pa] at h; omega
    · have : 0 < xs.countP p := List.countP_pos_iff.mpr ⟨a, ha', pa⟩
      rw [if_pos pb] at h; omega
    · exact eq_of_countP_le_one p xs (by omega) a b ha' hb' pa pb

end Backend.PA
