import QuillModel.Backend.LiftOnce
/-!
`dispatchCount` for a sink list without duplicates: every sink is visited once, so every acceptance and fault decision
is the one read off the state the dispatch starts in; the count at a sink is 0 or 1, and 1 exactly when the sink is
listed, accepts, and no accepting sink up to and including it throws.
-/
namespace Backend.PA
open Backend Spsc

/-- the next `write_log` call of sink `k` is scheduled to throw -/
def sinkThrows (s : BSt) (k : Nat) : Bool := throwsAt (s.sinkOf k).wthrow ((s.sinkOf k).wcalls + 1)

/-- the count with every decision read off the one state `s` -/
def decide0 (s : BSt) (st : Stmt) (sid : Nat) : List Nat → Nat
  | [] => 0
  | k :: rest =>
    if acc s st k then (if sinkThrows s k then 0 else (if k = sid then 1 else 0) + decide0 s st sid rest)
    else decide0 s st sid rest

theorem sinkOf_bump_ne (s : BSt) (k j : Nat) (x : Sink) (e : Ev) (h : j ≠ k) (hx : x.sid = (s.sinkOf k).sid) :
    ((s.setSink k (fun _ => x)).emit e).sinkOf j = s.sinkOf j := by
  rw [emit_sinkOf]
  by_cases hp : (s.sinks.find? (·.sid = k)).isSome = true
  · rw [sinkOf_setSink s k j (fun _ => x) (fun _ _ => hx.trans (sinkOf_sid s k hp)), if_neg (fun hc => h hc.1)]
  · rw [setSink_absent s k _ (by simpa using hp)]

theorem dispatchCountAux_nodup (s : BSt) (st : Stmt) (sid : Nat) : ∀ (l : List Nat), l.Nodup → ∀ (s' : BSt),
    (∀ k ∈ l, s'.sinkOf k = s.sinkOf k) → dispatchCountAux st sid s' l = decide0 s st sid l
  | [], _, _, _ => rfl
  | k :: rest, hn, s', hs => by
    unfold dispatchCountAux decide0
    have hk := hs k (List.mem_cons_self ..)
    have hn' := List.nodup_cons.mp hn
    simp only [acc, sinkThrows, hk]
    by_cases ha : sinkAccepts (s.sinkOf k) st = true
    · simp only [ha, ↓reduceIte]
      by_cases ht : throwsAt (s.sinkOf k).wthrow ((s.sinkOf k).wcalls + 1) = true
      · simp only [ht, ↓reduceIte]
      · simp only [ht]
        have e := dispatchCountAux_nodup s st sid rest hn'.2
          ((s'.setSink k (fun _ => { s.sinkOf k with wcalls := (s.sinkOf k).wcalls + 1 })).emit
            (Ev.write k st.id st.lvl st.ts st.named)) (fun j hj => by
              rw [sinkOf_bump_ne s' k j _ _ (fun hc => hn'.1 (hc ▸ hj)) (by rw [hk])]
              exact hs j (List.mem_cons_of_mem _ hj))
        simp only [Bool.false_eq_true, ↓reduceIte]
        rw [e]
    · simp only [ha]
      exact dispatchCountAux_nodup s st sid rest hn'.2 s' (fun j hj => hs j (List.mem_cons_of_mem _ hj))

theorem dispatchCount_eq_decide0 (s : BSt) (st : Stmt) (sid : Nat) (hn : (s.lgOf st.lg).sinks.Nodup) :
    dispatchCount s st sid = decide0 s st sid (s.lgOf st.lg).sinks :=
  dispatchCountAux_nodup s st sid _ hn s (fun _ _ => rfl)

theorem decide0_absent (s : BSt) (st : Stmt) (sid : Nat) : ∀ (l : List Nat), sid ∉ l → decide0 s st sid l = 0
  | [], _ => rfl
  | k :: rest, h => by
    have h1 : k ≠ sid := fun hc => h (hc ▸ List.mem_cons_self ..)
    have h2 := decide0_absent s st sid rest (fun hc => h (List.mem_cons_of_mem _ hc))
    unfold decide0
    rw [h2, if_neg h1]
    split
    · split <;> rfl
    · rfl

theorem decide0_le_one (s : BSt) (st : Stmt) (sid : Nat) : ∀ (l : List Nat), l.Nodup → decide0 s st sid l ≤ 1
  | [], _ => Nat.zero_le _
  | k :: rest, hn => by
    have hn' := List.nodup_cons.mp hn
    have ih := decide0_le_one s st sid rest hn'.2
    unfold decide0
    split
    · split
      · exact Nat.zero_le _
      · by_cases hk : k = sid
        · rw [if_pos hk, decide0_absent s st sid rest (hk ▸ hn'.1)]; omega
        · rw [if_neg hk]; omega
    · exact ih

/-- `sid` is listed, accepts, and no accepting sink up to and including it throws -/
def Decided (s : BSt) (st : Stmt) (sid : Nat) (l : List Nat) : Prop :=
  ∃ pre post, l = pre ++ sid :: post ∧ acc s st sid = true ∧
    ∀ k ∈ pre ++ [sid], acc s st k = true → sinkThrows s k = false

theorem Decided.nil (s : BSt) (st : Stmt) (sid : Nat) : ¬ Decided s st sid [] := by
  rintro ⟨pre, post, e, _⟩
  cases pre <;> cases e

theorem Decided.cons_ne (s : BSt) (st : Stmt) (sid k : Nat) (rest : List Nat) (hk : k ≠ sid) :
    Decided s st sid (k :: rest) ↔ (acc s st k = true → sinkThrows s k = false) ∧ Decided s st sid rest := by
  constructor
  · rintro ⟨pre, post, e, a, h⟩
    cases pre with
    | nil => simp only [List.nil_append, List.cons.injEq] at e; exact absurd e.1 hk
    | cons p pre' =>
      simp only [List.cons_append, List.cons.injEq] at e
      obtain ⟨e1, e2⟩ := e
      subst e1
      exact ⟨h k (by simp), pre', post, e2, a, fun x hx => h x (by simp only [List.cons_append]; exact List.mem_cons_of_mem _ hx)⟩
  · rintro ⟨hkk, pre', post, e, a, h⟩
    refine ⟨k :: pre', post, by rw [e]; rfl, a, fun x hx => ?_⟩
    simp only [List.cons_append, List.mem_cons] at hx
    rcases hx with hx | hx
    · rw [hx]; exact hkk
    · exact h x hx

theorem Decided.cons_eq (s : BSt) (st : Stmt) (sid : Nat) (rest : List Nat) (_hr : sid ∉ rest) :
    Decided s st sid (sid :: rest) ↔ acc s st sid = true ∧ sinkThrows s sid = false := by
  constructor
  · rintro ⟨pre, post, _, a, h⟩
    exact ⟨a, h sid (by simp) a⟩
  · rintro ⟨a, t⟩
    refine ⟨[], rest, rfl, a, fun x hx => ?_⟩
    simp only [List.nil_append, List.mem_singleton] at hx
    intro _; rw [hx]; exact t

theorem decide0_eq_one_iff (s : BSt) (st : Stmt) (sid : Nat) : ∀ (l : List Nat), l.Nodup →
    (decide0 s st sid l = 1 ↔ Decided s st sid l)
  | [], _ => by
    constructor
    · intro h; cases h
    · intro h; exact absurd h (Decided.nil s st sid)
  | k :: rest, hn => by
    have hn' := List.nodup_cons.mp hn
    have ih := decide0_eq_one_iff s st sid rest hn'.2
    unfold decide0
    by_cases hk : k = sid
    · subst hk
      rw [Decided.cons_eq s st k rest hn'.1, decide0_absent s st k rest hn'.1]
      cases ha : acc s st k <;> cases ht : sinkThrows s k <;> simp
    · rw [Decided.cons_ne s st sid k rest hk, ← ih, if_neg hk]
      cases ha : acc s st k <;> cases ht : sinkThrows s k <;> simp

theorem dispatchCount_le_one (s : BSt) (st : Stmt) (sid : Nat) (hn : (s.lgOf st.lg).sinks.Nodup) :
    dispatchCount s st sid ≤ 1 := by
  rw [dispatchCount_eq_decide0 s st sid hn]; exact decide0_le_one s st sid _ hn

theorem dispatchCount_eq_one_iff (s : BSt) (st : Stmt) (sid : Nat) (hn : (s.lgOf st.lg).sinks.Nodup) :
    dispatchCount s st sid = 1 ↔
      ∃ pre post, (s.lgOf st.lg).sinks = pre ++ sid :: post ∧ acc s st sid = true ∧
        ∀ k ∈ pre ++ [sid], acc s st k = true → sinkThrows s k = false := by
  rw [dispatchCount_eq_decide0 s st sid hn]; exact decide0_eq_one_iff s st sid _ hn

end Backend.PA
