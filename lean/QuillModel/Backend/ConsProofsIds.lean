import QuillModel.Backend.ConsProofsCoreFront
/-!
`InvB`: statement ids identify statements. Every `Event::Log` statement that was accepted by some queue or is
carried by a parked call has an id below `nextId`, and no id occurs twice (over all contexts and all parked
calls together). Counting formulation: `tot s id ≤ 1`.
-/
namespace Backend.PA
open Backend Spsc

/-- occurrences of log statements with this id in a list -/
def cntL (id : Nat) (l : List Stmt) : Nat := l.countP (fun st => isLogKind st.kind && st.id == id)

def pendL : Pend → List Stmt
  | .stall s _ => [s]
  | .retry s _ => [s]
  | _ => []

/-- occurrences in the accepted histories -/
def cntA (s : BSt) (id : Nat) : Nat := (s.ths.map (fun t => cntL id t.accepted)).sum
/-- occurrences in the parked calls of the live actors named `a` -/
def cntBa (s : BSt) (a id : Nat) : Nat :=
  ((s.actors.filter (fun x => x.id = a ∧ x.alive)).map (fun x => cntL id (pendL x.pend))).sum
/-- occurrences in the parked calls of everybody else -/
def cntBo (s : BSt) (a id : Nat) : Nat :=
  ((s.actors.filter (fun x => !decide (x.id = a ∧ x.alive))).map (fun x => cntL id (pendL x.pend))).sum
def cntB (s : BSt) (id : Nat) : Nat := (s.actors.map (fun x => cntL id (pendL x.pend))).sum
def tot (s : BSt) (id : Nat) : Nat := cntA s id + cntB s id

/-- at most one live actor per actor id -/
def UniqA (s : BSt) : Prop := ∀ a, (s.actors.filter (fun x => x.id = a ∧ x.alive)).length ≤ 1

structure InvB (s : BSt) : Prop where
  uniq : ∀ id, tot s id ≤ 1
  lt : ∀ id, s.nextId ≤ id → tot s id = 0
  ua : UniqA s

/-- `InvB` with `φ id` phantom occurrences of each id counted in addition (`φ = 0`: `InvB`; `φ` = indicator of one id:
    that id is in use nowhere, although it lies below `nextId` — a discarded call) -/
structure InvBφ (φ : Nat → Nat) (s : BSt) : Prop where
  uniq : ∀ id, tot s id + φ id ≤ 1
  lt : ∀ id, s.nextId ≤ id → tot s id + φ id = 0
  ua : UniqA s

theorem cntL_append (id : Nat) (l r : List Stmt) : cntL id (l ++ r) = cntL id l + cntL id r := by
  simp [cntL, List.countP_append]

theorem sum_filter_split {α} (l : List α) (c : α → Bool) (h : α → Nat) :
    (l.map h).sum = ((l.filter c).map h).sum + ((l.filter (fun x => !c x)).map h).sum := by
  induction l with
  | nil => rfl
  | cons x xs ih =>
    by_cases hc : c x = true
    · rw [List.filter_cons_of_pos hc, List.filter_cons_of_neg (by simp [hc])]
      simp only [List.map_cons, List.sum_cons, ih]; omega
    · rw [List.filter_cons_of_neg hc, List.filter_cons_of_pos (by simpa using hc)]
      simp only [List.map_cons, List.sum_cons, ih]; omega

theorem cntB_split (s : BSt) (a id : Nat) : cntB s id = cntBa s a id + cntBo s a id :=
  sum_filter_split s.actors (fun x => decide (x.id = a ∧ x.alive)) _

theorem sum_map_updAt {α} (l : List α) (i : Nat) (f : α → α) (h : α → Nat) (hi : i < l.length) :
    ((updAt l i f).map h).sum + h l[i] = (l.map h).sum + h (f l[i]) := by
  rw [updAt_eq_take_drop l i f hi]
  have e : (l.map h).sum = ((l.take i).map h).sum + (h l[i] + ((l.drop (i + 1)).map h).sum) := by
    conv => lhs; rw [← List.take_append_drop i l, List.drop_eq_getElem_cons hi]
    simp only [List.map_append, List.map_cons, List.sum_append, List.sum_cons]
  rw [e]
  simp only [List.map_append, List.map_cons, List.sum_append, List.sum_cons]
  omega

theorem th_eq_getElem (s : BSt) (i : Nat) (hi : i < s.ths.length) : s.th i = s.ths[i] := by
  simp [BSt.th, List.getD_eq_getElem?_getD, hi]

theorem cntA_setTh (s : BSt) (i : Nat) (f : Th → Th) (id : Nat) (hi : i < s.ths.length) :
    cntA (s.setTh i f) id + cntL id (s.th i).accepted = cntA s id + cntL id (f (s.th i)).accepted := by
  rw [th_eq_getElem s i hi]
  exact sum_map_updAt s.ths i f (fun t => cntL id t.accepted) hi

theorem cntA_setTh_same (s : BSt) (i : Nat) (f : Th → Th) (id : Nat)
    (hf : (f (s.th i)).accepted = (s.th i).accepted) : cntA (s.setTh i f) id = cntA s id := by
  by_cases hi : i < s.ths.length
  · have := cntA_setTh s i f id hi
    rw [hf] at this; omega
  · rw [setTh_of_ge s i f (by omega)]

/-! ### actors -/

theorem filter_map_ite_not {α} (l : List α) (c : α → Bool) (f : α → α) (hc : ∀ x, c (f x) = c x) :
    (l.map (fun x => if c x then f x else x)).filter (fun x => !c x) = l.filter (fun x => !c x) := by
  induction l with
  | nil => rfl
  | cons x xs ih =>
    simp only [List.map_cons]
    by_cases hx : c x = true
    · rw [if_pos hx, List.filter_cons_of_neg (by simp [hc, hx]), List.filter_cons_of_neg (by simp [hx]), ih]
    · rw [if_neg hx, List.filter_cons_of_pos (by simpa using hx), List.filter_cons_of_pos (by simpa using hx), ih]

theorem filter_map_ite {α} (l : List α) (c : α → Bool) (f : α → α) (hc : ∀ x, c (f x) = c x) :
    (l.map (fun x => if c x then f x else x)).filter c = (l.filter c).map f := by
  induction l with
  | nil => rfl
  | cons x xs ih =>
    simp only [List.map_cons]
    by_cases hx : c x = true
    · rw [if_pos hx, List.filter_cons_of_pos (by simp [hc, hx]), List.filter_cons_of_pos hx, ih]; rfl
    · rw [if_neg hx, List.filter_cons_of_neg hx, List.filter_cons_of_neg hx, ih]

/-- an update function for actor `a` that keeps identity and liveness -/
def KeepsId (f : Actor → Actor) : Prop := ∀ x, (f x).id = x.id ∧ (f x).alive = x.alive

theorem setActor_actors (s : BSt) (a : Nat) (f : Actor → Actor) :
    (s.setActor a f).actors = s.actors.map (fun x => if decide (x.id = a ∧ x.alive) = true then f x else x) := by
  simp only [BSt.setActor, decide_eq_true_eq]

theorem cntBo_setActor (s : BSt) (a : Nat) (f : Actor → Actor) (hf : KeepsId f) (id : Nat) :
    cntBo (s.setActor a f) a id = cntBo s a id := by
  unfold cntBo
  rw [setActor_actors, filter_map_ite_not _ (fun x => decide (x.id = a ∧ x.alive)) f
    (fun x => by simp [(hf x).1, (hf x).2])]

theorem filterA_setActor (s : BSt) (a : Nat) (f : Actor → Actor) (hf : KeepsId f) :
    (s.setActor a f).actors.filter (fun x => x.id = a ∧ x.alive) =
      (s.actors.filter (fun x => x.id = a ∧ x.alive)).map f := by
  rw [setActor_actors]
  exact filter_map_ite _ (fun x => decide (x.id = a ∧ x.alive)) f (fun x => by simp [(hf x).1, (hf x).2])

/-- actors named `b`, after an update of actor `a` -/
theorem filterB_setActor_len (s : BSt) (a b : Nat) (f : Actor → Actor) (hf : KeepsId f) :
    ((s.setActor a f).actors.filter (fun x => x.id = b ∧ x.alive)).length =
      (s.actors.filter (fun x => x.id = b ∧ x.alive)).length := by
  rw [setActor_actors]
  induction s.actors with
  | nil => rfl
  | cons x xs ih =>
    simp only [List.map_cons]
    have hx : (decide ((if decide (x.id = a ∧ x.alive) = true then f x else x).id = b ∧
        (if decide (x.id = a ∧ x.alive) = true then f x else x).alive)) = decide (x.id = b ∧ x.alive) := by
      split <;> simp [(hf x).1, (hf x).2]
    by_cases hb : x.id = b ∧ x.alive
    · rw [List.filter_cons_of_pos (by rw [hx]; simpa using hb), List.filter_cons_of_pos (by simpa using hb),
        List.length_cons, List.length_cons, ih]
    · rw [List.filter_cons_of_neg (by rw [hx]; simpa using hb), List.filter_cons_of_neg (by simpa using hb)]
      exact ih

theorem UniqA.setActor {s : BSt} (h : UniqA s) (a : Nat) (f : Actor → Actor) (hf : KeepsId f) :
    UniqA (s.setActor a f) := fun b => by rw [filterB_setActor_len s a b f hf]; exact h b

/-- after an update that sets the pending call of actor `a` to `p` -/
theorem cntBa_setPend_le {s : BSt} (h : UniqA s) (a : Nat) (f : Actor → Actor) (hf : KeepsId f) (p : Pend)
    (hp : ∀ x, (f x).pend = p) (id : Nat) : cntBa (s.setActor a f) a id ≤ cntL id (pendL p) := by
  unfold cntBa
  rw [filterA_setActor s a f hf]
  have hl := h a
  generalize s.actors.filter (fun x => x.id = a ∧ x.alive) = l at hl
  match l, hl with
  | [], _ => simp
  | [x], _ => simp [hp]
  | _ :: _ :: _, hl => simp at hl

/-- an update that keeps the pending call -/
theorem cntBa_setActor_same (s : BSt) (a : Nat) (f : Actor → Actor) (hf : KeepsId f)
    (hp : ∀ x, (f x).pend = x.pend) (id : Nat) : cntBa (s.setActor a f) a id = cntBa s a id := by
  unfold cntBa
  rw [filterA_setActor s a f hf, List.map_map]
  congr 1
  apply List.map_congr_left
  intro x _
  simp [hp]

theorem cntBa_ge {s : BSt} {a : Nat} {x : Actor} (h : s.actor a = some x) (id : Nat) :
    cntL id (pendL x.pend) ≤ cntBa s a id := by
  unfold cntBa
  obtain ⟨hm, hid, hal⟩ := actor_some h
  have hmem : x ∈ s.actors.filter (fun x => x.id = a ∧ x.alive) := List.mem_filter.mpr ⟨hm, by simp [hid, hal]⟩
  generalize s.actors.filter (fun x => x.id = a ∧ x.alive) = l at hmem
  induction l with
  | nil => cases hmem
  | cons y ys ih =>
    simp only [List.map_cons, List.sum_cons]
    rcases List.mem_cons.mp hmem with e | e
    · rw [e]; omega
    · have := ih e; omega

theorem tot_eq (s : BSt) (a id : Nat) : tot s id = cntA s id + cntBa s a id + cntBo s a id := by
  unfold tot; rw [cntB_split s a id]; omega

end Backend.PA
