import QuillModel.Backend.USched
import QuillModel.Backend.Ops
/-!
Operations of the unbounded-queue machine: every frontend operation of `Backend/Ops.lean` (with the queue-writing calls
going through the chain) plus `shrink_thread_local_queue` / `get_thread_local_queue_capacity`; polls carry injected
operations of the same language.
-/
namespace Backend

inductive UFOp
  | base (f : FOp)
  | shrink (a want : Nat)        -- Frontend::shrink_thread_local_queue(want), then the capacity query
  | capq (a : Nat)               -- Frontend::get_thread_local_queue_capacity()
  deriving Repr, Inhabited

inductive UOp
  | front (f : UFOp)
  | poll (inj : List (Nat × Nat × List UFOp))
  | exit
  deriving Repr, Inhabited

def UFOp.show : UFOp → String
  | .base f => f.show
  | .shrink a w => s!"SH_{a}_{w}"
  | .capq a => s!"QC_{a}"

def UFOp.needsManagerLock : UFOp → Bool
  | .base f => f.needsManagerLock
  | _ => false

/-- frontend operations that reach the queue (the others are `applyFront` itself) -/
def applyFrontU (u : UP) (s : BSt) : UFOp → BSt × String
  | .base (.resume a) =>
    let r := resumeU u s a
    if r.2 == "noop" then r else
    let parked := ((r.1.actor a).map isParked).getD false
    if parked then r else (r.1.setActor a (fun x => { x with inCall := none }), r.2)
  | .base (.log a g lvl len dyn) =>
    withLogger s a g (fun lgi =>
      let id := s.nextId
      let s1 := { s with nextId := id + 1 }
      if shouldLog lvl (s1.lgOf lgi).level then frontCallU u s1 a lgi .log lvl len (if dyn then 0 else 5) dyn id
      else (s1, if dyn then s!"id={id} skip ev=0 bytes=0" else s!"id={id} ev=0 bytes=0"))
  | .base (.logNamed a g len) =>
    withLogger s a g (fun lgi =>
      let id := s.nextId
      let s1 := { s with nextId := id + 1 }
      if shouldLog 4 (s1.lgOf lgi).level then frontCallU u s1 a lgi .log 4 len 5 false id true
      else (s1, s!"id={id} ev=0 bytes=0"))
  | .base (.logBt a g len) =>
    withLogger s a g (fun lgi =>
      let id := s.nextId
      let s1 := { s with nextId := id + 1 }
      if shouldLog 9 (s1.lgOf lgi).level then frontCallU u s1 a lgi .log 9 len 5 false id
      else (s1, s!"id={id} ev=0 bytes=0"))
  | .base (.initBt a g cap fl) => withLogger s a g (fun lgi => frontCallU u s a lgi (.initBt cap fl) 8 0 2 false 0)
  | .base (.flushBt a g) => withLogger s a g (fun lgi => frontCallU u s a lgi .flushBt 8 0 3 false 0)
  | .base (.flush a g) =>
    withLogger s a g (fun lgi =>
      let f := s.nextFlag
      frontCallU u { s with nextFlag := f + 1 } a lgi (.flush f) 8 0 1 false 0)
  | .base (.removeBlocking a g) =>
    if loggerBusy s g then (s, "noop") else
    withLogger s a g (fun lgi =>
      let f := s.nextFlag
      frontCallU u (dropName { s with nextFlag := f + 1 } g) a lgi (.removal f) 8 0 4 false 0)
  | .base f => applyFront s f
  | .shrink a want =>
    if !idleActor s a then (s, "noop") else
    match (s.actor a).bind (·.ctx) with
    | none => (s, "noop")          -- asking would register the context
    | some i =>
      let s1 := s.setTh i (fun t => uShrink s.cfg t want)
      (s1, s!"cap={uProducerCap (s1.th i)}")
  | .capq a =>
    if !idleActor s a then (s, "noop") else
    match (s.actor a).bind (·.ctx) with
    | none => (s, "noop")
    | some i => (s, s!"cap={uProducerCap (s.th i)}")

def runInjU (u : UP) (table : List (Nat × Nat × List UFOp)) (s : BSt) (site : Nat) : BSt :=
  let k := ((s.siteCnt.find? (·.1 = site)).map (·.2)).getD 0 + 1
  let s1 := { s with siteCnt := (site, k) :: s.siteCnt.filter (·.1 ≠ site) }
  match table.find? (fun x => x.1 = site ∧ x.2.1 = k) with
  | none => s1
  | some (_, _, ops) =>
    ops.foldl (fun s f =>
      let r := if site = 9 && f.needsManagerLock then (s, "noop") else applyFrontU u s f
      r.1.emit (.inj site k f.show r.2)) s1

def applyOpU (u : UP) (s : BSt) : UOp → BSt × String
  | .front f => applyFrontU u s f
  | .poll table =>
    if s.backendGone then (s, "noop") else (pollU u (runInjU u table) { s with siteCnt := [] }, "ev")
  | .exit =>
    if s.backendGone then (s, "noop") else
    ({ exitLoopU u (runInjU u []) 1000 100000 { s with siteCnt := [] } with backendGone := true }, "ev")

def runOpsU (u : UP) (s : BSt) (ops : List UOp) : BSt := ops.foldl (fun s o => (applyOpU u s o).1) s

end Backend
