import QuillModel.Props.C10Replay
/-!
# The ring potential (whole-log bound for backtrace statements, part 1)

`bwcount log sid id` counts the `write` events of statement `id` at sink `sid`, backtrace level included. The whole-log
bound for level-9 statements is carried by a **potential**: every popped `Event::Log` statement with id `id` grants
`count sid (sinks of its logger)` writes (`btBound`); a statement sitting in a backtrace ring still owns its grant
(`ringPot`: occurrences of `id` in the ring of logger `j` × multiplicity of `sid` in `j`'s sink list, summed over the
loggers); a replay converts ring occupancy into writes and — with the repaired callback — always clears the ring:

  `bwcount s.log sid id + ringPot s sid id ≤ btBound s sid id`        (`InvRg.bound`)

No uniqueness of ids is needed for the invariant itself; uniqueness is used once, at the end, to bound `btBound`.
This file: the potential, its frame lemmas, and what one repaired replay does to it.
-/
namespace Backend.PA
open Backend Spsc

/-- `Σ_{j < n} f j` -/
def sumR (f : Nat → Nat) : Nat → Nat
  | 0 => 0
  | n + 1 => sumR f n + f n

theorem sumR_congr {f g : Nat → Nat} : ∀ (n : Nat), (∀ j, j < n → f j = g j) → sumR f n = sumR g n
  | 0, _ => rfl
  | n + 1, h => by
    simp only [sumR]
    rw [sumR_congr n (fun j hj => h j (by omega)), h n (by omega)]

theorem sumR_split (f : Nat → Nat) (i : Nat) : ∀ (n : Nat), i < n →
    sumR f n = f i + sumR (fun j => if j = i then 0 else f j) n
  | 0, h => by omega
  | n + 1, h => by
    simp only [sumR]
    by_cases hi : i = n
    · subst hi
      have : sumR (fun j => if j = i then 0 else f j) i = sumR f i :=
        sumR_congr i (fun j hj => by simp [show j ≠ i by omega])
      rw [this]; simp only [if_true]; omega
    · rw [sumR_split f i n (by omega)]
      simp [show n ≠ i by omega]
      omega

theorem sumR_extend (f : Nat → Nat) (n : Nat) : ∀ (m : Nat), n ≤ m → (∀ j, n ≤ j → j < m → f j = 0) →
    sumR f m = sumR f n
  | 0, h, _ => by have : n = 0 := by omega
                  subst this; rfl
  | m + 1, h, hz => by
    by_cases hm : n = m + 1
    · subst hm; rfl
    · simp only [sumR]
      rw [sumR_extend f n m (by omega) (fun j h1 h2 => hz j h1 (by omega)), hz m (by omega) (by omega)]
      rfl

/-- change at one index only -/
theorem sumR_update {f g : Nat → Nat} (i n : Nat) (hi : i < n) (h : ∀ j, j < n → j ≠ i → g j = f j) :
    sumR g n + f i = sumR f n + g i := by
  rw [sumR_split f i n hi, sumR_split g i n hi]
  have : sumR (fun j => if j = i then 0 else g j) n = sumR (fun j => if j = i then 0 else f j) n :=
    sumR_congr n (fun j hj => by
      by_cases hji : j = i
      · simp [hji]
      · simp [hji, h j hj hji])
  rw [this]; omega

/-- occurrences of statement id `id` among the stored events -/
def itemsCnt (id : Nat) (items : List Stmt) : Nat := (items.filter (fun x => x.id == id)).length

/-- occurrences of statement id `id` in the backtrace ring of a logger object -/
def lgCnt (id : Nat) (l : Lg) : Nat :=
  match l.bt with
  | none => 0
  | some r => itemsCnt id r.items

/-- writes still owned by stored backtrace statements: ring occupancy × multiplicity of the sink, over all loggers -/
def ringPot (s : BSt) (sid id : Nat) : Nat :=
  sumR (fun j => lgCnt id (s.lgOf j) * (s.lgOf j).sinks.count sid) s.lgs.length

/-- writes granted by the pops so far: every popped `Event::Log` statement with this id grants the multiplicity of the
    sink in its logger's sink list -/
def btBound (s : BSt) (sid id : Nat) : Nat :=
  ((s.popLog.filter (logq id)).map (fun st => (s.lgOf st.lg).sinks.count sid)).sum

/-- stored statements sit in the ring of their own logger -/
def RingLg (s : BSt) : Prop := ∀ i r, (s.lgOf i).bt = some r → ∀ x ∈ r.items, x.lg = i

structure InvRg (s : BSt) : Prop where
  rc : s.cfg.replayCatchesPerEvent = true
  ring : RingLg s
  bound : ∀ sid id, bwcount s.log sid id + ringPot s sid id ≤ btBound s sid id

theorem anyWrite_of_not_write {e : Ev} (h : isWriteEv e = false) (sid id : Nat) : anyWrite sid id e = false := by
  cases e <;> simp_all [isWriteEv, anyWrite]

theorem bwcount_nowrite {evs l : List Ev} (h : ∀ e ∈ evs, isWriteEv e = false) (sid id : Nat) :
    bwcount (evs ++ l) sid id = bwcount l sid id := by
  rw [bwcount_eq, bwcount_eq, List.countP_append]
  have : evs.countP (anyWrite sid id) = 0 := by
    rw [List.countP_eq_zero]
    intro e he
    simp [anyWrite_of_not_write (h e he)]
  omega

theorem bwcount_emit_nowrite (s : BSt) (e : Ev) (h : isWriteEv e = false) (sid id : Nat) :
    bwcount (s.emit e).log sid id = bwcount s.log sid id :=
  bwcount_nowrite (evs := [e]) (by simpa using h) sid id

theorem lgCnt_default (id : Nat) : lgCnt id (default : Lg) = 0 := rfl

theorem ringPot_congr {s s' : BSt} (sid id : Nat) (hlen : s'.lgs.length = s.lgs.length)
    (h : ∀ j, j < s.lgs.length → (s'.lgOf j).bt = (s.lgOf j).bt ∧ (s'.lgOf j).sinks = (s.lgOf j).sinks) :
    ringPot s' sid id = ringPot s sid id := by
  unfold ringPot
  rw [hlen]
  apply sumR_congr
  intro j hj
  simp only [lgCnt, (h j hj).1, (h j hj).2]

/-- `InvRg` survives a change that adds no `write`, keeps the pop history, keeps the old loggers' rings and sink lists and
    creates loggers without a ring -/
theorem InvRg.mono {s s' : BSt} (h : InvRg s) (hcfg : s'.cfg = s.cfg)
    (hlog : ∃ evs, s'.log = evs ++ s.log ∧ ∀ e ∈ evs, isWriteEv e = false) (hpop : s'.popLog = s.popLog)
    (hle : s.lgs.length ≤ s'.lgs.length)
    (hold : ∀ i, i < s.lgs.length → (s'.lgOf i).sinks = (s.lgOf i).sinks ∧ (s'.lgOf i).bt = (s.lgOf i).bt)
    (hnew : ∀ i, s.lgs.length ≤ i → (s'.lgOf i).bt = none) : InvRg s' := by
  refine ⟨by rw [hcfg]; exact h.rc, ?_, fun sid id => ?_⟩
  · intro i r hr
    by_cases hi : i < s.lgs.length
    · exact h.ring i r ((hold i hi).2 ▸ hr)
    · rw [hnew i (by omega)] at hr; cases hr
  · obtain ⟨evs, he, hn⟩ := hlog
    rw [he, bwcount_nowrite hn]
    have hpot : ringPot s' sid id = ringPot s sid id := by
      unfold ringPot
      rw [sumR_extend _ s.lgs.length s'.lgs.length hle (fun j h1 _ => by simp [lgCnt, hnew j h1])]
      apply sumR_congr
      intro j hj
      simp only [lgCnt, (hold j hj).1, (hold j hj).2]
    rw [hpot]
    refine Nat.le_trans (h.bound sid id) ?_
    unfold btBound
    rw [hpop]
    apply sum_map_le
    intro st _
    by_cases hi : st.lg < s.lgs.length
    · rw [(hold st.lg hi).1]; exact Nat.le_refl _
    · rw [lgOf_default_of_ge s st.lg (by omega)]
      show (default : Lg).sinks.count sid ≤ _
      exact Nat.zero_le _

theorem InvRg.frame {s s' : BSt} (h : InvRg s) (f : Frame s s') : InvRg s' :=
  h.mono f.cfg f.log f.popLog (by rw [f.lgsLen]; exact Nat.le_refl _)
    (fun i _ => ⟨(f.lgs i).2.1, (f.lgs i).2.2⟩)
    (fun i hi => by rw [(f.lgs i).2.2, lgOf_default_of_ge s i hi]; rfl)

/-- a change of fields `InvRg` does not read -/
theorem InvRg.of_eq {s s' : BSt} (h : InvRg s) (h0 : s'.cfg = s.cfg) (h1 : s'.log = s.log) (h2 : s'.popLog = s.popLog)
    (h3 : s'.lgs = s.lgs) : InvRg s' :=
  h.mono h0 ⟨[], by simpa using h1, by simp⟩ h2 (by rw [h3]; exact Nat.le_refl _)
    (fun i _ => by simp [BSt.lgOf, h3])
    (fun i hi => by
      have : s'.lgOf i = s.lgOf i := by simp [BSt.lgOf, h3]
      rw [this, lgOf_default_of_ge s i hi]; rfl)

theorem InvRg.ffr {s s' : BSt} (h : InvRg s) (f : FFrame s s') : InvRg s' :=
  h.mono f.cfg f.log f.popLog f.lgsLe (fun i hi => ⟨(f.lgsOld i hi).2.1, (f.lgsOld i hi).2.2⟩) f.lgsNew

/-! ### one repaired replay -/

theorem replayStep_lgs (s : BSt) (x : Stmt) : (replayStep s x).lgs = s.lgs := by
  unfold replayStep
  split
  · exact writeToSinks_lgs x _ s
  · exact writeToSinks_lgs x _ s

theorem foldl_replayStep_lgs : ∀ (l : List Stmt) (s : BSt), (l.foldl replayStep s).lgs = s.lgs
  | [], _ => rfl
  | x :: xs, s => by rw [List.foldl_cons, foldl_replayStep_lgs xs, replayStep_lgs]

theorem replay_mem {r : Ring} {x : Stmt} (hx : x ∈ r.replay) : x ∈ r.items := by
  simp only [Ring.replay, List.mem_append] at hx
  rcases hx with hx | hx
  · exact List.mem_of_mem_drop hx
  · exact List.mem_of_mem_take hx

theorem replay_itemsCnt (r : Ring) (id : Nat) : itemsCnt id r.replay = itemsCnt id r.items := by
  simp only [itemsCnt, Ring.replay, List.filter_append, List.length_append]
  rw [Nat.add_comm, ← List.length_append, ← List.filter_append, List.take_append_drop]

theorem lgOf_bt_lt {s : BSt} {i : Nat} {r : Ring} (h : (s.lgOf i).bt = some r) : i < s.lgs.length := by
  by_cases hi : i < s.lgs.length
  · exact hi
  · rw [lgOf_default_of_ge s i (by omega)] at h; cases h

/-- **a repaired replay converts ring occupancy into writes:** writes + potential do not grow, whatever the sinks do -/
theorem replayRing_pot {s : BSt} (hc : s.cfg.replayCatchesPerEvent = true) (hr : RingLg s) (lgi sid id : Nat) :
    bwcount (replayRing s lgi).1.log sid id + ringPot (replayRing s lgi).1 sid id ≤
      bwcount s.log sid id + ringPot s sid id := by
  cases hbt : (s.lgOf lgi).bt with
  | none => simp [replayRing, hbt]
  | some r =>
    rw [C10_replay_is_per_event s lgi r hc hbt]
    have hlt := lgOf_bt_lt hbt
    have hlgs := foldl_replayStep_lgs r.replay s
    have h1 := foldl_replayStep_bwcount lgi sid id r.replay s (fun x hx => hr lgi r hbt x (replay_mem hx))
    have hcnt : (r.replay.filter (fun x => x.id == id)).length = itemsCnt id r.items := replay_itemsCnt r id
    rw [hcnt] at h1
    show bwcount (r.replay.foldl replayStep s).log sid id +
      ringPot ((r.replay.foldl replayStep s).setLg lgi (fun l => { l with bt := some r.cleared })) sid id ≤ _
    -- the potential: index `lgi` drops to 0, everything else is unchanged
    have hpot : ringPot ((r.replay.foldl replayStep s).setLg lgi (fun l => { l with bt := some r.cleared })) sid id +
        itemsCnt id r.items * (s.lgOf lgi).sinks.count sid = ringPot s sid id := by
      unfold ringPot
      rw [setLg_lgs_length, hlgs]
      have hu := sumR_update (f := fun j => lgCnt id (s.lgOf j) * (s.lgOf j).sinks.count sid)
        (g := fun j => lgCnt id (((r.replay.foldl replayStep s).setLg lgi (fun l => { l with bt := some r.cleared })).lgOf j) *
          (((r.replay.foldl replayStep s).setLg lgi (fun l => { l with bt := some r.cleared })).lgOf j).sinks.count sid)
        lgi s.lgs.length hlt (fun j _ hji => by
          simp only [lgOf_setLg, hji, false_and, if_false, lgOf_of_lgs hlgs])
      have hg : lgCnt id (((r.replay.foldl replayStep s).setLg lgi (fun l => { l with bt := some r.cleared })).lgOf lgi) = 0 := by
        rw [lgOf_setLg, if_pos ⟨rfl, by rw [hlgs]; exact hlt⟩]
        simp [lgCnt, itemsCnt, Ring.cleared]
      have hf : lgCnt id (s.lgOf lgi) = itemsCnt id r.items := by simp [lgCnt, hbt]
      simp only [hg, hf, Nat.zero_mul, Nat.add_zero] at hu
      omega
    omega

theorem replayRing_ringLg {s : BSt} (hc : s.cfg.replayCatchesPerEvent = true) (hr : RingLg s) (lgi : Nat) :
    RingLg (replayRing s lgi).1 := by
  cases hbt : (s.lgOf lgi).bt with
  | none => simpa [replayRing, hbt] using hr
  | some r =>
    rw [C10_replay_is_per_event s lgi r hc hbt]
    have hlgs := foldl_replayStep_lgs r.replay s
    intro j r' hr' x hx
    dsimp only at hr'
    rw [lgOf_setLg] at hr'
    split at hr'
    · simp only [Option.some.injEq] at hr'
      rw [← hr'] at hx; simp [Ring.cleared] at hx
    · rw [lgOf_of_lgs hlgs] at hr'
      exact hr j r' hr' x hx

end Backend.PA
