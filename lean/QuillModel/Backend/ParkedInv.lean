import QuillModel.Backend.ConcGrow
import QuillModel.Backend.FlushBack
import QuillModel.Backend.PcSkeleton
/-!
# A call parked on a flag has its request record in the accepted history (helper lemmas for C17)

* `accepted_mono_run`: the accepted history of a context only grows, along every schedule.
* `enqFlow_flag_post`: when the body of a public call leaves its caller parked on `Pend.flag f`, the record it has just
  committed carries the flag `f` (so it is the Flush / removal request of exactly this call) and is in the accepted history.
* `removeBlocking_parks_on_record`: `remove_logger_blocking` that parks on a flag has committed a `Kind.removal f` record
  naming the logger object it resolved.
-/
namespace Backend.PB
open Backend

/-! ### the accepted history only grows -/

theorem acc_of_ths {s s' : BSt} (h : s'.ths = s.ths) (i : Nat) : (s'.th i).accepted = (s.th i).accepted := by
  simp only [BSt.th, h]

theorem acc_setTh (s : BSt) (k : Nat) (f : Th → Th) (hf : ∀ t, (f t).accepted = t.accepted) (i : Nat) :
    ((s.setTh k f).th i).accepted = (s.th i).accepted := by
  rcases th_setTh_cases s k i f with h1 | ⟨rfl, _, h1⟩
  · rw [h1]
  · rw [h1, hf]

theorem mem_acc_setTh {s : BSt} {k : Nat} {f : Th → Th} {i : Nat} {r : Stmt} (hf : ∀ t, (f t).accepted = t.accepted)
    (h : r ∈ (s.th i).accepted) : r ∈ ((s.setTh k f).th i).accepted := by
  rw [acc_setTh s k f hf]; exact h

theorem accMono_closed (i : Nat) (r : Stmt) : PC.Closed (fun s => r ∈ (s.th i).accepted) where
  lastFlush := fun _ _ h => h
  siteCnt := fun _ _ h => h
  emitInj := fun _ _ _ _ _ h => h
  note := fun _ h => h
  clock := fun _ _ h => h
  gone := fun _ h => h
  refresh := fun s h => by rw [((fr_refresh s).th i).acc]; exact h
  allEmpty := fun s h => by rw [((fr_allEmpty s).th i).acc]; exact h
  hasPending := fun s h => by rw [((fr_hasPending s).th i).acc]; exact h
  cleanupContexts := fun s h => by rw [((sub_cleanupContexts s).th i).acc]; exact h
  invFlag := fun _ _ h => h
  erase := fun s k h _ _ => by
    show r ∈ (((Backend.allEmpty s).1.setLg k _).th i).accepted
    have : (((Backend.allEmpty s).1.setLg k (fun l => { l with erased := true })).th i) = (Backend.allEmpty s).1.th i := rfl
    rw [this, ((fr_allEmpty s).th i).acc]; exact h
  reap := fun _ _ h _ _ => h
  flagRemoval := fun _ _ _ _ _ h _ _ => h
  flushSinks := fun s h => by
    rw [acc_of_ths (congrArg Core2.ths (slol_flushSinks s).core2)]; exact h
  readPrep := fun s k h => by
    show r ∈ ((PC.readPrepSt s k).th i).accepted
    unfold PC.readPrepSt
    refine mem_acc_setTh ?_ h
    intro _; rfl
  commit := fun s k h => by
    show r ∈ ((PC.commitSt s k).th i).accepted
    unfold PC.commitSt
    refine mem_acc_setTh ?_ h
    intro _; rfl
  readOne := fun s k st rest h _ _ => by
    show r ∈ ((PC.readOneSt s k st rest).th i).accepted
    unfold PC.readOneSt PC.moveSt
    refine mem_acc_setTh ?_ ?_
    · intro _; rfl
    · have e : ((PC.decodeSt (PC.readPrepSt s k) st).th i) = (PC.readPrepSt s k).th i := by
        unfold PC.decodeSt; split <;> rfl
      rw [e]
      unfold PC.readPrepSt
      refine mem_acc_setTh ?_ h
      intro _; rfl
  report := fun s k h _ => by
    show r ∈ ((PC.reportSt s k).th i).accepted
    have e : (PC.reportSt s k).th i = (s.setTh k (fun t => { t with fail := 0 })).th i := rfl
    rw [e]
    refine mem_acc_setTh ?_ h
    intro _; rfl
  pop := fun s k st rest h _ _ => by
    show r ∈ ((PC.popSt s k st rest).th i).accepted
    have hths : ∀ (X : BSt), X.ths = s.ths →
        r ∈ (({ X.setTh k (fun t => { t with buf := rest, popped := t.popped ++ [st] }) with popLog := st :: X.popLog } : BSt).th i).accepted := by
      intro X hX
      have e1 : (({ X.setTh k (fun t => { t with buf := rest, popped := t.popped ++ [st] }) with popLog := st :: X.popLog } : BSt).th i) =
          (X.setTh k (fun t => { t with buf := rest, popped := t.popped ++ [st] })).th i := rfl
      rw [e1]
      refine mem_acc_setTh ?_ ?_
      · intro _; rfl
      · rw [acc_of_ths hX]; exact h
    have hpe : (processEvent s st).1.ths = s.ths := congrArg Core2.ths (slol_processEvent s st).core2
    unfold PC.popSt
    simp only []
    split
    · exact hths _ (by show (processEvent s st).1.ths = s.ths; exact hpe)
    · exact hths _ hpe
  raise := fun _ _ h _ => h
  front := fun s f h => (grow_applyFront s f).acc i |>.subset h

/-- along every schedule the accepted history of every context only grows -/
theorem accepted_mono_run (s : BSt) (ops : List Op) (i : Nat) (r : Stmt) (h : r ∈ (s.th i).accepted) :
    r ∈ ((runOps s ops).th i).accepted :=
  PC.runOps_closed (accMono_closed i r) ops s h

/-! ### parking on a flag -/

theorem pendOf_of_actors {s s' : BSt} (h : s'.actors = s.actors) (a : Nat) : pendOf s' a = pendOf s a := by
  simp only [pendOf, BSt.actor, h]

theorem ensureCtx_lt (s : BSt) (a : Nat) (hctx : ∀ x j, s.actor a = some x → x.ctx = some j → j < s.ths.length) :
    (Backend.ensureCtx s a).2 < (Backend.ensureCtx s a).1.ths.length := by
  unfold Backend.ensureCtx
  split
  · rename_i i hi
    simp only
    cases hx : s.actor a with
    | none => rw [hx] at hi; cases hi
    | some x => rw [hx] at hi; exact hctx x i hx hi
  · simp only
    show s.ths.length < (s.ths ++ [mkTh s.cfg a]).length
    simp

theorem tryEnq_ok_mem (s : BSt) (ci : Nat) (st : Stmt) (hci : ci < s.ths.length) (hok : (Backend.tryEnq s ci st).2 = true) :
    { st with enqAt := s.now } ∈ ((Backend.tryEnq s ci st).1.th ci).accepted := by
  unfold Backend.tryEnq at hok ⊢
  simp only at hok ⊢
  split
  · rw [th_setTh_same s _ hci]
    show _ ∈ (s.th ci).accepted ++ [{ st with enqAt := s.now }]
    simp
  · rename_i hn
    rw [if_neg hn] at hok; cases hok

/-- **what a call parked on a flag has done.** If the body of a public call (first attempt, resumption after a stall, any
    retry) leaves its caller `a` parked on `Pend.flag f`, then the statement `st` it was entered with carries exactly this flag
    (`Kind.flush f` with continuation 1 = `flush_log`, `Kind.removal f` with continuation 4 = `remove_logger_blocking`) and a copy
    of it (same kind, logger, actor, id; commit clock filled in) is in the accepted history of a context. -/
theorem enqFlow_flag_post (s : BSt) (a : Nat) (st : Stmt) (cont : Nat) (first initial : Bool)
    (hctx : ∀ x j, s.actor a = some x → x.ctx = some j → j < s.ths.length) (f : Nat)
    (hp : pendOf (Backend.enqFlow s a st cont first initial).1 a = some (.flag f)) :
    ((cont = 1 ∧ st.kind = .flush f) ∨ (cont = 4 ∧ st.kind = .removal f)) ∧
    ∃ i r, r ∈ ((Backend.enqFlow s a st cont first initial).1.th i).accepted ∧ r.kind = st.kind ∧ r.lg = st.lg ∧
      r.actor = st.actor ∧ r.id = st.id ∧ r.ts = st.ts := by
  have hlt := ensureCtx_lt s a hctx
  rcases he : Backend.ensureCtx s a with ⟨s1, ci⟩
  rw [he] at hlt
  simp only at hlt
  have hmem := tryEnq_ok_mem s1 ci st hlt
  rcases ht : Backend.tryEnq s1 ci st with ⟨s2, ok⟩
  rw [ht] at hmem
  simp only at hmem
  unfold Backend.enqFlow at hp ⊢
  simp only [he, ht] at hp ⊢
  have hset : ∀ (X : BSt) (p' : Pend), pendOf (X.setActor a (fun x => { x with pend := p' })) a = some (.flag f) → p' = .flag f := by
    intro X p' h
    exact ((pendOf_setActor_set X a (fun x => { x with pend := p' }) (fun _ => rfl) (fun _ => rfl) p' (fun _ => rfl)).1 _ h).symm
  cases ok with
  | false =>
    exfalso
    simp only [Bool.false_eq_true, if_false] at hp
    split at hp
    · split at hp
      · exact absurd (hset _ _ hp) (by simp)
      · exact absurd (hset _ _ hp) (by simp)
    · exact absurd (hset _ _ hp) (by simp)
  | true =>
    simp only [if_true] at hp ⊢
    have hm := hmem rfl
    have hrec : ∀ (Y : BSt), Y.ths = s2.ths → ∃ i r, r ∈ (Y.th i).accepted ∧ r.kind = st.kind ∧ r.lg = st.lg ∧
        r.actor = st.actor ∧ r.id = st.id ∧ r.ts = st.ts := by
      intro Y hY
      refine ⟨ci, { st with enqAt := s1.now }, ?_, rfl, rfl, rfl, rfl, rfl⟩
      rw [acc_of_ths hY]; exact hm
    have hnone : ∀ (Y : BSt), Y.actors = (s2.setActor a (fun x => { x with pend := Pend.none })).actors →
        pendOf Y a = some (.flag f) → False := by
      intro Y hY h
      rw [pendOf_of_actors hY] at h
      exact absurd (hset _ _ h) (by simp)
    unfold Backend.afterEnq at hp ⊢
    split at hp
    · rename_i f' hk
      have := hset _ _ hp
      simp only [Pend.flag.injEq] at this
      subst this
      exact ⟨Or.inl ⟨rfl, hk⟩, hrec _ rfl⟩
    · exact (hnone _ rfl hp).elim
    · exact (hnone _ rfl hp).elim
    · rename_i f' hk
      have := hset _ _ hp
      simp only [Pend.flag.injEq] at this
      subst this
      exact ⟨Or.inr ⟨rfl, hk⟩, hrec _ rfl⟩
    · exact (hnone _ rfl hp).elim


/-- **`remove_logger_blocking` that goes to sleep on a flag has committed its removal request.** If the call answers
    "parked:sleep" and leaves the caller waiting on `Pend.flag f`, then the name resolved to a logger object `lgi`, `f` is the
    fresh flag number taken by this call, and a `Kind.removal f` record naming `lgi`, issued by `a`, is in the accepted history
    of a context. (The other way to answer "parked:sleep" — the request was refused by a full queue and is being retried —
    leaves the caller on `Pend.retry`, not on a flag.) -/
theorem removeBlocking_parks_on_record (s : BSt) (a g f : Nat)
    (hctx : ∀ x j, s.actor a = some x → x.ctx = some j → j < s.ths.length)
    (hres : (Backend.applyFront s (.removeBlocking a g)).2 = "parked:sleep")
    (hp : pendOf (Backend.applyFront s (.removeBlocking a g)).1 a = some (.flag f)) :
    ∃ lgi, loggerOf s g = some lgi ∧ f = s.nextFlag ∧
      ∃ i r, r ∈ ((Backend.applyFront s (.removeBlocking a g)).1.th i).accepted ∧ r.kind = .removal f ∧ r.lg = lgi ∧
        r.actor = a := by
  simp only [Backend.applyFront] at hres hp ⊢
  split at hres
  · have hh : ("noop" : String) = "parked:sleep" := hres
    exact absurd hh (by decide)
  · rename_i hbusy
    rw [if_neg hbusy] at hp ⊢
    unfold Backend.withLogger at hres hp ⊢
    split at hres
    · rename_i lgi hlo hid
      simp only [hlo, hid] at hp ⊢
      refine ⟨lgi, rfl, ?_⟩
      have hnc : ∀ (r : BSt × String), (noteCall r a g).2 = r.2 := fun _ => rfl
      have hnp : ∀ (r : BSt × String), pendOf (noteCall r a g).1 a = pendOf r.1 a := by
        intro r
        unfold noteCall
        refine pendOf_setActor_keep r.1 a _ ?_ ?_ ?_ a <;> intro _ <;> rfl
      have hnt : ∀ (r : BSt × String) i, ((noteCall r a g).1.th i) = r.1.th i := fun _ _ => rfl
      rw [hnc] at hres
      rw [hnp] at hp
      unfold Backend.frontCall at hres hp ⊢
      simp only at hres hp ⊢
      split at hres
      · have hh : ("parked:stall" : String) = "parked:sleep" := hres
        exact absurd hh (by decide)
      · rename_i hst
        rw [if_neg hst] at hp
        have hpost := enqFlow_flag_post (dropName { s with nextFlag := s.nextFlag + 1 } g) a _ 4 true true hctx f hp
        obtain ⟨hk, i, r, h1, h2, h3, h4, _, _⟩ := hpost
        have hf : f = s.nextFlag := by
          rcases hk with ⟨hc, _⟩ | ⟨_, hk⟩
          · cases hc
          · simp only [Kind.removal.injEq] at hk; exact hk.symm
        refine ⟨hf, i, r, ?_, by rw [h2, hf], h3, h4⟩
        rw [hnt, if_neg hst]; exact h1
    · have hh : ("noop" : String) = "parked:sleep" := hres
      exact absurd hh (by decide)

end Backend.PB
