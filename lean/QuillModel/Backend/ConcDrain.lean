import QuillModel.Backend.ConcMono
import QuillModel.Backend.ConcRead
import QuillModel.Backend.FlushBack
/-!
# A queue whose owner is blocked is read within `|queue|` polls, whatever the other threads do (helper lemmas for C09)

`poll_reads`: a poll with an arbitrary injection table strictly increases, for every context with a non-empty queue whose front
record is past the grace period, the number of records read so far (`|accepted| - |queue|`). `drain_conc`: hence along an
arbitrary continuation in which the owner enqueues nothing (its accepted history keeps its length — it is blocked), the queue
loses at least one record per poll until it is empty.
-/
namespace Backend.PB
open Backend

variable {inj : BSt → Nat → BSt}

theorem grow_populate (hg : InjGrow inj) (s : BSt) : Grow s (populate inj s).1 := by
  rw [populate_eq]
  have fa : Grow s (popA s) := by
    unfold popA; split
    · exact Grow.refl _
    · exact (fr_refresh s).grow
  have fb : Grow (popA s) (popB inj s) := by
    unfold popB; split
    · exact Grow.refl _
    · exact hg _ 7
  have fc : Grow (popB inj s) (popC inj s) := by
    unfold popC; split
    · exact (hg _ 1).trans (fr_refresh _).grow
    · exact hg _ 1
  refine ((fa.trans fb).trans fc).trans ?_
  have : ∀ (l : List Nat) (acc : BSt × Nat), Grow acc.1 (l.foldl (popStep inj (tsNowOf (popB inj s))) acc).1 := by
    intro l
    induction l with
    | nil => intro acc; exact Grow.refl _
    | cons x xs ih =>
      intro acc
      rw [List.foldl_cons]
      refine Grow.trans ?_ (ih _)
      unfold popStep
      exact (hg acc.1 2).trans (grow_readQueue hg _ x _ 0 _)
  exact this (popC inj s).cache (popC inj s, 0)

variable {c : Cfg} {fl : Nat} {s : BSt}

/-- **One poll reads one more record of every ripe non-empty queue, net of whatever is accepted meanwhile.** -/
theorem poll_reads (table : List (Nat × Nat × List FOp)) (h : PIo c fl s) (hF : FI none [] s) (i : Nat) (r : Stmt)
    (rest : List Stmt) (hq : (s.th i).qStmts = r :: rest) (hripe : r.ts + c.grace ≤ s.now) :
    (s.th i).accepted.length + ((Backend.poll (runInj table) s).th i).qStmts.length + 1 ≤
      ((Backend.poll (runInj table) s).th i).accepted.length + (s.th i).qStmts.length := by
  have hi : InjOK (runInj table) := fun _ _ _ _ _ site hh => hh.runInj table site
  have hg := injGrow_runInj table
  have hFp : FI none [] (populate (runInj table) s).1 := hF.populate (injOK2_runInj table)
  have g := grow_populate hg s
  have hr := populate_reads hi hg h i r rest hq hripe
  have ht := mono_poll_tail (injMono_runInj table) s
  have c1 := congrArg List.length (hF.cons i)
  have c2 := congrArg List.length (hFp.cons i)
  have hb := g.bal i
  have hu := ht.unread i
  unfold PB.chain at hb
  simp only [List.length_append] at c1 c2 hb
  omega

/-- **The queue of a blocked owner drains under arbitrary concurrency.** From a state satisfying the invariants, along any
    continuation `ops` (frontend operations of any threads, polls with any injections) after which the backend is still running
    and context `i` has accepted nothing more (its owner is blocked), with everything context `i` ever accepted past its grace
    period at the start: the queue of `i` has lost at least one record per poll, or is empty. -/
theorem drain_conc (i : Nat) : ∀ (ops : List Op) (s : BSt), GI s → FI none [] s →
    (runOps s ops).backendGone = false →
    (∀ r ∈ (s.th i).accepted, r.ts + s.cfg.grace ≤ s.now) →
    ((runOps s ops).th i).accepted.length = (s.th i).accepted.length →
    ((runOps s ops).th i).qStmts.length + pollCount ops ≤ (s.th i).qStmts.length ∨ ((runOps s ops).th i).qStmts = []
  | [], s, _, _, _, _, _ => Or.inl (by simp [runOps, pollCount])
  | o :: os, s, hG, hF, hgone, hripe, hacc => by
    have e : runOps s (o :: os) = runOps (applyOp s o).1 os := by simp [runOps]
    rw [e] at hgone hacc ⊢
    have m1 := mono_applyOp s o
    have m2 := mono_runOps os (applyOp s o).1
    -- the accepted history of `i` is the same in the intermediate state
    obtain ⟨l1, e1, _⟩ := m1.acc i
    obtain ⟨l2, e2, _⟩ := m2.acc i
    have hl1 : l1 = [] := by
      have := congrArg List.length e1
      have := congrArg List.length e2
      simp only [List.length_append] at *
      exact List.eq_nil_of_length_eq_zero (by omega)
    rw [hl1, List.append_nil] at e1
    have hcfg : (applyOp s o).1.cfg = s.cfg := by
      have := hG.cfg_runOps [o]
      simpa [runOps] using this
    have hgone1 : (applyOp s o).1.backendGone = false := by
      cases hb : (applyOp s o).1.backendGone with
      | false => rfl
      | true => have := m2.gone hb; rw [hgone] at this; cases this
    have hgone0 : s.backendGone = false := by
      cases hb : s.backendGone with
      | false => rfl
      | true => have := m1.gone hb; rw [hgone1] at this; cases this
    have ih := drain_conc i os (applyOp s o).1 (hG.applyOp o) (hF.applyOp o) hgone
      (fun r hr => by rw [e1] at hr; rw [hcfg]; have := hripe r hr; have := m1.now; omega)
      (by rw [hacc, e1])
    rcases ih with ih | ih
    · -- how much did `o` itself read?
      have hu := m1.unread i
      rw [e1] at hu
      cases hp : isPoll o with
      | false =>
        left
        have : pollCount (o :: os) = pollCount os := by simp [pollCount, hp]
        omega
      | true =>
        have hpc : pollCount (o :: os) = pollCount os + 1 := by simp [pollCount, hp]
        cases o with
        | front f => cases hp
        | exit => cases hp
        | poll table =>
          cases hqq : (s.th i).qStmts with
          | nil =>
            -- already empty: it stays empty (nothing accepted, nothing unread can appear)
            rw [hqq] at hu
            have h0 : ((applyOp s (.poll table)).1.th i).qStmts.length = 0 := by simp at hu; omega
            right
            have hu2 := m2.unread i
            have e1' := congrArg List.length e1
            have : ((runOps (applyOp s (.poll table)).1 os).th i).qStmts.length = 0 := by omega
            exact List.eq_nil_of_length_eq_zero this
          | cons r rest =>
            left
            obtain ⟨fl, hI⟩ := hG
            have hI' : PIo s.cfg fl { s with siteCnt := [] } := hI.frame rfl
            have hF' : FI none [] { s with siteCnt := [] } := hF.frame rfl
            have hrd := poll_reads table hI' hF' i r rest hqq
              (hripe r (by rw [hF.cons i, hqq]; simp))
            have ep : (applyOp s (.poll table)).1 = Backend.poll (runInj table) { s with siteCnt := [] } := by
              simp only [applyOp, hgone0]; rfl
            rw [ep] at ih e1 ⊢
            have e1' := congrArg List.length e1
            have : ({ s with siteCnt := [] } : BSt).th i = s.th i := rfl
            rw [this] at hrd
            rw [hqq] at hrd
            simp only [List.length_cons] at hrd ⊢
            omega
    · exact Or.inr ih

end Backend.PB
