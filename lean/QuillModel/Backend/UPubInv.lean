import QuillModel.Backend.UPub
/-!
The publication invariant along every operation list of the U machine: `GI (Tx none) c` is closed (`ClosedU`) when the
drain rule of `commit_read` is on, with its own proof of the read pass (the invariant is suspended for the context
being read and re-established by the `commit_read` that ends every read that consumed something).
-/
namespace Backend.US
open Backend Spsc Backend.PA Backend.UQ

variable {u : UP} {c : Cfg}

theorem pi_suspend {s : BSt} (h : GI (Tx none) c s) (i : Nat) : GI (Tx (some i)) c s :=
  ⟨h.ui, fun j => ⟨(h.t j).1, fun _ => (h.t j).2 (by simp)⟩, h.cfg⟩

theorem pi_resume {s : BSt} {i : Nat} (h : GI (Tx (some i)) c s) (hp : Pub (s.th i)) : GI (Tx none) c s :=
  ⟨h.ui, fun j => ⟨(h.t j).1, fun _ => by
    by_cases hj : j = i
    · rw [hj]; exact hp
    · exact (h.t j).2 (by simp [hj])⟩, h.cfg⟩

/-- an update of context `i` (the one being read) that keeps `TI` and the unread-buffers half -/
theorem pi_setThEx {s : BSt} {i : Nat} (h : GI (Tx (some i)) c s) (f : Th → Th) (hui : TI (s.th i) → TI (f (s.th i)))
    (hF : F (s.th i) → F (f (s.th i))) : GI (Tx (some i)) c (s.setTh i f) :=
  h.setTh i f hui (fun _ hT => ⟨hF hT.1, fun hne => absurd rfl hne⟩)

theorem pub_default : Pub (default : Th) := fun _ _ => rfl

theorem pi_commit (hdp : c.qp.drainPublish = true) {s : BSt} {i : Nat} (h : GI (Tx (some i)) c s) :
    GI (Tx none) c (commitReadU s i) := by
  have h1 : GI (Tx (some i)) c (commitReadU s i) := pi_setThEx h _ (fun ht => ht.commitRead s.cfg) (fun hf => hf)
  apply pi_resume h1
  unfold commitReadU
  rw [th_setTh]
  split
  · exact commit_Pub s.cfg (by rw [h.cfg]; exact hdp) _ (h.ui.th i)
  · next hc =>
    have : s.th i = default := th_default_of_ge s i (by
      by_cases hi : i < s.ths.length
      · exact absurd ⟨rfl, hi⟩ hc
      · omega)
    rw [this]; exact pub_default

theorem readOneU_th (s : BSt) (i : Nat) (st : Stmt) (rest : List Stmt) (j : Nat) :
    (readOneU s i st rest).th j =
      if j = i ∧ j < s.ths.length then
        { uFinishRead s.cfg (s.th j) st.size with qStmts := rest, buf := (s.th j).buf ++ [st] } else s.th j := by
  unfold readOneU
  dsimp only
  split <;> rw [th_setTh] <;> rfl

/-- the read pass of context `i` under the publication invariant -/
theorem pi_readQ (hdp : c.qp.drainPublish = true) (table : List (Nat × Nat × List UFOp)) (tsNow : Option Nat) (i qcap0 : Nat) :
    ∀ (fuel total : Nat) (s : BSt), GI (Tx (some i)) c s → (total = 0 → Pub (s.th i)) →
      GI (Tx none) c (readQueueU u (runInjU u table) tsNow i qcap0 fuel total s)
  | 0, total, s, h, hp => by
    unfold readQueueU
    split
    · exact pi_commit hdp h
    · next ht => exact pi_resume h (hp (by simpa using ht))
  | fuel + 1, total, s, h, hp => by
    unfold readQueueU
    dsimp only
    have hnote : ∀ (l : List (Nat × Nat)) (x : BSt), GI (Tx (some i)) c x →
        GI (Tx (some i)) c (l.foldl (fun x p => x.emit (allocNote p)) x) ∧
        (l.foldl (fun x p => x.emit (allocNote p)) x).th i = x.th i := by
      intro l
      induction l with
      | nil => exact fun x hx => ⟨hx, rfl⟩
      | cons p l ih =>
        intro x hx
        obtain ⟨a, b⟩ := ih (x.emit (allocNote p)) (hx.aux rfl rfl rfl)
        exact ⟨a, b⟩
    -- the state after `_read_unbounded_frontend_queue`
    have hsR : GI (Tx (some i)) c (s.setTh i (fun t => (uRead s.cfg u.follow (t.more.length + 1) t).1)) :=
      pi_setThEx h _ (fun ht => (uRead_spec s.cfg u.follow _ _ ht (by omega)).ti ht)
        (fun hf => (uRead_FP s.cfg u.follow _ _ hf).1)
    have hsRp : total = 0 → Pub ((s.setTh i (fun t => (uRead s.cfg u.follow (t.more.length + 1) t).1)).th i) := by
      intro ht
      rw [th_setTh]
      split
      · exact (uRead_FP s.cfg u.follow _ _ (h.t i).1).2 (hp ht)
      · exact hp ht
    obtain ⟨hR, hRth⟩ := hnote (uRead s.cfg u.follow ((s.th i).more.length + 1) (s.th i)).2.2 _ hsR
    have hfin : ∀ x : BSt, GI (Tx (some i)) c x → (total = 0 → Pub (x.th i)) →
        GI (Tx none) c (if total ≠ 0 then commitReadU x i else x) := by
      intro x hx hxp
      split
      · exact pi_commit hdp hx
      · next ht => exact pi_resume hx (hxp (by simpa using ht))
    have hRp : total = 0 → Pub ((List.foldl (fun x p => x.emit (allocNote p))
        (s.setTh i fun t => (uRead s.cfg u.follow (t.more.length + 1) t).1)
        (uRead s.cfg u.follow ((s.th i).more.length + 1) (s.th i)).2.2).th i) := by
      intro ht; rw [hRth]; exact hsRp ht
    split
    · exact hfin _ hR hRp
    · next hoff =>
      split
      · exact hfin _ hR hRp
      · next st rest hq =>
        have hpos : 0 < st.size := ccoh_pos _ _ _ (h.ui.th i).coh st (by rw [hq]; simp)
        split <;>
        · split
          · exact hfin _ hR hRp
          · have hstep : GI (Tx (some i)) c
                (readOneU (s.setTh i (fun t => (uRead s.cfg u.follow (t.more.length + 1) t).1)) i st rest) := by
              refine ⟨h.ui.readStep u i st rest hq (by simpa using hoff), fun j => ?_, ?_⟩
              · rw [readOneU_th]
                split
                · next hc => rw [hc.1]; exact ⟨(hsR.t i).1, fun hne => absurd rfl hne⟩
                · exact hsR.t j
              · unfold readOneU; dsimp only; split <;> exact h.cfg
            have h3 := (hnote (uRead s.cfg u.follow ((s.th i).more.length + 1) (s.th i)).2.2 _ hstep).1
            have h4 := GI.runInjU (tx_closed u (some i)) table _ 3 (show GI (Tx (some i)) c (fmtNote _ st) by
              unfold fmtNote
              split
              · exact h3.aux rfl rfl rfl
              · exact h3)
            split
            · exact pi_readQ hdp table _ i qcap0 fuel _ _ h4 (fun h0 => by omega)
            · exact pi_commit hdp h4

/-- **the publication invariant is closed under the U machine** -/
theorem pi_closed (u : UP) (c : Cfg) (hdp : c.qp.drainPublish = true) : ClosedU u (GI (Tx none) c) where
  aux := fun _ _ h h1 h2 h3 => h.aux h1 h2 h3
  emptyT := fun s i h => h.setTh i _ (fun ht => ht.emptyTest s.cfg)
    (fun _ hT => ⟨hT.1, fun hne hq hm => (rp_empty s.cfg _).k (hT.2 hne hq hm)⟩)
  dropT := fun _ i h => h.setTh i _ (fun ht => ht.same rfl rfl rfl rfl rfl rfl) (fun _ hT => hT)
  popT := fun _ i st rest h hb => h.setTh i _ (fun ht => ht.pop st rest hb) (fun _ hT => hT)
  front := fun _ f h => h.frontU (tx_closed u none) f
  readQ := fun table tsNow i qcap0 fuel s h =>
    pi_readQ hdp table tsNow i qcap0 fuel 0 s (pi_suspend h i) (fun _ => (h.t i).2 (by simp))

end Backend.US
