import QuillModel.Backend.DrainTerminate
/-!
The exit loop without the fuel constant (helper lemmas for C07, `Props/C07Unbounded.lean`).

`exitLoop inj tick fuel` is the model's rendering of the unbounded `while` loop of `_exit()`. Once the loop has reached
its "everything is empty" branch within `n` iterations (`exitEnds … n`), more fuel changes nothing: for all
`fuel, fuel' ≥ n` the results coincide (`exitLoop_stable`). So the value of the *unbounded* loop is the common value
`exitLimit` of all sufficiently large fuels, and `exitBound tick s = pending + grace / tick + 1` is an explicit `n` for
every reachable state and every `tick > 0` (`exit_terminates_any_tick`).
-/
namespace Backend.PC
open Backend

/-- more fuel keeps the loop ending -/
theorem exitEnds_mono (inj : BSt → Nat → BSt) (tick : Nat) :
    ∀ (n m : Nat) (s : BSt), n ≤ m → exitEnds inj tick n s → exitEnds inj tick m s
  | 0, _, _, _, he => by cases he
  | n + 1, 0, _, hle, _ => by omega
  | n + 1, m + 1, s, hle, he => by
    rcases he with he | ⟨he, hrest⟩
    · exact Or.inl he
    · exact Or.inr ⟨he, exitEnds_mono inj tick n m _ (by omega) hrest⟩

/-- **the fuel is immaterial once the loop ends**: if the loop reaches its final branch within `n` iterations, every
    fuel `≥ n` gives the result of fuel `n` (any injection runner, any tick) -/
theorem exitLoop_stable_ge (inj : BSt → Nat → BSt) (tick : Nat) :
    ∀ (n fuel : Nat) (s : BSt), exitEnds inj tick n s → n ≤ fuel → exitLoop inj tick fuel s = exitLoop inj tick n s
  | 0, _, _, he, _ => by cases he
  | n + 1, 0, _, _, hle => by omega
  | n + 1, fuel + 1, s, he, hle => by
    rw [exitLoop_succ, exitLoop_succ]
    rcases he with he | ⟨he, hrest⟩
    · simp only [he, if_true]
    · simp only [he, Bool.false_eq_true, if_false]
      exact exitLoop_stable_ge inj tick n fuel _ hrest (by omega)

theorem exitLoop_stable (inj : BSt → Nat → BSt) (tick n fuel fuel' : Nat) (s : BSt) (he : exitEnds inj tick n s)
    (h1 : n ≤ fuel) (h2 : n ≤ fuel') : exitLoop inj tick fuel s = exitLoop inj tick fuel' s := by
  rw [exitLoop_stable_ge inj tick n fuel s he h1, exitLoop_stable_ge inj tick n fuel' s he h2]

/-- iterations after which the exit loop has certainly ended: one per pending record, plus the iterations needed
    for the clock (advancing by `tick` per iteration) to pass the grace period, plus the final one -/
def exitBound (tick : Nat) (s : BSt) : Nat := pendingTotal s + s.cfg.grace / tick + 1

/-- the value of the unbounded loop: the common result of every fuel `≥ exitBound` -/
def exitLimit (inj : BSt → Nat → BSt) (tick : Nat) (s : BSt) : BSt := exitLoop inj tick (exitBound tick s) s

theorem grace_lt_ticks (g tick : Nat) (ht : 0 < tick) : g < (g / tick + 1) * tick := by
  have h1 := Nat.div_add_mod g tick
  have h2 := Nat.mod_lt g ht
  have h3 : (g / tick + 1) * tick = tick * (g / tick) + tick := by
    rw [Nat.add_mul, Nat.one_mul, Nat.mul_comm]
  omega

/-- **termination for every tick.** In every state satisfying the ordering invariant whose pending timestamps are
    not in the future, with the frontend stopped (quiet runner) and any `tick > 0`, the exit loop ends within
    `exitBound tick s` iterations. -/
theorem exit_terminates_tick {inj : BSt → Nat → BSt} (hq : PB.Quiet inj) (tick : Nat) (ht : 0 < tick) {c : Cfg} {fl : Nat}
    {s : BSt} (h : PB.PIo c fl s) (hc : s.cfg = c) (hle : ∀ j, ∀ r ∈ PB.chain (s.th j), r.ts ≤ s.now) :
    exitEnds inj tick (exitBound tick s) s := by
  apply exit_terminates hq tick s.now c (exitBound tick s) (s.cfg.grace / tick) fl s h hle
  · have := grace_lt_ticks s.cfg.grace tick ht
    rw [← hc]; omega
  · unfold exitBound
    rw [pendingCount_eq_total]; omega

end Backend.PC
