import QuillModel.Backend.USkel
import QuillModel.Backend.UThread
import QuillModel.Backend.ConsProofsCoreFront
/-!
The conservation invariant of the unbounded-queue machine (`UI`: every context satisfies `TI` — conservation and chain
coherence —, the header is not empty, every parked statement has a positive size) is closed under every primitive of
the skeleton (`Backend/USkel.lean`), hence holds along every operation list.
-/
namespace Backend.US
open Backend Spsc Backend.PA Backend.UQ

structure UI (s : BSt) : Prop where
  hdr : 0 < s.cfg.hdr
  th : ∀ i, TI (s.th i)
  pend : ∀ x ∈ s.actors, ∀ st, pendStmt x.pend = some st → 0 < st.size

theorem UI.aux {s s' : BSt} (h : UI s) (h1 : s'.cfg = s.cfg) (h2 : s'.ths = s.ths) (h3 : s'.actors = s.actors) : UI s' :=
  ⟨h1 ▸ h.hdr, fun i => by rw [th_of_ths_eq h2]; exact h.th i, fun x hx => h.pend x (h3 ▸ hx)⟩

theorem UI.setTh {s : BSt} (h : UI s) (i : Nat) (f : Th → Th) (hf : TI (s.th i) → TI (f (s.th i))) : UI (s.setTh i f) :=
  ⟨h.hdr, forall_th_setTh s i f h.th hf, h.pend⟩

theorem UI.setActor {s : BSt} (h : UI s) (a : Nat) (f : Actor → Actor)
    (hp : ∀ x ∈ s.actors, ∀ st, pendStmt (f x).pend = some st → 0 < st.size) : UI (s.setActor a f) := by
  refine ⟨h.hdr, h.th, ?_⟩
  intro y hy st hst
  obtain ⟨x, hx, rfl⟩ := mem_setActor hy
  split at hst
  · exact hp x hx st hst
  · exact h.pend x hx st hst

theorem UI.setPend {s : BSt} (h : UI s) (a : Nat) (p : Pend) (hp : ∀ st, pendStmt p = some st → 0 < st.size) :
    UI (s.setActor a (fun x => { x with pend := p })) :=
  h.setActor a _ (fun _ _ st hst => hp st hst)

/-- an actor update that leaves the pending call alone -/
theorem UI.setActorMisc {s : BSt} (h : UI s) (a : Nat) (f : Actor → Actor) (hf : ∀ x, (f x).pend = x.pend) :
    UI (s.setActor a f) :=
  h.setActor a f (fun x hx st hst => h.pend x hx st (by rw [← hf x]; exact hst))

theorem UI.ensureCtx {s : BSt} (h : UI s) (a : Nat) : UI (ensureCtx s a).1 := by
  unfold Backend.ensureCtx
  split
  · exact h
  · dsimp only
    refine UI.setActorMisc ?_ a _ (fun _ => rfl)
    refine ⟨h.hdr, fun j => ?_, h.pend⟩
    rw [th_append]
    split
    · exact TI.mkTh _ _
    · exact h.th j

theorem UI.tryEnqU {s : BSt} (h : UI s) (u : UP) (ci : Nat) (st : Stmt) (hsz : 0 < st.size) : UI (tryEnqU u s ci st).1 := by
  unfold Backend.tryEnqU
  dsimp only
  split
  · exact h.setTh ci _ (fun ht => TI.enq ht s.cfg u.qmax { st with enqAt := s.now } hsz)
  · exact h.setTh ci _ (fun ht => ht.prepareWrite s.cfg u.qmax st.size)

theorem UI.afterEnq {s : BSt} (h : UI s) (a : Nat) (st : Stmt) (cont : Nat) : UI (afterEnq s a st cont).1 := by
  unfold Backend.afterEnq
  split
  · exact h.setPend a _ (fun st hst => by simp [pendStmt] at hst)
  · exact h.aux rfl rfl rfl
  · exact h
  · exact (h.aux (s' := { s.setLg st.lg (fun l => { l with valid := false }) with hasInvalidLoggers := true }) rfl rfl rfl).setPend a _
      (fun st hst => by simp [pendStmt] at hst)
  · exact h

theorem UI.bump {s : BSt} (h : UI s) (ci : Nat) (d1 d2 : Nat) :
    UI (s.setTh ci (fun t => { t with fail := t.fail + 1, discarded := t.discarded + d1, blockedCalls := t.blockedCalls + d2 })) :=
  h.setTh ci _ (fun ht => ht.same rfl rfl rfl rfl rfl rfl)

theorem UI.enqFlowU {s : BSt} (h : UI s) (u : UP) (a : Nat) (st : Stmt) (cont : Nat) (first initial : Bool)
    (hsz : 0 < st.size) : UI (enqFlowU u s a st cont first initial).1 := by
  unfold Backend.enqFlowU
  have h1 := h.ensureCtx a
  generalize Backend.ensureCtx s a = r1 at h1
  obtain ⟨s1, ci⟩ := r1
  dsimp only at h1 ⊢
  have h2 := h1.tryEnqU u ci st hsz
  generalize Backend.tryEnqU u s1 ci st = r2 at h2
  obtain ⟨s2, g⟩ := r2
  dsimp only at h2 ⊢
  have hnone : ∀ x : BSt, UI x → UI (x.setActor a (fun y => { y with pend := .none })) :=
    fun x hx => hx.setPend a _ (fun st hst => by simp [pendStmt] at hst)
  have hretry : ∀ x : BSt, UI x → UI (x.setActor a (fun y => { y with pend := .retry st cont })) :=
    fun x hx => hx.setPend a _ (fun st' hst => by simp only [pendStmt, Option.some.injEq] at hst; rw [← hst]; exact hsz)
  have hb : ∀ (d1 d2 : Nat) (x : BSt), UI x → UI (if isLogKind st.kind then
      x.setTh ci (fun t => { t with fail := t.fail + 1, discarded := t.discarded + d1,
                                    blockedCalls := t.blockedCalls + d2 }) else x) := by
    intro d1 d2 x hx
    split
    · exact hx.bump ci _ _
    · exact hx
  cases g with
  | grant => exact (hnone _ h2).afterEnq a st cont
  | throw => exact hnone _ h2
  | null =>
    dsimp only
    split
    · split
      · exact hnone _ (hb _ _ _ h2)
      · exact hretry _ (hb _ _ _ h2)
    · apply hretry
      split
      · exact hb _ _ _ h2
      · exact h2

theorem UI.frontCallU {s : BSt} (h : UI s) (u : UP) (a lgi : Nat) (kind : Kind) (lvl len cont : Nat) (dyn : Bool)
    (id : Nat) (named : Bool) : UI (frontCallU u s a lgi kind lvl len cont dyn id named).1 := by
  unfold Backend.frontCallU
  dsimp only
  have hsz := stmtSize_pos s.cfg kind id len dyn (s.lgOf lgi).gid h.hdr
  split
  · exact h.setActor a _ (fun x hx st hst => by
      simp only [pendStmt, Option.some.injEq] at hst; rw [← hst]; exact hsz)
  · exact h.enqFlowU u a _ cont true true hsz

theorem UI.resumeU {s : BSt} (h : UI s) (u : UP) (a : Nat) : UI (resumeU u s a).1 := by
  unfold Backend.resumeU
  split
  · next st cont hp =>
    have hx : ∃ x, s.actor a = some x ∧ x.pend = .stall st cont := by
      cases hs : s.actor a with
      | none => rw [hs] at hp; cases hp
      | some x => rw [hs] at hp; exact ⟨x, rfl, by simpa using hp⟩
    obtain ⟨x, hxa, hxp⟩ := hx
    exact h.enqFlowU u a st cont true false (h.pend x (actor_some hxa).1 st (by rw [hxp]; rfl))
  · next st cont hp =>
    have hx : ∃ x, s.actor a = some x ∧ x.pend = .retry st cont := by
      cases hs : s.actor a with
      | none => rw [hs] at hp; cases hp
      | some x => rw [hs] at hp; exact ⟨x, rfl, by simpa using hp⟩
    obtain ⟨x, hxa, hxp⟩ := hx
    have hsz := h.pend x (actor_some hxa).1 st (by rw [hxp]; rfl)
    split
    · exact h.enqFlowU u a { st with ts := s.now } cont true false hsz
    · exact h.enqFlowU u a st cont false false hsz
  · split
    · exact h.setPend a _ (fun st hst => by simp [pendStmt] at hst)
    · exact h
  · exact h

theorem UI.noteCall {r : BSt × String} (h : UI r.1) (a gid : Nat) : UI (noteCall r a gid).1 := by
  unfold Backend.noteCall
  exact h.setActorMisc a _ (fun _ => rfl)

theorem UI.withLogger {s : BSt} (h : UI s) (a gid : Nat) (k : Nat → BSt × String) (hk : ∀ lgi, UI (k lgi).1) :
    UI (withLogger s a gid k).1 := by
  unfold Backend.withLogger
  split
  · exact UI.noteCall (hk _) a gid
  · exact h

end Backend.US
