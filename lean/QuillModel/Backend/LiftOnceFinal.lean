import QuillModel.Backend.LiftOnceFinalCfg
/-!
`WInvS lv n T s`: `WInv` with a witness that stays related to the current state. For every popped ordinary statement
tracked by `T`, the pop-time state `s'` of `WInv` additionally satisfies `CfgLe lv s' s` (same sink ids / filters / fault
schedules, same sink lists of the loggers that existed — and, for `lv = true`, same sink levels) and has at least `n`
loggers. It is closed under every primitive, and under the frontend operations `lvAllowed lv` (all of them for
`lv = false`; all but `setSinkLevel` for `lv = true`).

`WInvS.final`: with `lv = true`, no `write_log` fault scheduled and the statement's logger among the first `n`, the count in
the whole history is the acceptance decision read off the CURRENT state.
-/
namespace Backend.PA
open Backend Spsc

structure WInvS (lv : Bool) (n : Nat) (T : Nat → Stmt → Prop) (s : BSt) : Prop where
  inv : Inv s
  len : n ≤ s.lgs.length
  dec : ∀ (i : Nat) (st : Stmt), st ∈ (s.th i).popped → isOrd st = true → T i st →
    ∃ s', Inv s' ∧ n ≤ s'.lgs.length ∧ (s'.th i).buf.head? = some st ∧ CfgLe lv s' s ∧
      ∀ sid, wcount s.log sid st.id = dispatchCount s' st sid

variable {lv : Bool} {n : Nat} {T : Nat → Stmt → Prop}

theorem WInvS.quiet {s s' : BSt} (h : WInvS lv n T s) (hi : Inv s') (hp : PSame s s')
    (hl : ∃ evs, s'.log = evs ++ s.log ∧ ∀ e ∈ evs, isWriteEv e = false) (hc : CfgLe lv s s') : WInvS lv n T s' := by
  obtain ⟨evs, he, hn⟩ := hl
  refine ⟨hi, Nat.le_trans h.len hc.lgsLe, fun i st hm ho ht => ?_⟩
  rw [hp.eq i] at hm
  obtain ⟨x, hx1, hxn, hx2, hxc, hx3⟩ := h.dec i st hm ho ht
  refine ⟨x, hx1, hxn, hx2, hxc.trans hc, fun sid => ?_⟩
  rw [he, wcount_nowrite hn]
  exact hx3 sid

theorem WInvS.closedOn (lv : Bool) (n : Nat) (T : Nat → Stmt → Prop) : ClosedOn (lvAllowed lv) (WInvS lv n T) where
  frame := fun s s' h f => h.quiet (Inv.closed.frame s s' h.inv f) (PSame.of_ths f.ths) f.log (CfgLe.of_frame lv f)
  refresh := fun s h => h.quiet (Inv.closed.refresh s h.inv) (by unfold refreshCache; split <;> exact PSame.of_ths rfl)
    (by unfold refreshCache; split <;> exact ⟨[], rfl, by simp⟩) (CfgLe.refresh lv s)
  ctxEmpty := fun s i h => h.quiet (Inv.closed.ctxEmpty s i h.inv) (by rw [ctxEmpty_fst]; exact PSame.setTh _ _ _ (fun _ => rfl))
    ⟨[], rfl, by simp⟩ (CfgLe.ctxEmpty lv s i)
  dropCtx := fun s i h hv he hz => h.quiet (Inv.closed.dropCtx s i h.inv hv he hz)
    ((by rw [ctxEmpty_fst]; exact PSame.setTh _ _ _ (fun _ => rfl) : PSame s (ctxEmpty s i).1).trans (dropCtx_ps _ i))
    ⟨[], rfl, by simp⟩ (CfgLe.dropCtx lv s i)
  prepRead := fun s i h => h.quiet (Inv.closed.prepRead s i h.inv) (PSame.setTh _ _ _ (fun _ => rfl)) ⟨[], rfl, by simp⟩
    (CfgLe.of_eq lv rfl rfl)
  commitRead := fun s i h => h.quiet (Inv.closed.commitRead s i h.inv) (PSame.setTh _ _ _ (fun _ => rfl)) ⟨[], rfl, by simp⟩
    (CfgLe.of_eq lv rfl rfl)
  readOne := fun s i st rest h hq hr => h.quiet (Inv.closed.readOne s i st rest h.inv hq hr) (readOne_ps s i st rest)
    (by unfold PA.readOne; dsimp only; split <;> exact ⟨[], rfl, by simp⟩) (CfgLe.readOne lv s i st rest)
  pop := fun s j st rest h hb => by
    have hI := Inv.closed.pop s j st rest h.inv hb
    have hC := CfgLe.pop lv s j st rest
    obtain ⟨hbuf, hpop, _, hoth⟩ := popStep_pops s j st rest hb
    have hstm : st ∈ (s.th j).buf ++ (s.th j).qStmts := by rw [hb]; simp
    refine ⟨hI, Nat.le_trans h.len hC.lgsLe, fun i x hx hox htx => ?_⟩
    have hcase : x ∈ (s.th i).popped ∨ (i = j ∧ x = st) := by
      by_cases hij : i = j
      · subst hij
        rw [hpop] at hx
        rcases List.mem_append.mp hx with h1 | h1
        · exact Or.inl h1
        · exact Or.inr ⟨rfl, by simpa using h1⟩
      · rw [hoth i hij] at hx; exact Or.inl hx
    rcases hcase with hold | ⟨hij, hxs⟩
    · obtain ⟨y, hy1, hyn, hy2, hyc, hy3⟩ := h.dec i x hold hox htx
      refine ⟨y, hy1, hyn, hy2, hyc.trans hC, fun sid => ?_⟩
      obtain ⟨evs, he, hev⟩ := popStep_log_ext h.inv j st rest sid
      have h0 : wcount evs sid x.id = 0 := by
        apply hev
        intro hc
        exact h.inv.popped_ne_unpopped hold hox hstm hc.1 hc.2
      rw [he, wcount_append, h0, Nat.zero_add]
      exact hy3 sid
    · subst hij; subst hxs
      refine ⟨s, h.inv, h.len, by rw [hb]; rfl, hC, fun sid => ?_⟩
      exact popStep_wcount_eq h.inv i x rest hb hox sid
  failReset := fun s i h hf => h.quiet (Inv.closed.failReset s i h.inv hf)
    (by unfold PA.failReset
        exact (PSame.setTh s i (fun t => { t with fail := 0 }) (fun _ => rfl)).trans (PSame.of_ths rfl))
    (by unfold PA.failReset; exact ⟨[_], rfl, by simp [isWriteEv]⟩) (CfgLe.failReset lv s i)
  front := fun s f ha h => h.quiet (Inv.closed.front s f h.inv) (applyFront_ps s f) (applyFront_ffr s f).log
    (CfgLe.front s f (lvAllowed_spec ha))

theorem lvAllowed_false (f : FOp) : lvAllowed false f = true := rfl

theorem opsAllowed_false (ops : List Op) : opsAllowed (lvAllowed false) ops = true := by
  have ht : ∀ table : List (Nat × Nat × List FOp), tableAllowed (lvAllowed false) table = true := by
    intro table
    simp [tableAllowed, lvAllowed]
  simp only [opsAllowed, List.all_eq_true]
  intro o _
  cases o with
  | front f => rfl
  | poll table => exact ht table
  | exit => rfl

/-- the strengthened witness is an invariant of EVERY schedule (levels not compared) -/
theorem WInvS.run {s : BSt} (h : WInvS false n T s) (ops : List Op) : WInvS false n T (runOps s ops) :=
  runOps_closedOn (WInvS.closedOn false n T) ops (opsAllowed_false ops) s h

/-- … and, with levels compared, of every schedule without `setSinkLevel` -/
theorem WInvS.runL {s : BSt} (h : WInvS true n T s) (ops : List Op) (ho : opsAllowed (lvAllowed true) ops = true) :
    WInvS true n T (runOps s ops) :=
  runOps_closedOn (WInvS.closedOn true n T) ops ho s h

theorem WInvS.of_start {s : BSt} (h : Inv s) (hp : ∀ i, (s.th i).popped = []) :
    WInvS lv s.lgs.length (fun _ _ => True) s :=
  ⟨h, Nat.le_refl _, fun i st hm _ _ => by rw [hp i] at hm; cases hm⟩

/-- start in the middle of a run: track the statements not popped yet -/
theorem WInvS.of_mid {s : BSt} (h : Inv s) : WInvS lv s.lgs.length (fun i st => st ∉ (s.th i).popped) s :=
  ⟨h, Nat.le_refl _, fun _ _ hm _ ht => absurd hm ht⟩

/-! ### the decision without `write_log` faults -/

theorem dispatchCountAux_nofault (s : BSt) (st : Stmt) (sid : Nat) : ∀ (l : List Nat) (s' : BSt),
    (∀ k, acc s' st k = acc s st k) → NoWriteFault s' →
    dispatchCountAux st sid s' l = (l.filter (acc s st)).count sid
  | [], _, _, _ => rfl
  | k :: rest, s', ha, hf => by
    unfold dispatchCountAux
    have hk := ha k
    unfold acc at hk
    by_cases hacc : sinkAccepts (s.sinkOf k) st = true
    · rw [if_pos (hk.trans hacc), if_neg (by simp [throwsAt, hf k])]
      have hc : Core s' ((s'.setSink k (fun _ => { s'.sinkOf k with wcalls := (s'.sinkOf k).wcalls + 1 })).emit
          (.write k st.id st.lvl st.ts st.named)) :=
        (Frame.setSinkCopy s' k { s'.sinkOf k with wcalls := (s'.sinkOf k).wcalls + 1 }
          ⟨rfl, rfl, rfl, rfl, rfl, rfl⟩).core.trans (Core.emit _ _)
      rw [dispatchCountAux_nofault s st sid rest _ (fun j => (acc_core hc st j).trans (ha j)) (hf.of_core hc),
        List.filter_cons_of_pos (by exact hacc), List.count_cons]
      by_cases e : k = sid <;> simp [e] <;> omega
    · rw [if_neg (by rw [hk]; exact hacc), List.filter_cons_of_neg (by exact hacc)]
      exact dispatchCountAux_nofault s st sid rest s' ha hf

/-- without a scheduled `write_log` fault the dispatch writes once per listed occurrence of an accepting sink -/
theorem dispatchCount_nofault (s : BSt) (st : Stmt) (sid : Nat) (hf : NoWriteFault s) :
    dispatchCount s st sid = ((s.lgOf st.lg).sinks.filter (acc s st)).count sid :=
  dispatchCountAux_nofault s st sid _ s (fun _ => rfl) hf

theorem acc_cfgLe {a b : BSt} (h : CfgLe true a b) (st : Stmt) (k : Nat) : acc b st k = acc a st k := by
  unfold acc sinkAccepts
  rw [h.lvl rfl k, (h.sinks k).2.1, (h.sinks k).2.2.1]

/-- **the decision readable in the current state.** -/
theorem WInvS.final {s : BSt} (h : WInvS true n T s) (hf : NoWriteFault s) (i : Nat) (st : Stmt)
    (hm : st ∈ (s.th i).popped) (ho : isOrd st = true) (ht : T i st) (hlg : st.lg < n) (sid : Nat) :
    wcount s.log sid st.id = ((s.lgOf st.lg).sinks.filter (acc s st)).count sid := by
  obtain ⟨x, _, hxn, _, hxc, hx3⟩ := h.dec i st hm ho ht
  have hfx : NoWriteFault x := fun k => ((hxc.sinks k).2.2.2).symm.trans (hf k)
  rw [hx3 sid, dispatchCount_nofault x st sid hfx, hxc.lgs st.lg (Nat.lt_of_lt_of_le hlg hxn)]
  congr 2
  funext k
  exact (acc_cfgLe hxc st k).symm

end Backend.PA
