import QuillModel.Backend.Ops
/-!
Basic rewriting lemmas about the state accessors of the backend model (`th`/`setTh`, `lgOf`/`setLg`,
`sinkOf`/`setSink`, `setActor`, `emit`) and about the bounded-queue calls as the model issues them.
Used by the invariant proofs for C03 / C08 / C10.
-/
namespace Backend.PA
open Backend Spsc

/-! ### `updAt` -/

theorem updAt_length {α} (l : List α) (i : Nat) (f : α → α) : (updAt l i f).length = l.length := by
  simp [updAt]

theorem updAt_getD {α} (l : List α) (i j : Nat) (f : α → α) (d : α) :
    (updAt l i f).getD j d = if j = i ∧ j < l.length then f (l.getD j d) else l.getD j d := by
  unfold updAt
  simp only [List.getD_eq_getElem?_getD, List.getElem?_mapIdx]
  by_cases hj : j < l.length
  · simp [hj]
  · have : l[j]? = none := by simp; omega
    simp [hj]

theorem updAt_of_ge {α} (l : List α) (i : Nat) (f : α → α) (h : l.length ≤ i) : updAt l i f = l := by
  apply List.ext_getElem (by simp [updAt])
  intro j h1 h2
  simp only [updAt, List.getElem_mapIdx]
  have : j ≠ i := by omega
  simp [this]

theorem updAt_append_left {α} (l r : List α) (i : Nat) (f : α → α) (h : i < l.length) :
    updAt (l ++ r) i f = updAt l i f ++ r := by
  apply List.ext_getElem (by simp [updAt])
  intro j h1 h2
  simp only [updAt, List.getElem_mapIdx]
  by_cases hj : j < l.length
  · rw [List.getElem_append_left hj, List.getElem_append_left (by simpa using hj)]
    simp
  · rw [List.getElem_append_right (by omega), List.getElem_append_right (by simp; omega)]
    have : j ≠ i := by omega
    simp [this]

/-- decomposition of an in-range update -/
theorem updAt_eq_take_drop {α} (l : List α) (i : Nat) (f : α → α) (h : i < l.length) :
    updAt l i f = l.take i ++ f l[i] :: l.drop (i + 1) := by
  apply List.ext_getElem?
  intro j
  simp only [updAt, List.getElem?_mapIdx]
  by_cases hj : j < i
  · rw [List.getElem?_append_left (by simp; omega)]
    have : j ≠ i := by omega
    simp [this, hj]
  · rw [List.getElem?_append_right (by simp; omega)]
    have hl : (List.take i l).length = i := by simp; omega
    rw [hl]
    by_cases hji : j = i
    · subst hji; simp [h]
    · obtain ⟨k, hk⟩ : ∃ k, j = i + 1 + k := ⟨j - i - 1, by omega⟩
      subst hk
      have : i + 1 + k - i = k + 1 := by omega
      simp [hji, this]

/-! ### threads -/

@[simp] theorem th_setTh (s : BSt) (i j : Nat) (f : Th → Th) :
    (s.setTh i f).th j = if j = i ∧ j < s.ths.length then f (s.th j) else s.th j := by
  simp only [BSt.th, BSt.setTh]; exact updAt_getD _ _ _ _ _

theorem th_setTh_self (s : BSt) (i : Nat) (f : Th → Th) (h : i < s.ths.length) :
    (s.setTh i f).th i = f (s.th i) := by simp [h]

theorem th_setTh_ne (s : BSt) (i j : Nat) (f : Th → Th) (h : j ≠ i) : (s.setTh i f).th j = s.th j := by
  simp [h]

theorem setTh_of_ge (s : BSt) (i : Nat) (f : Th → Th) (h : s.ths.length ≤ i) : s.setTh i f = s := by
  simp only [BSt.setTh, updAt_of_ge _ _ _ h]

@[simp] theorem setTh_ths_length (s : BSt) (i : Nat) (f : Th → Th) : (s.setTh i f).ths.length = s.ths.length := by
  simp [BSt.setTh, updAt_length]

theorem th_default_of_ge (s : BSt) (i : Nat) (h : s.ths.length ≤ i) : s.th i = default := by
  simp only [BSt.th, List.getD_eq_getElem?_getD]
  have : s.ths[i]? = none := by simp; omega
  simp [this]

/-- a per-thread predicate that the default thread satisfies survives an update that preserves it -/
theorem forall_th_setTh {Q : Th → Prop} (s : BSt) (i : Nat) (f : Th → Th)
    (h : ∀ j, Q (s.th j)) (hf : Q (s.th i) → Q (f (s.th i))) : ∀ j, Q ((s.setTh i f).th j) := by
  intro j
  rw [th_setTh]
  split
  · next hc => rw [hc.1]; exact hf (h i)
  · exact h j

/-! ### frame facts of the small setters (all `rfl`) -/

@[simp] theorem setTh_cfg (s : BSt) (i f) : (s.setTh i f).cfg = s.cfg := rfl
@[simp] theorem setTh_actors (s : BSt) (i f) : (s.setTh i f).actors = s.actors := rfl
@[simp] theorem setTh_lgs (s : BSt) (i f) : (s.setTh i f).lgs = s.lgs := rfl
@[simp] theorem setTh_sinks (s : BSt) (i f) : (s.setTh i f).sinks = s.sinks := rfl
@[simp] theorem setTh_log (s : BSt) (i f) : (s.setTh i f).log = s.log := rfl
@[simp] theorem setTh_registry (s : BSt) (i f) : (s.setTh i f).registry = s.registry := rfl
@[simp] theorem setTh_cache (s : BSt) (i f) : (s.setTh i f).cache = s.cache := rfl
@[simp] theorem setTh_nextId (s : BSt) (i f) : (s.setTh i f).nextId = s.nextId := rfl
@[simp] theorem setTh_popLog (s : BSt) (i f) : (s.setTh i f).popLog = s.popLog := rfl
@[simp] theorem setTh_reported (s : BSt) (i f) : (s.setTh i f).reported = s.reported := rfl
@[simp] theorem setTh_names (s : BSt) (i f) : (s.setTh i f).names = s.names := rfl
@[simp] theorem setTh_flags (s : BSt) (i f) : (s.setTh i f).flags = s.flags := rfl
@[simp] theorem setTh_lgOf (s : BSt) (i f j) : (s.setTh i f).lgOf j = s.lgOf j := rfl
@[simp] theorem setTh_sinkOf (s : BSt) (i f j) : (s.setTh i f).sinkOf j = s.sinkOf j := rfl
@[simp] theorem setTh_actor (s : BSt) (i f a) : (s.setTh i f).actor a = s.actor a := rfl

@[simp] theorem setActor_cfg (s : BSt) (a f) : (s.setActor a f).cfg = s.cfg := rfl
@[simp] theorem setActor_ths (s : BSt) (a f) : (s.setActor a f).ths = s.ths := rfl
@[simp] theorem setActor_th (s : BSt) (a f i) : (s.setActor a f).th i = s.th i := rfl
@[simp] theorem setActor_lgs (s : BSt) (a f) : (s.setActor a f).lgs = s.lgs := rfl
@[simp] theorem setActor_lgOf (s : BSt) (a f i) : (s.setActor a f).lgOf i = s.lgOf i := rfl
@[simp] theorem setActor_sinks (s : BSt) (a f) : (s.setActor a f).sinks = s.sinks := rfl
@[simp] theorem setActor_log (s : BSt) (a f) : (s.setActor a f).log = s.log := rfl
@[simp] theorem setActor_registry (s : BSt) (a f) : (s.setActor a f).registry = s.registry := rfl
@[simp] theorem setActor_cache (s : BSt) (a f) : (s.setActor a f).cache = s.cache := rfl
@[simp] theorem setActor_nextId (s : BSt) (a f) : (s.setActor a f).nextId = s.nextId := rfl
@[simp] theorem setActor_popLog (s : BSt) (a f) : (s.setActor a f).popLog = s.popLog := rfl
@[simp] theorem setActor_reported (s : BSt) (a f) : (s.setActor a f).reported = s.reported := rfl
@[simp] theorem setActor_names (s : BSt) (a f) : (s.setActor a f).names = s.names := rfl
@[simp] theorem setActor_flags (s : BSt) (a f) : (s.setActor a f).flags = s.flags := rfl

@[simp] theorem setLg_cfg (s : BSt) (i f) : (s.setLg i f).cfg = s.cfg := rfl
@[simp] theorem setLg_ths (s : BSt) (i f) : (s.setLg i f).ths = s.ths := rfl
@[simp] theorem setLg_th (s : BSt) (i f j) : (s.setLg i f).th j = s.th j := rfl
@[simp] theorem setLg_actors (s : BSt) (i f) : (s.setLg i f).actors = s.actors := rfl
@[simp] theorem setLg_actor (s : BSt) (i f a) : (s.setLg i f).actor a = s.actor a := rfl
@[simp] theorem setLg_sinks (s : BSt) (i f) : (s.setLg i f).sinks = s.sinks := rfl
@[simp] theorem setLg_sinkOf (s : BSt) (i f j) : (s.setLg i f).sinkOf j = s.sinkOf j := rfl
@[simp] theorem setLg_log (s : BSt) (i f) : (s.setLg i f).log = s.log := rfl
@[simp] theorem setLg_registry (s : BSt) (i f) : (s.setLg i f).registry = s.registry := rfl
@[simp] theorem setLg_cache (s : BSt) (i f) : (s.setLg i f).cache = s.cache := rfl
@[simp] theorem setLg_nextId (s : BSt) (i f) : (s.setLg i f).nextId = s.nextId := rfl
@[simp] theorem setLg_popLog (s : BSt) (i f) : (s.setLg i f).popLog = s.popLog := rfl
@[simp] theorem setLg_reported (s : BSt) (i f) : (s.setLg i f).reported = s.reported := rfl
@[simp] theorem setLg_names (s : BSt) (i f) : (s.setLg i f).names = s.names := rfl
@[simp] theorem setLg_flags (s : BSt) (i f) : (s.setLg i f).flags = s.flags := rfl
@[simp] theorem setLg_lgs_length (s : BSt) (i f) : (s.setLg i f).lgs.length = s.lgs.length := by
  simp [BSt.setLg, updAt_length]

@[simp] theorem lgOf_setLg (s : BSt) (i j : Nat) (f : Lg → Lg) :
    (s.setLg i f).lgOf j = if j = i ∧ j < s.lgs.length then f (s.lgOf j) else s.lgOf j := by
  simp only [BSt.lgOf, BSt.setLg]; exact updAt_getD _ _ _ _ _

@[simp] theorem setSink_cfg (s : BSt) (i f) : (s.setSink i f).cfg = s.cfg := rfl
@[simp] theorem setSink_ths (s : BSt) (i f) : (s.setSink i f).ths = s.ths := rfl
@[simp] theorem setSink_th (s : BSt) (i f j) : (s.setSink i f).th j = s.th j := rfl
@[simp] theorem setSink_actors (s : BSt) (i f) : (s.setSink i f).actors = s.actors := rfl
@[simp] theorem setSink_actor (s : BSt) (i f a) : (s.setSink i f).actor a = s.actor a := rfl
@[simp] theorem setSink_lgs (s : BSt) (i f) : (s.setSink i f).lgs = s.lgs := rfl
@[simp] theorem setSink_lgOf (s : BSt) (i f j) : (s.setSink i f).lgOf j = s.lgOf j := rfl
@[simp] theorem setSink_log (s : BSt) (i f) : (s.setSink i f).log = s.log := rfl
@[simp] theorem setSink_registry (s : BSt) (i f) : (s.setSink i f).registry = s.registry := rfl
@[simp] theorem setSink_cache (s : BSt) (i f) : (s.setSink i f).cache = s.cache := rfl
@[simp] theorem setSink_nextId (s : BSt) (i f) : (s.setSink i f).nextId = s.nextId := rfl
@[simp] theorem setSink_popLog (s : BSt) (i f) : (s.setSink i f).popLog = s.popLog := rfl
@[simp] theorem setSink_reported (s : BSt) (i f) : (s.setSink i f).reported = s.reported := rfl
@[simp] theorem setSink_names (s : BSt) (i f) : (s.setSink i f).names = s.names := rfl
@[simp] theorem setSink_flags (s : BSt) (i f) : (s.setSink i f).flags = s.flags := rfl

@[simp] theorem emit_cfg (s : BSt) (e) : (s.emit e).cfg = s.cfg := rfl
@[simp] theorem emit_ths (s : BSt) (e) : (s.emit e).ths = s.ths := rfl
@[simp] theorem emit_th (s : BSt) (e i) : (s.emit e).th i = s.th i := rfl
@[simp] theorem emit_actors (s : BSt) (e) : (s.emit e).actors = s.actors := rfl
@[simp] theorem emit_actor (s : BSt) (e a) : (s.emit e).actor a = s.actor a := rfl
@[simp] theorem emit_lgs (s : BSt) (e) : (s.emit e).lgs = s.lgs := rfl
@[simp] theorem emit_lgOf (s : BSt) (e i) : (s.emit e).lgOf i = s.lgOf i := rfl
@[simp] theorem emit_sinks (s : BSt) (e) : (s.emit e).sinks = s.sinks := rfl
@[simp] theorem emit_sinkOf (s : BSt) (e i) : (s.emit e).sinkOf i = s.sinkOf i := rfl
@[simp] theorem emit_log (s : BSt) (e) : (s.emit e).log = e :: s.log := rfl
@[simp] theorem emit_registry (s : BSt) (e) : (s.emit e).registry = s.registry := rfl
@[simp] theorem emit_cache (s : BSt) (e) : (s.emit e).cache = s.cache := rfl
@[simp] theorem emit_nextId (s : BSt) (e) : (s.emit e).nextId = s.nextId := rfl
@[simp] theorem emit_popLog (s : BSt) (e) : (s.emit e).popLog = s.popLog := rfl
@[simp] theorem emit_reported (s : BSt) (e) : (s.emit e).reported = s.reported := rfl
@[simp] theorem emit_names (s : BSt) (e) : (s.emit e).names = s.names := rfl
@[simp] theorem emit_flags (s : BSt) (e) : (s.emit e).flags = s.flags := rfl

/-! ### sinks: `sinkOf` after `setSink` -/

theorem find_map_sid (l : List Sink) (sid j : Nat) (f : Sink → Sink) (hf : ∀ k, k.sid = sid → (f k).sid = sid) :
    (l.map (fun x => if x.sid = sid then f x else x)).find? (·.sid = j) =
      (l.find? (·.sid = j)).map (fun x => if x.sid = sid then f x else x) := by
  induction l with
  | nil => rfl
  | cons x xs ih =>
    simp only [List.map_cons, List.find?_cons]
    by_cases hx : x.sid = sid
    · simp only [hx, if_true, hf x hx]
      by_cases hj : sid = j
      · simp [hj, hx]
      · simp only [hj, decide_false]
        simpa [hx] using ih
    · simp only [hx, if_false]
      by_cases hj : x.sid = j
      · simp only [hj, decide_true, Option.map_some]
        rw [if_neg (by omega)]
      · simp only [hj, decide_false]; exact ih

/-- `sinkOf` after an update that keeps the sink id -/
theorem sinkOf_setSink (s : BSt) (sid j : Nat) (f : Sink → Sink) (hf : ∀ k, k.sid = sid → (f k).sid = sid) :
    (s.setSink sid f).sinkOf j =
      if j = sid ∧ (s.sinks.find? (·.sid = j)).isSome then f (s.sinkOf j) else s.sinkOf j := by
  simp only [BSt.sinkOf, BSt.setSink, find_map_sid _ _ _ _ hf]
  cases hfd : s.sinks.find? (·.sid = j) with
  | none => simp
  | some k =>
    have hk : k.sid = j := by simpa using List.find?_some hfd
    by_cases hj : j = sid
    · simp [hj, hk ▸ hj]
    · have : ¬ k.sid = sid := by omega
      simp [hj, this]

/-- an update of a sink that is not in the list changes nothing -/
theorem setSink_absent (s : BSt) (sid : Nat) (f : Sink → Sink) (h : s.sinks.find? (·.sid = sid) = none) :
    s.setSink sid f = s := by
  have : s.sinks.map (fun x => if x.sid = sid then f x else x) = s.sinks := by
    have hall : ∀ x ∈ s.sinks, ¬ x.sid = sid := by
      intro x hx; simpa using List.find?_eq_none.mp h x hx
    calc s.sinks.map (fun x => if x.sid = sid then f x else x) = s.sinks.map id :=
          List.map_congr_left (fun x hx => by simp [hall x hx])
      _ = s.sinks := List.map_id _
  simp only [BSt.setSink, this]

theorem sinkOf_sid (s : BSt) (sid : Nat) (h : (s.sinks.find? (·.sid = sid)).isSome) : (s.sinkOf sid).sid = sid := by
  simp only [BSt.sinkOf]
  cases hfd : s.sinks.find? (·.sid = sid) with
  | none => simp [hfd] at h
  | some k => simpa using List.find?_some hfd

end Backend.PA
