import QuillModel.Backend.FlushGate
import QuillModel.Backend.FlushFront
/-!
The backend preserves the flush invariant `FI`: reading moves records from queue to buffer (FIFO), popping appends to
`popped` / `popLog`, a flag is raised only for a popped Flush statement or a decoded removal request.
-/
namespace Backend.PB
open Backend

variable {ex : Option Nat} {pf : List Nat} {s : BSt}

/-- a change of buffers / queues / popped lists that keeps `accepted`, given conservation afterwards -/
theorem FI.congrAP {pf' : List Nat} {s s' : BSt} (h : FI ex pf s)
    (hacc : ∀ i, (s'.th i).accepted = (s.th i).accepted)
    (hpopd : ∀ i, ∀ p ∈ (s.th i).popped, p ∈ (s'.th i).popped)
    (hcons : ∀ i, (s'.th i).accepted = (s'.th i).popped ++ (s'.th i).buf ++ (s'.th i).qStmts)
    (hplog : ∀ i, ∀ p ∈ (s'.th i).popped, p ∈ s'.popLog)
    (hact : ∀ a, pendOf s' a = pendOf s a) (hflags : s'.flags = s.flags)
    (hrem : s'.removalFlags = s.removalFlags) (hnf : s'.nextFlag = s.nextFlag)
    (hpf : ∀ f ∈ pf', f ∈ pf ∨ ∃ i, ∃ st ∈ (s'.th i).popped, st.kind = .flush f)
    (hsub : ∀ f ∈ pf, f ∈ pf')
    (hnew : ∀ i, ∀ st ∈ (s'.th i).popped, ∀ f, st.kind = .flush f → st ∈ (s.th i).popped ∨ f ∈ pf') :
    FI ex pf' s' where
  cons := hcons
  plog := hplog
  flg := fun f hf => by
    rw [hflags] at hf
    rcases h.flg f hf with ⟨i, st, h1, h2⟩ | ⟨i, st, h1, h2⟩
    · exact Or.inl ⟨i, st, hpopd i st h1, h2⟩
    · exact Or.inr ⟨i, st, by rw [hacc]; exact h1, h2⟩
  flgP := fun f hf => by
    rcases hpf f hf with h1 | h1
    · obtain ⟨i, st, h2, h3⟩ := h.flgP f h1
      exact ⟨i, st, hpopd i st h2, h3⟩
    · exact h1
  popFlag := fun i st hst f hk => by
    rcases hnew i st hst f hk with h1 | h1
    · rcases h.popFlag i st h1 f hk with h2 | h2
      · exact Or.inl (by rw [hflags]; exact h2)
      · exact Or.inr (hsub f h2)
    · exact Or.inr h1
  rem := fun gf hgf => by
    rw [hrem] at hgf
    obtain ⟨i, st, h1, h2⟩ := h.rem gf hgf
    exact ⟨i, st, by rw [hacc]; exact h1, h2⟩
  accLt := fun i => by rw [hacc, hnf]; exact h.accLt i
  accNodup := fun i => by rw [hacc]; exact h.accNodup i
  accDisj := fun i j => by rw [hacc, hacc]; exact h.accDisj i j
  pendFresh := fun a x st f hx hex hp hf => by
    rw [hact] at hx
    obtain ⟨p1, p2, p3⟩ := h.pendFresh a x st f hx hex hp hf
    refine ⟨by rw [hnf]; exact p1, fun i => by rw [hacc]; exact p2 i, fun b y st' hb hy => ?_⟩
    rw [hact] at hy; exact p3 b y st' hb hy

theorem FI.weakenPf {pf' : List Nat} (h : FI ex pf s) (hsub : ∀ f ∈ pf', f ∈ pf)
    (hfl : ∀ f ∈ pf, f ∈ pf' ∨ f ∈ s.flags) : FI ex pf' s :=
  { h with
    flgP := fun f hf => h.flgP f (hsub f hf)
    popFlag := fun i st hst f hk => by
      rcases h.popFlag i st hst f hk with h1 | h1
      · exact Or.inl h1
      · rcases hfl f h1 with h2 | h2
        · exact Or.inr h2
        · exact Or.inl h2 }

/-- raising a flag whose Flush statement has been popped -/
theorem FI.raise (h : FI ex pf s) (f : Nat) (hf : f ∈ pf) (fl : List (Nat × Nat)) :
    FI ex pf { s with flags := f :: s.flags, flagLog := fl } :=
  { h with
    flg := fun g hg => by
      rcases List.mem_cons.mp hg with rfl | hg
      · exact Or.inl (h.flgP g hf)
      · exact h.flg g hg
    popFlag := fun i st hst g hk => by
      rcases h.popFlag i st hst g hk with h1 | h1
      · exact Or.inl (List.mem_cons_of_mem _ h1)
      · exact Or.inr h1 }

/-- raising the flag of a decoded removal request -/
theorem FI.raiseRemoval (h : FI ex pf s) (gid f : Nat) (hm : (gid, f) ∈ s.removalFlags) (fl : List (Nat × Nat)) :
    FI ex pf { s with flags := f :: s.flags, flagLog := fl, removalFlags := s.removalFlags.filter (·.1 ≠ gid) } :=
  { h with
    flg := fun g hg => by
      rcases List.mem_cons.mp hg with rfl | hg
      · exact Or.inr (h.rem (gid, g) hm)
      · exact h.flg g hg
    popFlag := fun i st hst g hk => by
      rcases h.popFlag i st hst g hk with h1 | h1
      · exact Or.inl (List.mem_cons_of_mem _ h1)
      · exact Or.inr h1
    rem := fun gf hgf => h.rem gf (List.mem_filter.mp hgf).1 }

/-- decoding a removal request found in a queue -/
theorem FI.decode (h : FI ex pf s) (i : Nat) (st : Stmt) (hst : st ∈ (s.th i).accepted) (gid f : Nat)
    (hk : st.kind = .removal f) : FI ex pf { s with removalFlags := s.removalFlags ++ [(gid, f)] } :=
  { h with
    rem := fun gf hgf => by
      rcases List.mem_append.mp hgf with h1 | h1
      · exact h.rem gf h1
      · rw [List.mem_singleton.mp h1]; exact ⟨i, st, hst, hk⟩ }

/-- what the proofs assume of the injection runner -/
def InjOK2 (inj : BSt → Nat → BSt) : Prop := ∀ pf s site, FI none pf s → FI none pf (inj s site)

theorem injOK2_runInj (table : List (Nat × Nat × List FOp)) : InjOK2 (runInj table) :=
  fun _ _ site h => h.runInj table site

/-! ### helpers that only touch queues, caches, counters -/

theorem same2_refresh (s : BSt) : Same2 s (refreshCache s) := by
  unfold refreshCache; split
  · exact Same2.ofCore rfl
  · exact Same2.refl _

theorem same2_ctxEmpty (s : BSt) (i : Nat) : Same2 s (ctxEmpty s i).1 := by
  unfold ctxEmpty; exact Same2.setTh s i _ ⟨rfl, rfl, rfl, rfl⟩

theorem same2_fold {α β} (F : BSt × β → α → BSt × β) (l : List α) (acc : BSt × β)
    (hF : ∀ acc x, Same2 acc.1 (F acc x).1) : Same2 acc.1 (l.foldl F acc).1 := by
  induction l generalizing acc with
  | nil => exact Same2.refl _
  | cons x xs ih => rw [List.foldl_cons]; exact (hF acc x).trans (ih _)

theorem same2_setTh_of (s S : BSt) (hS : core2 S = core2 s) (i : Nat) (g : Th → Th) (hg : ∀ t, ThEq2 t (g t)) :
    Same2 s (S.setTh i g) := (Same2.ofCore hS).trans (Same2.setTh S i g (hg _))

theorem same2_allEmpty (s : BSt) : Same2 s (allEmpty s).1 := by
  unfold Backend.allEmpty
  exact (same2_refresh s).trans (same2_fold _ _ (refreshCache s, true) (fun acc x => same2_ctxEmpty acc.1 x))

theorem same2_hpStep (acc : BSt × Bool) (i : Nat) : Same2 acc.1 (hpStep acc i).1 := by
  unfold hpStep
  split
  · exact Same2.refl _
  · split
    · exact Same2.setTh _ _ _ ⟨rfl, rfl, rfl, rfl⟩
    · exact Same2.refl _

theorem same2_hasPending (s : BSt) : Same2 s (hasPending s).1 := by
  rw [hasPending_eq]
  exact (same2_refresh s).trans (same2_fold _ _ (refreshCache s, false) same2_hpStep)

theorem same2_findFirst (s : BSt) (l : List Nat) : Same2 s (cleanupContexts.go.findFirst s l).1 := by
  induction l generalizing s with
  | nil => exact Same2.refl _
  | cons x xs ih =>
    unfold cleanupContexts.go.findFirst
    split
    · exact ih s
    · simp only
      split
      · exact same2_ctxEmpty s x
      · exact (same2_ctxEmpty s x).trans (ih _)

theorem FI.reapSinksInj {inj : BSt → Nat → BSt} (hi : InjOK2 inj) (l : List Nat) (s : BSt) (h : FI none pf s) :
    FI none pf (reapSinksInj inj s l) := by
  unfold Backend.reapSinksInj
  apply foldl_inv (fun x : BSt => FI none pf x) _ _ _ h
  intro b sid hb
  split
  · apply hi
    exact hb.frame rfl
  · exact hb

theorem FI.cleanupLoggers {inj : BSt → Nat → BSt} (hi : InjOK2 inj) (h : FI none pf s) :
    FI none pf (cleanupLoggers inj s) := by
  unfold Backend.cleanupLoggers
  split
  · exact h
  · simp only
    apply foldl_inv (fun x : BSt => FI none pf x)
    · refine foldl_inv (fun acc : BSt × List Nat => FI none pf acc.1) _ _ _ (h.frame rfl) ?_
      intro acc i hacc
      split
      · exact hacc
      · split
        · exact FI.reapSinksInj hi _ _ ((hacc.same (same2_allEmpty _)).frame rfl)
        · exact (hacc.same (same2_allEmpty _)).frame rfl
    · intro b a hb
      split
      · rename_i g f hfind
        have hm := List.mem_of_find?_eq_some hfind
        have hg : g = a := by simpa using List.find?_some hfind
        subst hg
        exact hb.raiseRemoval g f hm _
      · exact hb

variable {inj : BSt → Nat → BSt}

theorem FI.checkFailures (hi : InjOK2 inj) (h : FI none pf s) : FI none pf (checkFailures inj s) := by
  unfold Backend.checkFailures
  apply foldl_inv (fun x : BSt => FI none pf x) _ _ _ h
  intro b i hb
  simp only
  split
  · apply hi
    exact (hb.same (Same2.setTh _ i _ ⟨rfl, rfl, rfl, rfl⟩)).frame rfl
  · exact hb

theorem same2_cleanupGo (fuel : Nat) (s : BSt) : Same2 s (cleanupContexts.go fuel s) := by
  induction fuel generalizing s with
  | zero => exact Same2.refl _
  | succ n ih =>
    unfold cleanupContexts.go
    have f1 := same2_findFirst s s.cache
    split
    · rename_i s1 heq; rw [heq] at f1; exact f1
    · rename_i s1 i heq; rw [heq] at f1
      refine f1.trans (Same2.trans ?_ (ih _))
      apply same2_setTh_of
      · rfl
      · intro t; exact ⟨rfl, rfl, rfl, rfl⟩

theorem same2_cleanupContexts (s : BSt) : Same2 s (Backend.cleanupContexts s) := by
  unfold Backend.cleanupContexts
  split
  · exact Same2.refl _
  · exact same2_cleanupGo _ _

theorem FI.cleanupContexts (h : FI none pf s) : FI none pf (Backend.cleanupContexts s) :=
  h.same (same2_cleanupContexts s)

theorem same2_rqCommit (s : BSt) (i : Nat) : Same2 s (rqCommit s i) := Same2.setTh s i _ ⟨rfl, rfl, rfl, rfl⟩
theorem same2_rqFin (s : BSt) (i total : Nat) : Same2 s (rqFin s i total) := by
  unfold rqFin; split
  · exact same2_rqCommit s i
  · exact Same2.refl _
theorem same2_rqPrep (s : BSt) (i : Nat) : Same2 s (rqPrep s i) := Same2.setTh s i _ ⟨rfl, rfl, rfl, rfl⟩

/-- a change of one context that keeps `accepted`, `popped` and conservation -/
theorem FI.moveTh (h : FI ex pf s) (i : Nat) (f : Th → Th)
    (hf : (f (s.th i)).accepted = (s.th i).accepted ∧ (f (s.th i)).popped = (s.th i).popped ∧
      (f (s.th i)).buf ++ (f (s.th i)).qStmts = (s.th i).buf ++ (s.th i).qStmts) : FI ex pf (s.setTh i f) := by
  obtain ⟨f1, f2, f3⟩ := hf
  have hcases : ∀ j, (s.setTh i f).th j = s.th j ∨ (j = i ∧ (s.setTh i f).th j = f (s.th i)) := by
    intro j; rcases th_setTh_cases s i j f with h1 | ⟨h1, _, h2⟩
    · exact Or.inl h1
    · exact Or.inr ⟨h1, h2⟩
  have hacc : ∀ j, ((s.setTh i f).th j).accepted = (s.th j).accepted := by
    intro j; rcases hcases j with h1 | ⟨rfl, h1⟩
    · rw [h1]
    · rw [h1, f1]
  have hpop : ∀ j, ((s.setTh i f).th j).popped = (s.th j).popped := by
    intro j; rcases hcases j with h1 | ⟨rfl, h1⟩
    · rw [h1]
    · rw [h1, f2]
  refine h.congrAP hacc (fun j p hp => by rw [hpop]; exact hp) ?_ (fun j p hp => by rw [hpop] at hp; exact h.plog j p hp)
    (fun _ => rfl) rfl rfl rfl (fun f hf => Or.inl hf) (fun f hf => hf)
    (fun j st hst f _ => Or.inl (by rw [hpop] at hst; exact hst))
  intro j
  rcases hcases j with h1 | ⟨rfl, h1⟩
  · rw [h1]; exact h.cons j
  · rw [h1, f1, f2, List.append_assoc, f3, ← List.append_assoc]; exact h.cons j

theorem FI.rqMove (h : FI none pf s) (i : Nat) (st : Stmt) (rest : List Stmt) (hq : (s.th i).qStmts = st :: rest) :
    FI none pf (rqMove s i st rest) := by
  suffices h0 : FI none pf (rqMove0 s i st rest) by
    unfold PB.rqMove fmtNote
    split
    · exact h0.frame rfl
    · exact h0
  unfold PB.rqMove0
  have hs1 := same2_rqPrep s i
  have h1 := h.same hs1
  have hq1 : ((rqPrep s i).th i).qStmts = st :: rest := by rw [(hs1.th i).q]; exact hq
  have hmem : st ∈ ((rqPrep s i).th i).accepted := by
    rw [h1.cons i, hq1]; simp
  have h2 : FI none pf (rqDecode (rqPrep s i) st) ∧ ((rqDecode (rqPrep s i) st).th i).qStmts = st :: rest := by
    unfold rqDecode
    split
    · rename_i f hk
      exact ⟨h1.decode i st hmem _ f hk, hq1⟩
    · exact ⟨h1, hq1⟩
  generalize rqDecode (rqPrep s i) st = s2 at h2
  refine h2.1.moveTh i _ ⟨rfl, rfl, ?_⟩
  show ((s2.th i).buf ++ [st]) ++ rest = _
  rw [h2.2]; simp

theorem FI.readQueue (hi : InjOK2 inj) (tsNow : Option Nat) (i : Nat) (fuel : Nat) :
    ∀ (total : Nat) (s : BSt), FI none pf s → FI none pf (Backend.readQueue inj tsNow i fuel total s) := by
  induction fuel with
  | zero => intro total s h; rw [readQueue_zero]; exact h.same (same2_rqFin s i total)
  | succ n ih =>
    intro total s h
    rw [readQueue_succ]
    have hfin := fun tot => (h.same (same2_rqPrep s i)).same (same2_rqFin _ i tot)
    split
    · exact hfin total
    · split
      · exact hfin total
      · rename_i st rest hq
        split
        · exact hfin total
        · have h4 := hi _ _ 3 (h.rqMove i st rest hq)
          split
          · exact ih _ _ h4
          · exact h4.same (same2_rqCommit _ i)

theorem processEvent_flush (s : BSt) (st : Stmt) (f : Nat) (hk : st.kind = .flush f) :
    processEvent s st = (flushSinks s, none, some f) := by
  unfold processEvent; rw [hk]

theorem processEvent_flag (s : BSt) (st : Stmt) (f : Nat) (h : (processEvent s st).2.2 = some f) : st.kind = .flush f := by
  unfold processEvent at h
  split at h
  · split at h
    · simp only at h
      split at h
      · cases h
      · split at h <;> cases h
    · split at h <;> cases h
  · cases h
  · cases h
  · rename_i g hk; simp only [Option.some.injEq] at h; rw [hk, h]
  · cases h

/-- the front of context `j` moves to `popped` (it is already in the global pop log) -/
theorem FI.popTh (h : FI none pf s) (j : Nat) (st : Stmt) (rest : List Stmt) (hb : (s.th j).buf = st :: rest)
    (hmem : st ∈ s.popLog) (pf' : List Nat) (hpf' : ∀ f ∈ pf', f ∈ pf ∨ st.kind = .flush f)
    (hsub : ∀ f ∈ pf, f ∈ pf') (hst' : ∀ f, st.kind = .flush f → f ∈ pf') :
    FI none pf' (s.setTh j (fun t => { t with buf := rest, popped := t.popped ++ [st] })) := by
  have hlt : j < s.ths.length := by
    apply Classical.byContradiction; intro hn
    rw [th_lt_or_default s j (by omega)] at hb; cases hb
  generalize hg : (fun t : Th => { t with buf := rest, popped := t.popped ++ [st] }) = g
  have g1 : ∀ t, (g t).accepted = t.accepted := fun t => by rw [← hg]
  have g2 : ∀ t, (g t).popped = t.popped ++ [st] := fun t => by rw [← hg]
  have g3 : ∀ t, (g t).buf = rest := fun t => by rw [← hg]
  have g4 : ∀ t, (g t).qStmts = t.qStmts := fun t => by rw [← hg]
  have hcases : ∀ i, (s.setTh j g).th i = s.th i ∨ (i = j ∧ (s.setTh j g).th i = g (s.th j)) := by
    intro i; rcases th_setTh_cases s j i g with h1 | ⟨h1, _, h2⟩
    · exact Or.inl h1
    · exact Or.inr ⟨h1, h2⟩
  have hacc : ∀ i, ((s.setTh j g).th i).accepted = (s.th i).accepted := by
    intro i; rcases hcases i with h1 | ⟨hij, h1⟩
    · rw [h1]
    · rw [h1, g1, hij]
  have hpopd : ∀ i, ∀ p ∈ (s.th i).popped, p ∈ ((s.setTh j g).th i).popped := by
    intro i p hp; rcases hcases i with h1 | ⟨hij, h1⟩
    · rw [h1]; exact hp
    · rw [h1, g2, ← hij]; exact List.mem_append_left _ hp
  refine h.congrAP hacc hpopd ?_ ?_ (fun _ => rfl) rfl rfl rfl ?_ hsub ?_
  rotate_left 3
  · intro i r hr f hk
    rcases hcases i with h1 | ⟨hij, h1⟩
    · rw [h1] at hr; exact Or.inl hr
    · rw [h1, g2] at hr
      rcases List.mem_append.mp hr with h2 | h2
      · exact Or.inl (by rw [hij]; exact h2)
      · rw [List.mem_singleton.mp h2] at hk; exact Or.inr (hst' f hk)
  · intro i
    rcases hcases i with h1 | ⟨hij, h1⟩
    · rw [h1]; exact h.cons i
    · rw [h1, g1, g2, g3, g4, h.cons j, hb]; simp
  · intro i p hp
    rcases hcases i with h1 | ⟨hij, h1⟩
    · rw [h1] at hp; exact h.plog i p hp
    · rw [h1, g2] at hp
      rcases List.mem_append.mp hp with h2 | h2
      · exact h.plog j p h2
      · rw [List.mem_singleton.mp h2]; exact hmem
  · intro f hf
    rcases hpf' f hf with h1 | h1
    · exact Or.inl h1
    · right
      refine ⟨j, st, ?_, h1⟩
      rw [th_setTh_same s g hlt, g2]
      exact List.mem_append_right _ (List.mem_singleton.mpr rfl)

/-- popping the front of context `j` -/
theorem FI.pop (h : FI none pf s) (j : Nat) (st : Stmt) (rest : List Stmt) (hb : (s.th j).buf = st :: rest)
    (pf' : List Nat) (hpf' : ∀ f ∈ pf', f ∈ pf ∨ st.kind = .flush f)
    (hsub : ∀ f ∈ pf, f ∈ pf') (hst' : ∀ f, st.kind = .flush f → f ∈ pf') : FI none pf' (plPop s j st rest) := by
  have h0 : FI none pf { s with popLog := st :: s.popLog } :=
    h.congrAP (fun _ => rfl) (fun _ _ hp => hp) h.cons (fun i p hp => List.mem_cons_of_mem _ (h.plog i p hp))
      (fun _ => rfl) rfl rfl rfl (fun f hf => Or.inl hf) (fun f hf => hf) (fun i r hr f _ => Or.inl hr)
  exact h0.popTh j st rest hb (List.mem_cons_self ..) pf' hpf' hsub hst'

theorem FI.processLowest (hi : InjOK2 inj) (h : FI none pf s) : FI none pf (Backend.processLowest inj s).1 := by
  rw [processLowest_eq]
  split
  · exact h
  · rename_i j _
    split
    · exact h
    · rename_i st rest hb
      have hsl : SLOL s (plNote (processEvent s st)) := by
        unfold plNote; split
        · exact (slol_processEvent s st).trans (SLOL.emit _ _)
        · exact slol_processEvent s st
      have hc := hsl.core2
      generalize plNote (processEvent s st) = s2 at hc
      have hths : s2.ths = s.ths := congrArg Core2.ths hc
      have hth : ∀ i, s2.th i = s.th i := fun i => by simp only [BSt.th, hths]
      have h2 : FI none pf s2 := h.frame hc
      split
      · rename_i f hfl
        have hk := processEvent_flag s st f hfl
        have hpop : FI none (f :: pf) (plPop s2 j st rest) :=
          h2.pop j st rest (by rw [hth]; exact hb) (f :: pf) (fun g hg => by
            rcases List.mem_cons.mp hg with rfl | hg
            · exact Or.inr hk
            · exact Or.inl hg) (fun g hg => List.mem_cons_of_mem _ hg)
            (fun g hg => by rw [hk] at hg; cases hg; exact List.mem_cons_self ..)
        unfold plFlag plPre
        have h5 : FI none (f :: pf) (Backend.cleanupContexts (if (plPop s2 j st rest).cfg.reportBeforeFlushCleanup = true then
            Backend.checkFailures inj (plPop s2 j st rest) else plPop s2 j st rest)) := by
          refine FI.cleanupContexts ?_
          split
          · exact hpop.checkFailures hi
          · exact hpop
        refine (h5.raise f (List.mem_cons_self ..) _).weakenPf (fun g hg => List.mem_cons_of_mem _ hg) ?_
        intro g hg
        rcases List.mem_cons.mp hg with rfl | hg
        · exact Or.inr (List.mem_cons_self ..)
        · exact Or.inl hg
      · rename_i hnone
        refine h2.pop j st rest (by rw [hth]; exact hb) pf (fun g hg => Or.inl hg) (fun g hg => hg) ?_
        intro g hg
        rw [processEvent_flush s st g hg] at hnone; cases hnone

theorem FI.populate (hi : InjOK2 inj) (h : FI none pf s) : FI none pf (Backend.populate inj s).1 := by
  unfold Backend.populate
  simp only
  have a1 : FI none pf (if s.cfg.refreshAfterSample = true then s else refreshCache s) := by
    split
    · exact h
    · exact h.same (same2_refresh _)
  generalize (if s.cfg.refreshAfterSample = true then s else refreshCache s) = sa at a1
  have a2 : FI none pf (if sa.cfg.grace = 0 then sa else inj sa 7) := by
    split
    · exact a1
    · exact hi _ _ 7 a1
  generalize (if sa.cfg.grace = 0 then sa else inj sa 7) = sb at a2
  have a3 := hi _ _ 1 a2
  have a4 : FI none pf (if sb.cfg.refreshAfterSample = true then refreshCache (inj sb 1) else inj sb 1) := by
    split
    · exact a3.same (same2_refresh _)
    · exact a3
  refine foldl_inv (fun acc : BSt × Nat => FI none pf acc.1) _ _ _ a4 ?_
  intro acc i hacc
  exact FI.readQueue hi _ i _ _ _ (hi _ _ 2 hacc)

theorem FI.batchLoop (hi : InjOK2 inj) (fuel : Nat) : ∀ s, FI none pf s → FI none pf (Backend.batchLoop inj fuel s) := by
  induction fuel with
  | zero => intro s h; exact h
  | succ n ih =>
    intro s h
    unfold Backend.batchLoop
    simp only
    have h1 := h.same (same2_hasPending s)
    split
    · exact h1
    · have h3 := h1.processLowest hi
      split
      · exact h3
      · exact ih _ (hi _ _ 4 h3)

theorem FI.flushGate (hi : InjOK2 inj) (h : FI none pf s) (n : Nat) : FI none pf (Backend.flushGate inj s n) := by
  rcases flushGate_cases inj s n with ⟨_, e⟩ | ⟨_, e⟩ | ⟨_, e⟩ <;> rw [e]
  · exact h.frame (slol_flushSinks _).core2
  · exact hi _ _ 7 h
  · have h1 : FI none pf { inj s 7 with lastFlush := (inj s 7).now } := (hi _ _ 7 h).frame rfl
    exact h1.frame (slol_flushSinks _).core2

theorem FI.preEraseFlush (h : FI none pf s) : FI none pf (Backend.preEraseFlush s) := by
  unfold Backend.preEraseFlush
  split
  · exact h.frame (slol_flushSinks _).core2
  · exact h

theorem FI.poll (hi : InjOK2 inj) (h : FI none pf s) : FI none pf (Backend.poll inj s) := by
  have hp := h.populate hi
  unfold Backend.poll
  rcases hpop : Backend.populate inj s with ⟨s1, count⟩
  rw [hpop] at hp
  simp only at hp ⊢
  split
  · split
    · exact hp.processLowest hi
    · exact FI.batchLoop hi _ _ hp
  · have h5 := hi _ _ 5 hp
    have h6 := (h5.flushGate hi (inj s1 5).cfg.flushInterval).checkFailures hi
    have h7 := h6.same (same2_allEmpty _)
    split
    · exact h7.cleanupContexts.preEraseFlush.cleanupLoggers hi
    · exact h7

theorem FI.exitLoop (hi : InjOK2 inj) (tick fuel : Nat) : ∀ s, FI none pf s → FI none pf (Backend.exitLoop inj tick fuel s) := by
  induction fuel with
  | zero => intro s h; exact h
  | succ n ih =>
    intro s h
    unfold Backend.exitLoop
    simp only
    have h1 := h.same (same2_allEmpty s)
    split
    · exact ((h1.checkFailures hi).frame (slol_flushSinks _).core2).cleanupContexts.preEraseFlush.cleanupLoggers hi
    · have h2 : FI none pf { (Backend.allEmpty s).1 with now := (Backend.allEmpty s).1.now + tick } := h1.frame rfl
      have hp := h2.populate hi
      rcases hpop : Backend.populate inj { (Backend.allEmpty s).1 with now := (Backend.allEmpty s).1.now + tick } with ⟨s1, count⟩
      rw [hpop] at hp
      simp only at hp ⊢
      apply ih
      split
      · exact FI.batchLoop hi _ _ hp
      · exact hp

theorem FI.applyOp (h : FI none pf s) (o : Op) : FI none pf (Backend.applyOp s o).1 := by
  cases o with
  | front f => exact h.applyFront f
  | poll table =>
    simp only [Backend.applyOp]
    split
    · exact h
    · exact FI.poll (injOK2_runInj table) (h.frame rfl)
  | exit =>
    simp only [Backend.applyOp]
    split
    · exact h
    · exact (FI.exitLoop (injOK2_runInj []) 1000 100000 _ (h.frame (s' := { s with siteCnt := [] }) rfl)).frame rfl

theorem FI.runOps (h : FI none pf s) (ops : List Op) : FI none pf (Backend.runOps s ops) := by
  unfold Backend.runOps
  induction ops generalizing s with
  | nil => exact h
  | cons o os ih => rw [List.foldl_cons]; exact ih (h.applyOp o)

end Backend.PB
