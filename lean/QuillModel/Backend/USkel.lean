import QuillModel.Backend.UOps
import QuillModel.Backend.ConsProofsSkel
import QuillModel.Backend.ConsProofsDispatch
/-!
The preservation skeleton of the unbounded-queue machine: the control flow of `pollU`, `exitLoopU`, the clean-ups, the
hook-site injections and `applyOpU` is walked once for an arbitrary state predicate `P` that reads only the
configuration, the contexts and the actors (`aux`) and is closed under the few primitive changes of a context
(`ClosedU`). The read pass of one queue is a field of its own (`readQ`): an invariant that holds between the
operations but not in the middle of a read (the publication invariant of C09) supplies its own proof of it; for an
invariant closed under the single steps of the read, `readQ_of_steps` derives it.
-/
namespace Backend.US
open Backend Spsc Backend.PA

structure ClosedU (u : UP) (P : BSt → Prop) : Prop where
  aux : ∀ s s', P s → s'.cfg = s.cfg → s'.ths = s.ths → s'.actors = s.actors → P s'
  emptyT : ∀ s i, P s → P (s.setTh i (fun t => (uEmpty s.cfg t).1))
  dropT : ∀ s i, P s → P (s.setTh i (fun t => { t with removed := true }))
  popT : ∀ s i st rest, P s → (s.th i).buf = st :: rest →
    P (s.setTh i (fun t => { t with buf := rest, popped := t.popped ++ [st] }))
  readQ : ∀ table tsNow i qcap0 fuel s, P s → P (readQueueU u (runInjU u table) tsNow i qcap0 fuel 0 s)
  front : ∀ s f, P s → P (applyFrontU u s f).1

variable {u : UP} {P : BSt → Prop}

theorem core_closed (hc : ClosedU u P) {s s' : BSt} (h : P s) (c : Core s s') : P s' := hc.aux s s' h c.cfg c.ths c.actors
theorem frame_closed (hc : ClosedU u P) {s s' : BSt} (h : P s) (f : Frame s s') : P s' := hc.aux s s' h f.cfg f.ths f.actors
theorem emit_closed (hc : ClosedU u P) (s : BSt) (e : Ev) (h : P s) : P (s.emit e) := hc.aux _ _ h rfl rfl rfl

theorem refresh_closed (hc : ClosedU u P) (s : BSt) (h : P s) : P (refreshCache s) := by
  unfold refreshCache
  split
  · exact hc.aux _ _ h rfl rfl rfl
  · exact h

/-- the injection runner needs only `aux` and `front` -/
theorem runInjU_closed' (haux : ∀ s s', P s → s'.cfg = s.cfg → s'.ths = s.ths → s'.actors = s.actors → P s')
    (hfront : ∀ s f, P s → P (applyFrontU u s f).1)
    (table : List (Nat × Nat × List UFOp)) (s : BSt) (site : Nat) (h : P s) : P (runInjU u table s site) := by
  unfold runInjU
  dsimp only
  have h1 : P { s with siteCnt := (site, ((s.siteCnt.find? (·.1 = site)).map (·.2)).getD 0 + 1) :: s.siteCnt.filter (·.1 ≠ site) } :=
    haux _ _ h rfl rfl rfl
  split
  · exact h1
  · refine foldl_inv P _ ?_ _ _ h1
    intro a f ha
    have hemit : ∀ (x : BSt) (e : Ev), P x → P (x.emit e) := fun x e hx => haux _ _ hx rfl rfl rfl
    apply hemit
    split
    · exact ha
    · exact hfront a f ha

theorem runInjU_closed (hc : ClosedU u P) (table : List (Nat × Nat × List UFOp)) (s : BSt) (site : Nat) (h : P s) :
    P (runInjU u table s site) := runInjU_closed' hc.aux hc.front table s site h

theorem ctxEmptyU_closed (hc : ClosedU u P) (s : BSt) (i : Nat) (h : P s) : P (ctxEmptyU s i).1 := hc.emptyT s i h

theorem allEmptyU_closed (hc : ClosedU u P) (s : BSt) (h : P s) : P (allEmptyU s).1 := by
  unfold allEmptyU
  dsimp only
  refine foldl_inv (fun a : BSt × Bool => P a.1) _ ?_ _ _ (refresh_closed hc s h)
  intro a i ha
  exact ctxEmptyU_closed hc a.1 i ha

theorem hasPendingU_closed (hc : ClosedU u P) (s : BSt) (h : P s) : P (hasPendingU s).1 := by
  unfold hasPendingU
  dsimp only
  refine foldl_inv (fun a : BSt × Bool => P a.1) _ ?_ _ _ (refresh_closed hc s h)
  intro a i ha
  split
  · exact ha
  · split
    · exact hc.emptyT a.1 i ha
    · exact ha

theorem findFirstU_closed (hc : ClosedU u P) : ∀ (l : List Nat) (s : BSt), P s → P (findFirstU s l).1
  | [], s, h => h
  | j :: rest, s, h => by
    unfold findFirstU
    split
    · exact findFirstU_closed hc rest s h
    · dsimp only
      split
      · exact ctxEmptyU_closed hc s j h
      · exact findFirstU_closed hc rest _ (ctxEmptyU_closed hc s j h)

theorem dropCtxU_closed (hc : ClosedU u P) (s : BSt) (i : Nat) (h : P s) : P (dropCtxU s i) := by
  unfold dropCtxU
  dsimp only
  exact hc.dropT _ i (hc.aux _ _ h rfl rfl rfl)

theorem cleanupGoU_closed (hc : ClosedU u P) : ∀ (fuel : Nat) (s : BSt), P s → P (cleanupGoU fuel s)
  | 0, s, h => h
  | fuel + 1, s, h => by
    unfold cleanupGoU
    have hf := findFirstU_closed hc s.cache s h
    split
    · next s1 heq => rw [heq] at hf; exact hf
    · next s1 i heq => rw [heq] at hf; exact cleanupGoU_closed hc fuel _ (dropCtxU_closed hc s1 i hf)

theorem cleanupContextsU_closed (hc : ClosedU u P) (s : BSt) (h : P s) : P (cleanupContextsU s) := by
  unfold cleanupContextsU
  split
  · exact h
  · exact cleanupGoU_closed hc _ s h

theorem reapSinksInj_closed (hc : ClosedU u P) (table : List (Nat × Nat × List UFOp)) (sids : List Nat) (s : BSt) (h : P s) :
    P (reapSinksInj (runInjU u table) s sids) := by
  unfold reapSinksInj
  refine foldl_inv P _ ?_ _ _ h
  intro a sid ha
  split
  · exact runInjU_closed hc table _ 9 (emit_closed hc _ _ (hc.aux _ _ ha rfl rfl rfl))
  · exact ha

theorem eraseStepU_closed (hc : ClosedU u P) (table : List (Nat × Nat × List UFOp)) (acc : BSt × List Nat) (i : Nat)
    (h : P acc.1) : P (eraseStepU (runInjU u table) acc i).1 := by
  unfold eraseStepU
  dsimp only
  split
  · exact h
  · have hr := allEmptyU_closed hc acc.1 h
    split
    · exact reapSinksInj_closed hc table _ _ (hc.aux _ _ hr rfl rfl rfl)
    · exact hc.aux _ _ hr rfl rfl rfl

theorem raiseRemoved_closed (hc : ClosedU u P) (s : BSt) (gid : Nat) (h : P s) : P (raiseRemoved s gid) := by
  unfold raiseRemoved
  split
  · exact hc.aux _ _ h rfl rfl rfl
  · exact h

theorem cleanupLoggersU_closed (hc : ClosedU u P) (table : List (Nat × Nat × List UFOp)) (s : BSt) (h : P s) :
    P (cleanupLoggersU (runInjU u table) s) := by
  unfold cleanupLoggersU
  split
  · exact h
  · dsimp only
    refine foldl_inv P _ (fun a g ha => raiseRemoved_closed hc a g ha) _ _ ?_
    refine foldl_inv (fun a : BSt × List Nat => P a.1) _ (fun a i ha => eraseStepU_closed hc table a i ha) _ _ ?_
    exact hc.aux _ _ h rfl rfl rfl

theorem popStepU_closed (hc : ClosedU u P) (s : BSt) (i : Nat) (st : Stmt) (rest : List Stmt) (h : P s)
    (hb : (s.th i).buf = st :: rest) : P (popStepU s i st rest) := by
  unfold popStepU
  exact hc.aux _ _ (hc.popT s i st rest h hb) rfl rfl rfl

theorem processLowestU_closed (hc : ClosedU u P) (s : BSt) (h : P s) : P (processLowestU s).1 := by
  unfold processLowestU
  split
  · exact h
  · next i _ =>
    split
    · exact h
    · next st rest hb =>
      have hcore := processEvent_core s st
      generalize processEvent s st = r at hcore
      obtain ⟨s1, exc, flag⟩ := r
      dsimp only at hcore ⊢
      have h1 : P s1 := core_closed hc h hcore
      have hs2 : ∀ s2 : BSt, s2 = (match exc with | some m => s1.emit (.notify m) | none => s1) → P s2 ∧ s2.ths = s.ths := by
        intro s2 e
        subst e
        cases exc with
        | none => exact ⟨h1, hcore.ths⟩
        | some m => exact ⟨emit_closed hc _ _ h1, hcore.ths⟩
      obtain ⟨h2, hths⟩ := hs2 _ rfl
      have h3 := popStepU_closed hc _ i st rest h2 (by simp only [BSt.th] at hb ⊢; rw [hths]; exact hb)
      cases flag with
      | none => exact h3
      | some f => exact hc.aux _ _ (cleanupContextsU_closed hc _ h3) rfl rfl rfl

theorem batchLoopU_closed (hc : ClosedU u P) (table : List (Nat × Nat × List UFOp)) :
    ∀ (fuel : Nat) (s : BSt), P s → P (batchLoopU (runInjU u table) fuel s)
  | 0, s, h => h
  | fuel + 1, s, h => by
    unfold batchLoopU
    dsimp only
    have hr := hasPendingU_closed hc s h
    split
    · exact hr
    · have hp := processLowestU_closed hc _ hr
      split
      · exact hp
      · exact batchLoopU_closed hc table fuel _ (runInjU_closed hc table _ 4 hp)

theorem populateU_closed (hc : ClosedU u P) (table : List (Nat × Nat × List UFOp)) (s : BSt) (h : P s) :
    P (populateU u (runInjU u table) s).1 := by
  unfold populateU
  dsimp only
  have h1 : P (if s.cfg.refreshAfterSample then s else refreshCache s) := by
    split
    · exact h
    · exact refresh_closed hc s h
  generalize (if s.cfg.refreshAfterSample then s else refreshCache s) = sa at h1
  have h2 : P (if sa.cfg.grace = 0 then sa else runInjU u table sa 7) := by
    split
    · exact h1
    · exact runInjU_closed hc table sa 7 h1
  generalize (if sa.cfg.grace = 0 then sa else runInjU u table sa 7) = sb at h2
  have h3 := runInjU_closed hc table sb 1 h2
  have h4 : P (if sb.cfg.refreshAfterSample then refreshCache (runInjU u table sb 1) else runInjU u table sb 1) := by
    split
    · exact refresh_closed hc _ h3
    · exact h3
  refine foldl_inv (fun a : BSt × Nat => P a.1) _ ?_ _ _ h4
  intro a i ha
  dsimp only
  exact hc.readQ table _ i _ _ _ (runInjU_closed hc table a.1 2 ha)

theorem preEraseFlush_closedU (hc : ClosedU u P) (s : BSt) (h : P s) : P (preEraseFlush s) := by
  unfold preEraseFlush
  split
  · exact frame_closed hc h (flushSinks_frame _)
  · exact h

theorem flushGate_closedU (hc : ClosedU u P) (table : List (Nat × Nat × List UFOp)) (s : BSt) (n : Nat) (h : P s) :
    P (flushGate (runInjU u table) s n) := by
  unfold flushGate
  split
  · exact frame_closed hc h (flushSinks_frame _)
  · dsimp only
    have h7 := runInjU_closed hc table s 7 h
    split
    · exact frame_closed hc (hc.aux _ { runInjU u table s 7 with lastFlush := (runInjU u table s 7).now } h7 rfl rfl rfl)
        (flushSinks_frame _)
    · exact h7

theorem pollU_closed (hc : ClosedU u P) (table : List (Nat × Nat × List UFOp)) (s : BSt) (h : P s) :
    P (pollU u (runInjU u table) s) := by
  unfold pollU
  have hp := populateU_closed hc table s h
  generalize populateU u (runInjU u table) s = r at hp
  obtain ⟨s1, count⟩ := r
  dsimp only at hp ⊢
  split
  · split
    · exact processLowestU_closed hc s1 hp
    · exact batchLoopU_closed hc table _ s1 hp
  · have h3 := flushGate_closedU hc table _ (runInjU u table s1 5).cfg.flushInterval (runInjU_closed hc table s1 5 hp)
    have hr := allEmptyU_closed hc _ h3
    split
    · exact cleanupLoggersU_closed hc table _ (preEraseFlush_closedU hc _ (cleanupContextsU_closed hc _ hr))
    · exact hr

theorem exitLoopU_closed (hc : ClosedU u P) (table : List (Nat × Nat × List UFOp)) (tick : Nat) :
    ∀ (fuel : Nat) (s : BSt), P s → P (exitLoopU u (runInjU u table) tick fuel s)
  | 0, s, h => h
  | fuel + 1, s, h => by
    unfold exitLoopU
    dsimp only
    have hr := allEmptyU_closed hc s h
    split
    · exact cleanupLoggersU_closed hc table _ (preEraseFlush_closedU hc _ (cleanupContextsU_closed hc _ (frame_closed hc hr (flushSinks_frame _))))
    · have h0 : P { (allEmptyU s).1 with now := (allEmptyU s).1.now + tick } := hc.aux _ _ hr rfl rfl rfl
      have hp := populateU_closed hc table _ h0
      generalize populateU u (runInjU u table) { (allEmptyU s).1 with now := (allEmptyU s).1.now + tick } = r at hp
      obtain ⟨s1, count⟩ := r
      dsimp only at hp ⊢
      apply exitLoopU_closed hc table tick fuel
      split
      · exact batchLoopU_closed hc table _ s1 hp
      · exact hp

theorem applyOpU_closed (hc : ClosedU u P) (s : BSt) (o : UOp) (h : P s) : P (applyOpU u s o).1 := by
  cases o with
  | front f => exact hc.front s f h
  | poll table =>
    show P (if s.backendGone then (s, "noop") else (pollU u (runInjU u table) { s with siteCnt := [] }, "ev")).1
    split
    · exact h
    · exact pollU_closed hc table _ (hc.aux _ _ h rfl rfl rfl)
  | exit =>
    show P (if s.backendGone then (s, "noop") else
      ({ exitLoopU u (runInjU u []) 1000 100000 { s with siteCnt := [] } with backendGone := true }, "ev")).1
    split
    · exact h
    · have h0 : P { s with siteCnt := [] } := hc.aux _ _ h rfl rfl rfl
      have h1 := exitLoopU_closed hc [] 1000 100000 _ h0
      exact hc.aux _ _ h1 rfl rfl rfl

/-- **the skeleton**: a closed predicate survives every operation list -/
theorem runOpsU_closed (hc : ClosedU u P) : ∀ (ops : List UOp) (s : BSt), P s → P (runOpsU u s ops)
  | [], _, h => h
  | o :: rest, s, h => by
    show P (runOpsU u (applyOpU u s o).1 rest)
    exact runOpsU_closed hc rest _ (applyOpU_closed hc s o h)

/-! ### the read pass from its single steps -/

structure ClosedR (u : UP) (P : BSt → Prop) : Prop where
  aux : ∀ s s', P s → s'.cfg = s.cfg → s'.ths = s.ths → s'.actors = s.actors → P s'
  readT : ∀ s i, P s → P (s.setTh i (fun t => (uRead s.cfg u.follow (t.more.length + 1) t).1))
  commitT : ∀ s i, P s → P (commitReadU s i)
  readStep : ∀ s i st rest, P s → (s.th i).qStmts = st :: rest →
    (uRead s.cfg u.follow ((s.th i).more.length + 1) (s.th i)).2.1 = true →
    P (readOneU (s.setTh i (fun t => (uRead s.cfg u.follow (t.more.length + 1) t).1)) i st rest)

theorem note_closed (hr : ClosedR u P) (l : List (Nat × Nat)) (s : BSt) (h : P s) :
    P (l.foldl (fun x p => x.emit (allocNote p)) s) :=
  foldl_inv P (fun x p => x.emit (allocNote p)) (fun a p ha => hr.aux _ _ ha rfl rfl rfl) l s h

theorem readQ_of_steps (hr : ClosedR u P) (inj : BSt → Nat → BSt) (hinj : ∀ s k, P s → P (inj s k))
    (tsNow : Option Nat) (i qcap0 : Nat) : ∀ (fuel total : Nat) (s : BSt), P s → P (readQueueU u inj tsNow i qcap0 fuel total s)
  | 0, total, s, h => by
    unfold readQueueU
    split
    · exact hr.commitT s i h
    · exact h
  | fuel + 1, total, s, h => by
    unfold readQueueU
    dsimp only
    have hR := note_closed hr (uRead s.cfg u.follow ((s.th i).more.length + 1) (s.th i)).2.2 _ (hr.readT s i h)
    have hfin : ∀ x : BSt, P x → P (if total ≠ 0 then commitReadU x i else x) := by
      intro x hx
      split
      · exact hr.commitT x i hx
      · exact hx
    split
    · exact hfin _ hR
    · next hoff =>
      split
      · exact hfin _ hR
      · next st rest hq =>
        split <;>
        · split
          · exact hfin _ hR
          · have h3 := note_closed hr (uRead s.cfg u.follow ((s.th i).more.length + 1) (s.th i)).2.2 _
              (hr.readStep s i st rest h hq (by simpa using hoff))
            have h4 := hinj _ 3 (show P (fmtNote _ st) by
              unfold fmtNote
              split
              · exact hr.aux _ _ h3 rfl rfl rfl
              · exact h3)
            split
            · exact readQ_of_steps hr inj hinj _ i qcap0 fuel _ _ h4
            · exact hr.commitT _ i h4

end Backend.US
