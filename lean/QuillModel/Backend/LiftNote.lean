import QuillModel.Backend.LiftBal
/-!
The text of the backend's notifications, read back: `parseCount` extracts the count `k` from
`n:dropped:<k>:a<t>` / `n:blocked:<k>:a<t>` (what `_check_failure_counter` hands to the error notifier; the model's
payload format is `PC.reportStr`) and is `0` on every other notification. Helper lemmas only.
-/
namespace Backend.PC
open Backend

theorem reportStr_toList (dr : Bool) (n a : Nat) :
    (reportStr dr n a).toList =
      (if dr then "n:dropped:".toList else "n:blocked:".toList) ++ Nat.toDigits 10 n ++ ":a".toList ++ Nat.toDigits 10 a := by
  cases dr <;> simp [reportStr, String.toList_append, toString, Nat.toList_repr]

/-- the count printed in a failure-counter notification; `0` for every other text -/
def parseCount (w : String) : Nat :=
  if w.toList.take 10 = "n:dropped:".toList ∨ w.toList.take 10 = "n:blocked:".toList then
    Nat.ofDigitChars 10 ((w.toList.drop 10).takeWhile Char.isDigit) 0
  else 0

theorem takeWhile_digits (l r : List Char) (c : Char) (h : ∀ x ∈ l, x.isDigit = true) (hc : c.isDigit = false) :
    (l ++ c :: r).takeWhile Char.isDigit = l := by
  induction l with
  | nil => simp [hc]
  | cons x xs ih =>
    have hx := h x (by simp)
    simp only [List.cons_append, List.takeWhile_cons, hx, ↓reduceIte]
    rw [ih (fun y hy => h y (by simp [hy]))]

/-- **the printed count is the reported count** -/
theorem parseCount_reportStr (dr : Bool) (n a : Nat) : parseCount (reportStr dr n a) = n := by
  have hd : ∀ x ∈ Nat.toDigits 10 n, x.isDigit = true :=
    fun x hx => Nat.isDigit_of_mem_toDigits (by decide) (by decide) hx
  have hc : ':'.isDigit = false := by decide
  unfold parseCount
  rw [reportStr_toList]
  cases dr
  · have e : "n:blocked:".toList = ['n', ':', 'b', 'l', 'o', 'c', 'k', 'e', 'd', ':'] := by decide
    have e2 : ":a".toList = [':', 'a'] := by decide
    simp only [Bool.false_eq_true, ↓reduceIte, e, e2, List.cons_append, List.nil_append, List.append_assoc, List.take_succ_cons,
      List.take_zero, List.drop_succ_cons, List.drop_zero, or_true]
    rw [takeWhile_digits _ _ _ hd hc]
    exact Nat.ofDigitChars_ten_toDigits
  · have e : "n:dropped:".toList = ['n', ':', 'd', 'r', 'o', 'p', 'p', 'e', 'd', ':'] := by decide
    have e2 : ":a".toList = [':', 'a'] := by decide
    simp only [↓reduceIte, e, e2, List.cons_append, List.nil_append, List.append_assoc, List.take_succ_cons,
      List.take_zero, List.drop_succ_cons, List.drop_zero, true_or]
    rw [takeWhile_digits _ _ _ hd hc]
    exact Nat.ofDigitChars_ten_toDigits

theorem parseCount_ffail : parseCount "n:ffail" = 0 := by decide
theorem parseCount_wfail : parseCount "n:wfail" = 0 := by decide
theorem parseCount_nobt : parseCount "n:nobt" = 0 := by decide

/-- a failure-counter notification is neither of the two fault notifications -/
theorem reportStr_ne (dr : Bool) (n a : Nat) : reportStr dr n a ≠ "n:wfail" ∧ reportStr dr n a ≠ "n:ffail" := by
  constructor <;> intro h <;> have h1 := congrArg String.toList h <;> rw [reportStr_toList] at h1 <;>
    cases dr <;> simp at h1

end Backend.PC
