import QuillModel.Backend.UQueueProofs
/-!
Thread-level facts of the unbounded-queue machine: every operation the machine performs on a context's chain
(`uPrepareWrite`, `uFinishCommit`, `uShrink`, `uPrepareRead`, `uRead`, `uFinishRead`, `uCommitRead`, `uEmpty`) keeps
the context invariant `TI` — conservation `accepted = popped ++ buf ++ qStmts` and chain coherence — and the
emptiness test is sound.
-/
namespace Backend.UQ
open Backend Spsc Backend.PA

/-- the invariant of one context -/
structure TI (t : Th) : Prop where
  cons : t.accepted = t.popped ++ t.buf ++ t.qStmts
  coh : CCoh t.q t.more t.qStmts

theorem TI.default : TI (default : Th) := ⟨rfl, NI.init 1 0⟩
theorem TI.mkTh (c : Cfg) (a : Nat) : TI (mkTh c a) := ⟨rfl, NI.init _ _⟩

/-- an update of fields the invariant does not read -/
theorem TI.same {t t' : Th} (h : TI t) (h1 : t'.accepted = t.accepted) (h2 : t'.popped = t.popped) (h3 : t'.buf = t.buf)
    (h4 : t'.qStmts = t.qStmts) (h5 : t'.q = t.q) (h6 : t'.more = t.more) : TI t' :=
  ⟨by rw [h1, h2, h3, h4]; exact h.cons, by rw [h4, h5, h6]; exact h.coh⟩

/-- an update of the chain only -/
theorem TI.chain {t t' : Th} (h : TI t) (h1 : t'.accepted = t.accepted) (h2 : t'.popped = t.popped) (h3 : t'.buf = t.buf)
    (h4 : t'.qStmts = t.qStmts) (hc : CCoh t'.q t'.more t.qStmts) : TI t' :=
  ⟨by rw [h1, h2, h3, h4]; exact h.cons, by rw [h4]; exact hc⟩

theorem setProd_fields (t : Th) (f : St → St) :
    (t.setProd f).accepted = t.accepted ∧ (t.setProd f).popped = t.popped ∧ (t.setProd f).buf = t.buf ∧
    (t.setProd f).qStmts = t.qStmts ∧ (t.setProd f).q = (updLast f t.q t.more).1 ∧
    (t.setProd f).more = (updLast f t.q t.more).2 := ⟨rfl, rfl, rfl, rfl, rfl, rfl⟩

theorem TI.setProd {t : Th} (h : TI t) (f : St → St) (hf : ∀ p a, NI p a → NI (f p) a) : TI (t.setProd f) :=
  h.chain rfl rfl rfl rfl (CCoh.updLast0 hf _ _ _ h.coh)

theorem updLast_snoc (f : St → St) (n : St) : ∀ (more : List St) (q : St),
    updLast f q (more ++ [n]) = (q, more ++ [f n])
  | [], q => rfl
  | p :: rest, q => by
    show (q, (updLast f p (rest ++ [n])).1 :: (updLast f p (rest ++ [n])).2) = _
    rw [updLast_snoc f n rest p]; rfl

/-- a node holding `x` at the end of the chain -/
theorem CCoh.snocX (n : St) (x : List Stmt) (hn : NI n x) : ∀ (more : List St) (q : St) (l : List Stmt),
    CCoh q more l → CCoh q (more ++ [n]) (l ++ x)
  | [], q, l, h => ⟨l, x, rfl, h, hn⟩
  | p :: rest, q, l, h => by
    obtain ⟨a, b, e, hq, hr⟩ := h
    exact ⟨a, b ++ x, by rw [e, List.append_assoc], hq, CCoh.snocX n x hn rest p b hr⟩

theorem NI.prepCommit {c : Cfg} {p : St} {a : List Stmt} (n : Nat) (h : NI p a) :
    NI (absApi c.qp p .commitWrite).1 a := h.commitWrite

/-- the reservation attempt, whatever its answer -/
theorem TI.prepareWrite {t : Th} (h : TI t) (c : Cfg) (qmax n : Nat) : TI (uPrepareWrite c qmax t n).1 := by
  have h0 : TI (t.setProd (fun p => (qPrepareWrite c p n).1)) := h.setProd _ (fun p a hp => hp.prepareWrite n)
  unfold uPrepareWrite
  dsimp only
  split
  · exact h0
  · split
    · exact h0
    · exact h0
    · have h1 := h0.setProd (fun p => (absApi c.qp p .commitWrite).1) (fun p a hp => hp.commitWrite)
      refine h1.chain rfl rfl rfl rfl ?_
      have key : ∀ n : St, NI n [] → CCoh _ (_ ++ [n]) t.qStmts :=
        fun n hn => by
          have := CCoh.snocX n [] hn _ _ _ h1.coh
          rw [List.append_nil] at this
          exact this
      exact key _ (NI.init _ _)

/-- a granted reservation followed by `finish_and_commit_write`: the record joins the pending ones -/
theorem TI.enq {t : Th} (h : TI t) (c : Cfg) (qmax : Nat) (st : Stmt) (hp : 0 < st.size) :
    TI { uFinishCommit c (uPrepareWrite c qmax t st.size).1 st.size with
           qStmts := t.qStmts ++ [st], accepted := t.accepted ++ [st] } := by
  have h1 := h.prepareWrite c qmax st.size
  have hf : (uPrepareWrite c qmax t st.size).1.qStmts = t.qStmts ∧ (uPrepareWrite c qmax t st.size).1.accepted = t.accepted ∧
      (uPrepareWrite c qmax t st.size).1.popped = t.popped ∧ (uPrepareWrite c qmax t st.size).1.buf = t.buf := by
    unfold uPrepareWrite; dsimp only
    split
    · exact ⟨rfl, rfl, rfl, rfl⟩
    · split <;> exact ⟨rfl, rfl, rfl, rfl⟩
  generalize (uPrepareWrite c qmax t st.size).1 = t1 at h1 hf
  obtain ⟨e1, e2, e3, e4⟩ := hf
  refine ⟨?_, ?_⟩
  · show t.accepted ++ [st] = t1.popped ++ t1.buf ++ (t.qStmts ++ [st])
    rw [e3, e4, h.cons]; simp
  · show CCoh (updLast (fun p => qFinishCommit c p st.size) t1.q t1.more).1
        (updLast (fun p => qFinishCommit c p st.size) t1.q t1.more).2 (t.qStmts ++ [st])
    rw [← e1]
    exact CCoh.updLast (fun p a hpa => hpa.enq st hp) _ _ _ h1.coh

theorem TI.shrink {t : Th} (h : TI t) (c : Cfg) (want : Nat) : TI (uShrink c t want) := by
  unfold uShrink
  split
  · refine h.chain rfl rfl rfl rfl ?_
    have key : ∀ n : St, NI n [] → CCoh t.q (t.more ++ [n]) t.qStmts :=
      fun n hn => by simpa using CCoh.snocX n [] hn _ _ _ h.coh
    exact key _ (NI.init _ _)
  · exact h

theorem NI.ne_of_ahead {q : St} {a : List Stmt} (h : NI q a) (hne : q.wcache ≠ q.rpos) : a ≠ [] := by
  obtain ⟨pre, suf, e, hw⟩ := h.wc
  intro hn
  subst hn
  have hp : pre = [] := (List.append_eq_nil_iff.mp e.symm).1
  rw [hp] at hw
  exact hne (by simpa using hw)

/-- what one `prepare_read()` (with `_read_next_queue`) does: other fields untouched, coherence kept, and an offered
    record sits in the consumer's node with the cached writer position ahead of the reader -/
structure RSpec (t t' : Th) (off : Bool) : Prop where
  acc : t'.accepted = t.accepted
  pop : t'.popped = t.popped
  buf : t'.buf = t.buf
  qs : t'.qStmts = t.qStmts
  coh : CCoh t'.q t'.more t.qStmts
  ahead : off = true → t'.q.wcache ≠ t'.q.rpos
  /-- nothing offered and no later node: nothing is pending at all -/
  none : off = false → t'.more = [] → t.qStmts = []

theorem CCoh.prepHead {c : Cfg} {q : St} {more : List St} {l : List Stmt} (h : CCoh q more l) :
    CCoh (qPrepareRead c q).1 more l :=
  CCoh.updHead (f := fun q => (qPrepareRead c q).1) (fun _ ha => ha.prepareRead) h

theorem uPrepareRead_spec {t : Th} (h : TI t) (c : Cfg) :
    RSpec t (uPrepareRead c t).1 (uPrepareRead c t).2.1 := by
  unfold uPrepareRead
  dsimp only
  split
  · next ho =>
    obtain ⟨a, b, e, hq⟩ := h.coh.head
    exact ⟨rfl, rfl, rfl, rfl, h.coh.prepHead, fun _ => (hq.offered ho).2, fun hc => by simp at hc⟩
  · next ho =>
    have ho : (qPrepareRead c t.q).2 = false := by simpa using ho
    split
    · next hm =>
      refine ⟨rfl, rfl, rfl, rfl, h.coh.prepHead, fun hc => by simp at hc, fun _ _ => ?_⟩
      have hc := h.coh
      rw [hm] at hc
      exact NI.refused hc ho
    · next nx rest hm =>
      have hc := h.coh
      rw [hm] at hc
      obtain ⟨a, b, e, hq, hr⟩ := hc
      have ha : a = [] := hq.refused ho
      subst ha
      have hq1 : NI (qPrepareRead c t.q).1 [] := hq.prepareRead
      split
      · next ho2 =>
        exact absurd rfl (hq1.offered ho2).1
      · next ho2 =>
        have hl : t.qStmts = b := by simpa using e
        refine ⟨rfl, rfl, rfl, rfl, ?_, ?_, ?_⟩
        · show CCoh (qPrepareRead c nx).1 rest t.qStmts
          rw [hl]; exact hr.prepHead
        · intro hoff
          obtain ⟨a', b', _, hq'⟩ := hr.head
          exact (hq'.offered hoff).2
        · intro hoff hm'
          have hm' : rest = [] := hm'
          subst hm'
          rw [hl]
          exact NI.refused hr hoff

theorem RSpec.ti {t t' : Th} {off : Bool} (h : TI t) (r : RSpec t t' off) : TI t' :=
  h.chain r.acc r.pop r.buf r.qs r.coh

theorem RSpec.trans {t t' t'' : Th} {o1 o2 : Bool} (r1 : RSpec t t' o1) (r2 : RSpec t' t'' o2) : RSpec t t'' o2 :=
  ⟨r2.acc.trans r1.acc, r2.pop.trans r1.pop, r2.buf.trans r1.buf, r2.qs.trans r1.qs, by rw [← r1.qs]; exact r2.coh,
   r2.ahead, fun ho hm => by rw [← r1.qs]; exact r2.none ho hm⟩

/-- `_read_unbounded_frontend_queue` -/
theorem uRead_spec (c : Cfg) (follow : Bool) : ∀ (fuel : Nat) (t : Th), TI t → 0 < fuel →
    RSpec t (uRead c follow fuel t).1 (uRead c follow fuel t).2.1
  | 0, _, _, hf => by omega
  | fuel + 1, t, h, _ => by
    have r1 := uPrepareRead_spec h c
    unfold uRead
    dsimp only
    split
    · next hc =>
      cases fuel with
      | zero =>
        -- no fuel left (never the case with fuel = nodes + 1): answers "nothing", the state is the one after the switch
        simp only [uRead]
        exact ⟨r1.acc, r1.pop, r1.buf, r1.qs, r1.coh, fun hc => by simp at hc, fun _ hm => r1.none (by
          simp only [Bool.and_eq_true, Bool.not_eq_true'] at hc; exact hc.1.2) hm⟩
      | succ k => exact r1.trans (uRead_spec c follow (k + 1) _ (r1.ti h) (by omega))
    · exact r1

/-- the record that was offered is read: it moves from the queue to the transit buffer -/
theorem TI.readOne {t t' : Th} (h : TI t) (c : Cfg) (r : RSpec t t' true) (st : Stmt) (rest : List Stmt)
    (hq : t.qStmts = st :: rest) : TI { uFinishRead c t' st.size with qStmts := rest, buf := t'.buf ++ [st] } := by
  have hne := r.ahead rfl
  refine ⟨?_, ?_⟩
  · show t'.accepted = t'.popped ++ (t'.buf ++ [st]) ++ rest
    rw [r.acc, r.pop, r.buf, h.cons, hq]; simp
  · show CCoh (qFinishRead c t'.q st.size) t'.more rest
    have hc := r.coh
    rw [hq] at hc
    exact hc.read (fun a ha => ha.ne_of_ahead hne) hne

theorem TI.commitRead {t : Th} (h : TI t) (c : Cfg) : TI (uCommitRead c t) :=
  h.chain rfl rfl rfl rfl (CCoh.updHead (f := fun q => qCommitRead c q) (fun _ ha => ha.commitRead) h.coh)

theorem TI.emptyTest {t : Th} (h : TI t) (c : Cfg) : TI (uEmpty c t).1 :=
  h.chain rfl rfl rfl rfl (CCoh.updHead (f := fun q => (qEmpty c q).1) (fun _ ha => ha.emptyTest) h.coh)

/-- **the emptiness test is sound**: `empty()` answers true only when nothing is pending in the whole chain -/
theorem TI.empty_sound {t : Th} (h : TI t) (c : Cfg) (he : (uEmpty c t).2 = true) : t.qStmts = [] := by
  simp only [uEmpty, Bool.and_eq_true, List.isEmpty_iff] at he
  have hc := h.coh
  rw [he.2] at hc
  exact hc.coh.empty he.1

theorem TI.pop {t : Th} (h : TI t) (st : Stmt) (rest : List Stmt) (hb : t.buf = st :: rest) :
    TI { t with buf := rest, popped := t.popped ++ [st] } :=
  ⟨by show t.accepted = t.popped ++ [st] ++ rest ++ t.qStmts
      rw [h.cons, hb]; simp, h.coh⟩

end Backend.UQ
