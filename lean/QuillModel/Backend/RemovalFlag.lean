import QuillModel.Backend.SinkBack
/-!
# The removal-flag invariant `RI` (C17: "`remove_logger_blocking` returns only after the logger is gone")

`RI s`, kept by every frontend operation and every backend step under arbitrary injections (`FRI_closed`, on top of
the C17 invariant `FInv`):
* every accepted record names an existing logger object; un-erased logger objects carry distinct names;
* every recorded pair `(g, f)` of `removalFlags` stems from an accepted removal record with flag `f` whose logger
  object is named `g`;
* everything in the pop history is in the popped history of some context;
* **every raised flag** is the flag of a popped Flush record, or of an accepted removal record *whose logger object
  is erased*.
The last clause is established at the flag-raising step of the logger clean-up (`RI_flagRemoval`): the skeleton
hands over that an object of the recorded name, not erased when the clean-up started, is erased now (`ErasedNow`),
and the uniqueness of names among un-erased objects *at the start of the clean-up* identifies it with the record's
own object — whatever frontend operations ran at hook site 9 in between (they cannot un-erase nor rename).
-/
namespace Backend.PC
open Backend Spsc

/-- the invariant behind "a removal flag is raised only after the erase" -/
structure RI (s : BSt) : Prop where
  accLg : ∀ i st, st ∈ (s.th i).accepted → st.lg < s.lgs.length
  uniq : ∀ i j, i < s.lgs.length → j < s.lgs.length → (s.lgOf i).erased = false → (s.lgOf j).erased = false →
    (s.lgOf i).gid = (s.lgOf j).gid → i = j
  rfi : ∀ p ∈ s.removalFlags, ∃ i st, st ∈ (s.th i).accepted ∧ st.kind = .removal p.2 ∧ (s.lgOf st.lg).gid = p.1
  pl : ∀ p ∈ s.popLog, ∃ i, p ∈ (s.th i).popped
  bw : ∀ f ∈ s.flags, (∃ i st, st ∈ (s.th i).popped ∧ st.kind = .flush f) ∨
    (∃ i st, st ∈ (s.th i).accepted ∧ st.kind = .removal f ∧ (s.lgOf st.lg).erased = true)

/-- histories only grow; `lg` is the logger of the one record that may have been accepted -/
def AccRel (lg : Option Nat) (s s' : BSt) : Prop :=
  ∀ i, (s'.th i).popped = (s.th i).popped ∧ (∀ x ∈ (s.th i).accepted, x ∈ (s'.th i).accepted) ∧
    (∀ x ∈ (s'.th i).accepted, x ∈ (s.th i).accepted ∨ some x.lg = lg)

theorem AccRel.refl (lg : Option Nat) (s : BSt) : AccRel lg s s := fun _ => ⟨rfl, fun _ h => h, fun _ h => Or.inl h⟩
theorem AccRel.trans {lg : Option Nat} {a b c : BSt} (h1 : AccRel lg a b) (h2 : AccRel lg b c) : AccRel lg a c :=
  fun i => ⟨(h2 i).1.trans (h1 i).1, fun x hx => (h2 i).2.1 x ((h1 i).2.1 x hx), fun x hx => by
    rcases (h2 i).2.2 x hx with h | h
    · exact (h1 i).2.2 x h
    · exact Or.inr h⟩
theorem AccRel.weaken {s s' : BSt} (h : AccRel none s s') (lg : Option Nat) : AccRel lg s s' :=
  fun i => ⟨(h i).1, (h i).2.1, fun x hx => by
    rcases (h i).2.2 x hx with h' | h'
    · exact Or.inl h'
    · cases h'⟩
theorem AccRel.of_ths {s s' : BSt} (h : s'.ths = s.ths) (lg : Option Nat) : AccRel lg s s' := by
  intro i
  have : s'.th i = s.th i := by simp only [BSt.th, h]
  rw [this]; exact ⟨rfl, fun _ hx => hx, fun _ hx => Or.inl hx⟩

theorem AccRel.setTh_keep (s : BSt) (i : Nat) (f : Th → Th) (h1 : ∀ t, (f t).accepted = t.accepted)
    (h2 : ∀ t, (f t).popped = t.popped) (lg : Option Nat) : AccRel lg s (s.setTh i f) := by
  intro j
  rw [th_setTh]; split
  · rw [h1, h2]; exact ⟨rfl, fun _ hx => hx, fun _ hx => Or.inl hx⟩
  · exact ⟨rfl, fun _ hx => hx, fun _ hx => Or.inl hx⟩

/-- flags, recorded removal flags, pop history -/
def fv3 (s : BSt) : List Nat × List (Nat × Nat) × List Stmt := (s.flags, s.removalFlags, s.popLog)

/-- a step that only lets histories grow (by a record of logger `lg`), keeps flags, recorded removal flags and the
    pop history, and lets the logger objects only be erased -/
theorem RI.step {s s' : BSt} (h : RI s) (lg : Option Nat) (ha : AccRel lg s s') (hlg : ∀ l, lg = some l → l < s.lgs.length)
    (hm : LgMono s s') (hf : fv3 s' = fv3 s) : RI s' := by
  simp only [fv3, Prod.mk.injEq] at hf
  obtain ⟨f1, f2, f3⟩ := hf
  have hacc : ∀ i st, st ∈ (s'.th i).accepted → st.lg < s.lgs.length := by
    intro i st hst
    rcases (ha i).2.2 st hst with h1 | h1
    · exact h.accLg i st h1
    · exact hlg st.lg h1.symm
  refine ⟨fun i st hst => by rw [hm.1]; exact hacc i st hst, ?_, ?_, ?_, ?_⟩
  · intro i j hi hj ei ej eg
    rw [hm.1] at hi hj
    rw [(hm.2 i).1, (hm.2 j).1] at eg
    apply h.uniq i j hi hj _ _ eg
    · cases he : (s.lgOf i).erased
      · rfl
      · rw [(hm.2 i).2 he] at ei; cases ei
    · cases he : (s.lgOf j).erased
      · rfl
      · rw [(hm.2 j).2 he] at ej; cases ej
  · intro p hp
    rw [f2] at hp
    obtain ⟨i, st, h1, h2, h3⟩ := h.rfi p hp
    exact ⟨i, st, (ha i).2.1 st h1, h2, by rw [(hm.2 st.lg).1]; exact h3⟩
  · intro p hp
    rw [f3] at hp
    obtain ⟨i, h1⟩ := h.pl p hp
    exact ⟨i, by rw [(ha i).1]; exact h1⟩
  · intro f hf'
    rw [f1] at hf'
    rcases h.bw f hf' with ⟨i, st, h1, h2⟩ | ⟨i, st, h1, h2, h3⟩
    · exact Or.inl ⟨i, st, by rw [(ha i).1]; exact h1, h2⟩
    · exact Or.inr ⟨i, st, (ha i).2.1 st h1, h2, (hm.2 st.lg).2 h3⟩

/-- a step that changes nothing `RI` reads except sinks, events, counters -/
theorem RI.same {s s' : BSt} (h : RI s) (ht : s'.ths = s.ths) (hl : s'.lgs = s.lgs) (hf : fv3 s' = fv3 s) : RI s' :=
  h.step none (AccRel.of_ths ht none) (fun _ h => by cases h) (LgMono.of_lgs hl) hf


/-! ### the frontend never touches flags, recorded removal flags or the pop history -/

theorem ensureCtx_fv3 (s : BSt) (a : Nat) : fv3 (ensureCtx s a).1 = fv3 s := by
  unfold ensureCtx; split <;> rfl
theorem tryEnq_fv3 (s : BSt) (ci : Nat) (st : Stmt) : fv3 (tryEnq s ci st).1 = fv3 s := by
  unfold tryEnq; simp only []; split <;> rfl
theorem afterEnq_fv3 (s : BSt) (a : Nat) (st : Stmt) (cont : Nat) : fv3 (afterEnq s a st cont).1 = fv3 s := by
  unfold afterEnq; split <;> rfl
theorem enqFlow_fv3 (s : BSt) (a : Nat) (st : Stmt) (cont : Nat) (first initial : Bool) :
    fv3 (enqFlow s a st cont first initial).1 = fv3 s := by
  have h0 : fv3 (tryEnq (ensureCtx s a).1 (ensureCtx s a).2 st).1 = fv3 s := by rw [tryEnq_fv3, ensureCtx_fv3]
  unfold enqFlow
  simp only []
  split
  · rw [afterEnq_fv3]; exact h0
  · repeat' split
    all_goals exact h0
theorem frontCall_fv3 (s : BSt) (a lgi : Nat) (kind : Kind) (lvl len cont : Nat) (dyn : Bool) (id : Nat) (named : Bool) :
    fv3 (frontCall s a lgi kind lvl len cont dyn id named).1 = fv3 s := by
  unfold frontCall; simp only []; split
  · rfl
  · exact enqFlow_fv3 ..
theorem resume_fv3 (s : BSt) (a : Nat) : fv3 (resume s a).1 = fv3 s := by
  unfold resume; split
  · exact enqFlow_fv3 ..
  · split <;> exact enqFlow_fv3 ..
  · split <;> rfl
  · rfl
theorem withLogger_fv3 (s : BSt) (a g : Nat) (k : Nat → BSt × String)
    (hk : ∀ lgi, fv3 (k lgi).1 = fv3 s) : fv3 (withLogger s a g k).1 = fv3 s := by
  unfold withLogger; split
  · exact hk _
  · rfl
theorem reapSinks_fv3 (sids : List Nat) : ∀ (s : BSt), fv3 (reapSinks s sids) = fv3 s := by
  unfold reapSinks
  induction sids with
  | nil => intro s; rfl
  | cons x xs ih =>
    intro s
    simp only [List.foldl_cons]
    rw [ih]; split <;> rfl

theorem front_fv3 (s : BSt) (f : FOp) : fv3 (applyFront s f).1 = fv3 s := by
  cases f <;> simp only [applyFront]
  case tick => rfl
  case tstart => split <;> rfl
  case texit => split; rfl; split <;> rfl
  case resume a =>
    split
    · exact resume_fv3 s a
    · split
      · exact resume_fv3 s a
      · exact resume_fv3 s a
  case armStall => split <;> rfl
  case log a g lvl len dyn =>
    apply withLogger_fv3; intro lgi; split
    · exact frontCall_fv3 ..
    · rfl
  case logNamed a g len =>
    apply withLogger_fv3; intro lgi; split
    · exact frontCall_fv3 ..
    · rfl
  case logBt a g len =>
    apply withLogger_fv3; intro lgi; split
    · exact frontCall_fv3 ..
    · rfl
  case initBt => apply withLogger_fv3; intro lgi; exact frontCall_fv3 ..
  case flushBt => apply withLogger_fv3; intro lgi; exact frontCall_fv3 ..
  case flush => apply withLogger_fv3; intro lgi; exact frontCall_fv3 ..
  case removeBlocking a g =>
    split
    · rfl
    · apply withLogger_fv3; intro lgi; exact frontCall_fv3 ..
  case remove a g =>
    split
    · rfl
    · split <;> rfl
  case create a g sl =>
    split
    · rfl
    · split
      · split <;> rfl
      · rfl
  case setLevel => split <;> rfl
  case setSinkLevel => split <;> rfl
  case dropSink sid => exact reapSinks_fv3 _ _

/-! ### … and lets the histories only grow, by the record of the call -/

theorem hist_append (s X : BSt) (t : Th) (hX : X.ths = s.ths ++ [t]) (ht : t.accepted = [] ∧ t.popped = []) (i : Nat) :
    (X.th i).accepted = (s.th i).accepted ∧ (X.th i).popped = (s.th i).popped := by
  rcases Nat.lt_trichotomy i s.ths.length with hi | hi | hi
  · rw [th_append_left s _ i hi _ hX]; exact ⟨rfl, rfl⟩
  · subst hi
    rw [th_append_new s _ _ hX, ht.1, ht.2]
    simp only [BSt.th, List.getD_eq_getElem?_getD, List.getElem?_eq_none (Nat.le_refl _)]
    exact ⟨rfl, rfl⟩
  · simp only [BSt.th, List.getD_eq_getElem?_getD, hX]
    rw [List.getElem?_eq_none (by simp; omega), List.getElem?_eq_none (by omega)]
    exact ⟨rfl, rfl⟩

theorem ensureCtx_acc (s : BSt) (a : Nat) : AccRel none s (ensureCtx s a).1 := by
  unfold ensureCtx
  split
  · exact AccRel.refl none s
  · simp only []
    intro i
    simp only [th_setActor]
    obtain ⟨h1, h2⟩ := hist_append s ({ s with ths := s.ths ++ [mkTh s.cfg a], registry := s.registry ++ [s.ths.length], newFlag := true } : BSt) (mkTh s.cfg a) rfl ⟨rfl, rfl⟩ i
    rw [h1, h2]
    exact ⟨rfl, fun _ hx => hx, fun _ hx => Or.inl hx⟩

theorem tryEnq_acc (s : BSt) (ci : Nat) (st : Stmt) : AccRel (some st.lg) s (tryEnq s ci st).1 := by
  unfold tryEnq
  simp only []
  split
  · intro i
    rw [th_setTh]; split
    · refine ⟨rfl, fun x hx => List.mem_append_left _ hx, fun x hx => ?_⟩
      have hx' : x ∈ (s.th i).accepted ++ [{ st with enqAt := s.now }] := hx
      rcases List.mem_append.mp hx' with hx' | hx'
      · exact Or.inl hx'
      · simp only [List.mem_singleton] at hx'; right; rw [hx']
    · exact ⟨rfl, fun _ hx => hx, fun _ hx => Or.inl hx⟩
  · exact AccRel.setTh_keep s ci _ (by intro _; rfl) (by intro _; rfl) _

theorem AccRel.setActor (X : BSt) (a : Nat) (g : Actor → Actor) (lg : Option Nat) : AccRel lg X (X.setActor a g) :=
  AccRel.of_ths rfl lg

theorem AccRel.setTh_setActor (X : BSt) (i : Nat) (f : Th → Th) (a : Nat) (g : Actor → Actor)
    (h1 : ∀ t, (f t).accepted = t.accepted) (h2 : ∀ t, (f t).popped = t.popped) (lg : Option Nat) :
    AccRel lg X ((X.setTh i f).setActor a g) :=
  (AccRel.setTh_keep X i f h1 h2 lg).trans (AccRel.of_ths rfl lg)

theorem afterEnq_acc (s : BSt) (a : Nat) (st : Stmt) (cont : Nat) (lg : Option Nat) :
    AccRel lg s (afterEnq s a st cont).1 := by
  unfold afterEnq
  split <;> exact AccRel.of_ths (by rfl) lg

theorem enqFlow_acc (s : BSt) (a : Nat) (st : Stmt) (cont : Nat) (first initial : Bool) :
    AccRel (some st.lg) s (enqFlow s a st cont first initial).1 := by
  have h0 : AccRel (some st.lg) s (tryEnq (ensureCtx s a).1 (ensureCtx s a).2 st).1 :=
    ((ensureCtx_acc s a).weaken _).trans (tryEnq_acc _ _ st)
  unfold enqFlow
  simp only []
  split
  · exact (h0.trans (AccRel.setActor _ a _ _)).trans (afterEnq_acc _ a st cont _)
  · repeat' split
    all_goals first
      | exact h0.trans (AccRel.setActor _ a _ _)
      | exact h0.trans (AccRel.setTh_setActor _ _ _ a _ (by intro _; rfl) (by intro _; rfl) _)


theorem frontCall_acc (s : BSt) (a lgi : Nat) (kind : Kind) (lvl len cont : Nat) (dyn : Bool) (id : Nat) (named : Bool) :
    AccRel (some lgi) s (frontCall s a lgi kind lvl len cont dyn id named).1 := by
  rw [frontCall_eq]
  split
  · exact AccRel.setActor s a _ _
  · exact enqFlow_acc s a (mkStmt s a lgi kind lvl len dyn id named) cont true true

theorem noteCall_acc (r : BSt × String) (a g : Nat) (lg : Option Nat) : AccRel lg r.1 (noteCall r a g).1 :=
  AccRel.setActor r.1 a _ lg

/-- one step of the frontend in the shape `RI.step` wants -/
def FrontStep (s s' : BSt) : Prop :=
  ∃ lg, AccRel lg s s' ∧ (∀ l, lg = some l → l < s.lgs.length) ∧ gev s' = gev s ∧ fv3 s' = fv3 s

theorem RI.frontStep {s s' : BSt} (h : RI s) (hs : FrontStep s s') : RI s' := by
  obtain ⟨lg, h1, h2, h3, h4⟩ := hs
  exact h.step lg h1 h2 (LgMono.of_gev h3) h4

theorem FrontStep.same {s s' : BSt} (ht : s'.ths = s.ths) (hg : gev s' = gev s) (hf : fv3 s' = fv3 s) : FrontStep s s' :=
  ⟨none, AccRel.of_ths ht none, (fun _ h => by cases h), hg, hf⟩

theorem call_frontStep {s s1 : BSt} (hF : FInv s) (h1t : s1.ths = s.ths) (h1g : gev s1 = gev s) (h1f : fv3 s1 = fv3 s)
    (a g lgi : Nat) (hl : loggerOf s g = some lgi) (kind : Kind) (lvl len cont : Nat) (dyn : Bool) (id : Nat)
    (named : Bool) : FrontStep s (noteCall (frontCall s1 a lgi kind lvl len cont dyn id named) a g).1 := by
  have hlt : lgi < s.lgs.length := (loggerOf_facts hF.1.2 hl).2.2.1
  refine ⟨some lgi, ?_, (fun l hl' => by cases hl'; exact hlt), ?_, ?_⟩
  · exact ((AccRel.of_ths h1t _).trans (frontCall_acc s1 a lgi kind lvl len cont dyn id named)).trans (noteCall_acc _ a g _)
  · show gev (frontCall s1 a lgi kind lvl len cont dyn id named).1 = _
    rw [frontCall_gev]; exact h1g
  · show fv3 (frontCall s1 a lgi kind lvl len cont dyn id named).1 = _
    rw [frontCall_fv3]; exact h1f

/-- a new logger object under a name no un-erased object carries -/
theorem RI.newLogger {s : BSt} (h : RI s) (g : Nat) (sl : List Nat) (nm : List (Nat × Nat))
    (hno : ∀ i, i < s.lgs.length → (s.lgOf i).gid = g → (s.lgOf i).erased = true) :
    RI { s with lgs := s.lgs ++ [{ gid := g, sinks := sl }], names := nm } := by
  have hlt : ∀ j, j < s.lgs.length →
      BSt.lgOf { s with lgs := s.lgs ++ [{ gid := g, sinks := sl }], names := nm } j = s.lgOf j := by
    intro j hj
    simp only [BSt.lgOf, List.getD_eq_getElem?_getD, List.getElem?_append_left hj]
  have hnew : BSt.lgOf { s with lgs := s.lgs ++ [{ gid := g, sinks := sl }], names := nm } s.lgs.length =
      { gid := g, sinks := sl } := by
    simp only [BSt.lgOf, List.getD_eq_getElem?_getD]; simp
  have hlen : ∀ j, j < (s.lgs ++ [({ gid := g, sinks := sl } : Lg)]).length → j < s.lgs.length ∨ j = s.lgs.length := by
    intro j hj; simp at hj; omega
  refine ⟨?_, ?_, ?_, h.pl, ?_⟩
  · intro i st hst
    have := h.accLg i st hst
    show st.lg < (s.lgs ++ [_]).length
    simp; omega
  · intro i j hi hj ei ej eg
    rcases hlen i hi with hi' | hi' <;> rcases hlen j hj with hj' | hj'
    · rw [hlt i hi'] at ei eg; rw [hlt j hj'] at ej eg
      exact h.uniq i j hi' hj' ei ej eg
    · subst hj'; rw [hlt i hi'] at ei eg; rw [hnew] at eg
      have := hno i hi' eg; rw [this] at ei; cases ei
    · subst hi'; rw [hlt j hj'] at ej eg; rw [hnew] at eg
      have := hno j hj' eg.symm; rw [this] at ej; cases ej
    · rw [hi', hj']
  · intro p hp
    obtain ⟨i, st, a1, a2, a3⟩ := h.rfi p hp
    exact ⟨i, st, a1, a2, by rw [hlt st.lg (h.accLg i st a1)]; exact a3⟩
  · intro f hf
    rcases h.bw f hf with ⟨i, st, a1, a2⟩ | ⟨i, st, a1, a2, a3⟩
    · exact Or.inl ⟨i, st, a1, a2⟩
    · exact Or.inr ⟨i, st, a1, a2, by rw [hlt st.lg (h.accLg i st a1)]; exact a3⟩

theorem RI_withLogger {s : BSt} (a g : Nat) (k : Nat → BSt × String)
    (hk : ∀ lgi, loggerOf s g = some lgi → RI (noteCall (k lgi) a g).1) (h : RI s) : RI (withLogger s a g k).1 := by
  unfold withLogger
  split
  · rename_i lgi hl _; exact hk lgi hl
  · exact h

theorem RI_front (s : BSt) (f : FOp) (hF : FInv s) (h : RI s) : RI (applyFront s f).1 := by
  cases f <;> simp only [applyFront]
  case tick => exact h.frontStep (FrontStep.same rfl rfl rfl)
  case query => exact h
  case tstart => split <;> exact h.frontStep (FrontStep.same rfl rfl rfl)
  case texit a =>
    split
    · exact h
    · split
      · rename_i i _
        refine h.frontStep ⟨none, ?_, (fun _ hh => by cases hh), rfl, rfl⟩
        exact (AccRel.setActor s a _ none).trans (AccRel.setTh_keep _ i _ (by intro _; rfl) (by intro _; rfl) none)
      · exact h.frontStep (FrontStep.same rfl rfl rfl)
  case resume a =>
    have hres : FrontStep s (resume s a).1 := by
      have hlg : ∀ (P : Pend) (st0 : Stmt), (s.actor a).map (·.pend) = some P → pendStmt P = some st0 →
          st0.lg < s.lgs.length := by
        intro P st0 hP hst0
        cases hx : s.actor a with
        | none => rw [hx] at hP; cases hP
        | some x0 =>
          rw [hx] at hP
          simp only [Option.map_some, Option.some.injEq] at hP
          obtain ⟨hm, _, hal⟩ := actor_mem hx
          exact (hF.1.2.1.pendOK x0 hm hal st0 (by rw [hP]; exact hst0)).2.2
      unfold resume
      split
      · rename_i st cont hp
        exact ⟨some st.lg, enqFlow_acc s a st cont true false, (fun l hl => by cases hl; exact hlg _ st hp rfl),
          enqFlow_gev .., enqFlow_fv3 ..⟩
      · rename_i st cont hp
        split
        · exact ⟨some st.lg, enqFlow_acc s a { st with ts := s.now } cont true false,
            (fun l hl => by cases hl; exact hlg _ st hp rfl), enqFlow_gev .., enqFlow_fv3 ..⟩
        · exact ⟨some st.lg, enqFlow_acc s a st cont false false, (fun l hl => by cases hl; exact hlg _ st hp rfl),
            enqFlow_gev .., enqFlow_fv3 ..⟩
      · split
        · exact FrontStep.same rfl rfl rfl
        · exact FrontStep.same rfl rfl rfl
      · exact FrontStep.same rfl rfl rfl
    split
    · exact h.frontStep hres
    · split
      · exact h.frontStep hres
      · obtain ⟨lg, a1, a2, a3, a4⟩ := hres
        exact h.frontStep ⟨lg, a1.trans (AccRel.setActor _ a _ lg), a2, a3, a4⟩
  case armStall a => split <;> exact h.frontStep (FrontStep.same rfl rfl rfl)
  case log a g lvl len dyn =>
    apply RI_withLogger _ _ _ _ h; intro lgi hl; split
    · exact h.frontStep (call_frontStep (s1 := { s with nextId := s.nextId + 1 }) hF rfl rfl rfl a g lgi hl ..)
    · exact h.frontStep (FrontStep.same rfl rfl rfl)
  case logNamed a g len =>
    apply RI_withLogger _ _ _ _ h; intro lgi hl; split
    · exact h.frontStep (call_frontStep (s1 := { s with nextId := s.nextId + 1 }) hF rfl rfl rfl a g lgi hl ..)
    · exact h.frontStep (FrontStep.same rfl rfl rfl)
  case logBt a g len =>
    apply RI_withLogger _ _ _ _ h; intro lgi hl; split
    · exact h.frontStep (call_frontStep (s1 := { s with nextId := s.nextId + 1 }) hF rfl rfl rfl a g lgi hl ..)
    · exact h.frontStep (FrontStep.same rfl rfl rfl)
  case initBt a g cap fl =>
    apply RI_withLogger _ _ _ _ h; intro lgi hl
    exact h.frontStep (call_frontStep (s1 := s) hF rfl rfl rfl a g lgi hl ..)
  case flushBt a g =>
    apply RI_withLogger _ _ _ _ h; intro lgi hl
    exact h.frontStep (call_frontStep (s1 := s) hF rfl rfl rfl a g lgi hl ..)
  case flush a g =>
    apply RI_withLogger _ _ _ _ h; intro lgi hl
    exact h.frontStep (call_frontStep (s1 := { s with nextFlag := s.nextFlag + 1 }) hF rfl rfl rfl a g lgi hl ..)
  case removeBlocking a g =>
    split
    · exact h
    · apply RI_withLogger _ _ _ _ h; intro lgi hl
      exact h.frontStep (call_frontStep (s1 := dropName { s with nextFlag := s.nextFlag + 1 } g) hF rfl rfl rfl
        a g lgi hl ..)
  case remove a g =>
    split
    · exact h
    · split
      · rename_i lgi _ _
        refine h.frontStep (FrontStep.same rfl ?_ rfl)
        exact gev_setLg (dropName s g) lgi (fun l => { l with valid := false }) (fun _ => ⟨rfl, rfl⟩)
      · exact h
  case create a g sl =>
    split
    · exact h
    · split
      · split
        · exact h
        · exact h.frontStep (FrontStep.same rfl rfl rfl)
      · rename_i hex
        apply h.newLogger
        intro i hi hg
        have := List.find?_eq_none.mp hex i (List.mem_range.mpr hi)
        simp only [hg, true_and, Bool.not_eq_true', decide_eq_true_eq, Bool.not_eq_false] at this
        exact this
  case setLevel g lvl =>
    split
    · exact h.frontStep (FrontStep.same rfl (gev_setLg s _ _ (fun _ => ⟨rfl, rfl⟩)) rfl)
    · exact h
  case setSinkLevel => split <;> exact h.frontStep (FrontStep.same rfl rfl rfl)
  case dropSink sid =>
    refine h.frontStep (FrontStep.same ?_ (reapSinks_gev _ _) (reapSinks_fv3 _ _))
    have := reapSinks_lview [sid] (s.setSink sid (fun k => { k with userRef := false }))
    simp only [lview, Prod.mk.injEq] at this
    exact this.2.2.2


/-! ### backend leaves -/

theorem fv3_of_strip {s s' : BSt} (h : stripOut s' = stripOut s) : fv3 s' = fv3 s := by
  have : fv3 (stripOut s') = fv3 (stripOut s) := by rw [h]
  exact this

theorem ths_of_strip {s s' : BSt} (h : stripOut s' = stripOut s) : s'.ths = s.ths := by
  have : (stripOut s').ths = (stripOut s).ths := by rw [h]
  exact this

theorem LgKeep.lgMono {s s' : BSt} (h : LgKeep s s') : LgMono s s' :=
  ⟨h.2.2.2.1, fun j => ⟨(h.2.2.2.2 j).1, fun he => by rw [(h.2.2.2.2 j).2.2.1]; exact he⟩⟩

theorem RI.setTh_keep {s : BSt} (h : RI s) (i : Nat) (f : Th → Th) (h1 : ∀ t, (f t).accepted = t.accepted)
    (h2 : ∀ t, (f t).popped = t.popped) : RI (s.setTh i f) :=
  h.step none (AccRel.setTh_keep s i f h1 h2 none) (fun _ h => by cases h) (LgMono.of_lgs rfl) rfl

theorem RI_ctxEmpty {s : BSt} (h : RI s) (i : Nat) : RI (ctxEmpty s i).1 := by
  unfold ctxEmpty; exact h.setTh_keep i _ (fun _ => rfl) (fun _ => rfl)

theorem RI_refresh {s : BSt} (h : RI s) : RI (refreshCache s) := by
  unfold refreshCache; split
  · exact h.same rfl rfl rfl
  · exact h

theorem RI_allEmpty {s : BSt} (h : RI s) : RI (allEmpty s).1 := by
  unfold allEmpty
  simp only []
  exact foldl_pres_pair RI (fun (acc : BSt × Bool) i => ((ctxEmpty acc.1 i).1, acc.2 && (ctxEmpty acc.1 i).2))
    (fun acc i h => RI_ctxEmpty h i) _ (refreshCache s, true) (RI_refresh h)

theorem RI_hasPending {s : BSt} (h : RI s) : RI (hasPending s).1 := by
  unfold hasPending
  simp only []
  apply foldl_pres_pair RI _ _ _ _ (RI_refresh h)
  intro acc i h
  split
  · exact h
  · split
    · exact h.setTh_keep i _ (fun _ => rfl) (fun _ => rfl)
    · exact h

theorem RI_removeSt {s : BSt} (h : RI s) (i : Nat) : RI (removeSt s i) := by
  unfold removeSt
  refine RI.setTh_keep ?_ i _ (fun _ => rfl) (fun _ => rfl)
  exact h.same rfl rfl rfl

theorem LgMono.erase (s : BSt) (i : Nat) : LgMono s (s.setLg i (fun l => { l with erased := true })) := by
  refine ⟨lgs_length_setLg s i _, fun j => ?_⟩
  rw [lgOf_setLg]; split
  · exact ⟨rfl, fun _ => rfl⟩
  · exact ⟨rfl, id⟩

theorem RI_erase {s : BSt} (h : RI s) (i : Nat) : RI ((allEmpty s).1.setLg i (fun l => { l with erased := true })) := by
  have h1 := RI_allEmpty h
  generalize (allEmpty s).1 = x at h1
  exact h1.step none (AccRel.of_ths (by rfl) none) (fun _ h => by cases h) (LgMono.erase x i) (by rfl)

/-- **the flag-raising step of the logger clean-up**: the recorded pair `(g, f)` came from a removal record of a
    logger object named `g`; an object named `g` that was not erased when the clean-up started is erased now; names
    of un-erased objects are unique; so the record's own object is erased -/
theorem RI_flagRemoval {s0 s : BSt} (h0 : RI s0) (h : RI s) (f g : Nat) (he : ErasedNow s0 s g)
    (hf : ∃ g', s.removalFlags.find? (·.1 = g) = some (g', f)) :
    RI { s with flags := f :: s.flags, flagLog := (f, s.log.length) :: s.flagLog,
                removalFlags := s.removalFlags.filter (·.1 ≠ g) } := by
  refine ⟨h.accLg, h.uniq, ?_, h.pl, ?_⟩
  · intro p hp
    exact h.rfi p (List.mem_filter.mp hp).1
  · intro f' hf'
    rcases List.mem_cons.mp hf' with hf' | hf'
    · subst hf'
      obtain ⟨g', hfind⟩ := hf
      have hm := List.mem_of_find?_eq_some hfind
      have hg := List.find?_some hfind
      simp only [decide_eq_true_eq] at hg
      obtain ⟨i, st, h1, h2, h3⟩ := h.rfi _ hm
      simp only [hg] at h3
      right
      refine ⟨i, st, h1, h2, ?_⟩
      obtain ⟨hm0, j, hj, ej, gj, ej'⟩ := he
      have hlt := h.accLg i st h1
      cases hes : (s.lgOf st.lg).erased
      · exfalso
        have e0 : (s0.lgOf st.lg).erased = false := by
          cases he0 : (s0.lgOf st.lg).erased
          · rfl
          · rw [(hm0.2 st.lg).2 he0] at hes; cases hes
        have : st.lg = j := h0.uniq st.lg j (by rw [← hm0.1]; exact hlt) hj e0 ej
          (by rw [gj, ← (hm0.2 st.lg).1]; exact h3)
        rw [this, ej'] at hes; cases hes
      · exact hes
    · exact h.bw f' hf'

theorem flushSinks_RI {s : BSt} (h : RI s) : RI (flushSinks s) := by
  have hl := flushSinks_lview s
  simp only [lview, Prod.mk.injEq] at hl
  exact h.same (ths_of_strip (flushSinks_strip s)) hl.2.1 (fv3_of_strip (flushSinks_strip s))

theorem qStmts_head_lt {s : BSt} {i : Nat} {st : Stmt} {rest : List Stmt} (hb : (s.th i).qStmts = st :: rest) :
    i < s.ths.length := by
  by_cases hi : i < s.ths.length
  · exact hi
  · simp only [BSt.th, List.getD_eq_getElem?_getD, List.getElem?_eq_none (by omega : s.ths.length ≤ i)] at hb
    cases hb

/-- **decoding a removal record** writes down `(name of its logger object, its flag)`; the record is in the accepted
    history of its context -/
theorem RI_readOneSt {s : BSt} (hT : TInv s) (h : RI s) (i : Nat) (st : Stmt) (rest : List Stmt)
    (hq : (s.th i).qStmts = st :: rest) : RI (readOneSt s i st rest) := by
  have hi := qStmts_head_lt hq
  have hacc : st ∈ (s.th i).accepted := by
    rw [(hT.ths i hi).cons, hq]
    exact List.mem_append_right _ List.mem_cons_self
  have h1 : RI (readPrepSt s i) := by unfold readPrepSt; exact h.setTh_keep i _ (fun _ => rfl) (fun _ => rfl)
  have hacc1 : st ∈ ((readPrepSt s i).th i).accepted := by
    unfold readPrepSt; rw [th_setTh]; split <;> exact hacc
  have h2 : RI (decodeSt (readPrepSt s i) st) := by
    generalize readPrepSt s i = x at h1 hacc1
    unfold decodeSt; split
    · rename_i f hk
      refine ⟨h1.accLg, h1.uniq, ?_, h1.pl, h1.bw⟩
      intro p hp
      have hp' : p ∈ x.removalFlags ++ [((x.lgOf st.lg).gid, f)] := hp
      rcases List.mem_append.mp hp' with hp' | hp'
      · exact h1.rfi p hp'
      · simp only [List.mem_singleton] at hp'
        subst hp'
        exact ⟨i, st, hacc1, hk, rfl⟩
    · exact h1
  unfold readOneSt moveSt
  exact h2.setTh_keep i _ (fun _ => rfl) (fun _ => rfl)

theorem RI_reportSt {s : BSt} (h : RI s) (i : Nat) : RI (reportSt s i) := by
  have h1 : RI (s.setTh i (fun t => { t with fail := 0 })) := h.setTh_keep i _ (fun _ => rfl) (fun _ => rfl)
  unfold reportSt
  exact h1.same rfl rfl rfl

/-- **popping an event** moves it to the popped history of its context and to the head of the pop history -/
theorem RI_popSt {s : BSt} (h : RI s) (i : Nat) (st : Stmt) (rest : List Stmt) (hb : (s.th i).buf = st :: rest) :
    RI (popSt s i st rest) := by
  have hi := buf_head_lt hb
  have hk := (processEvent_lgKeep s st).lgMono
  have hs := processEvent_strip s st
  have h2 : ∀ X : BSt, LgMono s X → X.ths = s.ths → fv3 X = fv3 s →
      RI ({ X.setTh i (fun t => { t with buf := rest, popped := t.popped ++ [st] }) with popLog := st :: X.popLog } : BSt) := by
    intro X hm ht hf
    have hX : RI X := h.step none (AccRel.of_ths ht none) (fun _ h => by cases h) hm hf
    have hiX : i < X.ths.length := by rw [ht]; exact hi
    have hacc : ∀ j, ((X.setTh i (fun t => { t with buf := rest, popped := t.popped ++ [st] })).th j).accepted
        = (X.th j).accepted := fun j => accepted_setTh _ _ _ _ (fun _ => rfl)
    have hpop : ∀ j x, x ∈ (X.th j).popped →
        x ∈ ((X.setTh i (fun t => { t with buf := rest, popped := t.popped ++ [st] })).th j).popped := by
      intro j x hx
      rw [th_setTh]; split
      · exact List.mem_append_left _ hx
      · exact hx
    refine ⟨fun j x hx => hX.accLg j x (by rw [← hacc j]; exact hx), hX.uniq, ?_, ?_, ?_⟩
    · intro p hp
      obtain ⟨j, x, a1, a2, a3⟩ := hX.rfi p hp
      exact ⟨j, x, by rw [← hacc j] at a1; exact a1, a2, a3⟩
    · intro p hp
      rcases List.mem_cons.mp hp with hp | hp
      · refine ⟨i, ?_⟩
        show p ∈ ((X.setTh i _).th i).popped
        rw [th_setTh_same _ _ _ hiX, hp]
        exact List.mem_append_right _ List.mem_cons_self
      · obtain ⟨j, hj⟩ := hX.pl p hp
        exact ⟨j, hpop j p hj⟩
    · intro f hf'
      rcases hX.bw f hf' with ⟨j, x, a1, a2⟩ | ⟨j, x, a1, a2, a3⟩
      · exact Or.inl ⟨j, x, hpop j x a1, a2⟩
      · exact Or.inr ⟨j, x, by rw [← hacc j] at a1; exact a1, a2, a3⟩
  unfold popSt
  simp only []
  split
  · exact h2 _ hk (ths_of_strip hs) (fv3_of_strip hs)
  · exact h2 _ hk (ths_of_strip hs) (fv3_of_strip hs)

/-- **raising a flush flag**: the flush record is at the head of the pop history -/
theorem RI_raiseSt {s : BSt} (h : RI s) (f : Nat) (hg : ∃ st, s.popLog.head? = some st ∧ st.kind = .flush f) :
    RI (raiseSt s f) := by
  refine ⟨h.accLg, h.uniq, h.rfi, h.pl, ?_⟩
  intro f' hf'
  rcases List.mem_cons.mp hf' with hf' | hf'
  · subst hf'
    obtain ⟨st, h1, h2⟩ := hg
    obtain ⟨i, hi⟩ := h.pl st (List.mem_of_mem_head? h1)
    exact Or.inl ⟨i, st, hi, h2⟩
  · exact h.bw f' hf'

/-- the invariant behind C17's "flag after erase" -/
def FRI (s : BSt) : Prop := FInv s ∧ RI s

theorem FRI_closed : Closed FRI where
  front := fun s f h => ⟨FInv_closed.front s f h.1, RI_front s f h.1 h.2⟩
  siteCnt := fun s x h => ⟨FInv_closed.siteCnt s x h.1, h.2.same rfl rfl rfl⟩
  emitInj := fun s a b c d h => ⟨FInv_closed.emitInj s a b c d h.1, h.2.same rfl rfl rfl⟩
  note := fun s h => ⟨FInv_closed.note s h.1, h.2.same rfl rfl rfl⟩
  clock := fun s n h => ⟨FInv_closed.clock s n h.1, h.2.same rfl rfl rfl⟩
  lastFlush := fun s n h => ⟨FInv_closed.lastFlush s n h.1, h.2.same rfl rfl rfl⟩
  gone := fun s h => ⟨FInv_closed.gone s h.1, h.2.same rfl rfl rfl⟩
  refresh := fun s h => ⟨FInv_closed.refresh s h.1, RI_refresh h.2⟩
  allEmpty := fun s h => ⟨FInv_closed.allEmpty s h.1, RI_allEmpty h.2⟩
  hasPending := fun s h => ⟨FInv_closed.hasPending s h.1, RI_hasPending h.2⟩
  cleanupContexts := fun s h => ⟨FInv_closed.cleanupContexts s h.1,
    cleanupContexts_pres RI (fun x i hx => RI_ctxEmpty hx i) (fun x i hx => RI_removeSt hx i) s h.2⟩
  invFlag := fun s b h => ⟨FInv_closed.invFlag s b h.1, h.2.same rfl rfl rfl⟩
  erase := fun s i h hv he => ⟨FInv_closed.erase s i h.1 hv he, RI_erase h.2 i⟩
  reap := fun s sid h ha hr => ⟨FInv_closed.reap s sid h.1 ha hr, h.2.same rfl rfl rfl⟩
  flagRemoval := fun s0 s f g h0 h he hf => ⟨FInv_closed.flagRemoval s0 s f g h0.1 h.1 he hf,
    RI_flagRemoval h0.2 h.2 f g he hf⟩
  flushSinks := fun s h => ⟨FInv_closed.flushSinks s h.1, flushSinks_RI h.2⟩
  readPrep := fun s i h => ⟨FInv_closed.readPrep s i h.1, by
    unfold readPrepSt; exact h.2.setTh_keep i _ (fun _ => rfl) (fun _ => rfl)⟩
  commit := fun s i h => ⟨FInv_closed.commit s i h.1, by
    unfold commitSt; exact h.2.setTh_keep i _ (fun _ => rfl) (fun _ => rfl)⟩
  readOne := fun s i st rest h hr hq => ⟨FInv_closed.readOne s i st rest h.1 hr hq,
    RI_readOneSt h.1.1.1.2 h.2 i st rest hq⟩
  report := fun s i h hf => ⟨FInv_closed.report s i h.1 hf, RI_reportSt h.2 i⟩
  pop := fun s i st rest h hl hb => ⟨FInv_closed.pop s i st rest h.1 hl hb, RI_popSt h.2 i st rest hb⟩
  raise := fun s f h hg => ⟨FInv_closed.raise s f h.1 hg, RI_raiseSt h.2 f hg⟩

theorem FRI_runOps (s0 : BSt) (h0 : FRI s0) (ops : List Op) : FRI (runOps s0 ops) :=
  runOps_closed FRI_closed ops s0 h0

/-- `RI` holds before anything happened: no context, no flag raised or recorded, empty pop history, un-erased logger
    objects of distinct names -/
theorem RI_start {s : BSt} (hths : s.ths = []) (hfl : s.flags = []) (hrf : s.removalFlags = []) (hpl : s.popLog = [])
    (hd : ∀ i j, i < s.lgs.length → j < s.lgs.length → (s.lgOf i).erased = false → (s.lgOf j).erased = false →
      (s.lgOf i).gid = (s.lgOf j).gid → i = j) : RI s := by
  have hth : ∀ i, (s.th i).accepted = [] := fun i => by simp [BSt.th, hths]; rfl
  refine ⟨fun i st hst => ?_, hd, fun p hp => ?_, fun p hp => ?_, fun f hf => ?_⟩
  · rw [hth] at hst; cases hst
  · rw [hrf] at hp; cases hp
  · rw [hpl] at hp; cases hp
  · rw [hfl] at hf; cases hf

end Backend.PC
