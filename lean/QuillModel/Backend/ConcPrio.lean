import QuillModel.Backend.ConcDrain
/-!
# Ordering disabled (grace = 0): the minimum front is popped first (helper lemmas for C06 progress under concurrency)

With `log_timestamp_ordering_grace_period = 0` there is no ordering invariant to lean on. What remains true is local:
`_process_lowest_timestamp_transit_event` pops the minimum-timestamp front among the cached buffers, and it is only called
when the buffer of every context with something pending is non-empty (right after a pass in single-event mode; after the
batch guard answered "nothing pending" in batch mode). Hence, as long as a Flush request `st0` (flag `f`) has not been
processed (`f` not raised), every event popped has a timestamp `≤ st0.ts` (`runOps_prio`).
-/
namespace Backend.PB
open Backend

/-- the pop history extends `L` -/
def PopSuf (L : List Stmt) (s : BSt) : Prop := ∃ m, s.popLog = m ++ L

theorem popSuf_closed (L : List Stmt) : PC.Closed (PopSuf L) where
  lastFlush := fun _ _ h => h
  siteCnt := fun _ _ h => h
  emitInj := fun _ _ _ _ _ h => h
  note := fun _ h => h
  clock := fun _ _ h => h
  gone := fun _ h => h
  refresh := fun s h => by unfold PopSuf; rw [refreshCache_popLog]; exact h
  allEmpty := fun s h => by unfold PopSuf; rw [allEmpty_popLog]; exact h
  hasPending := fun s h => by unfold PopSuf; rw [hasPending_popLog]; exact h
  cleanupContexts := fun s h => by unfold PopSuf; rw [PC.cleanupContexts_popLog]; exact h
  invFlag := fun _ _ h => h
  erase := fun s i h _ _ => by
    show ∃ m, (Backend.allEmpty s).1.popLog = m ++ L
    rw [allEmpty_popLog]; exact h
  reap := fun _ _ h _ _ => h
  flagRemoval := fun _ _ _ _ _ h _ _ => h
  flushSinks := fun s h => by unfold PopSuf; rw [flushSinks_popLog]; exact h
  readPrep := fun _ _ h => h
  commit := fun _ _ h => h
  readOne := fun s i st rest h _ _ => by
    show ∃ m, (PC.decodeSt (PC.readPrepSt s i) st).popLog = m ++ L
    unfold PC.decodeSt; split <;> exact h
  report := fun _ _ h _ => h
  pop := fun s i st rest h _ _ => by
    have e : (processEvent s st).1.popLog = s.popLog := processEvent_popLog s st
    have e2 : (PC.popSt s i st rest).popLog = st :: (processEvent s st).1.popLog := by
      unfold PC.popSt; simp only []; split <;> rfl
    obtain ⟨m, hm⟩ := h
    exact ⟨st :: m, by rw [e2, e, hm]; rfl⟩
  raise := fun _ _ h _ => h
  front := fun s f h => by unfold PopSuf; rw [PC.applyFront_popLog]; exact h

/-! ### the pass pops nothing -/

variable {inj : BSt → Nat → BSt}

theorem rqPrep_popLog (s : BSt) (i : Nat) : (rqPrep s i).popLog = s.popLog := rfl
theorem rqCommit_popLog (s : BSt) (i : Nat) : (rqCommit s i).popLog = s.popLog := rfl
theorem rqFin_popLog (s : BSt) (i total : Nat) : (rqFin s i total).popLog = s.popLog := by
  unfold rqFin; split <;> rfl
theorem rqMove_popLog (s : BSt) (i : Nat) (st : Stmt) (rest : List Stmt) : (rqMove s i st rest).popLog = s.popLog := by
  have e : (rqMove s i st rest).popLog = (rqMove0 s i st rest).popLog := by
    unfold PB.rqMove fmtNote; split <;> rfl
  rw [e]
  unfold PB.rqMove0 rqDecode; split <;> rfl

theorem readQueue_popLog (hpl : ∀ s k, (inj s k).popLog = s.popLog) (tsNow : Option Nat) (i : Nat) (fuel : Nat) :
    ∀ (total : Nat) (s : BSt), (Backend.readQueue inj tsNow i fuel total s).popLog = s.popLog := by
  induction fuel with
  | zero => intro total s; rw [readQueue_zero]; exact rqFin_popLog s i total
  | succ n ih =>
    intro total s
    rw [readQueue_succ]
    have hfin : ∀ tot, (rqFin (rqPrep s i) i tot).popLog = s.popLog := fun tot => by rw [rqFin_popLog]; rfl
    split
    · exact hfin total
    · split
      · exact hfin total
      · rename_i st rest hqs
        split
        · exact hfin total
        · have h3 : (inj (rqMove s i st rest) 3).popLog = s.popLog := by rw [hpl, rqMove_popLog]
          split
          · rw [ih, h3]
          · rw [rqCommit_popLog, h3]

theorem populate_popLog (hpl : ∀ s k, (inj s k).popLog = s.popLog) (s : BSt) : (populate inj s).1.popLog = s.popLog := by
  rw [populate_eq]
  have fa : (popA s).popLog = s.popLog := by
    unfold popA; split
    · rfl
    · exact refreshCache_popLog s
  have fb : (popB inj s).popLog = s.popLog := by
    unfold popB; split
    · exact fa
    · rw [hpl]; exact fa
  have fc : (popC inj s).popLog = s.popLog := by
    unfold popC; split
    · rw [refreshCache_popLog, hpl]; exact fb
    · rw [hpl]; exact fb
  have : ∀ (l : List Nat) (acc : BSt × Nat), (l.foldl (popStep inj (tsNowOf (popB inj s))) acc).1.popLog = acc.1.popLog := by
    intro l
    induction l with
    | nil => intro acc; rfl
    | cons x xs ih =>
      intro acc
      rw [List.foldl_cons, ih]
      unfold popStep
      show (Backend.readQueue inj _ x _ 0 (inj acc.1 2)).popLog = _
      rw [readQueue_popLog hpl, hpl]
  rw [this]; exact fc

/-! ### one pop -/

/-- `_process_lowest_timestamp_transit_event` with a buffered event in the cache: exactly one event is popped, and its timestamp
    is at most that of every cached buffer's front -/
theorem processLowest_cons (table : List (Nat × Nat × List FOp)) (s : BSt) (hne : ∃ i ∈ s.cache, (s.th i).buf ≠ []) :
    ∃ st, (Backend.processLowest (runInj table) s).1.popLog = st :: s.popLog ∧
      ∀ i ∈ s.cache, ∀ f fs, (s.th i).buf = f :: fs → st.ts ≤ f.ts := by
  have hinj := PC.runInj_ok (popN_closed 0) table
  rw [processLowest_eq]
  cases hl : lowest s with
  | none =>
    exfalso
    obtain ⟨i, hi, hb⟩ := hne
    exact hb (lowest_none hl i hi)
  | some j =>
    obtain ⟨st, rest, hb, hmin⟩ := lowest_spec hl
    simp only [hb]
    refine ⟨st, ?_, hmin⟩
    have hsl : SLOL s (plNote (processEvent s st)) := by
      unfold plNote; split
      · exact (slol_processEvent s st).trans (SLOL.emit _ _)
      · exact slol_processEvent s st
    have e2 : (plNote (processEvent s st)).popLog = s.popLog := congrArg Core2.popLog hsl.core2
    have e3 : (plPop (plNote (processEvent s st)) j st rest).popLog = st :: s.popLog := by
      show st :: (plNote (processEvent s st)).popLog = _
      rw [e2]
    split
    · rename_i f _
      show (plPre (runInj table) (plPop (plNote (processEvent s st)) j st rest)).popLog = _
      unfold plPre
      rw [PC.cleanupContexts_popLog]
      split
      · rw [PC.checkFailures_popLog (popN_closed 0).toClosedB hinj _ (Nat.zero_le _)]; exact e3
      · exact e3
    · exact e3

/-! ### the Flush request has priority -/

variable {c : Cfg}

/-- while the flag is not raised the request is pending, and the front of its context's buffer (if any) is not younger -/
theorem pending_of_not_raised {fl : Nat} {s : BSt} (h : PIo c fl s) (hF : FI none [] s) (i0 : Nat) (st0 : Stmt) (f : Nat)
    (hk : st0.kind = .flush f) (hacc : st0 ∈ (s.th i0).accepted) (hnf : f ∉ s.flags) :
    st0 ∈ chain (s.th i0) ∧ ∀ b bs, (s.th i0).buf = b :: bs → b.ts ≤ st0.ts := by
  have hch : st0 ∈ chain (s.th i0) := by
    rw [hF.cons i0, List.append_assoc] at hacc
    rcases List.mem_append.mp hacc with h1 | h1
    · exfalso
      rcases hF.popFlag i0 st0 h1 f hk with h2 | h2
      · exact hnf h2
      · cases h2
    · exact h1
  refine ⟨hch, fun b bs hb => ?_⟩
  have hs := h.sorted i0
  unfold chain at hch hs
  rw [hb] at hch hs
  simp only [List.cons_append] at hch hs
  rcases List.mem_cons.mp hch with e | e
  · rw [e]; exact Nat.le_refl _
  · exact List.rel_of_pairwise_cons hs e

theorem batchLoop_prio (table : List (Nat × Nat × List FOp)) (hg0 : c.grace = 0) (i0 : Nat) (st0 : Stmt) (f : Nat)
    (hk : st0.kind = .flush f) :
    ∀ (fuel : Nat) (x : BSt) (fl : Nat), PIo c fl x → FI none [] x → st0 ∈ (x.th i0).accepted →
      ∃ new, (Backend.batchLoop (runInj table) fuel x).popLog = new ++ x.popLog ∧
        (f ∉ (Backend.batchLoop (runInj table) fuel x).flags → ∀ r ∈ new, r.ts ≤ st0.ts) := by
  have hi : InjOK (runInj table) := fun _ _ _ _ _ site hh => hh.runInj table site
  have hgm := injMono_runInj table
  intro fuel
  induction fuel with
  | zero => intro x fl _ _ _; exact ⟨[], rfl, fun _ _ hr => by cases hr⟩
  | succ n ih =>
    intro x fl h hF hacc
    unfold Backend.batchLoop
    simp only
    have hy := h.hasPending
    have hFy : FI none [] (Backend.hasPending x).1 := hF.same (same2_hasPending x)
    have haccy : st0 ∈ ((Backend.hasPending x).1.th i0).accepted := by
      rw [((same2_hasPending x).th i0).acc]; exact hacc
    have epl := hasPending_popLog x
    cases hhp : (Backend.hasPending x).2 with
    | true => simp only [if_true]; exact ⟨[], by rw [epl]; rfl, fun _ _ hr => by cases hr⟩
    | false =>
      simp only [Bool.false_eq_true, if_false]
      generalize hyy : (Backend.hasPending x).1 = y at hy hFy haccy epl
      have hguard := hy.2 hhp
      have hPy := hy.1
      -- the rest of the loop only raises flags
      have hrest : ∀ z, Mono z (if (!(Backend.processLowest (runInj table) y).2) = true then (Backend.processLowest (runInj table) y).1
          else Backend.batchLoop (runInj table) n (runInj table (Backend.processLowest (runInj table) y).1 4)) → True := fun _ _ => trivial
      by_cases hfy : f ∈ y.flags
      · -- already processed: nothing is claimed about the timestamps, the history only grows
        have hm : Mono y (if (!(Backend.processLowest (runInj table) y).2) = true then (Backend.processLowest (runInj table) y).1
            else Backend.batchLoop (runInj table) n (runInj table (Backend.processLowest (runInj table) y).1 4)) := by
          split
          · exact mono_processLowest hgm y
          · exact (mono_processLowest hgm y).trans ((hgm _ 4).trans (mono_batchLoop hgm n _))
        have hsuf : PopSuf y.popLog (if (!(Backend.processLowest (runInj table) y).2) = true then (Backend.processLowest (runInj table) y).1
            else Backend.batchLoop (runInj table) n (runInj table (Backend.processLowest (runInj table) y).1 4)) := by
          have hinjS := PC.runInj_ok (popSuf_closed y.popLog) table
          have p1 : PopSuf y.popLog (Backend.processLowest (runInj table) y).1 :=
            PC.processLowest_ok (popSuf_closed _).toClosedB hinjS y ⟨[], rfl⟩
          split
          · exact p1
          · exact PC.batchLoop_ok (popSuf_closed _).toClosedB hinjS n _ ((hinjS _ 4 p1).1)
        obtain ⟨m, hm2⟩ := hsuf
        exact ⟨m, by rw [hm2, epl], fun hnf => absurd (hm.flags f hfy) hnf⟩
      · obtain ⟨hch, hfront⟩ := pending_of_not_raised hPy hFy i0 st0 f hk haccy hfy
        have hne0 : chain (y.th i0) ≠ [] := by intro he; rw [he] at hch; cases hch
        have hreg : i0 ∈ y.registry := hPy.reg i0 hne0
        have hbuf : (y.th i0).buf ≠ [] := by
          intro hb
          have := hguard i0 hreg hb
          unfold chain at hne0; rw [hb, this] at hne0; exact hne0 rfl
        have hc0 : i0 ∈ y.cache := hPy.bufCache i0 hreg hbuf
        obtain ⟨st, hpl, hmin⟩ := processLowest_cons table y ⟨i0, hc0, hbuf⟩
        have hle : st.ts ≤ st0.ts := by
          cases hb : (y.th i0).buf with
          | nil => exact absurd hb hbuf
          | cons b bs => exact Nat.le_trans (hmin i0 hc0 b bs hb) (hfront b bs hb)
        split
        · exact ⟨[st], by rw [hpl, epl]; rfl, fun _ r hr => by rw [List.mem_singleton.mp hr]; exact hle⟩
        · have hPp : PIo c fl (Backend.processLowest (runInj table) y).1 :=
            PIo.processLowest hi hPy (fun hg => absurd hg0 hg)
          have hFp : FI none [] (Backend.processLowest (runInj table) y).1 := hFy.processLowest (injOK2_runInj table)
          have haccp : st0 ∈ ((Backend.processLowest (runInj table) y).1.th i0).accepted :=
            (mono_processLowest hgm y).mem_acc haccy
          have hPz := hi.pio hPp 4
          have hFz := (injOK2_runInj table) _ _ 4 hFp
          have haccz := (hgm (Backend.processLowest (runInj table) y).1 4).mem_acc haccp
          obtain ⟨new, e1, e2⟩ := ih _ fl hPz hFz haccz
          refine ⟨new ++ [st], ?_, fun hnf r hr => ?_⟩
          · rw [e1, PC.runInj_popLog, hpl, epl]; simp
          · rcases List.mem_append.mp hr with h1 | h1
            · exact e2 hnf r h1
            · rw [List.mem_singleton.mp h1]; exact hle


theorem poll_prio (table : List (Nat × Nat × List FOp)) (hg0 : c.grace = 0) (i0 : Nat) (st0 : Stmt) (f : Nat)
    (hk : st0.kind = .flush f) {fl : Nat} {s : BSt} (h : PIo c fl s) (hF : FI none [] s) (hacc : st0 ∈ (s.th i0).accepted) :
    ∃ new, (Backend.poll (runInj table) s).popLog = new ++ s.popLog ∧
      (f ∉ (Backend.poll (runInj table) s).flags → ∀ r ∈ new, r.ts ≤ st0.ts) := by
  have hi : InjOK (runInj table) := fun _ _ _ _ _ site hh => hh.runInj table site
  have hgm := injMono_runInj table
  have hinjS := fun L => PC.runInj_ok (popSuf_closed L) table
  by_cases hfs : f ∈ s.flags
  · obtain ⟨m, hm⟩ := PC.poll_ok (popSuf_closed s.popLog).toClosedB (hinjS _) s ⟨[], rfl⟩
    exact ⟨m, hm, fun hnf => absurd ((mono_poll hgm s).flags f hfs) hnf⟩
  · obtain ⟨hch, _⟩ := pending_of_not_raised h hF i0 st0 f hk hacc hfs
    -- the oldest pending record of the context
    cases hcc : chain (s.th i0) with
    | nil => rw [hcc] at hch; cases hch
    | cons h0 tl =>
      have hd : (chain (s.th i0)).head? = some h0 := by rw [hcc]; rfl
      have hripe : h0.ts + c.grace ≤ s.now := by
        rw [hg0]; exact h.leNow i0 h0 (by rw [hcc]; exact List.mem_cons_self ..)
      obtain ⟨_, hb, hc, hcnt⟩ := populate_conc hi (injGrow_runInj table) h i0 h0 hd hripe
      obtain ⟨flp, Cp, hpp⟩ := PIo.populate hi h
      have hP1 : PIo c flp (populate (runInj table) s).1 := hpp.toPIo
      have hF1 : FI none [] (populate (runInj table) s).1 := hF.populate (injOK2_runInj table)
      have hacc1 : st0 ∈ ((populate (runInj table) s).1.th i0).accepted := (mono_populate hgm s).mem_acc hacc
      have hpl1 := populate_popLog (PC.runInj_popLog table) s
      have htail := mono_poll_tail hgm s
      unfold Backend.poll at htail ⊢
      rcases hpop : Backend.populate (runInj table) s with ⟨s1, count⟩
      rw [hpop] at hb hc hcnt hP1 hF1 hacc1 hpl1 htail
      simp only at hb hc hcnt hP1 hF1 hacc1 hpl1 htail ⊢
      rw [if_pos hcnt] at htail ⊢
      by_cases hf1 : f ∈ s1.flags
      · -- processed meanwhile: only the shape of the history is claimed
        have hsuf : PopSuf s1.popLog (if count < s1.cfg.soft then (Backend.processLowest (runInj table) s1).1
            else Backend.batchLoop (runInj table) (totalBuffered s1 + 64) s1) := by
          split
          · exact PC.processLowest_ok (popSuf_closed _).toClosedB (hinjS _) s1 ⟨[], rfl⟩
          · exact PC.batchLoop_ok (popSuf_closed _).toClosedB (hinjS _) _ s1 ⟨[], rfl⟩
        obtain ⟨m, hm⟩ := hsuf
        exact ⟨m, by rw [hm, hpl1], fun hnf => absurd (htail.flags f hf1) hnf⟩
      · obtain ⟨_, hfront⟩ := pending_of_not_raised hP1 hF1 i0 st0 f hk hacc1 hf1
        split
        · obtain ⟨st, hpl, hmin⟩ := processLowest_cons table s1 ⟨i0, hc, hb⟩
          have hle : st.ts ≤ st0.ts := by
            cases hbb : (s1.th i0).buf with
            | nil => exact absurd hbb hb
            | cons b bs => exact Nat.le_trans (hmin i0 hc b bs hbb) (hfront b bs hbb)
          exact ⟨[st], by rw [hpl, hpl1]; rfl, fun _ r hr => by rw [List.mem_singleton.mp hr]; exact hle⟩
        · obtain ⟨new, e1, e2⟩ := batchLoop_prio table hg0 i0 st0 f hk (totalBuffered s1 + 64) s1 flp hP1 hF1 hacc1
          exact ⟨new, by rw [e1, hpl1], e2⟩

/-- one operation of a schedule that leaves the backend running -/
theorem applyOp_prio (i0 : Nat) (st0 : Stmt) (f : Nat) (hk : st0.kind = .flush f) {s : BSt} (hG : GI s) (hF : FI none [] s)
    (hg0 : s.cfg.grace = 0) (hacc : st0 ∈ (s.th i0).accepted) (o : Op) (hrun : (applyOp s o).1.backendGone = false) :
    ∃ new, (applyOp s o).1.popLog = new ++ s.popLog ∧ (f ∉ (applyOp s o).1.flags → ∀ r ∈ new, r.ts ≤ st0.ts) := by
  cases o with
  | front fo => exact ⟨[], PC.applyFront_popLog s fo, fun _ _ hr => by cases hr⟩
  | poll table =>
    simp only [applyOp] at hrun ⊢
    split
    · exact ⟨[], rfl, fun _ _ hr => by cases hr⟩
    · obtain ⟨fl, hI⟩ := hG
      have hI' : PIo s.cfg fl { s with siteCnt := [] } := hI.frame rfl
      have hF' : FI none [] { s with siteCnt := [] } := hF.frame rfl
      exact poll_prio table hg0 i0 st0 f hk hI' hF' hacc
  | exit =>
    simp only [applyOp] at hrun ⊢
    split
    · exact ⟨[], rfl, fun _ _ hr => by cases hr⟩
    · rename_i hgone
      rw [if_neg hgone] at hrun
      cases hrun

/-- **ordering disabled: nothing overtakes a pending Flush request.** Along any schedule that leaves the backend running, from
    a state in which the request `st0` (flag `f`) is accepted: the pop history only grows, and if the flag is still not raised
    at the end, every event popped meanwhile has a timestamp `≤ st0.ts`. -/
theorem runOps_prio (i0 : Nat) (st0 : Stmt) (f : Nat) (hk : st0.kind = .flush f) :
    ∀ (ops : List Op) (s : BSt), GI s → FI none [] s → s.cfg.grace = 0 → st0 ∈ (s.th i0).accepted →
      (runOps s ops).backendGone = false →
      ∃ new, (runOps s ops).popLog = new ++ s.popLog ∧ (f ∉ (runOps s ops).flags → ∀ r ∈ new, r.ts ≤ st0.ts)
  | [], s, _, _, _, _, _ => ⟨[], rfl, fun _ _ hr => by cases hr⟩
  | o :: os, s, hG, hF, hg0, hacc, hrun => by
    have e : runOps s (o :: os) = runOps (applyOp s o).1 os := by simp [runOps]
    rw [e] at hrun ⊢
    have m1 := mono_applyOp s o
    have m2 := mono_runOps os (applyOp s o).1
    have hrun1 : (applyOp s o).1.backendGone = false := by
      cases hb : (applyOp s o).1.backendGone with
      | false => rfl
      | true => have := m2.gone hb; rw [hrun] at this; cases this
    have hcfg : (applyOp s o).1.cfg = s.cfg := by
      have := hG.cfg_runOps [o]
      simpa [runOps] using this
    obtain ⟨n1, a1, a2⟩ := applyOp_prio i0 st0 f hk hG hF hg0 hacc o hrun1
    obtain ⟨n2, b1, b2⟩ := runOps_prio i0 st0 f hk os (applyOp s o).1 (hG.applyOp o) (hF.applyOp o) (by rw [hcfg]; exact hg0)
      (m1.mem_acc hacc) hrun
    refine ⟨n2 ++ n1, by rw [b1, a1, List.append_assoc], fun hnf r hr => ?_⟩
    rcases List.mem_append.mp hr with h1 | h1
    · exact b2 hnf r h1
    · exact a2 (fun hc => hnf (m2.flags f hc)) r h1

/-! ### counting -/

theorem sum_map_add {α} (l : List α) (f g h : α → Nat) (hh : ∀ x ∈ l, f x = g x + h x) :
    (l.map f).sum = (l.map g).sum + (l.map h).sum := by
  induction l with
  | nil => simp
  | cons x xs ih =>
    have h1 := hh x (List.mem_cons_self ..)
    have h2 := ih (fun y hy => hh y (List.mem_cons_of_mem _ hy))
    simp only [List.map_cons, List.sum_cons]; omega

/-- what was accepted with a timestamp `≤ T` is exactly what was popped with such a timestamp plus what is pending with one -/
theorem accLE_eq {s : BSt} (hF : FI none [] s) (T : Nat) :
    accLE s T = PA.cntP s (fun r => decide (r.ts ≤ T)) + pendingLE s T := by
  unfold accLE PA.cntP pendingLE
  apply sum_map_add
  intro t ht
  obtain ⟨j, _, hj⟩ := mem_ths s ht
  have hc := hF.cons j
  rw [hj] at hc
  rw [hc, List.append_assoc, List.countP_append]

/-- the bound, ordering disabled: while the request is not processed, fewer events have been popped since state `s` than
    records with a timestamp `≤ st0.ts` were pending in `s` (nothing older arriving meanwhile) -/
theorem prio_bound {s s' : BSt} (hA : PA.Inv s) (hA' : PA.Inv s') (hF : FI none [] s) (hF' : FI none [] s')
    (i0 : Nat) (st0 : Stmt) (new : List Stmt) (hpl : s'.popLog = new ++ s.popLog) (hle : ∀ r ∈ new, r.ts ≤ st0.ts)
    (hch : st0 ∈ chain (s'.th i0)) (hconst : accLE s' st0.ts = accLE s st0.ts) : new.length < pendingLE s st0.ts := by
  have h1 := hA'.p (fun r => decide (r.ts ≤ st0.ts))
  have h0 := hA.p (fun r => decide (r.ts ≤ st0.ts))
  rw [hpl, List.countP_append, List.countP_eq_length.mpr (fun r hr => by simpa using hle r hr)] at h1
  have e' := accLE_eq hF' st0.ts
  have e := accLE_eq hF st0.ts
  have hpos : 0 < pendingLE s' st0.ts := by
    unfold pendingLE
    have hlt : i0 < s'.ths.length := by
      apply Classical.byContradiction; intro hn
      rw [th_lt_or_default s' i0 (by omega)] at hch; cases hch
    have hm : ((s'.th i0).buf ++ (s'.th i0).qStmts).countP (fun r => decide (r.ts ≤ st0.ts)) ∈
        s'.ths.map (fun t => (t.buf ++ t.qStmts).countP (fun r => decide (r.ts ≤ st0.ts))) :=
      List.mem_map.mpr ⟨s'.th i0, th_mem s' hlt, rfl⟩
    have h2 := mem_le_sum _ _ hm
    have h3 : 0 < ((s'.th i0).buf ++ (s'.th i0).qStmts).countP (fun r => decide (r.ts ≤ st0.ts)) :=
      List.countP_pos_iff.mpr ⟨st0, hch, by simp⟩
    omega
  omega

end Backend.PB
