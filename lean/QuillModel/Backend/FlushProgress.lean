import QuillModel.Backend.FlushGate
import QuillModel.Backend.FlushStep
/-!
# Progress of the backend under a quiet runner (C06: `flush_log()` returns as long as the backend keeps running)

A *quiet* injection runner performs no frontend operation at the hook sites (`runInj []`). Under a quiet runner, with
every pending record past its grace period (`Ripe`), every poll that finds a pending record pops at least one
event; no record is added; hence after as many polls as there are pending records everything has been popped — in
particular a Flush statement, whose flag is then raised (`FI.popFlag`).
-/
namespace Backend.PB
open Backend

/-- the injection runner does nothing but count the visit -/
def Quiet (inj : BSt → Nat → BSt) : Prop := ∀ s k, ∃ x, inj s k = { s with siteCnt := x }

theorem quiet_runInj_nil : Quiet (runInj []) := by
  intro s k
  exact ⟨_, rfl⟩

theorem Quiet.injOK {inj : BSt → Nat → BSt} (hq : Quiet inj) : InjOK inj := by
  intro c fl T C s site h
  obtain ⟨x, hx⟩ := hq s site
  rw [hx]; exact h.frame rfl

theorem Quiet.injOK2 {inj : BSt → Nat → BSt} (hq : Quiet inj) : InjOK2 inj := by
  intro pf s site h
  obtain ⟨x, hx⟩ := hq s site
  rw [hx]; exact h.frame rfl

/-! ### what a quiet backend step may do to the pending records -/

/-- per context: the pending records (buffer ++ queue) lose a prefix at most, the buffer is otherwise only
    extended, the histories are kept -/
structure ThSub (t t' : Th) : Prop where
  chain : chain t' <:+ chain t
  acc : t'.accepted = t.accepted

/-- `s'` is reached from `s` by quiet backend steps -/
structure Sub (s s' : BSt) : Prop where
  cfg : s'.cfg = s.cfg
  now : s.now ≤ s'.now
  len : s'.ths.length = s.ths.length
  gone : s'.backendGone = s.backendGone
  flags : ∀ f ∈ s.flags, f ∈ s'.flags
  th : ∀ j, ThSub (s.th j) (s'.th j)

theorem ThSub.refl (t : Th) : ThSub t t := ⟨List.suffix_refl _, rfl⟩
theorem ThSub.trans {a b c : Th} (h1 : ThSub a b) (h2 : ThSub b c) : ThSub a c :=
  ⟨h2.chain.trans h1.chain, h2.acc.trans h1.acc⟩

theorem Sub.refl (s : BSt) : Sub s s := ⟨rfl, Nat.le_refl _, rfl, rfl, fun _ h => h, fun _ => ThSub.refl _⟩
theorem Sub.trans {a b c : BSt} (h1 : Sub a b) (h2 : Sub b c) : Sub a c :=
  ⟨h2.cfg.trans h1.cfg, Nat.le_trans h1.now h2.now, h2.len.trans h1.len, h2.gone.trans h1.gone,
   fun f hf => h2.flags f (h1.flags f hf), fun j => (h1.th j).trans (h2.th j)⟩

/-- stronger: nothing popped — the pending records of every context are the same list, buffers only grow by reading -/
structure ThFr (t t' : Th) : Prop where
  chain : chain t' = chain t
  buf : ∃ l, t'.buf = t.buf ++ l
  acc : t'.accepted = t.accepted

structure Fr (s s' : BSt) : Prop where
  cfg : s'.cfg = s.cfg
  now : s'.now = s.now
  len : s'.ths.length = s.ths.length
  gone : s'.backendGone = s.backendGone
  flags : s'.flags = s.flags
  reg : s'.registry = s.registry
  th : ∀ j, ThFr (s.th j) (s'.th j)

theorem ThFr.refl (t : Th) : ThFr t t := ⟨rfl, ⟨[], by simp⟩, rfl⟩
theorem ThFr.trans {a b c : Th} (h1 : ThFr a b) (h2 : ThFr b c) : ThFr a c := by
  obtain ⟨l1, e1⟩ := h1.buf
  obtain ⟨l2, e2⟩ := h2.buf
  exact ⟨h2.chain.trans h1.chain, ⟨l1 ++ l2, by rw [e2, e1, List.append_assoc]⟩, h2.acc.trans h1.acc⟩

theorem Fr.refl (s : BSt) : Fr s s := ⟨rfl, rfl, rfl, rfl, rfl, rfl, fun _ => ThFr.refl _⟩
theorem Fr.trans {a b c : BSt} (h1 : Fr a b) (h2 : Fr b c) : Fr a c :=
  ⟨h2.cfg.trans h1.cfg, h2.now.trans h1.now, h2.len.trans h1.len, h2.gone.trans h1.gone, h2.flags.trans h1.flags,
   h2.reg.trans h1.reg, fun j => (h1.th j).trans (h2.th j)⟩

theorem Fr.sub {s s' : BSt} (h : Fr s s') : Sub s s' :=
  ⟨h.cfg, Nat.le_of_eq h.now.symm, h.len, h.gone, fun f hf => by rw [h.flags]; exact hf,
   fun j => ⟨by rw [(h.th j).chain]; exact List.suffix_refl _, (h.th j).acc⟩⟩

/-- a state that differs from `s` in fields the pending records do not live in -/
theorem Fr.ofEq {s s' : BSt} (h1 : s'.cfg = s.cfg) (h2 : s'.now = s.now) (h3 : s'.ths = s.ths)
    (h4 : s'.backendGone = s.backendGone) (h5 : s'.flags = s.flags) (h6 : s'.registry = s.registry) : Fr s s' :=
  ⟨h1, h2, by rw [h3], h4, h5, h6, fun j => by
    have : s'.th j = s.th j := by simp only [BSt.th, h3]
    rw [this]; exact ThFr.refl _⟩

theorem Fr.quiet {inj : BSt → Nat → BSt} (hq : Quiet inj) (s : BSt) (k : Nat) : Fr s (inj s k) := by
  obtain ⟨x, hx⟩ := hq s k
  rw [hx]; exact Fr.ofEq rfl rfl rfl rfl rfl rfl

theorem Fr.setTh (s : BSt) (i : Nat) (f : Th → Th) (hf : ThFr (s.th i) (f (s.th i))) : Fr s (s.setTh i f) := by
  refine ⟨rfl, rfl, length_setTh s i f, rfl, rfl, rfl, fun j => ?_⟩
  rcases th_setTh_cases s i j f with h1 | ⟨rfl, _, h1⟩
  · rw [h1]; exact ThFr.refl _
  · rw [h1]; exact hf

/-- a context update that touches neither buffer, queue list nor history -/
theorem ThFr.ofSame {t t' : Th} (hb : t'.buf = t.buf) (hq : t'.qStmts = t.qStmts) (ha : t'.accepted = t.accepted) :
    ThFr t t' := ⟨by simp only [PB.chain, hb, hq], ⟨[], by simp [hb]⟩, ha⟩

/-! ### the number of pending records -/

/-- records accepted by some queue and not yet popped, over all contexts -/
def pendingCount (s : BSt) : Nat := ((List.range s.ths.length).map (fun j => (chain (s.th j)).length)).sum

theorem sum_range_le (n : Nat) (f g : Nat → Nat) (h : ∀ j, j < n → f j ≤ g j) :
    ((List.range n).map f).sum ≤ ((List.range n).map g).sum := by
  induction n with
  | zero => simp
  | succ n ih =>
    rw [List.range_succ, List.map_append, List.map_append, List.sum_append, List.sum_append]
    have := ih (fun j hj => h j (Nat.lt_succ_of_lt hj))
    have := h n (Nat.lt_succ_self n)
    simp; omega

theorem sum_range_lt (n : Nat) (f g : Nat → Nat) (h : ∀ j, j < n → f j ≤ g j) (j0 : Nat) (hj0 : j0 < n)
    (hlt : f j0 < g j0) : ((List.range n).map f).sum < ((List.range n).map g).sum := by
  induction n with
  | zero => cases hj0
  | succ n ih =>
    rw [List.range_succ, List.map_append, List.map_append, List.sum_append, List.sum_append]
    have hle := sum_range_le n f g (fun j hj => h j (Nat.lt_succ_of_lt hj))
    have hn := h n (Nat.lt_succ_self n)
    by_cases e : j0 = n
    · subst e; simp; omega
    · have := ih (fun j hj => h j (Nat.lt_succ_of_lt hj)) (by omega)
      simp; omega

theorem Sub.pending_le {s s' : BSt} (h : Sub s s') : pendingCount s' ≤ pendingCount s := by
  unfold pendingCount
  rw [h.len]
  exact sum_range_le _ _ _ (fun j _ => (h.th j).chain.length_le)

theorem Sub.pending_lt {s s' : BSt} (h : Sub s s') (j : Nat) (hj : j < s.ths.length)
    (hlt : (chain (s'.th j)).length < (chain (s.th j)).length) : pendingCount s' < pendingCount s := by
  unfold pendingCount
  rw [h.len]
  exact sum_range_lt _ _ _ (fun j _ => (h.th j).chain.length_le) j hj hlt

theorem mem_le_sum : ∀ (l : List Nat) (x : Nat), x ∈ l → x ≤ l.sum
  | [], _, h => by cases h
  | y :: ys, x, h => by
    rcases List.mem_cons.mp h with rfl | h
    · simp
    · have := mem_le_sum ys x h; simp; omega

theorem pending_zero {s : BSt} (h : pendingCount s = 0) (j : Nat) : chain (s.th j) = [] := by
  by_cases hj : j < s.ths.length
  · unfold pendingCount at h
    have : (chain (s.th j)).length ≤ ((List.range s.ths.length).map (fun j => (chain (s.th j)).length)).sum :=
      mem_le_sum _ _ (List.mem_map.mpr ⟨j, List.mem_range.mpr hj, rfl⟩)
    exact List.eq_nil_of_length_eq_zero (by omega)
  · rw [th_lt_or_default s j (by omega)]; rfl

/-- every pending record is past its grace period (trivially so when ordering is disabled) -/
def Ripe (s : BSt) : Prop := ∀ j, ∀ r ∈ chain (s.th j), r.ts + s.cfg.grace ≤ s.now

theorem Sub.ripe {s s' : BSt} (h : Sub s s') (hr : Ripe s) : Ripe s' := by
  intro j r hr'
  have := hr j r ((h.th j).chain.subset hr')
  rw [h.cfg]; have := h.now; omega

/-! ### reading a queue under a quiet runner -/

variable {inj : BSt → Nat → BSt}

theorem fr_rqPrep (s : BSt) (i : Nat) : Fr s (rqPrep s i) := Fr.setTh s i _ (ThFr.ofSame rfl rfl rfl)
theorem fr_rqCommit (s : BSt) (i : Nat) : Fr s (rqCommit s i) := Fr.setTh s i _ (ThFr.ofSame rfl rfl rfl)
theorem fr_rqFin (s : BSt) (i total : Nat) : Fr s (rqFin s i total) := by
  unfold rqFin; split
  · exact fr_rqCommit s i
  · exact Fr.refl _

theorem rqDecode_ths (s : BSt) (st : Stmt) : (rqDecode s st).ths = s.ths := by
  unfold rqDecode; split <;> rfl

theorem fr_rqDecode (s : BSt) (st : Stmt) : Fr s (rqDecode s st) := by
  unfold rqDecode; split
  · exact Fr.ofEq rfl rfl rfl rfl rfl rfl
  · exact Fr.refl _

theorem fr_rqMove (s : BSt) (i : Nat) (st : Stmt) (rest : List Stmt) (hq : (s.th i).qStmts = st :: rest) :
    Fr s (rqMove s i st rest) ∧ ((rqMove s i st rest).th i).buf ≠ [] := by
  suffices h0 : Fr s (rqMove0 s i st rest) ∧ ((rqMove0 s i st rest).th i).buf ≠ [] by
    unfold PB.rqMove fmtNote
    split
    · exact ⟨h0.1.trans (Fr.ofEq rfl rfl rfl rfl rfl rfl), h0.2⟩
    · exact h0
  have hlt : i < s.ths.length := by
    apply Classical.byContradiction; intro hn
    rw [th_lt_or_default s i (by omega)] at hq; cases hq
  unfold PB.rqMove0
  have h1 := (fr_rqPrep s i).trans (fr_rqDecode (rqPrep s i) st)
  have hq2 : ((rqDecode (rqPrep s i) st).th i).qStmts = st :: rest := by
    have e1 : (rqDecode (rqPrep s i) st).th i = (rqPrep s i).th i := by
      simp only [BSt.th, rqDecode_ths]
    rw [e1, ((same_rqPrep s i).th i).q]; exact hq
  have hlt2 : i < (rqDecode (rqPrep s i) st).ths.length := by rw [h1.len]; exact hlt
  generalize rqDecode (rqPrep s i) st = s2 at h1 hq2 hlt2 ⊢
  refine ⟨h1.trans (Fr.setTh s2 i _ ⟨?_, ⟨[st], rfl⟩, rfl⟩), ?_⟩
  · show ((s2.th i).buf ++ [st]) ++ rest = (s2.th i).buf ++ (s2.th i).qStmts
    rw [hq2]; simp
  · rw [th_setTh_same s2 _ hlt2]
    show (s2.th i).buf ++ [st] ≠ []
    simp

/-- under a quiet runner, reading a queue pops nothing and adds nothing: it only moves records to the buffer -/
theorem fr_readQueue (hq : Quiet inj) (tsNow : Option Nat) (i : Nat) (fuel : Nat) :
    ∀ (total : Nat) (s : BSt), Fr s (Backend.readQueue inj tsNow i fuel total s) := by
  induction fuel with
  | zero => intro total s; rw [readQueue_zero]; exact fr_rqFin s i total
  | succ n ih =>
    intro total s
    rw [readQueue_succ]
    have hfin := fun tot => (fr_rqPrep s i).trans (fr_rqFin (rqPrep s i) i tot)
    split
    · exact hfin total
    · split
      · exact hfin total
      · rename_i st rest hqs
        split
        · exact hfin total
        · have h3 := (fr_rqMove s i st rest hqs).1.trans (Fr.quiet hq _ 3)
          split
          · exact h3.trans (ih _ _)
          · exact h3.trans (fr_rqCommit _ i)

theorem Fr.buf_ne {s s' : BSt} (h : Fr s s') {j : Nat} (hb : (s.th j).buf ≠ []) : (s'.th j).buf ≠ [] := by
  obtain ⟨l, e⟩ := (h.th j).buf
  rw [e]; intro he; exact hb (List.append_eq_nil_iff.mp he).1

/-- the do-while rule, for progress: a context with a pending record, all of them past the grace period, has a
    non-empty buffer after its read -/
theorem readQueue_nonempty (hq : Quiet inj) (tsNow : Option Nat) (i fuel total : Nat) (s : BSt)
    (hqc : QC (s.th i)) (hel : ∀ st ∈ chain (s.th i), rqLate tsNow st = false)
    (hne : chain (s.th i) ≠ []) : ((Backend.readQueue inj tsNow i (fuel + 1) total s).th i).buf ≠ [] := by
  by_cases hb : (s.th i).buf = []
  · -- the buffer is empty, so the queue is not: its front is offered and eligible
    have hqs : (s.th i).qStmts ≠ [] := by
      intro he; apply hne; simp [chain, hb, he]
    rw [readQueue_succ]
    have hrd : (qPrepareRead s.cfg (s.th i).q).2 = true := by
      cases hr : (qPrepareRead s.cfg (s.th i).q).2 with
      | true => rfl
      | false =>
        exfalso
        have e1 := qPrepareRead_false _ _ hr
        have e2 := hqc.sum
        rw [e1] at e2
        cases hqq : (s.th i).qStmts with
        | nil => exact hqs hqq
        | cons y ys =>
          have := hqc.pos y (by rw [hqq]; exact List.mem_cons_self ..)
          rw [hqq] at e2; simp at e2; omega
    rw [if_neg (by simp [hrd])]
    cases hqq : (s.th i).qStmts with
    | nil => exact absurd hqq hqs
    | cons st rest =>
      simp only
      have hst : rqLate tsNow st = false := hel st (by simp [chain, hqq])
      rw [if_neg (by simp [hst])]
      have h3 := (fr_rqMove s i st rest hqq)
      have h4 : ((inj (rqMove s i st rest) 3).th i).buf ≠ [] := (Fr.quiet hq _ 3).buf_ne h3.2
      split
      · exact (fr_readQueue hq tsNow i fuel _ _).buf_ne h4
      · exact (fr_rqCommit _ i).buf_ne h4
  · exact (fr_readQueue hq tsNow i (fuel + 1) total s).buf_ne hb

/-! ### a pass under a quiet runner -/

variable {c : Cfg} {fl : Nat} {T : Nat → Prop} {C : List Nat} {s : BSt}

theorem refresh_newFlag (s : BSt) : (refreshCache s).newFlag = false := by
  unfold refreshCache; split
  · rfl
  · rename_i h; simpa using h

theorem fr_refresh (s : BSt) : Fr s (refreshCache s) := by
  unfold refreshCache; split
  · exact Fr.ofEq rfl rfl rfl rfl rfl rfl
  · exact Fr.refl _

theorem quiet_newFlag (hq : Quiet inj) (s : BSt) (k : Nat) : (inj s k).newFlag = s.newFlag := by
  obtain ⟨x, hx⟩ := hq s k; rw [hx]

theorem rqLate_of_ripe (sb : BSt) (st : Stmt) (h : st.ts + sb.cfg.grace ≤ sb.now) : rqLate (tsNowOf sb) st = false := by
  unfold tsNowOf
  split
  · rfl
  · simp only [rqLate, decide_eq_false_iff_not]; omega

theorem pop_fold_quiet (hq : Quiet inj) (tsNow : Option Nat)
    (htn : c.grace ≠ 0 → c.refreshAfterSample = true → tsNow = some fl) (now0 : Nat)
    (hel : ∀ st : Stmt, st.ts + c.grace ≤ now0 → rqLate tsNow st = false) (l : List Nat) :
    ∀ (acc : BSt × Nat) (T : Nat → Prop), (∀ i ∈ l, i ∈ C) → PI c none fl T C acc.1 → Ripe acc.1 → acc.1.now = now0 →
      Fr acc.1 (l.foldl (popStep inj tsNow) acc).1 ∧
      (∀ i ∈ l, chain ((l.foldl (popStep inj tsNow) acc).1.th i) ≠ [] → ((l.foldl (popStep inj tsNow) acc).1.th i).buf ≠ []) ∧
      acc.2 ≤ (l.foldl (popStep inj tsNow) acc).2 ∧
      ((∃ i ∈ l, chain ((l.foldl (popStep inj tsNow) acc).1.th i) ≠ []) → acc.2 < (l.foldl (popStep inj tsNow) acc).2) := by
  have hi := hq.injOK
  induction l with
  | nil =>
    intro acc T _ _ _ _
    exact ⟨Fr.refl _, (fun i hi' => by cases hi'), Nat.le_refl _, (fun ⟨i, hi', _⟩ => by cases hi')⟩
  | cons x xs ih =>
    intro acc T hl h hr hnow
    rw [List.foldl_cons]
    have h1 := hi _ _ _ _ _ 2 h
    have fA : Fr acc.1 (inj acc.1 2) := Fr.quiet hq _ 2
    have hstep : popStep inj tsNow acc x =
        (Backend.readQueue inj tsNow x ((((inj acc.1 2).th x).qStmts.length + 63) + 1) 0 (inj acc.1 2),
         acc.2 + ((Backend.readQueue inj tsNow x ((((inj acc.1 2).th x).qStmts.length + 63) + 1) 0 (inj acc.1 2)).th x).buf.length) := rfl
    rw [hstep]
    generalize hsB : Backend.readQueue inj tsNow x ((((inj acc.1 2).th x).qStmts.length + 63) + 1) 0 (inj acc.1 2) = sB
    have h2 : PI c none fl (fun j => T j ∧ j ≠ x) C sB := by
      rw [← hsB]; exact h1.readQueue_first hi tsNow htn x (hl x (List.mem_cons_self ..)) _ _ _
    have fB : Fr (inj acc.1 2) sB := by rw [← hsB]; exact fr_readQueue hq tsNow x _ _ _
    have fAB := fA.trans fB
    have hrB : Ripe sB := fAB.sub.ripe hr
    obtain ⟨i1, i2, i3, i4⟩ := ih (sB, acc.2 + (sB.th x).buf.length) _ (fun i hi' => hl i (List.mem_cons_of_mem _ hi')) h2 hrB
      (by rw [fAB.now]; exact hnow)
    -- context x after its read
    have hx : chain (sB.th x) ≠ [] → (sB.th x).buf ≠ [] := by
      intro hne
      rw [← hsB]
      refine readQueue_nonempty hq tsNow x _ 0 _ (h1.qc x) ?_ (by rw [← (fB.th x).chain]; exact hne)
      intro st hst
      apply hel
      have := (fA.sub.ripe hr) x st hst
      rw [h1.cfgEq, fA.now, hnow] at this; exact this
    refine ⟨fAB.trans i1, ?_, by simp only at i3; omega, ?_⟩
    · intro i hi' hne
      rcases List.mem_cons.mp hi' with rfl | hi'
      · exact i1.buf_ne (hx (by rw [← (i1.th i).chain]; exact hne))
      · exact i2 i hi' hne
    · rintro ⟨i, hi', hne⟩
      simp only at i3 i4
      rcases List.mem_cons.mp hi' with rfl | hi'
      · have hb := hx (by rw [← (i1.th i).chain]; exact hne)
        have : 0 < (sB.th i).buf.length := List.length_pos_iff.mpr hb
        omega
      · have := i4 ⟨i, hi', hne⟩; omega

/-- after a quiet pass: nothing popped or added, and every registered context with a pending record has a non-empty
    transit buffer; the pass reports a non-zero count if there is such a context -/
theorem populate_quiet (hq : Quiet inj) (h : PIo c fl s) (hr : Ripe s) :
    Fr s (populate inj s).1 ∧ (∃ fl' C', PI c none fl' (fun _ => False) C' (populate inj s).1) ∧
    (∀ i ∈ (populate inj s).1.registry, chain ((populate inj s).1.th i) ≠ [] → ((populate inj s).1.th i).buf ≠ []) ∧
    ((∃ i ∈ (populate inj s).1.registry, chain ((populate inj s).1.th i) ≠ []) → (populate inj s).2 ≠ 0) := by
  have hi := hq.injOK
  refine ⟨?_, PIo.populate hi h, ?_⟩
  all_goals rw [populate_eq]
  all_goals unfold popC
  all_goals
    have fa : Fr s (popA s) := by
      unfold popA; split
      · exact Fr.refl _
      · exact fr_refresh s
    have ha : PIo c fl (popA s) := by
      unfold popA; split
      · exact h
      · exact h.refresh
    have fb : Fr (popA s) (popB inj s) := by
      unfold popB; split
      · exact Fr.refl _
      · exact Fr.quiet hq _ 7
    have hb : PIo c fl (popB inj s) := by
      unfold popB; split
      · exact ha
      · exact hi.pio ha 7
    have hnf : s.cfg.refreshAfterSample = false → (popB inj s).newFlag = false := by
      intro hras
      have e1 : (popA s).newFlag = false := by
        unfold popA; rw [if_neg (by simp [hras])]; exact refresh_newFlag s
      unfold popB; split
      · exact e1
      · rw [quiet_newFlag hq]; exact e1
    have fab := fa.trans fb
    have hrb : Ripe (popB inj s) := fab.sub.ripe hr
    have hcfgb : (popB inj s).cfg = s.cfg := fab.cfg
    generalize popB inj s = sb at hb fab hrb hnf hcfgb ⊢
    have hcfg : sb.cfg = c := hb.cfgEq
    let fl' := sb.now - sb.cfg.grace
    have hb' : PI c none fl' (fun _ => True) sb.cache sb := hb.newFloor fl' hb.floorNow (Nat.le_refl _)
    have htn : c.grace ≠ 0 → c.refreshAfterSample = true → tsNowOf sb = some fl' := by
      intro hg0 _
      unfold tsNowOf
      rw [if_neg (by rw [hcfg]; exact hg0)]
    have h1 := hi _ _ _ _ _ 1 hb'
    have f1 : Fr sb (inj sb 1) := Fr.quiet hq _ 1
    have h2 : PI c none fl' (fun i => i ∈ (if sb.cfg.refreshAfterSample = true then refreshCache (inj sb 1) else inj sb 1).cache)
        (if sb.cfg.refreshAfterSample = true then refreshCache (inj sb 1) else inj sb 1).cache
        (if sb.cfg.refreshAfterSample = true then refreshCache (inj sb 1) else inj sb 1) := by
      by_cases good : c.grace ≠ 0 ∧ c.refreshAfterSample = true
      · rw [if_pos (by rw [hcfg]; exact good.2)]
        exact h1.refresh.weakenT (fun i hi' => hi'.2)
      · split
        · exact h1.refresh.anyT good
        · exact h1.toPIo.anyT good
    have f2 : Fr sb (if sb.cfg.refreshAfterSample = true then refreshCache (inj sb 1) else inj sb 1) := by
      split
      · exact f1.trans (fr_refresh _)
      · exact f1
    have hfresh : ∀ i ∈ (if sb.cfg.refreshAfterSample = true then refreshCache (inj sb 1) else inj sb 1).registry,
        i ∈ (if sb.cfg.refreshAfterSample = true then refreshCache (inj sb 1) else inj sb 1).cache := by
      split
      · exact refresh_fresh h1
      · rename_i hras
        refine h1.fresh ?_
        rw [quiet_newFlag hq]
        exact hnf (by rw [← hcfgb]; simpa using hras)
    generalize (if sb.cfg.refreshAfterSample = true then refreshCache (inj sb 1) else inj sb 1) = s2 at h2 f2 hfresh ⊢
    have hr2 : Ripe s2 := f2.sub.ripe hrb
    obtain ⟨g1, g2, g3, g4⟩ := pop_fold_quiet hq (tsNowOf sb) htn sb.now
      (fun st hst => rqLate_of_ripe sb st (by rw [hcfg]; exact hst)) s2.cache (s2, 0) _ (fun i hi' => hi') h2 hr2 f2.now
  · exact (fab.trans f2).trans g1
  · refine ⟨fun i hir hne => g2 i (hfresh i (by rw [← g1.reg]; exact hir)) hne, ?_⟩
    rintro ⟨i, hir, hne⟩
    have := g4 ⟨i, hfresh i (by rw [← g1.reg]; exact hir), hne⟩
    simp only at this
    omega

/-! ### the other backend functions under a quiet runner -/

theorem SLOL.fr {s s' : BSt} (h : SLOL s s') : Fr s s' := by
  obtain ⟨a, b, c, d, rfl⟩ := h
  exact Fr.ofEq rfl rfl rfl rfl rfl rfl

theorem fr_fold {α} (F : BSt → α → BSt) (hF : ∀ s x, Fr s (F s x)) (l : List α) (s : BSt) : Fr s (l.foldl F s) := by
  induction l generalizing s with
  | nil => exact Fr.refl _
  | cons x xs ih => rw [List.foldl_cons]; exact (hF s x).trans (ih _)

theorem fr_fold_pair {α β} (F : BSt × β → α → BSt × β) (l : List α) (acc : BSt × β)
    (hF : ∀ acc x, Fr acc.1 (F acc x).1) : Fr acc.1 (l.foldl F acc).1 := by
  induction l generalizing acc with
  | nil => exact Fr.refl _
  | cons x xs ih => rw [List.foldl_cons]; exact (hF acc x).trans (ih _)

theorem fr_checkFailures (hq : Quiet inj) (s : BSt) : Fr s (Backend.checkFailures inj s) := by
  unfold Backend.checkFailures
  apply fr_fold
  intro b i
  simp only
  split
  · refine Fr.trans ?_ (Fr.quiet hq _ 8)
    exact (Fr.setTh b i _ (ThFr.ofSame rfl rfl rfl)).trans (Fr.ofEq rfl rfl rfl rfl rfl rfl)
  · exact Fr.refl _

theorem fr_ctxEmpty (s : BSt) (i : Nat) : Fr s (ctxEmpty s i).1 := by
  unfold ctxEmpty; exact Fr.setTh s i _ (ThFr.ofSame rfl rfl rfl)

theorem fr_allEmpty (s : BSt) : Fr s (Backend.allEmpty s).1 := by
  unfold Backend.allEmpty
  exact (fr_refresh s).trans (fr_fold_pair _ _ (refreshCache s, true) (fun acc x => fr_ctxEmpty acc.1 x))

theorem fr_hpStep (acc : BSt × Bool) (i : Nat) : Fr acc.1 (hpStep acc i).1 := by
  unfold hpStep
  split
  · exact Fr.refl _
  · split
    · exact Fr.setTh _ _ _ (ThFr.ofSame rfl rfl rfl)
    · exact Fr.refl _

theorem fr_hasPending (s : BSt) : Fr s (Backend.hasPending s).1 := by
  rw [hasPending_eq]
  exact (fr_refresh s).trans (fr_fold_pair _ _ (refreshCache s, false) fr_hpStep)

/-- a step that keeps every context's pending records and histories, and may change registry, cache, counters -/
theorem Sub.ofTh {s s' : BSt} (h1 : s'.cfg = s.cfg) (h2 : s'.now = s.now) (h3 : s'.ths.length = s.ths.length)
    (h4 : s'.backendGone = s.backendGone) (h5 : ∀ f ∈ s.flags, f ∈ s'.flags) (h6 : ∀ j, ThFr (s.th j) (s'.th j)) : Sub s s' :=
  ⟨h1, Nat.le_of_eq h2.symm, h3, h4, h5, fun j => ⟨by rw [(h6 j).chain]; exact List.suffix_refl _, (h6 j).acc⟩⟩

theorem sub_setTh_of (s S : BSt) (i : Nat) (g : Th → Th) (h1 : S.cfg = s.cfg) (h2 : S.now = s.now) (h3 : S.ths = s.ths)
    (h4 : S.backendGone = s.backendGone) (h5 : S.flags = s.flags) (hg : ∀ t, ThFr t (g t)) : Sub s (S.setTh i g) := by
  refine Sub.ofTh h1 h2 (by rw [length_setTh, h3]) h4 (fun f hf => by show f ∈ S.flags; rw [h5]; exact hf) (fun j => ?_)
  have e : s.th j = S.th j := by simp only [BSt.th, h3]
  rw [e]
  rcases th_setTh_cases S i j g with h1 | ⟨rfl, _, h1⟩
  · rw [h1]; exact ThFr.refl _
  · rw [h1]; exact hg _

theorem fr_findFirst (s : BSt) (l : List Nat) : Fr s (cleanupContexts.go.findFirst s l).1 := by
  induction l generalizing s with
  | nil => exact Fr.refl _
  | cons x xs ih =>
    unfold cleanupContexts.go.findFirst
    split
    · exact ih s
    · simp only
      split
      · exact fr_ctxEmpty s x
      · exact (fr_ctxEmpty s x).trans (ih _)

theorem sub_cleanupGo (fuel : Nat) (s : BSt) : Sub s (cleanupContexts.go fuel s) := by
  induction fuel generalizing s with
  | zero => exact Sub.refl _
  | succ n ih =>
    unfold cleanupContexts.go
    have f1 := fr_findFirst s s.cache
    split
    · rename_i s1 heq; rw [heq] at f1; exact f1.sub
    · rename_i s1 i heq; rw [heq] at f1
      refine f1.sub.trans (Sub.trans ?_ (ih _))
      apply sub_setTh_of
      · rfl
      · rfl
      · rfl
      · rfl
      · rfl
      · intro t; exact ThFr.ofSame rfl rfl rfl

theorem sub_cleanupContexts (s : BSt) : Sub s (Backend.cleanupContexts s) := by
  unfold Backend.cleanupContexts
  split
  · exact Sub.refl _
  · exact sub_cleanupGo _ _

theorem fr_reapSinksInj (hq : Quiet inj) (l : List Nat) (s : BSt) : Fr s (reapSinksInj inj s l) := by
  unfold Backend.reapSinksInj
  apply fr_fold
  intro b sid
  split
  · refine Fr.trans ?_ (Fr.quiet hq _ 9)
    exact Fr.ofEq rfl rfl rfl rfl rfl rfl
  · exact Fr.refl _

theorem sub_fold {α} (F : BSt → α → BSt) (hF : ∀ s x, Sub s (F s x)) (l : List α) (s : BSt) : Sub s (l.foldl F s) := by
  induction l generalizing s with
  | nil => exact Sub.refl _
  | cons x xs ih => rw [List.foldl_cons]; exact (hF s x).trans (ih _)

theorem sub_cleanupLoggers (hq : Quiet inj) (s : BSt) : Sub s (Backend.cleanupLoggers inj s) := by
  unfold Backend.cleanupLoggers
  split
  · exact Sub.refl _
  · simp only
    refine Sub.trans (Fr.sub ?_) (sub_fold _ ?_ _ _)
    · refine Fr.trans (Fr.ofEq (s' := { s with hasInvalidLoggers := false }) rfl rfl rfl rfl rfl rfl) ?_
      refine fr_fold_pair _ _ ({ s with hasInvalidLoggers := false }, []) ?_
      intro acc i
      split
      · exact Fr.refl _
      · split
        · refine (fr_allEmpty _).trans (Fr.trans ?_ (fr_reapSinksInj hq _ _))
          exact Fr.ofEq rfl rfl rfl rfl rfl rfl
        · exact (fr_allEmpty _).trans (Fr.ofEq rfl rfl rfl rfl rfl rfl)
    · intro b a
      split
      · exact Sub.ofTh rfl rfl rfl rfl (fun _ h => List.mem_cons_of_mem _ h) (fun _ => ThFr.refl _)
      · exact Sub.refl _

/-! ### popping under a quiet runner -/

theorem lowest_none {s : BSt} (h : lowest s = none) : ∀ i ∈ s.cache, (s.th i).buf = [] := by
  rw [lowest_eq] at h
  have := low_fold s s.cache none (fun _ => False) (fun i hi => hi.elim)
  cases hr : List.foldl (lowStep s) none s.cache with
  | none => rw [hr] at this; exact fun i hi => this i (Or.inr hi)
  | some jm => rw [hr] at h; cases h

/-- the pop itself: context `j` loses the front of its buffer, nothing else changes for the pending records -/
theorem sub_plPop (s : BSt) (j : Nat) (st : Stmt) (rest : List Stmt) (hb : (s.th j).buf = st :: rest) :
    Sub s (plPop s j st rest) ∧ pendingCount (plPop s j st rest) < pendingCount s := by
  have hlt : j < s.ths.length := by
    apply Classical.byContradiction; intro hn
    rw [th_lt_or_default s j (by omega)] at hb; cases hb
  unfold plPop
  have hth : ∀ i, ({ s.setTh j (fun t => { t with buf := rest, popped := t.popped ++ [st] }) with popLog := st :: s.popLog } : BSt).th i =
      (s.setTh j (fun t => { t with buf := rest, popped := t.popped ++ [st] })).th i := fun _ => rfl
  have hsub : Sub s { s.setTh j (fun t => { t with buf := rest, popped := t.popped ++ [st] }) with popLog := st :: s.popLog } := by
    refine ⟨rfl, Nat.le_refl _, length_setTh _ _ _, rfl, fun _ h => h, fun i => ?_⟩
    rw [hth]
    rcases th_setTh_cases s j i (fun t => { t with buf := rest, popped := t.popped ++ [st] }) with h1 | ⟨rfl, _, h1⟩
    · rw [h1]; exact ThSub.refl _
    · rw [h1]
      refine ⟨?_, rfl⟩
      show rest ++ (s.th i).qStmts <:+ (s.th i).buf ++ (s.th i).qStmts
      rw [hb]; exact List.suffix_cons _ _
  refine ⟨hsub, hsub.pending_lt j hlt ?_⟩
  rw [hth, th_setTh_same s _ hlt]
  show (rest ++ (s.th j).qStmts).length < ((s.th j).buf ++ (s.th j).qStmts).length
  rw [hb]; simp

theorem sub_raise (s : BSt) (f : Nat) (x : List (Nat × Nat)) : Sub s { s with flags := f :: s.flags, flagLog := x } :=
  Sub.ofTh rfl rfl rfl rfl (fun _ h => List.mem_cons_of_mem _ h) (fun _ => ThFr.refl _)

/-- `_process_lowest_timestamp_transit_event` with a non-empty buffer in the cache: one pending record fewer -/
theorem processLowest_quiet (hq : Quiet inj) (s : BSt) (hne : ∃ i ∈ s.cache, (s.th i).buf ≠ []) :
    Sub s (Backend.processLowest inj s).1 ∧ pendingCount (Backend.processLowest inj s).1 < pendingCount s := by
  rw [processLowest_eq]
  cases hl : lowest s with
  | none =>
    exfalso
    obtain ⟨i, hi, hb⟩ := hne
    exact hb (lowest_none hl i hi)
  | some j =>
    obtain ⟨st, rest, hb, _⟩ := lowest_spec hl
    simp only [hb]
    have hsl : SLOL s (plNote (processEvent s st)) := by
      unfold plNote; split
      · exact (slol_processEvent s st).trans (SLOL.emit _ _)
      · exact slol_processEvent s st
    have f2 : Fr s (plNote (processEvent s st)) := hsl.fr
    have hb2 : ((plNote (processEvent s st)).th j).buf = st :: rest := by
      have hths : (plNote (processEvent s st)).ths = s.ths := congrArg Core2.ths hsl.core2
      have : (plNote (processEvent s st)).th j = s.th j := by simp only [BSt.th, hths]
      rw [this]; exact hb
    generalize plNote (processEvent s st) = s2 at f2 hb2
    obtain ⟨p1, p2⟩ := sub_plPop s2 j st rest hb2
    have hle : pendingCount s2 ≤ pendingCount s := f2.sub.pending_le
    split
    · rename_i f _
      have p3 : Sub (plPop s2 j st rest) (plFlag inj (plPop s2 j st rest) f) := by
        unfold plFlag plPre
        refine Sub.trans ?_ (sub_raise _ _ _)
        refine Sub.trans ?_ (sub_cleanupContexts _)
        split
        · exact (fr_checkFailures hq _).sub
        · exact Sub.refl _
      exact ⟨(f2.sub.trans p1).trans p3, by have := p3.pending_le; show pendingCount (plFlag inj _ f) < _; omega⟩
    · exact ⟨f2.sub.trans p1, by show pendingCount (plPop s2 j st rest) < _; omega⟩

/-! ### the pending guard answers "nothing pending" after a quiet pass -/

theorem same_hpStep (acc : BSt × Bool) (i : Nat) : Same acc.1 (hpStep acc i).1 := by
  unfold hpStep
  split
  · exact Same.refl _
  · split
    · exact Same.setTh _ _ _ (ThEq.ofQ _ _ (qEmpty_fields _ _))
    · exact Same.refl _

theorem hp_fold_false (l : List Nat) : ∀ (acc : BSt × Bool), (∀ i, QC (acc.1.th i)) → acc.2 = false →
    (∀ i ∈ l, (acc.1.th i).buf = [] → (acc.1.th i).qStmts = []) → (l.foldl hpStep acc).2 = false := by
  induction l with
  | nil => intro acc _ h _; exact h
  | cons x xs ih =>
    intro acc hqc hacc hl
    rw [List.foldl_cons]
    have hs := same_hpStep acc x
    apply ih
    · intro i; exact (hs.th i).qc (hqc i)
    · unfold hpStep
      rw [if_neg (by simp [hacc])]
      split
      · rename_i hbe
        have hbx : (acc.1.th x).buf = [] := by simpa using hbe
        have := (hqc x).empty_true acc.1.cfg (hl x (List.mem_cons_self ..) hbx)
        simp [this]
      · exact hacc
    · intro i hi hb
      rw [(hs.th i).buf] at hb
      rw [(hs.th i).q]
      exact hl i (List.mem_cons_of_mem _ hi) hb

theorem hasPending_false (h : PIo c fl s)
    (hpost : ∀ i ∈ s.registry, chain (s.th i) ≠ [] → (s.th i).buf ≠ []) : (Backend.hasPending s).2 = false := by
  rw [hasPending_eq]
  have hr := h.refresh
  apply hp_fold_false _ _ hr.qc rfl
  intro i hi hb
  have hreg : i ∈ s.registry := by
    have := hr.cacheReg i hi
    have e : (refreshCache s).registry = s.registry := (fr_refresh s).reg
    rw [e] at this; exact this
  have e := (fr_refresh s).th i
  have hb' : (s.th i).buf = [] := by
    obtain ⟨l, el⟩ := e.buf
    rw [el] at hb; exact (List.append_eq_nil_iff.mp hb).1
  have hc : chain (s.th i) = [] := by
    apply Classical.byContradiction; intro hne
    exact hpost i hreg hne hb'
  have : chain ((refreshCache s).th i) = [] := by rw [e.chain]; exact hc
  exact (List.append_eq_nil_iff.mp this).2

/-! ### the batch loop and a whole poll -/

theorem batchLoop_sub (hq : Quiet inj) (fuel : Nat) : ∀ s, Sub s (Backend.batchLoop inj fuel s) := by
  induction fuel with
  | zero => intro s; exact Sub.refl _
  | succ n ih =>
    intro s
    unfold Backend.batchLoop
    simp only
    have f1 := (fr_hasPending s).sub
    split
    · exact f1
    · by_cases hne : ∃ i ∈ (Backend.hasPending s).1.cache, ((Backend.hasPending s).1.th i).buf ≠ []
      · have p := (processLowest_quiet hq _ hne).1
        split
        · exact f1.trans p
        · exact (f1.trans p).trans ((Fr.quiet hq _ 4).sub.trans (ih _))
      · -- nothing buffered: `processLowest` does nothing
        have hl : lowest (Backend.hasPending s).1 = none := by
          cases hl : lowest (Backend.hasPending s).1 with
          | none => rfl
          | some j =>
            exfalso
            obtain ⟨st, rest, hb, _⟩ := lowest_spec hl
            exact hne ⟨j, lowest_mem hl, by rw [hb]; simp⟩
        have : Backend.processLowest inj (Backend.hasPending s).1 = ((Backend.hasPending s).1, false) := by
          rw [processLowest_eq, hl]
        rw [this]
        simp only [Bool.not_false, if_true]
        exact f1

theorem batchLoop_quiet_lt (hq : Quiet inj) (fuel : Nat) (h : PIo c fl s)
    (hpost : ∀ i ∈ s.registry, chain (s.th i) ≠ [] → (s.th i).buf ≠ [])
    (hex : ∃ i ∈ s.registry, chain (s.th i) ≠ []) :
    pendingCount (Backend.batchLoop inj (fuel + 1) s) < pendingCount s := by
  unfold Backend.batchLoop
  simp only
  rw [if_neg (by simp [hasPending_false h hpost])]
  have f1 := fr_hasPending s
  have h1 := h.hasPending.1
  obtain ⟨i, hir, hne⟩ := hex
  have hb : ((Backend.hasPending s).1.th i).buf ≠ [] := f1.buf_ne (hpost i hir hne)
  have hic : i ∈ (Backend.hasPending s).1.cache := h1.bufCache i (by rw [f1.reg]; exact hir) hb
  obtain ⟨p1, p2⟩ := processLowest_quiet hq _ ⟨i, hic, hb⟩
  have hle := f1.sub.pending_le
  split
  · omega
  · have := ((Fr.quiet hq (Backend.processLowest inj (Backend.hasPending s).1).1 4).sub.trans (batchLoop_sub hq fuel _)).pending_le
    omega

theorem fr_flushGate (hq : Quiet inj) (s : BSt) (n : Nat) : Fr s (Backend.flushGate inj s n) := by
  rcases flushGate_cases inj s n with ⟨_, e⟩ | ⟨_, e⟩ | ⟨_, e⟩ <;> rw [e]
  · exact (slol_flushSinks _).fr
  · exact Fr.quiet hq s 7
  · have h1 : Fr (inj s 7) { inj s 7 with lastFlush := (inj s 7).now } := Fr.ofEq rfl rfl rfl rfl rfl rfl
    exact ((Fr.quiet hq s 7).trans h1).trans (slol_flushSinks _).fr

theorem fr_preEraseFlush (s : BSt) : Fr s (Backend.preEraseFlush s) := by
  unfold Backend.preEraseFlush
  split
  · exact (slol_flushSinks _).fr
  · exact Fr.refl _

/-- **One quiet poll.** Nothing is added; if a record is pending anywhere (and every pending record is past its
    grace period) at least one event is popped. -/
theorem poll_quiet (hq : Quiet inj) (h : PIo c fl s) (hr : Ripe s) :
    Sub s (Backend.poll inj s) ∧ ((∃ i, chain (s.th i) ≠ []) → pendingCount (Backend.poll inj s) < pendingCount s) := by
  obtain ⟨g1, ⟨fl', C', hp⟩, g3, g4⟩ := populate_quiet hq h hr
  unfold Backend.poll
  rcases hpop : Backend.populate inj s with ⟨s1, count⟩
  rw [hpop] at g1 hp g3 g4
  simp only at g1 hp g3 g4 ⊢
  have hle := g1.sub.pending_le
  have hex : (∃ i, chain (s.th i) ≠ []) → ∃ i ∈ s1.registry, chain (s1.th i) ≠ [] := by
    rintro ⟨i, hne⟩
    exact ⟨i, by rw [g1.reg]; exact h.reg i hne, by rw [(g1.th i).chain]; exact hne⟩
  split
  · split
    · by_cases hne : ∃ i ∈ s1.cache, (s1.th i).buf ≠ []
      · obtain ⟨p1, p2⟩ := processLowest_quiet hq s1 hne
        exact ⟨g1.sub.trans p1, fun _ => by omega⟩
      · have hl : lowest s1 = none := by
          cases hl : lowest s1 with
          | none => rfl
          | some j =>
            exfalso
            obtain ⟨st, rest, hb, _⟩ := lowest_spec hl
            exact hne ⟨j, lowest_mem hl, by rw [hb]; simp⟩
        have : Backend.processLowest inj s1 = (s1, false) := by rw [processLowest_eq, hl]
        rw [this]
        refine ⟨g1.sub, fun hx => ?_⟩
        exfalso
        obtain ⟨i, hir, hci⟩ := hex hx
        have hb := g3 i hir hci
        exact hne ⟨i, hp.bufCache i hir hb, hb⟩
    · refine ⟨g1.sub.trans (batchLoop_sub hq _ _), fun hx => ?_⟩
      have hlt : pendingCount (Backend.batchLoop inj ((totalBuffered s1 + 63) + 1) s1) < pendingCount s1 :=
        batchLoop_quiet_lt hq _ hp.toPIo g3 (hex hx)
      have e : totalBuffered s1 + 64 = (totalBuffered s1 + 63) + 1 := rfl
      rw [e]; omega
  · rename_i hc0
    have hcount : count = 0 := by
      apply Classical.byContradiction; intro hn; exact hc0 hn
    have hsub : Sub s1 (if (Backend.allEmpty (Backend.checkFailures inj (Backend.flushGate inj (inj s1 5) (inj s1 5).cfg.flushInterval))).2 = true then
        Backend.cleanupLoggers inj (Backend.preEraseFlush (Backend.cleanupContexts (Backend.allEmpty (Backend.checkFailures inj (Backend.flushGate inj (inj s1 5) (inj s1 5).cfg.flushInterval))).1))
        else (Backend.allEmpty (Backend.checkFailures inj (Backend.flushGate inj (inj s1 5) (inj s1 5).cfg.flushInterval))).1) := by
      have a1 : Fr s1 (Backend.allEmpty (Backend.checkFailures inj (Backend.flushGate inj (inj s1 5) (inj s1 5).cfg.flushInterval))).1 :=
        (((Fr.quiet hq s1 5).trans (fr_flushGate hq _ _)).trans (fr_checkFailures hq _)).trans (fr_allEmpty _)
      split
      · exact ((a1.sub.trans (sub_cleanupContexts _)).trans (fr_preEraseFlush _).sub).trans (sub_cleanupLoggers hq _)
      · exact a1.sub
    refine ⟨g1.sub.trans hsub, fun hx => ?_⟩
    exfalso
    exact g4 (hex hx) hcount

end Backend.PB

namespace Backend
open Backend.PB

/-- a quiet operation of the schedule: a poll without injected frontend operations, or the clock advancing -/
def quietOp : Op → Bool
  | .poll [] => true
  | .front (.tick _) => true
  | _ => false

def isPoll : Op → Bool
  | .poll _ => true
  | _ => false

/-- number of polls in a schedule -/
def pollCount (ops : List Op) : Nat := (ops.filter isPoll).length

namespace PB

/-- what the progress argument needs of a state -/
structure PG (s : BSt) : Prop where
  gi : GI s
  fi : FI none [] s
  ripe : Ripe s
  run : s.backendGone = false

theorem quiet_applyOp {s : BSt} (h : PG s) (o : Op) (ho : quietOp o = true) :
    PG (applyOp s o).1 ∧ Sub s (applyOp s o).1 ∧
    (isPoll o = true → (∃ i, chain (s.th i) ≠ []) → pendingCount (applyOp s o).1 < pendingCount s) := by
  have hgi := h.gi.applyOp o
  have hfi := h.fi.applyOp o
  cases o with
  | front f =>
    cases f with
    | tick dt =>
      have hsub : Sub s (applyOp s (.front (.tick dt))).1 :=
        ⟨rfl, Nat.le_add_right _ _, rfl, rfl, fun _ hf => hf, fun _ => ThSub.refl _⟩
      exact ⟨⟨hgi, hfi, hsub.ripe h.ripe, h.run⟩, hsub, fun hp => by cases hp⟩
    | _ => cases ho
  | poll table =>
    cases table with
    | cons x xs => cases ho
    | nil =>
      obtain ⟨fl, hI⟩ := h.gi
      have hI' : PIo s.cfg fl { s with siteCnt := [] } := hI.frame rfl
      have hr' : Ripe { s with siteCnt := [] } := h.ripe
      obtain ⟨p1, p2⟩ := poll_quiet quiet_runInj_nil hI' hr'
      have e : (applyOp s (.poll [])).1 = Backend.poll (runInj []) { s with siteCnt := [] } := by
        simp only [applyOp, h.run]; rfl
      have hsub : Sub s (applyOp s (.poll [])).1 := by
        rw [e]
        have p0 : Sub s { s with siteCnt := [] } := Sub.ofTh rfl rfl rfl rfl (fun _ hf => hf) (fun _ => ThFr.refl _)
        exact p0.trans p1
      refine ⟨⟨hgi, hfi, hsub.ripe h.ripe, by rw [hsub.gone]; exact h.run⟩, hsub, fun _ hx => ?_⟩
      rw [e]; exact p2 hx
  | exit => cases ho

theorem quiet_run (ops : List Op) : ∀ s, PG s → (∀ o ∈ ops, quietOp o = true) →
    PG (runOps s ops) ∧ Sub s (runOps s ops) ∧
    ((∃ i, chain ((runOps s ops).th i) ≠ []) → pendingCount (runOps s ops) + pollCount ops ≤ pendingCount s) := by
  induction ops with
  | nil => intro s h _; exact ⟨h, Sub.refl _, fun _ => by simp [runOps, pollCount]⟩
  | cons o os ih =>
    intro s h hq
    obtain ⟨a1, a2, a3⟩ := quiet_applyOp h o (hq o (List.mem_cons_self ..))
    obtain ⟨b1, b2, b3⟩ := ih (applyOp s o).1 a1 (fun o' ho' => hq o' (List.mem_cons_of_mem _ ho'))
    have e : runOps s (o :: os) = runOps (applyOp s o).1 os := by simp [runOps]
    rw [e]
    refine ⟨b1, a2.trans b2, fun hx => ?_⟩
    have h1 := b3 hx
    have hs : ∃ i, chain (s.th i) ≠ [] := by
      obtain ⟨i, hne⟩ := hx
      refine ⟨i, fun he => hne ?_⟩
      have := ((a2.trans b2).th i).chain
      rw [he] at this
      exact List.suffix_nil.mp this
    have hle := a2.pending_le
    cases hp : isPoll o with
    | true =>
      have := a3 hp hs
      have : pollCount (o :: os) = pollCount os + 1 := by simp [pollCount, hp]
      omega
    | false =>
      have : pollCount (o :: os) = pollCount os := by simp [pollCount, hp]
      omega

/-- after enough quiet polls nothing is pending: every accepted record has been popped, every Flush flag raised -/
theorem quiet_run_drains {s : BSt} (h : PG s) (ops : List Op) (hq : ∀ o ∈ ops, quietOp o = true)
    (hn : pendingCount s ≤ pollCount ops) (i : Nat) (st : Stmt) (f : Nat) (hst : st ∈ (s.th i).accepted)
    (hk : st.kind = .flush f) : f ∈ (runOps s ops).flags := by
  obtain ⟨b1, b2, b3⟩ := quiet_run ops s h hq
  have hall : ∀ j, chain ((runOps s ops).th j) = [] := by
    intro j
    apply Classical.byContradiction; intro hne
    have h1 := b3 ⟨j, hne⟩
    have h0 : pendingCount (runOps s ops) = 0 := by omega
    exact hne (pending_zero h0 j)
  have hacc : st ∈ ((runOps s ops).th i).accepted := by rw [(b2.th i).acc]; exact hst
  rw [b1.fi.cons i, List.append_assoc] at hacc
  have hc := hall i
  unfold chain at hc
  rw [hc, List.append_nil] at hacc
  rcases b1.fi.popFlag i st hacc f hk with h1 | h1
  · exact h1
  · cases h1

/-- once the clock has advanced by the grace period, every pending record is past it -/
theorem ripe_after_tick {s : BSt} (h : GI s) (dt : Nat) (hdt : s.cfg.grace ≤ dt) :
    Ripe (applyOp s (.front (.tick dt))).1 := by
  obtain ⟨fl, hI⟩ := h
  intro j r hr
  have := hI.leNow j r hr
  show r.ts + s.cfg.grace ≤ s.now + dt
  omega

end PB
end Backend
