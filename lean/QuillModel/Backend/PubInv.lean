import QuillModel.Backend.ResumeProgress
/-!
# Every read ends committed: `Pub` holds in every state between two operations of a schedule

`AllPub s`: every context with nothing left to read has its reader position published (`Pub`, see
`ResumeProgress.lean`). Frontend operations keep it (a refused reservation touches only the producer's cache, a
granted one leaves a record to read, a new context starts published); inside a poll the context that is being read
is exempt between its first `finish_read` and the `commit_read` that ends the read — every exit of `readQueue` ends
with that `commit_read`, and with the drain rule (`qp.drainPublish`) it publishes whenever nothing is left to read.
So for every schedule, with arbitrary frontend operations injected at every hook site: `AllPub (runOps s0 ops)`.
-/
namespace Backend.PB
open Backend

def AllPub (s : BSt) : Prop := ∀ j, Pub (s.th j)

/-- a step that keeps `Pub` of every context -/
def FP (s s' : BSt) : Prop := ∀ j, Pub (s.th j) → Pub (s'.th j)

theorem FP.refl (s : BSt) : FP s s := fun _ h => h
theorem FP.trans {a b c : BSt} (h1 : FP a b) (h2 : FP b c) : FP a c := fun j h => h2 j (h1 j h)
theorem FP.all {s s' : BSt} (h : FP s s') (hp : AllPub s) : AllPub s' := fun j => h j (hp j)
theorem FP.ofThs {s s' : BSt} (h : s'.ths = s.ths) : FP s s' := fun j hp => by
  have : s'.th j = s.th j := by simp only [BSt.th, h]
  rw [this]; exact hp
theorem FP.setTh (s : BSt) (i : Nat) (f : Th → Th) (hf : Pub (s.th i) → Pub (f (s.th i))) : FP s (s.setTh i f) := by
  intro j hp
  rcases th_setTh_cases s i j f with h1 | ⟨rfl, _, h1⟩
  · rw [h1]; exact hp
  · rw [h1]; exact hf hp
theorem QF.fp {s s' : BSt} (h : QF s s') : FP s s' := fun j hp => (h.th j).pub hp

theorem pub_mkTh (c : Cfg) (a : Nat) : Pub (mkTh c a) := fun _ => rfl
theorem pub_default : Pub (default : Th) := fun _ => rfl

theorem qPrepareWrite_rh (c : Cfg) (q : Spsc.St) (n : Nat) : (qPrepareWrite c q n).1.rHist = q.rHist := by
  simp only [qPrepareWrite, Spsc.absApi, Spsc.apiOps]
  split <;> simp [Spsc.run, Spsc.step]

/-! ### frontend operations -/

theorem fp_ensureCtx (s : BSt) (a : Nat) : FP s (Backend.ensureCtx s a).1 := by
  unfold Backend.ensureCtx
  split
  · exact FP.refl _
  · simp only
    intro j hp
    have : ((({ s with ths := s.ths ++ [mkTh s.cfg a], registry := s.registry ++ [s.ths.length], newFlag := true } : BSt).setActor a
        (fun x => { x with ctx := some s.ths.length })).th j) = if j = s.ths.length then mkTh s.cfg a else s.th j :=
      th_append s _ j
    rw [this]
    split
    · exact pub_mkTh _ _
    · exact hp

theorem fp_tryEnq (s : BSt) (ci : Nat) (st : Stmt) : FP s (Backend.tryEnq s ci st).1 := by
  unfold Backend.tryEnq
  simp only
  split
  · refine FP.setTh s ci _ (fun _ he => ?_)
    have : (s.th ci).qStmts ++ [{ st with enqAt := s.now }] = [] := he
    simp at this
  · refine FP.setTh s ci _ (fun hp => ?_)
    exact ThQ.pub ⟨qPrepareWrite_rh _ _ _, (qPrepareWrite_fields _ _ _).2.2.1, rfl⟩ hp

theorem fp_afterEnq (s : BSt) (a : Nat) (st : Stmt) (cont : Nat) : FP s (Backend.afterEnq s a st cont).1 :=
  FP.ofThs (afterEnq_ths s a st cont)

theorem fp_enqFlow (s : BSt) (a : Nat) (st : Stmt) (cont : Nat) (first initial : Bool) :
    FP s (Backend.enqFlow s a st cont first initial).1 := by
  have h1 := fp_ensureCtx s a
  rcases he : Backend.ensureCtx s a with ⟨s1, ci⟩
  rw [he] at h1
  have h2 := fp_tryEnq s1 ci st
  rcases ht : Backend.tryEnq s1 ci st with ⟨s2, ok⟩
  rw [ht] at h2
  simp only at h1 h2
  have h12 := h1.trans h2
  unfold Backend.enqFlow
  simp only [he, ht]
  have hb : ∀ (y : BSt) (g : Th → Th), (∀ t, ThQ t (g t)) →
      FP y (if isLogKind st.kind = true then y.setTh ci g else y) := by
    intro y g hg; split
    · exact FP.setTh y ci g (fun hp => (hg _).pub hp)
    · exact FP.refl _
  split
  · refine FP.trans ?_ (fp_afterEnq _ a st cont)
    exact h12.trans (FP.ofThs rfl)
  · split
    · split
      · show FP s (BSt.setActor _ _ _)
        refine FP.trans ?_ (FP.ofThs rfl)
        exact h12.trans (hb s2 _ (fun _ => ⟨rfl, rfl, rfl⟩))
      · show FP s (BSt.setActor _ _ _)
        refine FP.trans ?_ (FP.ofThs rfl)
        exact h12.trans (hb s2 _ (fun _ => ⟨rfl, rfl, rfl⟩))
    · show FP s (BSt.setActor _ _ _)
      refine FP.trans ?_ (FP.ofThs rfl)
      split
      · exact h12.trans (hb s2 _ (fun _ => ⟨rfl, rfl, rfl⟩))
      · exact h12

theorem fp_frontCall (s : BSt) (a lgi : Nat) (kind : Kind) (lvl len cont : Nat) (dyn : Bool) (id : Nat) (named : Bool) :
    FP s (Backend.frontCall s a lgi kind lvl len cont dyn id named).1 := by
  unfold Backend.frontCall
  simp only
  split
  · exact FP.ofThs rfl
  · exact fp_enqFlow _ _ _ _ _ _

theorem fp_resume (s : BSt) (a : Nat) : FP s (Backend.resume s a).1 := by
  unfold Backend.resume
  split
  · exact fp_enqFlow _ _ _ _ _ _
  · split <;> exact fp_enqFlow _ _ _ _ _ _
  · split
    · exact FP.ofThs rfl
    · exact FP.refl _
  · exact FP.refl _

theorem fp_withLogger (s : BSt) (a g : Nat) (k : Nat → BSt × String) (hk : ∀ lgi, FP s (k lgi).1) :
    FP s (Backend.withLogger s a g k).1 := by
  unfold Backend.withLogger
  split
  · unfold noteCall; exact (hk _).trans (FP.ofThs rfl)
  · exact FP.refl _

theorem reapSinks_ths (s : BSt) (l : List Nat) : (reapSinks s l).ths = s.ths := by
  unfold reapSinks
  induction l generalizing s with
  | nil => rfl
  | cons x xs ih =>
    rw [List.foldl_cons, ih]
    split <;> rfl

theorem fp_applyFront (s : BSt) (f : FOp) : FP s (Backend.applyFront s f).1 := by
  cases f with
  | tick dt => exact FP.ofThs rfl
  | tstart a => simp only [Backend.applyFront]; split <;> exact FP.ofThs rfl
  | texit a =>
    simp only [Backend.applyFront]
    split
    · exact FP.refl _
    · split
      · rename_i i _
        have h1 : FP s (s.setActor a (fun x => { x with alive := false })) := FP.ofThs rfl
        have h2 := h1.trans (FP.setTh (s.setActor a (fun x => { x with alive := false })) i
          (fun t => { t with valid := false }) (fun hp => hp))
        exact h2.trans (FP.ofThs rfl)
      · exact FP.ofThs rfl
  | resume a =>
    simp only [Backend.applyFront]
    have := fp_resume s a
    split
    · exact this
    · split
      · exact this
      · exact this.trans (FP.ofThs rfl)
  | armStall a => simp only [Backend.applyFront]; split <;> exact FP.ofThs rfl
  | log a g lvl len dyn =>
    simp only [Backend.applyFront]
    refine fp_withLogger s a g _ (fun lgi => ?_)
    split
    · exact (FP.ofThs (s := s) (s' := { s with nextId := s.nextId + 1 }) rfl).trans (fp_frontCall _ _ _ _ _ _ _ _ _ _)
    · exact FP.ofThs rfl
  | logNamed a g len =>
    simp only [Backend.applyFront]
    refine fp_withLogger s a g _ (fun lgi => ?_)
    split
    · exact (FP.ofThs (s := s) (s' := { s with nextId := s.nextId + 1 }) rfl).trans (fp_frontCall _ _ _ _ _ _ _ _ _ _)
    · exact FP.ofThs rfl
  | logBt a g len =>
    simp only [Backend.applyFront]
    refine fp_withLogger s a g _ (fun lgi => ?_)
    split
    · exact (FP.ofThs (s := s) (s' := { s with nextId := s.nextId + 1 }) rfl).trans (fp_frontCall _ _ _ _ _ _ _ _ _ _)
    · exact FP.ofThs rfl
  | initBt a g cap fl' =>
    simp only [Backend.applyFront]
    exact fp_withLogger s a g _ (fun lgi => fp_frontCall _ _ _ _ _ _ _ _ _ _)
  | flushBt a g =>
    simp only [Backend.applyFront]
    exact fp_withLogger s a g _ (fun lgi => fp_frontCall _ _ _ _ _ _ _ _ _ _)
  | flush a g =>
    simp only [Backend.applyFront]
    exact fp_withLogger s a g _ (fun lgi =>
      (FP.ofThs (s := s) (s' := { s with nextFlag := s.nextFlag + 1 }) rfl).trans (fp_frontCall _ _ _ _ _ _ _ _ _ _))
  | removeBlocking a g =>
    simp only [Backend.applyFront]
    split
    · exact FP.refl _
    · exact fp_withLogger s a g _ (fun lgi =>
        (FP.ofThs (s := s) (s' := dropName { s with nextFlag := s.nextFlag + 1 } g) rfl).trans
          (fp_frontCall _ _ _ _ _ _ _ _ _ _))
  | remove a g =>
    simp only [Backend.applyFront]
    split
    · exact FP.refl _
    · split
      · exact FP.ofThs rfl
      · exact FP.refl _
  | create a g sl =>
    simp only [Backend.applyFront]
    split
    · exact FP.refl _
    · split
      · split
        · exact FP.refl _
        · exact FP.ofThs rfl
      · exact FP.ofThs rfl
  | setLevel g lvl =>
    simp only [Backend.applyFront]
    split
    · exact FP.ofThs rfl
    · exact FP.refl _
  | setSinkLevel sid lvl =>
    simp only [Backend.applyFront]
    split
    · exact FP.ofThs rfl
    · exact FP.refl _
  | dropSink sid =>
    simp only [Backend.applyFront]
    exact FP.ofThs (by rw [reapSinks_ths]; rfl)
  | query => exact FP.refl _

theorem fp_foldFront (ops : List FOp) (skip : FOp → Bool) (e : BSt → FOp → Ev)
    (s1 : BSt) : FP s1 (ops.foldl (fun s f => (if skip f then (s, "noop") else Backend.applyFront s f).1.emit (e s f)) s1) := by
  induction ops generalizing s1 with
  | nil => exact FP.refl _
  | cons f fs ih =>
    rw [List.foldl_cons]
    refine FP.trans ?_ (ih _)
    split
    · exact FP.ofThs rfl
    · exact (fp_applyFront s1 f).trans (FP.ofThs rfl)

theorem fp_runInj (table : List (Nat × Nat × List FOp)) (s : BSt) (site : Nat) :
    FP s (Backend.runInj table s site) := by
  unfold Backend.runInj
  simp only
  generalize ((s.siteCnt.find? (·.1 = site)).map (·.2)).getD 0 + 1 = k
  split
  · exact FP.ofThs rfl
  · refine FP.trans (b := { s with siteCnt := (site, k) :: s.siteCnt.filter (·.1 ≠ site) }) (FP.ofThs rfl) ?_
    exact fp_foldFront _ (fun f => decide (site = 9) && f.needsManagerLock)
        (fun s f => Ev.inj site k f.show (if (decide (site = 9) && f.needsManagerLock) = true then (s, "noop")
          else Backend.applyFront s f).2) _

end Backend.PB

namespace Backend.PB
open Backend

variable {inj : BSt → Nat → BSt}

/-! ### the backend, arbitrary injections -/

/-- the injection runner keeps `Pub` -/
def InjFP (inj : BSt → Nat → BSt) : Prop := ∀ s k, FP s (inj s k)

theorem injFP_runInj (table : List (Nat × Nat × List FOp)) : InjFP (runInj table) := fun s k => fp_runInj table s k

theorem fp_fold {α} (F : BSt → α → BSt) (hF : ∀ s x, FP s (F s x)) (l : List α) (s : BSt) : FP s (l.foldl F s) := by
  induction l generalizing s with
  | nil => exact FP.refl _
  | cons x xs ih => rw [List.foldl_cons]; exact (hF s x).trans (ih _)

theorem fp_fold_pair {α β} (F : BSt × β → α → BSt × β) (l : List α) (acc : BSt × β)
    (hF : ∀ acc x, FP acc.1 (F acc x).1) : FP acc.1 (l.foldl F acc).1 := by
  induction l generalizing acc with
  | nil => exact FP.refl _
  | cons x xs ih => rw [List.foldl_cons]; exact (hF acc x).trans (ih _)

theorem fp_checkFailures (hp : InjFP inj) (s : BSt) : FP s (Backend.checkFailures inj s) := by
  unfold Backend.checkFailures
  apply fp_fold
  intro b i
  simp only
  split
  · refine FP.trans ?_ (hp _ 8)
    exact (FP.setTh b i _ (fun h => h)).trans (FP.ofThs rfl)
  · exact FP.refl _

theorem fp_reapSinksInj (hp : InjFP inj) (l : List Nat) (s : BSt) : FP s (reapSinksInj inj s l) := by
  unfold Backend.reapSinksInj
  apply fp_fold
  intro b sid
  split
  · refine FP.trans ?_ (hp _ 9)
    exact FP.ofThs rfl
  · exact FP.refl _

theorem fp_cleanupLoggers (hp : InjFP inj) (s : BSt) : FP s (Backend.cleanupLoggers inj s) := by
  unfold Backend.cleanupLoggers
  split
  · exact FP.refl _
  · simp only
    refine FP.trans ?_ (fp_fold _ ?_ _ _)
    · refine FP.trans (FP.ofThs (s' := { s with hasInvalidLoggers := false }) rfl) ?_
      refine fp_fold_pair _ _ ({ s with hasInvalidLoggers := false }, []) ?_
      intro acc i
      split
      · exact FP.refl _
      · split
        · refine (qf_allEmpty _).fp.trans (FP.trans ?_ (fp_reapSinksInj hp _ _))
          exact FP.ofThs rfl
        · exact (qf_allEmpty _).fp.trans (FP.ofThs rfl)
    · intro b a
      split
      · exact FP.ofThs rfl
      · exact FP.refl _

theorem fp_processLowest (hp : InjFP inj) (s : BSt) : FP s (Backend.processLowest inj s).1 := by
  rw [processLowest_eq]
  cases lowest s with
  | none => exact FP.refl _
  | some j =>
    simp only
    cases (s.th j).buf with
    | nil => exact FP.refl _
    | cons st rest =>
      simp only
      have hsl : SLOL s (plNote (processEvent s st)) := by
        unfold plNote; split
        · exact (slol_processEvent s st).trans (SLOL.emit _ _)
        · exact slol_processEvent s st
      have f2 : FP s (plNote (processEvent s st)) := hsl.qf.fp
      generalize plNote (processEvent s st) = s2 at f2
      have p1 := (qf_plPop s2 j st rest).fp
      split
      · rename_i f _
        have hpre : FP (plPop s2 j st rest) (plPre inj (plPop s2 j st rest)) := by
          unfold plPre
          refine FP.trans ?_ (qf_cleanupContexts _).fp
          split
          · exact fp_checkFailures hp _
          · exact FP.refl _
        exact ((f2.trans p1).trans hpre).trans
          (FP.ofThs (s := plPre inj (plPop s2 j st rest)) (s' := plFlag inj (plPop s2 j st rest) f) rfl)
      · exact f2.trans p1

theorem fp_batchLoop (hp : InjFP inj) (fuel : Nat) : ∀ s, FP s (Backend.batchLoop inj fuel s) := by
  induction fuel with
  | zero => intro s; exact FP.refl _
  | succ n ih =>
    intro s
    unfold Backend.batchLoop
    simp only
    have f1 := (qf_hasPending s).fp
    split
    · exact f1
    · have p := fp_processLowest hp (Backend.hasPending s).1
      split
      · exact f1.trans p
      · exact (f1.trans p).trans ((hp _ 4).trans (ih _))

/-! ### a read, with the context being read exempt -/

/-- every context but `i` -/
def PubX (i : Nat) (s : BSt) : Prop := ∀ j, j ≠ i → Pub (s.th j)

theorem PubX.setTh {i : Nat} {s : BSt} (h : PubX i s) (f : Th → Th) : PubX i (s.setTh i f) :=
  fun j hj => by rw [th_setTh_ne s f hj]; exact h j hj
theorem PubX.ofThs {i : Nat} {s s' : BSt} (h : PubX i s) (e : s'.ths = s.ths) : PubX i s' := fun j hj => by
  have : s'.th j = s.th j := by simp only [BSt.th, e]
  rw [this]; exact h j hj
theorem PubX.fp {i : Nat} {s s' : BSt} (h : PubX i s) (f : FP s s') : PubX i s' := fun j hj => f j (h j hj)

theorem pubx_rqMove {i : Nat} {s : BSt} (h : PubX i s) (st : Stmt) (rest : List Stmt) : PubX i (rqMove s i st rest) := by
  refine PubX.ofThs (s := rqMove0 s i st rest) ?_ (rqMove_proj s i st rest).1
  unfold PB.rqMove0
  refine PubX.setTh ?_ _
  refine PubX.ofThs (s := rqPrep s i) ?_ (rqDecode_ths _ _)
  unfold rqPrep; exact h.setTh _

/-- `commit_read` at the end of a read: the context is published if nothing is left (any index, also out of range) -/
theorem pub_rqCommit' (s : BSt) (i : Nat) (hqc : QC (s.th i)) (hdp : s.cfg.qp.drainPublish = true) :
    Pub ((rqCommit s i).th i) := by
  by_cases hlt : i < s.ths.length
  · exact pub_rqCommit s i hlt hqc hdp
  · rw [th_lt_or_default _ i (by unfold rqCommit; rw [length_setTh]; omega)]; exact pub_default

theorem allpub_rqFin (s : BSt) (i total : Nat) (hqc : QC (s.th i)) (hdp : s.cfg.qp.drainPublish = true)
    (hx : PubX i s) (hp : total = 0 → Pub (s.th i)) : AllPub (rqFin s i total) := by
  intro j
  by_cases hj : j = i
  · subst hj
    unfold rqFin; split
    · exact pub_rqCommit' s j hqc hdp
    · rename_i h0; exact hp (by simpa using h0)
  · unfold rqFin; split
    · unfold rqCommit; exact hx.setTh _ j hj
    · exact hx j hj

variable {c : Cfg} {fl : Nat} {C : List Nat}

/-- **every exit of a read ends committed**: all contexts published afterwards, whatever was injected meanwhile -/
theorem allpub_readQueue (hi : InjOK inj) (hp : InjFP inj) (hdp : c.qp.drainPublish = true) (tsNow : Option Nat)
    (htn : c.grace ≠ 0 → c.refreshAfterSample = true → tsNow = some fl) (i : Nat) (hc : i ∈ C) (fuel : Nat) :
    ∀ (T : Nat → Prop) (total : Nat) (s : BSt), PI c none fl T C s → PubX i s → (total = 0 → Pub (s.th i)) →
      AllPub (Backend.readQueue inj tsNow i fuel total s) := by
  induction fuel with
  | zero =>
    intro T total s h hx h0
    rw [readQueue_zero]
    exact allpub_rqFin s i total (h.qc i) (by rw [h.cfgEq]; exact hdp) hx h0
  | succ n ih =>
    intro T total s h hx h0
    rw [readQueue_succ]
    have h1 : PI c none fl T C (rqPrep s i) := h.same (same_rqPrep s i)
    have hfin : AllPub (rqFin (rqPrep s i) i total) := by
      refine allpub_rqFin _ i total (h1.qc i) (by rw [h1.cfgEq]; exact hdp) (by unfold rqPrep; exact hx.setTh _) (fun e => ?_)
      unfold rqPrep
      have ht : ThQ (s.th i) { s.th i with q := (qPrepareRead s.cfg (s.th i).q).1 } :=
        ⟨qPrepareRead_rh _ _, (qPrepareRead_fields _ _).2.2.1, rfl⟩
      exact FP.setTh s i (fun t => { t with q := (qPrepareRead s.cfg (s.th i).q).1 }) (fun hp' => ht.pub hp') i (h0 e)
    split
    · exact hfin
    · rename_i hrd
      split
      · exact hfin
      · rename_i st rest hq
        split
        · exact hfin
        · rename_i hel
          have hst : c.grace ≠ 0 → c.refreshAfterSample = true → st.ts ≤ fl := by
            intro hg0 hr0; rw [htn hg0 hr0] at hel; simpa [rqLate] using hel
          have h3 := (h.rqMove i hc st rest hq hst (by simpa using hrd)).weakenT (T' := T) (fun _ hj => hj.1)
          have h4 := hi _ _ _ _ _ 3 h3
          have hx4 : PubX i (inj (rqMove s i st rest) 3) := (pubx_rqMove hx st rest).fp (hp _ 3)
          split
          · refine ih T _ _ h4 hx4 (fun e => ?_)
            have := (h.qc i).pos st (by rw [hq]; exact List.mem_cons_self ..)
            omega
          · intro j
            by_cases hj : j = i
            · subst hj; exact pub_rqCommit' _ j (h4.qc j) (by rw [h4.cfgEq]; exact hdp)
            · unfold rqCommit; exact hx4.setTh _ j hj

end Backend.PB

namespace Backend.PB
open Backend

variable {inj : BSt → Nat → BSt} {c : Cfg} {fl : Nat} {C : List Nat} {s : BSt}

/-! ### a pass, a poll, the exit loop, every schedule -/

theorem allpub_fold (hi : InjOK inj) (hp : InjFP inj) (hdp : c.qp.drainPublish = true) (tsNow : Option Nat)
    (htn : c.grace ≠ 0 → c.refreshAfterSample = true → tsNow = some fl) (l : List Nat) :
    ∀ (acc : BSt × Nat) (T : Nat → Prop), (∀ i ∈ l, i ∈ C) → PI c none fl T C acc.1 → AllPub acc.1 →
      AllPub (l.foldl (PB.popStep inj tsNow) acc).1 := by
  induction l with
  | nil => intro acc T _ _ h; exact h
  | cons x xs ih =>
    intro acc T hl h ha
    rw [List.foldl_cons]
    have h1 := hi _ _ _ _ _ 2 h
    have ha1 : AllPub (inj acc.1 2) := (hp _ 2).all ha
    have hstep : (PB.popStep inj tsNow acc x).1 =
        Backend.readQueue inj tsNow x ((((inj acc.1 2).th x).qStmts.length + 63) + 1) 0 (inj acc.1 2) := rfl
    have h2 : PI c none fl (fun j => T j ∧ j ≠ x) C (PB.popStep inj tsNow acc x).1 := by
      rw [hstep]; exact h1.readQueue_first hi tsNow htn x (hl x (List.mem_cons_self ..)) _ _ _
    have ha2 : AllPub (PB.popStep inj tsNow acc x).1 := by
      rw [hstep]
      exact allpub_readQueue hi hp hdp tsNow htn x (hl x (List.mem_cons_self ..)) _ T 0 _ h1 (fun j _ => ha1 j) (fun _ => ha1 x)
    exact ih _ _ (fun i hi' => hl i (List.mem_cons_of_mem _ hi')) h2 ha2

theorem allpub_populate (hi : InjOK inj) (hp : InjFP inj) (hdp : c.qp.drainPublish = true) (h : PIo c fl s)
    (ha : AllPub s) : AllPub (Backend.populate inj s).1 := by
  rw [populate_eq]
  unfold popC
  have hpa : PIo c fl (popA s) := by
    unfold popA; split
    · exact h
    · exact h.refresh
  have haa : AllPub (popA s) := by
    unfold popA; split
    · exact ha
    · exact (qf_refresh s).fp.all ha
  have hb : PIo c fl (popB inj s) := by
    unfold popB; split
    · exact hpa
    · exact hi.pio hpa 7
  have hab : AllPub (popB inj s) := by
    unfold popB; split
    · exact haa
    · exact (hp _ 7).all haa
  generalize popB inj s = sb at hb hab ⊢
  have hcfg : sb.cfg = c := hb.cfgEq
  let fl' := sb.now - sb.cfg.grace
  have hb' : PI c none fl' (fun _ => True) sb.cache sb := hb.newFloor fl' hb.floorNow (Nat.le_refl _)
  have htn : c.grace ≠ 0 → c.refreshAfterSample = true → tsNowOf sb = some fl' := by
    intro hg0 _
    unfold tsNowOf
    rw [if_neg (by rw [hcfg]; exact hg0)]
  have h1 := hi _ _ _ _ _ 1 hb'
  have ha1 : AllPub (inj sb 1) := (hp _ 1).all hab
  have h2 : PI c none fl' (fun i => i ∈ (if sb.cfg.refreshAfterSample = true then refreshCache (inj sb 1) else inj sb 1).cache)
      (if sb.cfg.refreshAfterSample = true then refreshCache (inj sb 1) else inj sb 1).cache
      (if sb.cfg.refreshAfterSample = true then refreshCache (inj sb 1) else inj sb 1) := by
    by_cases good : c.grace ≠ 0 ∧ c.refreshAfterSample = true
    · rw [if_pos (by rw [hcfg]; exact good.2)]
      exact h1.refresh.weakenT (fun i hi' => hi'.2)
    · split
      · exact h1.refresh.anyT good
      · exact h1.toPIo.anyT good
  have ha2 : AllPub (if sb.cfg.refreshAfterSample = true then refreshCache (inj sb 1) else inj sb 1) := by
    split
    · exact (qf_refresh _).fp.all ha1
    · exact ha1
  generalize (if sb.cfg.refreshAfterSample = true then refreshCache (inj sb 1) else inj sb 1) = s2 at h2 ha2 ⊢
  exact allpub_fold hi hp hdp (tsNowOf sb) htn s2.cache (s2, 0) _ (fun i hi' => hi') h2 ha2

theorem fp_flushGate (hp : InjFP inj) (s : BSt) (n : Nat) : FP s (Backend.flushGate inj s n) := by
  rcases flushGate_cases inj s n with ⟨_, e⟩ | ⟨_, e⟩ | ⟨_, e⟩ <;> rw [e]
  · exact (slol_flushSinks _).qf.fp
  · exact hp s 7
  · have h1 : FP (inj s 7) { inj s 7 with lastFlush := (inj s 7).now } := FP.ofThs rfl
    exact ((hp s 7).trans h1).trans (slol_flushSinks _).qf.fp

theorem allpub_poll (hi : InjOK inj) (hp : InjFP inj) (hdp : c.qp.drainPublish = true) (h : PIo c fl s)
    (ha : AllPub s) : AllPub (Backend.poll inj s) := by
  have h1 := allpub_populate hi hp hdp h ha
  unfold Backend.poll
  rcases hpop : Backend.populate inj s with ⟨s1, count⟩
  rw [hpop] at h1
  simp only at h1 ⊢
  split
  · split
    · exact (fp_processLowest hp s1).all h1
    · exact (fp_batchLoop hp _ s1).all h1
  · have a1 : FP s1 (Backend.allEmpty (Backend.checkFailures inj (Backend.flushGate inj (inj s1 5) (inj s1 5).cfg.flushInterval))).1 :=
      (((hp s1 5).trans (fp_flushGate hp _ _)).trans (fp_checkFailures hp _)).trans (qf_allEmpty _).fp
    split
    · exact (((a1.trans (qf_cleanupContexts _).fp).trans (qf_preEraseFlush _).fp).trans (fp_cleanupLoggers hp _)).all h1
    · exact a1.all h1

theorem allpub_exitLoop (hi : InjOK inj) (hp : InjFP inj) (hdp : c.qp.drainPublish = true) (tick fuel : Nat) :
    ∀ fl s, PIo c fl s → AllPub s → AllPub (Backend.exitLoop inj tick fuel s) := by
  induction fuel with
  | zero => intro fl s _ ha; exact ha
  | succ n ih =>
    intro fl s h ha
    unfold Backend.exitLoop
    simp only
    have h1 := h.allEmpty
    have a1 : AllPub (Backend.allEmpty s).1 := (qf_allEmpty s).fp.all ha
    split
    · exact (((((fp_checkFailures hp _).trans (slol_flushSinks _).qf.fp).trans (qf_cleanupContexts _).fp).trans
        (qf_preEraseFlush _).fp).trans (fp_cleanupLoggers hp _)).all a1
    · have h2 := h1.tick tick
      have a2 : AllPub { (Backend.allEmpty s).1 with now := (Backend.allEmpty s).1.now + tick } :=
        (FP.ofThs (s := (Backend.allEmpty s).1) rfl).all a1
      obtain ⟨fl', C', hpp⟩ := h2.populate hi
      have a3 := allpub_populate hi hp hdp h2 a2
      rcases hpop : Backend.populate inj { (Backend.allEmpty s).1 with now := (Backend.allEmpty s).1.now + tick } with ⟨s1, count⟩
      rw [hpop] at hpp a3
      simp only at hpp a3 ⊢
      split
      · exact ih fl' _ (hpp.toPIo.batchLoop hi _ _) ((fp_batchLoop hp _ s1).all a3)
      · exact ih fl' _ hpp.toPIo a3

end Backend.PB

namespace Backend
namespace PB

theorem allpub_applyOp {s : BSt} (h : GI s) (hdp : s.cfg.qp.drainPublish = true) (ha : AllPub s) (o : Op) :
    AllPub (applyOp s o).1 := by
  obtain ⟨fl, h⟩ := h
  cases o with
  | front f => exact (fp_applyFront s f).all ha
  | poll table =>
    simp only [Backend.applyOp]
    split
    · exact ha
    · exact allpub_poll (injOK_runInj table) (injFP_runInj table) hdp (h.frame (s' := { s with siteCnt := [] }) rfl)
        ((FP.ofThs (s := s) (s' := { s with siteCnt := [] }) rfl).all ha)
  | exit =>
    simp only [Backend.applyOp]
    split
    · exact ha
    · have := allpub_exitLoop (injOK_runInj []) (injFP_runInj []) hdp 1000 100000 fl _
        (h.frame (s' := { s with siteCnt := [] }) rfl) ((FP.ofThs (s := s) (s' := { s with siteCnt := [] }) rfl).all ha)
      exact (FP.ofThs rfl).all this

/-- **In every state between two operations of any schedule, every context is published** (drain rule in force) -/
theorem allpub_runOps {s : BSt} (h : GI s) (hdp : s.cfg.qp.drainPublish = true) (ha : AllPub s) (ops : List Op) :
    AllPub (runOps s ops) := by
  induction ops generalizing s with
  | nil => exact ha
  | cons o os ih =>
    have e : runOps s (o :: os) = runOps (applyOp s o).1 os := by simp [runOps]
    rw [e]
    have hcfg : (applyOp s o).1.cfg = s.cfg := by
      have := h.cfg_runOps [o]
      simpa [runOps] using this
    exact ih (h.applyOp o) (by rw [hcfg]; exact hdp) (allpub_applyOp h hdp ha o)

theorem start_allpub {s : BSt} (h : Start s) : AllPub s := fun j => by
  rw [th_lt_or_default s j (by rw [h.ths]; exact Nat.zero_le _)]; exact pub_default

/-- the hypothesis `ReadsCommitted` of the progress theorems holds in every reachable state -/
theorem readsCommitted_runOps {s0 : BSt} (h0 : Start s0) (hdp : s0.cfg.qp.drainPublish = true) (ops : List Op) (i : Nat) :
    ReadsCommitted (runOps s0 ops) i :=
  allpub_runOps (start_GI h0) hdp (start_allpub h0) ops i

end PB
end Backend
