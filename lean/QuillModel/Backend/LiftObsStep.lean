import QuillModel.Props.C08
import QuillModel.Backend.LiftObsView
/-!
One frontend operation on a dropping queue, seen through its observation text (`Step`): either the text is a quiet format
and no context's `discarded` / accepted-ordinary-statement count moves, or it is the accept line of an ordinary statement
and exactly one ordinary statement was accepted, or it is one of the two drop lines and exactly one `discarded` grew.
Needs the actor invariant `AOK` (context indices in range, parked statements fit their continuation and ordinary ones
are not empty), which the step keeps. Helper lemmas only.
-/
namespace Backend.PC
open Backend Backend.PA Spsc

def dsum (s : BSt) : Nat := ((dk s).map (·.1)).sum
def asum (s : BSt) : Nat := ((dk s).map (·.2)).sum

theorem dsum_ths (s : BSt) : dsum s = (s.ths.map (·.discarded)).sum := by
  simp only [dsum, dk, List.map_map]; rfl
theorem asum_ths (s : BSt) :
    asum s = (s.ths.map (fun t => (t.accepted.filter (fun x => isLogKind x.kind)).length)).sum := by
  simp only [asum, dk, List.map_map]; rfl

theorem dk_length (s : BSt) : (dk s).length = s.ths.length := by simp [dk]

/-- the kind of a statement and the continuation of the public call that made it fit together -/
def KC (k : Kind) (cont : Nat) : Prop :=
  (k = .log ∧ (cont = 0 ∨ cont = 5)) ∨ (cont = 1 ∧ ∃ f, k = .flush f) ∨ (cont = 2 ∧ ∃ c f, k = .initBt c f) ∨
  (cont = 3 ∧ k = .flushBt) ∨ (cont = 4 ∧ ∃ f, k = .removal f)

def wfSC (st : Stmt) (cont : Nat) : Prop := KC st.kind cont ∧ (st.kind = .log → 0 < st.size)

def wfPend : Pend → Prop
  | .stall st c => wfSC st c
  | .retry st c => wfSC st c
  | _ => True

/-- context indices of the actors are in range, parked calls are well formed -/
def AOK (s : BSt) : Prop := ∀ x ∈ s.actors, (∀ i, x.ctx = some i → i < s.ths.length) ∧ wfPend x.pend

theorem AOK.of_eq {s s' : BSt} (h : AOK s) (h1 : s'.actors = s.actors) (h2 : s.ths.length ≤ s'.ths.length) : AOK s' := by
  intro x hx
  rw [h1] at hx
  exact ⟨fun i hi => Nat.lt_of_lt_of_le ((h x hx).1 i hi) h2, (h x hx).2⟩

theorem AOK.setActor {s : BSt} (h : AOK s) (a : Nat) (f : Actor → Actor)
    (hf : ∀ x ∈ s.actors, (∀ i, (f x).ctx = some i → i < s.ths.length) ∧ wfPend (f x).pend) : AOK (s.setActor a f) := by
  intro y hy
  obtain ⟨x, hx, rfl⟩ := PA.mem_setActor hy
  split
  · exact hf x hx
  · exact h x hx

/-- an actor update that keeps `ctx` and sets a well-formed `pend` (or keeps it) -/
theorem AOK.setMisc {s : BSt} (h : AOK s) (a : Nat) (f : Actor → Actor) (hc : ∀ x, (f x).ctx = x.ctx)
    (hp : ∀ x, wfPend x.pend → wfPend (f x).pend) : AOK (s.setActor a f) :=
  h.setActor a f (fun x hx => ⟨fun i hi => (h x hx).1 i (hc x ▸ hi), hp x (h x hx).2⟩)

theorem AOK.actor {s : BSt} (h : AOK s) {a : Nat} {x : Actor} (hx : s.actor a = some x) :
    (∀ i, x.ctx = some i → i < s.ths.length) ∧ wfPend x.pend :=
  h x (List.mem_of_find?_eq_some hx)

inductive Out (c d a d' a' : Nat) (t : String) : Prop
  | quiet (hd : d' = d) (ha : a' = a) (hq : Quiet t)
  | acc (hd : d' = d) (ha : a' = a + 1) (hc : c = 0 ∨ c = 5)
      (ht : ∃ st : Stmt, 0 < st.size ∧ t = obsLog st c (some true) st.size)
  | drop0 (hd : d' = d + 1) (ha : a' = a) (hc : c = 0) (ht : ∃ n : Nat, t = s!"id={n} ret=0 ev=1 bytes=0")
  | drop5 (hd : d' = d + 1) (ha : a' = a) (hc : c = 5) (ht : ∃ n : Nat, t = s!"id={n} ev=1 bytes=0")

structure Step (c : Nat) (s s' : BSt) (t : String) : Prop where
  drp : s'.cfg.dropping = s.cfg.dropping
  log : injT s'.log = injT s.log
  aok : AOK s'
  out : Out c (dsum s) (asum s) (dsum s') (asum s') t

theorem Step.pre {c : Nat} {s s1 s' : BSt} {t : String} (h : Step c s1 s' t) (h1 : s1.ths = s.ths) (h2 : s1.cfg = s.cfg)
    (h3 : s1.log = s.log) : Step c s s' t := by
  have e1 : dsum s1 = dsum s := by simp only [dsum, dk, h1]
  have e2 : asum s1 = asum s := by simp only [asum, dk, h1]
  refine ⟨by rw [h.drp, h2], by rw [h.log, h3], h.aok, ?_⟩
  rw [← e1, ← e2]; exact h.out

/-- nothing the accounting reads has changed, and the text is quiet -/
theorem Step.same {c : Nat} {s s' : BSt} {t : String} (h1 : s'.ths = s.ths) (h2 : s'.cfg = s.cfg)
    (h3 : injT s'.log = injT s.log) (ha : AOK s') (hq : Quiet t) : Step c s s' t :=
  ⟨by rw [h2], h3, ha, .quiet (by simp only [dsum, dk, h1]) (by simp only [asum, dk, h1]) hq⟩

theorem Step.post {c : Nat} {s s' s2 : BSt} {t : String} (h : Step c s s' t) (h1 : s2.ths = s'.ths) (h2 : s2.cfg = s'.cfg)
    (h3 : s2.log = s'.log) (ha : AOK s2) : Step c s s2 t := by
  have e1 : dsum s2 = dsum s' := by simp only [dsum, dk, h1]
  have e2 : asum s2 = asum s' := by simp only [asum, dk, h1]
  refine ⟨by rw [h2, h.drp], by rw [h3, h.log], ha, ?_⟩
  rw [e1, e2]; exact h.out

theorem sum_setTh (s : BSt) (i : Nat) (f : Th → Th) (h : Th → Nat) (hi : i < s.ths.length) (k : Nat)
    (hk : h (f (s.th i)) = h (s.th i) + k) : ((s.setTh i f).ths.map h).sum = (s.ths.map h).sum + k := by
  have := PA.sum_map_updAt s.ths i f h hi
  rw [PA.th_eq_getElem s i hi] at hk
  show ((updAt s.ths i f).map h).sum = _
  omega

theorem ensureCtx_facts (s : BSt) (a : Nat) (ha : AOK s) :
    (ensureCtx s a).1.cfg = s.cfg ∧ (ensureCtx s a).1.log = s.log ∧ dsum (ensureCtx s a).1 = dsum s ∧
    asum (ensureCtx s a).1 = asum s ∧ AOK (ensureCtx s a).1 ∧ (ensureCtx s a).2 < (ensureCtx s a).1.ths.length := by
  unfold Backend.ensureCtx
  cases h : (s.actor a).bind (·.ctx) with
  | some i =>
    refine ⟨rfl, rfl, rfl, rfl, ha, ?_⟩
    cases hx : s.actor a with
    | none => simp [hx] at h
    | some x =>
      simp only [hx, Option.bind_some] at h
      exact (ha.actor hx).1 i h
  | none =>
    dsimp only
    refine ⟨rfl, rfl, ?_, ?_, ?_, ?_⟩
    · simp [dsum, dk, mkTh]
    · simp [asum, dk, mkTh]
    · have h0 : AOK ({ s with ths := s.ths ++ [mkTh s.cfg a], registry := s.registry ++ [s.ths.length], newFlag := true } : BSt) :=
        ha.of_eq rfl (by simp)
      refine h0.setActor a _ (fun x hx => ⟨fun i hi => ?_, (h0 x hx).2⟩)
      simp only [Option.some.injEq] at hi
      subst hi
      simp
    · simp [BSt.setActor]

theorem tryEnq_facts (s : BSt) (ci : Nat) (st : Stmt) (hci : ci < s.ths.length) :
    (tryEnq s ci st).1.cfg = s.cfg ∧ (tryEnq s ci st).1.log = s.log ∧ (tryEnq s ci st).1.actors = s.actors ∧
    (tryEnq s ci st).1.ths.length = s.ths.length ∧ dsum (tryEnq s ci st).1 = dsum s ∧
    asum (tryEnq s ci st).1 = asum s + (if (tryEnq s ci st).2 = true ∧ isLogKind st.kind = true then 1 else 0) := by
  unfold Backend.tryEnq
  dsimp only
  split
  · refine ⟨rfl, rfl, rfl, by simp, ?_, ?_⟩
    · rw [dsum_ths, dsum_ths]
      exact sum_setTh s ci _ (·.discarded) hci 0 rfl
    · rw [asum_ths, asum_ths]
      apply sum_setTh s ci _ _ hci
      simp only [List.filter_append, List.length_append, true_and]
      cases hk : isLogKind st.kind <;> simp [List.filter, hk]
  · refine ⟨rfl, rfl, rfl, by simp, ?_, ?_⟩
    · rw [dsum_ths, dsum_ths]
      exact sum_setTh s ci _ (·.discarded) hci 0 rfl
    · rw [asum_ths, asum_ths]
      simp only [Bool.false_eq_true, false_and, if_false]
      exact sum_setTh s ci _ _ hci 0 rfl

theorem afterEnq_log (s : BSt) (a : Nat) (st : Stmt) (cont : Nat) (hk : st.kind = .log) (hc : cont = 0 ∨ cont = 5) :
    afterEnq s a st cont = (s, obsLog st cont (some true) st.size) := by
  unfold Backend.afterEnq
  rcases hc with rfl | rfl <;> rw [hk] <;> rfl

theorem stmtSize_log_pos (c : Cfg) (id len : Nat) (dyn : Bool) (gid : Nat) : 0 < stmtSize c .log id len dyn gid := by
  have : 2 ≤ payloadLen id len := by unfold payloadLen; exact Nat.le_trans (Nat.le_add_right 2 _) (Nat.le_max_right _ _)
  simp only [stmtSize]
  omega

theorem KC.log_iff {k : Kind} {cont : Nat} (h : KC k cont) : isLogKind k = true ↔ (cont = 0 ∨ cont = 5) := by
  rcases h with ⟨rfl, hc⟩ | ⟨rfl, f, rfl⟩ | ⟨rfl, c, f, rfl⟩ | ⟨rfl, rfl⟩ | ⟨rfl, f, rfl⟩ <;> simp [isLogKind, *]

end Backend.PC
