import QuillModel.Backend.UQueue
import QuillModel.Backend.ConsProofsQueue
/-!
Queue-level facts of the chain (`Backend/UQueue.lean`): the per-node coherence `QCoh` of the bounded machine, extended by
what the consumer's cached writer position marks (a prefix of the pending records), lifted along the chain. The chain
in sequentially consistent mode is a FIFO of records: `CCoh q more l` says that the pending statements `l` are the
concatenation, node by node, of the unread records of every node.
-/
namespace Backend.UQ
open Backend Spsc Backend.PA

def ssum (l : List Stmt) : Nat := (l.map (·.size)).sum

@[simp] theorem ssum_nil : ssum [] = 0 := rfl
@[simp] theorem ssum_cons (x : Stmt) (l : List Stmt) : ssum (x :: l) = x.size + ssum l := by simp [ssum]
@[simp] theorem ssum_append (a b : List Stmt) : ssum (a ++ b) = ssum a + ssum b := by simp [ssum]

/-- node invariant: byte-exact coherence with the records `a` still unread in this node, and the consumer's cached
    writer position marks a prefix of them -/
structure NI (q : St) (a : List Stmt) : Prop where
  coh : QCoh q a
  wc : ∃ pre suf, a = pre ++ suf ∧ q.wcache = q.rpos + ssum pre

theorem NI.init (cap batch : Nat) : NI (Spsc.init cap batch) [] :=
  ⟨QCoh.init cap batch, [], [], rfl, rfl⟩

theorem ssum_zero {l : List Stmt} (hp : ∀ st ∈ l, 0 < st.size) (h : ssum l = 0) : l = [] :=
  sum_pos_of_mem hp h

/-! ### node operations -/

theorem qPrepareWrite_rc (c : Cfg) (q : St) (n : Nat) :
    (qPrepareWrite c q n).1.wcache = q.wcache ∧ (qPrepareWrite c q n).1.rpos = q.rpos := by
  simp only [qPrepareWrite, absApi, apiOps]
  split <;> exact ⟨rfl, rfl⟩

theorem NI.prepareWrite {c : Cfg} {q : St} {a : List Stmt} (h : NI q a) (n : Nat) : NI (qPrepareWrite c q n).1 a := by
  obtain ⟨pre, suf, e, hw⟩ := h.wc
  obtain ⟨e1, e2⟩ := qPrepareWrite_rc c q n
  exact ⟨h.coh.of_same (qPrepareWrite_same c q n), pre, suf, e, by rw [e1, e2]; exact hw⟩

theorem qFinishCommit_rc (c : Cfg) (q : St) (n : Nat) :
    (qFinishCommit c q n).wcache = q.wcache := by
  simp [qFinishCommit, absApi, apiOps, run, step]

theorem NI.enq {c : Cfg} {q : St} {a : List Stmt} (h : NI q a) (st : Stmt) (hp : 0 < st.size) :
    NI (qFinishCommit c q st.size) (a ++ [st]) := by
  obtain ⟨pre, suf, e, hw⟩ := h.wc
  refine ⟨h.coh.enq st hp, pre, suf ++ [st], by rw [e, List.append_assoc], ?_⟩
  rw [qFinishCommit_rc, (qFinishCommit_fields c q st.size).2.1]; exact hw

theorem NI.commitWrite {c : Cfg} {q : St} {a : List Stmt} (h : NI q a) : NI (absApi c.qp q .commitWrite).1 a := by
  obtain ⟨pre, suf, e, hw⟩ := h.wc
  have hc := h.coh
  refine ⟨⟨?_, ?_, ?_, ?_, hc.pos⟩, pre, suf, e, ?_⟩ <;> simp only [absApi, apiOps, run, step, List.headD_cons]
  · exact hc.dist
  · exact hc.nle
  · exact hc.recs
  · exact hw

/-- `prepare_read()` / `empty()` on a node: a load sets the cached writer position to the newest one -/
theorem prepareRead_cases (c : Cfg) (q : St) :
    ((qPrepareRead c q).1 = q ∧ q.wcache ≠ q.rpos ∧ (qPrepareRead c q).2 = true) ∨
    (q.wcache = q.rpos ∧ (qPrepareRead c q).1.wcache = q.wHist.headD 0 ∧
      ((qPrepareRead c q).2 = true ↔ q.wHist.headD 0 ≠ q.rpos)) := by
  simp only [qPrepareRead, absApi, apiOps, apiObs]
  by_cases hw : q.wcache = q.rpos
  · right
    refine ⟨hw, ?_, ?_⟩
    · simp [hw, run, step]
    · simp only [hw, if_true, run, step]
      by_cases h2 : q.wHist.head?.getD 0 = q.rpos <;> simp [h2]
  · left
    simp [hw, run]

theorem NI.prepareRead {c : Cfg} {q : St} {a : List Stmt} (h : NI q a) : NI (qPrepareRead c q).1 a := by
  have hs := qPrepareRead_same c q
  rcases prepareRead_cases c q with ⟨e, _, _⟩ | ⟨hw, e, _⟩
  · rw [e]; exact h
  · have hc := h.coh
    refine ⟨hc.of_same hs, a, [], by simp, ?_⟩
    rw [e, hs.rpos, hc.pub, hc.dist]; rfl

/-- a record is offered only when one is pending in this node, and then the cached writer position is ahead -/
theorem NI.offered {c : Cfg} {q : St} {a : List Stmt} (h : NI q a) (ho : (qPrepareRead c q).2 = true) :
    a ≠ [] ∧ (qPrepareRead c q).1.wcache ≠ (qPrepareRead c q).1.rpos := by
  have hc := h.coh
  have hs := qPrepareRead_same c q
  rcases prepareRead_cases c q with ⟨e, hne, _⟩ | ⟨hw, e, hiff⟩
  · rw [e]
    refine ⟨?_, hne⟩
    obtain ⟨pre, suf, ea, hwc⟩ := h.wc
    intro hnil
    subst hnil
    have hp : pre = [] := (List.append_eq_nil_iff.mp ea.symm).1
    rw [hp] at hwc
    exact hne (by simpa using hwc)
  · have h1 := hiff.mp ho
    rw [e, hs.rpos]
    refine ⟨?_, h1⟩
    intro hnil; subst hnil
    have hd : q.wpos = q.rpos := by simpa using hc.dist
    exact h1 (hc.pub.trans hd)

/-- nothing is offered only when nothing is pending in this node -/
theorem NI.refused {c : Cfg} {q : St} {a : List Stmt} (h : NI q a) (ho : (qPrepareRead c q).2 = false) : a = [] := by
  have hc := h.coh
  rcases prepareRead_cases c q with ⟨_, _, ht⟩ | ⟨hw, e, hiff⟩
  · rw [ht] at ho; cases ho
  · have h1 : q.wHist.headD 0 = q.rpos := by
      by_cases hh : q.wHist.headD 0 = q.rpos
      · exact hh
      · rw [hiff.mpr hh] at ho; cases ho
    apply ssum_zero hc.pos
    have hd := hc.dist; have hp := hc.pub; unfold ssum; omega

theorem qFinishRead_rc (c : Cfg) (q : St) (n : Nat) : (qFinishRead c q n).wcache = q.wcache := by
  simp [qFinishRead, absApi, apiOps, run, step]

theorem NI.read {c : Cfg} {q : St} {st : Stmt} {rest : List Stmt} (h : NI q (st :: rest)) (hne : q.wcache ≠ q.rpos) :
    NI (qFinishRead c q st.size) rest := by
  obtain ⟨pre, suf, e, hw⟩ := h.wc
  refine ⟨h.coh.read, ?_⟩
  cases pre with
  | nil => simp at hw; exact absurd hw hne
  | cons x pre' =>
    simp only [List.cons_append, List.cons.injEq] at e
    refine ⟨pre', suf, e.2, ?_⟩
    rw [qFinishRead_rc, (qFinishRead_fields c q st.size).2.1, hw, e.1]; simp; omega

theorem qCommitRead_rc (c : Cfg) (q : St) : (qCommitRead c q).wcache = q.wcache ∧ (qCommitRead c q).cap = q.cap := by
  simp only [qCommitRead, absApi, apiOps, run, step]
  split <;> exact ⟨rfl, rfl⟩

theorem NI.commitRead {c : Cfg} {q : St} {a : List Stmt} (h : NI q a) : NI (qCommitRead c q) a := by
  obtain ⟨pre, suf, e, hw⟩ := h.wc
  exact ⟨h.coh.of_same (qCommitRead_same c q), pre, suf, e, by
    rw [(qCommitRead_rc c q).1, (qCommitRead_same c q).rpos]; exact hw⟩

theorem qEmpty_eq (c : Cfg) (q : St) : (qEmpty c q).1 = (qPrepareRead c q).1 := by
  simp [qEmpty, qPrepareRead, absApi, apiOps]

theorem NI.emptyTest {c : Cfg} {q : St} {a : List Stmt} (h : NI q a) : NI (qEmpty c q).1 a := by
  rw [qEmpty_eq]; exact h.prepareRead

/-! ### the chain -/

/-- chain coherence: the pending statements are, node by node, the unread records of the chain -/
def CCoh : St → List St → List Stmt → Prop
  | q, [], l => NI q l
  | q, p :: rest, l => ∃ a b, l = a ++ b ∧ NI q a ∧ CCoh p rest b

/-- an update of the producer's node that appends `x` to what that node holds -/
theorem CCoh.updLast {f : St → St} {x : List Stmt} (hf : ∀ p a, NI p a → NI (f p) (a ++ x)) :
    ∀ (more : List St) (q : St) (l : List Stmt), CCoh q more l →
      CCoh (updLast f q more).1 (updLast f q more).2 (l ++ x)
  | [], q, l, h => hf q l h
  | p :: rest, q, l, h => by
    obtain ⟨a, b, e, hq, hr⟩ := h
    exact ⟨a, b ++ x, by rw [e, List.append_assoc], hq, CCoh.updLast hf rest p b hr⟩

theorem CCoh.updLast0 {f : St → St} (hf : ∀ p a, NI p a → NI (f p) a) (more : List St) (q : St) (l : List Stmt)
    (h : CCoh q more l) : CCoh (Backend.updLast f q more).1 (Backend.updLast f q more).2 l := by
  have := CCoh.updLast (f := f) (x := []) (fun p a hp => by simpa using hf p a hp) more q l h
  simpa using this

/-- a fresh node at the end of the chain -/
theorem CCoh.snoc (n : St) (hn : NI n []) : ∀ (more : List St) (q : St) (l : List Stmt), CCoh q more l → CCoh q (more ++ [n]) l
  | [], q, l, h => ⟨l, [], by simp, h, hn⟩
  | p :: rest, q, l, h => by
    obtain ⟨a, b, e, hq, hr⟩ := h
    exact ⟨a, b, e, hq, CCoh.snoc n hn rest p b hr⟩

/-- an update of the consumer's node -/
theorem CCoh.updHead {f : St → St} (hf : ∀ a, NI q a → NI (f q) a) {more : List St} {l : List Stmt}
    (h : CCoh q more l) : CCoh (f q) more l := by
  cases more with
  | nil => exact hf l h
  | cons p rest => obtain ⟨a, b, e, hq, hr⟩ := h; exact ⟨a, b, e, hf a hq, hr⟩

/-- the records of the consumer's node come first -/
theorem CCoh.head {q : St} {more : List St} {l : List Stmt} (h : CCoh q more l) : ∃ a b, l = a ++ b ∧ NI q a := by
  cases more with
  | nil => exact ⟨l, [], by simp, h⟩
  | cons p rest => obtain ⟨a, b, e, hq, _⟩ := h; exact ⟨a, b, e, hq⟩

/-- reading the first record of the consumer's node -/
theorem CCoh.read {c : Cfg} {q : St} {more : List St} {st : Stmt} {rest : List Stmt} (h : CCoh q more (st :: rest))
    (hoff : ∀ a, NI q a → a ≠ []) (hne : q.wcache ≠ q.rpos) : CCoh (qFinishRead c q st.size) more rest := by
  cases more with
  | nil => exact NI.read h hne
  | cons p r =>
    obtain ⟨a, b, e, hq, hr⟩ := h
    cases a with
    | nil => exact absurd rfl (hoff [] hq)
    | cons x a' =>
      simp only [List.cons_append, List.cons.injEq] at e
      obtain ⟨e1, e2⟩ := e
      subst e1
      exact ⟨a', b, e2, NI.read hq hne, hr⟩

end Backend.UQ
