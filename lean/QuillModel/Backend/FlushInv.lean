import QuillModel.Backend.OrdBack3
/-!
# The flush invariant of the backend model (C06)

`FI ex pf s`:
* conservation / FIFO per context: `accepted = popped ++ buf ++ qStmts`; everything popped is in the global `popLog`;
* every raised flag stems from a *popped* Flush statement or from a decoded removal request;
* flag numbers are unique: every flag-carrying statement (accepted anywhere, or parked in a call) has its own number;
* `pf` — flags whose Flush statement has been popped and which are about to be raised (inside `processLowest`);
* `ex` — an actor whose parked statement is momentarily exempt (inside `enqFlow`).
-/
namespace Backend.PB
open Backend

def flagOfK : Kind → Option Nat
  | .flush f => some f
  | .removal f => some f
  | _ => none

def flagOf (st : Stmt) : Option Nat := flagOfK st.kind

def flagsIn (l : List Stmt) : List Nat := l.filterMap flagOf

theorem flagsIn_append (l r : List Stmt) : flagsIn (l ++ r) = flagsIn l ++ flagsIn r := by
  simp [flagsIn, List.filterMap_append]

theorem mem_flagsIn {l : List Stmt} {f : Nat} : f ∈ flagsIn l ↔ ∃ st ∈ l, flagOf st = some f := by
  simp [flagsIn, List.mem_filterMap]

/-- the parked call of the live actor `a`, if any -/
def pendOf (s : BSt) (a : Nat) : Option Pend := (s.actor a).map (·.pend)

structure FI (ex : Option Nat) (pf : List Nat) (s : BSt) : Prop where
  cons : ∀ i, (s.th i).accepted = (s.th i).popped ++ (s.th i).buf ++ (s.th i).qStmts
  plog : ∀ i, ∀ p ∈ (s.th i).popped, p ∈ s.popLog
  flg : ∀ f ∈ s.flags, (∃ i, ∃ st ∈ (s.th i).popped, st.kind = .flush f) ∨
      (∃ i, ∃ st ∈ (s.th i).accepted, st.kind = .removal f)
  flgP : ∀ f ∈ pf, ∃ i, ∃ st ∈ (s.th i).popped, st.kind = .flush f
  /-- conversely: the flag of every popped Flush statement is raised (or about to be: `pf`) -/
  popFlag : ∀ i, ∀ st ∈ (s.th i).popped, ∀ f, st.kind = .flush f → f ∈ s.flags ∨ f ∈ pf
  rem : ∀ gf ∈ s.removalFlags, ∃ i, ∃ st ∈ (s.th i).accepted, st.kind = .removal gf.2
  accLt : ∀ i, ∀ f ∈ flagsIn (s.th i).accepted, f < s.nextFlag
  accNodup : ∀ i, (flagsIn (s.th i).accepted).Nodup
  accDisj : ∀ i j, i ≠ j → ∀ f ∈ flagsIn (s.th i).accepted, f ∉ flagsIn (s.th j).accepted
  pendFresh : ∀ a p st f, pendOf s a = some p → some a ≠ ex → isPendOf p st → flagOf st = some f →
      f < s.nextFlag ∧ (∀ i, f ∉ flagsIn (s.th i).accepted) ∧
      (∀ b q st', b ≠ a → pendOf s b = some q → isPendOf q st' → flagOf st' ≠ some f)

/-- what `FI` sees of a context -/
structure ThEq2 (t t' : Th) : Prop where
  buf : t'.buf = t.buf
  q : t'.qStmts = t.qStmts
  acc : t'.accepted = t.accepted
  pop : t'.popped = t.popped

theorem ThEq2.refl (t : Th) : ThEq2 t t := ⟨rfl, rfl, rfl, rfl⟩
theorem ThEq2.trans {a b c : Th} (h1 : ThEq2 a b) (h2 : ThEq2 b c) : ThEq2 a c :=
  ⟨h2.buf.trans h1.buf, h2.q.trans h1.q, h2.acc.trans h1.acc, h2.pop.trans h1.pop⟩

/-- `s'` differs from `s` only in fields `FI` cannot see -/
structure Same2 (s s' : BSt) : Prop where
  th : ∀ i, ThEq2 (s.th i) (s'.th i)
  act : ∀ a, pendOf s' a = pendOf s a
  pop : s'.popLog = s.popLog
  flags : s'.flags = s.flags
  rem : s'.removalFlags = s.removalFlags
  nf : s'.nextFlag = s.nextFlag

theorem Same2.refl (s : BSt) : Same2 s s := ⟨fun _ => ThEq2.refl _, fun _ => rfl, rfl, rfl, rfl, rfl⟩
theorem Same2.trans {a b c : BSt} (h1 : Same2 a b) (h2 : Same2 b c) : Same2 a c :=
  ⟨fun i => (h1.th i).trans (h2.th i), fun x => (h2.act x).trans (h1.act x), h2.pop.trans h1.pop,
   h2.flags.trans h1.flags, h2.rem.trans h1.rem, h2.nf.trans h1.nf⟩

theorem FI.same {ex pf} {s s' : BSt} (h : FI ex pf s) (hs : Same2 s s') : FI ex pf s' where
  cons := fun i => by rw [(hs.th i).acc, (hs.th i).pop, (hs.th i).buf, (hs.th i).q]; exact h.cons i
  plog := fun i => by rw [(hs.th i).pop, hs.pop]; exact h.plog i
  flg := fun f hf => by
    rw [hs.flags] at hf
    rcases h.flg f hf with ⟨i, st, h1, h2⟩ | ⟨i, st, h1, h2⟩
    · exact Or.inl ⟨i, st, by rw [(hs.th i).pop]; exact h1, h2⟩
    · exact Or.inr ⟨i, st, by rw [(hs.th i).acc]; exact h1, h2⟩
  flgP := fun f hf => by
    obtain ⟨i, st, h1, h2⟩ := h.flgP f hf
    exact ⟨i, st, by rw [(hs.th i).pop]; exact h1, h2⟩
  popFlag := fun i => by rw [(hs.th i).pop, hs.flags]; exact h.popFlag i
  rem := fun gf hgf => by
    rw [hs.rem] at hgf
    obtain ⟨i, st, h1, h2⟩ := h.rem gf hgf
    exact ⟨i, st, by rw [(hs.th i).acc]; exact h1, h2⟩
  accLt := fun i => by rw [(hs.th i).acc, hs.nf]; exact h.accLt i
  accNodup := fun i => by rw [(hs.th i).acc]; exact h.accNodup i
  accDisj := fun i j => by rw [(hs.th i).acc, (hs.th j).acc]; exact h.accDisj i j
  pendFresh := fun a x st f hx hex hp hf => by
    rw [hs.act] at hx
    obtain ⟨p1, p2, p3⟩ := h.pendFresh a x st f hx hex hp hf
    refine ⟨by rw [hs.nf]; exact p1, fun i => by rw [(hs.th i).acc]; exact p2 i, fun b y st' hb hy => ?_⟩
    rw [hs.act] at hy; exact p3 b y st' hb hy

/-- the part of the state `FI` can see (whole lists) -/
structure Core2 where
  ths : List Th
  actors : List Actor
  popLog : List Stmt
  flags : List Nat
  removalFlags : List (Nat × Nat)
  nextFlag : Nat

def core2 (s : BSt) : Core2 := ⟨s.ths, s.actors, s.popLog, s.flags, s.removalFlags, s.nextFlag⟩

theorem Same2.ofCore {s s' : BSt} (hc : core2 s' = core2 s) : Same2 s s' := by
  have h3 : s'.ths = s.ths := congrArg Core2.ths hc
  have h7 : s'.actors = s.actors := congrArg Core2.actors hc
  refine ⟨fun i => ?_, fun a => ?_, congrArg Core2.popLog hc, congrArg Core2.flags hc,
    congrArg Core2.removalFlags hc, congrArg Core2.nextFlag hc⟩
  · have : s'.th i = s.th i := by simp only [BSt.th, h3]
    rw [this]; exact ThEq2.refl _
  · simp only [pendOf, BSt.actor, h7]

theorem FI.frame {ex pf} {s s' : BSt} (h : FI ex pf s) (hc : core2 s' = core2 s) : FI ex pf s' :=
  h.same (Same2.ofCore hc)

theorem Same2.setTh (s : BSt) (i : Nat) (f : Th → Th) (hf : ThEq2 (s.th i) (f (s.th i))) : Same2 s (s.setTh i f) := by
  refine ⟨fun j => ?_, fun _ => rfl, rfl, rfl, rfl, rfl⟩
  rcases th_setTh_cases s i j f with h1 | ⟨rfl, _, h1⟩
  · rw [h1]; exact ThEq2.refl _
  · rw [h1]; exact hf

theorem FI.unex {pf} {s : BSt} {a : Nat} (h : FI none pf s) : FI (some a) pf s :=
  { h with pendFresh := fun b x st f hx _ hp hf => h.pendFresh b x st f hx (by simp) hp hf }

/-- the sink / logger machinery only touches `sinks`, `lgs`, `out`, `log` -/
def SLOL (s s' : BSt) : Prop := ∃ a b c d, s' = { s with sinks := a, lgs := b, out := c, log := d }

theorem SLOL.refl (s : BSt) : SLOL s s := ⟨s.sinks, s.lgs, s.out, s.log, rfl⟩
theorem SLOL.trans {a b c : BSt} (h1 : SLOL a b) (h2 : SLOL b c) : SLOL a c := by
  obtain ⟨x1, x2, x3, x4, rfl⟩ := h1
  obtain ⟨y1, y2, y3, y4, rfl⟩ := h2
  exact ⟨y1, y2, y3, y4, rfl⟩
theorem SLOL.core2 {s s' : BSt} (h : SLOL s s') : core2 s' = core2 s := by
  obtain ⟨a, b, c, d, rfl⟩ := h; rfl
theorem SLOL.emit (s : BSt) (e : Ev) : SLOL s (s.emit e) := ⟨s.sinks, s.lgs, e :: s.out, e :: s.log, rfl⟩
theorem SLOL.setSink (s : BSt) (i : Nat) (f : Sink → Sink) : SLOL s (s.setSink i f) := ⟨_, s.lgs, s.out, s.log, rfl⟩
theorem SLOL.setLg (s : BSt) (i : Nat) (f : Lg → Lg) : SLOL s (s.setLg i f) := ⟨s.sinks, _, s.out, s.log, rfl⟩

theorem slol_writeToSinks (s : BSt) (st : Stmt) (l : List Nat) : SLOL s (writeToSinks s st l).1 := by
  induction l generalizing s with
  | nil => exact SLOL.refl _
  | cons sid rest ih =>
    unfold writeToSinks
    simp only
    split
    · split
      · exact (SLOL.setSink _ _ _).trans (SLOL.emit _ _)
      · exact ((SLOL.setSink _ _ _).trans (SLOL.emit _ _)).trans (ih _)
    · exact ih s

theorem slol_dispatch (s : BSt) (st : Stmt) : SLOL s (dispatch s st).1 := slol_writeToSinks _ _ _

theorem slol_replayGo (s : BSt) (l : List Stmt) : SLOL s (replayRing.go s l).1 := by
  induction l generalizing s with
  | nil => exact SLOL.refl _
  | cons x xs ih =>
    unfold replayRing.go
    simp only
    split
    · split
      · exact ((slol_dispatch s x).trans (SLOL.emit _ _)).trans (ih _)
      · exact slol_dispatch s x
    · exact (slol_dispatch s x).trans (ih _)

theorem slol_replayRing (s : BSt) (i : Nat) : SLOL s (replayRing s i).1 := by
  unfold replayRing
  split
  · exact SLOL.refl _
  · simp only
    split
    · exact slol_replayGo _ _
    · exact (slol_replayGo s _).trans (SLOL.setLg _ _ _)

theorem slol_flushSinks (s : BSt) : SLOL s (flushSinks s) := by
  unfold flushSinks
  generalize activeSinks s = l
  induction l generalizing s with
  | nil => exact SLOL.refl _
  | cons x xs ih =>
    rw [List.foldl_cons]
    refine SLOL.trans ?_ (ih _)
    simp only
    split
    · exact ((SLOL.setSink _ _ _).trans (SLOL.emit _ _)).trans (SLOL.emit _ _)
    · exact (SLOL.setSink _ _ _).trans (SLOL.emit _ _)

theorem slol_processEvent (s : BSt) (st : Stmt) : SLOL s (processEvent s st).1 := by
  unfold processEvent
  split
  · split
    · simp only
      split
      · exact slol_dispatch _ _
      · split
        · exact (slol_dispatch _ _).trans (slol_replayRing _ _)
        · exact slol_dispatch _ _
    · split
      · exact SLOL.setLg _ _ _
      · exact SLOL.refl _
  · exact SLOL.setLg _ _ _
  · exact slol_replayRing _ _
  · exact slol_flushSinks _
  · exact SLOL.refl _

theorem slol_reapSinks (s : BSt) (l : List Nat) : SLOL s (reapSinks s l) := by
  unfold reapSinks
  induction l generalizing s with
  | nil => exact SLOL.refl _
  | cons x xs ih =>
    rw [List.foldl_cons]
    refine SLOL.trans ?_ (ih _)
    split
    · exact (SLOL.setSink _ _ _).trans (SLOL.emit _ _)
    · exact SLOL.refl _

end Backend.PB
