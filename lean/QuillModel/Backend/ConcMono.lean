import QuillModel.Backend.ConcBound
import QuillModel.Backend.FlushBack
/-!
# Whatever is accepted later is committed later (helper lemmas for C06 / C09 progress under concurrency)

`Mono s s'`: the clock did not go back and every context's accepted history was extended by records whose commit clock
`enqAt` is at least the clock of `s`. It holds across **every** operation of the machine — frontend calls, a poll with
arbitrary injections, the exit loop (`mono_applyOp`, `mono_runOps`). With the grace premise (`enqAt ≤ ts + grace`) this
gives: once the clock is past `T + grace`, no record with a timestamp `≤ T` is accepted any more (`accLE_const`).
-/
namespace Backend.PB
open Backend

structure Mono (s s' : BSt) : Prop where
  now : s.now ≤ s'.now
  acc : ∀ j, ∃ l, (s'.th j).accepted = (s.th j).accepted ++ l ∧ ∀ r ∈ l, s.now ≤ r.enqAt
  len : s.ths.length ≤ s'.ths.length
  /-- the unread part of a queue grows at most by what is accepted -/
  unread : ∀ j, (s.th j).accepted.length + (s'.th j).qStmts.length ≤ (s'.th j).accepted.length + (s.th j).qStmts.length
  /-- a stopped backend stays stopped -/
  gone : s.backendGone = true → s'.backendGone = true
  /-- a raised flag stays raised -/
  flags : ∀ f ∈ s.flags, f ∈ s'.flags

theorem Mono.ofAcc {s s' : BSt} (h1 : s.now ≤ s'.now) (h2 : ∀ j, (s'.th j).accepted = (s.th j).accepted)
    (h3 : s.ths.length ≤ s'.ths.length) (h4 : ∀ j, (s'.th j).qStmts.length ≤ (s.th j).qStmts.length)
    (h5 : s.backendGone = true → s'.backendGone = true) (h6 : ∀ f ∈ s.flags, f ∈ s'.flags) : Mono s s' :=
  ⟨h1, fun j => ⟨[], by rw [h2]; simp, fun _ h => by cases h⟩, h3, fun j => by rw [h2]; have := h4 j; omega, h5, h6⟩

theorem Mono.refl (s : BSt) : Mono s s :=
  Mono.ofAcc (Nat.le_refl _) (fun _ => rfl) (Nat.le_refl _) (fun _ => Nat.le_refl _) id (fun _ h => h)

theorem Mono.trans {a b c : BSt} (h1 : Mono a b) (h2 : Mono b c) : Mono a c := by
  refine ⟨Nat.le_trans h1.now h2.now, fun j => ?_, Nat.le_trans h1.len h2.len,
    fun j => by have := h1.unread j; have := h2.unread j; omega, fun h => h2.gone (h1.gone h),
    fun f hf => h2.flags f (h1.flags f hf)⟩
  obtain ⟨l1, e1, n1⟩ := h1.acc j
  obtain ⟨l2, e2, n2⟩ := h2.acc j
  refine ⟨l1 ++ l2, by rw [e2, e1, List.append_assoc], fun r hr => ?_⟩
  rcases List.mem_append.mp hr with h | h
  · exact n1 r h
  · exact Nat.le_trans h1.now (n2 r h)

theorem Mono.ofThs {s s' : BSt} (h1 : s'.ths = s.ths) (h2 : s.now ≤ s'.now) (h3 : s'.backendGone = s.backendGone)
    (h4 : ∀ f ∈ s.flags, f ∈ s'.flags := by exact fun _ h => h) : Mono s s' :=
  Mono.ofAcc h2 (fun j => by simp only [BSt.th, h1]) (by rw [h1]; exact Nat.le_refl _)
    (fun j => by simp only [BSt.th, h1]; exact Nat.le_refl _) (fun h => by rw [h3]; exact h) h4

theorem Mono.ofEq {s s' : BSt} (h1 : s'.ths = s.ths) (h2 : s'.now = s.now) (h3 : s'.backendGone = s.backendGone)
    (h4 : ∀ f ∈ s.flags, f ∈ s'.flags := by exact fun _ h => h) : Mono s s' :=
  Mono.ofThs h1 (Nat.le_of_eq h2.symm) h3 h4

theorem Fr.mono {s s' : BSt} (h : Fr s s') : Mono s s' :=
  Mono.ofAcc (Nat.le_of_eq h.now.symm) (fun j => (h.th j).acc) (Nat.le_of_eq h.len.symm)
    (fun j => by
      obtain ⟨l, e⟩ := (h.th j).buf
      have hc := congrArg List.length (h.th j).chain
      unfold PB.chain at hc
      rw [e] at hc
      simp only [List.length_append] at hc
      omega)
    (fun hg => by rw [h.gone]; exact hg) (fun f hf => by rw [h.flags]; exact hf)

/-- a step that leaves the contexts' records alone (`Same2`) and is otherwise a `Sub` step -/
theorem Mono.ofSubSame {s s' : BSt} (h : Sub s s') (h2 : Same2 s s') : Mono s s' :=
  Mono.ofAcc h.now (fun j => (h.th j).acc) (Nat.le_of_eq h.len.symm)
    (fun j => by rw [(h2.th j).q]; exact Nat.le_refl _) (fun hg => by rw [h.gone]; exact hg) h.flags

theorem mono_cleanupContexts (s : BSt) : Mono s (Backend.cleanupContexts s) :=
  Mono.ofSubSame (sub_cleanupContexts s) (same2_cleanupContexts s)

theorem SLOL.mono {s s' : BSt} (h : SLOL s s') : Mono s s' := by
  obtain ⟨a, b, c, d, rfl⟩ := h
  exact Mono.ofEq rfl rfl rfl

theorem Mono.setTh (s : BSt) (i : Nat) (f : Th → Th) (hf : ∀ t, (f t).accepted = t.accepted)
    (hq : ∀ t, (f t).qStmts.length ≤ t.qStmts.length) : Mono s (s.setTh i f) := by
  refine Mono.ofAcc (Nat.le_refl _) (fun j => ?_) (Nat.le_of_eq (length_setTh s i f).symm) (fun j => ?_) id (fun _ h => h)
  · rcases th_setTh_cases s i j f with h1 | ⟨rfl, _, h1⟩
    · rw [h1]
    · rw [h1, hf]
  · rcases th_setTh_cases s i j f with h1 | ⟨rfl, _, h1⟩
    · rw [h1]; exact Nat.le_refl _
    · rw [h1]; exact hq _

theorem Mono.setActor (s : BSt) (a : Nat) (f : Actor → Actor) : Mono s (s.setActor a f) := Mono.ofEq rfl rfl rfl

theorem mono_fold {α} (F : BSt → α → BSt) (hF : ∀ s x, Mono s (F s x)) (l : List α) (s : BSt) : Mono s (l.foldl F s) := by
  induction l generalizing s with
  | nil => exact Mono.refl _
  | cons x xs ih => rw [List.foldl_cons]; exact (hF s x).trans (ih _)

theorem mono_fold_pair {α β} (F : BSt × β → α → BSt × β) (l : List α) (acc : BSt × β)
    (hF : ∀ acc x, Mono acc.1 (F acc x).1) : Mono acc.1 (l.foldl F acc).1 := by
  induction l generalizing acc with
  | nil => exact Mono.refl _
  | cons x xs ih => rw [List.foldl_cons]; exact (hF acc x).trans (ih _)

/-! ### frontend operations -/

theorem mono_ensureCtx (s : BSt) (a : Nat) : Mono s (Backend.ensureCtx s a).1 := by
  unfold Backend.ensureCtx
  split
  · exact Mono.refl _
  · simp only
    have hth : ∀ j, ((({ s with ths := s.ths ++ [mkTh s.cfg a], registry := s.registry ++ [s.ths.length], newFlag := true } : BSt).setActor a
        (fun x => { x with ctx := some s.ths.length })).th j) = if j = s.ths.length then mkTh s.cfg a else s.th j :=
      fun j => th_append s _ j
    refine Mono.ofAcc (Nat.le_refl _) (fun j => ?_) ?_ (fun j => ?_) id (fun _ h => h)
    · rw [hth]; split
      · rename_i hj; rw [hj, th_lt_or_default s _ (Nat.le_refl _)]; rfl
      · rfl
    · show s.ths.length ≤ (s.ths ++ [mkTh s.cfg a]).length
      simp
    · rw [hth]; split
      · rename_i hj; rw [hj, th_lt_or_default s _ (Nat.le_refl _)]; exact Nat.le_refl _
      · exact Nat.le_refl _

theorem Mono.setTh_app (s : BSt) (i : Nat) (f : Th → Th) (x : Stmt) (hx : s.now ≤ x.enqAt)
    (hf : (f (s.th i)).accepted = (s.th i).accepted ++ [x])
    (hq : (f (s.th i)).qStmts.length = (s.th i).qStmts.length + 1) : Mono s (s.setTh i f) := by
  refine ⟨Nat.le_refl _, fun j => ?_, Nat.le_of_eq (length_setTh s i f).symm, fun j => ?_, id, fun _ h => h⟩
  · rcases th_setTh_cases s i j f with h1 | ⟨rfl, _, h1⟩
    · exact ⟨[], by rw [h1]; simp, fun _ h => by cases h⟩
    · refine ⟨[x], by rw [h1, hf], fun r hr => ?_⟩
      rw [List.mem_singleton.mp hr]; exact hx
  · rcases th_setTh_cases s i j f with h1 | ⟨rfl, _, h1⟩
    · rw [h1]; exact Nat.le_refl _
    · rw [h1, hf, hq]; simp only [List.length_append, List.length_cons, List.length_nil]; omega

theorem mono_tryEnq (s : BSt) (ci : Nat) (st : Stmt) : Mono s (Backend.tryEnq s ci st).1 := by
  unfold Backend.tryEnq
  simp only
  split
  · refine Mono.setTh_app s ci _ { st with enqAt := s.now } (Nat.le_refl _) rfl ?_
    show ((s.th ci).qStmts ++ [{ st with enqAt := s.now }]).length = _
    simp
  · refine Mono.setTh s ci _ ?_ ?_
    · intro _; rfl
    · intro _; exact Nat.le_refl _

theorem mono_afterEnq (s : BSt) (a : Nat) (st : Stmt) (cont : Nat) : Mono s (Backend.afterEnq s a st cont).1 := by
  unfold Backend.afterEnq
  split <;> exact Mono.ofEq rfl rfl rfl

theorem mono_enqFlow (s : BSt) (a : Nat) (st : Stmt) (cont : Nat) (first initial : Bool) :
    Mono s (Backend.enqFlow s a st cont first initial).1 := by
  have h1 := mono_ensureCtx s a
  rcases he : Backend.ensureCtx s a with ⟨s1, ci⟩
  rw [he] at h1
  have h2 := mono_tryEnq s1 ci st
  rcases ht : Backend.tryEnq s1 ci st with ⟨s2, ok⟩
  rw [ht] at h2
  simp only at h1 h2
  have h12 := h1.trans h2
  unfold Backend.enqFlow
  simp only [he, ht]
  have hb : ∀ (y : BSt) (g : Th → Th), (∀ t, (g t).accepted = t.accepted) → (∀ t, (g t).qStmts.length ≤ t.qStmts.length) →
      Mono y (if isLogKind st.kind = true then y.setTh ci g else y) := by
    intro y g hg hg2; split
    · exact Mono.setTh y ci g hg hg2
    · exact Mono.refl _
  split
  · refine Mono.trans ?_ (mono_afterEnq _ a st cont)
    exact h12.trans (Mono.setActor _ _ _)
  · split
    · split
      · show Mono s (BSt.setActor _ _ _)
        refine Mono.trans ?_ (Mono.setActor _ _ _)
        exact h12.trans (hb s2 _ (fun _ => rfl) (fun _ => Nat.le_refl _))
      · show Mono s (BSt.setActor _ _ _)
        refine Mono.trans ?_ (Mono.setActor _ _ _)
        exact h12.trans (hb s2 _ (fun _ => rfl) (fun _ => Nat.le_refl _))
    · show Mono s (BSt.setActor _ _ _)
      refine Mono.trans ?_ (Mono.setActor _ _ _)
      split
      · exact h12.trans (hb s2 _ (fun _ => rfl) (fun _ => Nat.le_refl _))
      · exact h12

theorem mono_frontCall (s : BSt) (a lgi : Nat) (kind : Kind) (lvl len cont : Nat) (dyn : Bool) (id : Nat) (named : Bool) :
    Mono s (Backend.frontCall s a lgi kind lvl len cont dyn id named).1 := by
  unfold Backend.frontCall
  simp only
  split
  · exact Mono.ofEq rfl rfl rfl
  · exact mono_enqFlow _ _ _ _ _ _

theorem mono_resume (s : BSt) (a : Nat) : Mono s (Backend.resume s a).1 := by
  unfold Backend.resume
  split
  · exact mono_enqFlow _ _ _ _ _ _
  · split <;> exact mono_enqFlow _ _ _ _ _ _
  · split
    · exact Mono.ofEq rfl rfl rfl
    · exact Mono.refl _
  · exact Mono.refl _

theorem mono_withLogger (s : BSt) (a g : Nat) (k : Nat → BSt × String) (hk : ∀ lgi, Mono s (k lgi).1) :
    Mono s (Backend.withLogger s a g k).1 := by
  unfold Backend.withLogger
  split
  · unfold noteCall; exact (hk _).trans (Mono.setActor _ _ _)
  · exact Mono.refl _

theorem reapSinks_gone (s : BSt) (l : List Nat) : (reapSinks s l).backendGone = s.backendGone := by
  unfold reapSinks
  induction l generalizing s with
  | nil => rfl
  | cons x xs ih =>
    rw [List.foldl_cons, ih]
    split <;> rfl

theorem reapSinks_flags (s : BSt) (l : List Nat) : (reapSinks s l).flags = s.flags := by
  unfold reapSinks
  induction l generalizing s with
  | nil => rfl
  | cons x xs ih =>
    rw [List.foldl_cons, ih]
    split <;> rfl

theorem mono_applyFront (s : BSt) (f : FOp) : Mono s (Backend.applyFront s f).1 := by
  cases f with
  | tick dt => exact Mono.ofThs rfl (Nat.le_add_right _ _) rfl
  | tstart a => simp only [Backend.applyFront]; split <;> exact Mono.ofEq rfl rfl rfl
  | texit a =>
    simp only [Backend.applyFront]
    split
    · exact Mono.refl _
    · split
      · rename_i i _
        have h1 : Mono s (s.setActor a (fun x => { x with alive := false })) := Mono.setActor _ _ _
        have h2 := h1.trans (Mono.setTh (s.setActor a (fun x => { x with alive := false })) i
          (fun t => { t with valid := false }) (fun _ => rfl) (fun _ => Nat.le_refl _))
        exact h2.trans (Mono.ofEq rfl rfl rfl)
      · exact Mono.ofEq rfl rfl rfl
  | resume a =>
    simp only [Backend.applyFront]
    have := mono_resume s a
    split
    · exact this
    · split
      · exact this
      · exact this.trans (Mono.setActor _ _ _)
  | armStall a => simp only [Backend.applyFront]; split <;> exact Mono.ofEq rfl rfl rfl
  | log a g lvl len dyn =>
    simp only [Backend.applyFront]
    refine mono_withLogger s a g _ (fun lgi => ?_)
    split
    · exact (Mono.ofEq (s := s) (s' := { s with nextId := s.nextId + 1 }) rfl rfl rfl).trans (mono_frontCall _ _ _ _ _ _ _ _ _ _)
    · exact Mono.ofEq rfl rfl rfl
  | logNamed a g len =>
    simp only [Backend.applyFront]
    refine mono_withLogger s a g _ (fun lgi => ?_)
    split
    · exact (Mono.ofEq (s := s) (s' := { s with nextId := s.nextId + 1 }) rfl rfl rfl).trans (mono_frontCall _ _ _ _ _ _ _ _ _ _)
    · exact Mono.ofEq rfl rfl rfl
  | logBt a g len =>
    simp only [Backend.applyFront]
    refine mono_withLogger s a g _ (fun lgi => ?_)
    split
    · exact (Mono.ofEq (s := s) (s' := { s with nextId := s.nextId + 1 }) rfl rfl rfl).trans (mono_frontCall _ _ _ _ _ _ _ _ _ _)
    · exact Mono.ofEq rfl rfl rfl
  | initBt a g cap fl' =>
    simp only [Backend.applyFront]
    exact mono_withLogger s a g _ (fun lgi => mono_frontCall _ _ _ _ _ _ _ _ _ _)
  | flushBt a g =>
    simp only [Backend.applyFront]
    exact mono_withLogger s a g _ (fun lgi => mono_frontCall _ _ _ _ _ _ _ _ _ _)
  | flush a g =>
    simp only [Backend.applyFront]
    exact mono_withLogger s a g _ (fun lgi =>
      (Mono.ofEq (s := s) (s' := { s with nextFlag := s.nextFlag + 1 }) rfl rfl rfl).trans (mono_frontCall _ _ _ _ _ _ _ _ _ _))
  | removeBlocking a g =>
    simp only [Backend.applyFront]
    split
    · exact Mono.refl _
    · exact mono_withLogger s a g _ (fun lgi =>
        (Mono.ofEq (s := s) (s' := dropName { s with nextFlag := s.nextFlag + 1 } g) rfl rfl rfl).trans
          (mono_frontCall _ _ _ _ _ _ _ _ _ _))
  | remove a g =>
    simp only [Backend.applyFront]
    split
    · exact Mono.refl _
    · split
      · exact Mono.ofEq rfl rfl rfl
      · exact Mono.refl _
  | create a g sl =>
    simp only [Backend.applyFront]
    split
    · exact Mono.refl _
    · split
      · split
        · exact Mono.refl _
        · exact Mono.ofEq rfl rfl rfl
      · exact Mono.ofEq rfl rfl rfl
  | setLevel g lvl =>
    simp only [Backend.applyFront]
    split
    · exact Mono.ofEq rfl rfl rfl
    · exact Mono.refl _
  | setSinkLevel sid lvl =>
    simp only [Backend.applyFront]
    split
    · exact Mono.ofEq rfl rfl rfl
    · exact Mono.refl _
  | dropSink sid =>
    simp only [Backend.applyFront]
    obtain ⟨a, _, c, _⟩ := reapSinks_core (s.setSink sid (fun k => { k with userRef := false })) [sid]
    exact Mono.ofEq (by rw [a]; rfl) (by rw [c]; rfl) (reapSinks_gone _ _) (fun f hf => by rw [reapSinks_flags]; exact hf)
  | query => exact Mono.refl _

theorem mono_foldFront (ops : List FOp) (skip : FOp → Bool) (e : BSt → FOp → Ev)
    (s1 : BSt) : Mono s1 (ops.foldl (fun s f => (if skip f then (s, "noop") else Backend.applyFront s f).1.emit (e s f)) s1) := by
  induction ops generalizing s1 with
  | nil => exact Mono.refl _
  | cons f fs ih =>
    rw [List.foldl_cons]
    refine Mono.trans ?_ (ih _)
    split
    · exact Mono.ofEq rfl rfl rfl
    · exact (mono_applyFront s1 f).trans (Mono.ofEq rfl rfl rfl)

theorem mono_runInj (table : List (Nat × Nat × List FOp)) (s : BSt) (site : Nat) :
    Mono s (Backend.runInj table s site) := by
  unfold Backend.runInj
  simp only
  generalize ((s.siteCnt.find? (·.1 = site)).map (·.2)).getD 0 + 1 = k
  split
  · exact Mono.ofEq rfl rfl rfl
  · refine Mono.trans (b := { s with siteCnt := (site, k) :: s.siteCnt.filter (·.1 ≠ site) }) (Mono.ofEq rfl rfl rfl) ?_
    exact mono_foldFront _ (fun f => decide (site = 9) && f.needsManagerLock)
        (fun s f => Ev.inj site k f.show (if (decide (site = 9) && f.needsManagerLock) = true then (s, "noop")
          else Backend.applyFront s f).2) _

def InjMono (inj : BSt → Nat → BSt) : Prop := ∀ s k, Mono s (inj s k)

theorem injMono_runInj (table : List (Nat × Nat × List FOp)) : InjMono (runInj table) := fun s k => mono_runInj table s k

/-! ### the backend, arbitrary injections -/

variable {inj : BSt → Nat → BSt}

theorem mono_readQueue (hg : InjMono inj) (tsNow : Option Nat) (i : Nat) (fuel : Nat) :
    ∀ (total : Nat) (s : BSt), Mono s (Backend.readQueue inj tsNow i fuel total s) := by
  induction fuel with
  | zero => intro total s; rw [readQueue_zero]; exact (fr_rqFin s i total).mono
  | succ n ih =>
    intro total s
    rw [readQueue_succ]
    have hfin := fun tot => ((fr_rqPrep s i).trans (fr_rqFin (rqPrep s i) i tot)).mono
    split
    · exact hfin total
    · split
      · exact hfin total
      · rename_i st rest hqs
        split
        · exact hfin total
        · have h3 := (fr_rqMove s i st rest hqs).1.mono.trans (hg _ 3)
          split
          · exact h3.trans (ih _ _)
          · exact h3.trans (fr_rqCommit _ i).mono

theorem mono_populate (hg : InjMono inj) (s : BSt) : Mono s (populate inj s).1 := by
  rw [populate_eq]
  have fa : Mono s (popA s) := by
    unfold popA; split
    · exact Mono.refl _
    · exact (fr_refresh s).mono
  have fb : Mono (popA s) (popB inj s) := by
    unfold popB; split
    · exact Mono.refl _
    · exact hg _ 7
  have fc : Mono (popB inj s) (popC inj s) := by
    unfold popC; split
    · exact (hg _ 1).trans (fr_refresh _).mono
    · exact hg _ 1
  refine ((fa.trans fb).trans fc).trans ?_
  refine mono_fold_pair (popStep inj (tsNowOf (popB inj s))) _ (popC inj s, 0) ?_
  intro acc i
  unfold popStep
  exact (hg acc.1 2).trans (mono_readQueue hg _ i _ 0 _)

theorem mono_checkFailures (hg : InjMono inj) (s : BSt) : Mono s (Backend.checkFailures inj s) := by
  unfold Backend.checkFailures
  apply mono_fold
  intro b i
  simp only
  split
  · refine Mono.trans ?_ (hg _ 8)
    have h1 : Mono b (b.setTh i (fun t => { t with fail := 0 })) := by
      refine Mono.setTh b i _ ?_ ?_
      · intro _; rfl
      · intro _; exact Nat.le_refl _
    refine h1.trans ?_
    exact Mono.ofEq rfl rfl rfl
  · exact Mono.refl _

theorem mono_reapSinksInj (hg : InjMono inj) (l : List Nat) (s : BSt) : Mono s (reapSinksInj inj s l) := by
  unfold Backend.reapSinksInj
  apply mono_fold
  intro b sid
  split
  · refine Mono.trans ?_ (hg _ 9)
    exact Mono.ofEq rfl rfl rfl
  · exact Mono.refl _

theorem mono_cleanupLoggers (hg : InjMono inj) (s : BSt) : Mono s (Backend.cleanupLoggers inj s) := by
  unfold Backend.cleanupLoggers
  split
  · exact Mono.refl _
  · simp only
    refine Mono.trans ?_ (mono_fold _ ?_ _ _)
    · refine Mono.trans (Mono.ofEq (s' := { s with hasInvalidLoggers := false }) rfl rfl rfl) ?_
      refine mono_fold_pair _ _ ({ s with hasInvalidLoggers := false }, []) ?_
      intro acc i
      split
      · exact Mono.refl _
      · split
        · refine (fr_allEmpty _).mono.trans (Mono.trans ?_ (mono_reapSinksInj hg _ _))
          exact Mono.ofEq rfl rfl rfl
        · exact (fr_allEmpty _).mono.trans (Mono.ofEq rfl rfl rfl)
    · intro b a
      split
      · exact Mono.ofEq rfl rfl rfl (fun _ h => List.mem_cons_of_mem _ h)
      · exact Mono.refl _

theorem mono_processLowest (hg : InjMono inj) (s : BSt) : Mono s (Backend.processLowest inj s).1 := by
  rw [processLowest_eq]
  cases lowest s with
  | none => exact Mono.refl _
  | some j =>
    simp only
    cases (s.th j).buf with
    | nil => exact Mono.refl _
    | cons st rest =>
      simp only
      have hsl : SLOL s (plNote (processEvent s st)) := by
        unfold plNote; split
        · exact (slol_processEvent s st).trans (SLOL.emit _ _)
        · exact slol_processEvent s st
      have f2 : Mono s (plNote (processEvent s st)) := hsl.mono
      generalize plNote (processEvent s st) = s2 at f2
      have p1 : Mono s2 (plPop s2 j st rest) := by
        unfold plPop
        have h1 : Mono s2 (s2.setTh j (fun t => { t with buf := rest, popped := t.popped ++ [st] })) := by
          refine Mono.setTh s2 j _ ?_ ?_
          · intro _; rfl
          · intro _; exact Nat.le_refl _
        refine h1.trans ?_
        exact Mono.ofEq rfl rfl rfl
      split
      · rename_i f _
        have hpre : Mono (plPop s2 j st rest) (plPre inj (plPop s2 j st rest)) := by
          unfold plPre
          refine Mono.trans ?_ (mono_cleanupContexts _)
          split
          · exact mono_checkFailures hg _
          · exact Mono.refl _
        exact ((f2.trans p1).trans hpre).trans
          (Mono.ofEq (s := plPre inj (plPop s2 j st rest)) (s' := plFlag inj (plPop s2 j st rest) f) rfl rfl rfl
            (fun _ h => List.mem_cons_of_mem _ h))
      · exact f2.trans p1

theorem mono_batchLoop (hg : InjMono inj) (fuel : Nat) : ∀ s, Mono s (Backend.batchLoop inj fuel s) := by
  induction fuel with
  | zero => intro s; exact Mono.refl _
  | succ n ih =>
    intro s
    unfold Backend.batchLoop
    simp only
    have f1 := (fr_hasPending s).mono
    split
    · exact f1
    · have p := mono_processLowest hg (Backend.hasPending s).1
      split
      · exact f1.trans p
      · exact (f1.trans p).trans ((hg _ 4).trans (ih _))

theorem mono_preEraseFlush (s : BSt) : Mono s (Backend.preEraseFlush s) := by
  unfold Backend.preEraseFlush
  split
  · exact (slol_flushSinks _).mono
  · exact Mono.refl _

theorem mono_flushGate (hg : InjMono inj) (s : BSt) (n : Nat) : Mono s (Backend.flushGate inj s n) := by
  unfold Backend.flushGate
  split
  · exact (slol_flushSinks _).mono
  · simp only []
    split
    · exact (hg s 7).trans ((Mono.ofThs rfl (Nat.le_refl _) rfl :
        Mono (inj s 7) { inj s 7 with lastFlush := (inj s 7).now }).trans (slol_flushSinks _).mono)
    · exact hg s 7

/-- what a poll does after its pass -/
theorem mono_poll_tail (hg : InjMono inj) (s : BSt) : Mono (populate inj s).1 (Backend.poll inj s) := by
  unfold Backend.poll
  rcases hpop : Backend.populate inj s with ⟨s1, count⟩
  simp only
  split
  · split
    · exact mono_processLowest hg s1
    · exact mono_batchLoop hg _ s1
  · have a1 : Mono s1 (Backend.allEmpty (Backend.checkFailures inj
        (Backend.flushGate inj (inj s1 5) (inj s1 5).cfg.flushInterval))).1 :=
      (((hg s1 5).trans (mono_flushGate hg _ _)).trans (mono_checkFailures hg _)).trans (fr_allEmpty _).mono
    split
    · exact (a1.trans (mono_cleanupContexts _)).trans ((mono_preEraseFlush _).trans (mono_cleanupLoggers hg _))
    · exact a1

theorem mono_poll (hg : InjMono inj) (s : BSt) : Mono s (Backend.poll inj s) := by
  have g1 := mono_populate hg s
  unfold Backend.poll
  rcases hpop : Backend.populate inj s with ⟨s1, count⟩
  rw [hpop] at g1
  simp only at g1 ⊢
  split
  · split
    · exact g1.trans (mono_processLowest hg s1)
    · exact g1.trans (mono_batchLoop hg _ s1)
  · have a1 : Mono s1 (Backend.allEmpty (Backend.checkFailures inj
        (Backend.flushGate inj (inj s1 5) (inj s1 5).cfg.flushInterval))).1 :=
      (((hg s1 5).trans (mono_flushGate hg _ _)).trans (mono_checkFailures hg _)).trans (fr_allEmpty _).mono
    split
    · exact g1.trans ((a1.trans (mono_cleanupContexts _)).trans ((mono_preEraseFlush _).trans (mono_cleanupLoggers hg _)))
    · exact g1.trans a1

theorem mono_exitLoop (hg : InjMono inj) (tick : Nat) : ∀ (fuel : Nat) (s : BSt), Mono s (Backend.exitLoop inj tick fuel s)
  | 0, s => Mono.refl s
  | fuel + 1, s => by
    unfold Backend.exitLoop
    simp only
    have a0 := (fr_allEmpty s).mono
    split
    · exact a0.trans ((((mono_checkFailures hg _).trans (slol_flushSinks _).mono).trans
        (mono_cleanupContexts _)).trans ((mono_preEraseFlush _).trans (mono_cleanupLoggers hg _)))
    · have t0 : Mono (Backend.allEmpty s).1 { (Backend.allEmpty s).1 with now := (Backend.allEmpty s).1.now + tick } :=
        Mono.ofThs rfl (Nat.le_add_right _ _) rfl
      have p0 := mono_populate hg { (Backend.allEmpty s).1 with now := (Backend.allEmpty s).1.now + tick }
      rcases hpop : Backend.populate inj { (Backend.allEmpty s).1 with now := (Backend.allEmpty s).1.now + tick } with ⟨s1, count⟩
      rw [hpop] at p0
      simp only at p0 ⊢
      refine ((a0.trans t0).trans p0).trans (Mono.trans ?_ (mono_exitLoop hg tick fuel _))
      split
      · exact mono_batchLoop hg _ s1
      · exact Mono.refl _

theorem mono_applyOp (s : BSt) (o : Op) : Mono s (applyOp s o).1 := by
  have h0 : Mono s { s with siteCnt := [] } := Mono.ofEq rfl rfl rfl
  cases o with
  | front f => exact mono_applyFront s f
  | poll table =>
    simp only [applyOp]
    split
    · exact Mono.refl _
    · exact h0.trans (mono_poll (injMono_runInj table) _)
  | exit =>
    simp only [applyOp]
    split
    · exact Mono.refl _
    · have h1 := h0.trans (mono_exitLoop (injMono_runInj []) 1000 100000 { s with siteCnt := [] })
      refine h1.trans ?_
      exact Mono.ofAcc (Nat.le_refl _) (fun _ => rfl) (Nat.le_refl _) (fun _ => Nat.le_refl _) (fun _ => rfl) (fun _ h => h)

theorem mono_runOps : ∀ (ops : List Op) (s : BSt), Mono s (runOps s ops)
  | [], s => Mono.refl s
  | o :: os, s => by
    have e : runOps s (o :: os) = runOps (applyOp s o).1 os := by simp [runOps]
    rw [e]; exact (mono_applyOp s o).trans (mono_runOps os _)

/-! ### with the grace premise: nothing below `T` is accepted once the clock is past `T + grace` -/

theorem sum_zero_of_all_zero : ∀ (l : List Nat), (∀ x ∈ l, x = 0) → l.sum = 0
  | [], _ => rfl
  | x :: xs, h => by
    have h1 := h x (List.mem_cons_self ..)
    have h2 := sum_zero_of_all_zero xs (fun y hy => h y (List.mem_cons_of_mem _ hy))
    simp only [List.sum_cons]; omega

theorem accLE_const {s s' : BSt} (h : Mono s s') (hc : s'.cfg = s.cfg) (hp : GracePremise s') (T : Nat)
    (hT : T + s.cfg.grace < s.now) : accLE s' T = accLE s T := by
  unfold accLE
  have hcount : ∀ j, (s'.th j).accepted.countP (fun r => decide (r.ts ≤ T)) = (s.th j).accepted.countP (fun r => decide (r.ts ≤ T)) := by
    intro j
    obtain ⟨l, e, hn⟩ := h.acc j
    rw [e, List.countP_append]
    have : l.countP (fun r => decide (r.ts ≤ T)) = 0 := by
      rw [List.countP_eq_zero]
      intro r hr
      have h1 := hn r hr
      have hj : j < s'.ths.length := by
        apply Classical.byContradiction; intro hnj
        rw [th_lt_or_default s' j (by omega)] at e
        have : ([] : List Stmt) = (s.th j).accepted ++ l := e
        have hl : l = [] := by
          cases hl : l with
          | nil => rfl
          | cons x xs => rw [hl] at this; simp at this
        rw [hl] at hr; cases hr
      have h2 := hp (s'.th j) (th_mem s' hj) r (by rw [e]; exact List.mem_append_right _ hr)
      rw [hc] at h2
      simp only [decide_eq_true_eq]; omega
    omega
  -- the contexts of `s` are the first contexts of `s'`; the later ones hold only late records
  have e1 : ∀ (x : BSt), (x.ths.map (fun t => t.accepted.countP (fun r => decide (r.ts ≤ T)))).sum =
      ((List.range x.ths.length).map (fun j => (x.th j).accepted.countP (fun r => decide (r.ts ≤ T)))).sum := by
    intro x
    congr 1
    apply List.ext_getElem
    · simp
    · intro j h1 h2
      simp only [List.length_map, List.length_range] at h2
      simp only [List.getElem_map, List.getElem_range, BSt.th, List.getD_eq_getElem?_getD, List.getElem?_eq_getElem h2,
        Option.getD_some]
  rw [e1 s', e1 s]
  have hlen := h.len
  obtain ⟨d, hd⟩ := Nat.exists_eq_add_of_le hlen
  rw [hd, List.range_add, List.map_append, List.sum_append]
  have hz : ((List.map (fun x => s.ths.length + x) (List.range d)).map
      (fun j => (s'.th j).accepted.countP (fun r => decide (r.ts ≤ T)))).sum = 0 := by
    apply sum_zero_of_all_zero
    intro x hx
    obtain ⟨j, hj, rfl⟩ := List.mem_map.mp hx
    rw [hcount j]
    obtain ⟨k, _, rfl⟩ := List.mem_map.mp hj
    rw [th_lt_or_default s _ (Nat.le_add_right _ _)]; rfl
  rw [hz, Nat.add_zero]
  congr 1
  apply List.map_congr_left
  intro j _
  exact hcount j


/-- records with a timestamp `≤ T` that are pending (in a transit buffer or a queue), over all contexts -/
def pendingLE (s : BSt) (T : Nat) : Nat :=
  (s.ths.map (fun t => (t.buf ++ t.qStmts).countP (fun r => decide (r.ts ≤ T)))).sum

theorem sum_map_le_add {α} (l : List α) (f g h : α → Nat) (hh : ∀ x ∈ l, f x ≤ g x + h x) :
    (l.map f).sum ≤ (l.map g).sum + (l.map h).sum := by
  induction l with
  | nil => simp
  | cons x xs ih =>
    have h1 := hh x (List.mem_cons_self ..)
    have h2 := ih (fun y hy => hh y (List.mem_cons_of_mem _ hy))
    simp only [List.map_cons, List.sum_cons]; omega

/-- what was accepted with a timestamp `≤ T` has been popped or is pending -/
theorem accLE_le {s : BSt} (hA : PA.Inv s) (hF : FI none [] s) (T : Nat) : accLE s T ≤ s.popLog.length + pendingLE s T := by
  have e1 : s.popLog.length = (s.ths.map (fun t => t.popped.countP (fun _ => true))).sum := by
    have := hA.p (fun _ => true)
    rw [List.countP_eq_length.mpr (fun _ _ => rfl)] at this
    exact this
  rw [e1]
  unfold accLE pendingLE
  apply sum_map_le_add
  intro t ht
  obtain ⟨j, _, hj⟩ := mem_ths s ht
  have hc := hF.cons j
  rw [hj] at hc
  rw [hc, List.append_assoc, List.countP_append]
  have : t.popped.countP (fun r => decide (r.ts ≤ T)) ≤ t.popped.countP (fun _ => true) := by
    rw [List.countP_eq_length.mpr (fun _ _ => rfl)]; exact List.countP_le_length
  omega

theorem Mono.mem_acc {s s' : BSt} (h : Mono s s') {j : Nat} {r : Stmt} (hr : r ∈ (s.th j).accepted) :
    r ∈ (s'.th j).accepted := by
  obtain ⟨l, e, _⟩ := h.acc j
  rw [e]; exact List.mem_append_left _ hr

end Backend.PB
