import QuillModel.Backend.Ops
/-!
Observation texts of the model (`applyFront`, `applyOp`): classifiers on the characters of a text, the list of quiet
formats, the observation-collecting run. Definitions only (lemmas: `Backend/LiftObsStr.lean`, `Backend/LiftObsStep.lean`).
-/
namespace Backend.PC
open Backend

/-- the text ends with ` ev=1 bytes=0`: what a refused ordinary log call prints -/
def isDropObs (t : String) : Bool := " ev=1 bytes=0".toList.isSuffixOf t.toList

/-- the text ends with ` ret=0 ev=1 bytes=0`: what a refused LOG_DYNAMIC call prints -/
def isRet0Obs (t : String) : Bool := " ret=0 ev=1 bytes=0".toList.isSuffixOf t.toList

/-- the text ends with ` ev=1 bytes=<digits>` (at least one digit): an ordinary log call that reached the reservation -/
def isAttemptObs (t : String) : Bool :=
  !((t.toList.reverse.takeWhile Char.isDigit).isEmpty) &&
    " ev=1 bytes=".toList.reverse.isPrefixOf (t.toList.reverse.dropWhile Char.isDigit)

/-- every observation format of `applyFront` / `applyOp` that is not the line of an attempted ordinary log call -/
inductive Quiet : String → Prop
  | ok : Quiet "ok"
  | noop : Quiet "noop"
  | done : Quiet "done"
  | ev : Quiet "ev"
  | sleep : Quiet "parked:sleep"
  | stall : Quiet "parked:stall"
  | idStall (n : Nat) : Quiet s!"id={n} parked:stall"
  | idSleep (n : Nat) : Quiet s!"id={n} parked:sleep"
  | skip (n : Nat) : Quiet s!"id={n} skip ev=0 bytes=0"
  | ev0 (n : Nat) : Quiet s!"id={n} ev=0 bytes=0"
  | created (k : Nat) : Quiet s!"ok valid=1 nsinks={k}"
  | query (a b : Nat) : Quiet s!"contexts={a} loggers={b}"

/-- the texts of the results of the injected operations of a history -/
def injT : List Ev → List String
  | [] => []
  | .inj _ _ _ r :: l => r :: injT l
  | _ :: l => injT l

end Backend.PC

namespace Backend
/-- run a whole schedule, keeping the observation of every top-level operation (oldest first) -/
def runObs (s : BSt) : List Op → BSt × List String
  | [] => (s, [])
  | o :: os => ((runObs (applyOp s o).1 os).1, (applyOp s o).2 :: (runObs (applyOp s o).1 os).2)

theorem runObs_fst : ∀ (ops : List Op) (s : BSt), (runObs s ops).1 = runOps s ops
  | [], _ => rfl
  | o :: os, s => by
    show (runObs (applyOp s o).1 os).1 = runOps (applyOp s o).1 os
    exact runObs_fst os _
end Backend
