import QuillModel.Backend.UQueue
/-!
The backend machine for the two unbounded `FrontendOptions` (UnboundedBlocking / UnboundedDropping): the same state
(`BSt`), the same frontend calls and backend poll as `Backend/Sched.lean`, with the per-thread queue being the chain of
`Backend/UQueue.lean`. Only the functions that touch the queue are re-stated (suffix `U`); dispatch, sinks, loggers,
backtrace, the cache and the clock are the definitions of `Sched.lean` themselves. Differences that the C++ makes for an
unbounded queue type, mirrored here: `_check_failure_counter` skips such contexts (nothing is reported or reset), the
context clean-up does not look at the failure counter, a read reports every switch of buffers through the notifier,
the read loop's byte limit is the capacity of the consumer's buffer when the read starts, a record larger than the
maximum capacity throws `QuillError` out of the log call.
-/
namespace Backend
open Spsc

/-- parameters of the unbounded builds: `unbounded_queue_max_capacity` and the extracted F25 flag -/
structure UP where
  qmax : Nat
  follow : Bool := true
  deriving Repr

/-! ### frontend -/

/-- one reservation attempt; on success the record is written and committed -/
def tryEnqU (u : UP) (s : BSt) (ci : Nat) (st : Stmt) : BSt × UGrant :=
  let r := uPrepareWrite s.cfg u.qmax (s.th ci) st.size
  match r.2 with
  | .grant =>
    let st := { st with enqAt := s.now }
    (s.setTh ci (fun t =>
      let t1 := uFinishCommit s.cfg (uPrepareWrite s.cfg u.qmax t st.size).1 st.size
      { t1 with qStmts := t.qStmts ++ [st], accepted := t.accepted ++ [st] }), .grant)
  | g => (s.setTh ci (fun t => (uPrepareWrite s.cfg u.qmax t st.size).1), g)

def enqFlowU (u : UP) (s : BSt) (a : Nat) (st : Stmt) (cont : Nat) (first : Bool) (initial : Bool := first) : BSt × String :=
  let (s1, ci) := ensureCtx s a
  let (s2, g) := tryEnqU u s1 ci st
  match g with
  | .grant => afterEnq (s2.setActor a (fun x => { x with pend := .none })) a st cont
  | .throw =>
    -- `QuillError` out of `log_statement`: nothing queued, nothing counted
    (s2.setActor a (fun x => { x with pend := .none }), s!"id={st.id} threw ev=1 bytes=0")
  | .null =>
    let bump (x : BSt) : BSt :=
      if isLogKind st.kind then
        x.setTh ci (fun t => { t with fail := t.fail + 1,
                                      discarded := t.discarded + (if s.cfg.dropping then 1 else 0),
                                      blockedCalls := t.blockedCalls + (if s.cfg.dropping then 0 else 1) })
      else x
    if s.cfg.dropping then
      let s3 := bump s2
      if cont = 0 ∨ cont = 5 then
        (s3.setActor a (fun x => { x with pend := .none }),
         if cont = 0 then s!"id={st.id} ret=0 ev=1 bytes=0" else s!"id={st.id} ev=1 bytes=0")
      else (s3.setActor a (fun x => { x with pend := .retry st cont }), "parked:sleep")
    else
      let s3 := if first then bump s2 else s2
      (s3.setActor a (fun x => { x with pend := .retry st cont }),
       if initial ∧ (cont = 0 ∨ cont = 5) then s!"id={st.id} parked:sleep" else "parked:sleep")

def frontCallU (u : UP) (s : BSt) (a : Nat) (lgi : Nat) (kind : Kind) (lvl len cont : Nat) (dyn : Bool) (id : Nat)
    (named : Bool := false) : BSt × String :=
  let lg := s.lgOf lgi
  let st : Stmt := { id := id, kind := kind, lg := lgi, lvl := lvl, ts := s.now,
                     size := stmtSize s.cfg kind id len dyn lg.gid, actor := a, named := named }
  let stalled := ((s.actor a).map (·.stallArmed)).getD false
  if stalled then
    (s.setActor a (fun x => { x with stallArmed := false, pend := .stall st cont }),
     if cont = 0 ∨ cont = 5 then s!"id={id} parked:stall" else "parked:stall")
  else enqFlowU u s a st cont true

def resumeU (u : UP) (s : BSt) (a : Nat) : BSt × String :=
  match ((s.actor a).map (·.pend) : Option Pend) with
  | some (Pend.stall st cont) => enqFlowU u s a st cont true false
  | some (Pend.retry st cont) =>
      if s.cfg.dropping then enqFlowU u s a { st with ts := s.now } cont true false
      else enqFlowU u s a st cont false
  | some (Pend.flag f) =>
      if s.flags.contains f then (s.setActor a (fun x => { x with pend := .none }), "done")
      else (s, "parked:sleep")
  | _ => (s, "noop")

/-! ### backend -/

def ctxEmptyU (s : BSt) (i : Nat) : BSt × Bool :=
  let th := s.th i
  let r := uEmpty s.cfg th
  (s.setTh i (fun t => (uEmpty s.cfg t).1), r.2 && th.buf.isEmpty)

def allEmptyU (s : BSt) : BSt × Bool :=
  let s0 := refreshCache s
  s0.cache.foldl (fun (acc : BSt × Bool) i => let r := ctxEmptyU acc.1 i; (r.1, acc.2 && r.2)) (s0, true)

/-- first invalid context of the list whose queue and transit buffer are empty (no look at the failure counter) -/
def findFirstU (s : BSt) : List Nat → BSt × Option Nat
  | [] => (s, none)
  | i :: rest =>
    if (s.th i).valid then findFirstU s rest
    else let r := ctxEmptyU s i
         if r.2 then (r.1, some i) else findFirstU r.1 rest

def dropCtxU (s : BSt) (i : Nat) : BSt :=
  let s2 := { s with registry := s.registry.filter (· ≠ i), cache := s.cache.filter (· ≠ i),
                     invalidCnt := counterMod s.cfg (s.invalidCnt + 2 ^ s.cfg.invalidBits - 1) }
  s2.setTh i (fun t => { t with removed := true })

def cleanupGoU : Nat → BSt → BSt
  | 0, s => s
  | fuel + 1, s =>
    match findFirstU s s.cache with
    | (s1, none) => s1
    | (s1, some i) => cleanupGoU fuel (dropCtxU s1 i)

def cleanupContextsU (s : BSt) : BSt :=
  if s.invalidCnt = 0 then s else cleanupGoU (s.cache.length + 1) s

def eraseStepU (inj : BSt → Nat → BSt) (acc : BSt × List Nat) (i : Nat) : BSt × List Nat :=
  let s := acc.1
  if (s.lgOf i).valid then acc else
  let r := allEmptyU s
  if r.2 then
    let s1 := r.1.setLg i (fun l => { l with erased := true })
    (reapSinksInj inj s1 (s.lgOf i).sinks, acc.2 ++ [(s.lgOf i).gid])
  else ({ r.1 with hasInvalidLoggers := true }, acc.2)

def raiseRemoved (s : BSt) (gid : Nat) : BSt :=
  match s.removalFlags.find? (·.1 = gid) with
  | some (_, f) => { s with flags := f :: s.flags, flagLog := (f, s.log.length) :: s.flagLog,
                            removalFlags := s.removalFlags.filter (·.1 ≠ gid) }
  | none => s

def cleanupLoggersU (inj : BSt → Nat → BSt) (s : BSt) : BSt :=
  if !s.hasInvalidLoggers then s else
  let s0 := { s with hasInvalidLoggers := false }
  let order := insSorted (fun a b => decide ((s0.lgOf a).gid ≤ (s0.lgOf b).gid))
                 ((List.range s0.lgs.length).filter (fun i => !(s0.lgOf i).erased))
  let r := order.foldl (eraseStepU inj) (s0, [])
  r.2.foldl raiseRemoved r.1

/-- "Allocated a new SPSC queue with a capacity of {new} KiB (previously {old} KiB)" -/
def allocNote (p : Nat × Nat) : Ev := .notify s!"n:alloc:{p.2 / 1024}:{p.1 / 1024}"

/-- the read of one record: decode (a removal request records its flag), `finish_read`, into the transit buffer -/
def readOneU (s : BSt) (i : Nat) (st : Stmt) (rest : List Stmt) : BSt :=
  let s2 := match st.kind with
    | .removal f => { s with removalFlags := s.removalFlags ++ [((s.lgOf st.lg).gid, f)] }
    | _ => s
  s2.setTh i (fun t => { uFinishRead s2.cfg t st.size with qStmts := rest, buf := t.buf ++ [st] })

def commitReadU (s : BSt) (i : Nat) : BSt := s.setTh i (fun t => uCommitRead s.cfg t)

/-- `_read_and_decode_frontend_queue<UnboundedSPSCQueue>`; `qcap0` = `capacity()` when the read starts -/
def readQueueU (u : UP) (inj : BSt → Nat → BSt) (tsNow : Option Nat) (i : Nat) (qcap0 : Nat) : Nat → Nat → BSt → BSt
  | 0, total, s => if total ≠ 0 then commitReadU s i else s
  | fuel + 1, total, s =>
    let th := s.th i
    let r := uRead s.cfg u.follow (th.more.length + 1) th
    let sR := s.setTh i (fun t => (uRead s.cfg u.follow (t.more.length + 1) t).1)
    -- every switch of buffers is reported through the notifier (before anything injected at site 3 runs)
    let note (x : BSt) : BSt := r.2.2.foldl (fun x p => x.emit (allocNote p)) x
    let fin (s : BSt) : BSt := if total ≠ 0 then commitReadU s i else s
    if !r.2.1 then fin (note sR) else
    match th.qStmts with
    | [] => fin (note sR)
    | st :: rest =>
      if (match tsNow with | some t => decide (t < st.ts) | none => false) then fin (note sR) else
      let s3 := note (readOneU sR i st rest)
      let s4 := inj (fmtNote s3 st) 3
      let total' := total + st.size
      if total' < qcap0 ∧ (s4.th i).buf.length < s4.cfg.hard then readQueueU u inj tsNow i qcap0 fuel total' s4
      else commitReadU s4 i

def popStepU (s : BSt) (i : Nat) (st : Stmt) (rest : List Stmt) : BSt :=
  { s.setTh i (fun t => { t with buf := rest, popped := t.popped ++ [st] }) with popLog := st :: s.popLog }

def processLowestU (s : BSt) : BSt × Bool :=
  match lowest s with
  | none => (s, false)
  | some i =>
    match (s.th i).buf with
    | [] => (s, false)
    | st :: rest =>
      let (s1, exc, flag) := processEvent s st
      let s2 := match exc with | some m => s1.emit (.notify m) | none => s1
      let s3 := popStepU s2 i st rest
      match flag with
      | some f =>
        -- (`_check_failure_counter` does nothing for an unbounded queue type)
        let s4 := cleanupContextsU s3
        ({ s4 with flags := f :: s4.flags, flagLog := (f, s4.log.length) :: s4.flagLog }, true)
      | none => (s3, true)

def hasPendingU (s : BSt) : BSt × Bool :=
  let s0 := refreshCache s
  s0.cache.foldl (fun (acc : BSt × Bool) i =>
    if acc.2 then acc else
    if (acc.1.th i).buf.isEmpty then
      let r := uEmpty acc.1.cfg (acc.1.th i)
      (acc.1.setTh i (fun t => (uEmpty acc.1.cfg t).1), !r.2)
    else acc) (s0, false)

def populateU (u : UP) (inj : BSt → Nat → BSt) (s : BSt) : BSt × Nat :=
  let s := if s.cfg.refreshAfterSample then s else refreshCache s
  let s := if s.cfg.grace = 0 then s else inj s 7
  let tsNow := tsNowOf s
  let s1 := inj s 1
  let s2 := if s.cfg.refreshAfterSample then refreshCache s1 else s1
  s2.cache.foldl (fun (acc : BSt × Nat) i =>
    let sA := inj acc.1 2
    let sB := readQueueU u inj tsNow i (uCap (sA.th i)) ((sA.th i).qStmts.length + 64) 0 sA
    (sB, acc.2 + (sB.th i).buf.length)) (s2, 0)

def batchLoopU (inj : BSt → Nat → BSt) : Nat → BSt → BSt
  | 0, s => s
  | fuel + 1, s =>
    let r := hasPendingU s
    if r.2 then r.1 else
    let p := processLowestU r.1
    if !p.2 then p.1 else batchLoopU inj fuel (inj p.1 4)

def pollU (u : UP) (inj : BSt → Nat → BSt) (s : BSt) : BSt :=
  let (s1, count) := populateU u inj s
  if count ≠ 0 then
    if count < s1.cfg.soft then (processLowestU s1).1
    else batchLoopU inj (totalBuffered s1 + 64) s1
  else
    let s2 := inj s1 5
    let s3 := flushGate inj s2 s2.cfg.flushInterval
    let r := allEmptyU s3
    if r.2 then cleanupLoggersU inj (preEraseFlush (cleanupContextsU r.1)) else r.1

def exitLoopU (u : UP) (inj : BSt → Nat → BSt) (tick : Nat) : Nat → BSt → BSt
  | 0, s => s
  | fuel + 1, s =>
    let r := allEmptyU s
    if r.2 then
      let s1 := flushSinks r.1
      cleanupLoggersU inj (preEraseFlush (cleanupContextsU s1))
    else
      let s0 := { r.1 with now := r.1.now + tick }
      let (s1, count) := populateU u inj s0
      let s2 := if count > 0 then batchLoopU inj (totalBuffered s1 + 64) s1 else s1
      exitLoopU u inj tick fuel s2

end Backend
