import QuillModel.Backend.ConsProofsReclaim
/-!
C08 quiescence: the cache covers the registry unless a thread registered since the last refresh (`CovK`, an invariant
of every schedule); the read pass refreshes the cache, so with a runner that takes no frontend step it ends with the
cache covering the registry; hence the idle pass leaves every registered context with a zero failure counter.
-/
namespace Backend.PA
open Backend Spsc

/-- what a frontend operation does to the registration state: nothing, or it registered a context (flag raised) -/
def RegRel (s s' : BSt) : Prop :=
  (s'.registry = s.registry ∧ s'.cache = s.cache ∧ s'.newFlag = s.newFlag) ∨ s'.newFlag = true

theorem RegRel.same {s s' : BSt} (h1 : s'.registry = s.registry) (h2 : s'.cache = s.cache) (h3 : s'.newFlag = s.newFlag) :
    RegRel s s' := Or.inl ⟨h1, h2, h3⟩

theorem RegRel.refl (s : BSt) : RegRel s s := RegRel.same rfl rfl rfl

theorem RegRel.trans {a b c : BSt} (h1 : RegRel a b) (h2 : RegRel b c) : RegRel a c := by
  rcases h2 with ⟨r, k, n⟩ | n
  · rcases h1 with ⟨r1, k1, n1⟩ | n1
    · exact Or.inl ⟨r.trans r1, k.trans k1, n.trans n1⟩
    · exact Or.inr (n.trans n1)
  · exact Or.inr n

theorem ensureCtx_reg (s : BSt) (a : Nat) : RegRel s (ensureCtx s a).1 := by
  unfold ensureCtx
  split
  · exact RegRel.refl s
  · exact Or.inr rfl

theorem tryEnq_reg (s : BSt) (ci : Nat) (st : Stmt) : RegRel s (tryEnq s ci st).1 := by
  unfold tryEnq
  dsimp only
  split <;> exact RegRel.same rfl rfl rfl

theorem afterEnq_reg (s : BSt) (a : Nat) (st : Stmt) (cont : Nat) : RegRel s (afterEnq s a st cont).1 := by
  unfold afterEnq
  split <;> exact RegRel.same rfl rfl rfl

theorem enqFlow_reg (s : BSt) (a : Nat) (st : Stmt) (cont : Nat) (first initial : Bool) :
    RegRel s (enqFlow s a st cont first initial).1 := by
  unfold enqFlow
  have h1 := ensureCtx_reg s a
  generalize ensureCtx s a = e at h1 ⊢
  obtain ⟨s1, ci⟩ := e
  dsimp only at h1 ⊢
  have h2 := h1.trans (tryEnq_reg s1 ci st)
  generalize tryEnq s1 ci st = e2 at h2 ⊢
  obtain ⟨s2, ok⟩ := e2
  dsimp only at h2 ⊢
  have hset : ∀ (s3 : BSt) (f : Actor → Actor), RegRel s s3 → RegRel s (s3.setActor a f) :=
    fun s3 f h3 => h3.trans (RegRel.same rfl rfl rfl)
  have hbump : ∀ (f : Th → Th), RegRel s (if isLogKind st.kind = true then s2.setTh ci f else s2) := by
    intro f
    split
    · exact h2.trans (RegRel.same rfl rfl rfl)
    · exact h2
  split
  · exact (hset s2 _ h2).trans (afterEnq_reg _ a st cont)
  · split
    · split
      · exact hset _ _ (hbump _)
      · exact hset _ _ (hbump _)
    · apply hset
      split
      · exact hbump _
      · exact h2

theorem frontCall_reg (s : BSt) (a lgi : Nat) (kind : Kind) (lvl len cont : Nat) (dyn : Bool) (id : Nat)
    (named : Bool) : RegRel s (frontCall s a lgi kind lvl len cont dyn id named).1 := by
  unfold frontCall
  dsimp only
  split
  · exact RegRel.same rfl rfl rfl
  · exact enqFlow_reg ..

theorem resume_reg (s : BSt) (a : Nat) : RegRel s (resume s a).1 := by
  unfold resume
  split
  · exact enqFlow_reg ..
  · split <;> exact enqFlow_reg ..
  · split
    · exact RegRel.same rfl rfl rfl
    · exact RegRel.refl s
  · exact RegRel.refl s

theorem withLogger_reg (s : BSt) (a gid : Nat) (k : Nat → BSt × String) (hk : ∀ lgi, RegRel s (k lgi).1) :
    RegRel s (withLogger s a gid k).1 := by
  unfold withLogger
  split
  · exact (hk _).trans (RegRel.same rfl rfl rfl)
  · exact RegRel.refl s

theorem applyFront_reg (s : BSt) (f : FOp) : RegRel s (applyFront s f).1 := by
  have hsame : ∀ s' : BSt, s'.registry = s.registry → s'.cache = s.cache → s'.newFlag = s.newFlag → RegRel s s' :=
    fun _ h1 h2 h3 => RegRel.same h1 h2 h3
  cases f with
  | tick dt => exact hsame _ rfl rfl rfl
  | tstart a => simp only [applyFront]; split <;> exact hsame _ rfl rfl rfl
  | texit a =>
    simp only [applyFront]
    split
    · exact RegRel.refl s
    · split <;> exact hsame _ rfl rfl rfl
  | resume a =>
    simp only [applyFront]
    have h1 := resume_reg s a
    split
    · exact h1
    · split
      · exact h1
      · exact h1.trans (RegRel.same rfl rfl rfl)
  | armStall a => simp only [applyFront]; split <;> exact hsame _ rfl rfl rfl
  | log a g lvl len dyn =>
    simp only [applyFront]
    apply withLogger_reg
    intro lgi
    have h1 : RegRel s ({ s with nextId := s.nextId + 1 } : BSt) := hsame _ rfl rfl rfl
    split
    · exact h1.trans (frontCall_reg ..)
    · exact h1
  | logNamed a g len =>
    simp only [applyFront]
    apply withLogger_reg
    intro lgi
    have h1 : RegRel s ({ s with nextId := s.nextId + 1 } : BSt) := hsame _ rfl rfl rfl
    split
    · exact h1.trans (frontCall_reg ..)
    · exact h1
  | logBt a g len =>
    simp only [applyFront]
    apply withLogger_reg
    intro lgi
    have h1 : RegRel s ({ s with nextId := s.nextId + 1 } : BSt) := hsame _ rfl rfl rfl
    split
    · exact h1.trans (frontCall_reg ..)
    · exact h1
  | initBt a g cap fl => simp only [applyFront]; exact withLogger_reg _ _ _ _ (fun lgi => frontCall_reg ..)
  | flushBt a g => simp only [applyFront]; exact withLogger_reg _ _ _ _ (fun lgi => frontCall_reg ..)
  | flush a g =>
    simp only [applyFront]
    apply withLogger_reg
    intro lgi
    have h1 : RegRel s ({ s with nextFlag := s.nextFlag + 1 } : BSt) := hsame _ rfl rfl rfl
    exact h1.trans (frontCall_reg ..)
  | removeBlocking a g =>
    simp only [applyFront]
    split
    · exact RegRel.refl s
    · apply withLogger_reg
      intro lgi
      have h1 : RegRel s (dropName { s with nextFlag := s.nextFlag + 1 } g) := hsame _ rfl rfl rfl
      exact h1.trans (frontCall_reg ..)
  | remove a g =>
    simp only [applyFront]
    split
    · exact RegRel.refl s
    · split
      · exact hsame _ rfl rfl rfl
      · exact RegRel.refl s
  | create a g sl =>
    simp only [applyFront]
    split
    · exact RegRel.refl s
    · split
      · split
        · exact RegRel.refl s
        · exact hsame _ rfl rfl rfl
      · exact hsame _ rfl rfl rfl
  | setLevel g lvl => simp only [applyFront]; split <;> first | exact RegRel.refl s | exact hsame _ rfl rfl rfl
  | setSinkLevel sid lvl => simp only [applyFront]; split <;> first | exact RegRel.refl s | exact hsame _ rfl rfl rfl
  | dropSink sid =>
    simp only [applyFront]
    have f := reapSinks_frame (s.setSink sid (fun k => { k with userRef := false })) [sid]
    exact RegRel.same f.registry f.cache f.newFlag
  | query => exact RegRel.refl s

/-- the cache covers the registry unless a registration happened since the last refresh -/
def CovK (s : BSt) : Prop := s.newFlag = false → ∀ i ∈ s.registry, i ∈ s.cache

theorem CovK.of_same {s s' : BSt} (h : CovK s) (h1 : s'.registry = s.registry) (h2 : s'.cache = s.cache)
    (h3 : s'.newFlag = s.newFlag) : CovK s' := by
  intro hn i hi
  rw [h2]; exact h (h3 ▸ hn) i (h1 ▸ hi)

theorem CovK.closed : Closed CovK where
  frame := fun _ _ h f => h.of_same f.registry f.cache f.newFlag
  refresh := fun s h => by
    unfold refreshCache
    split
    · intro _ i hi; exact hi
    · exact h
  ctxEmpty := fun _ _ h => h.of_same rfl rfl rfl
  dropCtx := fun s i h _ _ _ => by
    unfold PA.dropCtx
    intro hn j hj
    show j ∈ (ctxEmpty s i).1.cache.filter _
    have hj' : j ∈ (ctxEmpty s i).1.registry.filter (· ≠ i) := hj
    obtain ⟨h1, h2⟩ := List.mem_filter.mp hj'
    exact List.mem_filter.mpr ⟨h hn j h1, h2⟩
  prepRead := fun _ _ h => h.of_same rfl rfl rfl
  commitRead := fun _ _ h => h.of_same rfl rfl rfl
  readOne := fun s i st rest h _ _ => by
    unfold PA.readOne; dsimp only
    split <;> exact h.of_same rfl rfl rfl
  pop := fun s i st rest h _ => by
    have c := processEvent_core s st
    unfold popStep; dsimp only
    split
    · exact h.of_same c.registry c.cache c.newFlag
    · exact h.of_same c.registry c.cache c.newFlag
  failReset := fun _ _ h _ => h.of_same rfl rfl rfl
  front := fun s f h => by
    rcases applyFront_reg s f with ⟨h1, h2, h3⟩ | hn
    · exact h.of_same h1 h2 h3
    · intro hf; rw [hn] at hf; cases hf

/-- "no registration pending" is kept by the steps of the read pass -/
theorem noNew_closedQ : ClosedQ (fun s : BSt => s.newFlag = false) where
  prepRead := fun _ _ h => h
  commitRead := fun _ _ h => h
  readOne := fun s i st rest h _ _ => by
    unfold PA.readOne; dsimp only
    split <;> exact h

/-- with a runner that takes no frontend step, the read pass ends with no registration pending -/
theorem populate_noNew {inj : BSt → Nat → BSt} (hq : QuietInj inj) (s : BSt) : (populate inj s).1.newFlag = false := by
  have hinj : ∀ s site, s.newFlag = false → (inj s site).newFlag = false := fun s site h => (hq s site).newFlag.trans h
  have hrf : ∀ s : BSt, (refreshCache s).newFlag = false := by
    intro s; unfold refreshCache; split
    · rfl
    · next h => simpa using h
  have hrc : ∀ s : BSt, (refreshCache s).cfg = s.cfg := by
    intro s; unfold refreshCache; split <;> rfl
  unfold populate
  dsimp only
  have ha : (s.cfg.refreshAfterSample = true ∨
      (if s.cfg.refreshAfterSample = true then s else refreshCache s).newFlag = false) ∧
      (if s.cfg.refreshAfterSample = true then s else refreshCache s).cfg = s.cfg := by
    by_cases hr : s.cfg.refreshAfterSample = true
    · rw [if_pos hr]; exact ⟨Or.inl hr, rfl⟩
    · rw [if_neg hr]; exact ⟨Or.inr (hrf s), hrc s⟩
  generalize (if s.cfg.refreshAfterSample = true then s else refreshCache s) = sa at ha ⊢
  have hb : (s.cfg.refreshAfterSample = true ∨ (if sa.cfg.grace = 0 then sa else inj sa 7).newFlag = false) ∧
      (if sa.cfg.grace = 0 then sa else inj sa 7).cfg = s.cfg := by
    split
    · exact ha
    · exact ⟨ha.1.imp id (hinj sa 7), (hq sa 7).cfg.trans ha.2⟩
  generalize (if sa.cfg.grace = 0 then sa else inj sa 7) = sb at hb ⊢
  have h2 : (if sb.cfg.refreshAfterSample = true then refreshCache (inj sb 1) else inj sb 1).newFlag = false := by
    split
    · exact hrf _
    · next hr =>
      rcases hb.1 with h | h
      · rw [hb.2] at hr; exact absurd h hr
      · exact hinj sb 1 h
  generalize (if sb.cfg.refreshAfterSample = true then refreshCache (inj sb 1) else inj sb 1) = s2 at h2 ⊢
  refine foldl_inv (fun a : BSt × Nat => a.1.newFlag = false) _ ?_ _ _ h2
  intro a i ha'
  exact readQueue_closed (fun _ _ h f => f.newFlag.trans h) noNew_closedQ inj hinj _ i _ _ _ (hinj _ 2 ha')

/-- **the idle pass drains the failure counters**: from any state in which the cache invariant holds (every reachable
    state), a poll whose read pass finds nothing, run with a runner that takes no frontend step, ends with `fail = 0`
    for every context still registered -/
theorem poll_idle_clears {inj : BSt → Nat → BSt} (hq : QuietInj inj) (s : BSt) (hk : CovK s)
    (hidle : (populate inj s).2 = 0) (i : Nat) (hi : i ∈ (poll inj s).registry) : ((poll inj s).th i).fail = 0 := by
  have hk1 : CovK (populate inj s).1 :=
    populate_closed CovK.closed inj (fun s site h => CovK.closed.frame s _ h (hq s site)) s hk
  rw [poll_idle inj s hidle] at hi ⊢
  exact idleTail_clears hq _ (hk1 (populate_noNew hq s)) i hi

end Backend.PA
