import QuillModel.Backend.ConsProofsIds
/-!
`InvB` (ids identify statements) is preserved by every operation.
-/
namespace Backend.PA
open Backend Spsc

variable {φ : Nat → Nat}

theorem cntA_of_ths {s s' : BSt} (h : s'.ths = s.ths) (id : Nat) : cntA s' id = cntA s id := by
  simp only [cntA, h]

theorem cntB_of_actors {s s' : BSt} (h : s'.actors = s.actors) (id : Nat) : cntB s' id = cntB s id := by
  simp only [cntB, h]

theorem InvBφ.of_same {s s' : BSt} (h : InvBφ φ s) (h1 : s'.actors = s.actors) (h2 : s'.nextId = s.nextId)
    (h3 : ∀ id, cntA s' id = cntA s id) : InvBφ φ s' :=
  ⟨fun id => by unfold tot; rw [h3, cntB_of_actors h1]; exact h.uniq id,
   fun id hid => by unfold tot; rw [h3, cntB_of_actors h1]; exact h.lt id (h2 ▸ hid),
   fun a => by rw [h1]; exact h.ua a⟩

/-- the accepted histories of all contexts -/
def accs (s : BSt) : List (List Stmt) := s.ths.map (·.accepted)

theorem cntA_of_accs {s s' : BSt} (h : accs s' = accs s) (id : Nat) : cntA s' id = cntA s id := by
  have e : ∀ x : BSt, cntA x id = ((accs x).map (cntL id)).sum := fun x => by simp [cntA, accs, List.map_map, Function.comp_def]
  rw [e, e, h]

theorem accs_setTh (s : BSt) (i : Nat) (f : Th → Th) (hf : ∀ t, (f t).accepted = t.accepted) :
    accs (s.setTh i f) = accs s := by
  simp only [accs, BSt.setTh]
  apply List.ext_getElem?
  intro j
  simp only [updAt, List.getElem?_map, List.getElem?_mapIdx]
  cases s.ths[j]? with
  | none => rfl
  | some t => simp only [Option.map_some]; split <;> simp [hf]

theorem InvBφ.of_accs {s s' : BSt} (h : InvBφ φ s) (h1 : s'.actors = s.actors) (h2 : s'.nextId = s.nextId)
    (h3 : accs s' = accs s) : InvBφ φ s' := h.of_same h1 h2 (fun id => cntA_of_accs h3 id)

theorem InvBφ.setTh_same {s : BSt} (h : InvBφ φ s) (i : Nat) (f : Th → Th)
    (hf : (f (s.th i)).accepted = (s.th i).accepted) : InvBφ φ (s.setTh i f) :=
  h.of_same rfl rfl (fun id => cntA_setTh_same s i f id hf)

/-- the state between the start of an enqueue attempt of `st` by actor `a` and its end -/
structure Mid (s : BSt) (a : Nat) (sM : BSt) (extra : Nat → Nat) : Prop where
  nextId : sM.nextId = s.nextId
  ua : UniqA sM
  bo : ∀ id, cntBo sM a id = cntBo s a id
  ca : ∀ id, cntA sM id ≤ cntA s id + extra id

theorem Mid.setActor {s sM : BSt} {a : Nat} {e : Nat → Nat} (h : Mid s a sM e) (f : Actor → Actor) (hf : KeepsId f) :
    Mid s a (sM.setActor a f) e :=
  ⟨h.nextId, h.ua.setActor a f hf, fun id => by rw [cntBo_setActor sM a f hf]; exact h.bo id, h.ca⟩

theorem Mid.setTh_same {s sM : BSt} {a : Nat} {e : Nat → Nat} (h : Mid s a sM e) (i : Nat) (f : Th → Th)
    (hf : (f (sM.th i)).accepted = (sM.th i).accepted) : Mid s a (sM.setTh i f) e :=
  ⟨h.nextId, h.ua, h.bo, fun id => by rw [cntA_setTh_same sM i f id hf]; exact h.ca id⟩

theorem Mid.of_eq {s sM sM' : BSt} {a : Nat} {e : Nat → Nat} (h : Mid s a sM e) (h1 : sM'.ths = sM.ths)
    (h2 : sM'.actors = sM.actors) (h3 : sM'.nextId = sM.nextId) : Mid s a sM' e :=
  ⟨h3.trans h.nextId, fun b => by rw [h2]; exact h.ua b, fun id => by unfold cntBo; rw [h2]; exact h.bo id,
   fun id => by rw [cntA_of_ths h1]; exact h.ca id⟩

/-- what is left to place: apart from what actor `a` has parked, the id of `st` is unused -/
structure Room (φ : Nat → Nat) (s : BSt) (a : Nat) (st : Stmt) : Prop where
  le : ∀ id, cntA s id + cntBo s a id + cntL id [st] + φ id ≤ 1
  lt : ∀ id, s.nextId ≤ id → cntA s id + cntBo s a id + cntL id [st] + φ id = 0
  ua : UniqA s

theorem InvBφ.of_mid {s sF : BSt} {a : Nat} {st : Stmt} {e : Nat → Nat} (r : Room φ s a st) (m : Mid s a sF e)
    (hb : ∀ id, e id + cntBa sF a id ≤ cntL id [st]) : InvBφ φ sF := by
  refine ⟨fun id => ?_, fun id hid => ?_, m.ua⟩
  · rw [tot_eq sF a id, m.bo id]
    have := m.ca id; have := hb id; have := r.le id; omega
  · rw [tot_eq sF a id, m.bo id]
    have := m.ca id; have := hb id; have := r.lt id (m.nextId ▸ hid); omega

theorem keepsId_pend (p : Pend) : KeepsId (fun x => { x with pend := p }) := fun _ => ⟨rfl, rfl⟩

theorem cntA_append (s : BSt) (t : Th) (rg : List Nat) (nf : Bool) (id : Nat) (ht : t.accepted = []) :
    cntA ({ s with ths := s.ths ++ [t], registry := rg, newFlag := nf } : BSt) id = cntA s id := by
  simp [cntA, ht, cntL]

theorem Mid.ensureCtx {s : BSt} (a : Nat) (hu : UniqA s) : Mid s a (ensureCtx s a).1 (fun _ => 0) := by
  unfold Backend.ensureCtx
  split
  · exact ⟨rfl, hu, fun _ => rfl, fun _ => Nat.le_refl _⟩
  · dsimp only
    have h0 : Mid s a ({ s with ths := s.ths ++ [mkTh s.cfg a], registry := s.registry ++ [s.ths.length], newFlag := true } : BSt)
        (fun _ => 0) :=
      ⟨rfl, hu, fun _ => rfl, fun id => by rw [cntA_append s _ _ _ id rfl]; exact Nat.le_refl _⟩
    exact h0.setActor _ (fun _ => ⟨rfl, rfl⟩)

theorem cntBa_of_actors {s s' : BSt} (h : s'.actors = s.actors) (a id : Nat) : cntBa s' a id = cntBa s a id := by
  simp only [cntBa, h]

theorem cntA_setTh_append (s : BSt) (i : Nat) (f : Th → Th) (x : Stmt) (id : Nat)
    (hf : (f (s.th i)).accepted = (s.th i).accepted ++ [x]) : cntA (s.setTh i f) id ≤ cntA s id + cntL id [x] := by
  by_cases hi : i < s.ths.length
  · have := cntA_setTh s i f id hi
    rw [hf, cntL_append] at this
    omega
  · rw [setTh_of_ge s i f (by omega)]; omega

theorem Mid.mono {s sM : BSt} {a : Nat} {e e' : Nat → Nat} (h : Mid s a sM e) (he : ∀ id, e id ≤ e' id) :
    Mid s a sM e' :=
  ⟨h.nextId, h.ua, h.bo, fun id => Nat.le_trans (h.ca id) (Nat.add_le_add_left (he id) _)⟩

/-- one reservation attempt: on success the statement is added to one accepted history -/
theorem Mid.tryEnq {s sM : BSt} {a : Nat} (h : Mid s a sM (fun _ => 0)) (ci : Nat) (st : Stmt) :
    Mid s a (tryEnq sM ci st).1 (fun id => if (tryEnq sM ci st).2 = true then cntL id [st] else 0) ∧
    (tryEnq sM ci st).1.actors = sM.actors := by
  unfold Backend.tryEnq
  dsimp only
  split
  · refine ⟨⟨h.nextId, h.ua, h.bo, fun id => ?_⟩, rfl⟩
    simp only [if_true]
    have h1 := cntA_setTh_append sM ci (fun t => { t with q := qFinishCommit sM.cfg (qPrepareWrite sM.cfg (sM.th ci).q st.size).1 st.size, qStmts := t.qStmts ++ [{ st with enqAt := sM.now }], accepted := t.accepted ++ [{ st with enqAt := sM.now }] }) { st with enqAt := sM.now } id rfl
    have hst : cntL id [{ st with enqAt := sM.now }] = cntL id [st] := rfl
    have := h.ca id
    omega
  · exact ⟨(h.setTh_same ci _ rfl).mono (fun id => by simp), rfl⟩

theorem afterEnq_mid {s sM : BSt} {a : Nat} {e : Nat → Nat} (h : Mid s a sM e) (st : Stmt) (cont : Nat)
    (hb : ∀ id, cntBa sM a id = 0) :
    Mid s a (afterEnq sM a st cont).1 e ∧ ∀ id, cntBa (afterEnq sM a st cont).1 a id = 0 := by
  have hflag : ∀ (sX : BSt) (f : Nat), Mid s a sX e →
      Mid s a (sX.setActor a (fun x => { x with pend := .flag f })) e ∧
      ∀ id, cntBa (sX.setActor a (fun x => { x with pend := .flag f })) a id = 0 := by
    intro sX f hX
    refine ⟨hX.setActor _ (keepsId_pend _), fun id => ?_⟩
    have := cntBa_setPend_le hX.ua a _ (keepsId_pend (.flag f)) (.flag f) (fun _ => rfl) id
    simpa [pendL, cntL] using this
  unfold Backend.afterEnq
  split
  · exact hflag sM _ h
  · exact ⟨h.of_eq rfl rfl rfl, hb⟩
  · exact ⟨h, hb⟩
  · exact hflag _ _ (h.of_eq (sM' := { (sM.setLg st.lg (fun l => { l with valid := false })) with hasInvalidLoggers := true })
      rfl rfl rfl)
  · exact ⟨h, hb⟩

theorem InvBφ.enqFlow {s : BSt} {a : Nat} {st : Stmt} (r : Room φ s a st) (cont : Nat) (first initial : Bool) :
    InvBφ φ (enqFlow s a st cont first initial).1 := by
  unfold Backend.enqFlow
  have h1 := Mid.ensureCtx a r.ua
  generalize Backend.ensureCtx s a = e at h1 ⊢
  obtain ⟨s1, ci⟩ := e
  dsimp only at h1 ⊢
  obtain ⟨h2, _⟩ := h1.tryEnq ci st
  generalize Backend.tryEnq s1 ci st = e2 at h2 ⊢
  obtain ⟨s2, ok⟩ := e2
  dsimp only at h2 ⊢
  cases ok with
  | true =>
    simp only [if_true]
    have h2' : Mid s a s2 (fun id => cntL id [st]) := h2.mono (fun id => by simp)
    have h3 := h2'.setActor (fun x => { x with pend := .none }) (keepsId_pend _)
    have hb3 : ∀ id, cntBa (s2.setActor a (fun x => { x with pend := .none })) a id = 0 := by
      intro id
      have := cntBa_setPend_le h2.ua a _ (keepsId_pend .none) .none (fun _ => rfl) id
      simpa [pendL, cntL] using this
    obtain ⟨h4, hb4⟩ := afterEnq_mid h3 st cont hb3
    exact InvBφ.of_mid r h4 (fun id => by rw [hb4 id]; simp)
  | false =>
    simp only [Bool.false_eq_true, if_false]
    have h2' : Mid s a s2 (fun _ => 0) := h2.mono (fun id => by simp)
    have hbump : ∀ (f : Th → Th), (∀ t, (f t).accepted = t.accepted) →
        Mid s a (if isLogKind st.kind = true then s2.setTh ci f else s2) (fun _ => 0) := by
      intro f hf
      split
      · exact h2'.setTh_same ci f (hf _)
      · exact h2'
    have hfin : ∀ (sX : BSt) (p : Pend), Mid s a sX (fun _ => 0) →
        (∀ id, cntL id (pendL p) ≤ cntL id [st]) → InvBφ φ (sX.setActor a (fun x => { x with pend := p })) := by
      intro sX p hX hp
      refine InvBφ.of_mid r (hX.setActor _ (keepsId_pend p)) (fun id => ?_)
      have := cntBa_setPend_le hX.ua a _ (keepsId_pend p) p (fun _ => rfl) id
      have := hp id
      omega
    split
    · split
      · exact hfin _ .none (hbump _ (fun _ => rfl)) (fun id => by simp [pendL, cntL])
      · exact hfin _ (.retry st cont) (hbump _ (fun _ => rfl)) (fun id => Nat.le_refl _)
    · apply hfin _ (.retry st cont) _ (fun id => Nat.le_refl _)
      split
      · exact hbump _ (fun _ => rfl)
      · exact h2'

theorem cntL_single_le (id : Nat) (st : Stmt) : cntL id [st] ≤ 1 := by
  unfold cntL
  exact Nat.le_trans List.countP_le_length (by simp)

theorem cntL_single_ne (id : Nat) (st : Stmt) (h : isLogKind st.kind = false ∨ st.id ≠ id) : cntL id [st] = 0 := by
  unfold cntL
  rw [List.countP_eq_zero]
  intro x hx
  simp only [List.mem_singleton] at hx
  subst hx
  rcases h with h | h
  · simp [h]
  · simp [h]

theorem Mid.refl {s : BSt} (a : Nat) (hu : UniqA s) : Mid s a s (fun _ => 0) :=
  ⟨rfl, hu, fun _ => rfl, fun _ => Nat.le_refl _⟩

theorem InvBφ.frontCall {s : BSt} (a lgi : Nat) (kind : Kind) (lvl len cont : Nat) (dyn : Bool) (id : Nat)
    (named : Bool) (hr : ∀ st : Stmt, st.kind = kind → st.id = id → Room φ s a st) :
    InvBφ φ (frontCall s a lgi kind lvl len cont dyn id named).1 := by
  unfold Backend.frontCall
  dsimp only
  split
  · have r := hr { id := id, kind := kind, lg := lgi, lvl := lvl, ts := s.now,
                   size := stmtSize s.cfg kind id len dyn (s.lgOf lgi).gid, actor := a, named := named } rfl rfl
    refine InvBφ.of_mid r ((Mid.refl a r.ua).setActor _ (fun _ => ⟨rfl, rfl⟩)) (fun id' => ?_)
    have := cntBa_setPend_le r.ua a (fun x => { x with stallArmed := false, pend := .stall _ cont }) (fun _ => ⟨rfl, rfl⟩)
      (.stall { id := id, kind := kind, lg := lgi, lvl := lvl, ts := s.now,
                size := stmtSize s.cfg kind id len dyn (s.lgOf lgi).gid, actor := a, named := named } cont)
      (fun _ => rfl) id'
    simpa [pendL] using this
  · exact InvBφ.enqFlow (hr _ rfl rfl) cont true true

/-- room for a statement whose id was just allocated -/
theorem InvBφ.room_fresh {s : BSt} (h : InvBφ φ s) (a : Nat) (st : Stmt) (hid : st.id = s.nextId) :
    Room φ { s with nextId := s.nextId + 1 } a st := by
  have hAB : ∀ id, cntA s id + cntBo s a id ≤ tot s id := fun id => by rw [tot_eq s a id]; omega
  refine ⟨fun id => ?_, fun id hge => ?_, h.ua⟩
  · show cntA s id + cntBo s a id + cntL id [st] + φ id ≤ 1
    by_cases he : st.id = id
    · have := h.lt id (by omega); have := hAB id; have := cntL_single_le id st; omega
    · rw [cntL_single_ne id st (Or.inr he)]; have := h.uniq id; have := hAB id; omega
  · show cntA s id + cntBo s a id + cntL id [st] + φ id = 0
    have hge' : s.nextId + 1 ≤ id := hge
    rw [cntL_single_ne id st (Or.inr (by omega))]
    have := h.lt id (by omega); have := hAB id; omega

/-- room for a control request (never counted) -/
theorem InvBφ.room_ctl {s : BSt} (h : InvBφ φ s) (a : Nat) (st : Stmt) (hk : isLogKind st.kind = false) : Room φ s a st := by
  have hAB : ∀ id, cntA s id + cntBo s a id ≤ tot s id := fun id => by rw [tot_eq s a id]; omega
  refine ⟨fun id => ?_, fun id hge => ?_, h.ua⟩
  · rw [cntL_single_ne id st (Or.inl hk)]; have := h.uniq id; have := hAB id; omega
  · rw [cntL_single_ne id st (Or.inl hk)]; have := h.lt id hge; have := hAB id; omega

/-- room for the statement the actor itself has parked -/
theorem InvBφ.room_parked {s : BSt} (h : InvBφ φ s) (a : Nat) (x : Actor) (hx : s.actor a = some x) (st st' : Stmt)
    (hp : pendL x.pend = [st]) (hst : ∀ id, cntL id [st'] = cntL id [st]) : Room φ s a st' := by
  refine ⟨fun id => ?_, fun id hge => ?_, h.ua⟩
  · have := cntBa_ge hx id; rw [hp] at this
    have := h.uniq id; rw [tot_eq s a id] at this; rw [hst]; omega
  · have := cntBa_ge hx id; rw [hp] at this
    have := h.lt id hge; rw [tot_eq s a id] at this; rw [hst]; omega

theorem InvBφ.resume {s : BSt} (h : InvBφ φ s) (a : Nat) : InvBφ φ (resume s a).1 := by
  unfold Backend.resume
  split
  · next st cont hp =>
    cases hx : s.actor a with
    | none => simp [hx] at hp
    | some x =>
      simp only [hx, Option.map_some, Option.some.injEq] at hp
      exact InvBφ.enqFlow (h.room_parked a x hx st st (by simp [hp, pendL]) (fun _ => rfl)) cont true false
  · next st cont hp =>
    cases hx : s.actor a with
    | none => simp [hx] at hp
    | some x =>
      simp only [hx, Option.map_some, Option.some.injEq] at hp
      split
      · exact InvBφ.enqFlow (h.room_parked a x hx st { st with ts := s.now } (by simp [hp, pendL]) (fun _ => rfl)) cont true false
      · exact InvBφ.enqFlow (h.room_parked a x hx st st (by simp [hp, pendL]) (fun _ => rfl)) cont false false
  · next f hp =>
    split
    · cases hx : s.actor a with
      | none => simp [hx] at hp
      | some x =>
        simp only [hx, Option.map_some, Option.some.injEq] at hp
        have r : Room φ s a { (default : Stmt) with kind := .flushBt } := h.room_ctl a _ rfl
        refine InvBφ.of_mid r ((Mid.refl a h.ua).setActor _ (keepsId_pend _)) (fun id => ?_)
        have h0 := cntBa_setPend_le h.ua a _ (keepsId_pend .none) .none (fun _ => rfl) id
        have h1 : cntL id (pendL Pend.none) = 0 := rfl
        have h2 : cntBa (s.setActor a (fun x => { x with pend := Pend.none })) a id = 0 := by omega
        show 0 + cntBa (s.setActor a (fun x => { x with pend := Pend.none })) a id ≤ _
        rw [h2]; exact Nat.zero_le _
    · exact h
  · exact h

theorem cntB_setActor_same (s : BSt) (a : Nat) (f : Actor → Actor) (hp : ∀ x, (f x).pend = x.pend) (id : Nat) :
    cntB (s.setActor a f) id = cntB s id := by
  unfold cntB
  simp only [BSt.setActor, List.map_map]
  congr 1
  apply List.map_congr_left
  intro x _
  simp only [Function.comp]
  split <;> simp [hp]

theorem InvBφ.setActorMisc {s : BSt} (h : InvBφ φ s) (a : Nat) (f : Actor → Actor) (hf : KeepsId f)
    (hp : ∀ x, (f x).pend = x.pend) : InvBφ φ (s.setActor a f) :=
  ⟨fun id => by unfold tot; rw [cntB_setActor_same s a f hp]; exact h.uniq id,
   fun id hid => by unfold tot; rw [cntB_setActor_same s a f hp]; exact h.lt id hid,
   h.ua.setActor a f hf⟩

theorem InvBφ.withLogger {s : BSt} (h : InvBφ φ s) (a gid : Nat) (k : Nat → BSt × String)
    (hk : ∀ lgi, InvBφ φ (k lgi).1) : InvBφ φ (withLogger s a gid k).1 := by
  unfold Backend.withLogger
  split
  · unfold noteCall
    exact (hk _).setActorMisc a _ (fun _ => ⟨rfl, rfl⟩) (fun _ => rfl)
  · exact h

theorem InvBφ.bumpId {s : BSt} (h : InvBφ φ s) : InvBφ φ { s with nextId := s.nextId + 1 } :=
  ⟨h.uniq, fun id hid => h.lt id (by have : s.nextId + 1 ≤ id := hid; omega), h.ua⟩

theorem filter_len_map_le {α} (l : List α) (c : α → Bool) (g : α → α) (hg : ∀ x, c (g x) = true → c x = true) :
    ((l.map g).filter c).length ≤ (l.filter c).length := by
  induction l with
  | nil => simp
  | cons x xs ih =>
    simp only [List.map_cons]
    by_cases h1 : c (g x) = true
    · rw [List.filter_cons_of_pos h1, List.filter_cons_of_pos (hg x h1)]; simp; omega
    · rw [List.filter_cons_of_neg h1]
      by_cases h2 : c x = true
      · rw [List.filter_cons_of_pos h2]; simp; omega
      · rw [List.filter_cons_of_neg h2]; exact ih

theorem InvBφ.front {s : BSt} (h : InvBφ φ s) (f : FOp) : InvBφ φ (applyFront s f).1 := by
  have hmisc : ∀ s' : BSt, s'.ths = s.ths → s'.actors = s.actors → s'.nextId = s.nextId → InvBφ φ s' :=
    fun s' h1 h2 h3 => h.of_same h2 h3 (fun id => cntA_of_ths h1 id)
  have hlog : ∀ (a lgi lvl len cont : Nat) (dyn named : Bool),
      InvBφ φ (Backend.frontCall { s with nextId := s.nextId + 1 } a lgi .log lvl len cont dyn s.nextId named).1 :=
    fun a lgi lvl len cont dyn named =>
      InvBφ.frontCall a lgi .log lvl len cont dyn s.nextId named (fun st _ hid => h.room_fresh a st hid)
  cases f with
  | tick dt => exact hmisc _ rfl rfl rfl
  | tstart a =>
    simp only [applyFront]
    split
    · exact h
    · next hnone =>
      have hcb : ∀ id, cntB ({ s with actors := s.actors ++ [({ id := a } : Actor)] } : BSt) id = cntB s id := by
        intro id; simp [cntB, pendL, cntL]
      refine ⟨fun id => by unfold tot; rw [hcb]; exact h.uniq id, fun id hid => by unfold tot; rw [hcb]; exact h.lt id hid, ?_⟩
      intro b
      show ((s.actors ++ [({ id := a } : Actor)]).filter _).length ≤ 1
      rw [List.filter_append, List.length_append]
      by_cases hb : b = a
      · subst hb
        have : s.actors.filter (fun x => x.id = b ∧ x.alive) = [] := by
          rw [List.filter_eq_nil_iff]
          intro x hx
          have : s.actor b = none := by simpa using hnone
          unfold BSt.actor at this
          exact List.find?_eq_none.mp this x hx
        rw [this]; simp
      · have := h.ua b
        have h2 : ([({ id := a } : Actor)].filter (fun x => x.id = b ∧ x.alive)) = [] := by
          simp; omega
        rw [h2]; simpa using this
  | texit a =>
    simp only [applyFront]
    split
    · exact h
    · have h1 : InvBφ φ (s.setActor a (fun x => { x with alive := false })) := by
        have hcb : ∀ id, cntB (s.setActor a (fun x => { x with alive := false })) id = cntB s id :=
          fun id => cntB_setActor_same s a (fun x => { x with alive := false }) (fun _ => rfl) id
        refine ⟨fun id => by unfold tot; rw [hcb]; exact h.uniq id,
          fun id hid => by unfold tot; rw [hcb]; exact h.lt id hid, fun b => ?_⟩
        refine Nat.le_trans (filter_len_map_le s.actors _ _ ?_) (h.ua b)
        intro x hx
        split at hx
        · simp at hx
        · exact hx
      split
      · exact InvBφ.of_same (s := (s.setActor a (fun x => { x with alive := false })).setTh _ (fun t => { t with valid := false }))
          (h1.setTh_same _ _ rfl) rfl rfl (fun _ => rfl)
      · exact h1
  | resume a =>
    simp only [applyFront]
    have h1 := h.resume a
    split
    · exact h1
    · split
      · exact h1
      · exact h1.setActorMisc a _ (fun _ => ⟨rfl, rfl⟩) (fun _ => rfl)
  | armStall a =>
    simp only [applyFront]
    split
    · exact h.setActorMisc a _ (fun _ => ⟨rfl, rfl⟩) (fun _ => rfl)
    · exact h
  | log a g lvl len dyn =>
    simp only [applyFront]
    apply h.withLogger
    intro lgi
    split
    · exact hlog ..
    · exact h.bumpId
  | logNamed a g len =>
    simp only [applyFront]
    apply h.withLogger
    intro lgi
    split
    · exact hlog ..
    · exact h.bumpId
  | logBt a g len =>
    simp only [applyFront]
    apply h.withLogger
    intro lgi
    split
    · exact hlog ..
    · exact h.bumpId
  | initBt a g cap fl =>
    simp only [applyFront]
    exact h.withLogger _ _ _ (fun lgi => InvBφ.frontCall _ _ _ _ _ _ _ _ _
      (fun st hk _ => h.room_ctl a st (by rw [hk]; rfl)))
  | flushBt a g =>
    simp only [applyFront]
    exact h.withLogger _ _ _ (fun lgi => InvBφ.frontCall _ _ _ _ _ _ _ _ _
      (fun st hk _ => h.room_ctl a st (by rw [hk]; rfl)))
  | flush a g =>
    simp only [applyFront]
    apply h.withLogger
    intro lgi
    have h1 : InvBφ φ { s with nextFlag := s.nextFlag + 1 } := hmisc _ rfl rfl rfl
    exact InvBφ.frontCall _ _ _ _ _ _ _ _ _ (fun st hk _ => h1.room_ctl a st (by rw [hk]; rfl))
  | removeBlocking a g =>
    simp only [applyFront]
    split
    · exact h
    · apply h.withLogger
      intro lgi
      have h1 : InvBφ φ (dropName { s with nextFlag := s.nextFlag + 1 } g) := hmisc _ rfl rfl rfl
      exact InvBφ.frontCall _ _ _ _ _ _ _ _ _ (fun st hk _ => h1.room_ctl a st (by rw [hk]; rfl))
  | remove a g =>
    simp only [applyFront]
    split
    · exact h
    · split
      · exact hmisc _ rfl rfl rfl
      · exact h
  | create a g sl =>
    simp only [applyFront]
    split
    · exact h
    · split
      · split
        · exact h
        · exact hmisc _ rfl rfl rfl
      · exact hmisc _ rfl rfl rfl
  | setLevel g lvl =>
    simp only [applyFront]
    split
    · exact hmisc _ rfl rfl rfl
    · exact h
  | setSinkLevel sid lvl =>
    simp only [applyFront]
    split
    · exact hmisc _ rfl rfl rfl
    · exact h
  | dropSink sid =>
    simp only [applyFront]
    have c := (reapSinks_frame (s.setSink sid (fun k => { k with userRef := false })) [sid]).core
    exact h.of_same c.actors c.nextId (fun id => cntA_of_ths c.ths id)
  | query => exact h

theorem InvBφ.of_core {s s' : BSt} (h : InvBφ φ s) (c : Core s s') : InvBφ φ s' :=
  h.of_same c.actors c.nextId (fun id => cntA_of_ths c.ths id)

theorem InvBφ.closed : Closed (InvBφ φ) where
  frame := fun _ _ h f => h.of_core f.core
  refresh := fun s h => by
    unfold refreshCache; split
    · exact h.of_same rfl rfl (fun _ => rfl)
    · exact h
  ctxEmpty := fun _ _ h => h.setTh_same _ _ rfl
  dropCtx := fun s i h _ _ _ => by
    refine h.of_accs rfl rfl ?_
    unfold PA.dropCtx
    rw [accs_setTh]
    · show accs (ctxEmpty s i).1 = accs s
      rw [ctxEmpty_fst, accs_setTh]; intro _; rfl
    · intro _; rfl
  prepRead := fun _ _ h => h.setTh_same _ _ rfl
  commitRead := fun _ _ h => h.setTh_same _ _ rfl
  readOne := fun s i st rest h _ _ => by
    refine h.of_accs ?_ ?_ ?_
    · unfold PA.readOne; dsimp only; split <;> rfl
    · unfold PA.readOne; dsimp only; split <;> rfl
    · unfold PA.readOne
      dsimp only
      rw [accs_setTh]
      · split
        · show accs (s.setTh i _) = accs s
          rw [accs_setTh]; intro _; rfl
        · rw [accs_setTh]; intro _; rfl
      · intro _; rfl
  pop := fun s i st rest h _ => by
    have c := processEvent_core s st
    refine h.of_accs ?_ ?_ ?_
    · unfold popStep; dsimp only; split <;> exact c.actors
    · unfold popStep; dsimp only; split <;> exact c.nextId
    · unfold popStep
      dsimp only
      show accs (BSt.setTh _ i _) = accs s
      rw [accs_setTh]
      · split
        · show (processEvent s st).1.ths.map _ = _
          rw [c.ths]; rfl
        · show (processEvent s st).1.ths.map _ = _
          rw [c.ths]; rfl
      · intro _; rfl
  failReset := fun s i h _ => by
    unfold PA.failReset
    exact InvBφ.of_same (h.setTh_same i _ rfl) rfl rfl (fun _ => rfl)
  front := fun _ f h => h.front f

theorem InvB.toφ {s : BSt} (h : InvB s) : InvBφ (fun _ => 0) s := ⟨h.uniq, h.lt, h.ua⟩
theorem InvBφ.toB {s : BSt} (h : InvBφ (fun _ => 0) s) : InvB s := ⟨h.uniq, h.lt, h.ua⟩

theorem InvB.closed : Closed InvB := (InvBφ.closed (φ := fun _ => 0)).congr (fun _ => ⟨InvBφ.toB, InvB.toφ⟩)

/-- one id counted as taken by a phantom -/
def phantom (id0 : Nat) : Nat → Nat := fun id => if id = id0 then 1 else 0

/-- the id lies below `nextId` but no statement carries it: neither an accepted history nor a parked call -/
structure Unplaced (s : BSt) (id0 : Nat) : Prop where
  lt : id0 < s.nextId
  none : tot s id0 = 0

theorem InvBφ.of_unplaced {s : BSt} {id0 : Nat} (h : InvB s) (u : Unplaced s id0) : InvBφ (phantom id0) s := by
  refine ⟨fun id => ?_, fun id hid => ?_, h.ua⟩
  · unfold phantom; split
    · next e => rw [e, u.none]; exact Nat.le_refl _
    · have := h.uniq id; omega
  · unfold phantom; split
    · next e => have := u.lt; omega
    · have := h.lt id hid; omega

theorem InvBφ.unplaced {s : BSt} {id0 : Nat} (h : InvBφ (phantom id0) s) : Unplaced s id0 := by
  have h1 := h.uniq id0
  simp only [phantom, if_true] at h1
  refine ⟨?_, by omega⟩
  by_cases hlt : id0 < s.nextId
  · exact hlt
  · have := h.lt id0 (by omega)
    simp only [phantom, if_true] at this; omega

/-- **an unplaced id stays unplaced for ever**: ids are allocated once and a statement object moves only from a
    parked call into an accepted history -/
theorem Unplaced.run {s : BSt} {id0 : Nat} (h : InvB s) (u : Unplaced s id0) (ops : List Op) :
    Unplaced (runOps s ops) id0 :=
  (runOps_closed InvBφ.closed ops s (InvBφ.of_unplaced h u)).unplaced

end Backend.PA
