import QuillModel.Backend.SinkBack
/-!
What `cleanupLoggers` does to the flags: a recorded removal flag is raised only for a name one of whose logger
objects was erased in the same pass. Helper lemma for C17.
-/
namespace Backend.PC
open Backend Spsc

/-- flags, recorded removal flags and logger objects -/
def fview2 (s : BSt) : List Nat × List (Nat × Nat) × List Lg := (s.flags, s.removalFlags, s.lgs)

theorem allEmpty_fview2 (s : BSt) : fview2 (allEmpty s).1 = fview2 s := by
  unfold allEmpty
  simp only []
  apply foldl_pres_pair (fun x => fview2 x = fview2 s)
    (fun (acc : BSt × Bool) i => ((ctxEmpty acc.1 i).1, acc.2 && (ctxEmpty acc.1 i).2))
  · intro acc i h; exact h
  · show fview2 (refreshCache s) = fview2 s
    unfold refreshCache; split <;> rfl

theorem reapSinks_fview2 (sids : List Nat) : ∀ (s : BSt), fview2 (reapSinks s sids) = fview2 s := by
  unfold reapSinks
  induction sids with
  | nil => intro s; rfl
  | cons x xs ih =>
    intro s
    simp only [List.foldl_cons]
    rw [ih]; split <;> rfl

theorem foldl_pres_mem {α} (P : BSt → Prop) (step : BSt → α → BSt) :
    ∀ (l : List α) (s : BSt), (∀ x a, a ∈ l → P x → P (step x a)) → P s → P (l.foldl step s)
  | [], _, _, hs => hs
  | a :: as, s, h, hs =>
    foldl_pres_mem P step as _ (fun x b hb hx => h x b (List.mem_cons_of_mem _ hb) hx) (h s a List.mem_cons_self hs)

theorem reapSinksInj_fview2 (inj : BSt → Nat → BSt) (hq : Quiet9 inj) (sids : List Nat) :
    ∀ (s : BSt), fview2 (reapSinksInj inj s sids) = fview2 s := by
  unfold reapSinksInj
  induction sids with
  | nil => intro s; rfl
  | cons x xs ih =>
    intro s
    simp only [List.foldl_cons]
    rw [ih]; split
    · obtain ⟨sc, h⟩ := hq ((s.setSink x (fun k => { k with alive := false })).emit (.sinkDtor x))
      rw [h]; rfl
    · rfl

/-- **the logger clean-up raises a recorded removal flag only for a name one of whose objects it erased in this
    very pass** (and, by the order of the code, after the erase and the sink pruning); nothing injected at site 9 -/
theorem cleanupLoggers_flags (inj : BSt → Nat → BSt) (hq : Quiet9 inj) (s : BSt) :
    ∀ f ∈ (cleanupLoggers inj s).flags, f ∈ s.flags ∨
      ∃ g i, (g, f) ∈ s.removalFlags ∧ i < s.lgs.length ∧ (s.lgOf i).gid = g ∧ (s.lgOf i).erased = false ∧
        ((cleanupLoggers inj s).lgOf i).erased = true := by
  rw [cleanupLoggers_eq]
  split
  · intro f hf; exact Or.inl hf
  · -- the loggers visited are those not yet erased
    have hord : ∀ i ∈ lgOrder { s with hasInvalidLoggers := false }, i < s.lgs.length ∧ (s.lgOf i).erased = false := by
      intro i hi
      unfold lgOrder at hi
      rw [mem_insSorted, List.mem_filter, List.mem_range] at hi
      have h2 : (s.lgOf i).erased = false := by
        have := hi.2
        simp only [Bool.not_eq_true'] at this
        exact this
      exact ⟨hi.1, h2⟩
    revert hord
    generalize lgOrder { s with hasInvalidLoggers := false } = order
    intro hord
    -- first loop
    have hfold : ∀ (l : List Nat) (acc : BSt × List Nat), (∀ i ∈ l, i < s.lgs.length ∧ (s.lgOf i).erased = false) →
        (acc.1.flags = s.flags ∧ acc.1.removalFlags = s.removalFlags ∧ acc.1.lgs.length = s.lgs.length ∧
         (∀ i, (acc.1.lgOf i).gid = (s.lgOf i).gid) ∧
         (∀ g ∈ acc.2, ∃ i, i < s.lgs.length ∧ (s.lgOf i).gid = g ∧ (s.lgOf i).erased = false ∧
            (acc.1.lgOf i).erased = true)) →
        ((l.foldl (lgStep inj) acc).1.flags = s.flags ∧ (l.foldl (lgStep inj) acc).1.removalFlags = s.removalFlags ∧
         (l.foldl (lgStep inj) acc).1.lgs.length = s.lgs.length ∧
         (∀ i, ((l.foldl (lgStep inj) acc).1.lgOf i).gid = (s.lgOf i).gid) ∧
         (∀ g ∈ (l.foldl (lgStep inj) acc).2, ∃ i, i < s.lgs.length ∧ (s.lgOf i).gid = g ∧ (s.lgOf i).erased = false ∧
            ((l.foldl (lgStep inj) acc).1.lgOf i).erased = true)) := by
      intro l
      induction l with
      | nil => intro acc _ h; exact h
      | cons i rest ih =>
        intro acc hl h
        simp only [List.foldl_cons]
        apply ih _ (fun j hj => hl j (List.mem_cons_of_mem _ hj))
        obtain ⟨h1, h2, h3, h4, h5⟩ := h
        have hae := allEmpty_fview2 acc.1
        simp only [fview2, Prod.mk.injEq] at hae
        obtain ⟨e1, e2, e3⟩ := hae
        unfold lgStep
        split
        · exact ⟨h1, h2, h3, h4, h5⟩
        · split
          · -- erase `i`
            have hrs := reapSinksInj_fview2 inj hq (acc.1.lgOf i).sinks ((allEmpty acc.1).1.setLg i (fun l => { l with erased := true }))
            simp only [fview2, Prod.mk.injEq] at hrs
            obtain ⟨r1, r2, r3⟩ := hrs
            have hlgOf : ∀ j, (reapSinksInj inj ((allEmpty acc.1).1.setLg i (fun l => { l with erased := true }))
                (acc.1.lgOf i).sinks).lgOf j = ((allEmpty acc.1).1.setLg i (fun l => { l with erased := true })).lgOf j := by
              intro j
              show List.getD _ j default = List.getD _ j default
              rw [r3]
            have hlg0 : ∀ j, (allEmpty acc.1).1.lgOf j = acc.1.lgOf j := fun j => by simp only [BSt.lgOf, e3]
            have hlen0 : (allEmpty acc.1).1.lgs.length = acc.1.lgs.length := by rw [e3]
            refine ⟨?_, ?_, ?_, ?_, ?_⟩
            · show (reapSinksInj _ _ _).flags = _; rw [r1]; show (allEmpty acc.1).1.flags = _; rw [e1]; exact h1
            · show (reapSinksInj _ _ _).removalFlags = _; rw [r2]; show (allEmpty acc.1).1.removalFlags = _; rw [e2]; exact h2
            · show (reapSinksInj _ _ _).lgs.length = _; rw [r3, lgs_length_setLg, hlen0]; exact h3
            · intro j
              show ((reapSinksInj _ _ _).lgOf j).gid = _
              rw [hlgOf, lgOf_setLg]
              split
              · show ((allEmpty acc.1).1.lgOf j).gid = _; rw [hlg0]; exact h4 j
              · rw [hlg0]; exact h4 j
            · intro g hg
              show ∃ i', i' < s.lgs.length ∧ (s.lgOf i').gid = g ∧ (s.lgOf i').erased = false ∧
                ((reapSinksInj _ _ _).lgOf i').erased = true
              rcases List.mem_append.mp hg with hg | hg
              · obtain ⟨i', a1, a2, a3, a4⟩ := h5 g hg
                refine ⟨i', a1, a2, a3, ?_⟩
                rw [hlgOf, lgOf_setLg]
                split
                · rfl
                · rw [hlg0]; exact a4
              · simp only [List.mem_singleton] at hg
                obtain ⟨b1, b2⟩ := hl i List.mem_cons_self
                refine ⟨i, b1, by rw [hg, h4], b2, ?_⟩
                rw [hlgOf, lgOf_setLg]
                have : i < (allEmpty acc.1).1.lgs.length := by rw [hlen0, h3]; exact b1
                simp only [this, and_self, if_true]
          · refine ⟨?_, ?_, ?_, ?_, ?_⟩
            · show (allEmpty acc.1).1.flags = _; rw [e1]; exact h1
            · show (allEmpty acc.1).1.removalFlags = _; rw [e2]; exact h2
            · show (allEmpty acc.1).1.lgs.length = _; rw [e3]; exact h3
            · intro j
              show ((allEmpty acc.1).1.lgOf j).gid = _
              simp only [BSt.lgOf, e3]; exact h4 j
            · intro g hg
              obtain ⟨i', a1, a2, a3, a4⟩ := h5 g hg
              refine ⟨i', a1, a2, a3, ?_⟩
              show ((allEmpty acc.1).1.lgOf i').erased = true
              simp only [BSt.lgOf, e3]; exact a4
    have h1 := hfold order ({ s with hasInvalidLoggers := false }, []) hord
      ⟨rfl, rfl, rfl, fun _ => rfl, fun g hg => by cases hg⟩
    revert h1
    generalize order.foldl (lgStep inj) ({ s with hasInvalidLoggers := false }, ([] : List Nat)) = res
    intro h1
    obtain ⟨s1, removed⟩ := res
    simp only [] at h1 ⊢
    obtain ⟨q1, q2, q3, q4, q5⟩ := h1
    -- second loop
    have hK := foldl_pres_mem (fun x => x.lgs = s1.lgs ∧ (∀ p ∈ x.removalFlags, p ∈ s.removalFlags) ∧
        ∀ f ∈ x.flags, f ∈ s.flags ∨ ∃ g ∈ removed, (g, f) ∈ s.removalFlags)
      flagStep removed s1
      (by
        intro x gid hgid hx
        obtain ⟨k1, k2, k3⟩ := hx
        unfold flagStep
        split
        · rename_i g' f hfind
          have hm := List.mem_of_find?_eq_some hfind
          have hk := List.find?_some hfind
          simp only [decide_eq_true_eq] at hk
          refine ⟨k1, ?_, ?_⟩
          · intro p hp
            have hp' : p ∈ x.removalFlags.filter (·.1 ≠ gid) := hp
            exact k2 p (List.mem_filter.mp hp').1
          · intro f' hf'
            have hf'' : f' ∈ f :: x.flags := hf'
            rcases List.mem_cons.mp hf'' with rfl | hf''
            · right
              refine ⟨gid, hgid, ?_⟩
              have := k2 (g', f') hm
              rw [← hk]; exact this
            · exact k3 f' hf''
        · exact ⟨k1, k2, k3⟩)
      ⟨rfl, fun p hp => by rw [q2] at hp; exact hp, fun f hf => Or.inl (by rw [q1] at hf; exact hf)⟩
    obtain ⟨k1, _, k3⟩ := hK
    intro f hf
    rcases k3 f hf with h | ⟨g, hg, hgf⟩
    · exact Or.inl h
    · right
      obtain ⟨i, a1, a2, a3, a4⟩ := q5 g hg
      refine ⟨g, i, hgf, a1, a2, a3, ?_⟩
      have : ∀ (X : BSt), X.lgs = s1.lgs → (X.lgOf i).erased = true := by
        intro X hX; simp only [BSt.lgOf, hX]; exact a4
      exact this _ k1

end Backend.PC
