import QuillModel.Backend.CtxDrain
import QuillModel.Backend.LevelProofs
/-!
Per-thread bookkeeping invariant `TInv` (queue positions tied to the ghost statement lists, conservation
`accepted = popped ++ buf ++ qStmts`, unregistered contexts are empty, parked records have a positive size) and
its preservation along every schedule together with `CInv` (`TCInv_runOps`). Helper lemmas for C07 / C17 / C20.
-/
namespace Backend.PC
open Backend Spsc

/-- the three positions the ghost statement list is tied to -/
structure QPos where
  rpos : Nat
  wpos : Nat
  whead : Nat
  deriving DecidableEq

def qpos (q : St) : QPos := ⟨q.rpos, q.wpos, q.wHist.headD 0⟩

theorem qpos_prepareWrite (c : Cfg) (q : St) (n : Nat) : qpos (qPrepareWrite c q n).1 = qpos q := by
  unfold qPrepareWrite
  simp only [absApi, apiOps]
  split <;> rfl

theorem qpos_finishCommit (c : Cfg) (q : St) (n : Nat) :
    qpos (qFinishCommit c q n) = ⟨q.rpos, q.wpos + n, q.wpos + n⟩ := by
  unfold qFinishCommit
  simp only [absApi, apiOps, run, step, qpos, List.headD_cons]

theorem qpos_prepareRead (c : Cfg) (q : St) : qpos (qPrepareRead c q).1 = qpos q := by
  unfold qPrepareRead
  simp only [absApi, apiOps]
  split <;> rfl

theorem qpos_finishRead (c : Cfg) (q : St) (n : Nat) :
    qpos (qFinishRead c q n) = ⟨q.rpos + n, q.wpos, q.wHist.headD 0⟩ := by
  unfold qFinishRead
  simp only [absApi, apiOps, run, step, qpos]

theorem qpos_commitRead (c : Cfg) (q : St) : qpos (qCommitRead c q) = qpos q := by
  unfold qCommitRead
  simp only [absApi, apiOps, run, step]
  split <;> rfl

theorem qpos_empty (c : Cfg) (q : St) : qpos (qEmpty c q).1 = qpos q := by
  unfold qEmpty
  simp only [absApi, apiOps]
  split <;> rfl

/-- an empty answer means the reader has reached the newest published writer position -/
theorem qEmpty_true_pos (c : Cfg) (q : St) (h : (qEmpty c q).2 = true) : q.wHist.headD 0 = q.rpos := by
  unfold qEmpty at h
  simp only [absApi, apiOps, apiObs] at h
  by_cases hw : q.wcache = q.rpos
  · simp only [hw, if_true, run, step, decide_eq_true_eq] at h
    exact h
  · simp only [hw, if_false, run] at h
    simp at h

theorem qpos_init (cap batch : Nat) : qpos (init cap batch) = ⟨0, 0, 0⟩ := rfl


/-! ### per-thread bookkeeping: queue positions vs. the ghost lists -/

def stmtsSize (l : List Stmt) : Nat := (l.map (·.size)).sum

structure ThOK (t : Th) : Prop where
  link : t.q.rpos + stmtsSize t.qStmts = t.q.wHist.headD 0
  wcom : t.q.wpos = t.q.wHist.headD 0
  pos : ∀ st ∈ t.qStmts, 0 < st.size
  cons : t.accepted = t.popped ++ t.buf ++ t.qStmts

def pendStmt : Pend → Option Stmt
  | .stall s _ => some s
  | .retry s _ => some s
  | _ => none

structure TInv (s : BSt) : Prop where
  hdr : 0 < s.cfg.hdr
  ths : ∀ i, i < s.ths.length → ThOK (s.th i)
  unreg : ∀ i, i < s.ths.length → i ∉ s.registry → (s.th i).buf = [] ∧ (s.th i).qStmts = []
  pend : ∀ x ∈ s.actors, ∀ st, pendStmt x.pend = some st → 0 < st.size

/-- what `TInv` reads -/
def tview (s : BSt) : Cfg × List Th × List Nat × List Actor := (s.cfg, s.ths, s.registry, s.actors)

theorem TInv_of_tview {s s' : BSt} (hs : TInv s) (h : tview s' = tview s) : TInv s' := by
  simp only [tview, Prod.mk.injEq] at h
  obtain ⟨h1, h2, h3, h4⟩ := h
  have hth : ∀ i, s'.th i = s.th i := fun i => by simp only [BSt.th, h2]
  exact ⟨by rw [h1]; exact hs.hdr, fun i hi => by rw [hth]; exact hs.ths i (by rw [← h2]; exact hi),
    fun i hi hr => by rw [hth]; exact hs.unreg i (by rw [← h2]; exact hi) (by rw [← h3]; exact hr),
    fun x hx => hs.pend x (by rw [← h4]; exact hx)⟩

theorem ThOK.of_qpos {t : Th} (h : ThOK t) (q' : St) (hq : qpos q' = qpos t.q) : ThOK { t with q := q' } := by
  simp only [qpos, QPos.mk.injEq] at hq
  obtain ⟨h1, h2, h3⟩ := hq
  exact ⟨by show q'.rpos + _ = q'.wHist.headD 0; rw [h1, h3]; exact h.link,
    by show q'.wpos = q'.wHist.headD 0; rw [h2, h3]; exact h.wcom, h.pos, h.cons⟩

/-- empty queue answer + link ⇒ no statement left in the queue -/
theorem ThOK.qStmts_nil {t : Th} (h : ThOK t) (c : Cfg) (he : (qEmpty c t.q).2 = true) : t.qStmts = [] := by
  have hp := qEmpty_true_pos c t.q he
  have hl := h.link
  rw [hp] at hl
  have hz : stmtsSize t.qStmts = 0 := by omega
  cases hq : t.qStmts with
  | nil => rfl
  | cons st rest =>
    have := h.pos st (by rw [hq]; exact List.mem_cons_self)
    rw [hq] at hz
    simp only [stmtsSize, List.map_cons, List.sum_cons] at hz
    omega

theorem TInv.setTh {s : BSt} (hs : TInv s) (i : Nat) (f : Th → Th)
    (h1 : i < s.ths.length → ThOK (f (s.th i)))
    (h2 : i < s.ths.length → i ∉ s.registry → (f (s.th i)).buf = [] ∧ (f (s.th i)).qStmts = []) :
    TInv (s.setTh i f) := by
  refine ⟨hs.hdr, ?_, ?_, hs.pend⟩
  · intro j hj
    rw [ths_length_setTh] at hj
    rw [th_setTh]
    split
    · rename_i hji; obtain ⟨rfl, _⟩ := hji; exact h1 hj
    · exact hs.ths j hj
  · intro j hj hr
    rw [ths_length_setTh] at hj
    rw [th_setTh]
    split
    · rename_i hji; obtain ⟨rfl, _⟩ := hji; exact h2 hj hr
    · exact hs.unreg j hj hr

/-- an update of a context that keeps the queue positions and the ghost lists -/
theorem TInv.setTh_q {s : BSt} (hs : TInv s) (i : Nat) (f : Th → Th)
    (hq : qpos (f (s.th i)).q = qpos (s.th i).q) (h2 : ∀ t, (f t).qStmts = t.qStmts) (h3 : ∀ t, (f t).buf = t.buf)
    (h4 : ∀ t, (f t).accepted = t.accepted) (h5 : ∀ t, (f t).popped = t.popped) : TInv (s.setTh i f) := by
  apply hs.setTh
  · intro hi
    have h := hs.ths i hi
    have hq' := hq
    simp only [qpos, QPos.mk.injEq] at hq'
    obtain ⟨q1, q2, q3⟩ := hq'
    exact ⟨by rw [q1, q3, h2]; exact h.link, by rw [q2, q3]; exact h.wcom, by rw [h2]; exact h.pos,
      by rw [h2, h3, h4, h5]; exact h.cons⟩
  · intro hi hr
    rw [h2, h3]; exact hs.unreg i hi hr

theorem TInv.setActor {s : BSt} (hs : TInv s) (a : Nat) (f : Actor → Actor)
    (hf : ∀ x st, pendStmt (f x).pend = some st → pendStmt x.pend = some st ∨ 0 < st.size) :
    TInv (s.setActor a f) := by
  refine ⟨hs.hdr, hs.ths, hs.unreg, ?_⟩
  intro x' hx' st hst
  simp only [BSt.setActor, List.mem_map] at hx'
  obtain ⟨x, hx, rfl⟩ := hx'
  split at hst
  · rcases hf x st hst with h | h
    · exact hs.pend x hx st h
    · exact h
  · exact hs.pend x hx st hst

theorem stmtSize_pos (c : Cfg) (k : Kind) (id len : Nat) (dyn : Bool) (gid : Nat) (h : 0 < c.hdr) :
    0 < stmtSize c k id len dyn gid := by
  unfold stmtSize; split <;> omega


/-! ### frontend -/

theorem th_append_left (s : BSt) (t : Th) (j : Nat) (hj : j < s.ths.length) (X : BSt) (hX : X.ths = s.ths ++ [t]) :
    X.th j = s.th j := by
  simp only [BSt.th, hX, List.getD_eq_getElem?_getD, List.getElem?_append_left hj]

theorem th_append_new (s : BSt) (t : Th) (X : BSt) (hX : X.ths = s.ths ++ [t]) : X.th s.ths.length = t := by
  simp only [BSt.th, hX, List.getD_eq_getElem?_getD]
  simp

theorem ThOK_mkTh (c : Cfg) (a : Nat) : ThOK (mkTh c a) :=
  ⟨rfl, rfl, fun _ h => (by cases h), rfl⟩

theorem TInv_ensureCtx {s : BSt} (hs : TInv s) (a : Nat) : TInv (ensureCtx s a).1 := by
  unfold ensureCtx
  split
  · exact hs
  · simp only []
    refine TInv.setActor ?_ _ _ (by intro x st h; exact Or.inl h)
    refine ⟨hs.hdr, ?_, ?_, hs.pend⟩
    · intro j hj
      simp only [List.length_append, List.length_singleton] at hj
      by_cases hjn : j = s.ths.length
      · subst hjn; rw [th_append_new s _ _ rfl]; exact ThOK_mkTh _ _
      · have hlt : j < s.ths.length := by omega
        rw [th_append_left s _ j hlt _ rfl]; exact hs.ths j hlt
    · intro j hj hr
      simp only [List.length_append, List.length_singleton] at hj
      simp only [List.mem_append, List.mem_singleton, not_or] at hr
      have hlt : j < s.ths.length := by omega
      rw [th_append_left s _ j hlt _ rfl]; exact hs.unreg j hlt hr.1

theorem actor_mem {s : BSt} {a : Nat} {x : Actor} (h : s.actor a = some x) : x ∈ s.actors ∧ x.id = a ∧ x.alive = true := by
  unfold BSt.actor at h
  have h1 := List.mem_of_find?_eq_some h
  have h2 := List.find?_some h
  simp only [decide_eq_true_eq] at h2
  exact ⟨h1, h2.1, h2.2⟩

theorem ensureCtx_reg {s : BSt} (hc : CInv s) (a : Nat) (ha : (s.actor a).isSome = true) :
    (ensureCtx s a).2 ∈ (ensureCtx s a).1.registry ∧ (ensureCtx s a).2 < (ensureCtx s a).1.ths.length := by
  unfold ensureCtx
  cases h : (s.actor a).bind (·.ctx) with
  | some i =>
    simp only []
    obtain ⟨x, hx⟩ := Option.isSome_iff_exists.mp ha
    rw [hx] at h; simp only [Option.bind_some] at h
    obtain ⟨hm, _, hal⟩ := actor_mem hx
    have hmc : (⟨x.id, x.alive, x.ctx⟩ : AC) ∈ (core s).actors := by
      simp only [core, List.mem_map]; exact ⟨x, hm, rfl⟩
    obtain ⟨h1, h2⟩ := hc.own _ hmc hal i h
    refine ⟨h2, ?_⟩
    have := hc.regLt i h2
    simpa [core] using this
  | none =>
    simp only []
    exact ⟨by show s.ths.length ∈ s.registry ++ [s.ths.length]; simp,
           by show s.ths.length < (s.ths ++ [_]).length; simp⟩

theorem TInv_tryEnq {s : BSt} (hs : TInv s) (ci : Nat) (st : Stmt) (hpos : 0 < st.size) (hreg : ci ∈ s.registry) :
    TInv (tryEnq s ci st).1 := by
  unfold tryEnq
  simp only []
  split
  · apply hs.setTh
    · intro hi
      have h := hs.ths ci hi
      have hq : qpos (qFinishCommit s.cfg (qPrepareWrite s.cfg (s.th ci).q st.size).1 st.size) =
          ⟨(s.th ci).q.rpos, (s.th ci).q.wpos + st.size, (s.th ci).q.wpos + st.size⟩ := by
        rw [qpos_finishCommit]
        have := qpos_prepareWrite s.cfg (s.th ci).q st.size
        simp only [qpos, QPos.mk.injEq] at this
        rw [this.1, this.2.1]
      simp only [qpos, QPos.mk.injEq] at hq
      obtain ⟨q1, q2, q3⟩ := hq
      refine ⟨?_, ?_, ?_, ?_⟩
      · show _ + stmtsSize ((s.th ci).qStmts ++ [_]) = _
        rw [q1, q3]
        have := h.link; have := h.wcom
        simp only [stmtsSize, List.map_append, List.sum_append, List.map_cons, List.map_nil, List.sum_cons,
          List.sum_nil] at *
        omega
      · rw [q2, q3]
      · intro x hx
        have hx' : x ∈ (s.th ci).qStmts ++ [{ st with enqAt := s.now }] := hx
        rcases List.mem_append.mp hx' with hx' | hx'
        · exact h.pos x hx'
        · simp only [List.mem_singleton] at hx'; rw [hx']; exact hpos
      · show (s.th ci).accepted ++ [_] = (s.th ci).popped ++ (s.th ci).buf ++ ((s.th ci).qStmts ++ [_])
        rw [h.cons]; simp only [List.append_assoc]
    · intro _ hr; exact absurd hreg hr
  · exact hs.setTh_q ci _ (qpos_prepareWrite s.cfg (s.th ci).q st.size) (fun _ => rfl) (fun _ => rfl) (fun _ => rfl)
      (fun _ => rfl)


theorem TInv_afterEnq {s : BSt} (hs : TInv s) (a : Nat) (st : Stmt) (cont : Nat) : TInv (afterEnq s a st cont).1 := by
  unfold afterEnq
  split
  · exact hs.setActor _ _ (by intro x st h; cases h)
  · exact TInv_of_tview hs rfl
  · exact hs
  · refine TInv.setActor ?_ _ _ (by intro x st h; cases h)
    exact TInv_of_tview hs rfl
  · exact hs

theorem TInv_enqFlow {s : BSt} (hc : CInv s) (hs : TInv s) (a : Nat) (ha : (s.actor a).isSome = true) (st : Stmt)
    (hpos : 0 < st.size) (cont : Nat) (first initial : Bool) : TInv (enqFlow s a st cont first initial).1 := by
  have he := TInv_ensureCtx hs a
  obtain ⟨hreg, _⟩ := ensureCtx_reg hc a ha
  have ht := TInv_tryEnq he (ensureCtx s a).2 st hpos hreg
  unfold enqFlow
  simp only []
  split
  · apply TInv_afterEnq
    exact ht.setActor _ _ (by intro x st h; cases h)
  · have hb : ∀ (X : BSt) (f : Th → Th), TInv X →
        (∀ t, (f t).q = t.q ∧ (f t).qStmts = t.qStmts ∧ (f t).buf = t.buf ∧ (f t).accepted = t.accepted ∧
          (f t).popped = t.popped) → TInv (X.setTh (ensureCtx s a).2 f) := by
      intro X f hX hf
      exact hX.setTh_q _ _ (by rw [(hf _).1]) (fun t => (hf t).2.1) (fun t => (hf t).2.2.1) (fun t => (hf t).2.2.2.1)
        (fun t => (hf t).2.2.2.2)
    have hretry : ∀ X : BSt, TInv X → TInv (X.setActor a (fun x => { x with pend := .retry st cont })) := by
      intro X hX
      exact hX.setActor _ _ (by
        intro x st' h
        simp only [pendStmt, Option.some.injEq] at h
        right; rw [← h]; exact hpos)
    have hnone : ∀ X : BSt, TInv X → TInv (X.setActor a (fun x => { x with pend := .none })) := by
      intro X hX
      exact hX.setActor _ _ (by intro x st h; cases h)
    repeat' split
    all_goals first
      | exact hnone _ ht
      | exact hretry _ ht
      | exact hnone _ (hb _ _ ht (by intro t; exact ⟨rfl, rfl, rfl, rfl, rfl⟩))
      | exact hretry _ (hb _ _ ht (by intro t; exact ⟨rfl, rfl, rfl, rfl, rfl⟩))


theorem tview_of_stripOut {s s' : BSt} (h : stripOut s' = stripOut s) : tview s' = tview s := by
  have h1 : tview (stripOut s') = tview s' := rfl
  have h2 : tview (stripOut s) = tview s := rfl
  rw [← h1, h, h2]

theorem pend_size_of_actor {s : BSt} (hs : TInv s) {a : Nat} {st : Stmt}
    (h : ((s.actor a).map (·.pend)).bind pendStmt = some st) : 0 < st.size ∧ (s.actor a).isSome = true := by
  cases hx : s.actor a with
  | none => rw [hx] at h; cases h
  | some x =>
    rw [hx] at h
    simp only [Option.map_some, Option.bind_some] at h
    exact ⟨hs.pend x (actor_mem hx).1 st h, rfl⟩

theorem TInv_frontCall {s : BSt} (hc : CInv s) (hs : TInv s) (a : Nat) (ha : (s.actor a).isSome = true) (lgi : Nat)
    (kind : Kind) (lvl len cont : Nat) (dyn : Bool) (id : Nat) (named : Bool) :
    TInv (frontCall s a lgi kind lvl len cont dyn id named).1 := by
  rw [frontCall_eq]
  have hpos : 0 < (mkStmt s a lgi kind lvl len dyn id named).size := stmtSize_pos _ _ _ _ _ _ hs.hdr
  split
  · exact hs.setActor _ _ (by
      intro x st' h
      simp only [pendStmt, Option.some.injEq] at h
      right; rw [← h]; exact hpos)
  · exact TInv_enqFlow hc hs a ha _ hpos ..

theorem TInv_resume {s : BSt} (hc : CInv s) (hs : TInv s) (a : Nat) : TInv (resume s a).1 := by
  unfold resume
  split
  · rename_i st cont h
    have := pend_size_of_actor hs (a := a) (st := st) (by rw [h]; rfl)
    exact TInv_enqFlow hc hs a this.2 st this.1 ..
  · rename_i st cont h
    have := pend_size_of_actor hs (a := a) (st := st) (by rw [h]; rfl)
    split
    · exact TInv_enqFlow hc hs a this.2 { st with ts := s.now } this.1 ..
    · exact TInv_enqFlow hc hs a this.2 st this.1 ..
  · split
    · exact hs.setActor _ _ (by intro x st h; cases h)
    · exact hs
  · exact hs

theorem TInv_withLogger {s : BSt} (a g : Nat) (k : Nat → BSt × String)
    (hk : ∀ lgi, (s.actor a).isSome = true → TInv (k lgi).1) (hs : TInv s) : TInv (withLogger s a g k).1 := by
  unfold withLogger; split
  · rename_i lgi _ hi
    exact (hk lgi (idle_isSome hi)).setActor _ _ (by intro x st h; exact Or.inl h)
  · exact hs

theorem TInv_front (s : BSt) (f : FOp) (hc : CInv s) (hs : TInv s) : TInv (applyFront s f).1 := by
  cases f <;> simp only [applyFront]
  case tick => exact TInv_of_tview hs rfl
  case tstart a =>
    split
    · exact hs
    · refine ⟨hs.hdr, hs.ths, hs.unreg, ?_⟩
      intro x hx st hst
      have hx' : x ∈ s.actors ++ [{ id := a }] := hx
      rcases List.mem_append.mp hx' with hx' | hx'
      · exact hs.pend x hx' st hst
      · simp only [List.mem_singleton] at hx'; subst hx'; cases hst
  case texit a =>
    split
    · exact hs
    · have h1 : TInv (s.setActor a (fun x => { x with alive := false })) :=
        hs.setActor _ _ (by intro x st h; exact Or.inl h)
      split
      · rename_i i _
        exact TInv_of_tview (h1.setTh_q i (fun t => { t with valid := false }) rfl (fun _ => rfl) (fun _ => rfl)
          (fun _ => rfl) (fun _ => rfl)) rfl
      · exact h1
  case resume a =>
    split
    · exact TInv_resume hc hs a
    · split
      · exact TInv_resume hc hs a
      · exact (TInv_resume hc hs a).setActor _ _ (by intro x st h; exact Or.inl h)
  case armStall a =>
    split
    · exact hs.setActor _ _ (by intro x st h; exact Or.inl h)
    · exact hs
  case log a g lvl len dyn =>
    apply TInv_withLogger _ _ _ _ hs; intro lgi ha; split
    · exact TInv_frontCall (s := { s with nextId := s.nextId + 1 }) hc (TInv_of_tview hs rfl) a ha ..
    · exact TInv_of_tview hs rfl
  case logNamed a g len =>
    apply TInv_withLogger _ _ _ _ hs; intro lgi ha; split
    · exact TInv_frontCall (s := { s with nextId := s.nextId + 1 }) hc (TInv_of_tview hs rfl) a ha ..
    · exact TInv_of_tview hs rfl
  case logBt a g len =>
    apply TInv_withLogger _ _ _ _ hs; intro lgi ha; split
    · exact TInv_frontCall (s := { s with nextId := s.nextId + 1 }) hc (TInv_of_tview hs rfl) a ha ..
    · exact TInv_of_tview hs rfl
  case initBt a g cap fl => apply TInv_withLogger _ _ _ _ hs; intro lgi ha; exact TInv_frontCall hc hs a ha ..
  case flushBt a g => apply TInv_withLogger _ _ _ _ hs; intro lgi ha; exact TInv_frontCall hc hs a ha ..
  case flush a g =>
    apply TInv_withLogger _ _ _ _ hs; intro lgi ha
    exact TInv_frontCall (s := { s with nextFlag := s.nextFlag + 1 }) hc (TInv_of_tview hs rfl) a ha ..
  case removeBlocking a g =>
    split
    · exact hs
    · apply TInv_withLogger _ _ _ _ hs; intro lgi ha
      exact TInv_frontCall (s := dropName { s with nextFlag := s.nextFlag + 1 } g) hc (TInv_of_tview hs rfl) a ha ..
  case remove a g =>
    split
    · exact hs
    · split
      · exact TInv_of_tview hs rfl
      · exact hs
  case create a g sl =>
    split
    · exact hs
    · split
      · split
        · exact hs
        · exact TInv_of_tview hs rfl
      · exact TInv_of_tview hs rfl
  case setLevel =>
    split
    · exact TInv_of_tview hs rfl
    · exact hs
  case setSinkLevel =>
    split
    · exact TInv_of_tview hs rfl
    · exact hs
  case dropSink sid => exact TInv_of_tview hs (tview_of_stripOut (reapSinks_strip _ _))
  case query => exact hs


/-! ### backend leaves -/

theorem TInv_refresh {s : BSt} (hs : TInv s) : TInv (refreshCache s) := by
  unfold refreshCache; split
  · exact TInv_of_tview hs rfl
  · exact hs

theorem TInv_ctxEmpty {s : BSt} (hs : TInv s) (i : Nat) : TInv (ctxEmpty s i).1 := by
  unfold ctxEmpty
  exact hs.setTh_q i _ (qpos_empty s.cfg (s.th i).q) (fun _ => rfl) (fun _ => rfl) (fun _ => rfl) (fun _ => rfl)

theorem TInv_allEmpty {s : BSt} (hs : TInv s) : TInv (allEmpty s).1 := by
  unfold allEmpty
  simp only []
  exact foldl_pres_pair TInv (fun (acc : BSt × Bool) i => ((ctxEmpty acc.1 i).1, acc.2 && (ctxEmpty acc.1 i).2))
    (fun acc i h => TInv_ctxEmpty h i) _ (refreshCache s, true) (TInv_refresh hs)

theorem TInv_hasPending {s : BSt} (hs : TInv s) : TInv (hasPending s).1 := by
  unfold hasPending
  simp only []
  apply foldl_pres_pair TInv _ _ _ _ (TInv_refresh hs)
  intro acc i h
  split
  · exact h
  · split
    · exact h.setTh_q i _ (qpos_empty acc.1.cfg (acc.1.th i).q) (fun _ => rfl) (fun _ => rfl) (fun _ => rfl) (fun _ => rfl)
    · exact h

/-- a context the emptiness check has just found empty holds no statement at all -/
theorem emptyTh_nil {s : BSt} (hs : TInv s) (i : Nat) (h : emptyTh s.cfg (s.th i) = true) :
    (s.th i).buf = [] ∧ (s.th i).qStmts = [] := by
  unfold emptyTh at h
  simp only [Bool.and_eq_true, List.isEmpty_iff] at h
  refine ⟨h.2, ?_⟩
  by_cases hi : i < s.ths.length
  · exact (hs.ths i hi).qStmts_nil s.cfg h.1
  · simp only [BSt.th, List.getD_eq_getElem?_getD, List.getElem?_eq_none (by omega : s.ths.length ≤ i)]
    rfl

theorem findFirst_T : ∀ (l : List Nat) (s : BSt), TInv s →
    TInv (cleanupContexts.go.findFirst s l).1 ∧
    ∀ i, (cleanupContexts.go.findFirst s l).2 = some i →
      ((cleanupContexts.go.findFirst s l).1.th i).buf = [] ∧ ((cleanupContexts.go.findFirst s l).1.th i).qStmts = []
  | [], s, hs => ⟨hs, fun i h => by cases h⟩
  | j :: rest, s, hs => by
    rw [findFirst_cons]
    split
    · exact findFirst_T rest s hs
    · split
      · rename_i he
        refine ⟨TInv_ctxEmpty hs j, fun i h => ?_⟩
        simp only [Option.some.injEq] at h
        subst h
        have := emptyTh_nil hs j (by rw [← ctxEmpty_snd]; simp only [Bool.and_eq_true] at he; exact he.1)
        rw [ctxEmpty_th]
        split
        · exact this
        · exact this
      · exact findFirst_T rest _ (TInv_ctxEmpty hs j)

theorem TInv_removeSt {s : BSt} (hs : TInv s) (i : Nat) (he : (s.th i).buf = [] ∧ (s.th i).qStmts = []) :
    TInv (removeSt s i) := by
  unfold removeSt
  refine TInv.setTh_q ?_ i _ rfl (fun _ => rfl) (fun _ => rfl) (fun _ => rfl) (fun _ => rfl)
  refine ⟨hs.hdr, hs.ths, ?_, hs.pend⟩
  intro j hj hr
  have hr' : j ∉ s.registry.filter (· ≠ i) := hr
  simp only [List.mem_filter, not_and, decide_eq_true_eq, ne_eq, Decidable.not_not] at hr'
  by_cases hji : j = i
  · subst hji; exact he
  · exact hs.unreg j hj (fun hm => hji (hr' hm))

theorem TInv_go : ∀ (fuel : Nat) (s : BSt), TInv s → TInv (cleanupContexts.go fuel s)
  | 0, _, hs => hs
  | n + 1, s, hs => by
    rw [go_succ]
    obtain ⟨h1, h2⟩ := findFirst_T s.cache s hs
    split
    · rename_i s1 heq; rw [heq] at h1; exact h1
    · rename_i s1 i heq
      rw [heq] at h1 h2
      exact TInv_go n _ (TInv_removeSt h1 i (h2 i rfl))

theorem TInv_cleanupContexts {s : BSt} (hs : TInv s) : TInv (cleanupContexts s) := by
  rw [cleanupContexts_eq]; split
  · exact hs
  · exact TInv_go _ _ hs

/-- the logger clean-up leaves the configuration and every failure counter alone -/
theorem cleanupLoggers_fail (inj : BSt → Nat → BSt) (hq : Quiet9 inj) (s : BSt) :
    (cleanupLoggers inj s).cfg = s.cfg ∧ ∀ k, ((cleanupLoggers inj s).th k).fail = (s.th k).fail := by
  apply cleanupLoggers_presL (fun x => x.cfg = s.cfg ∧ ∀ k, (x.th k).fail = (s.th k).fail) inj hq
  · intro x hx
    unfold allEmpty
    simp only []
    apply foldl_pres_pair (fun y => y.cfg = s.cfg ∧ ∀ k, (y.th k).fail = (s.th k).fail)
      (fun (acc : BSt × Bool) i => ((ctxEmpty acc.1 i).1, acc.2 && (ctxEmpty acc.1 i).2))
    · intro acc i h
      refine ⟨h.1, fun k => ?_⟩
      show ((ctxEmpty acc.1 i).1.th k).fail = _
      rw [ctxEmpty_th]; split
      · exact h.2 k
      · exact h.2 k
    · show (refreshCache x).cfg = s.cfg ∧ ∀ k, ((refreshCache x).th k).fail = (s.th k).fail
      unfold refreshCache; split
      · exact hx
      · exact hx
  · intro x y hx h
    have h1 : (stripL y).cfg = y.cfg := rfl
    have h2 : ∀ k, (stripL y).th k = y.th k := fun _ => rfl
    have h3 : (stripL x).cfg = x.cfg := rfl
    have h4 : ∀ k, (stripL x).th k = x.th k := fun _ => rfl
    refine ⟨by rw [← h1, h, h3]; exact hx.1, fun k => ?_⟩
    rw [← h2, h, h4]; exact hx.2 k
  · exact ⟨rfl, fun _ => rfl⟩

theorem TInv_readPrepSt {s : BSt} (hs : TInv s) (i : Nat) : TInv (readPrepSt s i) := by
  unfold readPrepSt
  exact hs.setTh_q i _ (qpos_prepareRead s.cfg (s.th i).q) (fun _ => rfl) (fun _ => rfl) (fun _ => rfl) (fun _ => rfl)

theorem TInv_commitSt {s : BSt} (hs : TInv s) (i : Nat) : TInv (commitSt s i) := by
  unfold commitSt
  exact hs.setTh_q i _ (qpos_commitRead s.cfg (s.th i).q) (fun _ => rfl) (fun _ => rfl) (fun _ => rfl) (fun _ => rfl)

theorem TInv_readOneSt {s : BSt} (hs : TInv s) (i : Nat) (st : Stmt) (rest : List Stmt)
    (hq : (s.th i).qStmts = st :: rest) : TInv (readOneSt s i st rest) := by
  have h1 := TInv_readPrepSt hs i
  have h2 : TInv (decodeSt (readPrepSt s i) st) := by
    unfold decodeSt; split
    · exact TInv_of_tview h1 rfl
    · exact h1
  have hth : (decodeSt (readPrepSt s i) st).th i = (readPrepSt s i).th i := by
    unfold decodeSt; split <;> rfl
  have hlen : (decodeSt (readPrepSt s i) st).ths.length = s.ths.length := by
    have : (decodeSt (readPrepSt s i) st).ths = (readPrepSt s i).ths := by unfold decodeSt; split <;> rfl
    rw [this]; unfold readPrepSt; exact ths_length_setTh ..
  have hreg : (decodeSt (readPrepSt s i) st).registry = s.registry := by
    unfold decodeSt; split <;> rfl
  have hqs : ((decodeSt (readPrepSt s i) st).th i).qStmts = st :: rest := by
    rw [hth]; unfold readPrepSt; rw [th_setTh]; split <;> exact hq
  unfold readOneSt moveSt
  apply h2.setTh
  · intro hi
    have h := h2.ths i hi
    have hqp := qpos_finishRead (decodeSt (readPrepSt s i) st).cfg ((decodeSt (readPrepSt s i) st).th i).q st.size
    simp only [qpos, QPos.mk.injEq] at hqp
    obtain ⟨q1, q2, q3⟩ := hqp
    refine ⟨?_, ?_, ?_, ?_⟩
    · show _ + stmtsSize rest = _
      rw [q1, q3]
      have := h.link
      rw [hqs] at this
      simp only [stmtsSize, List.map_cons, List.sum_cons] at this ⊢
      omega
    · rw [q2, q3]; exact h.wcom
    · intro x hx
      exact h.pos x (by rw [hqs]; exact List.mem_cons_of_mem _ hx)
    · show _ = _ ++ (_ ++ [st]) ++ rest
      rw [h.cons, hqs]; simp only [List.append_assoc, List.singleton_append]
  · intro hi hr
    rw [hlen] at hi
    rw [hreg] at hr
    have := (hs.unreg i hi hr).2
    rw [hq] at this; cases this

theorem TInv_reportSt {s : BSt} (hs : TInv s) (i : Nat) : TInv (reportSt s i) := by
  have : TInv (s.setTh i (fun t => { t with fail := 0 })) :=
    hs.setTh_q i _ rfl (fun _ => rfl) (fun _ => rfl) (fun _ => rfl) (fun _ => rfl)
  exact TInv_of_tview this rfl

theorem TInv_popSt {s : BSt} (hs : TInv s) (i : Nat) (st : Stmt) (rest : List Stmt)
    (hb : (s.th i).buf = st :: rest) : TInv (popSt s i st rest) := by
  have hpe : tview (processEvent s st).1 = tview s := tview_of_stripOut (processEvent_strip s st)
  have h2 : ∀ X : BSt, tview X = tview s →
      TInv ({ X.setTh i (fun t => { t with buf := rest, popped := t.popped ++ [st] }) with popLog := st :: X.popLog } : BSt) := by
    intro X hX
    have hXT : TInv X := TInv_of_tview hs hX
    have hXth : X.th i = s.th i := by
      simp only [tview, Prod.mk.injEq] at hX
      simp only [BSt.th, hX.2.1]
    have hXlen : X.ths.length = s.ths.length := by
      simp only [tview, Prod.mk.injEq] at hX; rw [hX.2.1]
    have hXreg : X.registry = s.registry := by
      simp only [tview, Prod.mk.injEq] at hX; exact hX.2.2.1
    refine TInv_of_tview (s := X.setTh i (fun t => { t with buf := rest, popped := t.popped ++ [st] })) ?_ rfl
    apply hXT.setTh
    · intro hi
      have h := hXT.ths i hi
      refine ⟨h.link, h.wcom, h.pos, ?_⟩
      show _ = (_ ++ [st]) ++ rest ++ _
      rw [h.cons, hXth, hb]; simp only [List.append_assoc, List.singleton_append]
    · intro hi hr
      rw [hXlen] at hi; rw [hXreg] at hr
      have := (hs.unreg i hi hr).1
      rw [hb] at this; cases this
  unfold popSt
  simp only []
  split
  · exact h2 _ hpe
  · exact h2 _ hpe

/-- the combined invariant: thread-context bookkeeping + per-thread queue/ghost bookkeeping -/
def TCInv (s : BSt) : Prop := CInv s ∧ TInv s

theorem TCInv_closed : Closed TCInv where
  front := fun s f h => ⟨CInv_closed.front s f h.1, TInv_front s f h.1 h.2⟩
  siteCnt := fun _ _ h => ⟨h.1, TInv_of_tview h.2 rfl⟩
  emitInj := fun _ _ _ _ _ h => ⟨h.1, TInv_of_tview h.2 rfl⟩
  note := fun _ h => ⟨h.1, TInv_of_tview h.2 rfl⟩
  clock := fun _ _ h => ⟨h.1, TInv_of_tview h.2 rfl⟩
  lastFlush := fun _ _ h => ⟨h.1, TInv_of_tview h.2 rfl⟩
  gone := fun _ h => ⟨h.1, TInv_of_tview h.2 rfl⟩
  refresh := fun s h => ⟨CInv_closed.refresh s h.1, TInv_refresh h.2⟩
  allEmpty := fun s h => ⟨CInv_closed.allEmpty s h.1, TInv_allEmpty h.2⟩
  hasPending := fun s h => ⟨CInv_closed.hasPending s h.1, TInv_hasPending h.2⟩
  cleanupContexts := fun s h => ⟨CInv_closed.cleanupContexts s h.1, TInv_cleanupContexts h.2⟩
  invFlag := fun s b h => ⟨CInv_closed.invFlag s b h.1, TInv_of_tview h.2 rfl⟩
  erase := fun s i h hv he => ⟨CInv_closed.erase s i h.1 hv he, TInv_of_tview (TInv_allEmpty h.2) rfl⟩
  reap := fun s sid h ha hr => ⟨CInv_closed.reap s sid h.1 ha hr, TInv_of_tview h.2 rfl⟩
  flagRemoval := fun s0 s f g h0 h he hf => ⟨CInv_closed.flagRemoval s0 s f g h0.1 h.1 he hf, TInv_of_tview h.2 rfl⟩
  flushSinks := fun s h => ⟨CInv_closed.flushSinks s h.1, TInv_of_tview h.2 (tview_of_stripOut (flushSinks_strip s))⟩
  readPrep := fun s i h => ⟨CInv_closed.readPrep s i h.1, TInv_readPrepSt h.2 i⟩
  commit := fun s i h => ⟨CInv_closed.commit s i h.1, TInv_commitSt h.2 i⟩
  readOne := fun s i st rest h hr hq => ⟨CInv_closed.readOne s i st rest h.1 hr hq, TInv_readOneSt h.2 i st rest hq⟩
  report := fun s i h hf => ⟨CInv_closed.report s i h.1 hf, TInv_reportSt h.2 i⟩
  pop := fun s i st rest h hl hb => ⟨CInv_closed.pop s i st rest h.1 hl hb, TInv_popSt h.2 i st rest hb⟩
  raise := fun s f h hg => ⟨CInv_closed.raise s f h.1 hg, TInv_of_tview h.2 rfl⟩

theorem TCInv_runOps (s0 : BSt) (h0 : TCInv s0) (ops : List Op) : TCInv (runOps s0 ops) :=
  runOps_closed TCInv_closed ops s0 h0

end Backend.PC
