import QuillModel.Backend.UPubInv
/-!
The failure counter of a context with an unbounded queue type is never read, reset or reported by the backend
(`_check_failure_counter` handles bounded queue types only): along every operation list of the U machine it equals the
number of ordinary log calls ever refused at the maximum capacity (`discarded` on a dropping build, `blockedCalls` on a
blocking one).
-/
namespace Backend.US
open Backend Spsc Backend.PA Backend.UQ

def Ctr (_ : Nat) (t : Th) : Prop := t.fail = t.discarded + t.blockedCalls

theorem uPrepareWrite_ctr (c : Cfg) (qmax : Nat) (t : Th) (n : Nat) :
    (uPrepareWrite c qmax t n).1.fail = t.fail ∧ (uPrepareWrite c qmax t n).1.discarded = t.discarded ∧
    (uPrepareWrite c qmax t n).1.blockedCalls = t.blockedCalls := by
  unfold uPrepareWrite
  dsimp only
  split
  · exact ⟨rfl, rfl, rfl⟩
  · split <;> exact ⟨rfl, rfl, rfl⟩

theorem uPrepareRead_ctr (c : Cfg) (t : Th) :
    (uPrepareRead c t).1.fail = t.fail ∧ (uPrepareRead c t).1.discarded = t.discarded ∧
    (uPrepareRead c t).1.blockedCalls = t.blockedCalls := by
  unfold uPrepareRead
  dsimp only
  split
  · exact ⟨rfl, rfl, rfl⟩
  · split
    · exact ⟨rfl, rfl, rfl⟩
    · split <;> exact ⟨rfl, rfl, rfl⟩

theorem uRead_ctr (c : Cfg) (follow : Bool) : ∀ (fuel : Nat) (t : Th),
    (uRead c follow fuel t).1.fail = t.fail ∧ (uRead c follow fuel t).1.discarded = t.discarded ∧
    (uRead c follow fuel t).1.blockedCalls = t.blockedCalls
  | 0, _ => ⟨rfl, rfl, rfl⟩
  | fuel + 1, t => by
    have h1 := uPrepareRead_ctr c t
    unfold uRead
    dsimp only
    split
    · have h2 := uRead_ctr c follow fuel (uPrepareRead c t).1
      exact ⟨h2.1.trans h1.1, h2.2.1.trans h1.2.1, h2.2.2.trans h1.2.2⟩
    · exact h1

theorem ctr_of {t t' : Th} (h : Ctr 0 t) (h1 : t'.fail = t.fail) (h2 : t'.discarded = t.discarded)
    (h3 : t'.blockedCalls = t.blockedCalls) : Ctr 0 t' := by
  unfold Ctr at *; rw [h1, h2, h3]; exact h

theorem ctr_closed (u : UP) : TClosed u Ctr where
  dflt := fun _ => rfl
  fresh := fun _ _ _ => rfl
  prepW := fun _ c t n _ h => by
    obtain ⟨a, b, d⟩ := uPrepareWrite_ctr c u.qmax t n
    exact ctr_of h a b d
  enq := fun _ c t st _ _ h => by
    obtain ⟨a, b, d⟩ := uPrepareWrite_ctr c u.qmax t st.size
    exact ctr_of h a b d
  shrink := fun _ c t w _ h => by
    unfold uShrink
    split
    · exact h
    · exact h
  bump := fun _ t d1 d2 hd h => by
    unfold Ctr at *
    show t.fail + 1 = t.discarded + d1 + (t.blockedCalls + d2)
    omega
  inval := fun _ _ h => h

variable {u : UP} {c : Cfg}

theorem ctr_closedR (u : UP) (c : Cfg) : ClosedR u (GI Ctr c) where
  aux := fun _ _ h h1 h2 h3 => h.aux h1 h2 h3
  readT := fun s i h => h.setTh i _ (fun ht => (uRead_spec s.cfg u.follow _ _ ht (by omega)).ti ht)
    (fun _ hT => by obtain ⟨a, b, d⟩ := uRead_ctr s.cfg u.follow ((s.th i).more.length + 1) (s.th i); exact ctr_of hT a b d)
  commitT := fun s i h => h.setTh i _ (fun ht => ht.commitRead s.cfg) (fun _ hT => hT)
  readStep := fun s i st rest h hq ho => by
    have hsR : GI Ctr c (s.setTh i (fun t => (uRead s.cfg u.follow (t.more.length + 1) t).1)) :=
      h.setTh i _ (fun ht => (uRead_spec s.cfg u.follow _ _ ht (by omega)).ti ht)
        (fun _ hT => by obtain ⟨a, b, d⟩ := uRead_ctr s.cfg u.follow ((s.th i).more.length + 1) (s.th i); exact ctr_of hT a b d)
    refine ⟨h.ui.readStep u i st rest hq ho, fun j => ?_, ?_⟩
    · rw [readOneU_th]
      split
      · exact ctr_of (hsR.t j) rfl rfl rfl
      · exact hsR.t j
    · unfold readOneU; dsimp only; split <;> exact h.cfg

theorem ctr_closedU (u : UP) (c : Cfg) : ClosedU u (GI Ctr c) where
  aux := fun _ _ h h1 h2 h3 => h.aux h1 h2 h3
  emptyT := fun s i h => h.setTh i _ (fun ht => ht.emptyTest s.cfg) (fun _ hT => hT)
  dropT := fun _ i h => h.setTh i _ (fun ht => ht.same rfl rfl rfl rfl rfl rfl) (fun _ hT => hT)
  popT := fun _ i st rest h hb => h.setTh i _ (fun ht => ht.pop st rest hb) (fun _ hT => hT)
  front := fun _ f h => h.frontU (ctr_closed u) f
  readQ := fun table tsNow i qcap0 fuel s h =>
    readQ_of_steps (ctr_closedR u c) (runInjU u table) (fun s k hs => GI.runInjU (ctr_closed u) table s k hs)
      tsNow i qcap0 fuel 0 s h

end Backend.US
