import QuillModel.Backend.OrdInv
/-!
Frontend operations preserve the ordering invariant `PI` (for every cut-off, every set of unread contexts).
-/
namespace Backend.PB
open Backend

variable {c : Cfg} {ex : Option Nat} {fl : Nat} {T : Nat → Prop} {C : List Nat} {s : BSt}

theorem PI.tick (h : PI c ex fl T C s) (dt : Nat) : PI c ex fl T C { s with now := s.now + dt } :=
  { h with
    floorNow := Nat.le_trans h.floorNow (Nat.sub_le_sub_right (Nat.le_add_right _ _) _)
    leNow := fun i st hst => Nat.le_trans (h.leNow i st hst) (Nat.le_add_right _ _)
    pend := fun a x st hx hex hp =>
      let ⟨h1, h2, h3⟩ := h.pend a x st hx hex hp
      ⟨Nat.le_trans h1 (Nat.le_add_right _ _), h2, h3⟩
    ord := fun hg0 hr0 hp => (h.ord hg0 hr0 hp).cast rfl (fun _ => rfl) rfl }

theorem actor_setActor_cases {s : BSt} {a b : Nat} {g : Actor → Actor} {x' : Actor}
    (hid : ∀ x, (g x).id = x.id) (hal : ∀ x, (g x).alive = x.alive)
    (h : (s.setActor a g).actor b = some x') :
    (b ≠ a ∧ s.actor b = some x') ∨ (b = a ∧ ∃ x, s.actor a = some x ∧ x' = g x) := by
  by_cases hb : b = a
  · subst hb
    rw [actor_setActor_same s b g hid hal] at h
    cases hx : s.actor b with
    | none => rw [hx] at h; simp at h
    | some x => rw [hx] at h; right; exact ⟨rfl, x, rfl, by simpa using h.symm⟩
  · rw [actor_setActor_ne s g hid hb] at h; left; exact ⟨hb, h⟩

/-- an actor update that keeps identity, liveness and context; `hp`: the new parked statement (if any) is fine -/
theorem PI.setActor {ex' : Option Nat} (h : PI c ex fl T C s) (a : Nat) (g : Actor → Actor)
    (hid : ∀ x, (g x).id = x.id) (hal : ∀ x, (g x).alive = x.alive) (hctx : ∀ x, (g x).ctx = x.ctx)
    (hex : ∀ b, b ≠ a → some b ≠ ex' → some b ≠ ex)
    (hp : ∀ x st, s.actor a = some x → some a ≠ ex' → isPendOf (g x).pend st →
          st.ts ≤ s.now ∧ 0 < st.size ∧ ∀ i, x.ctx = some i → ∀ r ∈ chain (s.th i), r.ts ≤ st.ts) :
    PI c ex' fl T C (s.setActor a g) :=
  { h with
    ctxLt := fun b x' i hx hi => by
      rcases actor_setActor_cases hid hal hx with ⟨_, h1⟩ | ⟨rfl, x, h1, rfl⟩
      · exact h.ctxLt b x' i h1 hi
      · rw [hctx] at hi; exact h.ctxLt b x i h1 hi
    ctxReg := fun b x' i hx hi => by
      rcases actor_setActor_cases hid hal hx with ⟨_, h1⟩ | ⟨rfl, x, h1, rfl⟩
      · exact h.ctxReg b x' i h1 hi
      · rw [hctx] at hi; exact h.ctxReg b x i h1 hi
    ctxInj := fun b c x' y' i hx hy hxi hyi => by
      rcases actor_setActor_cases hid hal hx with ⟨_, h1⟩ | ⟨rfl, x, h1, rfl⟩ <;>
      rcases actor_setActor_cases hid hal hy with ⟨_, h2⟩ | ⟨rfl, y, h2, rfl⟩
      · exact h.ctxInj b c x' y' i h1 h2 hxi hyi
      · rw [hctx] at hyi; exact h.ctxInj b c x' y i h1 h2 hxi hyi
      · rw [hctx] at hxi; exact h.ctxInj b c x y' i h1 h2 hxi hyi
      · rfl
    pend := fun b x' st hx hb hpd => by
      rcases actor_setActor_cases hid hal hx with ⟨hne, h1⟩ | ⟨rfl, x, h1, rfl⟩
      · exact h.pend b x' st h1 (hex b hne hb) hpd
      · obtain ⟨p1, p2, p3⟩ := hp x st h1 hb hpd
        exact ⟨p1, p2, fun i hi => p3 i (by rw [hctx] at hi; exact hi)⟩
    ord := fun hg0 hr0 hp => (h.ord hg0 hr0 hp).cast rfl (fun _ => rfl) rfl }

/-- updates that do not touch the parked statement -/
theorem PI.setActor_keep (h : PI c ex fl T C s) (a : Nat) (g : Actor → Actor)
    (hid : ∀ x, (g x).id = x.id) (hal : ∀ x, (g x).alive = x.alive) (hctx : ∀ x, (g x).ctx = x.ctx)
    (hpe : ∀ x, (g x).pend = x.pend) : PI c ex fl T C (s.setActor a g) :=
  h.setActor a g hid hal hctx (fun _ _ hb => hb) (fun x st hx hb hpd => h.pend a x st hx hb (by rw [hpe] at hpd; exact hpd))

/-- updates that leave the actor with no parked statement -/
theorem PI.setActor_clear {a : Nat} (h : PI c (some a) fl T C s) (g : Actor → Actor)
    (hid : ∀ x, (g x).id = x.id) (hal : ∀ x, (g x).alive = x.alive) (hctx : ∀ x, (g x).ctx = x.ctx)
    (hpe : ∀ x st, ¬ isPendOf (g x).pend st) : PI c none fl T C (s.setActor a g) :=
  h.setActor a g hid hal hctx (fun b hne _ hh => hne (Option.some.inj hh)) (fun x st _ _ hpd => absurd hpd (hpe x st))

theorem PI.setActor_clear' {a : Nat} (h : PI c none fl T C s) (g : Actor → Actor)
    (hid : ∀ x, (g x).id = x.id) (hal : ∀ x, (g x).alive = x.alive) (hctx : ∀ x, (g x).ctx = x.ctx)
    (hpe : ∀ x st, ¬ isPendOf (g x).pend st) : PI c none fl T C (s.setActor a g) :=
  (h.unex (a := a)).setActor_clear g hid hal hctx hpe

/-- the actor's thread ends: it disappears from view -/
theorem PI.killActor (h : PI c ex fl T C s) (a : Nat) (g : Actor → Actor)
    (hid : ∀ x, (g x).id = x.id) (hal : ∀ x, (g x).alive = false) : PI c ex fl T C (s.setActor a g) := by
  have key : ∀ b x', (s.setActor a g).actor b = some x' → b ≠ a ∧ s.actor b = some x' := by
    intro b x' hx
    by_cases hb : b = a
    · subst hb; rw [actor_setActor_kill s b g hal] at hx; simp at hx
    · rw [actor_setActor_ne s g hid hb] at hx; exact ⟨hb, hx⟩
  exact { h with
    ctxLt := fun b x' i hx hi => h.ctxLt b x' i (key b x' hx).2 hi
    ctxReg := fun b x' i hx hi => h.ctxReg b x' i (key b x' hx).2 hi
    ctxInj := fun b c x' y' i hx hy hxi hyi => h.ctxInj b c x' y' i (key b x' hx).2 (key c y' hy).2 hxi hyi
    pend := fun b x' st hx hb hpd => h.pend b x' st (key b x' hx).2 hb hpd
    ord := fun hg0 hr0 hp => (h.ord hg0 hr0 hp).cast rfl (fun _ => rfl) rfl }

theorem PI.addActor (h : PI c ex fl T C s) (a : Nat) (ha : s.actor a = none) :
    PI c ex fl T C { s with actors := s.actors ++ [{ id := a }] } := by
  have key : ∀ b x', ({ s with actors := s.actors ++ [{ id := a }] } : BSt).actor b = some x' →
      s.actor b = some x' ∨ (x'.ctx = none ∧ x'.pend = .none) := by
    intro b x' hx
    rw [actor_append s a b ha] at hx
    by_cases hb : b = a
    · rw [if_pos hb] at hx; right; cases hx; exact ⟨rfl, rfl⟩
    · rw [if_neg hb] at hx; left; exact hx
  exact { h with
    ctxLt := fun b x' i hx hi => by
      rcases key b x' hx with h1 | ⟨h1, _⟩
      · exact h.ctxLt b x' i h1 hi
      · rw [h1] at hi; cases hi
    ctxReg := fun b x' i hx hi => by
      rcases key b x' hx with h1 | ⟨h1, _⟩
      · exact h.ctxReg b x' i h1 hi
      · rw [h1] at hi; cases hi
    ctxInj := fun b c x' y' i hx hy hxi hyi => by
      rcases key b x' hx with h1 | ⟨h1, _⟩
      · rcases key c y' hy with h2 | ⟨h2, _⟩
        · exact h.ctxInj b c x' y' i h1 h2 hxi hyi
        · rw [h2] at hyi; cases hyi
      · rw [h1] at hxi; cases hxi
    pend := fun b x' st hx hb hpd => by
      rcases key b x' hx with h1 | ⟨_, h1⟩
      · exact h.pend b x' st h1 hb hpd
      · rw [h1] at hpd; obtain ⟨c, hc | hc⟩ := hpd <;> cases hc
    ord := fun hg0 hr0 hp => (h.ord hg0 hr0 hp).cast rfl (fun _ => rfl) rfl }

end Backend.PB

namespace Backend.PB
open Backend

variable {c : Cfg} {ex : Option Nat} {fl : Nat} {T : Nat → Prop} {C : List Nat} {s : BSt}

theorem chain_mkTh (c : Cfg) (a : Nat) : chain (mkTh c a) = [] := rfl

theorem qc_mkTh (c : Cfg) (a : Nat) : QC (mkTh c a) := ⟨rfl, rfl, (fun _ h => by cases h), ⟨0, Nat.zero_le _, rfl⟩⟩

theorem qc_default : QC (default : Th) := ⟨rfl, rfl, (fun _ h => by cases h), ⟨0, Nat.zero_le _, rfl⟩⟩

/-- `get_local_thread_context`: the context of `a` exists afterwards, is `a`'s alone, and is empty if new -/
theorem PI.ensureCtx (h : PI c ex fl T C s) (a : Nat) (x : Actor) (hx : s.actor a = some x) :
    PI c ex fl T C (ensureCtx s a).1 ∧ (ensureCtx s a).1.now = s.now ∧ (ensureCtx s a).1.cfg = s.cfg ∧
    ∃ x', (ensureCtx s a).1.actor a = some x' ∧ x'.ctx = some (ensureCtx s a).2 ∧ x'.pend = x.pend ∧
      ∀ r ∈ chain ((ensureCtx s a).1.th (ensureCtx s a).2), ∃ i, x.ctx = some i ∧ r ∈ chain (s.th i) := by
  unfold Backend.ensureCtx
  simp only [hx, Option.bind_some]
  cases hc : x.ctx with
  | some i => exact ⟨h, rfl, rfl, x, hx, hc, rfl, fun r hr => ⟨i, rfl, hr⟩⟩
  | none =>
    simp only
    generalize hn : s.ths.length = n
    let sA : BSt := { s with ths := s.ths ++ [mkTh s.cfg a], registry := s.registry ++ [n], newFlag := true }
    let g : Actor → Actor := fun x => { x with ctx := some n }
    have hth : ∀ j, (sA.setActor a g).th j = if j = n then mkTh s.cfg a else s.th j := by
      intro j; rw [← hn]; exact th_append s _ j
    have hid : ∀ y, (g y).id = y.id := fun _ => rfl
    have hal : ∀ y, (g y).alive = y.alive := fun _ => rfl
    have hact : ∀ b x', (sA.setActor a g).actor b = some x' →
        (b ≠ a ∧ s.actor b = some x') ∨ (b = a ∧ x' = g x) := by
      intro b x' hb
      rcases actor_setActor_cases hid hal hb with ⟨h1, h2⟩ | ⟨h1, x0, h2, h3⟩
      · exact Or.inl ⟨h1, h2⟩
      · right; refine ⟨h1, ?_⟩
        have : s.actor a = some x0 := h2
        rw [hx] at this; cases this; exact h3
    have hprem : PremI (sA.setActor a g) → PremI s := by
      intro hp j st hst
      have := hp j st
      rw [hth] at this
      by_cases hj : j = n
      · rw [th_lt_or_default s j (by omega)] at hst; cases hst
      · rw [if_neg hj] at this; exact this hst
    refine ⟨?_, rfl, rfl, g x, ?_, rfl, rfl, ?_⟩
    · exact {
        cfgEq := h.cfgEq
        hdr := h.hdr
        floorNow := h.floorNow
        cacheEq := h.cacheEq
        sorted := fun j => by
          rw [hth]; split
          · rw [chain_mkTh]; exact List.Pairwise.nil
          · exact h.sorted j
        leNow := fun j => by
          rw [hth]; split
          · rw [chain_mkTh]; intro st hst; cases hst
          · exact h.leNow j
        qc := fun j => by
          rw [hth]; split
          · exact qc_mkTh _ _
          · exact h.qc j
        reg := fun j => by
          rw [hth]; split
          · intro hc; exact absurd (chain_mkTh _ _) hc
          · intro hc; exact List.mem_append_left _ (h.reg j hc)
        bufCache := fun j hjr => by
          rw [hth]; split
          · intro hb; exact absurd rfl hb
          · rename_i hne
            refine h.bufCache j ?_
            rcases List.mem_append.mp hjr with h1 | h1
            · exact h1
            · simp at h1; exact absurd h1 hne
        cacheReg := fun i hi => List.mem_append_left _ (h.cacheReg i hi)
        fresh := fun hf => by cases hf
        ctxLt := fun b x' i hb hi => by
          show i < (s.ths ++ [mkTh s.cfg a]).length
          rw [List.length_append, hn]
          rcases hact b x' hb with ⟨_, h2⟩ | ⟨_, rfl⟩
          · have := h.ctxLt b x' i h2 hi; simp; omega
          · cases hi; simp
        ctxReg := fun b x' i hb hi => by
          rcases hact b x' hb with ⟨_, h2⟩ | ⟨_, rfl⟩
          · obtain ⟨r1, r2⟩ := h.ctxReg b x' i h2 hi
            have := h.ctxLt b x' i h2 hi
            refine ⟨List.mem_append_left _ r1, ?_⟩
            rw [hth, if_neg (by omega)]; exact r2
          · cases hi
            refine ⟨List.mem_append_right _ (List.mem_singleton.mpr rfl), ?_⟩
            rw [hth, if_pos rfl]; rfl
        ctxInj := fun b c x' y' i hb hcc hxi hyi => by
          rcases hact b x' hb with ⟨_, h1⟩ | ⟨rfl, rfl⟩ <;> rcases hact c y' hcc with ⟨_, h2⟩ | ⟨rfl, rfl⟩
          · exact h.ctxInj b c x' y' i h1 h2 hxi hyi
          · cases hyi; have := h.ctxLt b x' n h1 hxi; omega
          · cases hxi; have := h.ctxLt c y' n h2 hyi; omega
          · rfl
        pend := fun b x' st hb hbe hpd => by
          rcases hact b x' hb with ⟨_, h1⟩ | ⟨rfl, rfl⟩
          · obtain ⟨p1, p2, p3⟩ := h.pend b x' st h1 hbe hpd
            refine ⟨p1, p2, fun i hi => ?_⟩
            have := h.ctxLt b x' i h1 hi
            rw [hth, if_neg (by omega)]; exact p3 i hi
          · obtain ⟨p1, p2, _⟩ := h.pend b x st hx hbe hpd
            refine ⟨p1, p2, fun i hi => ?_⟩
            cases hi
            rw [hth, if_pos rfl, chain_mkTh]; intro r hr; cases hr
        capOK := fun j hj => by
          rw [hth]; split
          · rfl
          · rename_i hne
            refine h.capOK j ?_
            have : j < (s.ths ++ [mkTh s.cfg a]).length := hj
            rw [List.length_append, hn] at this; simp at this; omega
        ord := fun hg0 hr0 hp => by
          have o := h.ord hg0 hr0 (hprem hp)
          exact {
            popSorted := o.popSorted
            above := fun p hpp i _ => by
              rw [hth]; split
              · rw [chain_mkTh]; intro st hst; cases hst
              · rename_i hne
                intro st hst
                by_cases hi : i ∈ s.registry
                · exact o.above p hpp i hi st hst
                · exfalso
                  have : i ∈ s.registry ++ [n] := by assumption
                  rcases List.mem_append.mp this with h1 | h1
                  · exact hi h1
                  · simp at h1; exact hne h1
            popFloor := o.popFloor
            bufFloor := fun i => by
              rw [hth]; split
              · intro st hst; cases hst
              · exact o.bufFloor i
            late := fun i hir => by
              rw [hth]; split
              · intro _ _ st hst; cases hst
              · rename_i hne
                have : i ∈ s.registry := by
                  rcases List.mem_append.mp hir with h1 | h1
                  · exact h1
                  · simp at h1; exact absurd h1 hne
                exact o.late i this } }
    · have : (sA.setActor a g).actor a = (sA.actor a).map g := actor_setActor_same sA a g hid hal
      rw [this]; show (s.actor a).map g = _; rw [hx]; rfl
    · intro r hr
      have : (sA.setActor a g).th n = mkTh s.cfg a := by rw [hth, if_pos rfl]
      rw [this, chain_mkTh] at hr; cases hr

/-- a record is committed to the queue of `a`'s context -/
theorem PI.enq {a : Nat} (h : PI c (some a) fl T C s) (x : Actor) (hx : s.actor a = some x) (ci : Nat)
    (hctx : x.ctx = some ci) (st : Stmt) (hts : st.ts ≤ s.now) (hsz : 0 < st.size) (henq : st.enqAt = s.now)
    (hfit : ∀ r ∈ chain (s.th ci), r.ts ≤ st.ts) (f : Th → Th)
    (hf : ∀ t, t = s.th ci → (f t).buf = t.buf ∧ (f t).qStmts = t.qStmts ++ [st] ∧ (f t).accepted = t.accepted ++ [st] ∧
      (f t).q.wpos = t.q.wpos + st.size ∧ (f t).q.wHist.headD 0 = t.q.wpos + st.size ∧ (f t).q.rpos = t.q.rpos ∧
      (f t).valid = t.valid ∧ (f t).q.wcache = t.q.wcache ∧ (f t).q.cap = t.q.cap) :
    PI c (some a) fl T C (s.setTh ci f) := by
  have hf := hf _ rfl
  have hchain : chain (f (s.th ci)) = chain (s.th ci) ++ [st] := by
    simp only [chain, hf.1, hf.2.1, List.append_assoc]
  have hcases : ∀ j, (s.setTh ci f).th j = s.th j ∨ (j = ci ∧ (s.setTh ci f).th j = f (s.th ci)) := by
    intro j; rcases th_setTh_cases s ci j f with h1 | ⟨h1, _, h2⟩
    · exact Or.inl h1
    · exact Or.inr ⟨h1, h2⟩
  have hprem : PremI (s.setTh ci f) → PremI s ∧ s.now ≤ st.ts + s.cfg.grace := by
    intro hp
    have hlt := h.ctxLt a x ci hx hctx
    refine ⟨fun j r hr => ?_, ?_⟩
    · have := hp j r
      rcases hcases j with h1 | ⟨rfl, h1⟩
      · rw [h1] at this; exact this hr
      · rw [h1, hf.2.2.1] at this; exact this (List.mem_append_left _ hr)
    · have := hp ci st
      rw [th_setTh_same s f hlt, hf.2.2.1, henq] at this
      exact this (List.mem_append_right _ (List.mem_singleton.mpr rfl))
  exact { h with
    sorted := fun j => by
      rcases hcases j with h1 | ⟨rfl, h1⟩
      · rw [h1]; exact h.sorted j
      · rw [h1, hchain]
        refine List.pairwise_append.mpr ⟨h.sorted j, List.pairwise_singleton _ _, fun r hr b hb => ?_⟩
        rw [List.mem_singleton.mp hb]; exact hfit r hr
    leNow := fun j => by
      rcases hcases j with h1 | ⟨rfl, h1⟩
      · rw [h1]; exact h.leNow j
      · rw [h1, hchain]; intro r hr
        rcases List.mem_append.mp hr with h2 | h2
        · exact h.leNow j r h2
        · rw [List.mem_singleton.mp h2]; exact hts
    qc := fun j => by
      rcases hcases j with h1 | ⟨rfl, h1⟩
      · rw [h1]; exact h.qc j
      · rw [h1]
        have q0 := h.qc j
        obtain ⟨_, f2, _, f4, f5, f6, _, f8, _⟩ := hf
        refine ⟨by rw [f4, f5], ?_, ?_, ?_⟩
        · rw [f5, f6, f2, List.map_append, List.sum_append, q0.wpos, q0.sum]; simp; omega
        · rw [f2]; intro r hr
          rcases List.mem_append.mp hr with h2 | h2
          · exact q0.pos r h2
          · rw [List.mem_singleton.mp h2]; exact hsz
        · obtain ⟨k, hk, hw⟩ := q0.wc
          refine ⟨k, by rw [f2, List.length_append]; omega, ?_⟩
          rw [f8, f6, f2, List.take_append_of_le_length hk]; exact hw
    reg := fun j => by
      rcases hcases j with h1 | ⟨rfl, h1⟩
      · rw [h1]; exact h.reg j
      · intro _; exact (h.ctxReg a x j hx hctx).1
    bufCache := fun j hjr => by
      rcases hcases j with h1 | ⟨rfl, h1⟩
      · rw [h1]; exact h.bufCache j hjr
      · rw [h1, hf.1]; exact h.bufCache j hjr
    ctxReg := fun b y i hy hi => by
      obtain ⟨r1, r2⟩ := h.ctxReg b y i hy hi
      refine ⟨r1, ?_⟩
      rcases hcases i with h1 | ⟨rfl, h1⟩
      · rw [h1]; exact r2
      · rw [h1, hf.2.2.2.2.2.2.1]; exact r2
    ctxLt := fun b y i hy hi => by rw [length_setTh]; exact h.ctxLt b y i hy hi
    capOK := fun j hj => by
      rw [length_setTh] at hj
      rcases hcases j with h1 | ⟨rfl, h1⟩
      · rw [h1]; exact h.capOK j hj
      · rw [h1, hf.2.2.2.2.2.2.2.2]; exact h.capOK j hj
    pend := fun b y r hy hb hpd => by
      obtain ⟨p1, p2, p3⟩ := h.pend b y r hy hb hpd
      refine ⟨p1, p2, fun i hi => ?_⟩
      rcases hcases i with h1 | ⟨rfl, _⟩
      · rw [h1]; exact p3 i hi
      · exfalso; exact hb (by rw [h.ctxInj b a y x i hy hx hi hctx])
    ord := fun hg0 hr0 hp => by
      obtain ⟨hp0, hgood⟩ := hprem hp
      have o := h.ord hg0 hr0 hp0
      have hfl : fl ≤ st.ts := by have := h.floorNow; omega
      exact {
        popSorted := o.popSorted
        above := fun p hpp j hj => by
          rcases hcases j with h1 | ⟨rfl, h1⟩
          · rw [h1]; exact o.above p hpp j hj
          · rw [h1, hchain]; intro r hr
            rcases List.mem_append.mp hr with h2 | h2
            · exact o.above p hpp j hj r h2
            · rw [List.mem_singleton.mp h2]; exact Nat.le_trans (o.popFloor p hpp) hfl
        popFloor := o.popFloor
        bufFloor := fun j => by
          rcases hcases j with h1 | ⟨rfl, h1⟩
          · rw [h1]; exact o.bufFloor j
          · rw [h1, hf.1]; exact o.bufFloor j
        late := fun j hj hT => by
          rcases hcases j with h1 | ⟨rfl, h1⟩
          · rw [h1]; exact o.late j hj hT
          · rw [h1, hf.1, hf.2.1]; intro hb r hr
            rcases List.mem_append.mp hr with h2 | h2
            · exact o.late j hj hT hb r h2
            · rw [List.mem_singleton.mp h2]; exact hfl } }

theorem PI.tryEnq {a : Nat} (h : PI c (some a) fl T C s) (x : Actor) (hx : s.actor a = some x) (ci : Nat)
    (hctx : x.ctx = some ci) (st : Stmt) (hts : st.ts ≤ s.now) (hsz : 0 < st.size)
    (hfit : ∀ r ∈ chain (s.th ci), r.ts ≤ st.ts) :
    PI c (some a) fl T C (tryEnq s ci st).1 ∧ (tryEnq s ci st).1.now = s.now ∧ (tryEnq s ci st).1.cfg = s.cfg ∧
    (∀ b, (tryEnq s ci st).1.actor b = s.actor b) ∧
    ((tryEnq s ci st).2 = false → ∀ i, chain ((tryEnq s ci st).1.th i) = chain (s.th i)) := by
  unfold Backend.tryEnq
  simp only
  have f2 := qPrepareWrite_fields s.cfg (s.th ci).q st.size
  split
  · refine ⟨?_, rfl, rfl, fun _ => rfl, fun hh => by cases hh⟩
    apply h.enq x hx ci hctx { st with enqAt := s.now } hts hsz rfl hfit
    intro t ht
    have f1 := qFinishCommit_fields s.cfg (qPrepareWrite s.cfg (s.th ci).q st.size).1 st.size
    refine ⟨rfl, rfl, rfl, ?_, ?_, ?_, rfl, ?_, ?_⟩
    · show (qFinishCommit _ _ _).wpos = _; rw [f1.1, f2.1, ht]
    · show (qFinishCommit _ _ _).wHist.headD 0 = _; rw [f1.2.1, f2.1, ht]; rfl
    · show (qFinishCommit _ _ _).rpos = _; rw [f1.2.2.1, f2.2.2.1, ht]
    · show (qFinishCommit _ _ _).wcache = _; rw [f1.2.2.2.1, f2.2.2.2.1, ht]
    · show (qFinishCommit _ _ _).cap = _; rw [f1.2.2.2.2, f2.2.2.2.2, ht]
  · have hf : ThEq (s.th ci) ((fun t : Th => { t with q := (qPrepareWrite s.cfg (s.th ci).q st.size).1 }) (s.th ci)) :=
      ThEq.ofQ' _ _ f2
    exact ⟨h.setTh_frame ci _ hf, rfl, rfl, fun _ => rfl, fun _ i => chain_setTh_frame s ci _ hf i⟩

theorem not_pend_none (st : Stmt) : ¬ isPendOf Pend.none st := by
  rintro ⟨c, h | h⟩ <;> cases h
theorem not_pend_flag (f : Nat) (st : Stmt) : ¬ isPendOf (Pend.flag f) st := by
  rintro ⟨c, h | h⟩ <;> cases h

theorem PI.afterEnq (h : PI c none fl T C s) (a : Nat) (st : Stmt) (cont : Nat) :
    PI c none fl T C (afterEnq s a st cont).1 := by
  unfold Backend.afterEnq
  split
  · refine h.setActor_clear' _ (fun _ => rfl) (fun _ => rfl) (fun _ => rfl) ?_
    intro _ st; exact not_pend_flag _ st
  · exact h.frame rfl
  · exact h
  · dsimp only
    refine PI.setActor_clear' ?_ _ (fun _ => rfl) (fun _ => rfl) (fun _ => rfl) ?_
    · exact h.frame rfl
    · intro _ st; exact not_pend_flag _ st
  · exact h

theorem PI.enqFlow (h : PI c none fl T C s) (a : Nat) (x : Actor) (hx : s.actor a = some x) (st : Stmt)
    (cont : Nat) (first initial : Bool) (hts : st.ts ≤ s.now) (hsz : 0 < st.size)
    (hfit : ∀ i, x.ctx = some i → ∀ r ∈ chain (s.th i), r.ts ≤ st.ts) :
    PI c none fl T C (enqFlow s a st cont first initial).1 := by
  obtain ⟨h1, hnow1, hcfg1, x1, hx1, hc1, _, hch1⟩ := h.ensureCtx a x hx
  rcases he : Backend.ensureCtx s a with ⟨s1, ci⟩
  rw [he] at h1 hnow1 hcfg1 hx1 hc1 hch1
  simp only at h1 hnow1 hcfg1 hx1 hc1 hch1
  have hfit1 : ∀ r ∈ chain (s1.th ci), r.ts ≤ st.ts := by
    intro r hr; obtain ⟨i, hi, hr'⟩ := hch1 r hr; exact hfit i hi r hr'
  obtain ⟨h2, hnow2, hcfg2, hact2, hfail2⟩ :=
    (h1.unex (a := a)).tryEnq x1 hx1 ci hc1 st (by rw [hnow1]; exact hts) hsz hfit1
  rcases ht : Backend.tryEnq s1 ci st with ⟨s2, ok⟩
  rw [ht] at h2 hnow2 hcfg2 hact2 hfail2
  simp only at h2 hnow2 hcfg2 hact2 hfail2
  unfold Backend.enqFlow
  simp only [he, ht]
  have hbump : ∀ (y : BSt) (g : Th → Th), PI c (some a) fl T C y → (∀ t, ThEq t (g t)) →
      PI c (some a) fl T C (if isLogKind st.kind = true then y.setTh ci g else y) := by
    intro y g hy hg; split
    · exact hy.setTh_frame ci g (hg _)
    · exact hy
  cases ok with
  | true =>
    simp only [if_true]
    apply PI.afterEnq
    refine h2.setActor_clear _ (fun _ => rfl) (fun _ => rfl) (fun _ => rfl) ?_
    intro _ st; exact not_pend_none st
  | false =>
    let Q : BSt → Prop := fun y => PI c (some a) fl T C y ∧ y.now = s.now ∧ y.actor a = some x1 ∧
      ∀ i, chain (y.th i) = chain (s1.th i)
    have hQ2 : Q s2 := ⟨h2, by rw [hnow2, hnow1], by rw [hact2]; exact hx1, hfail2 rfl⟩
    have hQb : ∀ y g, Q y → (∀ t, ThEq t (g t)) → Q (if isLogKind st.kind = true then y.setTh ci g else y) := by
      intro y g hy hg; split
      · exact ⟨hy.1.setTh_frame ci g (hg _), hy.2.1, hy.2.2.1,
          fun i => by rw [chain_setTh_frame y ci g (hg _) i]; exact hy.2.2.2 i⟩
      · exact hy
    have hretry : ∀ y, Q y → PI c none fl T C (y.setActor a (fun x => { x with pend := .retry st cont })) := by
      intro y hy
      refine hy.1.setActor a _ (fun _ => rfl) (fun _ => rfl) (fun _ => rfl)
        (fun b hne _ hh => hne (Option.some.inj hh)) ?_
      intro x3 st' hx3 _ hpd
      have : x3 = x1 := by rw [hy.2.2.1] at hx3; exact (Option.some.inj hx3).symm
      subst this
      have : st' = st := by
        obtain ⟨c, hc | hc⟩ := hpd
        · cases hc
        · simp only [Pend.retry.injEq] at hc; exact hc.1.symm
      subst this
      refine ⟨by rw [hy.2.1]; exact hts, hsz, fun i hi => ?_⟩
      rw [hc1] at hi; cases hi
      rw [hy.2.2.2]; exact hfit1
    have hnone : ∀ y, Q y → PI c none fl T C (y.setActor a (fun x => { x with pend := .none })) := by
      intro y hy
      refine hy.1.setActor_clear _ (fun _ => rfl) (fun _ => rfl) (fun _ => rfl) ?_
      intro _ st; exact not_pend_none st
    simp only [Bool.false_eq_true, if_false]
    split
    · split
      · exact hnone _ (hQb _ _ hQ2 (fun t => ⟨rfl, rfl, rfl, rfl, rfl, rfl, rfl, .inl rfl, rfl⟩))
      · exact hretry _ (hQb _ _ hQ2 (fun t => ⟨rfl, rfl, rfl, rfl, rfl, rfl, rfl, .inl rfl, rfl⟩))
    · apply hretry
      split
      · exact hQb _ _ hQ2 (fun t => ⟨rfl, rfl, rfl, rfl, rfl, rfl, rfl, .inl rfl, rfl⟩)
      · exact hQ2

theorem stmtSize_pos (c : Cfg) (hc : 0 < c.hdr) (k : Kind) (id len : Nat) (dyn : Bool) (gid : Nat) :
    0 < stmtSize c k id len dyn gid := by
  cases k <;> simp only [stmtSize] <;> omega

theorem PI.frontCall (h : PI c none fl T C s) (a : Nat) (x : Actor) (hx : s.actor a = some x) (lgi : Nat) (kind : Kind)
    (lvl len cont : Nat) (dyn : Bool) (id : Nat) (named : Bool) :
    PI c none fl T C (frontCall s a lgi kind lvl len cont dyn id named).1 := by
  unfold Backend.frontCall
  simp only
  have hsz := stmtSize_pos s.cfg h.hdr kind id len dyn (s.lgOf lgi).gid
  split
  · refine h.setActor a _ (fun _ => rfl) (fun _ => rfl) (fun _ => rfl) (fun _ _ hb => hb) ?_
    intro x3 st' hx3 _ hpd
    obtain ⟨c, hc | hc⟩ := hpd
    · simp only [Pend.stall.injEq] at hc
      obtain ⟨rfl, _⟩ := hc
      exact ⟨Nat.le_refl _, hsz, fun i _ r hr => h.leNow i r hr⟩
    · cases hc
  · exact h.enqFlow a x hx _ cont true true (Nat.le_refl _) hsz (fun i _ r hr => h.leNow i r hr)

theorem PI.resume (h : PI c none fl T C s) (a : Nat) : PI c none fl T C (resume s a).1 := by
  unfold Backend.resume
  cases hx : s.actor a with
  | none => exact h
  | some x =>
    simp only [Option.map_some]
    cases hp : x.pend with
    | none => exact h
    | stall st cont =>
      obtain ⟨p1, p2, p3⟩ := h.pend a x st hx (by simp) ⟨cont, Or.inl hp⟩
      exact h.enqFlow a x hx st cont true false p1 p2 p3
    | retry st cont =>
      obtain ⟨p1, p2, p3⟩ := h.pend a x st hx (by simp) ⟨cont, Or.inr hp⟩
      simp only
      split
      · exact h.enqFlow a x hx { st with ts := s.now } cont true false (Nat.le_refl _) p2
          (fun i _ r hr => h.leNow i r hr)
      · exact h.enqFlow a x hx st cont false false p1 p2 p3
    | flag f =>
      simp only
      split
      · refine h.setActor_clear' _ (fun _ => rfl) (fun _ => rfl) (fun _ => rfl) ?_
        intro _ st; exact not_pend_none st
      · exact h

theorem idleActor_some {s : BSt} {a : Nat} (h : idleActor s a = true) : ∃ x, s.actor a = some x := by
  unfold idleActor at h
  cases hx : s.actor a with
  | none => rw [hx] at h; cases h
  | some x => exact ⟨x, rfl⟩

theorem PI.withLogger (h : PI c none fl T C s) (a g : Nat) (k : Nat → BSt × String)
    (hk : ∀ lgi x, s.actor a = some x → PI c none fl T C (k lgi).1) : PI c none fl T C (withLogger s a g k).1 := by
  unfold Backend.withLogger
  split
  · rename_i lgi _ hidle
    obtain ⟨x, hx⟩ := idleActor_some hidle
    unfold noteCall
    exact (hk lgi x hx).setActor_keep a _ (fun _ => rfl) (fun _ => rfl) (fun _ => rfl) (fun _ => rfl)
  · exact h

theorem core_reapSinks (s : BSt) (l : List Nat) : core (reapSinks s l) = core s := by
  unfold reapSinks
  induction l generalizing s with
  | nil => rfl
  | cons x xs ih =>
    rw [List.foldl_cons, ih]
    split <;> rfl

/-- a thread exits: its context is marked invalid (no live actor refers to it any more) -/
theorem PI.invalidate (h : PI c ex fl T C s) (i : Nat) (hno : ∀ b y, s.actor b = some y → y.ctx ≠ some i) :
    PI c ex fl T C (s.setTh i (fun t => { t with valid := false })) := by
  have hcases : ∀ j, (s.setTh i (fun t => { t with valid := false })).th j = s.th j ∨
      (j = i ∧ (s.setTh i (fun t => { t with valid := false })).th j = { s.th i with valid := false }) := by
    intro j; rcases th_setTh_cases s i j (fun t => { t with valid := false }) with h1 | ⟨h1, _, h2⟩
    · exact Or.inl h1
    · exact Or.inr ⟨h1, h2⟩
  have hch : ∀ j, chain ((s.setTh i (fun t => { t with valid := false })).th j) = chain (s.th j) := by
    intro j; rcases hcases j with h1 | ⟨rfl, h1⟩ <;> rw [h1] <;> rfl
  have hbuf : ∀ j, ((s.setTh i (fun t => { t with valid := false })).th j).buf = (s.th j).buf := by
    intro j; rcases hcases j with h1 | ⟨rfl, h1⟩ <;> rw [h1]
  have hq : ∀ j, ((s.setTh i (fun t => { t with valid := false })).th j).qStmts = (s.th j).qStmts := by
    intro j; rcases hcases j with h1 | ⟨rfl, h1⟩ <;> rw [h1]
  have hacc : ∀ j, ((s.setTh i (fun t => { t with valid := false })).th j).accepted = (s.th j).accepted := by
    intro j; rcases hcases j with h1 | ⟨rfl, h1⟩ <;> rw [h1]
  exact { h with
    sorted := fun j => by rw [hch]; exact h.sorted j
    leNow := fun j => by rw [hch]; exact h.leNow j
    qc := fun j => by
      rcases hcases j with h1 | ⟨rfl, h1⟩
      · rw [h1]; exact h.qc j
      · rw [h1]; exact ⟨(h.qc j).wpos, (h.qc j).sum, (h.qc j).pos, (h.qc j).wc⟩
    reg := fun j => by rw [hch]; exact h.reg j
    bufCache := fun j => by rw [hbuf]; exact h.bufCache j
    ctxLt := fun b y j hy hj => by rw [length_setTh]; exact h.ctxLt b y j hy hj
    ctxReg := fun b y j hy hj => by
      obtain ⟨r1, r2⟩ := h.ctxReg b y j hy hj
      refine ⟨r1, ?_⟩
      rcases hcases j with h1 | ⟨rfl, _⟩
      · rw [h1]; exact r2
      · exact absurd hj (hno b y hy)
    pend := fun b y r hy hb hpd => by
      obtain ⟨p1, p2, p3⟩ := h.pend b y r hy hb hpd
      exact ⟨p1, p2, fun j hj => by rw [hch]; exact p3 j hj⟩
    capOK := fun j hj => by
      rw [length_setTh] at hj
      rcases hcases j with h1 | ⟨rfl, h1⟩ <;> rw [h1] <;> exact h.capOK _ hj
    ord := fun hg0 hr0 hp => by
      have o := h.ord hg0 hr0 (fun j r hr => hp j r (by rw [hacc]; exact hr))
      exact {
        popSorted := o.popSorted
        above := fun p hpp j hj => by rw [hch]; exact o.above p hpp j hj
        popFloor := o.popFloor
        bufFloor := fun j => by rw [hbuf]; exact o.bufFloor j
        late := fun j hj hT => by rw [hbuf, hq]; exact o.late j hj hT } }

theorem PI.applyFront (h : PI c none fl T C s) (f : FOp) : PI c none fl T C (applyFront s f).1 := by
  cases f with
  | tick dt => exact h.tick dt
  | tstart a =>
    simp only [Backend.applyFront]
    split
    · exact h
    · rename_i hn
      refine h.addActor a ?_
      cases hx : s.actor a with
      | none => rfl
      | some x => rw [hx] at hn; simp at hn
  | texit a =>
    simp only [Backend.applyFront]
    split
    · exact h
    · have hk := h.killActor a (fun x => { x with alive := false }) (fun _ => rfl) (fun _ => rfl)
      split
      · rename_i i hci
        refine PI.frame (PI.invalidate hk i ?_) rfl
        intro b y hy hyi
        -- a live actor other than `a` with the same context: excluded by `ctxInj`
        have hne : b ≠ a := by
          intro e; subst e
          have := actor_setActor_kill s b (fun x => { x with alive := false }) (fun _ => rfl)
          rw [this] at hy; cases hy
        have := actor_setActor_ne s (fun x => { x with alive := false }) (fun _ => rfl) hne
        rw [this] at hy
        cases hxa : s.actor a with
        | none => rw [hxa] at hci; cases hci
        | some xa =>
          rw [hxa] at hci
          exact hne (h.ctxInj b a y xa i hy hxa hyi (by simpa using hci))
      · exact hk
  | resume a =>
    simp only [Backend.applyFront]
    have hr := h.resume a
    split
    · exact hr
    · split
      · exact hr
      · exact hr.setActor_keep a _ (fun _ => rfl) (fun _ => rfl) (fun _ => rfl) (fun _ => rfl)
  | armStall a =>
    simp only [Backend.applyFront]
    split
    · exact h.setActor_keep a _ (fun _ => rfl) (fun _ => rfl) (fun _ => rfl) (fun _ => rfl)
    · exact h
  | log a g lvl len dyn =>
    simp only [Backend.applyFront]
    refine h.withLogger a g _ (fun lgi x hx => ?_)
    split
    · apply PI.frontCall (x := x)
      · exact h.frame rfl
      · exact hx
    · exact h.frame rfl
  | logNamed a g len =>
    simp only [Backend.applyFront]
    refine h.withLogger a g _ (fun lgi x hx => ?_)
    split
    · apply PI.frontCall (x := x)
      · exact h.frame rfl
      · exact hx
    · exact h.frame rfl
  | logBt a g len =>
    simp only [Backend.applyFront]
    refine h.withLogger a g _ (fun lgi x hx => ?_)
    split
    · apply PI.frontCall (x := x)
      · exact h.frame rfl
      · exact hx
    · exact h.frame rfl
  | initBt a g cap fl' =>
    simp only [Backend.applyFront]
    exact h.withLogger a g _ (fun lgi x hx => h.frontCall a x hx _ _ _ _ _ _ _ _)
  | flushBt a g =>
    simp only [Backend.applyFront]
    exact h.withLogger a g _ (fun lgi x hx => h.frontCall a x hx _ _ _ _ _ _ _ _)
  | flush a g =>
    simp only [Backend.applyFront]
    refine h.withLogger a g _ (fun lgi x hx => ?_)
    apply PI.frontCall (x := x)
    · exact h.frame rfl
    · exact hx
  | removeBlocking a g =>
    simp only [Backend.applyFront]
    split
    · exact h
    · refine h.withLogger a g _ (fun lgi x hx => ?_)
      apply PI.frontCall (x := x)
      · exact h.frame rfl
      · exact hx
  | remove a g =>
    simp only [Backend.applyFront]
    split
    · exact h
    · split
      · exact h.frame rfl
      · exact h
  | create a g sl =>
    simp only [Backend.applyFront]
    split
    · exact h
    · split
      · split
        · exact h
        · exact h.frame rfl
      · exact h.frame rfl
  | setLevel g lvl =>
    simp only [Backend.applyFront]
    split
    · exact h.frame rfl
    · exact h
  | setSinkLevel sid lvl =>
    simp only [Backend.applyFront]
    split
    · exact h.frame rfl
    · exact h
  | dropSink sid =>
    simp only [Backend.applyFront]
    exact h.frame (by rw [core_reapSinks]; rfl)
  | query => exact h

theorem PI.foldFront (ops : List FOp) (skip : FOp → Bool) (e : BSt → FOp → Ev) (s1 : BSt) (h1 : PI c none fl T C s1) :
    PI c none fl T C (ops.foldl (fun s f => (if skip f then (s, "noop") else Backend.applyFront s f).1.emit (e s f)) s1) := by
  induction ops generalizing s1 with
  | nil => exact h1
  | cons f fs ih =>
    rw [List.foldl_cons]
    apply ih
    split
    · exact h1.frame rfl
    · exact (h1.applyFront f).frame rfl

/-- the injection runner of a poll is a sequence of frontend operations -/
theorem PI.runInj (h : PI c none fl T C s) (table : List (Nat × Nat × List FOp)) (site : Nat) :
    PI c none fl T C (runInj table s site) := by
  unfold Backend.runInj
  simp only
  split
  · exact h.frame rfl
  · exact PI.foldFront _ (fun f => decide (site = 9) && f.needsManagerLock)
      (fun s f => Ev.inj site _ f.show (if (decide (site = 9) && f.needsManagerLock) = true then (s, "noop")
        else Backend.applyFront s f).2) _ (h.frame rfl)

end Backend.PB
