import QuillModel.Backend.ConsProofsWrites
import QuillModel.Backend.ConsProofsFront
/-!
`InvW`: in every reachable state the number of ordinary `write` events of statement `id` at sink `sid` in the
whole history is bounded by what the statements popped so far account for (each popped ordinary statement
with that id contributes the multiplicity of `sid` in its logger's sink list). Together with the conservation
invariant (each accepted statement is popped at most once) this is "at most once per sink".
-/
namespace Backend.PA
open Backend Spsc

/-- an ordinary log statement: `Event::Log` below the backtrace level -/
def isOrd (st : Stmt) : Bool := isLogKind st.kind && st.lvl != 9

/-- backtrace rings hold only backtrace-level statements -/
def RingOK (s : BSt) : Prop := ∀ i r, (s.lgOf i).bt = some r → ∀ x ∈ r.items, x.lvl = 9

/-- what the pops so far allow: Σ over popped ordinary statements with this id of the multiplicity of the sink -/
def popBound (s : BSt) (sid id : Nat) : Nat :=
  ((s.popLog.filter (fun st => isOrd st && st.id == id)).map (fun st => (s.lgOf st.lg).sinks.count sid)).sum

structure InvW (s : BSt) : Prop where
  ring : RingOK s
  bound : ∀ sid id, wcount s.log sid id ≤ popBound s sid id

theorem sum_map_le {α} (l : List α) (f g : α → Nat) (h : ∀ x ∈ l, f x ≤ g x) : (l.map f).sum ≤ (l.map g).sum := by
  induction l with
  | nil => simp
  | cons x xs ih =>
    simp only [List.map_cons, List.sum_cons]
    have := h x (by simp)
    have := ih (fun y hy => h y (by simp [hy]))
    omega

/-- `InvW` survives a change that adds no `write`, keeps the pop history and keeps or fills sink lists -/
theorem InvW.mono {s s' : BSt} (h : InvW s) (hr : RingOK s')
    (hlog : ∃ evs, s'.log = evs ++ s.log ∧ ∀ e ∈ evs, isWriteEv e = false) (hpop : s'.popLog = s.popLog)
    (hlg : ∀ i, (s'.lgOf i).sinks = (s.lgOf i).sinks ∨ (s.lgOf i).sinks = []) : InvW s' := by
  refine ⟨hr, fun sid id => ?_⟩
  obtain ⟨evs, he, hn⟩ := hlog
  rw [he, wcount_nowrite hn]
  refine Nat.le_trans (h.bound sid id) ?_
  unfold popBound
  rw [hpop]
  apply sum_map_le
  intro st _
  rcases hlg st.lg with e | e
  · rw [e]; exact Nat.le_refl _
  · rw [e]; simp

theorem RingOK.of_bt {s s' : BSt} (h : RingOK s) (hbt : ∀ i, (s'.lgOf i).bt = (s.lgOf i).bt) : RingOK s' :=
  fun i r hr => h i r (hbt i ▸ hr)

theorem InvW.frame {s s' : BSt} (h : InvW s) (f : Frame s s') : InvW s' :=
  h.mono (h.ring.of_bt (fun i => (f.lgs i).2.2)) f.log f.popLog (fun i => Or.inl (f.lgs i).2.1)

/-- a change of fields `InvW` does not read -/
theorem InvW.of_eq {s s' : BSt} (h : InvW s) (h1 : s'.log = s.log) (h2 : s'.popLog = s.popLog) (h3 : s'.lgs = s.lgs) :
    InvW s' :=
  h.mono (h.ring.of_bt (fun i => by simp [BSt.lgOf, h3])) ⟨[], by simpa using h1, by simp⟩ h2
    (fun i => Or.inl (by simp [BSt.lgOf, h3]))

theorem InvW.ffr {s s' : BSt} (h : InvW s) (f : FFrame s s') : InvW s' := by
  refine h.mono ?_ f.log f.popLog ?_
  · intro i r hr
    by_cases hi : i < s.lgs.length
    · exact h.ring i r ((f.lgsOld i hi).2.2 ▸ hr)
    · rw [f.lgsNew i (by omega)] at hr; cases hr
  · intro i
    by_cases hi : i < s.lgs.length
    · exact Or.inl (f.lgsOld i hi).2.1
    · right; rw [lgOf_default_of_ge s i (by omega)]; rfl

/-! ### processing one event -/

theorem writeToSinks_lgs (st : Stmt) : ∀ (sids : List Nat) (s : BSt), (writeToSinks s st sids).1.lgs = s.lgs
  | [], _ => rfl
  | x :: rest, s => by
    unfold writeToSinks
    dsimp only
    split
    · split
      · rfl
      · rw [writeToSinks_lgs st rest]; rfl
    · exact writeToSinks_lgs st rest s

theorem lgOf_of_lgs {s s' : BSt} (h : s'.lgs = s.lgs) (i : Nat) : s'.lgOf i = s.lgOf i := by simp [BSt.lgOf, h]

theorem dispatch_wcount (s : BSt) (st : Stmt) (sid id : Nat) :
    wcount (dispatch s st).1.log sid id ≤
      wcount s.log sid id + (if st.lvl ≠ 9 ∧ st.id = id then (s.lgOf st.lg).sinks.count sid else 0) :=
  writeToSinks_wcount st sid id _ s

theorem replayGo_wcount (sid id : Nat) : ∀ (l : List Stmt) (s : BSt), (∀ x ∈ l, x.lvl = 9) →
    wcount (replayRing.go s l).1.log sid id ≤ wcount s.log sid id
  | [], s, _ => Nat.le_refl _
  | x :: xs, s, h => by
    unfold replayRing.go
    dsimp only
    have h1 := dispatch_wcount s x sid id
    rw [if_neg (by simp [h x (by simp)])] at h1
    split
    · split
      · refine Nat.le_trans (replayGo_wcount sid id xs _ (fun y hy => h y (by simp [hy]))) ?_
        rw [wcount_emit_nowrite _ _ rfl]; exact h1
      · exact h1
    · exact Nat.le_trans (replayGo_wcount sid id xs _ (fun y hy => h y (by simp [hy]))) h1

theorem replayGo_lgs : ∀ (l : List Stmt) (s : BSt), (replayRing.go s l).1.lgs = s.lgs
  | [], _ => rfl
  | x :: xs, s => by
    unfold replayRing.go
    dsimp only
    split
    · split
      · rw [replayGo_lgs xs]; exact writeToSinks_lgs x _ s
      · exact writeToSinks_lgs x _ s
    · rw [replayGo_lgs xs]; exact writeToSinks_lgs x _ s

theorem ring_replay_lvl {r : Ring} (h : ∀ x ∈ r.items, x.lvl = 9) : ∀ x ∈ r.replay, x.lvl = 9 := by
  intro x hx
  simp only [Ring.replay, List.mem_append] at hx
  rcases hx with hx | hx
  · exact h x (List.mem_of_mem_drop hx)
  · exact h x (List.mem_of_mem_take hx)

theorem RingOK.setLg {s : BSt} (h : RingOK s) (i : Nat) (f : Lg → Lg)
    (hf : ∀ r, (f (s.lgOf i)).bt = some r → ∀ x ∈ r.items, x.lvl = 9) : RingOK (s.setLg i f) := by
  intro j r hr
  rw [lgOf_setLg] at hr
  split at hr
  · next hc => rw [hc.1] at hr; exact hf r hr
  · exact h j r hr

theorem replayRing_w {s : BSt} (h : RingOK s) (lgi sid id : Nat) :
    wcount (replayRing s lgi).1.log sid id ≤ wcount s.log sid id ∧ RingOK (replayRing s lgi).1 ∧
    ∀ i, ((replayRing s lgi).1.lgOf i).sinks = (s.lgOf i).sinks := by
  unfold replayRing
  split
  · exact ⟨Nat.le_refl _, h, fun _ => rfl⟩
  · next r hr =>
    dsimp only
    have hl := ring_replay_lvl (h lgi r hr)
    have h1 := replayGo_wcount sid id r.replay s hl
    have h2 := replayGo_lgs r.replay s
    have h3 : RingOK (replayRing.go s r.replay).1 := h.of_bt (fun i => by rw [lgOf_of_lgs h2])
    split
    · exact ⟨h1, h3, fun i => by rw [lgOf_of_lgs h2]⟩
    · refine ⟨h1, h3.setLg _ _ (fun r' hr' x hx => ?_), fun i => ?_⟩
      · simp only [Option.some.injEq] at hr'
        rw [← hr'] at hx; simp [Ring.cleared] at hx
      · rw [lgOf_setLg]; split
        · rw [lgOf_of_lgs h2]
        · rw [lgOf_of_lgs h2]

theorem ring_store_lvl {r : Ring} (h : ∀ x ∈ r.items, x.lvl = 9) (st : Stmt) (hs : st.lvl = 9) :
    ∀ x ∈ (r.store st).items, x.lvl = 9 := by
  unfold Ring.store
  split
  · exact h
  · split
    · intro x hx
      rcases List.mem_append.mp hx with hx | hx
      · exact h x hx
      · simp at hx; rw [hx]; exact hs
    · intro x hx
      rcases List.mem_or_eq_of_mem_set hx with hx | hx
      · exact h x hx
      · rw [hx]; exact hs

theorem ring_setCapacity_lvl {r : Ring} (h : ∀ x ∈ r.items, x.lvl = 9) (c : Nat) :
    ∀ x ∈ (r.setCapacity c).items, x.lvl = 9 := by
  unfold Ring.setCapacity
  split
  · exact h
  · intro x hx; simp at hx

/-- one processed event: at most the multiplicity of the sink for an ordinary statement, nothing otherwise -/
theorem processEvent_w {s : BSt} (h : RingOK s) (st : Stmt) (sid id : Nat) :
    wcount (processEvent s st).1.log sid id ≤
      wcount s.log sid id + (if isOrd st = true ∧ st.id = id then (s.lgOf st.lg).sinks.count sid else 0) ∧
    RingOK (processEvent s st).1 := by
  unfold processEvent
  split
  · next hk =>
    split
    · next hl =>
      dsimp only
      have hd := dispatch_wcount s st sid id
      have hcond : (st.lvl ≠ 9 ∧ st.id = id) ↔ (isOrd st = true ∧ st.id = id) := by
        simp [isOrd, hk, isLogKind, hl]
      have hite : (if st.lvl ≠ 9 ∧ st.id = id then (s.lgOf st.lg).sinks.count sid else 0) =
          (if isOrd st = true ∧ st.id = id then (s.lgOf st.lg).sinks.count sid else 0) := by
        by_cases hx : st.lvl ≠ 9 ∧ st.id = id
        · rw [if_pos hx, if_pos (hcond.mp hx)]
        · rw [if_neg hx, if_neg (fun hy => hx (hcond.mpr hy))]
      rw [hite] at hd
      have hlg := writeToSinks_lgs st (s.lgOf st.lg).sinks s
      have hR : RingOK (dispatch s st).1 := h.of_bt (fun i => by rw [dispatch, lgOf_of_lgs hlg])
      split
      · exact ⟨hd, hR⟩
      · split
        · have := replayRing_w hR st.lg sid id
          exact ⟨Nat.le_trans this.1 hd, this.2.1⟩
        · exact ⟨hd, hR⟩
    · next hl =>
      have hl9 : st.lvl = 9 := by simpa using hl
      split
      · next ring hr =>
        refine ⟨by show wcount s.log sid id ≤ _; omega, h.setLg _ _ (fun r' hr' => ?_)⟩
        simp only [Option.some.injEq] at hr'
        rw [← hr']
        exact ring_store_lvl (h st.lg ring hr) st hl9
      · exact ⟨by show wcount s.log sid id ≤ _; omega, h⟩
  · refine ⟨by show wcount s.log sid id ≤ _; omega, h.setLg _ _ (fun r' hr' => ?_)⟩
    simp only [Option.some.injEq] at hr'
    rw [← hr']
    apply ring_setCapacity_lvl
    cases hb : (s.lgOf st.lg).bt with
    | none => intro x hx; simp at hx
    | some r0 => exact h st.lg r0 hb
  · have := replayRing_w h st.lg sid id
    exact ⟨Nat.le_trans this.1 (Nat.le_add_right _ _), this.2.1⟩
  · have f := flushSinks_frame s
    obtain ⟨evs, he, hn⟩ := f.log
    refine ⟨?_, h.of_bt (fun i => (f.lgs i).2.2)⟩
    show wcount (flushSinks s).log sid id ≤ _
    rw [he, wcount_nowrite hn]; omega
  · exact ⟨by show wcount s.log sid id ≤ _; omega, h⟩

theorem InvW.pop {s : BSt} (h : InvW s) (i : Nat) (st : Stmt) (rest : List Stmt) : InvW (popStep s i st rest) := by
  unfold popStep
  dsimp only
  have hc := processEvent_core s st
  have hlgs : ∀ j, ((processEvent s st).1.lgOf j).sinks = (s.lgOf j).sinks := fun j => (hc.lgs j).2
  have key : ∀ s2 : BSt, RingOK s2 → (∀ sid id, wcount s2.log sid id ≤
        wcount s.log sid id + (if isOrd st = true ∧ st.id = id then (s.lgOf st.lg).sinks.count sid else 0)) →
      s2.popLog = s.popLog → (∀ j, (s2.lgOf j).sinks = (s.lgOf j).sinks) →
      InvW { s2.setTh i (fun t => { t with buf := rest, popped := t.popped ++ [st] }) with popLog := st :: s2.popLog } := by
    intro s2 hR hw hp hl
    refine ⟨fun j r hr => hR j r hr, fun sid id => ?_⟩
    refine Nat.le_trans (hw sid id) ?_
    have hb := h.bound sid id
    unfold popBound at hb ⊢
    show _ ≤ ((List.filter _ (st :: s2.popLog)).map (fun x => ((s2.lgOf x.lg).sinks.count sid))).sum
    rw [hp]
    have hfun : (fun x : Stmt => (s2.lgOf x.lg).sinks.count sid) = (fun x : Stmt => (s.lgOf x.lg).sinks.count sid) :=
      funext (fun x => by rw [hl])
    rw [hfun]
    by_cases hcnd : isOrd st = true ∧ st.id = id
    · rw [if_pos hcnd, List.filter_cons_of_pos (by simp [hcnd.1, hcnd.2])]
      simp only [List.map_cons, List.sum_cons]
      omega
    · rw [if_neg hcnd]
      by_cases hf : (isOrd st && st.id == id) = true
      · exfalso; apply hcnd; simpa using hf
      · rw [List.filter_cons_of_neg (by simpa using hf)]; omega
  have hpe := fun sid id => (processEvent_w h.ring st sid id)
  split
  · refine key _ (fun j r hr => (hpe 0 0).2 j r hr) (fun sid id => ?_) hc.popLog hlgs
    rw [wcount_emit_nowrite _ _ rfl]; exact (hpe sid id).1
  · exact key _ (hpe 0 0).2 (fun sid id => (hpe sid id).1) hc.popLog hlgs

theorem InvW.closed : Closed InvW where
  frame := fun _ _ h f => h.frame f
  refresh := fun s h => by
    unfold refreshCache; split
    · exact h.of_eq rfl rfl rfl
    · exact h
  ctxEmpty := fun _ _ h => h.of_eq rfl rfl rfl
  dropCtx := fun _ _ h _ _ _ => h.of_eq rfl rfl rfl
  prepRead := fun _ _ h => h.of_eq rfl rfl rfl
  commitRead := fun _ _ h => h.of_eq rfl rfl rfl
  readOne := fun s i st rest h _ _ => by
    unfold PA.readOne
    dsimp only
    split <;> exact h.of_eq rfl rfl rfl
  pop := fun _ i st rest h _ => h.pop i st rest
  failReset := fun s i h _ => by
    unfold PA.failReset
    exact h.mono (h.ring.of_bt (fun _ => rfl)) ⟨[_], rfl, by simp [isWriteEv]⟩ rfl (fun _ => Or.inl rfl)
  front := fun s f h => h.ffr (applyFront_ffr s f)

end Backend.PA
