import QuillModel.Backend.LiftOnceNodup
/-!
The preservation skeleton of `ConsProofsSkel.lean`, restricted to schedules whose frontend operations all satisfy a
decidable condition `al` (`ClosedOn al P`: like `Closed P`, but `front` only for the operations with `al f = true`).
`opsAllowed al ops`: every top-level frontend operation and every operation of every poll's injection table satisfies
`al`. `runOps_closedOn`: a predicate closed on `al` is an invariant of every schedule allowed by `al`.
The lemmas of `ConsProofsSkel.lean` that do not use `Closed.front` (everything below `ClosedH` / `ClosedQ`) are reused;
the five that take a `Closed P` argument (`checkFailures`, `processLowest`, `batchLoop`, `poll`, `exitLoop`) and the three
that use `front` (`runInj`, `applyOp`, `runOps`) are repeated here for `ClosedOn`.
-/
namespace Backend.PA
open Backend Spsc

structure ClosedOn (al : FOp → Bool) (P : BSt → Prop) : Prop extends ClosedH P, ClosedQ P where
  pop : ∀ s i st rest, P s → (s.th i).buf = st :: rest → P (popStep s i st rest)
  failReset : ∀ s i, P s → 0 < (s.th i).fail → P (failReset s i)
  front : ∀ s f, al f = true → P s → P (applyFront s f).1

theorem Closed.on {P : BSt → Prop} (hc : Closed P) (al : FOp → Bool) : ClosedOn al P where
  toClosedH := hc.toClosedH
  toClosedQ := hc.toClosedQ
  pop := hc.pop
  failReset := hc.failReset
  front := fun s f _ h => hc.front s f h

theorem ClosedOn.and {al : FOp → Bool} {P Q : BSt → Prop} (hp : ClosedOn al P) (hq : ClosedOn al Q) :
    ClosedOn al (fun s => P s ∧ Q s) where
  frame := fun s s' h f => ⟨hp.frame s s' h.1 f, hq.frame s s' h.2 f⟩
  refresh := fun s h => ⟨hp.refresh s h.1, hq.refresh s h.2⟩
  ctxEmpty := fun s i h => ⟨hp.ctxEmpty s i h.1, hq.ctxEmpty s i h.2⟩
  dropCtx := fun s i h hv he hz => ⟨hp.dropCtx s i h.1 hv he hz, hq.dropCtx s i h.2 hv he hz⟩
  prepRead := fun s i h => ⟨hp.prepRead s i h.1, hq.prepRead s i h.2⟩
  commitRead := fun s i h => ⟨hp.commitRead s i h.1, hq.commitRead s i h.2⟩
  readOne := fun s i st rest h hq' hr => ⟨hp.readOne s i st rest h.1 hq' hr, hq.readOne s i st rest h.2 hq' hr⟩
  pop := fun s i st rest h hb => ⟨hp.pop s i st rest h.1 hb, hq.pop s i st rest h.2 hb⟩
  failReset := fun s i h hf => ⟨hp.failReset s i h.1 hf, hq.failReset s i h.2 hf⟩
  front := fun s f ha h => ⟨hp.front s f ha h.1, hq.front s f ha h.2⟩

/-- every operation of every entry of an injection table satisfies `al` -/
def tableAllowed (al : FOp → Bool) (table : List (Nat × Nat × List FOp)) : Bool := table.all (fun e => e.2.2.all al)

def opAllowed (al : FOp → Bool) : Op → Bool
  | .front f => al f
  | .poll table => tableAllowed al table
  | .exit => true

/-- every frontend operation of the schedule — top level or injected at a hook site of a poll — satisfies `al` -/
def opsAllowed (al : FOp → Bool) (ops : List Op) : Bool := ops.all (opAllowed al)

theorem opsAllowed_append (al : FOp → Bool) (a b : List Op) :
    opsAllowed al (a ++ b) = (opsAllowed al a && opsAllowed al b) := by
  simp [opsAllowed]

variable {al : FOp → Bool} {P : BSt → Prop}

theorem checkFailures_closedOn (hc : ClosedOn al P) (inj : BSt → Nat → BSt) (hinj : ∀ s site, P s → P (inj s site))
    (s : BSt) (h : P s) : P (checkFailures inj s) := by
  unfold checkFailures
  refine foldl_inv P _ ?_ _ _ h
  intro a i ha
  dsimp only
  split
  · next hf => exact hinj _ 8 (hc.failReset a i ha hf)
  · exact ha

theorem processLowest_closedOn (hc : ClosedOn al P) (inj : BSt → Nat → BSt) (hinj : ∀ s site, P s → P (inj s site))
    (s : BSt) (h : P s) : P (processLowest inj s).1 := by
  rw [processLowest_eq]
  split
  · exact h
  · next i _ =>
    split
    · exact h
    · next st rest hb =>
      have h3 := hc.pop s i st rest h hb
      dsimp only
      split
      · have h3' : P (if (popStep s i st rest).cfg.reportBeforeFlushCleanup = true then
            checkFailures inj (popStep s i st rest) else popStep s i st rest) := by
          split
          · exact checkFailures_closedOn hc inj hinj _ h3
          · exact h3
        exact hc.frame _ _ (cleanupContexts_closed hc.toClosedH _ h3')
          (Frame.of_eq rfl rfl rfl rfl rfl rfl rfl rfl rfl rfl rfl rfl rfl (fun _ hf => List.mem_cons_of_mem _ hf))
      · exact h3

theorem batchLoop_closedOn (hc : ClosedOn al P) (inj : BSt → Nat → BSt) (hinj : ∀ s site, P s → P (inj s site)) :
    ∀ (fuel : Nat) (s : BSt), P s → P (batchLoop inj fuel s)
  | 0, s, h => by unfold batchLoop; exact h
  | fuel + 1, s, h => by
    unfold batchLoop
    dsimp only
    have h1 := hasPending_closed hc.toClosedH s h
    split
    · exact h1
    · have h2 := processLowest_closedOn hc inj hinj _ h1
      split
      · exact h2
      · exact batchLoop_closedOn hc inj hinj fuel _ (hinj _ 4 h2)

theorem poll_closedOn (hc : ClosedOn al P) (inj : BSt → Nat → BSt) (hinj : ∀ s site, P s → P (inj s site))
    (s : BSt) (h : P s) : P (poll inj s) := by
  unfold poll
  have h1 := populate_closed' hc.frame hc.refresh hc.toClosedQ inj hinj s h
  generalize populate inj s = pr at h1 ⊢
  obtain ⟨s1, count⟩ := pr
  dsimp only at h1 ⊢
  split
  · split
    · exact processLowest_closedOn hc inj hinj _ h1
    · exact batchLoop_closedOn hc inj hinj _ _ h1
  · have h3 := checkFailures_closedOn hc inj hinj _
      (flushGate_closed hc.toClosedH inj hinj (inj s1 5) (inj s1 5).cfg.flushInterval (hinj _ 5 h1))
    have h4 := allEmpty_closed hc.toClosedH _ h3
    split
    · exact cleanupLoggers_closed hc.toClosedH inj hinj _
        (preEraseFlush_closed hc.toClosedH _ (cleanupContexts_closed hc.toClosedH _ h4))
    · exact h4

theorem exitLoop_closedOn (hc : ClosedOn al P) (inj : BSt → Nat → BSt) (hinj : ∀ s site, P s → P (inj s site))
    (tick : Nat) : ∀ (fuel : Nat) (s : BSt), P s → P (exitLoop inj tick fuel s)
  | 0, s, h => by unfold exitLoop; exact h
  | fuel + 1, s, h => by
    unfold exitLoop
    dsimp only
    have h1 := allEmpty_closed hc.toClosedH s h
    split
    · exact cleanupLoggers_closed hc.toClosedH inj hinj _ (preEraseFlush_closed hc.toClosedH _
        (cleanupContexts_closed hc.toClosedH _
          (hc.frame _ _ (checkFailures_closedOn hc inj hinj _ h1) (flushSinks_frame _))))
    · have h0 : P { (allEmpty s).1 with now := (allEmpty s).1.now + tick } :=
        hc.frame _ _ h1 (Frame.of_eq rfl rfl rfl rfl rfl rfl rfl rfl rfl rfl rfl rfl rfl (fun _ h => h))
      have h2 := populate_closed' hc.frame hc.refresh hc.toClosedQ inj hinj _ h0
      generalize populate inj _ = pr at h2 ⊢
      obtain ⟨s1, count⟩ := pr
      dsimp only at h2 ⊢
      apply exitLoop_closedOn hc inj hinj tick fuel
      split
      · exact batchLoop_closedOn hc inj hinj _ _ h2
      · exact h2

theorem foldl_inv_all {σ α} (Q : σ → Prop) (p : α → Bool) (g : σ → α → σ) (hg : ∀ a x, p x = true → Q a → Q (g a x)) :
    ∀ (l : List α), l.all p = true → ∀ (a : σ), Q a → Q (l.foldl g a)
  | [], _, _, h => h
  | x :: xs, hl, a, h => by
    simp only [List.all_cons, Bool.and_eq_true] at hl
    exact foldl_inv_all Q p g hg xs hl.2 (g a x) (hg a x hl.1 h)

theorem runInj_closedOn (hc : ClosedOn al P) (table : List (Nat × Nat × List FOp)) (ht : tableAllowed al table = true)
    (s : BSt) (site : Nat) (h : P s) : P (runInj table s site) := by
  unfold runInj
  dsimp only
  have h1 : ∀ sc, P { s with siteCnt := sc } := fun sc =>
    hc.frame s _ h (Frame.of_eq rfl rfl rfl rfl rfl rfl rfl rfl rfl rfl rfl rfl rfl (fun _ h => h))
  split
  · exact h1 _
  · next x y ops heq =>
    have hm := List.mem_of_find?_eq_some heq
    have ho : ops.all al = true := (List.all_eq_true.mp ht) _ hm
    refine foldl_inv_all P al _ ?_ ops ho _ (h1 _)
    intro a f haf ha
    split
    · exact hc.frame _ _ ha (Frame.emit _ _ rfl)
    · exact hc.frame _ _ (hc.front a f haf ha) (Frame.emit _ _ rfl)

theorem ClosedOn.siteCnt (hc : ClosedOn al P) (s : BSt) (sc : List (Nat × Nat)) (h : P s) : P { s with siteCnt := sc } :=
  hc.frame s _ h (Frame.of_eq rfl rfl rfl rfl rfl rfl rfl rfl rfl rfl rfl rfl rfl (fun _ h => h))

theorem applyOp_closedOn (hc : ClosedOn al P) (s : BSt) (op : Op) (ha : opAllowed al op = true) (h : P s) :
    P (applyOp s op).1 := by
  cases op with
  | front f => exact hc.front s f ha h
  | poll table =>
    simp only [applyOp]
    split
    · exact h
    · exact poll_closedOn hc _ (fun s site hs => runInj_closedOn hc table ha s site hs) _ (hc.siteCnt s [] h)
  | exit =>
    simp only [applyOp]
    split
    · exact h
    · exact hc.frame _ _ (exitLoop_closedOn hc _ (fun s site hs => runInj_closedOn hc [] rfl s site hs) 1000 _ _
        (hc.siteCnt s [] h)) (Frame.of_eq rfl rfl rfl rfl rfl rfl rfl rfl rfl rfl rfl rfl rfl (fun _ h => h))

/-- **the restricted skeleton**: a predicate closed on `al` is an invariant of every schedule allowed by `al` -/
theorem runOps_closedOn (hc : ClosedOn al P) : ∀ (ops : List Op), opsAllowed al ops = true → ∀ (s : BSt), P s →
    P (runOps s ops) := by
  intro ops ho
  unfold runOps
  exact foldl_inv_all P (opAllowed al) _ (fun a o hao ha => applyOp_closedOn hc a o hao ha) ops ho

end Backend.PA
