import QuillModel.Backend.FlushInv
/-!
Frontend operations preserve the flush invariant `FI`.
-/
namespace Backend.PB
open Backend

variable {ex : Option Nat} {pf : List Nat} {s : BSt}

/-! ### parked calls through `setActor` -/

theorem pendOf_setActor_keep (s : BSt) (a : Nat) (g : Actor → Actor) (hid : ∀ x, (g x).id = x.id)
    (hal : ∀ x, (g x).alive = x.alive) (hp : ∀ x, (g x).pend = x.pend) (b : Nat) :
    pendOf (s.setActor a g) b = pendOf s b := by
  unfold pendOf
  by_cases hb : b = a
  · subst hb; rw [actor_setActor_same s b g hid hal]
    cases s.actor b with
    | none => rfl
    | some x => simp [hp]
  · rw [actor_setActor_ne s g hid hb]

theorem pendOf_setActor_set (s : BSt) (a : Nat) (g : Actor → Actor) (hid : ∀ x, (g x).id = x.id)
    (hal : ∀ x, (g x).alive = x.alive) (p' : Pend) (hp : ∀ x, (g x).pend = p') :
    (∀ p, pendOf (s.setActor a g) a = some p → p = p') ∧ (∀ b, b ≠ a → pendOf (s.setActor a g) b = pendOf s b) := by
  unfold pendOf
  refine ⟨fun p h => ?_, fun b hb => by rw [actor_setActor_ne s g hid hb]⟩
  rw [actor_setActor_same s a g hid hal] at h
  cases hx : s.actor a with
  | none => rw [hx] at h; cases h
  | some x => rw [hx] at h; simp [hp] at h; exact h.symm

/-- the statement `st` of actor `a` carries a flag number nobody else has -/
def Fresh (s : BSt) (a : Nat) (st : Stmt) : Prop :=
  ∀ f, flagOf st = some f → f < s.nextFlag ∧ (∀ i, f ∉ flagsIn (s.th i).accepted) ∧
    (∀ b q st', b ≠ a → pendOf s b = some q → isPendOf q st' → flagOf st' ≠ some f)

theorem Fresh.same {s s' : BSt} {a : Nat} {st : Stmt} (h : Fresh s a st) (hs : Same2 s s') : Fresh s' a st := by
  intro f hf
  obtain ⟨p1, p2, p3⟩ := h f hf
  refine ⟨by rw [hs.nf]; exact p1, fun i => by rw [(hs.th i).acc]; exact p2 i, fun b q st' hb hq => ?_⟩
  rw [hs.act] at hq; exact p3 b q st' hb hq

theorem Fresh.congr {s : BSt} {a : Nat} {st st' : Stmt} (h : Fresh s a st) (he : flagOf st' = flagOf st) : Fresh s a st' := by
  intro f hf; rw [he] at hf; exact h f hf

theorem Fresh.none {s : BSt} {a : Nat} {st : Stmt} (h : flagOf st = none) : Fresh s a st := by
  intro f hf; rw [h] at hf; cases hf

/-- the parked call of `a` changes to `p'` (or `a` disappears); everything else is as in `s` -/
theorem FI.setPend {ex' : Option Nat} {s' : BSt} (h : FI ex pf s) (a : Nat) (p' : Pend)
    (hth : ∀ i, ThEq2 (s.th i) (s'.th i)) (hpop : s'.popLog = s.popLog) (hflags : s'.flags = s.flags)
    (hrem : s'.removalFlags = s.removalFlags) (hnf : s'.nextFlag = s.nextFlag)
    (hP : ∀ p, pendOf s' a = some p → p = p') (hO : ∀ b, b ≠ a → pendOf s' b = pendOf s b)
    (hex : ∀ b, b ≠ a → some b ≠ ex' → some b ≠ ex)
    (hp : ∀ st, isPendOf p' st → Fresh s a st) : FI ex' pf s' := by
  -- first the parts that do not mention parked calls, through a state that differs only there
  have base : FI ex pf s → True := fun _ => trivial
  exact {
    cons := fun i => by rw [(hth i).acc, (hth i).pop, (hth i).buf, (hth i).q]; exact h.cons i
    plog := fun i => by rw [(hth i).pop, hpop]; exact h.plog i
    flg := fun f hf => by
      rw [hflags] at hf
      rcases h.flg f hf with ⟨i, st, h1, h2⟩ | ⟨i, st, h1, h2⟩
      · exact Or.inl ⟨i, st, by rw [(hth i).pop]; exact h1, h2⟩
      · exact Or.inr ⟨i, st, by rw [(hth i).acc]; exact h1, h2⟩
    flgP := fun f hf => by
      obtain ⟨i, st, h1, h2⟩ := h.flgP f hf
      exact ⟨i, st, by rw [(hth i).pop]; exact h1, h2⟩
    popFlag := fun i => by rw [(hth i).pop, hflags]; exact h.popFlag i
    rem := fun gf hgf => by
      rw [hrem] at hgf
      obtain ⟨i, st, h1, h2⟩ := h.rem gf hgf
      exact ⟨i, st, by rw [(hth i).acc]; exact h1, h2⟩
    accLt := fun i => by rw [(hth i).acc, hnf]; exact h.accLt i
    accNodup := fun i => by rw [(hth i).acc]; exact h.accNodup i
    accDisj := fun i j => by rw [(hth i).acc, (hth j).acc]; exact h.accDisj i j
    pendFresh := fun b p st f hb hbe hpd hf => by
      by_cases hba : b = a
      · subst hba
        have := hP p hb; subst this
        obtain ⟨p1, p2, p3⟩ := hp st hpd f hf
        refine ⟨by rw [hnf]; exact p1, fun i => by rw [(hth i).acc]; exact p2 i, fun c q st' hc hq => ?_⟩
        rw [hO c hc] at hq; exact p3 c q st' hc hq
      · rw [hO b hba] at hb
        obtain ⟨p1, p2, p3⟩ := h.pendFresh b p st f hb (hex b hba hbe) hpd hf
        refine ⟨by rw [hnf]; exact p1, fun i => by rw [(hth i).acc]; exact p2 i, fun c q st' hc hq hpq => ?_⟩
        by_cases hca : c = a
        · subst hca
          have := hP q hq; subst this
          intro hfl
          exact (hp st' hpq f hfl).2.2 b p st hba hb hpd hf
        · rw [hO c hca] at hq; exact p3 c q st' hc hq hpq }

theorem FI.setActor_set {ex' : Option Nat} (h : FI ex pf s) (a : Nat) (g : Actor → Actor) (hid : ∀ x, (g x).id = x.id)
    (hal : ∀ x, (g x).alive = x.alive) (p' : Pend) (hpe : ∀ x, (g x).pend = p')
    (hex : ∀ b, b ≠ a → some b ≠ ex' → some b ≠ ex) (hp : ∀ st, isPendOf p' st → Fresh s a st) :
    FI ex' pf (s.setActor a g) :=
  have hh := pendOf_setActor_set s a g hid hal p' hpe
  h.setPend a p' (fun _ => ThEq2.refl _) rfl rfl rfl rfl hh.1 hh.2 hex hp

theorem FI.setActor_keep (h : FI ex pf s) (a : Nat) (g : Actor → Actor) (hid : ∀ x, (g x).id = x.id)
    (hal : ∀ x, (g x).alive = x.alive) (hpe : ∀ x, (g x).pend = x.pend) : FI ex pf (s.setActor a g) :=
  h.same ⟨fun _ => ThEq2.refl _, pendOf_setActor_keep s a g hid hal hpe, rfl, rfl, rfl, rfl⟩

/-- the parked call is replaced by something that carries no statement -/
theorem FI.setActor_clear {a : Nat} {ex : Option Nat} (h : FI ex pf s) (g : Actor → Actor) (hid : ∀ x, (g x).id = x.id)
    (hal : ∀ x, (g x).alive = x.alive) (p' : Pend) (hpe : ∀ x, (g x).pend = p') (hn : ∀ st, ¬ isPendOf p' st)
    (hex : ex = none ∨ ex = some a) : FI none pf (s.setActor a g) :=
  h.setActor_set a g hid hal p' hpe
    (fun b hne _ => by rcases hex with e | e <;> rw [e] <;> simp; exact hne)
    (fun st hst => absurd hst (hn st))

theorem FI.killActor (h : FI ex pf s) (a : Nat) (g : Actor → Actor) (hid : ∀ x, (g x).id = x.id)
    (hal : ∀ x, (g x).alive = false) : FI ex pf (s.setActor a g) := by
  refine h.setPend a Pend.none (fun _ => ThEq2.refl _) rfl rfl rfl rfl ?_ ?_ (fun _ _ hb => hb)
    (fun st hst => absurd hst (not_pend_none st))
  · intro p hp; unfold pendOf at hp; rw [actor_setActor_kill s a g hal] at hp; cases hp
  · intro b hb; unfold pendOf; rw [actor_setActor_ne s g hid hb]

theorem FI.addActor (h : FI ex pf s) (a : Nat) (ha : s.actor a = none) :
    FI ex pf { s with actors := s.actors ++ [{ id := a }] } := by
  refine h.setPend a Pend.none (fun _ => ThEq2.refl _) rfl rfl rfl rfl ?_ ?_ (fun _ _ hb => hb)
    (fun st hst => absurd hst (not_pend_none st))
  · intro p hp; unfold pendOf at hp; rw [actor_append s a a ha, if_pos rfl] at hp
    simp at hp; exact hp.symm
  · intro b hb; unfold pendOf; rw [actor_append s a b ha, if_neg hb]

theorem pendOf_setCtx (s0 : BSt) (a n b : Nat) :
    pendOf (s0.setActor a (fun x => { x with ctx := some n })) b = pendOf s0 b :=
  pendOf_setActor_keep s0 a (fun x => { x with ctx := some n }) (fun _ => rfl) (fun _ => rfl) (fun _ => rfl) b

theorem same2_ensureCtx (s : BSt) (a : Nat) : Same2 s (Backend.ensureCtx s a).1 := by
  unfold Backend.ensureCtx
  split
  · exact Same2.refl _
  · simp only
    refine ⟨fun j => ?_, ?_, rfl, rfl, rfl, rfl⟩
    · have : ((({ s with ths := s.ths ++ [mkTh s.cfg a], registry := s.registry ++ [s.ths.length], newFlag := true } : BSt).setActor a
          (fun x => { x with ctx := some s.ths.length })).th j) = if j = s.ths.length then mkTh s.cfg a else s.th j :=
        th_append s _ j
      rw [this]
      split
      · rename_i hj; rw [th_lt_or_default s j (by omega)]; exact ⟨rfl, rfl, rfl, rfl⟩
      · exact ThEq2.refl _
    · intro b
      exact pendOf_setCtx _ a _ b

/-- a record is committed to some queue by actor `a` (exempt), carrying a fresh flag number if any -/
theorem FI.enq {a : Nat} (h : FI (some a) pf s) (ci : Nat) (st : Stmt) (hfr : Fresh s a st) (f : Th → Th)
    (hf : (f (s.th ci)).buf = (s.th ci).buf ∧ (f (s.th ci)).qStmts = (s.th ci).qStmts ++ [st] ∧
      (f (s.th ci)).accepted = (s.th ci).accepted ++ [st] ∧ (f (s.th ci)).popped = (s.th ci).popped) :
    FI (some a) pf (s.setTh ci f) := by
  obtain ⟨f1, f2, f3, f4⟩ := hf
  have hcases : ∀ j, (s.setTh ci f).th j = s.th j ∨ (j = ci ∧ (s.setTh ci f).th j = f (s.th ci)) := by
    intro j; rcases th_setTh_cases s ci j f with h1 | ⟨h1, _, h2⟩
    · exact Or.inl h1
    · exact Or.inr ⟨h1, h2⟩
  have hacc : ∀ j r, r ∈ (s.th j).accepted → r ∈ ((s.setTh ci f).th j).accepted := by
    intro j r hr
    rcases hcases j with h1 | ⟨rfl, h1⟩
    · rw [h1]; exact hr
    · rw [h1, f3]; exact List.mem_append_left _ hr
  have hpopd : ∀ j, ((s.setTh ci f).th j).popped = (s.th j).popped := by
    intro j
    rcases hcases j with h1 | ⟨rfl, h1⟩
    · rw [h1]
    · rw [h1, f4]
  have hfl : ∀ j g, g ∈ flagsIn ((s.setTh ci f).th j).accepted → g ∈ flagsIn (s.th j).accepted ∨ (j = ci ∧ flagOf st = some g) := by
    intro j g hg
    rcases hcases j with h1 | ⟨rfl, h1⟩
    · rw [h1] at hg; exact Or.inl hg
    · rw [h1, f3, flagsIn_append] at hg
      rcases List.mem_append.mp hg with h2 | h2
      · exact Or.inl h2
      · right; refine ⟨rfl, ?_⟩
        obtain ⟨r, hr, hrf⟩ := mem_flagsIn.mp h2
        rw [List.mem_singleton.mp hr] at hrf; exact hrf
  exact {
    cons := fun j => by
      rcases hcases j with h1 | ⟨rfl, h1⟩
      · rw [h1]; exact h.cons j
      · rw [h1, f1, f2, f3, f4, h.cons j]; simp [List.append_assoc]
    plog := fun j => by rw [hpopd]; exact h.plog j
    flg := fun g hg => by
      rcases h.flg g hg with ⟨i, r, h1, h2⟩ | ⟨i, r, h1, h2⟩
      · exact Or.inl ⟨i, r, by rw [hpopd]; exact h1, h2⟩
      · exact Or.inr ⟨i, r, hacc i r h1, h2⟩
    flgP := fun g hg => by
      obtain ⟨i, r, h1, h2⟩ := h.flgP g hg
      exact ⟨i, r, by rw [hpopd]; exact h1, h2⟩
    popFlag := fun i => by rw [hpopd]; exact h.popFlag i
    rem := fun gf hgf => by
      obtain ⟨i, r, h1, h2⟩ := h.rem gf hgf
      exact ⟨i, r, hacc i r h1, h2⟩
    accLt := fun j g hg => by
      rcases hfl j g hg with h1 | ⟨_, h1⟩
      · exact h.accLt j g h1
      · exact (hfr g h1).1
    accNodup := fun j => by
      rcases hcases j with h1 | ⟨rfl, h1⟩
      · rw [h1]; exact h.accNodup j
      · rw [h1, f3, flagsIn_append]
        refine List.nodup_append.mpr ⟨h.accNodup j, ?_, ?_⟩
        · unfold flagsIn; cases hfo : flagOf st <;> simp [hfo]
        · intro g hg1 g' hg2 hgg; subst hgg
          obtain ⟨r, hr, hrf⟩ := mem_flagsIn.mp hg2
          rw [List.mem_singleton.mp hr] at hrf
          exact (hfr g hrf).2.1 j hg1
    accDisj := fun i j hij g hg hg' => by
      rcases hfl i g hg with h1 | ⟨e1, h1⟩ <;> rcases hfl j g hg' with h2 | ⟨e2, h2⟩
      · exact h.accDisj i j hij g h1 h2
      · exact (hfr g h2).2.1 i h1
      · exact (hfr g h1).2.1 j h2
      · exact hij (e1.trans e2.symm)
    pendFresh := fun b p r g hb hbe hpd hg => by
      obtain ⟨p1, p2, p3⟩ := h.pendFresh b p r g hb hbe hpd hg
      refine ⟨p1, fun i hi => ?_, p3⟩
      rcases hfl i g hi with h1 | ⟨_, h1⟩
      · exact p2 i h1
      · have hba : b ≠ a := fun e => hbe (by rw [e])
        exact (hfr g h1).2.2 b p r hba hb hpd hg }

theorem FI.tryEnq {a : Nat} (h : FI (some a) pf s) (ci : Nat) (st : Stmt) (hfr : Fresh s a st) :
    FI (some a) pf (Backend.tryEnq s ci st).1 ∧
    ((Backend.tryEnq s ci st).2 = false → Same2 s (Backend.tryEnq s ci st).1) := by
  unfold Backend.tryEnq
  simp only
  split
  · refine ⟨?_, fun hh => by cases hh⟩
    exact h.enq ci { st with enqAt := s.now } (hfr.congr rfl) _ ⟨rfl, rfl, rfl, rfl⟩
  · have := Same2.setTh s ci (fun t => { t with q := (qPrepareWrite s.cfg (s.th ci).q st.size).1 }) ⟨rfl, rfl, rfl, rfl⟩
    exact ⟨h.same this, fun _ => this⟩

theorem FI.afterEnq (h : FI none pf s) (a : Nat) (st : Stmt) (cont : Nat) :
    FI none pf (Backend.afterEnq s a st cont).1 := by
  unfold Backend.afterEnq
  split
  · exact h.setActor_clear (a := a) _ (fun _ => rfl) (fun _ => rfl) _ (fun _ => rfl) (fun st => not_pend_flag _ st) (Or.inl rfl)
  · exact h.frame rfl
  · exact h
  · dsimp only
    refine FI.setActor_clear (a := a) ?_ _ (fun _ => rfl) (fun _ => rfl) _ (fun _ => rfl) (fun st => not_pend_flag _ st) (Or.inl rfl)
    exact h.frame rfl
  · exact h

theorem FI.enqFlow (h : FI none pf s) (a : Nat) (st : Stmt) (cont : Nat) (first initial : Bool)
    (hfr : Fresh s a st) : FI none pf (Backend.enqFlow s a st cont first initial).1 := by
  have hs1 := same2_ensureCtx s a
  rcases he : Backend.ensureCtx s a with ⟨s1, ci⟩
  rw [he] at hs1
  simp only at hs1
  have h1 : FI (some a) pf s1 := (h.same hs1).unex
  have hfr1 := hfr.same hs1
  obtain ⟨h2, hfail⟩ := h1.tryEnq ci st hfr1
  rcases ht : Backend.tryEnq s1 ci st with ⟨s2, ok⟩
  rw [ht] at h2 hfail
  simp only at h2 hfail
  unfold Backend.enqFlow
  simp only [he, ht]
  cases ok with
  | true =>
    simp only [if_true]
    apply FI.afterEnq
    exact h2.setActor_clear _ (fun _ => rfl) (fun _ => rfl) Pend.none (fun _ => rfl) not_pend_none (Or.inr rfl)
  | false =>
    have hs2 := hfail rfl
    let Q : BSt → Prop := fun y => FI (some a) pf y ∧ Fresh y a st
    have hQ2 : Q s2 := ⟨h2, hfr1.same hs2⟩
    have hQb : ∀ y g, Q y → (∀ t, ThEq2 t (g t)) → Q (if isLogKind st.kind = true then y.setTh ci g else y) := by
      intro y g hy hg; split
      · have := Same2.setTh y ci g (hg _)
        exact ⟨hy.1.same this, hy.2.same this⟩
      · exact hy
    have hretry : ∀ y, Q y → FI none pf (y.setActor a (fun x => { x with pend := .retry st cont })) := by
      intro y hy
      refine hy.1.setActor_set a _ (fun _ => rfl) (fun _ => rfl) (Pend.retry st cont) (fun _ => rfl)
        (fun b hne _ hh => hne (Option.some.inj hh)) ?_
      intro st' hpd
      obtain ⟨c, hc | hc⟩ := hpd
      · cases hc
      · simp only [Pend.retry.injEq] at hc; rw [← hc.1]; exact hy.2
    have hnone : ∀ y, Q y → FI none pf (y.setActor a (fun x => { x with pend := .none })) := by
      intro y hy
      exact hy.1.setActor_clear _ (fun _ => rfl) (fun _ => rfl) Pend.none (fun _ => rfl) not_pend_none (Or.inr rfl)
    simp only [Bool.false_eq_true, if_false]
    split
    · split
      · exact hnone _ (hQb _ _ hQ2 (fun t => ⟨rfl, rfl, rfl, rfl⟩))
      · exact hretry _ (hQb _ _ hQ2 (fun t => ⟨rfl, rfl, rfl, rfl⟩))
    · apply hretry
      split
      · exact hQb _ _ hQ2 (fun t => ⟨rfl, rfl, rfl, rfl⟩)
      · exact hQ2

theorem FI.frontCall (h : FI none pf s) (a lgi : Nat) (kind : Kind) (lvl len cont : Nat) (dyn : Bool) (id : Nat)
    (named : Bool) (hk : ∀ st : Stmt, st.kind = kind → Fresh s a st) :
    FI none pf (Backend.frontCall s a lgi kind lvl len cont dyn id named).1 := by
  unfold Backend.frontCall
  simp only
  split
  · refine h.setActor_set a _ (fun _ => rfl) (fun _ => rfl) (Pend.stall _ cont) (fun _ => rfl) (fun _ _ hb => hb) ?_
    intro st' hpd
    obtain ⟨c, hc | hc⟩ := hpd
    · simp only [Pend.stall.injEq] at hc; rw [← hc.1]; exact hk _ rfl
    · cases hc
  · exact h.enqFlow a _ cont true true (hk _ rfl)

theorem FI.resume (h : FI none pf s) (a : Nat) : FI none pf (Backend.resume s a).1 := by
  unfold Backend.resume
  cases hx : (s.actor a).map (·.pend) with
  | none => exact h
  | some p =>
    have hpo : pendOf s a = some p := hx
    cases p with
    | none => exact h
    | stall st cont =>
      exact h.enqFlow a st cont true false (fun f hf => h.pendFresh a _ st f hpo (by simp) ⟨cont, Or.inl rfl⟩ hf)
    | retry st cont =>
      have hfr : Fresh s a st := fun f hf => h.pendFresh a _ st f hpo (by simp) ⟨cont, Or.inr rfl⟩ hf
      simp only
      split
      · exact h.enqFlow a { st with ts := s.now } cont true false (hfr.congr rfl)
      · exact h.enqFlow a st cont false false hfr
    | flag f =>
      simp only
      split
      · exact h.setActor_clear (a := a) _ (fun _ => rfl) (fun _ => rfl) Pend.none (fun _ => rfl) not_pend_none (Or.inl rfl)
      · exact h

theorem FI.withLogger (h : FI none pf s) (a g : Nat) (k : Nat → BSt × String)
    (hk : ∀ lgi, FI none pf (k lgi).1) : FI none pf (Backend.withLogger s a g k).1 := by
  unfold Backend.withLogger
  split
  · unfold noteCall
    exact (hk _).setActor_keep a _ (fun _ => rfl) (fun _ => rfl) (fun _ => rfl)
  · exact h

theorem FI.bumpFlag (h : FI none pf s) : FI none pf { s with nextFlag := s.nextFlag + 1 } :=
  { h with
    accLt := fun i f hf => Nat.lt_succ_of_lt (h.accLt i f hf)
    pendFresh := fun a p st f hp he hpd hf =>
      let ⟨p1, p2, p3⟩ := h.pendFresh a p st f hp he hpd hf
      ⟨Nat.lt_succ_of_lt p1, p2, p3⟩ }

theorem fresh_new (h : FI none pf s) (a : Nat) (st : Stmt) (hf : flagOf st = some s.nextFlag) :
    Fresh { s with nextFlag := s.nextFlag + 1 } a st := by
  intro f hff
  rw [hf] at hff; cases hff
  refine ⟨Nat.lt_succ_self _, fun i hi => Nat.lt_irrefl _ (h.accLt i _ hi), fun b q st' _ hq hpd hfl => ?_⟩
  exact Nat.lt_irrefl _ (h.pendFresh b q st' _ hq (by simp) hpd hfl).1

theorem FI.applyFront (h : FI none pf s) (f : FOp) : FI none pf (Backend.applyFront s f).1 := by
  cases f with
  | tick dt => exact h.frame rfl
  | tstart a =>
    simp only [Backend.applyFront]
    split
    · exact h
    · rename_i hn
      refine h.addActor a ?_
      cases hx : s.actor a with
      | none => rfl
      | some x => rw [hx] at hn; simp at hn
  | texit a =>
    simp only [Backend.applyFront]
    split
    · exact h
    · have hk := h.killActor a (fun x => { x with alive := false }) (fun _ => rfl) (fun _ => rfl)
      split
      · exact (hk.same (Same2.setTh _ _ _ ⟨rfl, rfl, rfl, rfl⟩)).frame rfl
      · exact hk
  | resume a =>
    simp only [Backend.applyFront]
    have hr := h.resume a
    split
    · exact hr
    · split
      · exact hr
      · exact hr.setActor_keep a _ (fun _ => rfl) (fun _ => rfl) (fun _ => rfl)
  | armStall a =>
    simp only [Backend.applyFront]
    split
    · exact h.setActor_keep a _ (fun _ => rfl) (fun _ => rfl) (fun _ => rfl)
    · exact h
  | log a g lvl len dyn =>
    simp only [Backend.applyFront]
    refine h.withLogger a g _ (fun lgi => ?_)
    split
    · apply FI.frontCall
      · exact h.frame rfl
      · intro st hst; exact Fresh.none (by simp [flagOf, hst, flagOfK])
    · exact h.frame rfl
  | logNamed a g len =>
    simp only [Backend.applyFront]
    refine h.withLogger a g _ (fun lgi => ?_)
    split
    · apply FI.frontCall
      · exact h.frame rfl
      · intro st hst; exact Fresh.none (by simp [flagOf, hst, flagOfK])
    · exact h.frame rfl
  | logBt a g len =>
    simp only [Backend.applyFront]
    refine h.withLogger a g _ (fun lgi => ?_)
    split
    · apply FI.frontCall
      · exact h.frame rfl
      · intro st hst; exact Fresh.none (by simp [flagOf, hst, flagOfK])
    · exact h.frame rfl
  | initBt a g cap fl' =>
    simp only [Backend.applyFront]
    exact h.withLogger a g _ (fun lgi => h.frontCall a _ _ _ _ _ _ _ _
      (fun st hst => Fresh.none (by simp [flagOf, hst, flagOfK])))
  | flushBt a g =>
    simp only [Backend.applyFront]
    exact h.withLogger a g _ (fun lgi => h.frontCall a _ _ _ _ _ _ _ _
      (fun st hst => Fresh.none (by simp [flagOf, hst, flagOfK])))
  | flush a g =>
    simp only [Backend.applyFront]
    refine h.withLogger a g _ (fun lgi => ?_)
    apply FI.frontCall
    · exact h.bumpFlag
    · intro st hst; exact fresh_new h a st (by simp [flagOf, hst, flagOfK])
  | removeBlocking a g =>
    simp only [Backend.applyFront]
    split
    · exact h
    · refine h.withLogger a g _ (fun lgi => ?_)
      apply FI.frontCall
      · exact h.bumpFlag.frame rfl
      · intro st hst
        exact (fresh_new h a st (by simp [flagOf, hst, flagOfK])).same (Same2.ofCore rfl)
  | remove a g =>
    simp only [Backend.applyFront]
    split
    · exact h
    · split
      · exact h.frame rfl
      · exact h
  | create a g sl =>
    simp only [Backend.applyFront]
    split
    · exact h
    · split
      · split
        · exact h
        · exact h.frame rfl
      · exact h.frame rfl
  | setLevel g lvl =>
    simp only [Backend.applyFront]
    split
    · exact h.frame rfl
    · exact h
  | setSinkLevel sid lvl =>
    simp only [Backend.applyFront]
    split
    · exact h.frame rfl
    · exact h
  | dropSink sid =>
    simp only [Backend.applyFront]
    exact h.frame ((SLOL.setSink _ _ _).trans (slol_reapSinks _ _)).core2
  | query => exact h

theorem FI.foldFront (ops : List FOp) (skip : FOp → Bool) (e : BSt → FOp → Ev) (s1 : BSt) (h1 : FI none pf s1) :
    FI none pf (ops.foldl (fun s f => (if skip f then (s, "noop") else Backend.applyFront s f).1.emit (e s f)) s1) := by
  induction ops generalizing s1 with
  | nil => exact h1
  | cons f fs ih =>
    rw [List.foldl_cons]
    apply ih
    split
    · exact h1.frame rfl
    · exact (h1.applyFront f).frame rfl

theorem FI.runInj (h : FI none pf s) (table : List (Nat × Nat × List FOp)) (site : Nat) :
    FI none pf (Backend.runInj table s site) := by
  unfold Backend.runInj
  simp only
  split
  · exact h.frame rfl
  · exact FI.foldFront _ (fun f => decide (site = 9) && f.needsManagerLock)
      (fun s f => Ev.inj site _ f.show (if (decide (site = 9) && f.needsManagerLock) = true then (s, "noop")
        else Backend.applyFront s f).2) _ (h.frame rfl)

end Backend.PB
