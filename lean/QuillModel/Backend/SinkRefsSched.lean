import QuillModel.Backend.SinkRefs
/-!
"Every live sink is referenced" (`RP []`, `Backend/SinkRefs.lean`) holds after every schedule. The property is broken
between the erase of a logger and the visits of its sinks, so it cannot be carried by the per-micro-step skeleton
`Closed` of `PcSkeleton.lean`; `ClosedR` is that skeleton with the logger clean-up as one piece
(`cleanupLoggers_PR`: erase → `RP (sinks of the logger)` → one visit per sink, any frontend operations at hook site 9
in between → `RP []`). Also `DT`: a destroyed sink has exactly one destructor event (an ordinary `Closed` invariant).
Helper lemmas for C17.
-/
namespace Backend.PC
open Backend Spsc

/-- `ClosedB` without the three pieces of the logger clean-up, plus the frontend -/
structure ClosedR (P : BSt → Prop) : Prop where
  siteCnt : ∀ s x, P s → P { s with siteCnt := x }
  emitInj : ∀ s a b c d, P s → P (s.emit (.inj a b c d))
  note : ∀ s, P s → P (s.emit (.notify "n:fmterr"))
  clock : ∀ s n, P s → P { s with now := n }
  gone : ∀ s, P s → P { s with backendGone := true }
  lastFlush : ∀ s n, P s → P { s with lastFlush := n }
  refresh : ∀ s, P s → P (refreshCache s)
  allEmpty : ∀ s, P s → P (allEmpty s).1
  hasPending : ∀ s, P s → P (hasPending s).1
  cleanupContexts : ∀ s, P s → P (cleanupContexts s)
  flushSinks : ∀ s, P s → P (flushSinks s)
  readPrep : ∀ s i, P s → P (readPrepSt s i)
  commit : ∀ s i, P s → P (commitSt s i)
  readOne : ∀ s i st rest, P s → (qPrepareRead s.cfg (s.th i).q).2 = true → (s.th i).qStmts = st :: rest →
              P (readOneSt s i st rest)
  report : ∀ s i, P s → (s.th i).fail > 0 → P (reportSt s i)
  pop : ∀ s i st rest, P s → lowest s = some i → (s.th i).buf = st :: rest → P (popSt s i st rest)
  raise : ∀ s f, P s → (∃ st, s.popLog.head? = some st ∧ st.kind = .flush f) → P (raiseSt s f)
  front : ∀ s f, P s → P (applyFront s f).1

theorem runInj_okR {P : BSt → Prop} (hc : ClosedR P) (table : List (Nat × Nat × List FOp)) : InjOK P (runInj table) := by
  intro s site hs
  refine ⟨?_, runInj_popLog table s site, fun h9 => by rw [h9]; exact runInj_lgMono9 table s⟩
  rw [runInj_eq]
  have h1 := hc.siteCnt s ((site, siteK s site) :: s.siteCnt.filter (·.1 ≠ site)) hs
  split
  · exact h1
  · refine foldl_pres P _ (fun x f hx => hc.emitInj _ _ _ _ _ ?_) _ _ h1
    show P (injRes site x f).1
    unfold injRes; split
    · exact hx
    · exact hc.front x f hx

section
variable {P : BSt → Prop} (hc : ClosedR P)
include hc

theorem readQueue_okR {inj : BSt → Nat → BSt} (hi : InjOK P inj) (tsNow : Option Nat) (i : Nat) :
    ∀ (fuel total : Nat) (s : BSt), P s → P (readQueue inj tsNow i fuel total s)
  | 0, total, s, hs => by
    rw [readQueue_zero]
    split
    · exact hc.commit _ _ hs
    · exact hs
  | fuel + 1, total, s, hs => by
    rw [readQueue_succ]
    have hfin : P (if total ≠ 0 then commitSt (readPrepSt s i) i else readPrepSt s i) := by
      split
      · exact hc.commit _ _ (hc.readPrep s i hs)
      · exact hc.readPrep s i hs
    simp only []
    split
    · exact hfin
    · rename_i hr
      split
      · exact hfin
      · rename_i st rest hq
        split
        · exact hfin
        · have h3 : P (inj (fmtNote (readOneSt s i st rest) st) 3) :=
            (hi _ 3 (by
              unfold fmtNote
              split
              · exact hc.note _ (hc.readOne s i st rest hs (by simpa using hr) hq)
              · exact hc.readOne s i st rest hs (by simpa using hr) hq)).1
          split
          · exact readQueue_okR hi tsNow i fuel _ _ h3
          · exact hc.commit _ _ h3

theorem checkFailures_okR {inj : BSt → Nat → BSt} (hi : InjOK P inj) (s : BSt) (hs : P s) :
    P (checkFailures inj s) := by
  rw [checkFailures_eq]
  apply foldl_pres P _ _ _ _ hs
  intro x i hx
  split
  · rename_i hf; exact (hi _ 8 (hc.report x i hx hf)).1
  · exact hx

theorem checkFailures_popLogR {inj : BSt → Nat → BSt} (hi : InjOK P inj) (s : BSt) (hs : P s) :
    (checkFailures inj s).popLog = s.popLog := by
  rw [checkFailures_eq]
  have : ∀ (l : List Nat) (x : BSt), P x →
      (l.foldl (fun s i => if (s.th i).fail > 0 then inj (reportSt s i) 8 else s) x).popLog = x.popLog := by
    intro l
    induction l with
    | nil => intro x _; rfl
    | cons i rest ih =>
      intro x hx
      simp only [List.foldl_cons]
      split
      · rename_i hf
        have h := hi _ 8 (hc.report x i hx hf)
        rw [ih _ h.1, h.2.1]; rfl
      · exact ih x hx
  exact this _ _ hs

theorem processLowest_okR {inj : BSt → Nat → BSt} (hi : InjOK P inj) (s : BSt) (hs : P s) :
    P (processLowest inj s).1 := by
  rw [processLowest_eq]
  split
  · exact hs
  · rename_i i hl
    split
    · exact hs
    · rename_i st rest hb
      have hp := hc.pop s i st rest hs hl hb
      split
      · rename_i f hf
        have hk := processEvent_flag s st f hf
        have hpl : (popSt s i st rest).popLog.head? = some st := rfl
        apply hc.raise
        · apply hc.cleanupContexts
          split
          · exact checkFailures_okR hc hi _ hp
          · exact hp
        · refine ⟨st, ?_, hk⟩
          rw [cleanupContexts_popLog]
          split
          · rw [checkFailures_popLogR hc hi _ hp]; exact hpl
          · exact hpl
      · exact hp

theorem populate_okR {inj : BSt → Nat → BSt} (hi : InjOK P inj) (s : BSt) (hs : P s) :
    P (populate inj s).1 := by
  rw [populate_eq]
  apply foldl_pres_pair P
  · intro acc i hacc
    exact readQueue_okR hc hi _ _ _ _ _ (hi _ 2 hacc).1
  · have h0 : P (popS0 s) := by
      unfold popS0; split
      · exact hs
      · exact hc.refresh s hs
    have h1 : P (popS1 inj s) := by
      unfold popS1; split
      · exact h0
      · exact (hi _ 7 h0).1
    have h2 := (hi _ 1 h1).1
    show P (popS2 inj s)
    unfold popS2; split
    · exact hc.refresh _ h2
    · exact h2

theorem batchLoop_okR {inj : BSt → Nat → BSt} (hi : InjOK P inj) :
    ∀ (fuel : Nat) (s : BSt), P s → P (batchLoop inj fuel s)
  | 0, _, hs => hs
  | fuel + 1, s, hs => by
    unfold batchLoop
    simp only []
    have hp := hc.hasPending s hs
    split
    · exact hp
    · have hl := processLowest_okR hc hi _ hp
      split
      · exact hl
      · exact batchLoop_okR hi fuel _ (hi _ 4 hl).1

theorem flushGate_okR {inj : BSt → Nat → BSt} (hi : InjOK P inj) (s : BSt) (n : Nat) (hs : P s) : P (flushGate inj s n) := by
  unfold flushGate
  split
  · exact hc.flushSinks _ hs
  · simp only []
    split
    · exact hc.flushSinks _ (hc.lastFlush _ _ (hi _ 7 hs).1)
    · exact (hi _ 7 hs).1

theorem preEraseFlush_okR (s : BSt) (hs : P s) : P (preEraseFlush s) := by
  unfold preEraseFlush
  split
  · exact hc.flushSinks _ hs
  · exact hs

theorem poll_okR {inj : BSt → Nat → BSt} (hi : InjOK P inj) (hcl : ∀ s, P s → P (cleanupLoggers inj s))
    (s : BSt) (hs : P s) : P (poll inj s) := by
  unfold poll
  have hp := populate_okR hc hi s hs
  rcases hpe : populate inj s with ⟨s1, count⟩
  rw [hpe] at hp
  simp only []
  split
  · split
    · exact processLowest_okR hc hi _ hp
    · exact batchLoop_okR hc hi _ _ hp
  · have h3 := checkFailures_okR hc hi _ (flushGate_okR hc hi (inj s1 5) (inj s1 5).cfg.flushInterval (hi _ 5 hp).1)
    have h4 := hc.allEmpty _ h3
    split
    · exact hcl _ (preEraseFlush_okR hc _ (hc.cleanupContexts _ h4))
    · exact h4

theorem exitLoop_okR {inj : BSt → Nat → BSt} (hi : InjOK P inj) (hcl : ∀ s, P s → P (cleanupLoggers inj s)) (tick : Nat) :
    ∀ (fuel : Nat) (s : BSt), P s → P (exitLoop inj tick fuel s)
  | 0, _, hs => hs
  | fuel + 1, s, hs => by
    unfold exitLoop
    simp only []
    have h1 := hc.allEmpty s hs
    split
    · exact hcl _ (preEraseFlush_okR hc _ (hc.cleanupContexts _ (hc.flushSinks _ (checkFailures_okR hc hi _ h1))))
    · have h2 := populate_okR hc hi _ (hc.clock _ ((allEmpty s).1.now + tick) h1)
      rcases hpe : populate inj { (allEmpty s).1 with now := (allEmpty s).1.now + tick } with ⟨s1, count⟩
      rw [hpe] at h2
      simp only []
      apply exitLoop_okR hi hcl tick fuel
      split
      · exact batchLoop_okR hc hi _ _ h2
      · exact h2

end

theorem applyOp_closedR {P : BSt → Prop} (hc : ClosedR P)
    (hcl : ∀ table s, P s → P (cleanupLoggers (runInj table) s)) (s : BSt) (op : Op) (hs : P s) : P (applyOp s op).1 := by
  cases op with
  | front f => exact hc.front s f hs
  | poll table =>
    simp only [applyOp]; split
    · exact hs
    · exact poll_okR hc (runInj_okR hc table) (hcl table) _ (hc.siteCnt s [] hs)
  | exit =>
    simp only [applyOp]; split
    · exact hs
    · exact hc.gone _ (exitLoop_okR hc (runInj_okR hc []) (hcl []) _ _ _ (hc.siteCnt s [] hs))

theorem runOps_closedR {P : BSt → Prop} (hc : ClosedR P)
    (hcl : ∀ table s, P s → P (cleanupLoggers (runInj table) s)) : ∀ (ops : List Op) (s : BSt), P s → P (runOps s ops)
  | [], _, hs => hs
  | o :: os, s, hs => by
    show P (runOps (applyOp s o).1 os)
    exact runOps_closedR hc hcl os _ (applyOp_closedR hc hcl s o hs)

/-! ### the instance: `FInv ∧ RP pend` -/

def PR (pend : List Nat) (x : BSt) : Prop := FInv x ∧ RP pend x

theorem PR_closedR (pend : List Nat) : ClosedR (PR pend) where
  siteCnt := fun s x h => ⟨FInv_closed.siteCnt s x h.1, RP_of_fields rfl rfl h.2⟩
  emitInj := fun s a b c d h => ⟨FInv_closed.emitInj s a b c d h.1, RP_of_fields rfl rfl h.2⟩
  note := fun s h => ⟨FInv_closed.note s h.1, RP_of_fields rfl rfl h.2⟩
  clock := fun s n h => ⟨FInv_closed.clock s n h.1, RP_of_fields rfl rfl h.2⟩
  gone := fun s h => ⟨FInv_closed.gone s h.1, RP_of_fields rfl rfl h.2⟩
  lastFlush := fun s n h => ⟨FInv_closed.lastFlush s n h.1, RP_of_fields rfl rfl h.2⟩
  refresh := fun s h => ⟨FInv_closed.refresh s h.1, RP_of_sview h.2 (by unfold refreshCache; split <;> rfl)⟩
  allEmpty := fun s h => ⟨FInv_closed.allEmpty s h.1, RP_of_sview h.2 (allEmpty_sview s)⟩
  hasPending := fun s h => ⟨FInv_closed.hasPending s h.1, RP_of_sview h.2 (hasPending_sview s)⟩
  cleanupContexts := fun s h => ⟨FInv_closed.cleanupContexts s h.1,
    cleanupContexts_pres (RP pend) (fun x i hx => RP_of_fields rfl rfl hx) (fun x i hx => RP_of_fields rfl rfl hx) s h.2⟩
  flushSinks := fun s h => ⟨FInv_closed.flushSinks s h.1, by
    obtain ⟨evs, h1, _⟩ := flushSinks_out s
    exact RP_out h.2 h1⟩
  readPrep := fun s i h => ⟨FInv_closed.readPrep s i h.1, RP_of_fields rfl rfl h.2⟩
  commit := fun s i h => ⟨FInv_closed.commit s i h.1, RP_of_fields rfl rfl h.2⟩
  readOne := fun s i st rest h hr hq => ⟨FInv_closed.readOne s i st rest h.1 hr hq, RP_of_sview h.2 (by
    unfold readOneSt moveSt decodeSt readPrepSt
    split <;> rfl)⟩
  report := fun s i h hf => ⟨FInv_closed.report s i h.1 hf, RP_of_fields rfl rfl h.2⟩
  pop := fun s i st rest h hl hb => ⟨FInv_closed.pop s i st rest h.1 hl hb, RP_popSt h.1.2 h.2 i st rest⟩
  raise := fun s f h hg => ⟨FInv_closed.raise s f h.1 hg, RP_of_fields rfl rfl h.2⟩
  front := fun s f h => ⟨FInv_closed.front s f h.1, RP_front pend s f h.2⟩

/-- the sinks released by an erased logger, visited one by one with hook site 9 after every destructor -/
theorem reapSinksInj_PR (inj : BSt → Nat → BSt) (hinj : ∀ pend x k, PR pend x → PR pend (inj x k)) (pend : List Nat) :
    ∀ (sids : List Nat) (x : BSt), PR (sids ++ pend) x → PR pend (reapSinksInj inj x sids) := by
  intro sids
  unfold reapSinksInj
  induction sids with
  | nil => intro x h; exact h
  | cons y ys ih =>
    intro x h
    simp only [List.foldl_cons]
    apply ih
    split
    · rename_i hc
      simp only [Bool.and_eq_true, decide_eq_true_eq] at hc
      exact hinj _ _ 9 ⟨FInv_closed.reap x y h.1 hc.1 hc.2, RP_kill hc.2 h.2⟩
    · rename_i hc
      simp only [Bool.and_eq_true, decide_eq_true_eq] at hc
      exact ⟨h.1, RP_skip hc h.2⟩

/-- **the logger clean-up as one piece**: every live sink referenced before ⇒ every live sink referenced after, whatever
    the frontend does at hook site 9 -/
theorem cleanupLoggers_PR (inj : BSt → Nat → BSt) (hinj : ∀ pend x k, PR pend x → PR pend (inj x k))
    (s : BSt) (hs : PR [] s) : PR [] (cleanupLoggers inj s) := by
  rw [cleanupLoggers_eq]
  split
  · exact hs
  · apply foldl_pres (PR [])
    · intro x g hx
      unfold flagStep
      split
      · exact ⟨⟨LInv_of_views hx.1.1 rfl rfl rfl, LS_of_sview hx.1.2 rfl⟩, RP_of_fields rfl rfl hx.2⟩
      · exact hx
    · apply foldl_pres_pair (PR [])
      · intro acc i h
        unfold lgStep
        split
        · exact h
        · rename_i hv
          have hA : PR [] (allEmpty acc.1).1 := ⟨FInv_closed.allEmpty _ h.1, RP_of_sview h.2 (allEmpty_sview _)⟩
          split
          · rename_i he
            have hlg : (allEmpty acc.1).1.lgOf i = acc.1.lgOf i := by simp only [BSt.lgOf, allEmpty_lgs]
            have hE := RP_erase hA.2 i
            rw [hlg] at hE
            exact reapSinksInj_PR inj hinj [] _ _
              ⟨FInv_closed.erase acc.1 i h.1 (by simpa using hv) he, hE⟩
          · exact ⟨FInv_closed.invFlag _ true hA.1, RP_of_fields rfl rfl hA.2⟩
      · exact ⟨FInv_closed.invFlag s false hs.1, RP_of_fields rfl rfl hs.2⟩

theorem PR_runOps (s0 : BSt) (h0 : PR [] s0) (ops : List Op) : PR [] (runOps s0 ops) :=
  runOps_closedR (PR_closedR []) (fun table s hs =>
    cleanupLoggers_PR (runInj table) (fun pend x k hx => ((runInj_okR (PR_closedR pend) table) x k hx).1) s hs) ops s0 h0

/-! ### a destroyed sink has exactly one destructor event -/

/-- `DT`: for every sink of the system, dead ⇒ exactly one destructor event in the log (alive ⇒ none is `LS.nodtor`) -/
def DT (x : BSt) : Prop :=
  ∀ sid ∈ x.sinks.map (·.sid), (x.sinkOf sid).alive = false → x.log.countP (isDtor sid) = 1

theorem DT_of_fields {x x' : BSt} (h1 : x'.sinks = x.sinks) (h2 : x'.log = x.log) (h : DT x) : DT x' := by
  have hso : ∀ sid, x'.sinkOf sid = x.sinkOf sid := fun sid => by simp only [BSt.sinkOf, h1]
  intro sid hs ha
  rw [h1] at hs; rw [hso] at ha; rw [h2]
  exact h sid hs ha

theorem DT_of_sview {x x' : BSt} (h : DT x) (hv : sview x' = sview x) : DT x' := by
  simp only [sview, Prod.mk.injEq] at hv
  exact DT_of_fields hv.1 hv.2.2 h

theorem countP_noDtor {evs : List Ev} (h : NoDtorIn evs) (sid : Nat) : evs.countP (isDtor sid) = 0 := by
  rw [List.countP_eq_zero]
  intro e he
  rw [h e he sid]; simp

theorem DT_out {x x' : BSt} {evs : List Ev} (h : DT x) (ho : OutStep x x' evs) (hn : NoDtorIn evs) : DT x' := by
  intro sid hs ha
  rw [ho.sk.1] at hs
  rw [(ho.sk.2 sid).2.2.2.2.2.2.2] at ha
  rw [ho.log, List.countP_append, countP_noDtor hn sid, Nat.zero_add]
  exact h sid hs ha

theorem DT_emit_plain {x : BSt} (h : DT x) (e : Ev) (hd : ∀ sid, isDtor sid e = false) : DT (x.emit e) := by
  intro sid hs ha
  show (e :: x.log).countP (isDtor sid) = 1
  rw [List.countP_cons, hd sid]
  simp only [Bool.false_eq_true, if_false, Nat.add_zero]
  exact h sid hs ha

theorem DT_reapStep {s : BSt} (hL : LS s) (h : DT s) (sid : Nat) (ha : (s.sinkOf sid).alive = true) (hr : sinkRefs s sid = 0) :
    DT ((s.setSink sid (fun k => { k with alive := false })).emit (.sinkDtor sid)) := by
  have hne : ∀ sid', sid' ≠ sid → (s.setSink sid (fun k => { k with alive := false })).sinkOf sid' = s.sinkOf sid' :=
    fun sid' hs => sinkOf_setSink_ne s sid sid' _ (fun _ => rfl) hs
  have hsids : (s.setSink sid (fun k => { k with alive := false })).sinks.map (·.sid) = s.sinks.map (·.sid) :=
    setSink_sids s sid (fun k => { k with alive := false }) (fun y _ hy => hy)
  intro sid' hs' ha'
  have hs'' : sid' ∈ (s.setSink sid (fun k => { k with alive := false })).sinks.map (·.sid) := hs'
  have ha'' : ((s.setSink sid (fun k => { k with alive := false })).sinkOf sid').alive = false := ha'
  show (Ev.sinkDtor sid :: s.log).countP (isDtor sid') = 1
  rw [List.countP_cons]
  by_cases hs : sid' = sid
  · subst hs
    have h0 : s.log.countP (isDtor sid') = 0 := by
      rw [List.countP_eq_zero]
      intro d hd
      rw [hL.nodtor sid' ha d hd]; simp
    rw [h0]; simp [isDtor]
  · rw [hne sid' hs] at ha''
    rw [hsids] at hs''
    have : isDtor sid' (Ev.sinkDtor sid) = false := by
      simp only [isDtor, beq_eq_false_iff_ne, ne_eq]; exact fun e => hs e.symm
    rw [this]
    simp only [Bool.false_eq_true, if_false, Nat.add_zero]
    exact h sid' hs'' ha''

theorem DT_reapSinks (sids : List Nat) : ∀ (s : BSt), LS s → DT s → DT (reapSinks s sids) := by
  unfold reapSinks
  induction sids with
  | nil => intro s _ h; exact h
  | cons x xs ih =>
    intro s hL h
    simp only [List.foldl_cons]
    split
    · rename_i hc
      simp only [Bool.and_eq_true, decide_eq_true_eq] at hc
      exact ih _ (LS_reapStep hL x hc.1 hc.2) (DT_reapStep hL h x hc.1 hc.2)
    · exact ih s hL h

theorem DT_popSt {s : BSt} (hL : LS s) (h : DT s) (i : Nat) (st : Stmt) (rest : List Stmt) : DT (popSt s i st rest) := by
  obtain ⟨evs, h1, hn⟩ := processEvent_out hL st
  unfold popSt
  simp only []
  split
  · rename_i m _
    exact DT_of_fields (x := (processEvent s st).1.emit (.notify m)) rfl rfl
      (DT_emit_plain (DT_out h h1 hn) _ (fun _ => rfl))
  · exact DT_of_fields (x := (processEvent s st).1) rfl rfl (DT_out h h1 hn)

theorem DT_setSink {s : BSt} (h : DT s) (sid : Nat) (f : Sink → Sink) (hf : ∀ x, (f x).sid = x.sid)
    (hal : ∀ x, (f x).alive = x.alive) : DT (s.setSink sid f) := by
  intro sid' hs' ha'
  rw [setSink_sids s sid f (fun y _ hy => by rw [hf, hy])] at hs'
  have hp := sinkOf_setSink_proj s sid f hf (·.alive) hal sid'
  rw [hp] at ha'
  exact h sid' hs' ha'

theorem DT_front (s : BSt) (f : FOp) (hL : LS s) (h : DT s) : DT (applyFront s f).1 := by
  cases f <;> simp only [applyFront]
  case tick => exact DT_of_fields rfl rfl h
  case tstart => split <;> exact DT_of_fields rfl rfl h
  case texit => split; exact h; split <;> exact DT_of_fields rfl rfl h
  case resume a =>
    split
    · exact DT_of_sview h (resume_sview s a)
    · split
      · exact DT_of_sview h (resume_sview s a)
      · exact DT_of_sview h (resume_sview s a)
  case armStall => split <;> exact DT_of_fields rfl rfl h
  case log a g lvl len dyn =>
    refine DT_of_sview h (withLogger_sview _ _ _ _ (fun lgi => ?_)); split
    · exact frontCall_sview ..
    · rfl
  case logNamed a g len =>
    refine DT_of_sview h (withLogger_sview _ _ _ _ (fun lgi => ?_)); split
    · exact frontCall_sview ..
    · rfl
  case logBt a g len =>
    refine DT_of_sview h (withLogger_sview _ _ _ _ (fun lgi => ?_)); split
    · exact frontCall_sview ..
    · rfl
  case initBt => exact DT_of_sview h (withLogger_sview _ _ _ _ (fun lgi => frontCall_sview ..))
  case flushBt => exact DT_of_sview h (withLogger_sview _ _ _ _ (fun lgi => frontCall_sview ..))
  case flush => exact DT_of_sview h (withLogger_sview _ _ _ _ (fun lgi => frontCall_sview ..))
  case removeBlocking a g =>
    split
    · exact h
    · exact DT_of_sview h (withLogger_sview _ _ _ _ (fun lgi => frontCall_sview ..))
  case remove a g =>
    split
    · exact h
    · split
      · exact DT_of_fields rfl rfl h
      · exact h
  case create a g sl =>
    split
    · exact h
    · split
      · split
        · exact h
        · exact DT_of_fields rfl rfl h
      · exact DT_of_fields rfl rfl h
  case setLevel g lvl =>
    split
    · exact DT_of_fields rfl rfl h
    · exact h
  case setSinkLevel sid lvl =>
    split
    · exact DT_setSink h sid _ (fun _ => rfl) (fun _ => rfl)
    · exact h
  case dropSink sid =>
    apply DT_reapSinks
    · exact LS_setSink hL sid _ (fun _ => rfl) (fun _ => rfl) (fun _ hu => by cases hu)
    · exact DT_setSink h sid _ (fun _ => rfl) (fun _ => rfl)
  case query => exact h

def FD (x : BSt) : Prop := FInv x ∧ DT x

theorem FD_closed : Closed FD where
  front := fun s f h => ⟨FInv_closed.front s f h.1, DT_front s f h.1.2 h.2⟩
  siteCnt := fun s x h => ⟨FInv_closed.siteCnt s x h.1, DT_of_fields rfl rfl h.2⟩
  emitInj := fun s a b c d h => ⟨FInv_closed.emitInj s a b c d h.1, DT_emit_plain h.2 _ (fun _ => rfl)⟩
  note := fun s h => ⟨FInv_closed.note s h.1, DT_emit_plain h.2 _ (fun _ => rfl)⟩
  clock := fun s n h => ⟨FInv_closed.clock s n h.1, DT_of_fields rfl rfl h.2⟩
  gone := fun s h => ⟨FInv_closed.gone s h.1, DT_of_fields rfl rfl h.2⟩
  lastFlush := fun s n h => ⟨FInv_closed.lastFlush s n h.1, DT_of_fields rfl rfl h.2⟩
  refresh := fun s h => ⟨FInv_closed.refresh s h.1, DT_of_sview h.2 (by unfold refreshCache; split <;> rfl)⟩
  allEmpty := fun s h => ⟨FInv_closed.allEmpty s h.1, DT_of_sview h.2 (allEmpty_sview s)⟩
  hasPending := fun s h => ⟨FInv_closed.hasPending s h.1, DT_of_sview h.2 (hasPending_sview s)⟩
  cleanupContexts := fun s h => ⟨FInv_closed.cleanupContexts s h.1,
    cleanupContexts_pres DT (fun x i hx => DT_of_fields rfl rfl hx) (fun x i hx => DT_of_fields rfl rfl hx) s h.2⟩
  invFlag := fun s b h => ⟨FInv_closed.invFlag s b h.1, DT_of_fields rfl rfl h.2⟩
  erase := fun s i h hv he => ⟨FInv_closed.erase s i h.1 hv he, by
    have hv' := allEmpty_sview s
    simp only [sview, Prod.mk.injEq] at hv'
    exact DT_of_fields (x := s) hv'.1 hv'.2.2 h.2⟩
  reap := fun s sid h ha hr => ⟨FInv_closed.reap s sid h.1 ha hr, DT_reapStep h.1.2 h.2 sid ha hr⟩
  flagRemoval := fun s0 s f g h0 h he hf => ⟨FInv_closed.flagRemoval s0 s f g h0.1 h.1 he hf, DT_of_fields rfl rfl h.2⟩
  flushSinks := fun s h => ⟨FInv_closed.flushSinks s h.1, by
    obtain ⟨evs, h1, h2⟩ := flushSinks_out s
    exact DT_out h.2 h1 h2.noDtor⟩
  readPrep := fun s i h => ⟨FInv_closed.readPrep s i h.1, DT_of_fields rfl rfl h.2⟩
  commit := fun s i h => ⟨FInv_closed.commit s i h.1, DT_of_fields rfl rfl h.2⟩
  readOne := fun s i st rest h hr hq => ⟨FInv_closed.readOne s i st rest h.1 hr hq, DT_of_sview h.2 (by
    unfold readOneSt moveSt decodeSt readPrepSt
    split <;> rfl)⟩
  report := fun s i h hf => ⟨FInv_closed.report s i h.1 hf, by
    have h1 : DT (s.setTh i (fun t => { t with fail := 0 })) := DT_of_fields rfl rfl h.2
    exact DT_of_fields rfl rfl (DT_emit_plain h1 _ (fun _ => rfl))⟩
  pop := fun s i st rest h hl hb => ⟨FInv_closed.pop s i st rest h.1 hl hb, DT_popSt h.1.2 h.2 i st rest⟩
  raise := fun s f h hg => ⟨FInv_closed.raise s f h.1 hg, DT_of_fields rfl rfl h.2⟩

theorem FD_runOps (s0 : BSt) (h0 : FD s0) (ops : List Op) : FD (runOps s0 ops) :=
  runOps_closed FD_closed ops s0 h0

end Backend.PC
