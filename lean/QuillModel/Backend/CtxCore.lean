import QuillModel.Backend.PcSkeleton
/-!
The part of the backend state the thread-context bookkeeping lives in (`Core`), the invariant `CI` on it and its
preservation by the five moves that touch it (register, thread start, thread exit, cache refresh, removal).
Helper lemmas for C20 / C07.
-/
namespace Backend.PC
open Backend Spsc

/-- flipping the predicate at one element of a duplicate-free list adds one to the filtered length -/
theorem filter_length_flip (l : List Nat) (i : Nat) (p p' : Nat → Bool) (hn : l.Nodup) (hi : i ∈ l)
    (hp : p i = false) (hp' : p' i = true) (hne : ∀ j, j ≠ i → p' j = p j) :
    (l.filter p').length = (l.filter p).length + 1 := by
  induction l with
  | nil => cases hi
  | cons x xs ih =>
    rw [List.nodup_cons] at hn
    by_cases hx : x = i
    · subst hx
      have hsame : xs.filter p' = xs.filter p := by
        apply List.filter_congr
        intro j hj
        exact hne j (fun h => hn.1 (h ▸ hj))
      simp [hp, hp', hsame]
    · have hi' : i ∈ xs := by
        rcases List.mem_cons.mp hi with h | h
        · exact absurd h.symm hx
        · exact h
      have := ih hn.2 hi'
      simp only [List.filter_cons, hne x hx]
      split <;> simp [this]

/-- dropping one element that satisfies the predicate from a duplicate-free list -/
theorem filter_length_drop (l : List Nat) (i : Nat) (p : Nat → Bool) (hn : l.Nodup) (hi : i ∈ l) (hp : p i = true) :
    ((l.filter (· ≠ i)).filter p).length + 1 = (l.filter p).length := by
  induction l with
  | nil => cases hi
  | cons x xs ih =>
    rw [List.nodup_cons] at hn
    by_cases hx : x = i
    · subst hx
      have : xs.filter (· ≠ x) = xs := by
        apply List.filter_eq_self.mpr
        intro j hj; simp; exact fun h => hn.1 (h ▸ hj)
      rw [List.filter_cons_of_neg (by simp), this, List.filter_cons_of_pos hp]; rfl
    · have hi' : i ∈ xs := by
        rcases List.mem_cons.mp hi with h | h
        · exact absurd h.symm hx
        · exact h
      have := ih hn.2 hi'
      rw [List.filter_cons_of_pos (by simpa using hx)]
      by_cases hpx : p x = true
      · rw [List.filter_cons_of_pos hpx, List.filter_cons_of_pos hpx, List.length_cons, List.length_cons, this]
      · rw [List.filter_cons_of_neg hpx, List.filter_cons_of_neg hpx, this]

theorem mod_succ_mod (n M : Nat) : (n % M + 1) % M = (n + 1) % M := by
  rw [Nat.add_mod, Nat.mod_mod, ← Nat.add_mod]

theorem mod_pred_mod (n M : Nat) (hM : 0 < M) (hn : 0 < n) : (n % M + M - 1) % M = (n - 1) % M := by
  have hdm := Nat.div_add_mod n M
  have h : n % M + M - 1 + M * (n / M) = (n - 1) + M := by omega
  calc (n % M + M - 1) % M = (n % M + M - 1 + M * (n / M)) % M := (Nat.add_mul_mod_self_left ..).symm
    _ = ((n - 1) + M) % M := by rw [h]
    _ = (n - 1) % M := Nat.add_mod_right ..


/-! ### the part of the state the thread-context bookkeeping lives in -/

structure TC where
  valid : Bool
  owner : Nat
  deriving DecidableEq, Repr

structure AC where
  id : Nat
  alive : Bool
  ctx : Option Nat
  deriving DecidableEq, Repr

structure Core where
  bits : Nat
  ths : List TC
  registry : List Nat
  cache : List Nat
  newFlag : Bool
  cnt : Nat
  actors : List AC
  deriving DecidableEq, Repr

def core (s : BSt) : Core :=
  { bits := s.cfg.invalidBits, ths := s.ths.map (fun t => ⟨t.valid, t.actor⟩), registry := s.registry,
    cache := s.cache, newFlag := s.newFlag, cnt := s.invalidCnt,
    actors := s.actors.map (fun x => ⟨x.id, x.alive, x.ctx⟩) }

def Core.valid (c : Core) (i : Nat) : Bool := (c.ths.getD i ⟨true, 0⟩).valid
def Core.nInvalid (c : Core) : Nat := (c.registry.filter (fun i => !c.valid i)).length
def Core.live (c : Core) (a : Nat) : Option AC := c.actors.find? (fun x => x.id = a ∧ x.alive)

structure CI (c : Core) : Prop where
  ids : c.actors.Pairwise (fun x y => x.alive = true → y.alive = true → x.id ≠ y.id)
  own : ∀ x ∈ c.actors, x.alive = true → ∀ i, x.ctx = some i → c.ths[i]? = some ⟨true, x.id⟩ ∧ i ∈ c.registry
  regNodup : c.registry.Nodup
  regLt : ∀ i ∈ c.registry, i < c.ths.length
  sub : ∀ i ∈ c.cache, i ∈ c.registry
  cnt : c.cnt = c.nInvalid % 2 ^ c.bits
  fresh : c.newFlag = false → c.cache = c.registry
  owned : ∀ i, i < c.ths.length → c.valid i = true → ∃ x ∈ c.actors, x.alive = true ∧ x.ctx = some i

/-! moves -/

def Core.register (c : Core) (a : Nat) : Core :=
  { c with ths := c.ths ++ [⟨true, a⟩], registry := c.registry ++ [c.ths.length], newFlag := true,
           actors := c.actors.map (fun x => if x.id = a ∧ x.alive then { x with ctx := some c.ths.length } else x) }

def Core.tstart (c : Core) (a : Nat) : Core := { c with actors := c.actors ++ [⟨a, true, none⟩] }

def Core.refresh (c : Core) : Core := if c.newFlag then { c with cache := c.registry, newFlag := false } else c

def Core.remove (c : Core) (i : Nat) : Core :=
  { c with registry := c.registry.filter (· ≠ i), cache := c.cache.filter (· ≠ i),
           cnt := (c.cnt + 2 ^ c.bits - 1) % 2 ^ c.bits }

def Core.exit (c : Core) (a : Nat) : Core :=
  let c1 := { c with actors := c.actors.map (fun x => if x.id = a ∧ x.alive then { x with alive := false } else x) }
  match (c.live a).bind (·.ctx) with
  | some i => { c1 with ths := updAt c.ths i (fun t => { t with valid := false }), cnt := (c.cnt + 1) % 2 ^ c.bits }
  | none => c1

theorem valid_lt (c : Core) (i : Nat) (h : c.valid i = false) : i < c.ths.length := by
  unfold Core.valid at h
  by_cases hi : i < c.ths.length
  · exact hi
  · rw [List.getD_eq_getElem?_getD, List.getElem?_eq_none (by omega)] at h; cases h

theorem CI.refresh {c : Core} (h : CI c) : CI c.refresh := by
  unfold Core.refresh
  split
  · exact { h with sub := fun i hi => hi, fresh := fun _ => rfl }
  · exact h

theorem CI.tstart {c : Core} (h : CI c) (a : Nat) (hn : c.live a = none) : CI (c.tstart a) := by
  have hno : ∀ x ∈ c.actors, x.alive = true → x.id ≠ a := by
    intro x hx hal hid
    have := List.find?_eq_none.mp hn x hx
    simp [hid, hal] at this
  refine { h with ids := ?_, own := ?_, owned := ?_ }
  · simp only [Core.tstart]
    rw [List.pairwise_append]
    refine ⟨h.ids, List.pairwise_singleton _ _, ?_⟩
    intro x hx y hy hax _
    simp only [List.mem_singleton] at hy
    subst hy
    exact hno x hx hax
  · intro x hx hal i hi
    simp only [Core.tstart, List.mem_append, List.mem_singleton] at hx
    rcases hx with hx | hx
    · exact h.own x hx hal i hi
    · subst hx; cases hi
  · intro i hi hv
    obtain ⟨x, hx, h1, h2⟩ := h.owned i hi hv
    exact ⟨x, by simp only [Core.tstart, List.mem_append]; exact Or.inl hx, h1, h2⟩


theorem find_live_unique : ∀ (l : List AC),
    l.Pairwise (fun x y => x.alive = true → y.alive = true → x.id ≠ y.id) → ∀ x ∈ l, x.alive = true →
    l.find? (fun y => y.id = x.id ∧ y.alive) = some x
  | [], _, _, hx, _ => by cases hx
  | y :: ys, hids, x, hx, hal => by
    rw [List.pairwise_cons] at hids
    rw [List.find?_cons]
    rcases List.mem_cons.mp hx with rfl | hx'
    · simp [hal]
    · have hne : ¬ (y.id = x.id ∧ y.alive = true) := fun hy => hids.1 x hx' hy.2 hal hy.1
      simp only [hne, decide_false]
      exact find_live_unique ys hids.2 x hx' hal

/-- with pairwise distinct live ids, a live actor with id `a` is the one `live a` finds -/
theorem live_unique {c : Core} (h : CI c) {x : AC} (hx : x ∈ c.actors) (hal : x.alive = true) :
    c.live x.id = some x := find_live_unique c.actors h.ids x hx hal

theorem live_mem {c : Core} {a : Nat} {x : AC} (h : c.live a = some x) : x ∈ c.actors ∧ x.id = a ∧ x.alive = true := by
  unfold Core.live at h
  have h1 := List.mem_of_find?_eq_some h
  have h2 := List.find?_some h
  simp only [decide_eq_true_eq] at h2
  exact ⟨h1, h2.1, h2.2⟩

theorem valid_of_getElem? {c : Core} {i : Nat} {t : TC} (h : c.ths[i]? = some t) : c.valid i = t.valid := by
  unfold Core.valid; rw [List.getD_eq_getElem?_getD, h]; rfl

theorem CI.register {c : Core} (h : CI c) (a : Nat) (x : AC) (hx : c.live a = some x) (hc : x.ctx = none) :
    CI (c.register a) := by
  obtain ⟨hxm, hxid, hxal⟩ := live_mem hx
  have hvalid : ∀ j, j < c.ths.length → (c.register a).valid j = c.valid j := by
    intro j hj
    simp only [Core.valid, Core.register, List.getD_eq_getElem?_getD, List.getElem?_append_left hj]
  have hvalidn : (c.register a).valid c.ths.length = true := by
    simp [Core.valid, Core.register, List.getD_eq_getElem?_getD]
  refine ⟨?_, ?_, ?_, ?_, ?_, ?_, ?_, ?_⟩
  · simp only [Core.register]
    rw [List.pairwise_map]
    apply h.ids.imp
    intro y z hyz hy hz
    have e1 : ∀ w : AC, (if w.id = a ∧ w.alive = true then { w with ctx := some c.ths.length } else w).alive = w.alive := by
      intro w; split <;> rfl
    have e2 : ∀ w : AC, (if w.id = a ∧ w.alive = true then { w with ctx := some c.ths.length } else w).id = w.id := by
      intro w; split <;> rfl
    rw [e1] at hy hz; rw [e2, e2]; exact hyz hy hz
  · intro y' hy' hal i hi
    simp only [Core.register, List.mem_map] at hy'
    obtain ⟨y, hy, rfl⟩ := hy'
    by_cases hya : y.id = a ∧ y.alive = true
    · simp only [hya, and_self, if_true] at hi hal ⊢
      cases hi
      simp only [Core.register]
      refine ⟨by simp, by simp⟩
    · simp only [hya, if_false] at hi hal ⊢
      obtain ⟨h1, h2⟩ := h.own y hy hal i hi
      have hlt : i < c.ths.length := by
        rcases Nat.lt_or_ge i c.ths.length with hlt | hge
        · exact hlt
        · rw [List.getElem?_eq_none hge] at h1; cases h1
      simp only [Core.register]
      exact ⟨by rw [List.getElem?_append_left hlt]; exact h1, List.mem_append_left _ h2⟩
  · simp only [Core.register]
    rw [List.nodup_append]
    refine ⟨h.regNodup, by simp, ?_⟩
    intro i hi j hj
    simp only [List.mem_singleton] at hj
    subst hj
    exact Nat.ne_of_lt (h.regLt i hi)
  · intro i hi
    simp only [Core.register, List.mem_append, List.mem_singleton, List.length_append, List.length_singleton] at hi ⊢
    rcases hi with hi | hi
    · have := h.regLt i hi; omega
    · omega
  · intro i hi
    simp only [Core.register] at hi ⊢
    exact List.mem_append_left _ (h.sub i hi)
  · have : (c.register a).nInvalid = c.nInvalid := by
      unfold Core.nInvalid
      have hreg : (c.register a).registry = c.registry ++ [c.ths.length] := rfl
      rw [hreg, List.filter_append]
      have h1 : c.registry.filter (fun i => !(c.register a).valid i) = c.registry.filter (fun i => !c.valid i) := by
        apply List.filter_congr
        intro j hj; rw [hvalid j (h.regLt j hj)]
      rw [h1]
      simp [hvalidn]
    show c.cnt = _
    rw [this]; exact h.cnt
  · intro hf; cases hf
  · intro i hi hv
    simp only [Core.register, List.length_append, List.length_singleton] at hi
    by_cases hin : i = c.ths.length
    · subst hin
      refine ⟨{ x with ctx := some c.ths.length }, ?_, hxal, rfl⟩
      simp only [Core.register, List.mem_map]
      exact ⟨x, hxm, by simp [hxid, hxal]⟩
    · have hlt : i < c.ths.length := by omega
      rw [hvalid i hlt] at hv
      obtain ⟨y, hy, hyal, hyc⟩ := h.owned i hlt hv
      refine ⟨y, ?_, hyal, hyc⟩
      simp only [Core.register, List.mem_map]
      refine ⟨y, hy, ?_⟩
      have : ¬ (y.id = a ∧ y.alive = true) := by
        intro hya
        have := live_unique h hy hyal
        rw [hya.1, hx] at this
        cases this
        rw [hc] at hyc; cases hyc
      simp [this]


theorem CI.remove {c : Core} (h : CI c) (i : Nat) (hi : i ∈ c.cache) (hv : c.valid i = false) : CI (c.remove i) := by
  have hir := h.sub i hi
  refine ⟨h.ids, ?_, ?_, ?_, ?_, ?_, ?_, h.owned⟩
  · intro y hy hal j hj
    obtain ⟨h1, h2⟩ := h.own y hy hal j hj
    refine ⟨h1, ?_⟩
    simp only [Core.remove, List.mem_filter]
    refine ⟨h2, ?_⟩
    have : c.valid j = true := valid_of_getElem? h1
    have : j ≠ i := fun e => by rw [e, hv] at this; cases this
    simpa using this
  · exact h.regNodup.filter _
  · intro j hj
    simp only [Core.remove, List.mem_filter] at hj
    exact h.regLt j hj.1
  · intro j hj
    simp only [Core.remove, List.mem_filter] at hj ⊢
    exact ⟨h.sub j hj.1, hj.2⟩
  · have hdrop := filter_length_drop c.registry i (fun j => !c.valid j) h.regNodup hir (by simp [hv])
    have hM : 0 < 2 ^ c.bits := Nat.pos_of_ne_zero (by simp)
    have hpos : 0 < c.nInvalid := by unfold Core.nInvalid; omega
    have : (c.remove i).nInvalid = c.nInvalid - 1 := by
      unfold Core.nInvalid
      show ((c.registry.filter (· ≠ i)).filter (fun j => !c.valid j)).length = _
      omega
    show (c.cnt + 2 ^ c.bits - 1) % 2 ^ c.bits = _
    rw [this, h.cnt]
    exact mod_pred_mod _ _ hM hpos
  · intro hf
    show c.cache.filter (· ≠ i) = c.registry.filter (· ≠ i)
    rw [h.fresh hf]

theorem CI.exit {c : Core} (h : CI c) (a : Nat) : CI (c.exit a) := by
  -- the actor list after the exit
  have hmapmem : ∀ y' ∈ c.actors.map (fun x => if x.id = a ∧ x.alive = true then { x with alive := false } else x),
      y'.alive = true → y' ∈ c.actors ∧ ¬ (y'.id = a) := by
    intro y' hy' hal
    simp only [List.mem_map] at hy'
    obtain ⟨y, hy, rfl⟩ := hy'
    by_cases hya : y.id = a ∧ y.alive = true
    · simp [hya] at hal
    · simp only [hya, if_false] at hal ⊢
      exact ⟨hy, fun e => hya ⟨e, hal⟩⟩
  have hids' : (c.actors.map (fun x => if x.id = a ∧ x.alive = true then { x with alive := false } else x)).Pairwise
      (fun x y => x.alive = true → y.alive = true → x.id ≠ y.id) := by
    rw [List.pairwise_map]
    apply h.ids.imp
    intro y z hyz hy hz
    have e1 : ∀ w : AC, (if w.id = a ∧ w.alive = true then { w with alive := false } else w).alive = true → w.alive = true := by
      intro w; split
      · intro hh; cases hh
      · exact id
    have e2 : ∀ w : AC, (if w.id = a ∧ w.alive = true then { w with alive := false } else w).id = w.id := by
      intro w; split <;> rfl
    rw [e2, e2]; exact hyz (e1 _ hy) (e1 _ hz)
  have hkeep : ∀ y ∈ c.actors, y.alive = true → y.id ≠ a →
      y ∈ c.actors.map (fun x => if x.id = a ∧ x.alive = true then { x with alive := false } else x) := by
    intro y hy _ hne
    simp only [List.mem_map]
    exact ⟨y, hy, by simp [hne]⟩
  unfold Core.exit
  simp only []
  cases hl : c.live a with
  | none =>
    simp only [Option.bind_none]
    refine ⟨hids', ?_, h.regNodup, h.regLt, h.sub, h.cnt, h.fresh, ?_⟩
    · intro y' hy' hal i hi
      exact h.own y' (hmapmem y' hy' hal).1 hal i hi
    · intro i hi hv
      obtain ⟨y, hy, hyal, hyc⟩ := h.owned i hi hv
      refine ⟨y, hkeep y hy hyal ?_, hyal, hyc⟩
      intro e
      have := live_unique h hy hyal
      rw [e, hl] at this; cases this
  | some x =>
    obtain ⟨hxm, hxid, hxal⟩ := live_mem hl
    simp only [Option.bind_some]
    cases hxc : x.ctx with
    | none =>
      simp only []
      refine ⟨hids', ?_, h.regNodup, h.regLt, h.sub, h.cnt, h.fresh, ?_⟩
      · intro y' hy' hal i hi
        exact h.own y' (hmapmem y' hy' hal).1 hal i hi
      · intro i hi hv
        obtain ⟨y, hy, hyal, hyc⟩ := h.owned i hi hv
        refine ⟨y, hkeep y hy hyal ?_, hyal, hyc⟩
        intro e
        have := live_unique h hy hyal
        rw [e, hl] at this; cases this
        rw [hxc] at hyc; cases hyc
    | some i =>
      simp only []
      obtain ⟨hti, hireg⟩ := h.own x hxm hxal i hxc
      have hilt : i < c.ths.length := by
        rcases Nat.lt_or_ge i c.ths.length with hlt | hge
        · exact hlt
        · rw [List.getElem?_eq_none hge] at hti; cases hti
      have hvi : c.valid i = true := valid_of_getElem? hti
      -- validity after the update
      have hget : ∀ j, (updAt c.ths i (fun t => { t with valid := false }))[j]? =
          if j = i then (c.ths[j]?).map (fun t => { t with valid := false }) else c.ths[j]? := by
        intro j
        simp only [updAt, List.getElem?_mapIdx]
        by_cases hj : j = i
        · simp [hj]
        · simp [hj]
      refine ⟨hids', ?_, h.regNodup, ?_, h.sub, ?_, h.fresh, ?_⟩
      · intro y' hy' hal j hj
        obtain ⟨hy, hne⟩ := hmapmem y' hy' hal
        obtain ⟨h1, h2⟩ := h.own y' hy hal j hj
        refine ⟨?_, h2⟩
        have hji : j ≠ i := by
          intro e; rw [e, hti] at h1
          have : y'.id = x.id := by
            have := congrArg TC.owner (Option.some.inj h1); exact this.symm
          exact hne (this.trans hxid)
        show (updAt c.ths i _)[j]? = _
        rw [hget]; simp only [hji, if_false]; exact h1
      · intro j hj
        show j < (updAt c.ths i _).length
        rw [updAt_length]; exact h.regLt j hj
      · have hflip := filter_length_flip c.registry i (fun j => !c.valid j)
          (fun j => !(Core.valid { c with ths := updAt c.ths i (fun t => { t with valid := false }) } j)) h.regNodup hireg
          (by simp [hvi])
          (by simp only [Core.valid, List.getD_eq_getElem?_getD, hget, if_true, hti]; rfl)
          (by intro j hj; simp only [Core.valid, List.getD_eq_getElem?_getD, hget, hj, if_false])
        show (c.cnt + 1) % 2 ^ c.bits = _
        have : Core.nInvalid { c with
            actors := c.actors.map (fun x => if x.id = a ∧ x.alive = true then { x with alive := false } else x),
            ths := updAt c.ths i (fun t => { t with valid := false }),
            cnt := (c.cnt + 1) % 2 ^ c.bits } = c.nInvalid + 1 := hflip
        rw [this, h.cnt]; exact mod_succ_mod _ _
      · intro j hj hv
        have hjlt : j < c.ths.length := by
          have : j < (updAt c.ths i (fun t => { t with valid := false })).length := hj
          rw [updAt_length] at this; exact this
        have hji : j ≠ i := by
          intro e
          have : Core.valid { c with ths := updAt c.ths i (fun t => { t with valid := false }) } j = true := hv
          simp only [Core.valid, List.getD_eq_getElem?_getD, hget, e, if_true, hti] at this
          cases this
        have hvj : c.valid j = true := by
          have : Core.valid { c with ths := updAt c.ths i (fun t => { t with valid := false }) } j = true := hv
          simpa only [Core.valid, List.getD_eq_getElem?_getD, hget, hji, if_false] using this
        obtain ⟨y, hy, hyal, hyc⟩ := h.owned j hjlt hvj
        refine ⟨y, hkeep y hy hyal ?_, hyal, hyc⟩
        intro e
        have := live_unique h hy hyal
        rw [e, hl] at this; cases this
        rw [hxc] at hyc; cases hyc; exact hji rfl

end Backend.PC
