import QuillModel.Backend.Sched
/-!
Frame facts of the two flush call sites added for C06 / F33: `flushGate` (the idle branch of `_poll`, gated on
`sink_min_flush_interval`) and `preEraseFlush` (head of `_cleanup_invalidated_loggers`, F33 repair). Both change only the
sinks' call counters and the event lists — plus, for the gate, whatever the injected clock read does and `lastFlush`.
-/
namespace Backend

/-- only the sinks and the event lists change -/
def SOL (s s' : BSt) : Prop := ∃ a c d, s' = { s with sinks := a, out := c, log := d }
theorem SOL.refl (s : BSt) : SOL s s := ⟨s.sinks, s.out, s.log, rfl⟩
theorem SOL.trans {a b c : BSt} (h1 : SOL a b) (h2 : SOL b c) : SOL a c := by
  obtain ⟨x1, x3, x4, rfl⟩ := h1
  obtain ⟨y1, y3, y4, rfl⟩ := h2
  exact ⟨y1, y3, y4, rfl⟩
theorem SOL.emit (s : BSt) (e : Ev) : SOL s (s.emit e) := ⟨s.sinks, e :: s.out, e :: s.log, rfl⟩
theorem SOL.setSink (s : BSt) (i : Nat) (f : Sink → Sink) : SOL s (s.setSink i f) := ⟨_, s.out, s.log, rfl⟩

/-! projections untouched by a `SOL` step -/
theorem SOL.cfg {s s' : BSt} (h : SOL s s') : s'.cfg = s.cfg := by obtain ⟨_, _, _, rfl⟩ := h; rfl
theorem SOL.now {s s' : BSt} (h : SOL s s') : s'.now = s.now := by obtain ⟨_, _, _, rfl⟩ := h; rfl
theorem SOL.ths {s s' : BSt} (h : SOL s s') : s'.ths = s.ths := by obtain ⟨_, _, _, rfl⟩ := h; rfl
theorem SOL.registry {s s' : BSt} (h : SOL s s') : s'.registry = s.registry := by obtain ⟨_, _, _, rfl⟩ := h; rfl
theorem SOL.cache {s s' : BSt} (h : SOL s s') : s'.cache = s.cache := by obtain ⟨_, _, _, rfl⟩ := h; rfl
theorem SOL.newFlag {s s' : BSt} (h : SOL s s') : s'.newFlag = s.newFlag := by obtain ⟨_, _, _, rfl⟩ := h; rfl
theorem SOL.invalidCnt {s s' : BSt} (h : SOL s s') : s'.invalidCnt = s.invalidCnt := by obtain ⟨_, _, _, rfl⟩ := h; rfl
theorem SOL.lgs {s s' : BSt} (h : SOL s s') : s'.lgs = s.lgs := by obtain ⟨_, _, _, rfl⟩ := h; rfl
theorem SOL.names {s s' : BSt} (h : SOL s s') : s'.names = s.names := by obtain ⟨_, _, _, rfl⟩ := h; rfl
theorem SOL.hasInvalidLoggers {s s' : BSt} (h : SOL s s') : s'.hasInvalidLoggers = s.hasInvalidLoggers := by obtain ⟨_, _, _, rfl⟩ := h; rfl
theorem SOL.actors {s s' : BSt} (h : SOL s s') : s'.actors = s.actors := by obtain ⟨_, _, _, rfl⟩ := h; rfl
theorem SOL.removalFlags {s s' : BSt} (h : SOL s s') : s'.removalFlags = s.removalFlags := by obtain ⟨_, _, _, rfl⟩ := h; rfl
theorem SOL.flags {s s' : BSt} (h : SOL s s') : s'.flags = s.flags := by obtain ⟨_, _, _, rfl⟩ := h; rfl
theorem SOL.nextFlag {s s' : BSt} (h : SOL s s') : s'.nextFlag = s.nextFlag := by obtain ⟨_, _, _, rfl⟩ := h; rfl
theorem SOL.nextId {s s' : BSt} (h : SOL s s') : s'.nextId = s.nextId := by obtain ⟨_, _, _, rfl⟩ := h; rfl
theorem SOL.backendGone {s s' : BSt} (h : SOL s s') : s'.backendGone = s.backendGone := by obtain ⟨_, _, _, rfl⟩ := h; rfl
theorem SOL.siteCnt {s s' : BSt} (h : SOL s s') : s'.siteCnt = s.siteCnt := by obtain ⟨_, _, _, rfl⟩ := h; rfl
theorem SOL.reported {s s' : BSt} (h : SOL s s') : s'.reported = s.reported := by obtain ⟨_, _, _, rfl⟩ := h; rfl
theorem SOL.popLog {s s' : BSt} (h : SOL s s') : s'.popLog = s.popLog := by obtain ⟨_, _, _, rfl⟩ := h; rfl
theorem SOL.flagLog {s s' : BSt} (h : SOL s s') : s'.flagLog = s.flagLog := by obtain ⟨_, _, _, rfl⟩ := h; rfl
theorem SOL.lastFlush {s s' : BSt} (h : SOL s s') : s'.lastFlush = s.lastFlush := by obtain ⟨_, _, _, rfl⟩ := h; rfl
theorem SOL.th {s s' : BSt} (h : SOL s s') (i : Nat) : s'.th i = s.th i := by obtain ⟨_, _, _, rfl⟩ := h; rfl
theorem SOL.lgOf {s s' : BSt} (h : SOL s s') (i : Nat) : s'.lgOf i = s.lgOf i := by obtain ⟨_, _, _, rfl⟩ := h; rfl

theorem flushSinks_sol (s : BSt) : SOL s (flushSinks s) := by
  unfold flushSinks
  generalize activeSinks s = l
  induction l generalizing s with
  | nil => exact SOL.refl _
  | cons x xs ih =>
    rw [List.foldl_cons]
    refine SOL.trans ?_ (ih _)
    simp only
    split
    · exact ((SOL.setSink _ _ _).trans (SOL.emit _ _)).trans (SOL.emit _ _)
    · exact (SOL.setSink _ _ _).trans (SOL.emit _ _)

theorem preEraseFlush_sol (s : BSt) : SOL s (preEraseFlush s) := by
  unfold preEraseFlush
  split
  · exact flushSinks_sol s
  · exact SOL.refl s

/-- the gate is: nothing, or the clock read alone, or the clock read, the time stamp and the flush -/
theorem flushGate_cases (inj : BSt → Nat → BSt) (s : BSt) (n : Nat) :
    (n = 0 ∧ flushGate inj s n = flushSinks s) ∨
    (n ≠ 0 ∧ flushGate inj s n = inj s 7) ∨
    (n ≠ 0 ∧ flushGate inj s n = flushSinks { inj s 7 with lastFlush := (inj s 7).now }) := by
  unfold flushGate
  by_cases h : n = 0
  · left; exact ⟨h, by rw [if_pos h]⟩
  · right
    rw [if_neg h]
    simp only
    split
    · right; exact ⟨h, rfl⟩
    · left; exact ⟨h, rfl⟩

/-- with interval 0 the gate is the unconditional flush -/
theorem flushGate_zero (inj : BSt → Nat → BSt) (s : BSt) : flushGate inj s 0 = flushSinks s := by
  unfold flushGate; rw [if_pos rfl]

end Backend
